import PtnModel.Proofs.OgPrim
import PtnModel.Proofs.OgConsistent
/-!
# `rename_edge_id` keeps the denotation and structural validity
-/
set_option linter.unusedSectionVars false
namespace Ptn.Og
open List Rw
variable {κ : Type} [CommRing κ] [DecidableEq κ]

/-- the path sum only depends on the multiset of (endpoints, operators) of the edges -/
theorem denE_congr_perm {es es' : List (Edge κ)}
    (h : (es.map fun e => (e.nids, e.opics)).Perm (es'.map fun e => (e.nids, e.opics))) (t : Int) :
    ∀ (w : Word) (x : Int), denE es t w x = denE es' t w x := by
  intro w
  induction w with
  | nil => intro x; simp [denE_nil]
  | cons o w ih =>
    intro x
    rw [denE_cons, denE_cons]
    by_cases hx : x = t
    · simp [hx]
    · simp only [hx, if_false]
      have key : ∀ l : List (Edge κ),
          (l.map fun e => if e.nids.1 = x then opc e o * denE es t w e.nids.2 else 0)
          = (l.map fun e => (e.nids, e.opics)).map
              (fun p => if p.1.1 = x then (p.2.map fun q => if q.1 = o then q.2 else 0).sum * denE es t w p.1.2 else 0) := by
        intro l
        rw [map_map]
        rfl
      rw [key es, (h.map _).sum_eq, ← key es']
      apply sum_map_congr
      intro e _
      rw [ih]

theorem mem_dErase_of_ne {β : Type} {d : List (Int × β)} {k k0 : Int} {v : β} (h : (k, v) ∈ d) (hk : k ≠ k0) :
    (k, v) ∈ dErase d k0 := by
  induction d with
  | nil => simp at h
  | cons p d ih =>
    obtain ⟨k1, v1⟩ := p
    rw [dErase_cons]
    by_cases h1 : k1 = k0
    · subst h1
      simp only [if_true]
      rcases mem_cons.1 h with h2 | h2
      · cases h2; exact absurd rfl hk
      · exact h2
    · simp only [h1, if_false]
      rcases mem_cons.1 h with h2 | h2
      · cases h2; simp
      · exact mem_cons_of_mem _ (ih h2)

theorem ne_of_mem_dErase {β : Type} {d : List (Int × β)} (hn : (dKeys d).Nodup) {k k0 : Int} {v : β}
    (h : (k, v) ∈ dErase d k0) : k ≠ k0 := by
  intro hk
  subst hk
  have hn' : (dKeys (dErase d k)).Nodup := by rw [dKeys_dErase]; exact hn.erase _
  have h1 := dGet?_eq_some_of_mem hn' h
  rw [dGet?_dErase d hn] at h1
  simp at h1
/-- rename `cur` to `new` in an edge-id list the way `rename_edge_id` does: remove, append -/
def renL (cur new : Int) (l : List Int) : List Int := if cur ∈ l then l.erase cur ++ [new] else l

def renNode (cur new : Int) (n : Node) : Node := ⟨n.nid, renL cur new n.eidsIn, renL cur new n.eidsOut, n.qnum⟩

theorem renameEdgeId_unfold {g g' : Graph κ} {cur new : Int} (hr : g.renameEdgeId cur new = .ok g') :
    ∃ edge n0 n0' n1 n1', dGet? g.edges cur = some edge ∧ new ∉ dKeys g.edges ∧ edge.eid = cur ∧
      dGet? g.nodes edge.nids.1 = some n0 ∧ n0.renameEdgeId cur new true = .ok n0' ∧
      dGet? (dReplace g.nodes edge.nids.1 n0') edge.nids.2 = some n1 ∧ n1.renameEdgeId cur new false = .ok n1' ∧
      g' = { nodes := dReplace (dReplace g.nodes edge.nids.1 n0') edge.nids.2 n1',
             edges := dErase g.edges cur ++ [(new, { edge with eid := new })],
             nidTerminal := g.nidTerminal } := by
  unfold Graph.renameEdgeId at hr
  by_cases h1 : dHas g.edges cur = true
  · by_cases h2 : dHas g.edges new = true
    · simp [h1, h2] at hr
    · simp only [h1, h2, Bool.not_true, Bool.false_eq_true, if_false, bind_ok, pyAssert_ok, List.foldlM_cons,
        List.foldlM_nil, pure_ok, Prod.exists, beq_iff_eq] at hr
      obtain ⟨edge, g1, hrem, _, heid, g2, ⟨ga, hma, gb, hmb, rfl⟩, hadd⟩ := hr
      rw [removeEdge_ok] at hrem
      obtain ⟨hget, rfl⟩ := hrem
      rw [modifyNode_ok] at hma
      obtain ⟨n0, n0', hn0, hf0, rfl⟩ := hma
      rw [modifyNode_ok] at hmb
      obtain ⟨n1, n1', hn1, hf1, rfl⟩ := hmb
      rw [addEdge_ok] at hadd
      obtain ⟨_, rfl⟩ := hadd
      refine ⟨edge, n0, n0', n1, n1', hget, ?_, heid, hn0, hf0, hn1, hf1, rfl⟩
      intro hk; exact h2 (dHas_iff.2 hk)
  · simp [h1] at hr

theorem renL_nodup {cur new : Int} {l : List Int} (h : l.Nodup) (hn : new ∉ l) : (renL cur new l).Nodup := by
  unfold renL
  split
  · refine Nodup.append (h.erase _) (nodup_singleton _) ?_
    intro x hx hx'
    rw [mem_singleton] at hx'
    subst hx'
    exact hn (mem_of_mem_erase hx)
  · exact h

theorem mem_renL_of_ne {cur new k : Int} {l : List Int} (h : k ∈ l) (hk : k ≠ cur) : k ∈ renL cur new l := by
  unfold renL
  split
  · exact mem_append_left _ ((mem_erase_of_ne hk).2 h)
  · exact h

theorem mem_renL {cur new k : Int} {l : List Int} (hl : l.Nodup) (h : k ∈ renL cur new l) :
    (k = new ∧ cur ∈ l) ∨ (k ∈ l ∧ k ≠ cur) := by
  unfold renL at h
  split at h
  · rename_i hc
    rcases mem_append.1 h with h1 | h1
    · right
      exact ⟨mem_of_mem_erase h1, fun hk => by subst hk; exact (hl.not_mem_erase) h1⟩
    · left; exact ⟨by simpa using h1, hc⟩
  · rename_i hc
    right
    exact ⟨h, fun hk => hc (hk ▸ h)⟩

theorem renNode_eids (cur new : Int) (n : Node) (d : Bool) : (renNode cur new n).eids d = renL cur new (n.eids d) := by
  cases d <;> rfl

theorem renNode_eq_self {cur new : Int} {n : Node} (h : ∀ d, cur ∉ n.eids d) : renNode cur new n = n := by
  have h0 := h false
  have h1 := h true
  simp only [Node.eids] at h0 h1
  simp at h0 h1
  simp [renNode, renL, h0, h1]

/-- in a valid graph the edge `cur` is listed exactly by its two end nodes -/
theorem SValid.mem_eids_iff {g : Graph κ} (h : SValid g) {cur : Int} {edge : Edge κ} (he : (cur, edge) ∈ g.edges)
    {k : Int} {n : Node} (hn : (k, n) ∈ g.nodes) (d : Bool) : cur ∈ n.eids d ↔ edge.nid (!d) = k := by
  constructor
  · intro hc
    obtain ⟨e, he', hk⟩ := h.nodeEdge k n hn d cur hc
    rw [h.edge_unique he he']; exact hk
  · intro hk
    obtain ⟨n', hn', hc⟩ := h.edgeNode cur edge he (!d)
    rw [hk] at hn'
    rw [h.node_unique hn hn']
    simpa using hc

/-- the node dictionary after `rename_edge_id`: same keys, every node's lists renamed -/
theorem renameEdgeId_nodes {g g' : Graph κ} (h : SValid g) {cur new : Int} (hr : g.renameEdgeId cur new = .ok g') :
    dKeys g'.nodes = dKeys g.nodes ∧ ∀ k, dGet? g'.nodes k = (dGet? g.nodes k).map (renNode cur new) := by
  obtain ⟨edge, n0, n0', n1, n1', hget, hnew, heid, hn0, hf0, hn1, hf1, rfl⟩ := renameEdgeId_unfold hr
  have hmem := mem_of_dGet?_eq_some hget
  refine ⟨by simp only [dKeys_dReplace], ?_⟩
  -- the two renamed nodes
  unfold Node.renameEdgeId at hf0 hf1
  rw [bind_ok] at hf0 hf1
  obtain ⟨m0, hr0, ha0⟩ := hf0
  obtain ⟨m1, hr1, ha1⟩ := hf1
  rw [Node.removeEdgeId_ok] at hr0 hr1
  rw [Node.addEdgeId_ok] at ha0 ha1
  obtain ⟨hc0, rfl⟩ := hr0
  obtain ⟨hc1, rfl⟩ := hr1
  obtain ⟨_, rfl⟩ := ha0
  obtain ⟨_, rfl⟩ := ha1
  have hk0 : edge.nids.1 ∈ dKeys g.nodes := dGet?_some_mem_keys hn0
  have hmem0 := mem_of_dGet?_eq_some hn0
  rw [dGet?_dReplace] at hn1
  intro k
  rw [dGet?_dReplace, dGet?_dReplace, dKeys_dReplace]
  by_cases hab : edge.nids.2 = edge.nids.1
  · -- self loop: one node, both lists renamed
    simp only [hab, hk0, and_self, if_true, Option.some.injEq] at hn1
    subst hn1
    by_cases hk : k = edge.nids.1
    · subst hk
      simp only [hab, hk0, and_self, if_true, hn0, Option.map_some, Option.some.injEq]
      have hin : cur ∈ n0.eidsIn := by simpa [Node.eids, Node.setEids] using hc1
      have hout : cur ∈ n0.eidsOut := by simpa [Node.eids] using hc0
      simp [renNode, renL, hin, hout, Node.setEids, Node.eids]
    · simp only [hab, hk, false_and, if_false]
      cases hl : dGet? g.nodes k with
      | none => rfl
      | some n =>
        simp only [Option.map_some, Option.some.injEq]
        symm
        apply renNode_eq_self
        intro d hc
        have := (h.mem_eids_iff hmem (mem_of_dGet?_eq_some hl) d).1 hc
        cases d
        · simp only [Bool.not_false, Edge.nid, if_true] at this; exact hk (by rw [← this, hab])
        · simp only [Bool.not_true, Edge.nid] at this; exact hk this.symm
  · simp only [hab, false_and, if_false] at hn1
    have hmem1 := mem_of_dGet?_eq_some hn1
    have hk1 : edge.nids.2 ∈ dKeys g.nodes := dGet?_some_mem_keys hn1
    by_cases hkb : k = edge.nids.2
    · subst hkb
      simp only [hk1, and_self, if_true, hn1, Option.map_some, Option.some.injEq]
      have hin : cur ∈ n1.eidsIn := by simpa [Node.eids] using hc1
      have hout : cur ∉ n1.eidsOut := by
        intro hc
        have := (h.mem_eids_iff hmem hmem1 true).1 (by simpa [Node.eids] using hc)
        simp only [Bool.not_true, Edge.nid] at this
        exact hab this.symm
      simp [renNode, renL, hin, hout, Node.setEids, Node.eids]
    · simp only [hkb, false_and, if_false]
      by_cases hka : k = edge.nids.1
      · subst hka
        simp only [hk0, and_self, if_true, hn0, Option.map_some, Option.some.injEq]
        have hout : cur ∈ n0.eidsOut := by simpa [Node.eids] using hc0
        have hin : cur ∉ n0.eidsIn := by
          intro hc
          have := (h.mem_eids_iff hmem hmem0 false).1 (by simpa [Node.eids] using hc)
          simp only [Bool.not_false, Edge.nid, if_true] at this
          exact hab this
        simp [renNode, renL, hin, hout, Node.setEids, Node.eids]
      · simp only [hka, false_and, if_false]
        cases hl : dGet? g.nodes k with
        | none => rfl
        | some n =>
          simp only [Option.map_some, Option.some.injEq]
          symm
          apply renNode_eq_self
          intro d hc
          have := (h.mem_eids_iff hmem (mem_of_dGet?_eq_some hl) d).1 hc
          cases d
          · simp only [Bool.not_false, Edge.nid, if_true] at this; exact hkb this.symm
          · simp only [Bool.not_true, Edge.nid] at this; exact hka this.symm


theorem renameEdgeId_edges {g g' : Graph κ} {cur new : Int} (hr : g.renameEdgeId cur new = .ok g') :
    ∃ edge, dGet? g.edges cur = some edge ∧ new ∉ dKeys g.edges ∧ edge.eid = cur ∧
      g'.edges = dErase g.edges cur ++ [(new, { edge with eid := new })] ∧ g'.nidTerminal = g.nidTerminal := by
  obtain ⟨edge, n0, n0', n1, n1', hget, hnew, heid, _, _, _, _, rfl⟩ := renameEdgeId_unfold hr
  exact ⟨edge, hget, hnew, heid, rfl, rfl⟩

/-- `rename_edge_id` keeps structural validity -/
theorem SValid.renameEdgeId {g g' : Graph κ} (h : SValid g) {cur new : Int}
    (hr : g.renameEdgeId cur new = .ok g') : SValid g' := by
  obtain ⟨hkeys, hL⟩ := renameEdgeId_nodes h hr
  obtain ⟨edge, hget, hnew, heid, hedges, hterm⟩ := renameEdgeId_edges hr
  have hmem := mem_of_dGet?_eq_some hget
  have hnk' : (dKeys g'.nodes).Nodup := by rw [hkeys]; exact h.nodesKeys
  have hek' : (dKeys g'.edges).Nodup := by
    rw [hedges, dKeys_append, dKeys_dErase]
    refine Nodup.append (h.edgesKeys.erase _) (by simp [dKeys]) ?_
    intro x hx hx'
    simp only [dKeys, map_cons, map_nil, mem_singleton] at hx'
    subst hx'
    exact hnew (mem_of_mem_erase hx)
  -- nodes of g' are the renamed nodes of g
  have nodes' : ∀ {k n'}, (k, n') ∈ g'.nodes → ∃ n, (k, n) ∈ g.nodes ∧ n' = renNode cur new n := by
    intro k n' hn'
    have := dGet?_eq_some_of_mem hnk' hn'
    rw [hL] at this
    cases hl : dGet? g.nodes k with
    | none => rw [hl] at this; cases this
    | some n =>
      rw [hl] at this
      simp only [Option.map_some, Option.some.injEq] at this
      exact ⟨n, mem_of_dGet?_eq_some hl, this.symm⟩
  have nodes_fwd : ∀ {k n}, (k, n) ∈ g.nodes → (k, renNode cur new n) ∈ g'.nodes := by
    intro k n hn
    apply mem_of_dGet?_eq_some
    rw [hL, dGet?_eq_some_of_mem h.nodesKeys hn]; rfl
  -- edges of g'
  have edges' : ∀ {k e}, (k, e) ∈ g'.edges →
      ((k, e) ∈ g.edges ∧ k ≠ cur) ∨ (k = new ∧ e = { edge with eid := new }) := by
    intro k e he
    rw [hedges, mem_append] at he
    rcases he with he | he
    · left
      exact ⟨(dErase_sublist _ _).subset he, ne_of_mem_dErase h.edgesKeys he⟩
    · right
      simpa using he
  have edges_old : ∀ {k e}, (k, e) ∈ g.edges → k ≠ cur → (k, e) ∈ g'.edges := by
    intro k e he hk
    rw [hedges]
    exact mem_append_left _ (mem_dErase_of_ne he hk)
  have edge_new : (new, { edge with eid := new }) ∈ g'.edges := by
    rw [hedges]; simp
  have new_not_listed : ∀ {k n}, (k, n) ∈ g.nodes → ∀ d, new ∉ n.eids d := by
    intro k n hn d hc
    obtain ⟨e, he, _⟩ := h.nodeEdge k n hn d new hc
    exact hnew (mem_map.2 ⟨(new, e), he, rfl⟩)
  refine ⟨hnk', hek', ?_, ?_, ?_, ?_, ?_, ?_, ?_⟩
  · intro k n' hn'
    obtain ⟨n, hn, rfl⟩ := nodes' hn'
    exact h.nodeKey k n hn
  · intro k e he
    rcases edges' he with ⟨he, _⟩ | ⟨rfl, rfl⟩
    · exact h.edgeKey k e he
    · rfl
  · intro k n' hn' d
    obtain ⟨n, hn, rfl⟩ := nodes' hn'
    rw [renNode_eids]
    exact renL_nodup (h.eidsNodup k n hn d) (new_not_listed hn d)
  · intro k n' hn' d eid heid
    obtain ⟨n, hn, rfl⟩ := nodes' hn'
    rw [renNode_eids] at heid
    rcases mem_renL (h.eidsNodup k n hn d) heid with ⟨rfl, hc⟩ | ⟨hin, hne⟩
    · refine ⟨_, edge_new, ?_⟩
      have := (h.mem_eids_iff hmem hn d).1 hc
      cases d <;> simpa [Edge.nid] using this
    · obtain ⟨e, he, hk⟩ := h.nodeEdge k n hn d eid hin
      exact ⟨e, edges_old he hne, hk⟩
  · intro k e he d
    rcases edges' he with ⟨he, hne⟩ | ⟨rfl, rfl⟩
    · obtain ⟨n, hn, hk⟩ := h.edgeNode k e he d
      exact ⟨renNode cur new n, nodes_fwd hn, by rw [renNode_eids]; exact mem_renL_of_ne hk hne⟩
    · obtain ⟨n, hn, hk⟩ := h.edgeNode cur edge hmem d
      refine ⟨renNode cur k n, ?_, ?_⟩
      · have := nodes_fwd hn
        cases d <;> simpa [Edge.nid] using this
      · rw [renNode_eids]
        unfold renL
        simp [hk]
  · intro d
    obtain ⟨n, hn, hk⟩ := h.termNode d
    refine ⟨renNode cur new n, ?_, ?_⟩
    · have := nodes_fwd hn
      have ht : g'.term d = g.term d := by cases d <;> simp [Graph.term, hterm]
      rw [ht]; exact this
    · rw [renNode_eids, hk]; rfl
  · intro k e he
    rcases edges' he with ⟨he, _⟩ | ⟨rfl, rfl⟩
    · exact h.opicsSorted k e he
    · exact h.opicsSorted cur edge hmem

/-- `rename_edge_id` keeps the path sums -/
theorem denE_renameEdgeId {g g' : Graph κ} (h : SValid g) {cur new : Int}
    (hr : g.renameEdgeId cur new = .ok g') (w : Word) (x : Int) :
    denE g'.edgeList (g'.term true) w x = denE g.edgeList (g.term true) w x := by
  obtain ⟨edge, hget, hnew, heid, hedges, hterm⟩ := renameEdgeId_edges hr
  have ht : g'.term true = g.term true := by simp [Graph.term, hterm]
  rw [ht]
  apply denE_congr_perm
  unfold Graph.edgeList
  rw [hedges, map_append, map_append, map_map, map_map, map_map]
  have hp := (perm_cons_dErase hget).map (fun p : Int × Edge κ => (p.2.nids, p.2.opics))
  refine Perm.trans ?_ hp.symm
  simp only [map_cons, map_nil, Function.comp]
  exact perm_append_comm

/-- **`rename_edge_id`**: structural validity is kept and the denoted operator is unchanged. -/
theorem denF_renameEdgeId {g g' : Graph κ} (h : SValid g) {cur new : Int}
    (hr : g.renameEdgeId cur new = .ok g') (w : Word) : g'.denF w = g.denF w := by
  obtain ⟨edge, hget, hnew, heid, hedges, hterm⟩ := renameEdgeId_edges hr
  have ht : g'.term false = g.term false := by simp [Graph.term, hterm]
  rw [denF_eq_denE (h.renameEdgeId hr), denF_eq_denE h, denE_renameEdgeId h hr, ht]

end Ptn.Og

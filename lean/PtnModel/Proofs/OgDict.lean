import PtnModel.Proofs.OgBasic
/-!
# Dictionary (association list) update lemmas

Lookup, keys and membership after `dReplace`, `dErase`, append, `dPop`, `dSet`, `dUpdate`.
-/
set_option linter.unusedSectionVars false

namespace Ptn.Og.Rw
open List

section Dict
variable {β : Type}

theorem dKeys_append (d e : List (Int × β)) : dKeys (d ++ e) = dKeys d ++ dKeys e := by simp [dKeys]

theorem dGet?_cons (k' : Int) (v' : β) (d : List (Int × β)) (k : Int) :
    dGet? ((k', v') :: d) k = if k = k' then some v' else dGet? d k := by
  simp only [dGet?, lookup_cons]
  by_cases h : k = k'
  · subst h; simp
  · have hb : (k == k') = false := by simpa using h
    simp [hb, h]

theorem dGet?_nil (k : Int) : dGet? ([] : List (Int × β)) k = none := rfl

theorem dGet?_append (d e : List (Int × β)) (k : Int) :
    dGet? (d ++ e) k = (dGet? d k).or (dGet? e k) := by
  induction d with
  | nil => simp [dGet?_nil]
  | cons p d ih =>
    obtain ⟨k', v'⟩ := p
    rw [cons_append, dGet?_cons, dGet?_cons]
    by_cases h : k = k' <;> simp [h, ih]

theorem dGet?_append_single (d : List (Int × β)) (k' : Int) (v' : β) (k : Int) (hk : k' ∉ dKeys d) :
    dGet? (d ++ [(k', v')]) k = if k = k' then some v' else dGet? d k := by
  rw [dGet?_append, dGet?_cons, dGet?_nil]
  by_cases h : k = k'
  · subst h
    rw [dGet?_eq_none_iff.2 hk]; simp
  · simp [h]

theorem dReplace_cons (k0 : Int) (v0 : β) (d : List (Int × β)) (k : Int) (v : β) :
    dReplace ((k0, v0) :: d) k v = if k0 = k then (k0, v) :: d else (k0, v0) :: dReplace d k v := by
  rw [dReplace]
  by_cases h : k0 = k <;> simp [h]

theorem dErase_cons (k0 : Int) (v0 : β) (d : List (Int × β)) (k : Int) :
    dErase ((k0, v0) :: d) k = if k0 = k then d else (k0, v0) :: dErase d k := by
  rw [dErase]
  by_cases h : k0 = k <;> simp [h]

theorem dKeys_cons (k0 : Int) (v0 : β) (d : List (Int × β)) : dKeys ((k0, v0) :: d) = k0 :: dKeys d := rfl

theorem dKeys_dReplace (d : List (Int × β)) (k : Int) (v : β) : dKeys (dReplace d k v) = dKeys d := by
  induction d with
  | nil => rfl
  | cons p d ih =>
    obtain ⟨k', v'⟩ := p
    rw [dReplace_cons]
    by_cases h : k' = k
    · simp [h, dKeys_cons]
    · simp [h, dKeys_cons, ih]

theorem length_dReplace (d : List (Int × β)) (k : Int) (v : β) : (dReplace d k v).length = d.length := by
  have := congrArg List.length (dKeys_dReplace d k v)
  simpa [dKeys] using this

theorem dGet?_dReplace (d : List (Int × β)) (k : Int) (v : β) (k' : Int) :
    dGet? (dReplace d k v) k' = if k' = k ∧ k ∈ dKeys d then some v else dGet? d k' := by
  induction d with
  | nil => simp [dReplace, dGet?_nil, dKeys]
  | cons p d ih =>
    obtain ⟨k0, v0⟩ := p
    rw [dReplace_cons]
    by_cases h : k0 = k
    · subst h
      simp only [if_true, dGet?_cons, dKeys_cons, mem_cons, true_or, and_true]
      by_cases h2 : k' = k0 <;> simp [h2]
    · simp only [h, if_false, dGet?_cons, ih, dKeys_cons, mem_cons]
      have hk : ¬ k = k0 := fun h' => h h'.symm
      by_cases h2 : k' = k0
      · subst h2
        simp [h]
      · simp [h2, hk]

theorem dKeys_dErase (d : List (Int × β)) (k : Int) : dKeys (dErase d k) = (dKeys d).erase k := by
  induction d with
  | nil => rfl
  | cons p d ih =>
    obtain ⟨k0, v0⟩ := p
    rw [dErase_cons]
    by_cases h : k0 = k
    · subst h; simp [dKeys_cons]
    · simp only [h, if_false, dKeys_cons]
      rw [erase_cons_tail (by simpa using h), ih]

theorem dErase_sublist (d : List (Int × β)) (k : Int) : (dErase d k).Sublist d := by
  induction d with
  | nil => exact Sublist.refl _
  | cons p d ih =>
    obtain ⟨k0, v0⟩ := p
    rw [dErase_cons]
    by_cases h : k0 = k
    · simp [h]
    · simp only [h, if_false]
      exact ih.cons_cons _

theorem dGet?_dErase (d : List (Int × β)) (hn : (dKeys d).Nodup) (k k' : Int) :
    dGet? (dErase d k) k' = if k' = k then none else dGet? d k' := by
  induction d with
  | nil => simp [dErase, dGet?_nil]
  | cons p d ih =>
    obtain ⟨k0, v0⟩ := p
    rw [dKeys_cons, nodup_cons] at hn
    rw [dErase_cons]
    by_cases h : k0 = k
    · subst h
      simp only [if_true, dGet?_cons]
      by_cases h2 : k' = k0
      · subst h2
        simp only [if_true]
        exact dGet?_eq_none_iff.2 hn.1
      · simp [h2]
    · simp only [h, if_false, dGet?_cons, ih hn.2]
      by_cases h2 : k' = k0
      · subst h2
        simp [h]
      · simp [h2]

/-- a dictionary with duplicate-free keys is a permutation of one entry and the rest -/
theorem perm_cons_dErase {d : List (Int × β)} {k : Int} {v : β} (h : dGet? d k = some v) :
    d.Perm ((k, v) :: dErase d k) := by
  induction d with
  | nil => simp [dGet?_nil] at h
  | cons p d ih =>
    obtain ⟨k0, v0⟩ := p
    rw [dGet?_cons] at h
    rw [dErase_cons]
    by_cases h2 : k = k0
    · subst h2
      simp only [if_true, Option.some.injEq] at h
      subst h
      simp
    · have h3 : ¬ k0 = k := fun h' => h2 h'.symm
      simp only [h2, if_false] at h
      simp only [h3, if_false]
      exact ((ih h).cons _).trans (Perm.swap _ _ _)

theorem dPop_eq_ok {d : List (Int × β)} {k : Int} {v : β} {d' : List (Int × β)} :
    dPop d k = .ok (v, d') ↔ dGet? d k = some v ∧ d' = dErase d k := by
  unfold dPop dGet?
  cases h : d.lookup k with
  | none => simp
  | some v' =>
    simp only [Except.ok.injEq, Prod.mk.injEq, Option.some.injEq]
    constructor
    · rintro ⟨rfl, rfl⟩; exact ⟨rfl, rfl⟩
    · rintro ⟨rfl, rfl⟩; exact ⟨rfl, rfl⟩

theorem dGet?_some_mem_keys {d : List (Int × β)} {k : Int} {v : β} (h : dGet? d k = some v) : k ∈ dKeys d := by
  by_contra hk
  rw [dGet?_eq_none_iff.2 hk] at h
  cases h

theorem mem_iff_dGet? {d : List (Int × β)} (hn : (dKeys d).Nodup) {k : Int} {v : β} :
    (k, v) ∈ d ↔ dGet? d k = some v :=
  ⟨dGet?_eq_some_of_mem hn, mem_of_dGet?_eq_some⟩

end Dict
end Ptn.Og.Rw

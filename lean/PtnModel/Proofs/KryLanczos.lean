import PtnModel.Proofs.KryBasic
import PtnModel.Proofs.KryShapes
/-!
# The Lanczos invariant

`NormContract`, `IsHermitian`, the loop invariant `LInv` (orthonormal vectors, three-term recurrence in weak form,
off-diagonals above the breakdown threshold), its preservation by `lanczosStep`, the final predicate `LFin` reached by
both exits of `lanczosCore` (breakdown and full run), and the projected map `LFin.proj`.
-/
set_option linter.unusedSectionVars false

namespace Ptn.Krylov
open Finset

variable {𝕜 : Type} [RCLike 𝕜]
local notation "conj" => starRingEnd 𝕜

/-- contract of `np.linalg.norm` on vectors: the non-negative square root of the sum of the squared moduli -/
structure NormContract (dnorm : List 𝕜 → ℝ) : Prop where
  nonneg : ∀ x, 0 ≤ dnorm x
  sq : ∀ x, dnorm x ^ 2 = sqNorm x

/-- `⟪A x, y⟫ = ⟪x, A y⟫` on vectors of length `n` -/
def IsHermitian (n : Nat) (Afun : List 𝕜 → List 𝕜) : Prop :=
  ∀ x y, x.length = n → y.length = n → vdot n (Afun x) y = vdot n x (Afun y)

theorem breakdownThr_pos {n : Nat} (hn : 0 < n) : 0 < breakdownThr ℝ n := by
  unfold breakdownThr
  have h1 : (0 : ℝ) < ((100 * n : Nat) : ℝ) := by exact_mod_cast (by omega : 0 < 100 * n)
  have h2 : (0 : ℝ) < ((2 ^ 52 : Nat) : ℝ) := by exact_mod_cast (by positivity : 0 < 2 ^ 52)
  exact div_pos h1 h2

theorem breakdownThr_nonneg (n : Nat) : 0 ≤ breakdownThr ℝ n := by
  unfold breakdownThr
  exact div_nonneg (by exact_mod_cast Nat.zero_le _) (by exact_mod_cast Nat.zero_le _)

/-- a vector of length `n` with positive norm lives in positive dimension -/
theorem NormContract.pos_dim {dnorm : List 𝕜 → ℝ} (hN : NormContract dnorm) {x : List 𝕜} (h : 0 < dnorm x) :
    0 < x.length := by
  rcases Nat.eq_zero_or_pos x.length with h0 | h0
  · have : x = [] := List.eq_nil_of_length_eq_zero h0
    have hs := hN.sq x
    rw [this] at hs h
    simp [sqNorm] at hs
    rw [hs] at h
    exact absurd h (lt_irrefl _)
  · exact h0

/-- normalising a vector of positive norm gives a unit vector -/
theorem vdot_vdiv_self {dnorm : List 𝕜 → ℝ} (hN : NormContract dnorm) {w : List 𝕜} (h : 0 < dnorm w) :
    vdot w.length (vdiv w.length w (RealLike.ofReal (dnorm w))) (vdiv w.length w (RealLike.ofReal (dnorm w))) = (1 : 𝕜) := by
  rw [vdot_vdiv_left, vdot_vdiv_right, vdot_self, ofReal_eq, RCLike.conj_ofReal, ← hN.sq w]
  have : ((dnorm w : ℝ) : 𝕜) ≠ 0 := by exact_mod_cast h.ne'
  rw [RCLike.ofReal_pow]
  field_simp

/-- case analysis on Kronecker deltas of natural-number indices -/
macro "kry_delta" : tactic =>
  `(tactic| (split_ifs <;> first | contradiction | omega | (subst_vars; simp; done) | (simp_all; done)))

section inv
variable (n : Nat) (Afun : List 𝕜 → List 𝕜)

/-- the `i`-th Lanczos vector -/
abbrev LState.vec (st : LState 𝕜 ℝ) (i : Nat) : List 𝕜 := st.V.getD i []
abbrev LState.al (st : LState 𝕜 ℝ) (i : Nat) : ℝ := st.alpha.getD i 0
abbrev LState.be (st : LState 𝕜 ℝ) (i : Nat) : ℝ := st.beta.getD i 0

/-- the three-term recurrence for the `i`-th vector, tested against `y` -/
def LState.Rec (st : LState 𝕜 ℝ) (i : Nat) : Prop :=
  ∀ y, vdot n (Afun (st.vec i)) y =
    (st.al i : 𝕜) * vdot n (st.vec i) y + (st.be i : 𝕜) * vdot n (st.vec (i + 1)) y +
      (if 0 < i then (st.be (i - 1) : 𝕜) * vdot n (st.vec (i - 1)) y else 0)

/-- loop invariant before iteration `j` -/
structure LInv (st : LState 𝕜 ℝ) (j : Nat) : Prop where
  sized : st.Sized j j (j + 1)
  len : ∀ i, i ≤ j → (st.vec i).length = n
  orth : ∀ a b, a ≤ j → b ≤ j → vdot n (st.vec a) (st.vec b) = if a = b then 1 else 0
  rcr : ∀ i, i < j → st.Rec n Afun i
  bpos : ∀ i, i < j → breakdownThr ℝ n ≤ st.be i

/-- what both exits of the iteration establish for the `k` returned vectors -/
structure LFin (st : LState 𝕜 ℝ) (k : Nat) : Prop where
  kpos : 1 ≤ k
  sized : st.Sized k (k - 1) k
  len : ∀ i, i < k → (st.vec i).length = n
  orth : ∀ a b, a < k → b < k → vdot n (st.vec a) (st.vec b) = if a = b then 1 else 0
  rcr : ∀ i, i + 1 < k → st.Rec n Afun i
  bpos : ∀ i, i + 1 < k → breakdownThr ℝ n ≤ st.be i
  last : st.al (k - 1) = RCLike.re (vdot n (Afun (st.vec (k - 1))) (st.vec (k - 1)))

variable {n Afun}

/-- `w` of iteration `j`, tested against `y` -/
theorem vdot_lzW_left (j : Nat) (st : LState 𝕜 ℝ) (y : List 𝕜) :
    vdot n (lzW Afun n j st) y = vdot n (Afun (st.vec j)) y - ((lzA Afun n j st : ℝ) : 𝕜) * vdot n (st.vec j) y -
      (if 0 < j then (st.be (j - 1) : 𝕜) * vdot n (st.vec (j - 1)) y else 0) := by
  unfold lzW
  rw [vdot_vsub_left]
  by_cases hj : 0 < j
  · rw [if_pos hj, if_pos hj, vdot_vadd_left, vdot_vscale_left, vdot_vscale_left, ofReal_eq, ofReal_eq,
      RCLike.conj_ofReal, RCLike.conj_ofReal]
    ring
  · rw [if_neg hj, if_neg hj, vdot_vscale_left, ofReal_eq, RCLike.conj_ofReal]
    ring

/-- a number that equals its conjugate is the embedding of its real part -/
theorem ofReal_re_of_conj_eq {z : 𝕜} (h : conj z = z) : ((RCLike.re z : ℝ) : 𝕜) = z :=
  RCLike.conj_eq_iff_re.1 h

/-- for a Hermitian map `⟪A x, x⟫` is real -/
theorem IsHermitian.re_eq (hA : IsHermitian n Afun) {x : List 𝕜} (hx : x.length = n) :
    ((RCLike.re (vdot n (Afun x) x) : ℝ) : 𝕜) = vdot n (Afun x) x := by
  apply ofReal_re_of_conj_eq
  rw [vdot_conj, ← hA x x hx hx]

theorem lzA_eq (hA : IsHermitian n Afun) {j : Nat} {st : LState 𝕜 ℝ} (hl : (st.vec j).length = n) :
    ((lzA Afun n j st : ℝ) : 𝕜) = vdot n (Afun (st.vec j)) (st.vec j) := by
  unfold lzA; rw [re_eq]; exact hA.re_eq hl

/-- second-slot form of the recurrence: `⟪y, A v_i⟫` -/
theorem LState.Rec.right {st : LState 𝕜 ℝ} {i : Nat} (h : st.Rec n Afun i) (y : List 𝕜) :
    vdot n y (Afun (st.vec i)) =
      (st.al i : 𝕜) * vdot n y (st.vec i) + (st.be i : 𝕜) * vdot n y (st.vec (i + 1)) +
        (if 0 < i then (st.be (i - 1) : 𝕜) * vdot n y (st.vec (i - 1)) else 0) := by
  rw [← vdot_conj, h y]
  by_cases hi : 0 < i
  · simp only [hi, if_true, map_add, map_mul, RCLike.conj_ofReal, vdot_conj]
  · simp only [hi, if_false, map_add, map_mul, RCLike.conj_ofReal, vdot_conj, map_zero]

/-- the new `w` is orthogonal to all previous vectors -/
theorem LInv.lzW_orth (hA : IsHermitian n Afun) {st : LState 𝕜 ℝ} {j : Nat} (h : LInv n Afun st j)
    {b : Nat} (hb : b ≤ j) : vdot n (lzW Afun n j st) (st.vec b) = 0 := by
  rw [vdot_lzW_left]
  rcases Nat.lt_or_eq_of_le hb with hlt | rfl
  · -- b < j: move `A` to the other side and use the recurrence of `b`
    rw [hA _ _ (h.len j (Nat.le_refl _)) (h.len b hb), (h.rcr b hlt).right (st.vec j)]
    rw [h.orth j b (Nat.le_refl _) hb, h.orth j (b + 1) (Nat.le_refl _) (by omega)]
    obtain ⟨j, rfl⟩ : ∃ j', j = j' + 1 := ⟨j - 1, by omega⟩
    rw [if_pos (Nat.succ_pos _), Nat.add_sub_cancel, h.orth j b (by omega) hb]
    rcases Nat.eq_zero_or_pos b with rfl | hb0
    · rw [if_neg (lt_irrefl _)]
      kry_delta
    · obtain ⟨b, rfl⟩ : ∃ b', b = b' + 1 := ⟨b - 1, by omega⟩
      rw [if_pos (Nat.succ_pos _), Nat.add_sub_cancel, h.orth (j + 1) b (Nat.le_refl _) (by omega)]
      kry_delta
  · -- b = j
    rw [h.orth b b hb hb, if_pos rfl, mul_one, lzA_eq hA (h.len b hb), sub_self]
    by_cases hj : 0 < b
    · rw [if_pos hj, h.orth (b - 1) b (by omega) hb, if_neg (by omega), mul_zero, sub_zero]
    · rw [if_neg hj, sub_zero]

theorem length_lzW (j : Nat) (st : LState 𝕜 ℝ) : (lzW Afun n j st).length = n := by
  unfold lzW; exact length_vsub _ _ _

/-- the invariant is preserved by an iteration that does not break down -/
theorem LInv.step {dnorm : List 𝕜 → ℝ} (hN : NormContract dnorm) (hA : IsHermitian n Afun) (hn : 0 < n)
    {st : LState 𝕜 ℝ} {j : Nat} (h : LInv n Afun st j) (hb : (lanczosStep Afun dnorm n j st).2 = false) :
    LInv n Afun (lanczosStep Afun dnorm n j st).1 (j + 1) := by
  obtain ⟨ha, hbl, hv⟩ := h.sized
  rw [lanczosStep_eq] at hb ⊢
  by_cases hlt : dnorm (lzW Afun n j st) < breakdownThr ℝ n
  · rw [if_pos hlt] at hb; simp at hb
  rw [if_neg hlt]
  have hge : breakdownThr ℝ n ≤ dnorm (lzW Afun n j st) := not_lt.1 hlt
  have hpos : 0 < dnorm (lzW Afun n j st) := lt_of_lt_of_le (breakdownThr_pos hn) hge
  have hne : ((dnorm (lzW Afun n j st) : ℝ) : 𝕜) ≠ 0 := by exact_mod_cast hpos.ne'
  set w := lzW Afun n j st with hw
  set β := dnorm w with hβ
  set vn := vdiv n w (RealLike.ofReal β : 𝕜) with hvn
  -- accessors of the new state
  have vec_old : ∀ i, i ≤ j → (st.V ++ [vn]).getD i [] = st.vec i := fun i hi => getD_snoc_lt _ _ _ (by omega)
  have vec_new : (st.V ++ [vn]).getD (j + 1) [] = vn := getD_snoc_eq' _ _ _ (by omega)
  have al_old : ∀ i, i < j → (st.alpha ++ [lzA Afun n j st]).getD i 0 = st.al i := fun i hi => getD_snoc_lt _ _ _ (by omega)
  have al_new : (st.alpha ++ [lzA Afun n j st]).getD j 0 = lzA Afun n j st := getD_snoc_eq' _ _ _ (by omega)
  have be_old : ∀ i, i < j → (st.beta ++ [β]).getD i 0 = st.be i := fun i hi => getD_snoc_lt _ _ _ (by omega)
  have be_new : (st.beta ++ [β]).getD j 0 = β := getD_snoc_eq' _ _ _ (by omega)
  have hwl : w.length = n := length_lzW j st
  -- the new vector against the old ones, and against itself
  have new_old : ∀ b, b ≤ j → vdot n vn (st.vec b) = 0 := fun b hb' => by
    rw [hvn, vdot_vdiv_left, h.lzW_orth hA hb', zero_div]
  have old_new : ∀ b, b ≤ j → vdot n (st.vec b) vn = 0 := fun b hb' => by
    rw [← vdot_conj, new_old b hb', map_zero]
  have new_new : vdot n vn vn = 1 := by
    have := vdot_vdiv_self hN (w := w) hpos
    rwa [hwl] at this
  refine ⟨⟨by simp [ha], by simp [hbl], by simp [hv]⟩, ?_, ?_, ?_, ?_⟩
  · intro i hi
    show ((st.V ++ [vn]).getD i []).length = n
    rcases Nat.lt_or_eq_of_le hi with hlt' | rfl
    · rw [vec_old i (by omega)]; exact h.len i (by omega)
    · rw [vec_new, hvn]; exact length_vdiv _ _ _
  · intro a b ha' hb'
    show vdot n ((st.V ++ [vn]).getD a []) ((st.V ++ [vn]).getD b []) = _
    rcases Nat.lt_or_eq_of_le ha' with ha'' | rfl
    · rcases Nat.lt_or_eq_of_le hb' with hb'' | rfl
      · rw [vec_old a (by omega), vec_old b (by omega)]; exact h.orth a b (by omega) (by omega)
      · rw [vec_old a (by omega), vec_new, old_new a (by omega), if_neg (by omega)]
    · rcases Nat.lt_or_eq_of_le hb' with hb'' | rfl
      · rw [vec_old b (by omega), vec_new, new_old b (by omega), if_neg (by omega)]
      · rw [vec_new, new_new, if_pos rfl]
  · intro i hi y
    show vdot n (Afun ((st.V ++ [vn]).getD i [])) y =
      (((st.alpha ++ [lzA Afun n j st]).getD i 0 : ℝ) : 𝕜) * vdot n ((st.V ++ [vn]).getD i []) y +
        (((st.beta ++ [β]).getD i 0 : ℝ) : 𝕜) * vdot n ((st.V ++ [vn]).getD (i + 1) []) y +
        (if 0 < i then (((st.beta ++ [β]).getD (i - 1) 0 : ℝ) : 𝕜) * vdot n ((st.V ++ [vn]).getD (i - 1) []) y else 0)
    rcases Nat.lt_or_eq_of_le (Nat.le_of_lt_succ hi) with hlt' | rfl
    · rw [vec_old i (by omega), vec_old (i + 1) (by omega), vec_old (i - 1) (by omega), al_old i hlt', be_old i hlt',
        be_old (i - 1) (by omega)]
      exact h.rcr i hlt' y
    · rw [vec_old i (Nat.le_refl _), vec_new, vec_old (i - 1) (by omega), al_new, be_new]
      have hy : vdot n vn y = vdot n w y / (β : 𝕜) := by
        rw [hvn, vdot_vdiv_left, ofReal_eq, RCLike.conj_ofReal]
      rw [hy, mul_div_cancel₀ _ hne, hw, vdot_lzW_left]
      by_cases hi0 : 0 < i
      · rw [if_pos hi0, if_pos hi0, be_old (i - 1) (by omega)]; ring
      · rw [if_neg hi0, if_neg hi0]; ring
  · intro i hi
    show breakdownThr ℝ n ≤ (st.beta ++ [β]).getD i 0
    rcases Nat.lt_or_eq_of_le (Nat.le_of_lt_succ hi) with hlt' | rfl
    · rw [be_old i hlt']; exact h.bpos i hlt'
    · rw [be_new]; exact hge

/-- appending the last `alpha` (breakdown exit or final half iteration) gives the final predicate -/
theorem LInv.fin {st : LState 𝕜 ℝ} {j : Nat} (h : LInv n Afun st j) :
    LFin n Afun { alpha := st.alpha ++ [lzA Afun n j st], beta := st.beta, V := st.V } (j + 1) := by
  obtain ⟨ha, hbl, hv⟩ := h.sized
  have al_old : ∀ i, i < j → (st.alpha ++ [lzA Afun n j st]).getD i 0 = st.al i := fun i hi => getD_snoc_lt _ _ _ (by omega)
  have al_new : (st.alpha ++ [lzA Afun n j st]).getD j 0 = lzA Afun n j st := getD_snoc_eq' _ _ _ (by omega)
  refine ⟨by omega, ⟨by simp [ha], by simpa using hbl, hv⟩, fun i hi => h.len i (by omega),
    fun a b ha' hb' => h.orth a b (by omega) (by omega), ?_, fun i hi => h.bpos i (by omega), ?_⟩
  · intro i hi y
    show vdot n (Afun (st.vec i)) y = (((st.alpha ++ [lzA Afun n j st]).getD i 0 : ℝ) : 𝕜) * _ + _ + _
    rw [al_old i (by omega)]
    exact h.rcr i (by omega) y
  · show (st.alpha ++ [lzA Afun n j st]).getD (j + 1 - 1) 0 = _
    rw [Nat.add_sub_cancel, al_new]; rfl

theorem lanczosStep_break_fin {dnorm : List 𝕜 → ℝ} {st : LState 𝕜 ℝ} {j : Nat} (h : LInv n Afun st j)
    (hb : (lanczosStep Afun dnorm n j st).2 = true) : LFin n Afun (lanczosStep Afun dnorm n j st).1 (j + 1) := by
  rw [lanczosStep_eq] at hb ⊢
  by_cases hlt : dnorm (lzW Afun n j st) < breakdownThr ℝ n
  · rw [if_pos hlt]; exact h.fin
  · rw [if_neg hlt] at hb; simp at hb

theorem lanczosFinish_fin {st : LState 𝕜 ℝ} {j : Nat} (h : LInv n Afun st j) :
    LFin n Afun (lanczosFinish Afun n j st) (j + 1) := h.fin

/-- the loop: either it breaks down at some step `j'` and the final predicate holds for `j' + 1` vectors, or the
invariant holds after all `k` iterations -/
theorem lanczosLoop_inv {dnorm : List 𝕜 → ℝ} (hN : NormContract dnorm) (hA : IsHermitian n Afun) (hn : 0 < n) :
    ∀ (k j : Nat) (st : LState 𝕜 ℝ), LInv n Afun st j →
      ((lanczosLoop Afun dnorm n k j st).2 = true →
        ∃ j', j ≤ j' ∧ j' < j + k ∧ LFin n Afun (lanczosLoop Afun dnorm n k j st).1 (j' + 1)) ∧
      ((lanczosLoop Afun dnorm n k j st).2 = false → LInv n Afun (lanczosLoop Afun dnorm n k j st).1 (j + k))
  | 0, j, st, h => by
      rw [lanczosLoop_zero]
      exact ⟨fun hc => by simp at hc, fun _ => h⟩
  | k + 1, j, st, h => by
      rw [lanczosLoop_succ]
      by_cases hb : (lanczosStep Afun dnorm n j st).2 = true
      · rw [if_pos hb]
        exact ⟨fun _ => ⟨j, Nat.le_refl _, by omega, lanczosStep_break_fin h hb⟩, fun hc => by rw [hb] at hc; simp at hc⟩
      · rw [if_neg hb]
        have hb' : (lanczosStep Afun dnorm n j st).2 = false := by simpa using hb
        have ih := lanczosLoop_inv hN hA hn k (j + 1) _ (h.step hN hA hn hb')
        refine ⟨fun hc => ?_, fun hc => ?_⟩
        · obtain ⟨j', h1, h2, h3⟩ := ih.1 hc
          exact ⟨j', by omega, by omega, h3⟩
        · have := ih.2 hc
          rwa [show j + 1 + k = j + (k + 1) by omega] at this

/-- the invariant holds initially -/
theorem LInv.init {dnorm : List 𝕜 → ℝ} (hN : NormContract dnorm) {vstart : List 𝕜} (h0 : 0 < dnorm vstart) :
    LInv vstart.length Afun
      { alpha := [], beta := [], V := [vdiv vstart.length vstart (RealLike.ofReal (dnorm vstart))] } 0 := by
  refine ⟨⟨rfl, rfl, rfl⟩, ?_, ?_, fun i hi => by omega, fun i hi => by omega⟩
  · intro i hi
    have : i = 0 := by omega
    subst this
    exact length_vdiv _ _ _
  · intro a b ha hb
    have : a = 0 := by omega
    subst this
    have : b = 0 := by omega
    subst this
    rw [if_pos rfl]
    exact vdot_vdiv_self hN h0

/-- **main lemma**: the state returned by `lanczosCoreU` (uncapped iteration) satisfies the final predicate for its `k` vectors -/
theorem lanczosCoreU_fin {dnorm : List 𝕜 → ℝ} (hN : NormContract dnorm) {vstart : List 𝕜} {numiter : Nat}
    (hA : IsHermitian vstart.length Afun) {st : LState 𝕜 ℝ}
    (h : lanczosCoreU Afun dnorm vstart numiter = .ok st) :
    ∃ k, k ≤ numiter ∧ LFin vstart.length Afun st k := by
  obtain ⟨h0, hm, rfl⟩ := lanczosCoreU_ok Afun dnorm h
  have h0' : 0 < dnorm vstart := of_decide_eq_true h0
  have hn : 0 < vstart.length := hN.pos_dim h0'
  have hl := lanczosLoop_inv hN hA hn (numiter - 1) 0 _ (LInv.init (Afun := Afun) hN h0')
  split
  · rename_i hb
    obtain ⟨j', _, h2, h3⟩ := hl.1 hb
    exact ⟨j' + 1, by omega, h3⟩
  · rename_i hb
    have := lanczosFinish_fin (hl.2 (by simpa using hb))
    rw [show 0 + (numiter - 1) = numiter - 1 by omega, show numiter - 1 + 1 = numiter by omega] at this
    exact ⟨numiter, Nat.le_refl _, this⟩

/-- the capped run (F11): final predicate for its `k ≤ min numiter (len vstart)` vectors -/
theorem lanczosCore_fin' {dnorm : List 𝕜 → ℝ} (hN : NormContract dnorm) {vstart : List 𝕜} {numiter : Nat}
    (hA : IsHermitian vstart.length Afun) {st : LState 𝕜 ℝ}
    (h : lanczosCore Afun dnorm vstart numiter = .ok st) :
    ∃ k, k ≤ numiter ∧ k ≤ vstart.length ∧ LFin vstart.length Afun st k := by
  obtain ⟨k, hk, hf⟩ := lanczosCoreU_fin hN hA h
  exact ⟨k, by omega, by omega, hf⟩

/-- **main lemma**: the state returned by `lanczosCore` satisfies the final predicate for its `k` vectors -/
theorem lanczosCore_fin {dnorm : List 𝕜 → ℝ} (hN : NormContract dnorm) {vstart : List 𝕜} {numiter : Nat}
    (hA : IsHermitian vstart.length Afun) {st : LState 𝕜 ℝ}
    (h : lanczosCore Afun dnorm vstart numiter = .ok st) :
    ∃ k, k ≤ numiter ∧ LFin vstart.length Afun st k := by
  obtain ⟨k, hk, _, hf⟩ := lanczosCore_fin' hN hA h
  exact ⟨k, hk, hf⟩

/-- entries of the symmetric tridiagonal matrix with diagonal `alpha` and off-diagonals `beta` -/
def tridiag (alpha beta : List ℝ) (a b : Nat) : ℝ :=
  if a = b then alpha.getD a 0 else if a + 1 = b then beta.getD a 0 else if b + 1 = a then beta.getD b 0 else 0

/-- the projected map is the tridiagonal matrix: `⟪v_a, A v_b⟫ = T[a, b]` -/
theorem LFin.proj (hA : IsHermitian n Afun) {st : LState 𝕜 ℝ} {k : Nat} (h : LFin n Afun st k)
    {a b : Nat} (ha : a < k) (hb : b < k) :
    vdot n (st.vec a) (Afun (st.vec b)) = ((tridiag st.alpha st.beta a b : ℝ) : 𝕜) := by
  unfold tridiag
  by_cases hb1 : b + 1 < k
  · rw [(h.rcr b hb1).right (st.vec a), h.orth a b ha hb, h.orth a (b + 1) ha hb1]
    rcases Nat.eq_zero_or_pos b with rfl | hb0
    · rw [if_neg (lt_irrefl _)]
      kry_delta
    · obtain ⟨b, rfl⟩ : ∃ b', b = b' + 1 := ⟨b - 1, by omega⟩
      rw [if_pos (Nat.succ_pos _), Nat.add_sub_cancel, h.orth a b ha (by omega)]
      kry_delta
  · have hbk : b = k - 1 := by omega
    by_cases ha1 : a + 1 < k
    · -- use the recurrence of `a` in the first slot
      rw [← hA _ _ (h.len a ha) (h.len b hb), h.rcr a ha1 (st.vec b), h.orth a b ha hb, h.orth (a + 1) b ha1 hb]
      rcases Nat.eq_zero_or_pos a with rfl | ha0
      · rw [if_neg (lt_irrefl _)]
        kry_delta
      · obtain ⟨a, rfl⟩ : ∃ a', a = a' + 1 := ⟨a - 1, by omega⟩
        rw [if_pos (Nat.succ_pos _), Nat.add_sub_cancel, h.orth a b (by omega) hb]
        kry_delta
    · have hab : a = b := by omega
      subst hab
      rw [if_pos rfl, ← hA _ _ (h.len a ha) (h.len a ha), ← hA.re_eq (h.len a ha)]
      have := h.last
      rw [← hbk] at this
      rw [← this]

end inv
end Ptn.Krylov

import PtnModel.Proofs.TreeChain
/-!
# `_insert_subtree`: structure and meaning of an inserted subtree
-/
set_option linter.unusedSectionVars false

namespace Ptn.Og
open List Ptn.Dense

variable {κ : Type} [CommRing κ] [DecidableEq κ]

/-! ## equations of the model functions in plain `bind` form -/

theorem insertChildren_nil (id r nodeNid dist : Int) (g : Graph κ) :
    Graph.insertChildren id [] r nodeNid dist g = .ok g := by
  unfold Graph.insertChildren; rfl

theorem insertChildren_cons_gt (id oid : Int) (coeff : κ) (child : TNode κ) (rest : List (Int × κ × TNode κ))
    (r nodeNid dist : Int) (g : Graph κ) (h : dist > 1) :
    Graph.insertChildren id ((oid, coeff, child) :: rest) r nodeNid dist g =
      match maxInt? (dKeys g.nodes) with
      | none => .error .value
      | some m =>
        g.modifyNode r (fun n => n.addEdgeId (maxKeysD g.edges + 1) true) >>= fun g1 =>
        g1.addEdge (Edge.mk' (maxKeysD g.edges + 1) (nodeNid, m + 1) [(oid, coeff)]) >>= fun g2 =>
        Node.mk' (m + 1) [maxKeysD g.edges + 1] [] child.qnum >>= fun n =>
        g2.addNode n >>= fun g3 =>
        Graph.insertSubtree id child (m + 1) (dist - 1) g3 >>= fun g4 =>
        Graph.insertChildren id rest r nodeNid dist g4 := by
  rw [Graph.insertChildren]
  simp only [h, if_true]
  cases maxInt? (dKeys g.nodes) <;> rfl

theorem insertChildren_cons_le (id oid : Int) (coeff : κ) (child : TNode κ) (rest : List (Int × κ × TNode κ))
    (r nodeNid dist : Int) (g : Graph κ) (h : ¬ dist > 1) :
    Graph.insertChildren id ((oid, coeff, child) :: rest) r nodeNid dist g =
      g.modifyNode r (fun n => n.addEdgeId (maxKeysD g.edges + 1) true) >>= fun g1 =>
      g1.addEdge (Edge.mk' (maxKeysD g.edges + 1) (nodeNid, g.term true) [(oid, coeff)]) >>= fun g2 =>
      g2.modifyNode (g.term true) (fun n => n.addEdgeId (maxKeysD g.edges + 1) false) >>= fun g3 =>
      Graph.insertSubtree id child (g.term true) (dist - 1) g3 >>= fun g4 =>
      Graph.insertChildren id rest r nodeNid dist g4 := by
  rw [Graph.insertChildren]
  simp only [h, if_false]
  rfl

theorem insertSubtree_eq (id q : Int) (cs : List (Int × κ × TNode κ)) (r dist : Int) (g : Graph κ) :
    Graph.insertSubtree id (.mk q cs) r dist g =
      if dist < 0 then .error .value
      else g.getNode r >>= fun node =>
        if node.qnum != q then .error .runtime
        else match cs with
          | [] =>
            if dist > 0 then
              g.insertOpchain r (g.term true) (pyRepeat dist id) (pyRepeat dist (1 : κ)) (pyRepeat (dist - 1) (0 : Int)) true
            else pyAssert (r == g.term true) >>= fun _ => pure g
          | c :: cs => Graph.insertChildren id (c :: cs) r node.nid dist g := by
  rw [Graph.insertSubtree]
  by_cases h : dist < 0
  · simp only [h, if_true]; rfl
  · simp only [h, if_false]
    cases g.getNode r with
    | error _ => rfl
    | ok node =>
      simp only [bind, Except.bind]
      by_cases hq : (node.qnum != q) = true
      · simp only [hq, if_true]; rfl
      · simp only [hq]; rfl

/-! ## one child step is `plusNode` / `plusEdge` -/

theorem dReplace_append_of_mem {β : Type} (d e : List (Int × β)) (k : Int) (v : β) (h : k ∈ dKeys d) :
    dReplace (d ++ e) k v = dReplace d k v ++ e := by
  induction d with
  | nil => simp [dKeys] at h
  | cons p rest ih =>
    obtain ⟨k1, v1⟩ := p
    simp only [cons_append]
    unfold dReplace
    by_cases h1 : k1 = k
    · subst h1; simp
    · have hb : (k1 == k) = false := by simpa using h1
      simp only [hb, Bool.false_eq_true, if_false, cons_append, cons.injEq, true_and]
      apply ih
      simp only [dKeys, map_cons, mem_cons] at h
      rcases h with h | h
      · exact absurd h.symm h1
      · exact h

theorem dReplace_append_single_self {β : Type} (d : List (Int × β)) (k : Int) (v0 v : β) (h : k ∉ dKeys d) :
    dReplace (d ++ [(k, v0)]) k v = d ++ [(k, v)] := by
  induction d with
  | nil => simp [dReplace]
  | cons p rest ih =>
    obtain ⟨k1, v1⟩ := p
    simp only [dKeys, map_cons, mem_cons, not_or] at h
    simp only [cons_append]
    unfold dReplace
    have hb : (k1 == k) = false := by simpa using (Ne.symm h.1)
    simp only [hb, Bool.false_eq_true, if_false, cons.injEq, true_and]
    exact ih h.2

theorem Node.mk'_single (k eid q : Int) : Node.mk' k [eid] [] q = .ok ⟨k, [eid], [], q⟩ := rfl

/-- child step with a fresh node (`terminal_dist > 1`) -/
theorem child_step_fresh {g g1 g2 g3 : Graph κ} {r y eid q : Int} {ops : List (Int × κ)}
    (h1 : g.modifyNode r (fun n => n.addEdgeId eid true) = .ok g1)
    (h2 : g1.addEdge (Edge.mk' eid (r, y) ops) = .ok g2)
    (h3 : g2.addNode ⟨y, [eid], [], q⟩ = .ok g3) :
    g3 = (g.plusNode y q).plusEdge (Edge.mk' eid (r, y) ops) ∧ y ∉ dKeys g.nodes ∧ eid ∉ dKeys g.edges ∧
      r ∈ dKeys g.nodes := by
  obtain ⟨nr, nr', a1, a2, rfl⟩ := modifyNode_ok.1 h1
  obtain ⟨_, rfl⟩ := addEdgeId_ok.1 a2
  obtain ⟨hk, rfl⟩ := addEdge_ok.1 h2
  obtain ⟨hy, rfl⟩ := addNode_ok.1 h3
  simp only [dKeys_dReplace, Edge.mk'_eid] at hy hk
  have hr : r ∈ dKeys g.nodes := by
    by_contra hc
    rw [← dGet?_eq_none_iff] at hc
    rw [hc] at a1; cases a1
  refine ⟨?_, hy, hk, hr⟩
  simp only [Graph.plusEdge, Graph.plusNode, Edge.mk'_eid, Edge.mk'_nids, nodesConnect]
  congr 1
  have l1 : dGet? (g.nodes ++ [(y, (⟨y, [], [], q⟩ : Node))]) r = some nr := by
    rw [dGet?_append, a1]; rfl
  have e1 : nodesAdd (g.nodes ++ [(y, (⟨y, [], [], q⟩ : Node))]) r eid true =
      dReplace g.nodes r (nr.setEids true (nr.eids true ++ [eid])) ++ [(y, ⟨y, [], [], q⟩)] := by
    unfold nodesAdd
    simp only [l1]
    exact dReplace_append_of_mem _ _ _ _ hr
  rw [e1]
  have hy' : y ∉ dKeys (dReplace g.nodes r (nr.setEids true (nr.eids true ++ [eid]))) := by
    rw [dKeys_dReplace]; exact hy
  unfold nodesAdd
  rw [dGet?_append_single_self _ _ _ hy']
  simp only
  rw [dReplace_append_single_self _ _ _ _ hy']
  rfl

/-- child step into the terminal node (`terminal_dist ≤ 1`) -/
theorem child_step_term {g g1 g2 g3 : Graph κ} {r y eid : Int} {ops : List (Int × κ)}
    (h1 : g.modifyNode r (fun n => n.addEdgeId eid true) = .ok g1)
    (h2 : g1.addEdge (Edge.mk' eid (r, y) ops) = .ok g2)
    (h3 : g2.modifyNode y (fun n => n.addEdgeId eid false) = .ok g3) :
    g3 = g.plusEdge (Edge.mk' eid (r, y) ops) ∧ eid ∉ dKeys g.edges ∧ r ∈ dKeys g.nodes := by
  obtain ⟨nr, nr', a1, a2, rfl⟩ := modifyNode_ok.1 h1
  obtain ⟨_, rfl⟩ := addEdgeId_ok.1 a2
  obtain ⟨hk, rfl⟩ := addEdge_ok.1 h2
  obtain ⟨ny, ny', b1, b2, rfl⟩ := modifyNode_ok.1 h3
  obtain ⟨_, rfl⟩ := addEdgeId_ok.1 b2
  simp only [Edge.mk'_eid] at hk
  have hr : r ∈ dKeys g.nodes := by
    by_contra hc
    rw [← dGet?_eq_none_iff] at hc
    rw [hc] at a1; cases a1
  refine ⟨?_, hk, hr⟩
  simp only [Graph.plusEdge, Edge.mk'_eid, Edge.mk'_nids, nodesConnect]
  congr 1
  have e1 : nodesAdd g.nodes r eid true = dReplace g.nodes r (nr.setEids true (nr.eids true ++ [eid])) := by
    unfold nodesAdd; simp only [a1]
  rw [e1]
  unfold nodesAdd
  simp only at b1
  simp only [b1]

/-! ## induction on trees, coefficient function of a padded subtree -/

theorem TNode.induct2 {m1 : TNode κ → Prop} {m2 : List (Int × κ × TNode κ) → Prop}
    (h1 : ∀ q cs, m2 cs → m1 (.mk q cs)) (h2 : m2 [])
    (h3 : ∀ oid c t cs, m1 t → m2 cs → m2 ((oid, c, t) :: cs)) :
    (∀ t, m1 t) ∧ (∀ cs, m2 cs) := by
  constructor
  · intro t
    exact TNode.rec (motive_1 := m1) (motive_2 := m2) (motive_3 := fun p => m1 p.2.2) (motive_4 := fun p => m1 p.2)
      (fun q cs ih => h1 q cs ih) h2 (fun hd tl ih1 ih2 => h3 hd.1 hd.2.1 hd.2.2 tl ih1 ih2)
      (fun _ _ ih => ih) (fun _ _ ih => ih) t
  · intro cs
    exact TNode.rec_1 (motive_1 := m1) (motive_2 := m2) (motive_3 := fun p => m1 p.2.2) (motive_4 := fun p => m1 p.2)
      (fun q cs ih => h1 q cs ih) h2 (fun hd tl ih1 ih2 => h3 hd.1 hd.2.1 hd.2.2 tl ih1 ih2)
      (fun _ _ ih => ih) (fun _ _ ih => ih) cs

mutual
/-- coefficient of the word `w` in the subtree padded with identities after its leaves up to `dist` sites -/
def TNode.coef (id : Int) : TNode κ → Nat → Word → κ
  | .mk _ [], dist, w => if w = List.replicate dist id then 1 else 0
  | .mk _ (c :: cs), dist, w => kidsCoef id (c :: cs) dist w
/-- the same for a list of child edges -/
def kidsCoef (id : Int) : List (Int × κ × TNode κ) → Nat → Word → κ
  | [], _, _ => 0
  | (oid, c, t) :: cs, dist, w =>
    (match w with
     | [] => 0
     | o :: w' => if o = oid then c * TNode.coef id t (dist - 1) w' else 0) + kidsCoef id cs dist w
end

theorem kidsCoef_nil_word (id : Int) (cs : List (Int × κ × TNode κ)) (dist : Nat) : kidsCoef id cs dist [] = 0 := by
  induction cs with
  | nil => simp [kidsCoef]
  | cons c cs ih =>
    obtain ⟨oid, c, t⟩ := c
    simp [kidsCoef, ih]

theorem TNode.coef_node (id q : Int) (cs : List (Int × κ × TNode κ)) (dist : Nat) (w : Word) (h : cs ≠ []) :
    TNode.coef id (.mk q cs) dist w = kidsCoef id cs dist w := by
  cases cs with
  | nil => exact absurd rfl h
  | cons c cs => simp [TNode.coef]

theorem chainCoef_id (id : Int) (n : Nat) (w : Word) :
    chainCoef (List.replicate n id) (List.replicate n (1 : κ)) (fun w' => if w' = [] then 1 else 0) w =
      if w = List.replicate n id then 1 else 0 := by
  induction n generalizing w with
  | zero => simp [chainCoef]
  | succ n ih =>
    cases w with
    | nil => simp [replicate_succ, chainCoef]
    | cons o w =>
      simp only [replicate_succ, chainCoef_cons_cons, ih, one_mul, cons.injEq]
      by_cases ho : o = id <;> simp [ho]

/-! ## facts about valid graphs -/

theorem SValid.edge_src_mem {g : Graph κ} (h : SValid g) {e : Edge κ} (he : e ∈ g.edgeList) :
    e.nids.1 ∈ dKeys g.nodes := by
  obtain ⟨⟨k, e'⟩, hm, rfl⟩ := mem_map.1 he
  obtain ⟨n, hn, _⟩ := h.edgeNode k e' hm false
  exact mem_map.2 ⟨_, hn, rfl⟩

theorem SValid.edge_tgt_mem {g : Graph κ} (h : SValid g) {e : Edge κ} (he : e ∈ g.edgeList) :
    e.nids.2 ∈ dKeys g.nodes := by
  obtain ⟨⟨k, e'⟩, hm, rfl⟩ := mem_map.1 he
  obtain ⟨n, hn, _⟩ := h.edgeNode k e' hm true
  exact mem_map.2 ⟨_, hn, rfl⟩

theorem SValid.edge_src_ne_term {g : Graph κ} (h : SValid g) {e : Edge κ} (he : e ∈ g.edgeList) :
    e.nids.1 ≠ g.term true := by
  obtain ⟨⟨k, e'⟩, hm, rfl⟩ := mem_map.1 he
  exact h.no_out_term hm

theorem insertSubtree_dist_nonneg {id : Int} {T : TNode κ} {r dist : Int} {g g' : Graph κ}
    (h : Graph.insertSubtree id T r dist g = .ok g') : 0 ≤ dist := by
  obtain ⟨q, cs⟩ := T
  rw [insertSubtree_eq] at h
  by_contra hc
  have : dist < 0 := by omega
  simp only [this, if_true] at h
  cases h

/-- the first child step of `insertChildren`, in canonical form -/
theorem insertChildren_cons_ok {id oid : Int} {coeff : κ} {child : TNode κ} {rest : List (Int × κ × TNode κ)}
    {r dist : Int} {g g3 : Graph κ} (h : Graph.insertChildren id ((oid, coeff, child) :: rest) r r dist g = .ok g3)
    (sv : SValid g) (hrt : r ≠ g.term true) (ht01 : g.term true ≠ g.term false) :
    ∃ (y eid : Int) (g1 g2 : Graph κ), SValid g1 ∧ g1.nidTerminal = g.nidTerminal ∧
      g1.edgeList = g.edgeList ++ [Edge.mk' eid (r, y) [(oid, coeff)]] ∧
      ((y ∉ dKeys g.nodes ∧ dKeys g1.nodes = dKeys g.nodes ++ [y]) ∨
        (y = g.term true ∧ dKeys g1.nodes = dKeys g.nodes ∧ dist = 1)) ∧
      r ∈ dKeys g.nodes ∧
      Graph.insertSubtree id child y (dist - 1) g1 = .ok g2 ∧
      Graph.insertChildren id rest r r dist g2 = .ok g3 := by
  by_cases hd : dist > 1
  · rw [insertChildren_cons_gt _ _ _ _ _ _ _ _ _ hd] at h
    cases hm : maxInt? (dKeys g.nodes) with
    | none => rw [hm] at h; cases h
    | some m =>
      rw [hm] at h
      simp only at h
      rw [bind_ok] at h
      obtain ⟨g1, h1, h⟩ := h
      rw [bind_ok] at h
      obtain ⟨g2, h2, h⟩ := h
      rw [Node.mk'_single, bind_ok] at h
      obtain ⟨n, hn, h⟩ := h
      cases hn
      rw [bind_ok] at h
      obtain ⟨g3', h3, h⟩ := h
      rw [bind_ok] at h
      obtain ⟨g4, h4, h5⟩ := h
      obtain ⟨rfl, hy, hk, hr⟩ := child_step_fresh h1 h2 h3
      refine ⟨m + 1, maxKeysD g.edges + 1, _, g4, sv.plusNodeEdge hr hrt hy hk, rfl, ?_, Or.inl ⟨hy, ?_⟩, hr, h4, h5⟩
      · rw [plusEdge_edgeList, plusNode_edgeList]
      · rw [plusEdge_keys, plusNode_keys]
  · rw [insertChildren_cons_le _ _ _ _ _ _ _ _ _ hd] at h
    rw [bind_ok] at h
    obtain ⟨g1, h1, h⟩ := h
    rw [bind_ok] at h
    obtain ⟨g2, h2, h⟩ := h
    rw [bind_ok] at h
    obtain ⟨g3', h3, h⟩ := h
    rw [bind_ok] at h
    obtain ⟨g4, h4, h5⟩ := h
    obtain ⟨rfl, hk, hr⟩ := child_step_term h1 h2 h3
    have hdist := insertSubtree_dist_nonneg h4
    obtain ⟨nx, hnx⟩ := exists_get_of_mem_keys hr
    obtain ⟨ny, hny⟩ := exists_get_of_mem_keys (sv.term_mem true)
    have sv1 := sv.plusEdge (e := Edge.mk' (maxKeysD g.edges + 1) (r, g.term true) [(oid, coeff)]) hk hnx hny hrt hrt ht01
      (mk'_opics_sorted _ _ _)
    exact ⟨g.term true, maxKeysD g.edges + 1, _, g4, sv1, rfl, plusEdge_edgeList _ _,
      Or.inr ⟨rfl, plusEdge_keys _ _, by omega⟩, hr, h4, h5⟩

end Ptn.Og

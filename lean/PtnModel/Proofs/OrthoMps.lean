import PtnModel.Proofs.OrthoRun
/-!
# `MPS.orthonormalize(mode='left')` is a `LeftRun`

* `ortho_left_eq`        : the model function in terms of `MPS.sweepLeftQr`;
* `leftRun_of_mps_left`  : a successful call is a `LeftRun`;
* `mps_left_ok`          : no exception on admissible input.
-/
set_option linter.unusedSectionVars false
namespace Ptn.Ortho
open Ptn.BondOps Finset Ptn.Env

section generic
variable {𝕜 : Type} [CommRing 𝕜] [DecidableEq 𝕜]
variable {dqr : Mat 𝕜 → Mat 𝕜 × Mat 𝕜}
variable {ρ : Type} [RealLike ρ 𝕜] [OfNat ρ 0] [OfNat ρ 1] [Neg ρ] [LT ρ] [DecidableLT ρ]

/-- `orthonormalize(mode='left')` in terms of the sweep -/
theorem ortho_left_eq (qd : List Int) (A0 : T3 𝕜) (rest : List (T3 𝕜)) (q0 : List Int) (qrest : List (List Int)) :
    MPS.orthonormalize (ρ := ρ) dqr ⟨qd, q0 :: qrest, A0 :: rest⟩ true =
      match MPS.sweepLeftQr dqr qd A0 q0 rest qrest with
      | .error e => .error e
      | .ok (As, qs, T) =>
        if (T.d0 == 1 && T.d1 == 1 && T.d2 == 1) = true then
          if (RealLike.re (T.f 0 0 0) : ρ) < 0 then
            .ok (⟨qd, q0 :: qs, negLast As⟩, -(RealLike.re (T.f 0 0 0) : ρ))
          else .ok (⟨qd, q0 :: qs, As⟩, RealLike.re (T.f 0 0 0))
        else .error .assertion := by
  unfold MPS.orthonormalize
  simp only [if_true]
  cases hs : MPS.sweepLeftQr dqr qd A0 q0 rest qrest with
  | error e => rfl
  | ok r =>
    obtain ⟨As, qs, T⟩ := r
    simp only [bind, Except.bind, pyAssert]
    by_cases hT : (T.d0 == 1 && T.d1 == 1 && T.d2 == 1) = true
    · simp only [hT, if_true]
      by_cases hn : (RealLike.re (T.f 0 0 0) : ρ) < 0
      · simp only [hn, if_true, take_drop_negLast]; rfl
      · simp only [hn, if_false]; rfl
    · simp only [hT]
      rfl
end generic

variable {𝕜 : Type} [RCLike 𝕜] [DecidableEq 𝕜]
variable {dqr : Mat 𝕜 → Mat 𝕜 × Mat 𝕜}
attribute [local instance] rcRealLike

theorem dims_one_iff (T : T3 𝕜) : (T.d0 == 1 && T.d1 == 1 && T.d2 == 1) = true ↔ T.d0 = 1 ∧ T.d1 = 1 ∧ T.d2 = 1 := by
  simp [and_assoc]

/-- a successful `orthonormalize(mode='left')` is a `LeftRun` -/
theorem leftRun_of_mps_left {ψ ψ' : MPS 𝕜} {nrm : ℝ} (hne : ψ.A ≠ [])
    (hrun : MPS.orthonormalize dqr ψ true = .ok (ψ', nrm)) : LeftRun dqr ψ ψ' nrm := by
  obtain ⟨qd, qD, A⟩ := ψ
  cases A with
  | nil => exact absurd rfl hne
  | cons A0 rest =>
    cases qD with
    | nil => simp [MPS.orthonormalize] at hrun
    | cons q0 qrest =>
      rw [ortho_left_eq] at hrun
      cases hs : MPS.sweepLeftQr dqr qd A0 q0 rest qrest with
      | error e => rw [hs] at hrun; cases hrun
      | ok r =>
        obtain ⟨As, qs, T⟩ := r
        rw [hs] at hrun
        dsimp only at hrun
        by_cases hT : (T.d0 == 1 && T.d1 == 1 && T.d2 == 1) = true
        · rw [if_pos hT] at hrun
          obtain ⟨t0, t1, t2⟩ := (dims_one_iff T).1 hT
          refine ⟨A0, rest, q0, qrest, As, qs, T, rfl, rfl, sweepLeft_of_run hs, t0, t1, t2, ?_⟩
          by_cases hn : (RealLike.re (T.f 0 0 0) : ℝ) < 0
          · rw [if_pos hn] at hrun
            injection hrun with h
            injection h with h1 h2
            exact Or.inl ⟨hn, h1.symm, h2.symm⟩
          · rw [if_neg hn] at hrun
            injection hrun with h
            injection h with h1 h2
            exact Or.inr ⟨hn, h1.symm, h2.symm⟩
        · rw [if_neg hT] at hrun; cases hrun

/-- `orthonormalize(mode='left')` raises no exception on admissible input (kernel: shape clause only) -/
theorem mps_left_ok (hshape : ∀ B, ShapeAt dqr B) {ψ : MPS 𝕜} (hadm : Admissible ψ) :
    ∃ ψ' nrm, MPS.orthonormalize (ρ := ℝ) dqr ψ true = .ok (ψ', nrm) := by
  obtain ⟨A0, rest, q0, qrest, hA, hq⟩ := hadm.exists_cons
  obtain ⟨hw, h0, hl⟩ := hadm.chain hA hq
  obtain ⟨qd, qD, A⟩ := ψ
  simp only at hA hq hw
  subst hA hq
  obtain ⟨As, qs, T, hs⟩ := sweepLeft_ok hshape hadm.d_pos (by omega) hw hl
  have hT : (T.d0 == 1 && T.d1 == 1 && T.d2 == 1) = true :=
    (dims_one_iff T).2 ((sweepLeft_of_run hs).dims_one hshape hadm.d_pos (by omega) hw hl)
  rw [ortho_left_eq, hs]
  dsimp only
  rw [if_pos hT]
  split
  · exact ⟨_, _, rfl⟩
  · exact ⟨_, _, rfl⟩
end Ptn.Ortho

import Mathlib.Algebra.BigOperators.Group.List.Basic
import Mathlib.Algebra.Ring.Defs
import Mathlib.Tactic.Ring
import PtnModel.Model.Hamiltonian
/-!
# The Ising automaton denotes `Σ_i J Z_i Z_{i+1} + h Z_i + g X_i` on every number of sites

`isingAutomaton J h g` returns (its `is_consistent` assertion holds) the explicit three-state automaton; its path-sum
denotation `AutOp.denF` on a word `w` (operator ids `I = 0, Z = 1, X = 2`, one per site) equals the textbook coefficient
`isingCoeff J h g w`, for words of every length.
-/
set_option linter.unusedSectionVars false

namespace Ptn.Ham
open Ptn.Og

variable {κ : Type} [CommRing κ] [DecidableEq κ]

/-- the automaton built by `ising_mpo` -/
def isingAut (J h g : κ) : AutOp κ :=
  ⟨[(0, ⟨0, [0], [0, 2, 4, 5], 0⟩), (1, ⟨1, [1, 3, 4, 5], [1], 0⟩), (2, ⟨2, [2], [3], 0⟩)],
   [(0, constEdge 0 0 0 [(0, 1)]), (1, constEdge 1 1 1 [(0, 1)]), (2, constEdge 2 0 2 [(1, J)]),
    (3, constEdge 3 2 1 [(1, 1)]), (4, constEdge 4 0 1 [(1, h)]), (5, constEdge 5 0 1 [(2, g)])],
   (0, 1)⟩

theorem isingAut_consistent (J h g : κ) : (isingAut J h g).isConsistent = true := by
  rfl

theorem isingAutomatonRaw_eq (J h g : κ) : isingAutomatonRaw J h g = .ok (isingAut J h g) := rfl

theorem isingAutomaton_eq (J h g : κ) : isingAutomaton J h g = .ok (isingAut J h g) := by
  simp [isingAutomaton, isingAutomatonRaw_eq, isingAut_consistent, pyAssert, bind, Except.bind, pure, Except.pure]

/-- all letters are the identity -/
def allId (w : Word) : Bool := w.all (· == 0)

/-- `Z` followed by identities -/
def zThenId : Word → Bool
  | [] => false
  | o :: w => o == 1 && allId w

/-- coefficient of the word in `Σ_i J Z_i Z_{i+1} + h Z_i + g X_i`, by recursion on the first site:
either the first site carries the identity and the rest carries a term, or a term starts at the first site -/
def isingCoeff (J h g : κ) : Word → κ
  | [] => 0
  | o :: w =>
    (if o = 0 then isingCoeff J h g w else 0)
    + (if o = 1 ∧ zThenId w then J else 0)
    + (if o = 1 ∧ allId w then h else 0)
    + (if o = 2 ∧ allId w then g else 0)

theorem ia_node0 (J h g : κ) : dGet? (isingAut J h g).nodes 0 = some ⟨0, [0], [0, 2, 4, 5], 0⟩ := rfl
theorem ia_node1 (J h g : κ) : dGet? (isingAut J h g).nodes 1 = some ⟨1, [1, 3, 4, 5], [1], 0⟩ := rfl
theorem ia_node2 (J h g : κ) : dGet? (isingAut J h g).nodes 2 = some ⟨2, [2], [3], 0⟩ := rfl
theorem ia_edge0 (J h g : κ) : dGet? (isingAut J h g).edges 0 = some (constEdge 0 0 0 [(0, 1)]) := rfl
theorem ia_edge1 (J h g : κ) : dGet? (isingAut J h g).edges 1 = some (constEdge 1 1 1 [(0, 1)]) := rfl
theorem ia_edge2 (J h g : κ) : dGet? (isingAut J h g).edges 2 = some (constEdge 2 0 2 [(1, J)]) := rfl
theorem ia_edge3 (J h g : κ) : dGet? (isingAut J h g).edges 3 = some (constEdge 3 2 1 [(1, 1)]) := rfl
theorem ia_edge4 (J h g : κ) : dGet? (isingAut J h g).edges 4 = some (constEdge 4 0 1 [(1, h)]) := rfl
theorem ia_edge5 (J h g : κ) : dGet? (isingAut J h g).edges 5 = some (constEdge 5 0 1 [(2, g)]) := rfl
theorem ia_term (J h g : κ) : (isingAut J h g).term true = 1 := rfl
theorem ia_term0 (J h g : κ) : (isingAut J h g).term false = 0 := rfl

theorem ising_from1 (J h g : κ) : ∀ (w : Word) (i : Nat),
    (isingAut J h g).denFrom w i 1 = if allId w then 1 else 0 := by
  intro w
  induction w with
  | nil => intro i; simp [AutOp.denFrom, ia_term, allId]
  | cons o w ih =>
    intro i
    simp only [AutOp.denFrom, ia_node1, ia_edge1, constEdge, sumList, List.map, List.foldl, if_true, ih]
    by_cases ho : o = 0
    · subst ho; simp [allId]
    · have : ¬ (0 : Int) = o := fun e => ho e.symm
      simp [allId, ho, this]

theorem ising_from2 (J h g : κ) (w : Word) (i : Nat) :
    (isingAut J h g).denFrom w i 2 = if zThenId w then 1 else 0 := by
  cases w with
  | nil => simp [AutOp.denFrom, ia_term, zThenId]
  | cons o w =>
    simp only [AutOp.denFrom, ia_node2, ia_edge3, constEdge, sumList, List.map, List.foldl, if_true, ising_from1]
    by_cases ho : o = 1
    · subst ho; simp [zThenId]
    · have : ¬ (1 : Int) = o := fun e => ho e.symm
      simp [zThenId, ho, this]

theorem ising_from0 (J h g : κ) : ∀ (w : Word) (i : Nat),
    (isingAut J h g).denFrom w i 0 = isingCoeff J h g w := by
  intro w
  induction w with
  | nil => intro i; simp [AutOp.denFrom, ia_term, isingCoeff]
  | cons o w ih =>
    intro i
    simp only [AutOp.denFrom, ia_node0, ia_edge0, ia_edge2, ia_edge4, ia_edge5, constEdge, sumList, List.map, List.foldl,
      if_true, ih, ising_from1, ising_from2, isingCoeff]
    by_cases h0 : o = 0
    · subst h0; simp
    · by_cases h1 : o = 1
      · subst h1
        by_cases hz : zThenId w <;> by_cases ha : allId w <;> simp [hz, ha]
      · by_cases h2 : o = 2
        · subst h2
          by_cases ha : allId w <;> simp [ha]
        · have a0 : ¬ (0 : Int) = o := fun e => h0 e.symm
          have a1 : ¬ (1 : Int) = o := fun e => h1 e.symm
          have a2 : ¬ (2 : Int) = o := fun e => h2 e.symm
          simp [h0, h1, h2, a0, a1, a2]

/-- the denotation of the Ising automaton on any word -/
theorem ising_denF (J h g : κ) (w : Word) : (isingAut J h g).denF w = isingCoeff J h g w := by
  unfold AutOp.denF
  exact ising_from0 J h g w 0

/-! ## `isingCoeff` is the textbook sum over positions -/

theorem allId_iff (w : Word) : allId w = true ↔ w = List.replicate w.length 0 := by
  induction w with
  | nil => simp [allId]
  | cons o w ih =>
    simp only [allId, List.all_cons, Bool.and_eq_true, beq_iff_eq, List.length_cons, List.replicate_succ, List.cons.injEq] at ih ⊢
    rw [ih]

theorem zThenId_iff (w : Word) : zThenId w = true ↔ ∃ n, w = 1 :: List.replicate n 0 := by
  cases w with
  | nil => simp [zThenId]
  | cons o w =>
    simp only [zThenId, Bool.and_eq_true, beq_iff_eq, allId_iff, List.cons.injEq]
    constructor
    · rintro ⟨rfl, hw⟩; exact ⟨w.length, rfl, hw⟩
    · rintro ⟨n, rfl, hw⟩
      refine ⟨rfl, ?_⟩
      rw [hw]; simp

/-- the term `t` placed at site `i` of `n` sites -/
def placedWord (t : Word) (n i : Nat) : Word := List.replicate i 0 ++ t ++ List.replicate (n - t.length - i) 0

/-- `Σ_i J [w = Z_i Z_{i+1}] + h [w = Z_i] + g [w = X_i]` over all positions `i < |w|` -/
def isingSum (J h g : κ) (w : Word) : κ :=
  ((List.range w.length).map fun i =>
    (if w = placedWord [1, 1] w.length i then J else 0) + (if w = placedWord [1] w.length i then h else 0)
    + (if w = placedWord [2] w.length i then g else 0)).sum

theorem placed_succ (t : Word) (n i : Nat) (o : Int) (w : Word) (ht : t.length + i ≤ n) :
    (o :: w = placedWord t (n + 1) (i + 1)) ↔ (o = 0 ∧ w = placedWord t n i) := by
  have e : n + 1 - t.length - (i + 1) = n - t.length - i := by omega
  simp only [placedWord, List.replicate_succ, List.cons_append, List.cons.injEq, e]

theorem placed_long (t : Word) (n i : Nat) (w : Word) (hw : w.length = n) (ht : n < t.length + i) :
    ¬ w = placedWord t n i := by
  intro h
  have := congrArg List.length h
  simp only [placedWord, List.length_append, List.length_replicate, hw] at this
  omega

theorem placed_succ_iff (t : Word) (n i : Nat) (o : Int) (w : Word) (hw : w.length = n) :
    (o :: w = placedWord t (n + 1) (i + 1)) ↔ (o = 0 ∧ w = placedWord t n i) := by
  by_cases ht : t.length + i ≤ n
  · exact placed_succ t n i o w ht
  · have h1 : ¬ (o :: w = placedWord t (n + 1) (i + 1)) := placed_long t (n + 1) (i + 1) (o :: w) (by simp [hw]) (by omega)
    have h2 : ¬ (w = placedWord t n i) := placed_long t n i w hw (by omega)
    simp [h1, h2]

theorem placed_zero_ZZ (n : Nat) (o : Int) (w : Word) (hw : w.length = n) :
    (o :: w = placedWord [1, 1] (n + 1) 0) ↔ (o = 1 ∧ zThenId w = true) := by
  rw [zThenId_iff]
  simp only [placedWord, List.replicate_zero, List.nil_append, List.length_cons, List.length_nil, List.cons_append,
    List.cons.injEq, Nat.sub_zero]
  constructor
  · rintro ⟨rfl, hw'⟩
    exact ⟨rfl, _, hw'⟩
  · rintro ⟨rfl, m, rfl⟩
    refine ⟨rfl, ?_⟩
    simp only [List.length_cons, List.length_replicate] at hw
    have : n + 1 - (0 + 1 + 1) = m := by omega
    rw [this]

theorem placed_zero_single (x : Int) (n : Nat) (o : Int) (w : Word) (hw : w.length = n) :
    (o :: w = placedWord [x] (n + 1) 0) ↔ (o = x ∧ allId w = true) := by
  rw [allId_iff, hw]
  simp [placedWord]

theorem sum_map_zero {α : Type} (l : List α) : (l.map fun _ => (0 : κ)).sum = 0 := by
  induction l with
  | nil => rfl
  | cons a l ih => simp

/-- **the recursive coefficient is the sum over all positions** -/
theorem isingCoeff_eq_sum (J h g : κ) : ∀ w : Word, isingCoeff J h g w = isingSum J h g w := by
  intro w
  induction w with
  | nil => simp [isingCoeff, isingSum]
  | cons o w ih =>
    have hshift : isingSum J h g (o :: w) =
        ((if o = 1 ∧ zThenId w = true then J else 0) + (if o = 1 ∧ allId w = true then h else 0)
          + (if o = 2 ∧ allId w = true then g else 0))
        + ((List.range w.length).map fun i =>
            (if o = 0 ∧ w = placedWord [1, 1] w.length i then J else 0)
            + (if o = 0 ∧ w = placedWord [1] w.length i then h else 0)
            + (if o = 0 ∧ w = placedWord [2] w.length i then g else 0)).sum := by
      unfold isingSum
      rw [List.length_cons, List.range_succ_eq_map, List.map_cons, List.sum_cons, List.map_map]
      congr 1
      · simp only [placed_zero_ZZ w.length o w rfl, placed_zero_single 1 w.length o w rfl,
          placed_zero_single 2 w.length o w rfl]
      · congr 1
        apply List.map_congr_left
        intro i _
        simp only [Function.comp, placed_succ_iff _ w.length i o w rfl]
    rw [hshift, isingCoeff, ih]
    by_cases h0 : o = 0
    · subst h0
      simp [isingSum]
    · simp only [h0, false_and, if_false, add_zero, sum_map_zero]
      ring

/-- **`ising_mpo`: the automaton handed to `from_automaton` denotes `Σ_i J Z_i Z_{i+1} + h Z_i + g X_i`** on words of every length
(ids `I = 0`, `Z = 1`, `X = 2`); in particular on one site only the field terms survive. -/
theorem ising_denF_sum (J h g : κ) (w : Word) : (isingAut J h g).denF w = isingSum J h g w := by
  rw [ising_denF, isingCoeff_eq_sum]

end Ptn.Ham

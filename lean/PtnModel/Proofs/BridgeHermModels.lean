import PtnModel.Proofs.BridgeHerm
/-!
# "Real data" facts for the Hermiticity statements of the lattice models

A ring endomorphism `σ` of the scalars (complex conjugation) that fixes the constants `0.5`, `√n` fixes every entry of the
operator tables of the five models; if it also fixes the parameters it fixes the coefficients of all terms.
`ising_hermitian`: all Ising tables are symmetric, hence `F s t = σ (F t s)` for the Ising term sum.
-/
set_option linter.unusedSectionVars false

namespace Ptn.Ham
open Ptn Ptn.Og Ptn.Ch List

variable {κ : Type} [CommRing κ] [DecidableEq κ]

/-- an entry is `0` (out of range) or a member of a row -/
theorem entry_zero_or_mem (m : Og.Mat κ) (i j : Nat) : m.entry i j = 0 ∨ ∃ row ∈ m, m.entry i j ∈ row := by
  unfold Mat.entry
  by_cases hi : i < m.length
  · by_cases hj : j < (m[i]).length
    · right
      refine ⟨m[i], getElem_mem hi, ?_⟩
      simp only [List.getD_eq_getElem?_getD, getElem?_eq_getElem hi, Option.getD_some, getElem?_eq_getElem hj]
      exact getElem_mem hj
    · left
      simp only [List.getD_eq_getElem?_getD, getElem?_eq_getElem hi, Option.getD_some]
      rw [getElem?_eq_none (by omega)]
      rfl
  · left
    have h1 : m[i]? = none := getElem?_eq_none (by omega)
    simp [List.getD_eq_getElem?_getD, h1]

theorem fixes_entries (σ : κ →+* κ) (opmap : OpMap κ) (h : ∀ p ∈ opmap, ∀ row ∈ p.2, ∀ x ∈ row, σ x = x) :
    ∀ p ∈ opmap, ∀ i j, σ (p.2.entry i j) = p.2.entry i j := by
  intro p hp i j
  rcases entry_zero_or_mem p.2 i j with h0 | ⟨row, hrow, hx⟩
  · rw [h0, map_zero]
  · exact h p hp row hrow _ hx

theorem fixes_identity (σ : κ →+* κ) (d : Nat) : ∀ row ∈ (Og.Mat.identity d : Og.Mat κ), ∀ x ∈ row, σ x = x := by
  intro row hrow x hx
  simp only [Mat.identity, mem_map, mem_range] at hrow
  obtain ⟨i, _, rfl⟩ := hrow
  simp only [mem_map, mem_range] at hx
  obtain ⟨j, _, rfl⟩ := hx
  by_cases h : i = j <;> simp [h]

theorem fixes_matOf (σ : κ →+* κ) (d : Nat) (f : Nat → Nat → κ) (hf : ∀ i j, σ (f i j) = f i j) :
    ∀ row ∈ matOf d f, ∀ x ∈ row, σ x = x := by
  intro row hrow x hx
  simp only [matOf, mem_map, mem_range] at hrow
  obtain ⟨i, _, rfl⟩ := hrow
  simp only [mem_map, mem_range] at hx
  obtain ⟨j, _, rfl⟩ := hx
  exact hf i j

theorem fixes_ofN (σ : κ →+* κ) : ∀ n : Nat, σ (ofN n : κ) = ofN n := by
  intro n
  induction n with
  | zero => simp [ofN]
  | succ n ih =>
    cases n with
    | zero => simp [ofN]
    | succ m => simp only [ofN, map_add, map_one]; rw [ih]

theorem xxz_fixed (c : Consts κ) (σ : κ →+* κ) (hh : σ c.half = c.half) :
    ∀ p ∈ xxzOpmap c, ∀ i j, σ (p.2.entry i j) = p.2.entry i j := by
  apply fixes_entries
  intro p hp
  simp only [xxzOpmap, mem_cons, not_mem_nil, or_false] at hp
  rcases hp with rfl | rfl | rfl | rfl
  · intro row hrow x hx
    simp only [mem_cons, not_mem_nil, or_false] at hrow
    rcases hrow with rfl | rfl <;> simp only [mem_cons, not_mem_nil, or_false] at hx <;> rcases hx with rfl | rfl <;> simp
  · exact fixes_identity σ 2
  · intro row hrow x hx
    simp only [mem_cons, not_mem_nil, or_false] at hrow
    rcases hrow with rfl | rfl <;> simp only [mem_cons, not_mem_nil, or_false] at hx <;> rcases hx with rfl | rfl <;> simp
  · intro row hrow x hx
    simp only [mem_cons, not_mem_nil, or_false] at hrow
    rcases hrow with rfl | rfl <;> simp only [mem_cons, not_mem_nil, or_false] at hx <;> rcases hx with rfl | rfl <;> simp [hh]

theorem xxz1_fixed (c : Consts κ) (σ : κ →+* κ) (hs : σ (c.sq 2) = c.sq 2) :
    ∀ p ∈ xxz1Opmap c, ∀ i j, σ (p.2.entry i j) = p.2.entry i j := by
  apply fixes_entries
  intro p hp
  simp only [xxz1Opmap, mem_cons, not_mem_nil, or_false] at hp
  rcases hp with rfl | rfl | rfl | rfl
  · intro row hrow x hx
    simp only [mem_cons, not_mem_nil, or_false] at hrow
    rcases hrow with rfl | rfl | rfl <;> simp only [mem_cons, not_mem_nil, or_false] at hx <;>
      rcases hx with rfl | rfl | rfl <;> simp [hs]
  · exact fixes_identity σ 3
  · intro row hrow x hx
    simp only [mem_cons, not_mem_nil, or_false] at hrow
    rcases hrow with rfl | rfl | rfl <;> simp only [mem_cons, not_mem_nil, or_false] at hx <;>
      rcases hx with rfl | rfl | rfl <;> simp [hs]
  · intro row hrow x hx
    simp only [mem_cons, not_mem_nil, or_false] at hrow
    rcases hrow with rfl | rfl | rfl <;> simp only [mem_cons, not_mem_nil, or_false] at hx <;>
      rcases hx with rfl | rfl | rfl <;> simp

theorem bose_fixed (c : Consts κ) (d : Nat) (σ : κ →+* κ) (hs : ∀ n, σ (c.sq n) = c.sq n) :
    ∀ p ∈ boseOpmap c d, ∀ i j, σ (p.2.entry i j) = p.2.entry i j := by
  apply fixes_entries
  intro p hp
  simp only [boseOpmap, mem_cons, not_mem_nil, or_false] at hp
  rcases hp with rfl | rfl | rfl | rfl | rfl
  · apply fixes_matOf; intro i j; by_cases h : j = i + 1 <;> simp [h, hs]
  · exact fixes_identity σ d
  · apply fixes_matOf; intro i j; by_cases h : i = j + 1 <;> simp [h, hs]
  · apply fixes_matOf; intro i j; by_cases h : i = j <;> simp [h, fixes_ofN]
  · apply fixes_matOf; intro i j; by_cases h : i = j <;> simp [h, fixes_ofN]

theorem fh_fixed (c : Consts κ) (σ : κ →+* κ) (hh : σ c.half = c.half) :
    ∀ p ∈ fermiHubbardOpmap c, ∀ i j, σ (p.2.entry i j) = p.2.entry i j := by
  rw [fermiHubbardOpmap_eq]
  apply fixes_entries
  intro p hp
  simp only [fhTables, mem_cons, not_mem_nil, or_false] at hp
  rcases hp with rfl | rfl | rfl | rfl | rfl | rfl | rfl | rfl | rfl | rfl | rfl
  · exact fixes_identity σ 4
  all_goals
    intro row hrow x hx
    simp only [mem_cons, not_mem_nil, or_false] at hrow
    rcases hrow with rfl | rfl | rfl | rfl <;> simp only [mem_cons, not_mem_nil, or_false] at hx <;>
      rcases hx with rfl | rfl | rfl | rfl <;> simp [hh]

/-! ## Ising: symmetric tables -/

theorem wordWeight_symm (opmap : OpMap κ) (σ : κ →+* κ) (d : Nat)
    (hsym : ∀ o s t, s < d → t < d → Ch.opEntry opmap o s t = σ (Ch.opEntry opmap o t s)) :
    ∀ (w : Word) (ss ts : List Nat), (∀ s ∈ ss, s < d) → (∀ t ∈ ts, t < d) →
      wordWeight opmap w ss ts = σ (wordWeight opmap w ts ss) := by
  intro w
  induction w with
  | nil => intro ss ts _ _; cases ss <;> cases ts <;> simp [wordWeight]
  | cons o w ih =>
    intro ss ts hss hts
    cases ss with
    | nil => cases ts <;> simp [wordWeight]
    | cons s ss =>
      cases ts with
      | nil => simp [wordWeight]
      | cons t ts =>
        simp only [wordWeight, map_mul]
        rw [hsym o s t (hss s (by simp)) (hts t (by simp)),
          ih ss ts (fun x hx => hss x (by simp [hx])) (fun x hx => hts x (by simp [hx]))]

theorem termsEntry_symm (opmap : OpMap κ) (σ : κ →+* κ) (d : Nat)
    (hsym : ∀ o s t, s < d → t < d → Ch.opEntry opmap o s t = σ (Ch.opEntry opmap o t s))
    (terms : List (Word × κ)) (hc : ∀ p ∈ terms, σ p.2 = p.2) (ss ts : List Nat)
    (hss : ∀ s ∈ ss, s < d) (hts : ∀ t ∈ ts, t < d) :
    termsEntry opmap terms ss ts = σ (termsEntry opmap terms ts ss) := by
  unfold termsEntry
  rw [map_list_sum, map_map]
  apply Ch.sum_map_congr
  intro p hp
  simp only [Function.comp, map_mul, hc p hp]
  rw [wordWeight_symm opmap σ d hsym p.1 ss ts hss hts]

theorem ising_tables_symm (σ : κ →+* κ) :
    ∀ o s t, s < 2 → t < 2 → Ch.opEntry (isingOpmap : OpMap κ) o s t = σ (Ch.opEntry isingOpmap o t s) := by
  intro o s t hs ht
  unfold Ch.opEntry
  cases hl : (isingOpmap : OpMap κ).lookup o with
  | none => simp
  | some m =>
    have hmem := mem_of_lookup hl
    simp only [isingOpmap, mem_cons, not_mem_nil, or_false, Prod.mk.injEq] at hmem
    have h2 : (s = 0 ∨ s = 1) ∧ (t = 0 ∨ t = 1) := by omega
    rcases hmem with ⟨_, rfl⟩ | ⟨_, rfl⟩ | ⟨_, rfl⟩ <;> rcases h2 with ⟨rfl | rfl, rfl | rfl⟩ <;>
      simp [Mat.entry, Mat.identity, pauliZ, pauliX, List.range_succ]

theorem ising_terms_fixed (σ : κ →+* κ) (J h g : κ) (hJ : σ J = J) (hh : σ h = h) (hg : σ g = g) (n : Nat) :
    ∀ p ∈ isingTerms J h g n, σ p.2 = p.2 := by
  intro p hp
  simp only [isingTerms, mem_append, mem_map, mem_range] at hp
  rcases hp with (⟨_, _, rfl⟩ | ⟨_, _, rfl⟩) | ⟨_, _, rfl⟩ <;> assumption

end Ptn.Ham

import PtnModel.Proofs.EvoRevCalls
import PtnModel.Proofs.EvoRevExample1
/-!
# Non-vacuity of the call-level reversibility theorem (`C09.tdvp1_calls_reversible`)

For the one-site witness of `EvoRevExample1.lean` (`H = 2·𝟙`, `ψ = (1, i)`, `dexp = exp`, one Lanczos iteration, `dt = iτ`):
both calls return and ALL hypotheses of `tdvp1_calls_reversible_imag` hold — including the exactness predicates from both
prologue states and the regularity of the re-orthonormalisation.
-/
set_option linter.unusedSectionVars false

namespace Ptn.Evo
open Ptn Ptn.BondOps Ptn.Ortho Ptn.Env Ptn.Krylov Ptn.Dense Finset

theorem exRev1_calls (n : Nat) (τ : ℝ) : ∃ (ψ1 ψ2 : MPS ℂ) (nrm1 nrm2 : ℝ),
    integrateLocalSinglesite exK1 exH1 exψ1 (Complex.I * τ) n 1 = .ok (ψ1, nrm1) ∧
    integrateLocalSinglesite exK1 exH1 ψ1 (-(Complex.I * τ)) n 1 = .ok (ψ2, nrm2) ∧
    (∀ s0, prologue exK1 exH1 exψ1 = .ok (s0, nrm1) → RunExact false exK1 exH1 exψ1.qd (Complex.I * τ) 1 n s0) ∧
    (∀ t0, prologue exK1 exH1 ψ1 = .ok (t0, nrm2) → RunExact true exK1 exH1 exψ1.qd (-(Complex.I * τ)) 1 n t0) ∧
    OrthoRightRegular exK1.dqr ψ1 := by
  obtain ⟨ψ1, nrm1, h1⟩ := C08.tdvp1_total (k := exK1) (H := exH1) (ψ := exψ1) exK1_ctx exK1_exp (hh := 1 / 2) (τ := τ) rfl
    (dt := Complex.I * τ) rfl (le_refl 1) exH1_wf exCompat1 rfl exψ1_adm rfl n
  have hm : -(Complex.I * (τ : ℂ)) = Complex.I * ((-τ : ℝ) : ℂ) := by push_cast; ring
  obtain ⟨hadm1, _, hlen1, ψ2, nrm2, h2⟩ := tdvp1_reverse_ok (k := exK1) (H := exH1) (ψ := exψ1) exK1_ctx exK1_exp
    (hh := 1 / 2) (τ' := -τ) rfl (dt' := -(Complex.I * τ)) hm (le_refl 1) exH1_wf exCompat1 rfl exψ1_adm h1 n
  obtain ⟨_, b, _, _, _, _, _, _, _, e1⟩ := integrate1_canon (k := exK1) (H := exH1) exK1_ctx exψ1_adm h1
  subst e1
  refine ⟨_, ψ2, nrm1, nrm2, h1, h2, ?_, ?_, orthoRightRegular_single _ hlen1.symm⟩
  · intro s0 hp
    obtain ⟨_, E0, _, _, hinv0⟩ := prologue_inv exK1_ctx rfl exψ1_adm hp
    exact ex1_runExact false τ rfl n s0 E0 hinv0
  · intro t0 hp2
    obtain ⟨_, E0, _, _, hinv0⟩ := prologue_inv (ψ := toMPS exψ1 b) exK1_ctx rfl hadm1 hp2
    exact ex1_runExact true (-τ) hm n t0 E0 hinv0

end Ptn.Evo

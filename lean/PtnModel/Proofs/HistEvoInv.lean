import PtnModel.Proofs.HistEvoEnv
import PtnModel.Proofs.HistOrtho
import PtnModel.Proofs.EvoStruct
/-!
# C02: the block-sparsity invariant of the TDVP / DMRG sweeps

`EvoSparse H qd s cl cr`: the arrays of a sweep state have the size of the chain, every site tensor is well-formed
(shape and block sparsity) w.r.t. the *current* bond charges, the left blocks `BL[j]`, `j ≤ cl`, and the right blocks
`BR[j]`, `j ≥ cr`, are square and block sparse w.r.t. the current state charges and the MPO bond charges
(`is_qsparse(B, [q, qH, -q])`).  No positivity of dimensions is assumed.

* `HOk`                        : what is used of the Hamiltonian (well-formed, physical charges of the state, leading
                                 MPO bond charge zero);
* `evoSparse_pair`, `_pair'`   : replace the tensors of two neighbouring sites and the charges of the bond between them;
* `evoSparse_setBL`, `_setBR`  : store a new environment block;
* `evoSparse_site`             : replace one site tensor;
* `evoSparse_q0`               : replace the first tensor and the leading bond charges (final step of DMRG);
* `prologue_sparse`            : the state after the common prologue satisfies the invariant with `cl = cr = 0`;
* `toMPS_wf`                   : the MPS read off a state satisfying the invariant is well-formed.
-/
set_option linter.unusedSectionVars false
namespace Ptn.HistWf
open Ptn Ptn.Krylov Ptn.Evo Ptn.Ortho Ptn.BondOps Ptn.Dense Finset

variable {𝕜 : Type} [RCLike 𝕜] [DecidableEq 𝕜]

/-! ## arrays -/

theorem getD_set1 {β : Type} (a : Array β) {i : Nat} (m : Nat) (x d : β) (hi : i < a.size) :
    (a.setIfInBounds i x).getD m d = if m = i then x else a.getD m d := by
  rw [getD_setIfInBounds]
  by_cases h : m = i
  · rw [if_pos ⟨h, hi⟩, if_pos h]
  · rw [if_neg (fun hh => h hh.1), if_neg h]

theorem getD_set2 {β : Type} (a : Array β) {i j : Nat} (m : Nat) (x y d : β) (hi : i < a.size) (hj : j < a.size) :
    ((a.setIfInBounds i x).setIfInBounds j y).getD m d = if m = j then y else if m = i then x else a.getD m d := by
  rw [getD_set1 _ m y d (by simpa using hj), getD_set1 _ m x d hi]

/-! ## loops over index ranges -/

theorem foldIdx_app {σ : Type} (f : σ → Nat → Except Err σ) (l1 l2 : List Nat) (s r : σ) :
    foldIdx f (l1 ++ l2) s = .ok r ↔ ∃ t, foldIdx f l1 s = .ok t ∧ foldIdx f l2 t = .ok r := by
  unfold foldIdx
  rw [List.foldlM_append, bind_ok]

/-- ascending loop `for i in range(n)` -/
theorem foldIdx_up {σ : Type} (f : σ → Nat → Except Err σ) (P : Nat → σ → Prop) :
    ∀ (n : Nat), (∀ i, i < n → ∀ s s', P i s → f s i = .ok s' → P (i + 1) s') →
    ∀ (s r : σ), P 0 s → foldIdx f (List.range n) s = .ok r → P n r
  | 0, _, s, r, h0, hr => by
    unfold foldIdx at hr
    rw [List.range_zero, foldlM_ok_nil] at hr
    subst hr; exact h0
  | n + 1, step, s, r, h0, hr => by
    rw [List.range_succ, foldIdx_app] at hr
    obtain ⟨t, h1, h2⟩ := hr
    have ht := foldIdx_up f P n (fun i hi => step i (by omega)) s t h0 h1
    unfold foldIdx at h2
    rw [foldlM_ok_cons] at h2
    obtain ⟨t', h3, h4⟩ := h2
    rw [foldlM_ok_nil] at h4
    subst h4
    exact step n (by omega) t t' ht h3

/-- descending loop `for i in reversed(range(n))` -/
theorem foldIdx_rev {σ : Type} (f : σ → Nat → Except Err σ) (P : Nat → σ → Prop) :
    ∀ (n : Nat), (∀ i, i < n → ∀ s s', P (i + 1) s → f s i = .ok s' → P i s') →
    ∀ (s r : σ), P n s → foldIdx f (List.range n).reverse s = .ok r → P 0 r
  | 0, _, s, r, h0, hr => by
    unfold foldIdx at hr
    simp only [List.range_zero, List.reverse_nil] at hr
    rw [foldlM_ok_nil] at hr
    subst hr; exact h0
  | n + 1, step, s, r, h0, hr => by
    rw [List.range_succ, List.reverse_append, List.reverse_singleton, List.singleton_append] at hr
    unfold foldIdx at hr
    rw [foldlM_ok_cons] at hr
    obtain ⟨t, h1, h2⟩ := hr
    have ht := step n (by omega) s t h0 h1
    exact foldIdx_rev f P n (fun i hi => step i (by omega)) t r ht h2

/-- descending loop `for i in reversed(range(1, n+1))` -/
theorem foldIdx_dn {σ : Type} (f : σ → Nat → Except Err σ) (P : Nat → σ → Prop) :
    ∀ (n : Nat), (∀ i, i < n → ∀ s s', P (i + 1) s → f s (i + 1) = .ok s' → P i s') →
    ∀ (s r : σ), P n s → foldIdx f ((List.range n).reverse.map (· + 1)) s = .ok r → P 0 r
  | 0, _, s, r, h0, hr => by
    unfold foldIdx at hr
    simp only [List.range_zero, List.reverse_nil, List.map_nil] at hr
    rw [foldlM_ok_nil] at hr
    subst hr; exact h0
  | n + 1, step, s, r, h0, hr => by
    rw [List.range_succ, List.reverse_append, List.reverse_singleton, List.singleton_append, List.map_cons] at hr
    unfold foldIdx at hr
    rw [foldlM_ok_cons] at hr
    obtain ⟨t, h1, h2⟩ := hr
    have ht := step n (by omega) s t h0 h1
    exact foldIdx_dn f P n (fun i hi => step i (by omega)) t r ht h2

/-! ## the Hamiltonian -/

/-- the facts about the Hamiltonian used by the sweeps: every MPO tensor is square in its physical axes and block sparse
w.r.t. the physical charges `qd` *of the state* and the MPO bond charges; the leading MPO bond charge is zero -/
structure HOk (H : MPO 𝕜) (qd : List Int) : Prop where
  sq : ∀ i, (H.A.getD i zeroT4).d0 = (H.A.getD i zeroT4).d1
  sp : ∀ i, SparseT4 (H.A.getD i zeroT4) qd (H.qD.getD i []) (H.qD.getD (i + 1) [])
  dims : ∀ i, i < H.A.length → (H.A.getD i zeroT4).d0 = qd.length ∧
    (H.A.getD i zeroT4).d2 = (H.qD.getD i []).length ∧ (H.A.getD i zeroT4).d3 = (H.qD.getD (i + 1) []).length
  q0 : (H.qD.getD 0 []).getD 0 0 = 0

theorem hOk_of_wf {H : MPO 𝕜} {qd : List Int} (hw : H.wellFormed = true) (hqd : H.qd = qd)
    (h0 : (H.qD.getD 0 []).getD 0 0 = 0) : HOk H qd := by
  obtain ⟨_, hs⟩ := (mpo_wellFormed_iff_idx H).1 hw
  subst hqd
  have key : ∀ i, (H.A.getD i zeroT4).d0 = (H.A.getD i zeroT4).d1 ∧
      SparseT4 (H.A.getD i zeroT4) H.qd (H.qD.getD i []) (H.qD.getD (i + 1) []) := by
    intro i
    by_cases hi : i < H.A.length
    · have e : H.A.getD i zeroT4 = H.A[i] := by simp [List.getD_eq_getElem?_getD, hi]
      rw [e]
      exact ⟨(hs i hi).d0.trans (hs i hi).d1.symm, (hs i hi).sp⟩
    · have e : H.A.getD i zeroT4 = zeroT4 := by
        rw [List.getD_eq_getElem?_getD, List.getElem?_eq_none (by omega)]; rfl
      rw [e]
      exact ⟨rfl, fun s t a b hs _ _ _ _ => absurd hs (Nat.not_lt_zero _)⟩
  refine ⟨fun i => (key i).1, fun i => (key i).2, fun i hi => ?_, h0⟩
  have e : H.A.getD i zeroT4 = H.A[i] := by simp [List.getD_eq_getElem?_getD, hi]
  rw [e]
  exact ⟨(hs i hi).d0, (hs i hi).d2, (hs i hi).d3⟩

/-! ## the invariant -/

structure EvoSparse (H : MPO 𝕜) (qd : List Int) (s : Sweep 𝕜) (cl cr : Nat) : Prop where
  sizeA : s.A.size = H.A.length
  sizeQ : s.qD.size = H.A.length + 1
  sizeBL : s.BL.size = H.A.length
  sizeBR : s.BR.size = H.A.length
  site : ∀ j, j < H.A.length → T3Wf (getA s j) qd (getQ s j) (getQ s (j + 1))
  bl0 : ∀ q, BlockSparse (getBL s 0) q (H.qD.getD 0 [])
  sq0 : (getBL s 0).d2 = (getBL s 0).d0
  bl : ∀ j, j ≤ cl → j < H.A.length →
    BlockSparse (getBL s j) (getQ s j) (H.qD.getD j []) ∧ (getBL s j).d2 = (getBL s j).d0
  br : ∀ j, cr ≤ j → j < H.A.length →
    BlockSparse (getBR s j) (getQ s (j + 1)) (H.qD.getD (j + 1) []) ∧ (getBR s j).d2 = (getBR s j).d0

variable {H : MPO 𝕜} {qd : List Int}

/-- weaken the ranges of valid blocks -/
theorem EvoSparse.mono {s : Sweep 𝕜} {cl cr cl' cr' : Nat} (h : EvoSparse H qd s cl cr) (h1 : cl' ≤ cl) (h2 : cr ≤ cr') :
    EvoSparse H qd s cl' cr' :=
  ⟨h.sizeA, h.sizeQ, h.sizeBL, h.sizeBR, h.site, h.bl0, h.sq0, fun j hj hL => h.bl j (by omega) hL,
    fun j hj hL => h.br j (by omega) hL⟩

/-- characterisation by entries: new tensors at `i`, `i+1`, new charges at `i+1`, blocks unchanged -/
theorem evoSparse_pair_of {s s' : Sweep 𝕜} {cl cr i : Nat} (h : EvoSparse H qd s cl cr) (hi : i + 1 < H.A.length)
    {X Y : T3 𝕜} {qb : List Int}
    (hsA : s'.A.size = H.A.length) (hsQ : s'.qD.size = H.A.length + 1) (hBL : s'.BL = s.BL) (hBR : s'.BR = s.BR)
    (hA : ∀ m, getA s' m = if m = i then X else if m = i + 1 then Y else getA s m)
    (hQ : ∀ m, getQ s' m = if m = i + 1 then qb else getQ s m)
    (hX : T3Wf X qd (getQ s i) qb) (hY : T3Wf Y qd qb (getQ s (i + 2))) :
    EvoSparse H qd s' (min cl i) (max cr (i + 1)) := by
  have eBL : ∀ m, getBL s' m = getBL s m := fun m => by unfold getBL; rw [hBL]
  have eBR : ∀ m, getBR s' m = getBR s m := fun m => by unfold getBR; rw [hBR]
  refine ⟨hsA, hsQ, by rw [hBL]; exact h.sizeBL, by rw [hBR]; exact h.sizeBR, ?_, ?_, ?_, ?_, ?_⟩
  · intro j hj
    rw [hA j, hQ j, hQ (j + 1)]
    by_cases h1 : j = i
    · subst h1
      rw [if_pos rfl, if_neg (by omega), if_pos rfl]
      exact hX
    · rw [if_neg h1]
      by_cases h2 : j = i + 1
      · subst h2
        rw [if_pos rfl, if_pos rfl, if_neg (by omega)]
        exact hY
      · rw [if_neg h2, if_neg h2, if_neg (by omega)]
        exact h.site j hj
  · intro q; rw [eBL]; exact h.bl0 q
  · rw [eBL]; exact h.sq0
  · intro j hj hL
    rw [eBL, hQ j, if_neg (by omega)]
    exact h.bl j (by omega) hL
  · intro j hj hL
    rw [eBR, hQ (j + 1), if_neg (by omega)]
    exact h.br j (by omega) hL

/-- the update `A[i], A[i+1], qD[i+1] = X, Y, qb` in the order of the left-moving code -/
theorem evoSparse_pair {s : Sweep 𝕜} {cl cr i : Nat} (h : EvoSparse H qd s cl cr) (hi : i + 1 < H.A.length)
    {X Y : T3 𝕜} {qb : List Int} (hX : T3Wf X qd (getQ s i) qb) (hY : T3Wf Y qd qb (getQ s (i + 2))) :
    EvoSparse H qd (⟨(s.A.setIfInBounds i X).setIfInBounds (i + 1) Y, s.qD.setIfInBounds (i + 1) qb, s.BL, s.BR⟩ : Sweep 𝕜)
      (min cl i) (max cr (i + 1)) := by
  refine evoSparse_pair_of h hi (by simp [h.sizeA]) (by simp [h.sizeQ]) rfl rfl ?_ ?_ hX hY
  · intro m
    show ((s.A.setIfInBounds i X).setIfInBounds (i + 1) Y).getD m emptyT3 = _
    rw [getD_set2 _ m X Y emptyT3 (by rw [h.sizeA]; omega) (by rw [h.sizeA]; omega)]
    by_cases h1 : m = i
    · subst h1; rw [if_neg (by omega), if_pos rfl, if_pos rfl]
    · rw [if_neg h1, if_neg h1]; rfl
  · intro m
    show (s.qD.setIfInBounds (i + 1) qb).getD m [] = _
    rw [getD_set1 _ m qb [] (by rw [h.sizeQ]; omega)]; rfl

/-- the same update in the order of the right-moving code (`A[i+1]` first) -/
theorem evoSparse_pair' {s : Sweep 𝕜} {cl cr i : Nat} (h : EvoSparse H qd s cl cr) (hi : i + 1 < H.A.length)
    {X Y : T3 𝕜} {qb : List Int} (hX : T3Wf X qd (getQ s i) qb) (hY : T3Wf Y qd qb (getQ s (i + 2))) :
    EvoSparse H qd (⟨(s.A.setIfInBounds (i + 1) Y).setIfInBounds i X, s.qD.setIfInBounds (i + 1) qb, s.BL, s.BR⟩ : Sweep 𝕜)
      (min cl i) (max cr (i + 1)) := by
  refine evoSparse_pair_of h hi (by simp [h.sizeA]) (by simp [h.sizeQ]) rfl rfl ?_ ?_ hX hY
  · intro m
    show ((s.A.setIfInBounds (i + 1) Y).setIfInBounds i X).getD m emptyT3 = _
    rw [getD_set2 _ m Y X emptyT3 (by rw [h.sizeA]; omega) (by rw [h.sizeA]; omega)]
    rfl
  · intro m
    show (s.qD.setIfInBounds (i + 1) qb).getD m [] = _
    rw [getD_set1 _ m qb [] (by rw [h.sizeQ]; omega)]; rfl

/-- store `BL[i+1]` -/
theorem evoSparse_setBL {s : Sweep 𝕜} {cl cr i : Nat} (h : EvoSparse H qd s cl cr) (hc : i ≤ cl) (hi : i + 1 < H.A.length)
    {B : T3 𝕜} (hB : BlockSparse B (getQ s (i + 1)) (H.qD.getD (i + 1) [])) (hsq : B.d2 = B.d0) :
    EvoSparse H qd (⟨s.A, s.qD, s.BL.setIfInBounds (i + 1) B, s.BR⟩ : Sweep 𝕜) (i + 1) cr := by
  have e : ∀ m, getBL (⟨s.A, s.qD, s.BL.setIfInBounds (i + 1) B, s.BR⟩ : Sweep 𝕜) m =
      if m = i + 1 then B else getBL s m := fun m => by
    show (s.BL.setIfInBounds (i + 1) B).getD m emptyT3 = _
    rw [getD_set1 _ m B emptyT3 (by rw [h.sizeBL]; exact hi)]; rfl
  refine ⟨h.sizeA, h.sizeQ, by simp [h.sizeBL], h.sizeBR, h.site, ?_, ?_, ?_, h.br⟩
  · intro q; rw [e, if_neg (by omega)]; exact h.bl0 q
  · rw [e, if_neg (by omega)]; exact h.sq0
  · intro j hj hL
    rw [e]
    by_cases h1 : j = i + 1
    · subst h1; rw [if_pos rfl]; exact ⟨hB, hsq⟩
    · rw [if_neg h1]; exact h.bl j (by omega) hL

/-- store `BR[i]` (valid w.r.t. the charges of bond `i+1`) -/
theorem evoSparse_setBR {s : Sweep 𝕜} {cl cr i : Nat} (h : EvoSparse H qd s cl cr) (hc : cr ≤ i + 1) (hi : i < H.A.length)
    {B : T3 𝕜} (hB : BlockSparse B (getQ s (i + 1)) (H.qD.getD (i + 1) [])) (hsq : B.d2 = B.d0) :
    EvoSparse H qd (⟨s.A, s.qD, s.BL, s.BR.setIfInBounds i B⟩ : Sweep 𝕜) cl i := by
  have e : ∀ m, getBR (⟨s.A, s.qD, s.BL, s.BR.setIfInBounds i B⟩ : Sweep 𝕜) m =
      if m = i then B else getBR s m := fun m => by
    show (s.BR.setIfInBounds i B).getD m emptyT3 = _
    rw [getD_set1 _ m B emptyT3 (by rw [h.sizeBR]; exact hi)]; rfl
  refine ⟨h.sizeA, h.sizeQ, h.sizeBL, by simp [h.sizeBR], h.site, h.bl0, h.sq0, h.bl, ?_⟩
  intro j hj hL
  rw [e]
  by_cases h1 : j = i
  · subst h1; rw [if_pos rfl]; exact ⟨hB, hsq⟩
  · rw [if_neg h1]; exact h.br j (by omega) hL

/-- replace one site tensor -/
theorem evoSparse_site {s : Sweep 𝕜} {cl cr i : Nat} (h : EvoSparse H qd s cl cr) {X : T3 𝕜}
    (hX : T3Wf X qd (getQ s i) (getQ s (i + 1))) :
    EvoSparse H qd (⟨s.A.setIfInBounds i X, s.qD, s.BL, s.BR⟩ : Sweep 𝕜) cl cr := by
  refine ⟨by simp [h.sizeA], h.sizeQ, h.sizeBL, h.sizeBR, ?_, h.bl0, h.sq0, h.bl, h.br⟩
  intro j hj
  show T3Wf ((s.A.setIfInBounds i X).getD j emptyT3) qd _ _
  rw [getD_setIfInBounds]
  split
  · rename_i hh; rw [hh.1]; exact hX
  · exact h.site j hj

/-- replace the first tensor and the leading bond charges -/
theorem evoSparse_q0 {s : Sweep 𝕜} {cl cr : Nat} (h : EvoSparse H qd s cl cr) (hL : 0 < H.A.length) {X : T3 𝕜}
    {qb : List Int} (hX : T3Wf X qd qb (getQ s 1)) :
    EvoSparse H qd (⟨s.A.setIfInBounds 0 X, s.qD.setIfInBounds 0 qb, s.BL, s.BR⟩ : Sweep 𝕜) 0 cr := by
  have eQ : ∀ m, getQ (⟨s.A.setIfInBounds 0 X, s.qD.setIfInBounds 0 qb, s.BL, s.BR⟩ : Sweep 𝕜) m =
      if m = 0 then qb else getQ s m := fun m => by
    show (s.qD.setIfInBounds 0 qb).getD m [] = _
    rw [getD_set1 _ m qb [] (by rw [h.sizeQ]; omega)]; rfl
  refine ⟨by simp [h.sizeA], by simp [h.sizeQ], h.sizeBL, h.sizeBR, ?_, h.bl0, h.sq0, ?_, ?_⟩
  · intro j hj
    show T3Wf ((s.A.setIfInBounds 0 X).getD j emptyT3) qd _ _
    have e1 : ¬ j + 1 = 0 := by omega
    rw [getD_set1 _ j X emptyT3 (by rw [h.sizeA]; exact hL), eQ j, eQ (j + 1), if_neg e1]
    by_cases h0 : j = 0
    · subst h0; rw [if_pos rfl, if_pos rfl]; exact hX
    · rw [if_neg h0, if_neg h0]; exact h.site j hj
  · intro j hj _
    have : j = 0 := by omega
    subst this
    exact ⟨h.bl0 _, h.sq0⟩
  · intro j hj hjL
    rw [eQ (j + 1), if_neg (by omega)]
    exact h.br j hj hjL

/-! ## the prologue -/

theorem ortho_right_qd {dqr : Mat 𝕜 → Mat 𝕜 × Mat 𝕜} {ψ ψ' : MPS 𝕜} {nrm : ℝ}
    (h : MPS.orthonormalize (ρ := ℝ) dqr ψ false = .ok (ψ', nrm)) : ψ'.qd = ψ.qd := by
  obtain ⟨qd, qD, A⟩ := ψ
  cases A with
  | nil =>
    simp only [MPS.orthonormalize, Except.ok.injEq, Prod.mk.injEq] at h
    rw [← h.1]
  | cons A0 rest =>
    cases hAr : (A0 :: rest).reverse with
    | nil => simp at hAr
    | cons Al rrest =>
      cases hqr : qD.reverse with
      | nil =>
        simp only [MPS.orthonormalize, hAr, hqr] at h
        simp at h
      | cons ql qrrest =>
        rw [ortho_right_eq qd A0 rest qD hAr hqr] at h
        cases hs : MPS.sweepRightQr dqr qd Al ql rrest qrrest with
        | error e => rw [hs] at h; cases h
        | ok r =>
          obtain ⟨As, qs, T⟩ := r
          rw [hs] at h
          dsimp only at h
          split at h
          · injection h with h; injection h with h _
            rw [← h]
          · cases h

theorem opStepRight_dims {A B : T3 𝕜} {W : T4 𝕜} {E T : T3 𝕜} (h : Op.opStepRight A B W E = .ok T) :
    T.d0 = A.d1 ∧ T.d1 = W.d2 ∧ T.d2 = B.d1 := by
  by_cases hc : A.d2 ≠ E.d0 ∨ W.d1 ≠ A.d0 ∨ W.d3 ≠ E.d1 ∨ W.d0 ≠ B.d0 ∨ E.d2 ≠ B.d2
  · unfold Op.opStepRight at h
    rw [if_pos hc] at h
    simp [throw, throwThe, MonadExceptOf.throw, bind, Except.bind] at h
  · simp only [not_or, not_not] at hc
    obtain ⟨c1, c2, c3, c4, c5⟩ := hc
    obtain ⟨T', hT', s0, s1, s2, _⟩ := Env.opStepRight_ok A B W E c1 c2 c3 c4 c5
    have e : T' = T := Except.ok.inj (hT'.symm.trans h)
    subst e
    exact ⟨s0, s1, s2⟩

/-- the step function of the fold in `rightBlocks` -/
noncomputable def rbStep' (p : T3 𝕜 × T4 𝕜) (acc : List (T3 𝕜)) : Except Err (List (T3 𝕜)) :=
  match acc with
  | [] => throw Err.index
  | B :: _ => do
    let Bn ← Op.opStepRight p.1 p.1 p.2 B
    return Bn :: acc

/-- the fold of `compute_right_operator_blocks`: one block per processed site, all square -/
theorem rb_fold_facts : ∀ (l : List (T3 𝕜 × T4 𝕜)) (init r : List (T3 𝕜)),
    l.foldrM rbStep' init = .ok r → (∀ B ∈ init, B.d2 = B.d0) →
      r.length = init.length + l.length ∧ ∀ B ∈ r, B.d2 = B.d0
  | [], init, r, h, hi => by
    rw [List.foldrM_nil, pure_ok] at h
    subst h
    exact ⟨rfl, hi⟩
  | p :: l, init, r, h, hi => by
    rw [List.foldrM_cons, bind_ok] at h
    obtain ⟨acc, h1, h2⟩ := h
    obtain ⟨hl, hs⟩ := rb_fold_facts l init acc h1 hi
    unfold rbStep' at h2
    cases acc with
    | nil => simp [throw, throwThe, MonadExceptOf.throw] at h2
    | cons B rest =>
      dsimp only at h2
      rw [bind_ok] at h2
      obtain ⟨Bn, h3, h4⟩ := h2
      rw [pure_ok] at h4
      subst h4
      obtain ⟨d0, _, d2⟩ := opStepRight_dims h3
      refine ⟨by simp only [List.length_cons] at hl ⊢; omega, ?_⟩
      intro X hX
      rcases List.mem_cons.1 hX with rfl | hX
      · rw [d2, d0]
      · exact hs X hX

theorem rightBlocks_facts {ψ : MPS 𝕜} {o : MPO 𝕜} {BR : List (T3 𝕜)} (h : Op.rightBlocks ψ o = .ok BR) :
    ψ.A.length = o.A.length ∧ BR.length = o.A.length ∧ (∀ B ∈ BR, B.d2 = B.d0) ∧ 0 < o.A.length := by
  unfold Op.rightBlocks at h
  rw [pyAssert_bind] at h
  obtain ⟨hl, h⟩ := h
  have hl' : ψ.A.length = o.A.length := by simpa using hl
  refine ⟨hl', ?_⟩
  cases hz : List.zip ψ.A o.A with
  | nil =>
    rw [hz] at h
    simp [throw, throwThe, MonadExceptOf.throw] at h
  | cons p rest =>
    rw [hz] at h
    dsimp only at h
    have h1' : rest.foldrM rbStep' [(⟨1, 1, 1, fun _ _ _ => 1⟩ : T3 𝕜)] = .ok BR := by
      rw [← h]; rfl
    obtain ⟨hlen, hsq⟩ := rb_fold_facts rest _ BR h1' (fun B hB => by rw [List.mem_singleton.1 hB])
    have : (List.zip ψ.A o.A).length = rest.length + 1 := by rw [hz]; rfl
    rw [List.length_zip, hl', Nat.min_self] at this
    simp only [List.length_singleton] at hlen
    exact ⟨by omega, hsq, by omega⟩

/-- **the state after the prologue satisfies the invariant** (with all right blocks valid) -/
theorem prologue_sparse {k : EvoKernels 𝕜 ℝ} (hshape : ∀ B, ShapeAt k.dqr B) {ψ : MPS 𝕜} {s0 : Sweep 𝕜} {nrm : ℝ}
    (hH : HOk H ψ.qd) (hw : ψ.wellFormed = true) (h : prologue k H ψ = .ok (s0, nrm)) (hL : 0 < H.A.length) :
    EvoSparse H ψ.qd s0 0 0 := by
  obtain ⟨hHL, ψ1, BR, ho, hrb, hbs, rfl⟩ := prologue_unfold h
  have hw1 : ψ1.wellFormed = true := ortho_mps_wf (dqr := k.dqr) (ρ := ℝ) hshape hw ho
  have hqd : ψ1.qd = ψ.qd := ortho_right_qd ho
  obtain ⟨hl1, hBRl, hBRsq, _⟩ := rightBlocks_facts hrb
  obtain ⟨hqDl, hsite⟩ := (wellFormed_iff_idx ψ1).1 hw1
  have eBL0 : getBL (⟨ψ1.A.toArray, ψ1.qD.toArray, (Array.replicate H.A.length emptyT3).setIfInBounds 0 ones111,
      BR.toArray⟩ : Sweep 𝕜) 0 = ones111 := by
    show ((Array.replicate H.A.length emptyT3).setIfInBounds 0 ones111).getD 0 emptyT3 = _
    rw [getD_set1 _ 0 ones111 emptyT3 (by simpa using hL), if_pos rfl]
  have hones : ∀ q, BlockSparse (ones111 : T3 𝕜) q (H.qD.getD 0 []) := by
    intro q a w b ha hw' hb _
    have ha' : a = 0 := by have : a < 1 := ha; omega
    have hw'' : w = 0 := by have : w < 1 := hw'; omega
    have hb' : b = 0 := by have : b < 1 := hb; omega
    subst ha' hw'' hb'
    rw [hH.q0]; omega
  refine ⟨by simp [hl1], by simp [hqDl, hl1], by simp, by simp [hBRl], ?_, ?_, ?_, ?_, ?_⟩
  · intro j hj
    have hj' : j < ψ1.A.length := by rw [hl1]; exact hj
    show T3Wf (ψ1.A.toArray.getD j emptyT3) ψ.qd (ψ1.qD.toArray.getD j []) (ψ1.qD.toArray.getD (j + 1) [])
    rw [toArray_getD, toArray_getD, toArray_getD, ← hqd]
    have e : ψ1.A.getD j emptyT3 = ψ1.A[j] := by simp [List.getD_eq_getElem?_getD, hj']
    rw [e]
    exact hsite j hj'
  · intro q; rw [eBL0]; exact hones q
  · rw [eBL0]; rfl
  · intro j hj _
    have : j = 0 := by omega
    subst this
    rw [eBL0]; exact ⟨hones _, rfl⟩
  · intro j _ hj
    have hj' : j < BR.length := by rw [hBRl]; exact hj
    show BlockSparse (BR.toArray.getD j emptyT3) (ψ1.qD.toArray.getD (j + 1) []) _ ∧
      (BR.toArray.getD j emptyT3).d2 = (BR.toArray.getD j emptyT3).d0
    rw [toArray_getD, toArray_getD]
    refine ⟨(blockSparse_iff _ _ _).1 (hbs j hj'), hBRsq _ ?_⟩
    rw [List.getD_eq_getElem?_getD, List.getElem?_eq_getElem hj']
    exact List.getElem_mem hj'

/-- a successful prologue means the chain is not empty (`compute_right_operator_blocks` raises otherwise) -/
theorem prologue_pos {k : EvoKernels 𝕜 ℝ} {ψ : MPS 𝕜} {s0 : Sweep 𝕜} {nrm : ℝ}
    (h : prologue k H ψ = .ok (s0, nrm)) : 0 < H.A.length := by
  obtain ⟨_, ψ1, BR, _, hrb, _, _⟩ := prologue_unfold h
  exact (rightBlocks_facts hrb).2.2.2

/-! ## reading off the result -/

theorem toMPS_wf {ψ : MPS 𝕜} {s : Sweep 𝕜} {cl cr : Nat} (h : EvoSparse H ψ.qd s cl cr) :
    (toMPS ψ s).wellFormed = true := by
  rw [wellFormed_iff_idx]
  refine ⟨?_, ?_⟩
  · show s.qD.toList.length = s.A.toList.length + 1
    rw [Array.length_toList, Array.length_toList, h.sizeQ, h.sizeA]
  · intro i hi
    have hi' : i < H.A.length := by
      have : i < s.A.toList.length := hi
      rw [Array.length_toList, h.sizeA] at this
      exact this
    have e : (toMPS ψ s).A[i] = getA s i := by
      show s.A.toList[i] = s.A.getD i emptyT3
      have : i < s.A.size := by rw [h.sizeA]; exact hi'
      simp only [Array.getD, this, dif_pos]
      rfl
    rw [e]
    show T3Wf (getA s i) ψ.qd (s.qD.toList.getD i []) (s.qD.toList.getD (i + 1) [])
    rw [toList_getD, toList_getD]
    exact h.site i hi'

end Ptn.HistWf

import PtnModel.Proofs.ChainMpoAll
import PtnModel.Proofs.ChainMpoTop
/-!
# `MPO.from_opgraph` returns: totality of the layer walk and of the final `is_qsparse` assertion

* `OpsCharged qd g opmap` (decidable): every operator id on every edge of `g` has a table in `opmap`, the table is
  `d × d` (`d = len(qd)`), and every non-zero entry `[s, t]` of it satisfies
  `qd[s] - qd[t] + qnum(n0) - qnum(n1) = 0` for the end points `n0 → n1` of the edge;
* `fromOpgraph_total`: for a consistent graph, `d ≥ 1` and charge-consistent operators, `fromOpgraph` returns `.ok`.
-/
set_option linter.unusedSectionVars false

namespace Ptn.Ch
open Ptn Ptn.Og List

variable {κ : Type} [CommRing κ] [DecidableEq κ]

/-! ## generic totality of monadic folds -/

theorem foldlM_total {α β : Type} (f : β → α → Except Err β) : ∀ (l : List α),
    (∀ a ∈ l, ∀ b, ∃ b', f b a = .ok b') → ∀ b, ∃ b', l.foldlM f b = .ok b' := by
  intro l
  induction l with
  | nil => intro _ b; exact ⟨b, rfl⟩
  | cons a l ih =>
    intro h b
    obtain ⟨b1, hb1⟩ := h a (by simp) b
    obtain ⟨b2, hb2⟩ := ih (fun a' ha' => h a' (by simp [ha'])) b1
    exact ⟨b2, by rw [foldlM_cons, hb1]; exact hb2⟩

theorem mapM_total {α β : Type} (f : α → Except Err β) : ∀ (l : List α),
    (∀ a ∈ l, ∃ b, f a = .ok b) → ∃ bs, l.mapM f = .ok bs := by
  intro l
  induction l with
  | nil => intro _; exact ⟨[], rfl⟩
  | cons a l ih =>
    intro h
    obtain ⟨b, hb⟩ := h a (by simp)
    obtain ⟨bs, hbs⟩ := ih (fun a' ha' => h a' (by simp [ha']))
    refine ⟨b :: bs, ?_⟩
    simp only [mapM_cons, bind_ok_iff, pure_ok_iff]
    exact ⟨b, hb, bs, hbs, rfl⟩

/-! ## the charge predicate -/

/-- the quantum number of the node stored under `nid` (0 if absent) -/
def qOf (g : Graph κ) (nid : Int) : Int := ((dGet? g.nodes nid).map (·.qnum)).getD 0

/-- the table `om` exists, is `d × d` and every non-zero entry `[s, t]` satisfies `qd[s] - qd[t] + dq = 0` -/
def TableCharged (qd : List Int) (dq : Int) : Option (Mat κ) → Prop
  | none => False
  | some m => IsShape qd.length m ∧
      ∀ s, s < qd.length → ∀ t, t < qd.length → m.entry s t ≠ 0 → qd.getD s 0 - qd.getD t 0 + dq = 0

/-- **charge-consistent operators**: for every edge `n0 → n1` of the graph and every `(oid, c)` on it, `opmap[oid]` exists,
is `d × d`, and every non-zero entry `[s, t]` has `qd[s] - qd[t] + qnum(n0) - qnum(n1) = 0` -/
def OpsCharged (qd : List Int) (g : Graph κ) (opmap : OpMap κ) : Prop :=
  ∀ p ∈ g.edges, ∀ oc ∈ p.2.opics, TableCharged qd (qOf g p.2.nids.1 - qOf g p.2.nids.2) (opmap.lookup oc.1)

instance (d : Nat) (M : Mat κ) : Decidable (IsShape d M) := by unfold IsShape; infer_instance

instance (qd : List Int) (dq : Int) (om : Option (Mat κ)) : Decidable (TableCharged qd dq om) := by
  cases om with
  | none => exact isFalse (fun h => h)
  | some m => unfold TableCharged; infer_instance

instance (qd : List Int) (g : Graph κ) (opmap : OpMap κ) : Decidable (OpsCharged qd g opmap) := by
  unfold OpsCharged; infer_instance

theorem layerQ_getD (g : Graph κ) (S : List Int) (i : Nat) (h : i < S.length) :
    (layerQ g S).getD i 0 = qOf g (S.getD i 0) := by
  unfold layerQ qOf
  simp [List.getD_eq_getElem?_getD, h]

/-! ## local operators -/

theorem opicsDense_total (opmap : OpMap κ) (d : Nat) :
    ∀ (opics : List (Int × κ)) (acc : Mat κ), IsShape d acc →
      (∀ oc ∈ opics, ∃ m, opmap.lookup oc.1 = some m ∧ IsShape d m) →
      ∃ M, opics.foldlM (fun acc p => do
          let m ← opmap.get p.1
          pure (Mat.add acc (Mat.scale p.2 m))) acc = .ok M ∧ IsShape d M ∧
        ∀ s t, M.entry s t = acc.entry s t + (opics.map fun p => p.2 * opEntry opmap p.1 s t).sum := by
  intro opics
  induction opics with
  | nil => intro acc hacc _; exact ⟨acc, rfl, hacc, by simp⟩
  | cons p rest ih =>
    intro acc hacc h
    obtain ⟨m, hm, hms⟩ := h p (by simp)
    have hsh := isShape_add hacc (isShape_scale hms p.2)
    obtain ⟨M, hM, hMs, hent⟩ := ih _ hsh (fun oc hoc => h oc (by simp [hoc]))
    refine ⟨M, ?_, hMs, ?_⟩
    · simp only [foldlM_cons, bind_ok_iff, opmap_get_ok_iff, pure_ok_iff]
      exact ⟨_, ⟨m, hm, rfl⟩, hM⟩
    · intro s t
      rw [hent, entry_add hacc (isShape_scale hms p.2), entry_scale]
      simp only [map_cons, sum_cons, opEntry, hm]
      ring

/-- the facts about a graph that the walk of `from_opgraph` needs (all consequences of `is_consistent`) -/
structure WalkFacts (g : Graph κ) : Prop where
  nodeOut : ∀ k n, dGet? g.nodes k = some n → ∀ eid ∈ n.eidsOut, ∃ e, dGet? g.edges eid = some e ∧ e.nids.1 = k
  edgeTgt : ∀ k e, dGet? g.edges k = some e → ∃ n, dGet? g.nodes e.nids.2 = some n

theorem WalkFacts.of_consistent (g : Graph κ) (h : g.isConsistent = true) : WalkFacts g := by
  obtain ⟨fn, fe, _⟩ := isConsistent_facts g h
  refine ⟨?_, ?_⟩
  · intro k n hn eid heid
    obtain ⟨hk, hall⟩ := fn k n (mem_of_dGet? hn)
    obtain ⟨e, he, hen⟩ := hall true eid (by simpa [Node.eids] using heid)
    refine ⟨e, he, ?_⟩
    rw [hk, ← hen]
    simp [Edge.nid]
  · intro k e he
    obtain ⟨_, hall⟩ := fe k e (mem_of_dGet? he)
    obtain ⟨n, hn, _⟩ := hall true
    exact ⟨n, by simpa [Edge.nid] using hn⟩

/-! ## `nextBond` does not raise -/

theorem nextBond_total (g : Graph κ) (hF : WalkFacts g) (nids0 : List Int)
    (h0 : ∀ x ∈ nids0, ∃ n, dGet? g.nodes x = some n) : ∃ nids1, g.nextBond nids0 = .ok nids1 := by
  unfold Graph.nextBond
  apply foldlM_total
  intro nid hnid acc
  obtain ⟨n, hn⟩ := h0 nid hnid
  have hin := foldlM_total (fun (acc : List Int) eid => do
      let edge ← g.getEdge eid
      pyAssert (edge.nids.1 == nid)
      pure (if acc.contains edge.nids.2 then acc else acc ++ [edge.nids.2])) n.eidsOut (by
    intro eid heid acc
    obtain ⟨e, he, hk⟩ := hF.nodeOut nid n hn eid heid
    refine ⟨if acc.contains e.nids.2 then acc else acc ++ [e.nids.2], ?_⟩
    simp only [bind_ok_iff, pyAssert_ok_iff, pure_ok_iff, Graph.getEdge, dGet_ok_iff]
    exact ⟨e, he, (), by simpa using hk, rfl⟩) acc
  obtain ⟨acc', hacc'⟩ := hin
  refine ⟨acc', ?_⟩
  simp only [bind_ok_iff, Graph.getNode, dGet_ok_iff]
  exact ⟨n, hn, hacc'⟩

/-! ## `bondContribs` does not raise; what it contains -/

theorem bondContribs_total (g : Graph κ) (opmap : OpMap κ) (d : Nat) (nids0 S : List Int)
    (h0 : ∀ x ∈ nids0, ∃ n, dGet? g.nodes x = some n ∧ ∀ eid ∈ n.eidsOut, ∃ e, dGet? g.edges eid = some e ∧
      e.nids.2 ∈ S ∧ ∀ oc ∈ e.opics, ∃ m, opmap.lookup oc.1 = some m ∧ IsShape d m) :
    ∃ contribs, g.bondContribs opmap d nids0 S = .ok contribs := by
  rw [bondContribs_eq]
  apply foldlM_total
  intro ni hni acc
  have hmem : ni.1 ∈ nids0 := by
    have := mem_zipIdx_iff_getElem?.1 hni
    exact mem_of_getElem? this
  obtain ⟨n, hn, hall⟩ := h0 ni.1 hmem
  obtain ⟨acc', hacc'⟩ := foldlM_total (contribInner g opmap d S ni.2) n.eidsOut (by
    intro eid heid acc
    obtain ⟨e, he, hS, hops⟩ := hall eid heid
    obtain ⟨M, hM, _, _⟩ := opicsDense_total opmap d e.opics (Mat.zero d d) (isShape_zero d) hops
    exact ⟨_, (contribInner_ok_iff g opmap d S ni.2 acc _ eid).2 ⟨e, he, hS, M, hM, rfl⟩⟩) acc
  refine ⟨acc', ?_⟩
  simp only [bind_ok_iff, Graph.getNode, dGet_ok_iff]
  exact ⟨n, hn, hacc'⟩

/-- every contribution comes from an edge leaving the node at its row index and entering the node at its column index -/
theorem bondContribs_mem (g : Graph κ) (opmap : OpMap κ) (d : Nat) (nids0 S : List Int)
    (contribs : List (Nat × Nat × Mat κ)) (h : g.bondContribs opmap d nids0 S = .ok contribs) :
    ∀ c ∈ contribs, ∃ nid n eid e, nids0[c.1]? = some nid ∧ dGet? g.nodes nid = some n ∧ eid ∈ n.eidsOut ∧
      dGet? g.edges eid = some e ∧ S[c.2.1]? = some e.nids.2 ∧ opicsDense opmap d e.opics = .ok c.2.2 := by
  rw [bondContribs_eq] at h
  have inner : ∀ (nid : Int) (n : Node) (i0 : Nat) (eids : List Int) (acc acc' : List (Nat × Nat × Mat κ)),
      eids.foldlM (contribInner g opmap d S i0) acc = .ok acc' →
      ∀ c ∈ acc', c ∈ acc ∨ (c.1 = i0 ∧ ∃ eid e, eid ∈ eids ∧
        dGet? g.edges eid = some e ∧ S[c.2.1]? = some e.nids.2 ∧ opicsDense opmap d e.opics = .ok c.2.2) := by
    intro nid n i0 eids
    induction eids with
    | nil =>
      intro acc acc' h c hc
      simp only [foldlM_nil, pure_ok_iff] at h
      subst h; exact Or.inl hc
    | cons eid eids ih =>
      intro acc acc' h c hc
      simp only [foldlM_cons, bind_ok_iff, contribInner_ok_iff] at h
      obtain ⟨acc1, ⟨e, he, hmem, m, hm, rfl⟩, h2⟩ := h
      rcases ih _ acc' h2 c hc with h | ⟨h1, eid', e', h2', h3, h4, h5⟩
      · rcases mem_append.1 h with h | h
        · exact Or.inl h
        · simp only [mem_singleton] at h
          subst h
          exact Or.inr ⟨rfl, eid, e, by simp, he, getElem?_idxOf hmem, hm⟩
      · exact Or.inr ⟨h1, eid', e', by simp [h2'], h3, h4, h5⟩
  have key : ∀ (l : List (Int × Nat)) (acc acc' : List (Nat × Nat × Mat κ)),
      l.foldlM (fun acc (ni : Int × Nat) => do
        let node ← g.getNode ni.1
        node.eidsOut.foldlM (contribInner g opmap d S ni.2) acc) acc = .ok acc' →
      ∀ c ∈ acc', c ∈ acc ∨ ∃ ni ∈ l, c.1 = ni.2 ∧ ∃ n eid e, dGet? g.nodes ni.1 = some n ∧ eid ∈ n.eidsOut ∧
        dGet? g.edges eid = some e ∧ S[c.2.1]? = some e.nids.2 ∧ opicsDense opmap d e.opics = .ok c.2.2 := by
    intro l
    induction l with
    | nil =>
      intro acc acc' h c hc
      simp only [foldlM_nil, pure_ok_iff] at h
      subst h; exact Or.inl hc
    | cons ni l ih =>
      intro acc acc' h c hc
      simp only [foldlM_cons, bind_ok_iff, Graph.getNode, dGet_ok_iff] at h
      obtain ⟨acc1, ⟨n, hn, hin⟩, h2⟩ := h
      rcases ih acc1 acc' h2 c hc with h | ⟨ni', hni', rest⟩
      · rcases inner ni.1 n ni.2 _ _ _ hin c h with h | ⟨h1, eid, e, h2', h3, h4, h5⟩
        · exact Or.inl h
        · exact Or.inr ⟨ni, by simp, h1, n, eid, e, hn, h2', h3, h4, h5⟩
      · exact Or.inr ⟨ni', by simp [hni'], rest⟩
  intro c hc
  rcases key _ [] contribs h c hc with h | ⟨ni, hni, h1, n, eid, e, hn, h2, h3, h4, h5⟩
  · simp at h
  · have := mem_zipIdx_iff_getElem?.1 hni
    exact ⟨ni.1, n, eid, e, by rw [h1]; exact this, hn, h2, h3, h4, h5⟩

/-! ## block sparsity of one assembled tensor -/

theorem all_zipIdx_map_range {α : Type} (n : Nat) (f : Nat → α) (p : α × Nat → Bool) :
    (((List.range n).map f).zipIdx.all p) = true ↔ ∀ i, i < n → p (f i, i) = true := by
  rw [List.all_eq_true]
  constructor
  · intro h i hi
    apply h (f i, i)
    rw [mem_zipIdx_iff_getElem?]
    simp [hi]
  · intro h x hx
    rw [mem_zipIdx_iff_getElem?] at hx
    simp only [getElem?_map] at hx
    by_cases hi : x.2 < n
    · rw [getElem?_range hi] at hx
      simp only [Option.map_some, Option.some.injEq] at hx
      have := h x.2 hi
      rw [hx] at this
      exact this
    · rw [getElem?_eq_none (by simpa using hi)] at hx
      simp at hx

theorem layer_sparse (qd : List Int) (g : Graph κ) (opmap : OpMap κ) (hF : WalkFacts g) (hch : OpsCharged qd g opmap)
    (nids0 S : List Int) (contribs : List (Nat × Nat × Mat κ))
    (h : g.bondContribs opmap qd.length nids0 S = .ok contribs) :
    isQsparse qd (layerQ g nids0) (layerQ g S) (assembleTensor qd.length nids0.length S.length contribs) = true := by
  have hmem := bondContribs_mem g opmap qd.length nids0 S contribs h
  unfold isQsparse assembleTensor
  rw [all_zipIdx_map_range]
  intro a ha
  rw [all_zipIdx_map_range]
  intro b hb
  rw [all_zipIdx_map_range]
  intro i hi
  rw [all_zipIdx_map_range]
  intro j hj
  by_cases hq : qd.getD a 0 - qd.getD b 0 + (layerQ g nids0).getD i 0 - (layerQ g S).getD j 0 = 0
  · simp only [Bool.or_eq_true, beq_iff_eq]
    exact Or.inl hq
  · simp only [Bool.or_eq_true, beq_iff_eq]
    right
    rw [sumList_eq_sum]
    apply sum_map_eq_zero
    intro c hc
    obtain ⟨hc1, hc2⟩ := mem_filter.1 hc
    simp only [Bool.and_eq_true, beq_iff_eq] at hc2
    obtain ⟨nid, n, eid, e, h1, h2, h3, h4, h5, h6⟩ := hmem c hc1
    obtain ⟨e', he', hk⟩ := hF.nodeOut nid n h2 eid h3
    rw [h4] at he'
    cases he'
    -- charges of the two end points
    have hq0 : (layerQ g nids0).getD i 0 = qOf g e.nids.1 := by
      rw [layerQ_getD g nids0 i hi, hk, List.getD_eq_getElem?_getD, ← hc2.1, h1]
      rfl
    have hq1 : (layerQ g S).getD j 0 = qOf g e.nids.2 := by
      rw [layerQ_getD g S j hj, List.getD_eq_getElem?_getD, ← hc2.2, h5]
      rfl
    rw [hq0, hq1] at hq
    have hE := hch (eid, e) (mem_of_dGet? h4)
    have hops : ∀ oc ∈ e.opics, ∃ m, opmap.lookup oc.1 = some m ∧ IsShape qd.length m := by
      intro oc hoc
      have := hE oc hoc
      cases hl : opmap.lookup oc.1 with
      | none => rw [hl] at this; exact this.elim
      | some m => rw [hl] at this; exact ⟨m, rfl, this.1⟩
    obtain ⟨M, hM, _, hent⟩ := opicsDense_total opmap qd.length e.opics (Mat.zero _ _) (isShape_zero _) hops
    have hM' : opicsDense opmap qd.length e.opics = .ok M := hM
    rw [h6] at hM'
    cases hM'
    rw [hent, entry_zero, zero_add]
    apply sum_map_eq_zero
    intro oc hoc
    have := hE oc hoc
    unfold opEntry
    cases hl : opmap.lookup oc.1 with
    | none => simp
    | some m =>
      rw [hl] at this
      by_cases hz : m.entry a b = 0
      · simp [hz]
      · have h7 := this.2 a ha b hb hz
        simp only at h7
        exact (hq (by omega)).elim

/-! ## the `while True` loop returns -/

theorem mem_dKeys_of_dGet? {β : Type} {d : List (Int × β)} {k : Int} {v : β} (h : dGet? d k = some v) : k ∈ dKeys d := by
  have := mem_of_dGet? h
  exact mem_map.2 ⟨(k, v), this, rfl⟩

theorem loop_total (qd : List Int) (g : Graph κ) (opmap : OpMap κ) (on : Bool) (hF : WalkFacts g)
    (hch : OpsCharged qd g opmap) (L : List (Int × Nat)) (hLn : (L.map (·.1)).Nodup)
    (hL : ∀ p ∈ L, ∀ node, dGet? g.nodes p.1 = some node → ∀ eid ∈ node.eidsOut, ∀ e, dGet? g.edges eid = some e →
        (e.nids.2, p.2 + 1) ∈ L) :
    ∀ (fuel : Nat) (nids0 : List Int) (l : Nat) (out : MpoOut κ) (seen : List Int) (l0 : Nat),
      (∀ x ∈ nids0, (x, l0) ∈ L ∧ ∃ n, dGet? g.nodes x = some n) → nids0 ≠ [] →
      seen.Nodup → (∀ x ∈ seen, x ∈ dKeys g.nodes ∧ ∃ k, k < l0 ∧ (x, k) ∈ L) →
      g.nodes.length + 1 ≤ fuel + seen.length →
      ∃ out', fromOpgraphLoop g opmap qd.length on fuel nids0 l out = .ok out' := by
  have huniq : ∀ x a b, (x, a) ∈ L → (x, b) ∈ L → a = b := by
    intro x a b ha hb
    have h1 := dGet?_of_mem (d := L) (by simpa [dKeys] using hLn) ha
    have h2 := dGet?_of_mem (d := L) (by simpa [dKeys] using hLn) hb
    rw [h1] at h2
    exact Option.some.inj h2
  intro fuel
  induction fuel with
  | zero =>
    intro nids0 l out seen l0 h0 hne hsn hseen hfuel
    exfalso
    obtain ⟨r, rs, rfl⟩ := exists_cons_of_ne_nil hne
    obtain ⟨hrL, n, hn⟩ := h0 r (by simp)
    have hnd : (r :: seen).Nodup := by
      rw [nodup_cons]
      refine ⟨?_, hsn⟩
      intro hr
      obtain ⟨_, k, hk, hkL⟩ := hseen r hr
      have := huniq r _ _ hrL hkL
      omega
    have hsub : (r :: seen) ⊆ dKeys g.nodes := by
      intro x hx
      rcases mem_cons.1 hx with rfl | hx
      · exact mem_dKeys_of_dGet? hn
      · exact (hseen x hx).1
    have := hnd.length_le_of_subset hsub
    simp only [length_cons, dKeys, length_map] at this
    omega
  | succ fuel ih =>
    intro nids0 l out seen l0 h0 hne hsn hseen hfuel
    obtain ⟨nids1, hn1⟩ := nextBond_total g hF nids0 (fun x hx => (h0 x hx).2)
    have hN := nextBond_spec g nids0 nids1 hn1
    rw [fromOpgraphLoop]
    by_cases hemp : nids1.isEmpty = true
    · refine ⟨out, ?_⟩
      simp only [bind_ok_iff]
      exact ⟨nids1, hn1, by simp [hemp, pure, Except.pure]⟩
    · have hne1 : nids1 ≠ [] := by simpa using hemp
      have hperm := sortInts_perm nids1
      -- the next layer: nodes exist, one level further
      have hS : ∀ x ∈ sortInts nids1, (x, l0 + 1) ∈ L ∧ ∃ n, dGet? g.nodes x = some n := by
        intro x hx
        have hx1 : x ∈ nids1 := hperm.mem_iff.1 hx
        obtain ⟨nid, hnid, node, hnode, eid, heid, e, he, hex⟩ := hN.bwd x hx1
        refine ⟨?_, ?_⟩
        · have := hL (nid, l0) (h0 nid hnid).1 node hnode eid heid e he
          rw [hex] at this
          exact this
        · obtain ⟨n, hn⟩ := hF.edgeTgt eid e he
          exact ⟨n, by rw [← hex]; exact hn⟩
      have hSne : sortInts nids1 ≠ [] := by
        intro h0'
        have := hperm.length_eq
        rw [h0'] at this
        exact hne1 (length_eq_zero_iff.1 this.symm)
      obtain ⟨qDl, hqDl⟩ := mapM_total (fun nid => do let n ← g.getNode nid; pure n.qnum) (sortInts nids1) (by
        intro x hx
        obtain ⟨n, hn⟩ := (hS x hx).2
        refine ⟨n.qnum, ?_⟩
        simp only [bind_ok_iff, pure_ok_iff, Graph.getNode, dGet_ok_iff]
        exact ⟨n, hn, rfl⟩)
      obtain ⟨contribs, hcon⟩ := bondContribs_total g opmap qd.length nids0 (sortInts nids1) (by
        intro x hx
        obtain ⟨node, hnode, hall⟩ := hN.fwd x hx
        refine ⟨node, hnode, ?_⟩
        intro eid heid
        obtain ⟨e, he, _, hmem⟩ := hall eid heid
        refine ⟨e, he, hperm.mem_iff.2 hmem, ?_⟩
        intro oc hoc
        have := hch (eid, e) (mem_of_dGet? he) oc hoc
        cases hl : opmap.lookup oc.1 with
        | none => rw [hl] at this; exact this.elim
        | some m => rw [hl] at this; exact ⟨m, rfl, this.1⟩)
      -- a representative of the current layer
      obtain ⟨r, rs, hrs⟩ := exists_cons_of_ne_nil hne
      obtain ⟨hrL, n, hn⟩ := h0 r (by simp [hrs])
      have hnd : (r :: seen).Nodup := by
        rw [nodup_cons]
        refine ⟨?_, hsn⟩
        intro hr
        obtain ⟨_, k, hk, hkL⟩ := hseen r hr
        have := huniq r _ _ hrL hkL
        omega
      have hsub : ∀ x ∈ r :: seen, x ∈ dKeys g.nodes ∧ ∃ k, k < l0 + 1 ∧ (x, k) ∈ L := by
        intro x hx
        rcases mem_cons.1 hx with rfl | hx
        · exact ⟨mem_dKeys_of_dGet? hn, l0, by omega, hrL⟩
        · obtain ⟨h1, k, hk, hkL⟩ := hseen x hx
          exact ⟨h1, k, by omega, hkL⟩
      obtain ⟨out', hout'⟩ := ih (sortInts nids1) (l + 1)
        ⟨out.qD ++ [qDl], out.tensors ++ [assembleTensor qd.length nids0.length (sortInts nids1).length contribs],
          if on then ((sortInts nids1).zipIdx).foldl (fun m (ni : Int × Nat) => dSet m ni.1 (l, ni.2)) out.nidMap
          else out.nidMap⟩
        (r :: seen) (l0 + 1) hS hSne hnd hsub (by simp only [length_cons]; omega)
      refine ⟨out', ?_⟩
      simp only [bind_ok_iff]
      refine ⟨nids1, hn1, ?_⟩
      simp only [hemp, Bool.false_eq_true, if_false, bind_ok_iff]
      exact ⟨qDl, hqDl, contribs, hcon, hout'⟩

/-! ## the final `is_qsparse` assertion -/

theorem run_sparse (qd : List Int) (g : Graph κ) (opmap : OpMap κ) (hF : WalkFacts g) (hch : OpsCharged qd g opmap) :
    ∀ (Ls : List (List Int)) (Ts : List (Tensor κ)) (nids0 : List Int), Run g opmap qd.length nids0 Ls Ts →
      ∀ i A, Ts[i]? = some A →
        isQsparse qd ((layerQ g nids0 :: Ls.map (layerQ g)).getD i []) ((layerQ g nids0 :: Ls.map (layerQ g)).getD (i + 1) []) A
          = true := by
  intro Ls
  induction Ls with
  | nil =>
    intro Ts nids0 hrun i A hA
    cases Ts with
    | nil => simp at hA
    | cons _ _ => simp [Run] at hrun
  | cons S Ls ih =>
    intro Ts nids0 hrun i A hA
    cases Ts with
    | nil => simp [Run] at hrun
    | cons A0 Ts =>
      obtain ⟨nids1, contribs, _, _, _, _, hc, hA0, hrun'⟩ := hrun
      cases i with
      | zero =>
        simp only [getElem?_cons_zero, Option.some.injEq] at hA
        subst hA
        rw [hA0]
        simpa using layer_sparse qd g opmap hF hch nids0 S contribs hc
      | succ i =>
        simp only [getElem?_cons_succ] at hA
        have := ih Ts S hrun' i A hA
        simpa using this

/-! ## `MPO.from_opgraph` returns -/

/-- **Totality of `MPO.from_opgraph`.** -/
theorem fromOpgraph_total (qd : List Int) (g : Graph κ) (opmap : OpMap κ) (on : Bool)
    (hc : g.isConsistent = true) (hd : 1 ≤ qd.length) (hch : OpsCharged qd g opmap) :
    ∃ out, fromOpgraph qd g opmap on = .ok out := by
  have hF := WalkFacts.of_consistent g hc
  obtain ⟨_, _, ft⟩ := isConsistent_facts g hc
  obtain ⟨t0, ht0, _⟩ := ft false
  obtain ⟨L, hLn, hL0, hLc⟩ := forward_levels g hc
  obtain ⟨out, hout⟩ := loop_total qd g opmap on hF hch L hLn hLc (g.nodes.length + 2) [g.term false] 1
    ⟨[[t0.qnum]], [], if on then [(g.term false, (0, 0))] else []⟩ [] 0
    (by intro x hx; simp only [mem_singleton] at hx; subst hx; exact ⟨hL0, t0, ht0⟩) (by simp) (by simp) (by simp)
    (by simp)
  obtain ⟨Ls, Ts, hrun, hT, hq, _⟩ := loop_spec g opmap qd.length on _ _ _ _ _ hout
  have hlen := run_length g opmap qd.length Ls Ts _ hrun
  simp only [nil_append] at hT
  have hq' : out.qD = layerQ g [g.term false] :: Ls.map (layerQ g) := by
    rw [hq]; simp [layerQ, ht0]
  refine ⟨out, ?_⟩
  unfold fromOpgraph
  have hd0 : (qd.length == 0) = false := by
    simp only [beq_eq_false_iff_ne]; omega
  simp only [hd0, Bool.false_eq_true, if_false]
  simp only [bind_ok_iff, pure_ok_iff, Graph.getNode, dGet_ok_iff, pyAssert_ok_iff]
  refine ⟨t0, ht0, out, hout, (), ?_, (), ?_, rfl⟩
  · rw [hT, hq', hlen]; simp
  · rw [List.all_eq_true]
    intro x hx
    have hx' := mem_zipIdx_iff_getElem?.1 hx
    rw [hT] at hx'
    have := run_sparse qd g opmap hF hch Ls Ts _ hrun x.2 x.1 hx'
    rw [hq']
    exact this

end Ptn.Ch

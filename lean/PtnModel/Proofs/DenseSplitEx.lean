import PtnModel.Proofs.DenseSplit
/-!
# A concrete instance of the hypotheses of `split_merge` (non-vacuity), over `ℤ` with exact toy kernels

Toy SVD kernel `M ↦ (M, [1,…,1], I)` (an exact factorisation `M = M · diag(1) · I`), `norm ≡ 1`, `argsort = id`,
`sqrt = id`; two-site tensor of shape `(2·2, 1, 1)` with all charges zero.
-/
namespace Ptn.Dense.SplitEx
open Finset BondOps MPS

instance : RealLike Int Int := ⟨id, id⟩

def k : SvdKernels Int Int :=
  ⟨fun M => (M, List.replicate M.n 1, ⟨M.n, M.n, fun i j => if i = j then 1 else 0⟩), fun _ => 1,
   fun s => List.range s.length⟩

def A : T3 Int := ⟨4, 1, 1, fun s _ _ => 3 + 2 * s⟩

/-- the reconstruction hypothesis of `split_merge`, as a decidable statement about a result of `split_matrix_svd` -/
def Rec (distr : Nat) (r : Mat Int × List Int × Mat Int × List Int) : Prop :=
  (distr = 2 → ∀ p < r.2.1.length, (RealLike.ofReal (id (r.2.1.getD p 0)) : Int) * RealLike.ofReal (id (r.2.1.getD p 0))
      = RealLike.ofReal (r.2.1.getD p 0)) ∧
  ∀ i < [0, 0].length * A.d1, ∀ j < [0, 0].length * A.d2,
    ∑ p ∈ range r.2.1.length, r.1.f i p * RealLike.ofReal (r.2.1.getD p 0) * r.2.2.1.f p j
      = (splitMat A [0, 0].length [0, 0].length).f i j

instance (distr : Nat) (r) : Decidable (Rec distr r) := by unfold Rec; infer_instance

theorem rec_all : (match splitMatrixSvd k.dsvd k.dnorm k.dargsort (splitMat A [0, 0].length [0, 0].length).tab
      (QN.flatten2 [0, 0] [0]) (QN.flatten2 (QN.neg [0, 0]) [0]) (0 : Int) with
    | .ok r => decide (Rec 2 r ∧ Rec 0 r)
    | .error _ => false) = true := by decide

/-- the hypothesis `hrec` of `split_merge` holds for the toy kernels, for every distribution mode -/
theorem hrec (distr : Nat) : ∀ U σ V q, splitMatrixSvd k.dsvd k.dnorm k.dargsort
      (splitMat A [0, 0].length [0, 0].length).tab (QN.flatten2 [0, 0] [0]) (QN.flatten2 (QN.neg [0, 0]) [0]) (0 : Int)
        = .ok (U, σ, V, q) →
    (distr = 2 → ∀ p < σ.length, (RealLike.ofReal (id (σ.getD p 0)) : Int) * RealLike.ofReal (id (σ.getD p 0))
        = RealLike.ofReal (σ.getD p 0)) ∧
    ∀ i < [0, 0].length * A.d1, ∀ j < [0, 0].length * A.d2,
      ∑ p ∈ range σ.length, U.f i p * RealLike.ofReal (σ.getD p 0) * V.f p j
        = (splitMat A [0, 0].length [0, 0].length).f i j := by
  intro U σ V q h
  have key := rec_all
  rw [h] at key
  simp only [decide_eq_true_eq] at key
  exact ⟨fun _ => (key.1.1 rfl), key.2.2⟩

theorem split_isOk : (splitMpsTensor k id A [0, 0] [0, 0] [0] [0] 0 (0 : Int)).isOk = true ∧
    (splitMpsTensor k id A [0, 0] [0, 0] [0] [0] 1 (0 : Int)).isOk = true ∧
    (splitMpsTensor k id A [0, 0] [0, 0] [0] [0] 2 (0 : Int)).isOk = true := by decide

theorem exists_of_isOk {ε β : Type} {x : Except ε β} (h : x.isOk = true) : ∃ r, x = .ok r := by
  cases x with
  | ok r => exact ⟨r, rfl⟩
  | error e => simp [Except.isOk, Except.toBool] at h

end Ptn.Dense.SplitEx

import PtnModel.Proofs.EvoUnfold
import PtnModel.Props.C01
/-!
# Shape invariant of the sweeps, and the bond dimensions of single-site TDVP

* `qr_run_facts`   : what a successful block-QR call says about its input and output (from C11);
* `SweepWf qd L s` : array sizes, every site tensor has the shape given by the charge lists, all bonds non-empty;
* `wf_update_pair`, `wf_replace` : the two kinds of updates the sweeps perform;
* `tdvp1Left_wf`, `tdvp1Right_wf`, `tdvp1Step_wf` : single-site TDVP keeps the invariant and never enlarges a bond.
-/
set_option linter.unusedSectionVars false

namespace Ptn.Evo
open Ptn Ptn.Krylov Ptn.Dense Ptn.BondOps Ptn.Ortho

variable {𝕜 : Type} [RCLike 𝕜] [DecidableEq 𝕜]

/-- facts about a successful `qr` call on a matrix with positive dimensions, for a kernel with the shape clause -/
theorem qr_run_facts {dqr : Mat 𝕜 → Mat 𝕜 × Mat 𝕜} (hshape : ∀ B, ShapeAt dqr B) {A : Mat 𝕜} {q0 q1 : List Int}
    {Q R : Mat 𝕜} {qb : List Int} (hm : 0 < A.m) (hn : 0 < A.n) (h : qr dqr A q0 q1 = .ok (Q, R, qb)) :
    QRInput A q0 q1 ∧ QRResult A q0 q1 Q R qb := by
  have h' := h
  unfold qr at h'
  rw [pyAssert_bind] at h'
  obtain ⟨h0, h'⟩ := h'
  rw [pyAssert_bind] at h'
  obtain ⟨h1, h'⟩ := h'
  rw [pyAssert_bind] at h'
  obtain ⟨h2, _⟩ := h'
  have H : QRInput A q0 q1 := ⟨by simpa using h0, by simpa using h1, hm, hn, (isSparseMat_iff A q0 q1).1 h2⟩
  exact ⟨H, result_of_run (fun B _ => hshape B) H h⟩

/-- sizes, shapes and non-empty bonds of a sweep state -/
structure SweepWf (qd : List Int) (L : Nat) (s : Sweep 𝕜) : Prop where
  sizeA : s.A.size = L
  sizeQ : s.qD.size = L + 1
  qpos : ∀ i, i ≤ L → 0 < (getQ s i).length
  shape : ∀ i, i < L → (getA s i).d0 = qd.length ∧ (getA s i).d1 = (getQ s i).length ∧
    (getA s i).d2 = (getQ s (i + 1)).length

/-- no bond of `s'` is larger than the corresponding bond of `s` -/
def BondLe (s' s : Sweep 𝕜) : Prop := ∀ i, (getQ s' i).length ≤ (getQ s i).length

omit [DecidableEq 𝕜] in
theorem BondLe.refl (s : Sweep 𝕜) : BondLe s s := fun _ => Nat.le_refl _
omit [DecidableEq 𝕜] in
theorem BondLe.trans {s1 s2 s3 : Sweep 𝕜} (h1 : BondLe s1 s2) (h2 : BondLe s2 s3) : BondLe s1 s3 :=
  fun i => Nat.le_trans (h1 i) (h2 i)

omit [DecidableEq 𝕜] in
/-- replace the tensors of the sites `j, j+1` and the charges of the bond between them -/
theorem wf_update_pair {qd : List Int} {L : Nat} {s s' : Sweep 𝕜} (hwf : SweepWf qd L s) {j : Nat} (hj : j + 1 < L)
    {X Y : T3 𝕜} {qb : List Int}
    (hsA : s'.A.size = L) (hsQ : s'.qD.size = L + 1)
    (hA : ∀ m, getA s' m = if m = j then X else if m = j + 1 then Y else getA s m)
    (hQ : ∀ m, getQ s' m = if m = j + 1 then qb else getQ s m)
    (hX : X.d0 = qd.length ∧ X.d1 = (getQ s j).length ∧ X.d2 = qb.length)
    (hY : Y.d0 = qd.length ∧ Y.d1 = qb.length ∧ Y.d2 = (getQ s (j + 2)).length) (hq : 0 < qb.length) :
    SweepWf qd L s' := by
  refine ⟨hsA, hsQ, ?_, ?_⟩
  · intro i hi
    rw [hQ]
    split
    · exact hq
    · exact hwf.qpos i hi
  · intro i hi
    rw [hA i, hQ i, hQ (i + 1)]
    by_cases h1 : i = j
    · subst h1
      rw [if_pos rfl, if_neg (by omega), if_pos rfl]
      exact hX
    · rw [if_neg h1]
      by_cases h2 : i = j + 1
      · subst h2
        rw [if_pos rfl, if_pos rfl, if_neg (by omega)]
        exact hY
      · rw [if_neg h2, if_neg h2, if_neg (by omega)]
        exact hwf.shape i hi

omit [DecidableEq 𝕜] in
/-- replace one site tensor by a tensor of the same shape -/
theorem wf_replace {qd : List Int} {L : Nat} {s s' : Sweep 𝕜} (hwf : SweepWf qd L s) {j : Nat} {X : T3 𝕜}
    (hsA : s'.A.size = L) (hsQ : s'.qD.size = L + 1)
    (hA : ∀ m, getA s' m = if m = j then X else getA s m) (hQ : ∀ m, getQ s' m = getQ s m)
    (hX : X.d0 = (getA s j).d0 ∧ X.d1 = (getA s j).d1 ∧ X.d2 = (getA s j).d2) : SweepWf qd L s' := by
  refine ⟨hsA, hsQ, fun i hi => by rw [hQ]; exact hwf.qpos i hi, ?_⟩
  intro i hi
  rw [hA i, hQ i, hQ (i + 1)]
  by_cases h1 : i = j
  · subst h1
    rw [if_pos rfl, hX.1, hX.2.1, hX.2.2]
    exact hwf.shape i hi
  · rw [if_neg h1]; exact hwf.shape i hi

omit [DecidableEq 𝕜] in
theorem localStep_dims {k : EvoKernels 𝕜 ℝ} {L R : T3 𝕜} {W : T4 𝕜} {A A1 : T3 𝕜} {dt : 𝕜} {numiter : Nat}
    (h : localHamiltonianStep k L R W A dt numiter = .ok A1) : A1.d0 = A.d0 ∧ A1.d1 = A.d1 ∧ A1.d2 = A.d2 := by
  obtain ⟨y, _, rfl⟩ := localStep_unfold h
  exact ⟨rfl, rfl, rfl⟩

omit [DecidableEq 𝕜] in
theorem bondStep_dims {k : EvoKernels 𝕜 ℝ} {L R : T3 𝕜} {C C1 : Mat 𝕜} {dt : 𝕜} {numiter : Nat}
    (h : localBondStep k L R C dt numiter = .ok C1) : C1.m = C.m ∧ C1.n = C.n := by
  obtain ⟨y, _, rfl⟩ := bondStep_unfold h
  exact ⟨rfl, rfl⟩

/-! ## single-site TDVP -/

theorem tdvp1Left_wf {k : EvoKernels 𝕜 ℝ} (hshape : ∀ B, ShapeAt k.dqr B) {H : MPO 𝕜} {qd : List Int} (hd : 0 < qd.length)
    {dt : 𝕜} {numiter L : Nat} {s s' : Sweep 𝕜} {i : Nat} (hwf : SweepWf qd L s) (hi : i + 1 < L)
    (h : tdvp1Left k H qd dt numiter s i = .ok s') : SweepWf qd L s' ∧ BondLe s' s := by
  obtain ⟨A1, Q, C, qb, BLn, C1, h1, h2, h3, h4, hc, rfl⟩ := tdvp1Left_unfold h
  obtain ⟨a0, a1, a2⟩ := localStep_dims h1
  obtain ⟨c0, c1⟩ := bondStep_dims h4
  obtain ⟨s0, s1, s2⟩ := hwf.shape i (by omega)
  have hm : 0 < A1.flattenLeft.tab.m := by
    show 0 < A1.d0 * A1.d1
    rw [a0, a1, s0, s1]
    exact Nat.mul_pos hd (hwf.qpos i (by omega))
  have hn : 0 < A1.flattenLeft.tab.n := by
    show 0 < A1.d2
    rw [a2, s2]; exact hwf.qpos (i + 1) (by omega)
  obtain ⟨_, hres⟩ := qr_run_facts hshape hm hn h2
  have hA : ∀ m, getA (⟨(s.A.setIfInBounds i (T3.ofFlattenLeft Q A1.d0 A1.d1).tab).setIfInBounds (i + 1)
      (pushLeft (getA s (i + 1)) C1), s.qD.setIfInBounds (i + 1) qb, s.BL.setIfInBounds (i + 1) BLn, s.BR⟩ : Sweep 𝕜) m =
      if m = i then (T3.ofFlattenLeft Q A1.d0 A1.d1).tab else if m = i + 1 then pushLeft (getA s (i + 1)) C1
      else getA s m := by
    intro m
    show ((s.A.setIfInBounds i _).setIfInBounds (i + 1) _).getD m emptyT3 = _
    rw [getD_setIfInBounds, getD_setIfInBounds, Array.size_setIfInBounds, hwf.sizeA]
    by_cases h1 : m = i
    · subst h1; rw [if_neg (by omega), if_pos ⟨rfl, by omega⟩, if_pos rfl]
    · rw [if_neg h1]
      by_cases h2 : m = i + 1
      · rw [if_pos ⟨h2, hi⟩, if_pos h2]
      · rw [if_neg (fun hh => h2 hh.1), if_neg (fun hh => h1 hh.1), if_neg h2]; rfl
  have hQ : ∀ m, getQ (⟨(s.A.setIfInBounds i (T3.ofFlattenLeft Q A1.d0 A1.d1).tab).setIfInBounds (i + 1)
      (pushLeft (getA s (i + 1)) C1), s.qD.setIfInBounds (i + 1) qb, s.BL.setIfInBounds (i + 1) BLn, s.BR⟩ : Sweep 𝕜) m =
      if m = i + 1 then qb else getQ s m := by
    intro m
    show (s.qD.setIfInBounds (i + 1) qb).getD m [] = _
    rw [getD_setIfInBounds, hwf.sizeQ]
    by_cases h2 : m = i + 1
    · rw [if_pos ⟨h2, by omega⟩, if_pos h2]
    · rw [if_neg (fun hh => h2 hh.1), if_neg h2]; rfl
  obtain ⟨n0, n1, n2⟩ := hwf.shape (i + 1) hi
  refine ⟨wf_update_pair hwf hi (by simp [hwf.sizeA]) (by simp [hwf.sizeQ]) hA hQ
    ⟨a0.trans s0, a1.trans s1, hres.Qn⟩ ⟨n0, c0.trans hres.Rm, n2⟩ hres.pos, ?_⟩
  intro m
  rw [hQ m]
  split
  · rename_i hm'
    subst hm'
    have := hres.le
    have e : A1.flattenLeft.tab.n = (getQ s (i + 1)).length := by show A1.d2 = _; rw [a2, s2]
    rw [e] at this
    omega
  · exact Nat.le_refl _

omit [DecidableEq 𝕜] in
theorem neg_len (q : List Int) : (QN.neg q).length = q.length := by simp [QN.neg]

theorem tdvp1Right_wf {k : EvoKernels 𝕜 ℝ} (hshape : ∀ B, ShapeAt k.dqr B) {H : MPO 𝕜} {qd : List Int} (hd : 0 < qd.length)
    {dt : 𝕜} {numiter L : Nat} {s s' : Sweep 𝕜} {i : Nat} (hwf : SweepWf qd L s) (hi1 : 1 ≤ i) (hi : i < L)
    (h : tdvp1Right k H qd dt numiter s i = .ok s') : SweepWf qd L s' ∧ BondLe s' s := by
  obtain ⟨Q, C, qb, BRn, C1, Ap2, h1, h2, h3, hc, h4, rfl⟩ := tdvp1Right_unfold h
  obtain ⟨a0, a1, a2⟩ := localStep_dims h4
  obtain ⟨c0, c1⟩ := bondStep_dims h3
  obtain ⟨s0, s1, s2⟩ := hwf.shape i hi
  have hm : 0 < (getA s i).swap12.flattenLeft.tab.m := by
    show 0 < (getA s i).d0 * (getA s i).d2
    rw [s0, s2]
    exact Nat.mul_pos hd (hwf.qpos (i + 1) (by omega))
  have hn : 0 < (getA s i).swap12.flattenLeft.tab.n := by
    show 0 < (getA s i).d1
    rw [s1]; exact hwf.qpos i (by omega)
  obtain ⟨_, hres⟩ := qr_run_facts hshape hm hn h1
  obtain ⟨j, rfl⟩ : ∃ j, i = j + 1 := ⟨i - 1, by omega⟩
  simp only [Nat.add_sub_cancel] at *
  have hA : ∀ m, getA (⟨(s.A.setIfInBounds (j + 1) (T3.ofFlattenLeft Q (getA s (j + 1)).d0 (getA s (j + 1)).d2).swap12.tab).setIfInBounds
      j Ap2, s.qD.setIfInBounds (j + 1) (QN.neg qb), s.BL, s.BR.setIfInBounds j BRn⟩ : Sweep 𝕜) m =
      if m = j then Ap2 else if m = j + 1 then (T3.ofFlattenLeft Q (getA s (j + 1)).d0 (getA s (j + 1)).d2).swap12.tab
      else getA s m := by
    intro m
    show ((s.A.setIfInBounds (j + 1) _).setIfInBounds j _).getD m emptyT3 = _
    rw [getD_setIfInBounds, getD_setIfInBounds, Array.size_setIfInBounds, hwf.sizeA]
    by_cases h1 : m = j
    · subst h1; rw [if_pos ⟨rfl, by omega⟩, if_pos rfl]
    · rw [if_neg h1, if_neg (fun hh => h1 hh.1)]
      by_cases h2 : m = j + 1
      · rw [if_pos ⟨h2, hi⟩, if_pos h2]
      · rw [if_neg (fun hh => h2 hh.1), if_neg h2]; rfl
  have hQ : ∀ m, getQ (⟨(s.A.setIfInBounds (j + 1) (T3.ofFlattenLeft Q (getA s (j + 1)).d0 (getA s (j + 1)).d2).swap12.tab).setIfInBounds
      j Ap2, s.qD.setIfInBounds (j + 1) (QN.neg qb), s.BL, s.BR.setIfInBounds j BRn⟩ : Sweep 𝕜) m =
      if m = j + 1 then QN.neg qb else getQ s m := by
    intro m
    show (s.qD.setIfInBounds (j + 1) (QN.neg qb)).getD m [] = _
    rw [getD_setIfInBounds, hwf.sizeQ]
    by_cases h2 : m = j + 1
    · rw [if_pos ⟨h2, by omega⟩, if_pos h2]
    · rw [if_neg (fun hh => h2 hh.1), if_neg h2]; rfl
  obtain ⟨p0, p1, p2⟩ := hwf.shape j (by omega)
  have hQn : Q.n = qb.length := hres.Qn
  have hRm : C.m = qb.length := hres.Rm
  refine ⟨wf_update_pair hwf hi (by simp [hwf.sizeA]) (by simp [hwf.sizeQ]) hA hQ
    ⟨a0.trans p0, a1.trans p1, ?_⟩ ⟨s0, ?_, s2⟩ (by rw [neg_len]; exact hres.pos), ?_⟩
  · rw [a2, neg_len]
    show C1.n = qb.length
    rw [c1]; exact hRm
  · rw [neg_len]; exact hQn
  · intro m
    rw [hQ m]
    split
    · rename_i hm'
      subst hm'
      have := hres.le
      have e : (getA s (j + 1)).swap12.flattenLeft.tab.n = (getQ s (j + 1)).length := s1
      rw [e] at this
      rw [neg_len]
      omega
    · exact Nat.le_refl _

theorem tdvp1Step_wf {k : EvoKernels 𝕜 ℝ} (hshape : ∀ B, ShapeAt k.dqr B) {H : MPO 𝕜} {qd : List Int} (hd : 0 < qd.length)
    {dt : 𝕜} {numiter : Nat} {s s' : Sweep 𝕜} (hwf : SweepWf qd H.A.length s)
    (h : tdvp1Step k H qd dt numiter s = .ok s') : SweepWf qd H.A.length s' ∧ BondLe s' s := by
  obtain ⟨s1, Al, h1, h2, h3⟩ := tdvp1Step_unfold h
  set L := H.A.length with hL
  -- left sweep
  have hl : SweepWf qd L s1 ∧ BondLe s1 s :=
    foldIdx_inv (tdvp1Left k H qd dt numiter) (fun t => SweepWf qd L t ∧ BondLe t s) (fun i => i + 1 < L)
      (fun x t t' hx ht ht' => by
        obtain ⟨w, b⟩ := tdvp1Left_wf hshape hd ht.1 hx ht'
        exact ⟨w, b.trans ht.2⟩)
      _ (fun x hx => by have := List.mem_range.1 hx; omega) s s1 ⟨hwf, BondLe.refl s⟩ h1
  -- middle step
  obtain ⟨a0, a1, a2⟩ := localStep_dims h2
  have hmid : SweepWf qd L (⟨s1.A.setIfInBounds (L - 1) Al, s1.qD, s1.BL, s1.BR⟩ : Sweep 𝕜) := by
    refine wf_replace hl.1 (j := L - 1) (X := if L - 1 < L then Al else getA s1 (L - 1)) (by simp [hl.1.sizeA])
      hl.1.sizeQ ?_ (fun _ => rfl) ?_
    · intro m
      show (s1.A.setIfInBounds (L - 1) Al).getD m emptyT3 = _
      rw [getD_setIfInBounds, hl.1.sizeA]
      by_cases hm : m = L - 1
      · subst hm
        by_cases hlt : L - 1 < L
        · rw [if_pos ⟨rfl, hlt⟩, if_pos rfl, if_pos hlt]
        · rw [if_neg (fun hh => hlt hh.2), if_pos rfl, if_neg hlt]; rfl
      · rw [if_neg (fun hh => hm hh.1), if_neg hm]; rfl
    · split
      · exact ⟨a0, a1, a2⟩
      · exact ⟨rfl, rfl, rfl⟩
  have hr := foldIdx_inv (tdvp1Right k H qd dt numiter)
    (fun t => SweepWf qd L t ∧ BondLe t (⟨s1.A.setIfInBounds (L - 1) Al, s1.qD, s1.BL, s1.BR⟩ : Sweep 𝕜))
    (fun i => 1 ≤ i ∧ i < L)
    (fun x t t' hx ht ht' => by
      obtain ⟨w, b⟩ := tdvp1Right_wf hshape hd ht.1 hx.1 hx.2 ht'
      exact ⟨w, b.trans ht.2⟩)
    _ (fun x hx => by
      obtain ⟨y, hy, rfl⟩ := List.mem_map.1 hx
      have := List.mem_range.1 (List.mem_reverse.1 hy)
      omega) _ s' ⟨hmid, BondLe.refl _⟩ h3
  refine ⟨hr.1, ?_⟩
  intro m
  exact Nat.le_trans (hr.2 m) (hl.2 m)

end Ptn.Evo

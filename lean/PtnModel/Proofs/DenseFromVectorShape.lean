import PtnModel.Proofs.DenseFromVectorFull
import PtnModel.Proofs.DenseClosure
/-!
# The result of `from_vector` is `Shaped`; with exact SVD steps `as_vector` of the result is the input vector
-/
namespace Ptn
open Finset Dense

set_option linter.unusedSectionVars false

/-- every position `< d^n` is the row-major position of a digit list -/
theorem flat_surj (d : Nat) : ∀ (n i : Nat), i < d ^ n → ∃ s, Digits d n s ∧ flat d s = i
  | 0, i, h => ⟨[], ⟨rfl, by simp⟩, by simp at h; simp [flat, flatFrom_nil, h]⟩
  | n + 1, i, h => by
      have hd : 0 < d ^ n := by
        rcases Nat.eq_zero_or_pos (d ^ n) with h0 | h0
        · rw [pow_succ, h0, Nat.zero_mul] at h; omega
        · exact h0
      obtain ⟨ss, hss, hf⟩ := flat_surj d n (i % d ^ n) (Nat.mod_lt _ hd)
      refine ⟨(i / d ^ n) :: ss, ⟨by simp [hss.1], ?_⟩, ?_⟩
      · intro x hx
        rcases List.mem_cons.1 hx with rfl | hx
        · rw [pow_succ, Nat.mul_comm] at h
          exact (Nat.div_lt_iff_lt_mul hd).2 h
        · exact hss.2 x hx
      · rw [flat_cons, MPS.flatFrom_eq, hss.1, hf]
        exact Nat.div_add_mod' i (d ^ n)

namespace MPS
variable {R ρ : Type} [CommRing R]
  [RealLike ρ R] [OfNat ρ 0] [Add ρ] [Mul ρ] [Div ρ] [LT ρ] [DecidableEq ρ] [DecidableLT ρ]

theorem chain_get (d : Nat) : ∀ (As : List (T3 R)) (Dl Dr : Nat), Chain d Dl As Dr →
    ∀ i A, As[i]? = some A → A.d0 = d ∧ A.d1 = (if i = 0 then Dl else (As.getD (i - 1) ones111).d2)
  | [], _, _, _, i, A, h => by simp at h
  | A0 :: As, Dl, Dr, hc, i, A, h => by
      obtain ⟨h0, h1, hc'⟩ := hc
      match i with
      | 0 =>
        simp only [List.getElem?_cons_zero, Option.some.injEq] at h
        subst h
        exact ⟨h0, by simp [h1]⟩
      | j + 1 =>
        simp only [List.getElem?_cons_succ] at h
        obtain ⟨a0, a1⟩ := chain_get d As A0.d2 Dr hc' j A h
        refine ⟨a0, ?_⟩
        rw [a1]
        match j with
        | 0 => simp
        | j' + 1 => simp

theorem scaleLast_chain (c : R) (d : Nat) : ∀ (As : List (T3 R)) (Dl Dr : Nat), Chain d Dl As Dr →
    Chain d Dl (scaleLast c As) Dr
  | [], _, _, h => by simpa [scaleLast] using h
  | [X], _, _, h => by
      rw [scaleLast_single]
      exact h
  | X :: X' :: As, _, _, h => by
      rw [scaleLast_cons]
      exact ⟨h.1, h.2.1, scaleLast_chain c d (X' :: As) _ _ h.2.2⟩

/-- the result of `from_vector` is a shaped MPS (all charges zero) -/
theorem fromVector_shaped (k : SvdKernels R ρ) (d n : Nat) (v : List R) (tol : ρ) (ψ : MPS R)
    (h : fromVector k d n v tol = .ok ψ)
    (hM : ∀ M ∈ fvMats k d n (⟨1, v.length, fun _ c => v.toArray.getD c 0⟩ : Mat R) tol, StepExact k tol M) :
    Shaped ψ d ∧ v.length = d ^ n := by
  unfold fromVector at h
  simp only [pyAssert_bind] at h
  obtain ⟨hvl, h⟩ := h
  simp only [bind_ok] at h
  obtain ⟨⟨As, vend⟩, hloop, h⟩ := h
  obtain ⟨u, hv, h⟩ := h
  rw [pyAssert_ok] at hv
  simp only [Bool.and_eq_true, beq_iff_eq] at hv h
  split at h
  · rw [throw_bind_ne] at h; exact h.elim
  · rename_i hn
    rw [pure_ok] at h
    subst h
    obtain ⟨hc, hl, _⟩ := fromVectorLoop_row k d tol n _ As vend hloop hM
    have hne : As ≠ [] := by intro h0; exact hn (by simp [h0])
    have hc' : Chain d 1 (scaleLast (vend.f 0 0) As) 1 := by
      have := scaleLast_chain (vend.f 0 0) d As _ _ hc
      simpa [hv.1] using this
    have hlen : (scaleLast (vend.f 0 0) As).length = n := by rw [← hl]; simp [scaleLast]
    refine ⟨⟨by simp, ?_, hc', ?_⟩, by simpa [ipow_eq] using hvl⟩
    · show scaleLast (vend.f 0 0) As ≠ []
      intro h0
      rw [h0] at hlen
      exact hn (by rw [hl]; exact hlen.symm)
    · show DimsMatch d (scaleLast (vend.f 0 0) As) _
      rw [dimsMatch_iff]
      refine ⟨by simp [hlen], ?_⟩
      intro i A hA
      have hi : i < n := hlen ▸ MPO.getElem?_lt hA
      obtain ⟨a0, a1⟩ := chain_get d _ 1 1 hc' i A hA
      rw [getD_map_range _ _ i (by omega), getD_map_range _ _ (i + 1) (by omega)]
      have : (scaleLast (vend.f 0 0) As).getD (i + 1 - 1) ones111 = A := by
        simp [List.getD_eq_getElem?_getD, hA]
      refine ⟨a0, ?_, ?_⟩
      · rw [List.length_replicate]; exact a1
      · rw [List.length_replicate, if_neg (by omega)]
        show A.d2 = ((scaleLast (vend.f 0 0) As).getD (i + 1 - 1) ones111).d2
        rw [this]

/-- with exact SVD steps, `as_vector` of the result of `from_vector` is the input vector -/
theorem fromVector_asVector (k : SvdKernels R ρ) (d n : Nat) (v : List R) (tol : ρ) (ψ : MPS R)
    (h : fromVector k d n v tol = .ok ψ)
    (hM : ∀ M ∈ fvMats k d n (⟨1, v.length, fun _ c => v.toArray.getD c 0⟩ : Mat R) tol, StepExact k tol M)
    (v' : List R) (hv' : ψ.asVector = .ok v') : v' = v := by
  obtain ⟨hs, hvl⟩ := fromVector_shaped k d n v tol ψ h hM
  obtain ⟨hA, hamp⟩ := fromVector_amp k d n v tol ψ h hM
  obtain ⟨hl', hget⟩ := asVector_amp ψ d hs v' hv'
  rw [hA] at hl' hget
  apply List.ext_getElem? 
  intro i
  rcases Nat.lt_or_ge i (d ^ n) with hi | hi
  · obtain ⟨s, hs', rfl⟩ := flat_surj d n i hi
    rw [hget s hs', hamp s hs', List.getD_eq_getElem?_getD, List.getElem?_eq_getElem (by omega)]
    simp
  · rw [List.getElem?_eq_none (by omega), List.getElem?_eq_none (by omega)]

end MPS
end Ptn

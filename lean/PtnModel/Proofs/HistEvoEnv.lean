import PtnModel.Proofs.HistEvoLocal
/-!
# C02: the environment blocks of TDVP / DMRG stay block sparse

`contraction_operator_step_left/right(A, A, W, B)` of a block-sparse site tensor `A` (charges `(qd, qa, qb)`), a
block-sparse MPO tensor `W` (`(qd, qw, qw')`) and a block `B` with `is_qsparse(B, [q, qH, -q])` gives a block with the
same property w.r.t. the charges of the other bond — the pattern asserted by the Python code for the initial right blocks
(`is_qsparse(BR[i], [psi.qD[i+1], H.qD[i+1], -psi.qD[i+1]])`).  The new block is square.
-/
set_option linter.unusedSectionVars false
namespace Ptn.HistWf
open Ptn Ptn.Krylov Ptn.Evo Ptn.Ortho Ptn.BondOps Ptn.Dense Finset

variable {𝕜 : Type} [RCLike 𝕜] [DecidableEq 𝕜]

/-- **left step**: `BL[i+1] = step_left(A, A, W, BL[i])` is block sparse w.r.t. `(qb, qw')` -/
theorem opStepLeft_sparse {A B : T3 𝕜} {W : T4 𝕜} {E T : T3 𝕜} {qd qa qb qw qw' : List Int}
    (h : Op.opStepLeft A B W E = .ok T) (hA : SparseT3 A qd qa qb) (hB : SparseT3 B qd qa qb)
    (hW : SparseT4 W qd qw qw') (hE : BlockSparse E qa qw) :
    BlockSparse T qb qw' ∧ T.d0 = A.d2 ∧ T.d1 = W.d3 ∧ T.d2 = B.d2 := by
  by_cases hc : E.d2 ≠ B.d1 ∨ W.d0 ≠ B.d0 ∨ W.d2 ≠ E.d1 ∨ A.d0 ≠ W.d1 ∨ A.d1 ≠ E.d0
  · unfold Op.opStepLeft at h
    rw [if_pos hc] at h
    simp [throw, throwThe, MonadExceptOf.throw, bind, Except.bind] at h
  · simp only [not_or, not_not] at hc
    obtain ⟨c1, c2, c3, c4, c5⟩ := hc
    obtain ⟨T', hT', s0, s1, s2, hf⟩ := Env.opStepLeft_ok A B W E c1 c2 c3 c4 c5
    have e : T' = T := Except.ok.inj (hT'.symm.trans h)
    subst e
    refine ⟨?_, s0, s1, s2⟩
    intro b w' b' hb hw' hb' hne
    rw [s0] at hb; rw [s1] at hw'; rw [s2] at hb'
    rw [hf b w' b' hb hw' hb'] at hne
    obtain ⟨s, hs, hne⟩ := Finset.exists_ne_zero_of_sum_ne_zero hne
    obtain ⟨a, ha, hne⟩ := Finset.exists_ne_zero_of_sum_ne_zero hne
    have hs := Finset.mem_range.1 hs
    have ha := Finset.mem_range.1 ha
    have hAne : A.f s a b ≠ 0 := fun h0 => hne (by rw [h0, zero_mul])
    have h2 : (∑ s' ∈ range W.d0, ∑ w ∈ range W.d2, W.f s' s w w' *
        ∑ a' ∈ range B.d1, E.f a w a' * star (B.f s' a' b')) ≠ 0 := fun h0 => hne (by rw [h0, mul_zero])
    obtain ⟨s', hs', h2⟩ := Finset.exists_ne_zero_of_sum_ne_zero h2
    obtain ⟨w, hw, h2⟩ := Finset.exists_ne_zero_of_sum_ne_zero h2
    have hs' := Finset.mem_range.1 hs'
    have hw := Finset.mem_range.1 hw
    have hWne : W.f s' s w w' ≠ 0 := fun h0 => h2 (by rw [h0, zero_mul])
    have h3 : (∑ a' ∈ range B.d1, E.f a w a' * star (B.f s' a' b')) ≠ 0 := fun h0 => h2 (by rw [h0, mul_zero])
    obtain ⟨a', ha', h3⟩ := Finset.exists_ne_zero_of_sum_ne_zero h3
    have ha' := Finset.mem_range.1 ha'
    have hEne : E.f a w a' ≠ 0 := fun h0 => h3 (by rw [h0, zero_mul])
    have hBne : B.f s' a' b' ≠ 0 := fun h0 => h3 (by rw [h0, star_zero, mul_zero])
    have e1 := hA s a b hs ha hb hAne
    have e2 := hB s' a' b' (by omega) ha' hb' hBne
    have e3 := hW s' s w w' hs' (by omega) hw hw' hWne
    have e4 := hE a w a' (by omega) (by omega) (by omega) hEne
    omega

/-- **right step**: `BR[i-1] = step_right(A, A, W, BR[i])` is block sparse w.r.t. `(qa, qw)` -/
theorem opStepRight_sparse {A B : T3 𝕜} {W : T4 𝕜} {E T : T3 𝕜} {qd qa qb qw qw' : List Int}
    (h : Op.opStepRight A B W E = .ok T) (hA : SparseT3 A qd qa qb) (hB : SparseT3 B qd qa qb)
    (hW : SparseT4 W qd qw qw') (hE : BlockSparse E qb qw') :
    BlockSparse T qa qw ∧ T.d0 = A.d1 ∧ T.d1 = W.d2 ∧ T.d2 = B.d1 := by
  by_cases hc : A.d2 ≠ E.d0 ∨ W.d1 ≠ A.d0 ∨ W.d3 ≠ E.d1 ∨ W.d0 ≠ B.d0 ∨ E.d2 ≠ B.d2
  · unfold Op.opStepRight at h
    rw [if_pos hc] at h
    simp [throw, throwThe, MonadExceptOf.throw, bind, Except.bind] at h
  · simp only [not_or, not_not] at hc
    obtain ⟨c1, c2, c3, c4, c5⟩ := hc
    obtain ⟨T', hT', s0, s1, s2, hf⟩ := Env.opStepRight_ok A B W E c1 c2 c3 c4 c5
    have e : T' = T := Except.ok.inj (hT'.symm.trans h)
    subst e
    refine ⟨?_, s0, s1, s2⟩
    intro a w a' ha hw ha' hne
    rw [s0] at ha; rw [s1] at hw; rw [s2] at ha'
    rw [hf a w a' ha hw ha'] at hne
    obtain ⟨s', hs', hne⟩ := Finset.exists_ne_zero_of_sum_ne_zero hne
    obtain ⟨b', hb', hne⟩ := Finset.exists_ne_zero_of_sum_ne_zero hne
    have hs' := Finset.mem_range.1 hs'
    have hb' := Finset.mem_range.1 hb'
    have hBne : B.f s' a' b' ≠ 0 := fun h0 => hne (by rw [h0, star_zero, mul_zero])
    have h2 : (∑ s ∈ range W.d1, ∑ w' ∈ range W.d3, W.f s' s w w' * ∑ b ∈ range A.d2, A.f s a b * E.f b w' b') ≠ 0 :=
      fun h0 => hne (by rw [h0, zero_mul])
    obtain ⟨s, hs, h2⟩ := Finset.exists_ne_zero_of_sum_ne_zero h2
    obtain ⟨w', hw', h2⟩ := Finset.exists_ne_zero_of_sum_ne_zero h2
    have hs := Finset.mem_range.1 hs
    have hw' := Finset.mem_range.1 hw'
    have hWne : W.f s' s w w' ≠ 0 := fun h0 => h2 (by rw [h0, zero_mul])
    have h3 : (∑ b ∈ range A.d2, A.f s a b * E.f b w' b') ≠ 0 := fun h0 => h2 (by rw [h0, mul_zero])
    obtain ⟨b, hb, h3⟩ := Finset.exists_ne_zero_of_sum_ne_zero h3
    have hb := Finset.mem_range.1 hb
    have hAne : A.f s a b ≠ 0 := fun h0 => h3 (by rw [h0, zero_mul])
    have hEne : E.f b w' b' ≠ 0 := fun h0 => h3 (by rw [h0, mul_zero])
    have e1 := hA s a b (by omega) ha hb hAne
    have e2 := hB s' a' b' (by omega) ha' hb' hBne
    have e3 := hW s' s w w' hs' hs hw hw' hWne
    have e4 := hE b w' b' (by omega) (by omega) (by omega) hEne
    omega

end Ptn.HistWf

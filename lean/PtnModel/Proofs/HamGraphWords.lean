import PtnModel.Props.C05
import PtnModel.Props.C17
import PtnModel.Proofs.HamIsing
import PtnModel.Proofs.HamModels3
import PtnModel.Proofs.HamSparse
/-!
# The graphs compiled for the lattice models denote the documented sums

Combination of the word theorems of the constructors (`*_words`, `ising_denF_sum`) with the semantics of the graph
compilers proved for C05 (`from_opchains_sem`) and C17 (`automaton_sem`): whenever a constructor returns, the operator
graph it hands to `MPO.from_opgraph` has, for every word, exactly the coefficient of that word in the documented sum of
local terms.
-/
set_option linter.unusedSectionVars false

namespace Ptn.Ham
open Ptn Ptn.Og List

variable {κ : Type} [CommRing κ] [DecidableEq κ]

/-- coefficient of a word in a raw formal sum -/
def coeffIn (s : Sym κ) (w : Word) : κ := (s.map fun p => if p.1 = w then p.2 else 0).sum

theorem chainsDen_eq_coeffIn (chains : List (OpChain κ)) (L id : Int) (w : Word) :
    Ptn.Ch.chainsDen chains L id w = coeffIn (denChainsRaw chains L id) w := by
  simp [Ptn.Ch.chainsDen, coeffIn, denChainsRaw, List.map_map, Function.comp_def]

/-- **chain-template models**: the compiled graph denotes the sum of the translated, identity-padded templates -/
theorem lattice_graph_den (lat : Ham.Lattice κ) (L : Int) (b : Built κ) (h : localOpchainsToMpo lat L = .ok b) (hL : 1 ≤ L)
    (w : Word) :
    b.graph.denF w = coeffIn (denChainsRaw (translateChains lat.lopchains L) L lat.oidIdentity) w := by
  unfold localOpchainsToMpo at h
  obtain ⟨g, hg, h⟩ := bind_ok h
  obtain ⟨m, _, h⟩ := bind_ok h
  simp only [pure, Except.pure, Except.ok.injEq] at h
  subst h
  rw [← chainsDen_eq_coeffIn]
  apply Ptn.C05.from_opchains_sem _ _ _ _ hg hL
  intro c hc _
  obtain ⟨t, _, i, h0, _, rfl⟩ := mem_translateChains.1 hc
  exact h0

theorem isingAut_wf (J h g : κ) : Ptn.C17.AutWellFormed (isingAut J h g) := by
  refine ⟨?_, ?_, ?_, isingAut_consistent J h g⟩
  · show ([0, 1, 2] : List Int).Nodup
    decide
  · show ([0, 1, 2, 3, 4, 5] : List Int).Nodup
    decide
  · intro p hp
    simp only [isingAut, List.mem_cons, List.not_mem_nil, or_false] at hp
    rcases hp with rfl | rfl | rfl <;> exact ⟨by decide, by decide⟩

/-- **Ising**: the graph unrolled from the automaton denotes `Σ_i J Z_i Z_{i+1} + h Z_i + g X_i` on `L` sites -/
theorem ising_graph_den (L : Int) (J h g : κ) (b : Built κ) (hb : isingBuild L J h g = .ok b) (w : Word)
    (hw : (w.length : Int) = L) : b.graph.denF w = isingSum J h g w := by
  unfold isingBuild at hb
  rw [isingAutomaton_eq] at hb
  obtain ⟨a, ha, hb⟩ := bind_ok hb
  simp only [Except.ok.injEq] at ha
  subst ha
  obtain ⟨gr, hgr, hb⟩ := bind_ok hb
  obtain ⟨m, _, hb⟩ := bind_ok hb
  simp only [pure, Except.pure, Except.ok.injEq] at hb
  subst hb
  rw [Ptn.C17.automaton_sem (isingAut_wf J h g) hgr w hw, ising_denF_sum]

end Ptn.Ham

import PtnModel.Proofs.HistQr
/-!
# C02: `MPS.orthonormalize` keeps well-formedness (every kernel with the shape clause, no positivity assumptions)

A successful run re-checks the input of every local block QR (`assert is_qsparse(...)` inside `qr`), so the new
tensors are the reshaped `Q` factors, block sparse w.r.t. the new bond charges by C11 (`qr_facts`).

* `WfC qd qL As qs`       : recursive form of `MPS.wellFormed` (no positivity), `wellFormed_iff_wfC`;
* `localLeft_facts`       : one local step: `A'` is well-formed w.r.t. `(qd, qL, qb)`, dimensions of `R · Anext`;
* `sweepLeft_wfC`         : the swept chain is well-formed;
* `ortho_mps_wf`          : both modes (right mode = left sweep of the mirrored chain).
-/
set_option linter.unusedSectionVars false
namespace Ptn.HistWf
open Ptn.Hist Ptn.Ortho Ptn.BondOps Ptn.Dense
variable {𝕜 : Type} [CommRing 𝕜] [DecidableEq 𝕜]
variable {dqr : Mat 𝕜 → Mat 𝕜 × Mat 𝕜}

/-! ## recursive well-formedness -/

def WfC (qd : List Int) : List Int → List (T3 𝕜) → List (List Int) → Prop
  | _, [], [] => True
  | qL, A :: As, qR :: qs => T3Wf A qd qL qR ∧ WfC qd qR As qs
  | _, _, _ => False

@[simp] theorem wfC_nil (qd qL : List Int) : WfC (𝕜 := 𝕜) qd qL [] [] ↔ True := by simp [WfC]
@[simp] theorem wfC_cons (qd qL : List Int) (A : T3 𝕜) (As : List (T3 𝕜)) (qR : List Int) (qs : List (List Int)) :
    WfC qd qL (A :: As) (qR :: qs) ↔ T3Wf A qd qL qR ∧ WfC qd qR As qs := by simp [WfC]
@[simp] theorem wfC_nil_cons (qd qL qR : List Int) (qs : List (List Int)) :
    ¬ WfC (𝕜 := 𝕜) qd qL [] (qR :: qs) := by simp [WfC]
@[simp] theorem wfC_cons_nil (qd qL : List Int) (A : T3 𝕜) (As : List (T3 𝕜)) :
    ¬ WfC qd qL (A :: As) [] := by simp [WfC]

theorem wellFormed_iff_wfC (qd q0 : List Int) : ∀ (As : List (T3 𝕜)) (qs : List (List Int)),
    (⟨qd, q0 :: qs, As⟩ : MPS 𝕜).wellFormed = true ↔ WfC qd q0 As qs
  | [], [] => by simp [wellFormed_iff_idx]
  | [], _ :: _ => by simp [wellFormed_iff_idx]
  | _ :: _, [] => by simp [wellFormed_iff_idx]
  | A :: As, qR :: qs => by
    rw [wfC_cons, ← wellFormed_iff_wfC qd qR As qs, wellFormed_iff_idx, wellFormed_iff_idx]
    simp only [List.length_cons]
    constructor
    · rintro ⟨hl, h⟩
      refine ⟨?_, by omega, fun i hi => ?_⟩
      · simpa using h 0 (by omega)
      · have := h (i + 1) (by omega)
        simp only [List.getElem_cons_succ] at this
        simpa using this
    · rintro ⟨h0, hl, h⟩
      refine ⟨by omega, fun i hi => ?_⟩
      match i with
      | 0 => simpa using h0
      | i + 1 =>
        simp only [List.getElem_cons_succ]
        simpa using h i (by omega)

theorem wfC_d0 {qd : List Int} : ∀ {qL : List Int} {As : List (T3 𝕜)} {qs : List (List Int)},
    WfC qd qL As qs → ∀ X ∈ As, X.d0 = qd.length
  | _, [], [], _ => by simp
  | _, [], _ :: _, h => by simp at h
  | _, _ :: _, [], h => by simp at h
  | _, A :: As, qR :: qs, h => by
    rw [wfC_cons] at h
    intro X hX
    rcases List.mem_cons.1 hX with rfl | hX
    · exact h.1.d0
    · exact wfC_d0 h.2 X hX

theorem wfC_length {qd : List Int} : ∀ {qL : List Int} {As : List (T3 𝕜)} {qs : List (List Int)},
    WfC qd qL As qs → qs.length = As.length
  | _, [], [], _ => rfl
  | _, [], _ :: _, h => by simp at h
  | _, _ :: _, [], h => by simp at h
  | _, A :: As, qR :: qs, h => by
    rw [wfC_cons] at h
    simp [wfC_length h.2]

theorem t3wf_neg {A : T3 𝕜} {qd qa qb : List Int} (h : T3Wf A qd qa qb) : T3Wf (MPS.negT3 A) qd qa qb :=
  ⟨h.d0, h.d1, h.d2, fun s a b hs ha hb hne => h.sp s a b hs ha hb (fun h0 => hne (by
    show -(A.f s a b) = 0
    rw [h0, neg_zero]))⟩

theorem wfC_negLast {qd : List Int} : ∀ {qL : List Int} {As : List (T3 𝕜)} {qs : List (List Int)},
    WfC qd qL As qs → WfC qd qL (negLast As) qs
  | _, [], [], _ => by simp [negLast]
  | _, [], _ :: _, h => by simp at h
  | _, _ :: _, [], h => by simp at h
  | _, [A], [qR], h => by
    simp only [wfC_cons, wfC_nil, and_true, negLast] at h ⊢
    exact t3wf_neg h
  | _, [A], _ :: _ :: _, h => by simp at h
  | _, A :: B :: As, [qR], h => by simp at h
  | _, A :: B :: As, qR :: qR' :: qs, h => by
    rw [wfC_cons] at h
    simp only [negLast]
    rw [wfC_cons]
    exact ⟨h.1, wfC_negLast h.2⟩

theorem negLast_map_swap' : ∀ (As : List (T3 𝕜)), (negLast As).map T3.swap12 = negLast (As.map T3.swap12)
  | [] => rfl
  | [A] => rfl
  | A :: B :: As => by
    have := negLast_map_swap' (B :: As)
    simp only [negLast, List.map_cons] at this ⊢
    rw [this]

/-! ## one local step -/

structure LocalFacts (A Anext A' Anext' : T3 𝕜) (qd qL qR qb : List Int) : Prop where
  wfA : T3Wf A' qd qL qb
  pos : 0 < qb.length
  d0 : Anext'.d0 = Anext.d0
  d1 : Anext'.d1 = qb.length
  d2 : Anext'.d2 = Anext.d2
  dummy : intersect1d (QN.flatten2 qd qL) qR = [] → qb = (QN.flatten2 qd qL).take 1

theorem localLeft_facts {A Anext A' Anext' : T3 𝕜} {qd qL qR qb : List Int}
    (h : LocalLeft dqr A Anext qd qL qR A' Anext' qb) (hshape : ∀ B, ShapeAt dqr B)
    (h0 : A.d0 = qd.length) (h1 : A.d1 = qL.length) : LocalFacts A Anext A' Anext' qd qL qR qb := by
  obtain ⟨Q, R, hrun, hRn, hA', hN'⟩ := h
  have hf := qr_facts hshape hrun
  have hm : Q.m = qd.length * qL.length := by rw [hf.Qm, ← h0, ← h1]; rfl
  refine ⟨?_, hf.pos, hN'.d0, hN'.d1.trans hf.Rm, hN'.d2, hf.dummy⟩
  rw [h0, h1] at hA'
  exact T3Wf.congr hA' (sparseT3_ofFlattenLeft hm hf.Qn hf.sparseQ)

/-! ## the sweep -/

theorem sweepLeft_wfC {qd : List Int} {A : T3 𝕜} {qL : List Int} {rest : List (T3 𝕜)} {qRs : List (List Int)}
    {As : List (T3 𝕜)} {qs : List (List Int)} {T : T3 𝕜}
    (h : SweepLeft dqr qd A qL rest qRs As qs T) (hshape : ∀ B, ShapeAt dqr B)
    (h0 : A.d0 = qd.length) (h1 : A.d1 = qL.length) (hr : ∀ X ∈ rest, X.d0 = qd.length) :
    WfC qd qL As qs := by
  induction h with
  | @last A X qL qR A' T qb hX hloc =>
    have hf := localLeft_facts hloc hshape h0 h1
    simp only [wfC_cons, wfC_nil, and_true]
    exact hf.wfA
  | @cons A Anext qL qR rest qRest A' Anext' qb As qs T hloc hsw ih =>
    have hf := localLeft_facts hloc hshape h0 h1
    rw [wfC_cons]
    refine ⟨hf.wfA, ih ?_ hf.d1 (fun X hX => hr X (List.mem_cons_of_mem _ hX))⟩
    rw [hf.d0]
    exact hr Anext List.mem_cons_self

/-! ## `MPS.orthonormalize` -/

variable {ρ : Type} [RealLike ρ 𝕜] [OfNat ρ 0] [OfNat ρ 1] [Neg ρ] [LT ρ] [DecidableLT ρ]

theorem ortho_mps_left_wf (hshape : ∀ B, ShapeAt dqr B) {ψ ψ' : MPS 𝕜} {nrm : ρ} (w : ψ.wellFormed = true)
    (h : MPS.orthonormalize dqr ψ true = .ok (ψ', nrm)) : ψ'.wellFormed = true := by
  obtain ⟨qd, qD, A⟩ := ψ
  cases A with
  | nil =>
    simp only [MPS.orthonormalize, Except.ok.injEq, Prod.mk.injEq] at h
    rw [← h.1]; exact w
  | cons A0 rest =>
    cases qD with
    | nil => simp [MPS.orthonormalize] at h
    | cons q0 qrest =>
      rw [ortho_left_eq] at h
      cases hs : MPS.sweepLeftQr dqr qd A0 q0 rest qrest with
      | error e => rw [hs] at h; cases h
      | ok r =>
        obtain ⟨As, qs, T⟩ := r
        rw [hs] at h
        dsimp only at h
        rw [wellFormed_iff_wfC] at w
        have hw : WfC qd q0 As qs := by
          cases qrest with
          | nil => simp at w
          | cons qR qrest' =>
            rw [wfC_cons] at w
            exact sweepLeft_wfC (sweepLeft_of_run hs) hshape w.1.d0 w.1.d1 (wfC_d0 w.2)
        split at h
        · split at h
          · injection h with h; injection h with h _
            rw [← h, wellFormed_iff_wfC]
            exact wfC_negLast hw
          · injection h with h; injection h with h _
            rw [← h, wellFormed_iff_wfC]
            exact hw
        · cases h

theorem wellFormed_of_mirror {ψ : MPS 𝕜} (h : (mirror ψ).wellFormed = true) : ψ.wellFormed = true := by
  rw [← mirror_mirror ψ]; exact wellFormed_mirror h

theorem ortho_mps_right_wf (hshape : ∀ B, ShapeAt dqr B) {ψ ψ' : MPS 𝕜} {nrm : ρ} (w : ψ.wellFormed = true)
    (h : MPS.orthonormalize dqr ψ false = .ok (ψ', nrm)) : ψ'.wellFormed = true := by
  have wm := wellFormed_mirror w
  obtain ⟨qd, qD, A⟩ := ψ
  cases A with
  | nil =>
    simp only [MPS.orthonormalize, Except.ok.injEq, Prod.mk.injEq] at h
    rw [← h.1]; exact w
  | cons A0 rest =>
    cases hAr : (A0 :: rest).reverse with
    | nil => simp at hAr
    | cons Al rrest =>
      cases hqr : qD.reverse with
      | nil =>
        simp only [MPS.orthonormalize, hAr, hqr] at h
        simp at h
      | cons ql qrrest =>
        rw [ortho_right_eq qd A0 rest qD hAr hqr] at h
        cases hs : MPS.sweepRightQr dqr qd Al ql rrest qrrest with
        | error e => rw [hs] at h; cases h
        | ok r =>
          obtain ⟨As, qs, T⟩ := r
          rw [hs] at h
          dsimp only at h
          have wm' : WfC qd (QN.neg ql) (Al.swap12 :: rrest.map T3.swap12) (qrrest.map QN.neg) := by
            rw [← wellFormed_iff_wfC]
            simpa [mirror, hAr, hqr] using wm
          have hw : WfC qd (QN.neg ql) (As.map T3.swap12) (qs.map QN.neg) := by
            cases qrrest with
            | nil => simp at wm'
            | cons qL qrrest' =>
              rw [List.map_cons, wfC_cons] at wm'
              exact sweepLeft_wfC (sweepRight_of_run hs) hshape wm'.1.d0 wm'.1.d1 (wfC_d0 wm'.2)
          split at h
          · injection h with h; injection h with h _
            rw [← h]
            apply wellFormed_of_mirror
            simp only [mirror, List.reverse_reverse, List.map_cons]
            rw [wellFormed_iff_wfC]
            split
            · rw [negLast_map_swap']; exact wfC_negLast hw
            · exact hw
          · cases h

theorem ortho_mps_wf (hshape : ∀ B, ShapeAt dqr B) {ψ ψ' : MPS 𝕜} {nrm : ρ} {left : Bool} (w : ψ.wellFormed = true)
    (h : MPS.orthonormalize dqr ψ left = .ok (ψ', nrm)) : ψ'.wellFormed = true := by
  cases left with
  | true => exact ortho_mps_left_wf hshape w h
  | false => exact ortho_mps_right_wf hshape w h

end Ptn.HistWf

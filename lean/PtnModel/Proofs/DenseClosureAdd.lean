import PtnModel.Proofs.DenseClosure
/-!
# The results of `add_mps` and `add_mpo` are again `Shaped`
-/
namespace Ptn
open Finset Dense

set_option linter.unusedSectionVars false

namespace MPS
variable {R : Type} [CommRing R] [DecidableEq R]

/-- all fields of a successful `add` -/
theorem add_fields (ψ0 ψ1 : MPS R) (α : R) (r : MPS R) (h : MPS.add ψ0 ψ1 α = .ok r) :
    r.qd = ψ0.qd ∧ ψ0.A.length = ψ1.A.length ∧
    ((ψ0.A = [] ∧ r.A = []) ∨
     (∃ X Y, ψ0.A = [X] ∧ ψ1.A = [Y] ∧ r.qD = [ψ0.qD.getD 0 [], ψ0.qD.getD 1 []] ∧
        r.A = [(⟨X.d0, X.d1, X.d2, fun s a b => X.f s a b + α * Y.f s a b⟩ : T3 R).tab]) ∨
     (∃ X Xs Y Ys rest, ψ0.A = X :: Xs ∧ ψ1.A = Y :: Ys ∧ X.d1 = Y.d1 ∧
        r.qD = (List.range (ψ0.A.length + 1)).map (fun i =>
          if i = 0 ∨ i = ψ0.A.length then ψ0.qD.getD i [] else ψ0.qD.getD i [] ++ ψ1.qD.getD i []) ∧
        addInterior Xs Ys = .ok rest ∧ r.A = (catLast X (scaleT3 α Y)).tab :: rest)) := by
  unfold MPS.add at h
  simp only [pyAssert_bind] at h
  obtain ⟨h1, h2, h⟩ := h
  split at h
  · rw [pure_ok] at h
    subst h
    exact ⟨rfl, by simpa using h1, Or.inl ⟨by assumption, rfl⟩⟩
  · rename_i X Y hX hY
    simp only [pyAssert_bind] at h
    obtain ⟨_, _, h⟩ := h
    split at h
    · simp [throw_bind_ne] at h
    · simp only [pyAssert_bind, pure_ok] at h
      obtain ⟨_, rfl⟩ := h
      exact ⟨rfl, by simpa using h1, Or.inr (Or.inl ⟨X, Y, hX, hY, rfl, rfl⟩)⟩
  · rename_i X Xs Y Ys _ hX hY
    simp only [pyAssert_bind] at h
    obtain ⟨_, _, h⟩ := h
    split at h
    · simp [throw_bind_ne] at h
    · rename_i hne
      simp only [not_or, not_not] at hne
      simp only [bind_ok, pure_ok] at h
      obtain ⟨rest, hrest, _, _, rfl⟩ := h
      exact ⟨rfl, by simpa using h1, Or.inr (Or.inr ⟨X, Xs, Y, Ys, rest, hX, hY, hne.2, rfl, hrest, rfl⟩)⟩
  · simp [throw_ne] at h

theorem addInterior_chain (d : Nat) : ∀ (Xs Ys rest : List (T3 R)) (D0 D1 : Nat),
    addInterior Xs Ys = .ok rest → Chain d D0 Xs 1 → Chain d D1 Ys 1 → Chain d (D0 + D1) rest 1
  | [], _, _, _, _, h, _, _ => by simp [addInterior] at h
  | [X], [Y], rest, D0, D1, h, c0, c1 => by
      simp only [addInterior] at h
      split at h
      · simp only [Except.ok.injEq] at h
        subst h
        obtain ⟨x0, x1, x2⟩ := c0
        obtain ⟨y0, y1, y2⟩ := c1
        have x2 : X.d2 = 1 := x2
        subst x1 y1
        exact ⟨x0, rfl, x2⟩
      · simp at h
  | [_], [], _, _, _, h, _, _ => by simp [addInterior] at h
  | [X], Y :: Y' :: Ys, _, _, _, h, _, _ => by
      simp [addInterior, bind, Except.bind] at h
      split at h <;> simp at h
  | X :: X' :: Xs, [], _, _, _, h, _, _ => by simp [addInterior] at h
  | X :: X' :: Xs, Y :: Ys, rest, D0, D1, h, c0, c1 => by
      simp only [addInterior] at h
      split at h
      · simp [throw_bind_ne] at h
      · simp only [bind_ok, pure_ok] at h
        obtain ⟨r', hr', rfl⟩ := h
        obtain ⟨x0, x1, x2⟩ := c0
        obtain ⟨y0, y1, y2⟩ := c1
        subst x1 y1
        exact ⟨x0, rfl, addInterior_chain d (X' :: Xs) Ys r' X.d2 Y.d2 hr' x2 y2⟩

/-- the sum of two shaped MPS is shaped -/
theorem add_shaped (ψ0 ψ1 r : MPS R) (α : R) (d : Nat) (h0 : Shaped ψ0 d) (h1 : Shaped ψ1 d)
    (h : MPS.add ψ0 ψ1 α = .ok r) : Shaped r d := by
  obtain ⟨hqd, hlen, hA⟩ := add_fields ψ0 ψ1 α r h
  obtain ⟨l0, s0⟩ := (dimsMatch_iff d _ _).1 h0.dims
  obtain ⟨l1, s1⟩ := (dimsMatch_iff d _ _).1 h1.dims
  have c0 := h0.chain
  have c1 := h1.chain
  rcases hA with ⟨hn, _⟩ | ⟨X, Y, hX, hY, hqD, hr⟩ | ⟨X, Xs, Y, Ys, rest, hX, hY, e1, hqD, hrest, hr⟩
  · exact absurd hn h0.nonempty
  · rw [hX] at c0 s0
    obtain ⟨x0, x1, x2⟩ := c0
    have x2 : X.d2 = 1 := x2
    obtain ⟨_, a1, a2⟩ := s0 0 X rfl
    refine ⟨by rw [hqd]; exact h0.qd_len, by rw [hr]; simp, by rw [hr]; exact ⟨x0, x1, x2⟩, ?_⟩
    rw [hr, hqD]
    exact ⟨x0, a1, a2, trivial⟩
  · rw [hX] at c0 s0 l0
    rw [hY] at c1 s1 l1
    obtain ⟨x0, x1, x2⟩ := c0
    obtain ⟨y0, y1, y2⟩ := c1
    have hch := addInterior_chain d Xs Ys rest X.d2 Y.d2 hrest x2 y2
    obtain ⟨rl, rget⟩ := addInterior_get _ _ _ hrest
    have hlen' : Xs.length = Ys.length := by rw [hX, hY] at hlen; simpa using hlen
    have hXs : Xs ≠ [] := by
      intro hn; subst hn; simp [addInterior] at hrest
    have hL : 2 ≤ ψ0.A.length := by
      rw [hX]; cases Xs with
      | nil => exact absurd rfl hXs
      | cons _ _ => simp
    refine ⟨by rw [hqd]; exact h0.qd_len, by rw [hr]; simp, by rw [hr]; exact ⟨x0, x1, hch⟩, ?_⟩
    rw [dimsMatch_iff, hr, hqD]
    refine ⟨by simp [rl, hX], ?_⟩
    intro i Z hZ
    have hi : i < ψ0.A.length := by
      have := MPO.getElem?_lt hZ
      rw [hX]; simpa [rl] using this
    rw [getD_map_range _ _ i (by omega), getD_map_range _ _ (i + 1) (by omega)]
    match i with
    | 0 =>
      simp only [List.getElem?_cons_zero, Option.some.injEq] at hZ
      subst hZ
      obtain ⟨_, a1, a2⟩ := s0 0 X rfl
      obtain ⟨_, b1, b2⟩ := s1 0 Y rfl
      have c2 : ¬(0 + 1 = 0 ∨ 0 + 1 = ψ0.A.length) := by omega
      rw [if_pos (Or.inl rfl), if_neg c2]
      simp only [T3.tab_d0, T3.tab_d1, T3.tab_d2, catLast, scaleT3, List.length_append]
      exact ⟨x0, a1, by rw [a2, b2]⟩
    | j + 1 =>
      simp only [List.getElem?_cons_succ] at hZ
      have hj : j < Xs.length := rl ▸ MPO.getElem?_lt hZ
      obtain ⟨A, hA⟩ : ∃ A, Xs[j]? = some A := ⟨_, List.getElem?_eq_getElem hj⟩
      obtain ⟨B, hB⟩ : ∃ B, Ys[j]? = some B := ⟨_, List.getElem?_eq_getElem (hlen' ▸ hj)⟩
      obtain ⟨a0, a1, a2⟩ := s0 (j + 1) A (by simpa using hA)
      obtain ⟨b0, b1, b2⟩ := s1 (j + 1) B (by simpa using hB)
      rw [rget j A B hA hB] at hZ
      simp only [Option.some.injEq] at hZ
      subst hZ
      have hLX : ψ0.A.length = Xs.length + 1 := by rw [hX]; simp
      have c1' : ¬(j + 1 = 0 ∨ j + 1 = ψ0.A.length) := by omega
      rw [if_neg c1']
      by_cases hlast : j + 1 = Xs.length
      · have hJ : j + 1 + 1 = ψ0.A.length := by omega
        rw [if_pos hlast, if_pos (Or.inr hJ)]
        simp only [T3.tab_d0, T3.tab_d1, T3.tab_d2, catMid, List.length_append]
        exact ⟨a0, by rw [a1, b1], a2⟩
      · have c2 : ¬(j + 1 + 1 = 0 ∨ j + 1 + 1 = ψ0.A.length) := by omega
        rw [if_neg hlast, if_neg c2]
        simp only [T3.tab_d0, T3.tab_d1, T3.tab_d2, blockDiag, List.length_append]
        exact ⟨a0, by rw [a1, b1], by rw [a2, b2]⟩

end MPS

namespace MPO
variable {R : Type} [CommRing R] [DecidableEq R]

/-- all fields of a successful `add` -/
theorem add_fields (o0 o1 : MPO R) (α : R) (r : MPO R) (h : MPO.add o0 o1 α = .ok r) :
    r.qd = o0.qd ∧ o0.A.length = o1.A.length ∧
    ((o0.A = [] ∧ r.A = []) ∨
     (∃ X Y, o0.A = [X] ∧ o1.A = [Y] ∧ r.qD = [o0.qD.getD 0 [], o0.qD.getD 1 []] ∧
        r.A = [(⟨X.d0, X.d1, X.d2, X.d3, fun s t a b => X.f s t a b + α * Y.f s t a b⟩ : T4 R).tab]) ∨
     (∃ X Xs Y Ys rest, o0.A = X :: Xs ∧ o1.A = Y :: Ys ∧
        r.qD = (List.range (o0.A.length + 1)).map (fun i =>
          if i = 0 ∨ i = o0.A.length then o0.qD.getD i [] else o0.qD.getD i [] ++ o1.qD.getD i []) ∧
        addInterior Xs Ys = .ok rest ∧ r.A = (catLast X (scaleT4 α Y)).tab :: rest)) := by
  unfold MPO.add at h
  simp only [pyAssert_bind] at h
  obtain ⟨h1, h2, h⟩ := h
  split at h
  · rw [pure_ok] at h
    subst h
    exact ⟨rfl, by simpa using h1, Or.inl ⟨by assumption, rfl⟩⟩
  · rename_i X Y hX hY
    simp only [pyAssert_bind] at h
    obtain ⟨_, _, h⟩ := h
    split at h
    · simp [throw_bind_ne] at h
    · simp only [pyAssert_bind, pure_ok] at h
      obtain ⟨_, rfl⟩ := h
      exact ⟨rfl, by simpa using h1, Or.inr (Or.inl ⟨X, Y, hX, hY, rfl, rfl⟩)⟩
  · rename_i X Xs Y Ys _ hX hY
    simp only [pyAssert_bind] at h
    obtain ⟨_, _, h⟩ := h
    split at h
    · simp [throw_bind_ne] at h
    · simp only [bind_ok, pure_ok] at h
      obtain ⟨rest, hrest, _, _, rfl⟩ := h
      exact ⟨rfl, by simpa using h1, Or.inr (Or.inr ⟨X, Xs, Y, Ys, rest, hX, hY, rfl, hrest, rfl⟩)⟩
  · simp [throw_ne] at h

theorem addInterior_chain (d : Nat) : ∀ (Xs Ys rest : List (T4 R)) (D0 D1 : Nat),
    addInterior Xs Ys = .ok rest → Chain d D0 Xs 1 → Chain d D1 Ys 1 → Chain d (D0 + D1) rest 1
  | [], _, _, _, _, h, _, _ => by simp [addInterior] at h
  | [X], [Y], rest, D0, D1, h, c0, c1 => by
      simp only [addInterior] at h
      split at h
      · simp only [Except.ok.injEq] at h
        subst h
        obtain ⟨x0, x1, x2, x3⟩ := c0
        obtain ⟨y0, y1, y2, y3⟩ := c1
        have x3 : X.d3 = 1 := x3
        subst x2 y2
        exact ⟨x0, x1, rfl, x3⟩
      · simp at h
  | [_], [], _, _, _, h, _, _ => by simp [addInterior] at h
  | [X], Y :: Y' :: Ys, _, _, _, h, _, _ => by
      simp [addInterior, bind, Except.bind] at h
      split at h <;> simp at h
  | X :: X' :: Xs, [], _, _, _, h, _, _ => by simp [addInterior] at h
  | X :: X' :: Xs, Y :: Ys, rest, D0, D1, h, c0, c1 => by
      simp only [addInterior] at h
      split at h
      · simp [throw_bind_ne] at h
      · simp only [bind_ok, pure_ok] at h
        obtain ⟨r', hr', rfl⟩ := h
        obtain ⟨x0, x1, x2, x3⟩ := c0
        obtain ⟨y0, y1, y2, y3⟩ := c1
        subst x2 y2
        exact ⟨x0, x1, rfl, addInterior_chain d (X' :: Xs) Ys r' X.d3 Y.d3 hr' x3 y3⟩

/-- the sum of two shaped MPOs is shaped -/
theorem add_shaped (o0 o1 r : MPO R) (α : R) (d : Nat) (h0 : Shaped o0 d) (h1 : Shaped o1 d)
    (h : MPO.add o0 o1 α = .ok r) : Shaped r d := by
  obtain ⟨hqd, hlen, hA⟩ := add_fields o0 o1 α r h
  obtain ⟨l0, s0⟩ := (dimsMatch_iff d _ _).1 h0.dims
  obtain ⟨l1, s1⟩ := (dimsMatch_iff d _ _).1 h1.dims
  have c0 := h0.chain
  have c1 := h1.chain
  rcases hA with ⟨hn, _⟩ | ⟨X, Y, hX, hY, hqD, hr⟩ | ⟨X, Xs, Y, Ys, rest, hX, hY, hqD, hrest, hr⟩
  · exact absurd hn h0.nonempty
  · rw [hX] at c0 s0
    obtain ⟨x0, x1, x2, x3⟩ := c0
    have x3 : X.d3 = 1 := x3
    obtain ⟨_, _, a2, a3⟩ := s0 0 X rfl
    refine ⟨by rw [hqd]; exact h0.qd_len, by rw [hr]; simp, by rw [hr]; exact ⟨x0, x1, x2, x3⟩, ?_⟩
    rw [hr, hqD]
    exact ⟨x0, x1, a2, a3, trivial⟩
  · rw [hX] at c0 s0 l0
    rw [hY] at c1 s1 l1
    obtain ⟨x0, x1, x2, x3⟩ := c0
    obtain ⟨y0, y1, y2, y3⟩ := c1
    have hch := addInterior_chain d Xs Ys rest X.d3 Y.d3 hrest x3 y3
    obtain ⟨rl, rget⟩ := addInterior_get _ _ _ hrest
    have hlen' : Xs.length = Ys.length := by rw [hX, hY] at hlen; simpa using hlen
    have hXs : Xs ≠ [] := by
      intro hn; subst hn; simp [addInterior] at hrest
    have hL : 2 ≤ o0.A.length := by
      rw [hX]; cases Xs with
      | nil => exact absurd rfl hXs
      | cons _ _ => simp
    refine ⟨by rw [hqd]; exact h0.qd_len, by rw [hr]; simp, by rw [hr]; exact ⟨x0, x1, x2, hch⟩, ?_⟩
    rw [dimsMatch_iff, hr, hqD]
    refine ⟨by simp [rl, hX], ?_⟩
    intro i Z hZ
    have hi : i < o0.A.length := by
      have := getElem?_lt hZ
      rw [hX]; simpa [rl] using this
    rw [MPS.getD_map_range _ _ i (by omega), MPS.getD_map_range _ _ (i + 1) (by omega)]
    match i with
    | 0 =>
      simp only [List.getElem?_cons_zero, Option.some.injEq] at hZ
      subst hZ
      obtain ⟨_, _, a2, a3⟩ := s0 0 X rfl
      obtain ⟨_, _, b2, b3⟩ := s1 0 Y rfl
      have c2 : ¬(0 + 1 = 0 ∨ 0 + 1 = o0.A.length) := by omega
      rw [if_pos (Or.inl rfl), if_neg c2]
      simp only [T4.tab_d0, T4.tab_d1, T4.tab_d2, T4.tab_d3, catLast, scaleT4, List.length_append]
      exact ⟨x0, x1, a2, by rw [a3, b3]⟩
    | j + 1 =>
      simp only [List.getElem?_cons_succ] at hZ
      have hj : j < Xs.length := rl ▸ getElem?_lt hZ
      obtain ⟨A, hA⟩ : ∃ A, Xs[j]? = some A := ⟨_, List.getElem?_eq_getElem hj⟩
      obtain ⟨B, hB⟩ : ∃ B, Ys[j]? = some B := ⟨_, List.getElem?_eq_getElem (hlen' ▸ hj)⟩
      obtain ⟨a0, a1, a2, a3⟩ := s0 (j + 1) A (by simpa using hA)
      obtain ⟨b0, b1, b2, b3⟩ := s1 (j + 1) B (by simpa using hB)
      rw [rget j A B hA hB] at hZ
      simp only [Option.some.injEq] at hZ
      subst hZ
      have hLX : o0.A.length = Xs.length + 1 := by rw [hX]; simp
      have c1' : ¬(j + 1 = 0 ∨ j + 1 = o0.A.length) := by omega
      rw [if_neg c1']
      by_cases hlast : j + 1 = Xs.length
      · have hJ : j + 1 + 1 = o0.A.length := by omega
        rw [if_pos hlast, if_pos (Or.inr hJ)]
        simp only [T4.tab_d0, T4.tab_d1, T4.tab_d2, T4.tab_d3, catMid, List.length_append]
        exact ⟨a0, a1, by rw [a2, b2], a3⟩
      · have c2 : ¬(j + 1 + 1 = 0 ∨ j + 1 + 1 = o0.A.length) := by omega
        rw [if_neg hlast, if_neg c2]
        simp only [T4.tab_d0, T4.tab_d1, T4.tab_d2, T4.tab_d3, blockDiag, List.length_append]
        exact ⟨a0, a1, by rw [a2, b2], by rw [a3, b3]⟩

end MPO

namespace Dense

theorem sumDigits_congr {M : Type} [AddCommMonoid M] (d : Nat) : ∀ (n : Nat) (f g : List Nat → M),
    (∀ u, Digits d n u → f u = g u) → sumDigits d n f = sumDigits d n g
  | 0, f, g, h => h [] ⟨rfl, by simp⟩
  | n + 1, f, g, h => by
      rw [MPO.sumDigits_succ, MPO.sumDigits_succ]
      apply sum_congr rfl
      intro u hu
      apply sumDigits_congr d n
      intro us hus
      apply h
      refine ⟨by simp [hus.1], ?_⟩
      intro x hx
      rcases List.mem_cons.1 hx with rfl | hx
      · exact mem_range.1 hu
      · exact hus.2 x hx

end Dense

namespace MPO
variable {R : Type} [CommRing R] [DecidableEq R]

theorem add_length (o0 o1 r : MPO R) (α : R) (h : MPO.add o0 o1 α = .ok r) : r.A.length = o0.A.length := by
  obtain ⟨_, _, hA⟩ := add_fields o0 o1 α r h
  rcases hA with ⟨hn, hr⟩ | ⟨X, Y, hX, hY, hqD, hr⟩ | ⟨X, Xs, Y, Ys, rest, hX, hY, hqD, hrest, hr⟩
  · rw [hn, hr]
  · rw [hX, hr]; rfl
  · rw [hX, hr]; simp [(addInterior_get _ _ _ hrest).1]

theorem multiply_length (o0 o1 r : MPO R) (h : MPO.multiply o0 o1 = .ok r) : r.A.length = o0.A.length :=
  (zipRel_length _ _ _ _ _ (multiply_A o0 o1 r h)).2

/-- chained expression `(o0 + α·o1) @ o2` applied to `ψ` -/
theorem chained_dense (o0 o1 o2 a m : MPO R) (ψ r : MPS R) (α : R) (d : Nat)
    (h0 : Shaped o0 d) (h1 : Shaped o1 d) (h2 : Shaped o2 d) (hψ : MPS.Shaped ψ d)
    (ha : MPO.add o0 o1 α = .ok a) (hm : MPO.multiply a o2 = .ok m) (hr : Op.applyOperator m ψ = .ok r)
    (s : List Nat) (hs : Digits d o0.A.length s) :
    r.amp s = sumDigits d o0.A.length (fun t =>
      sumDigits d o0.A.length (fun u => (o0.elem s u + α * o1.elem s u) * o2.elem u t) * ψ.amp t) := by
  have sa := add_shaped o0 o1 a α d h0 h1 ha
  have sm := multiply_shaped a o2 m d sa h2 hm
  have la := add_length o0 o1 a α ha
  have lm := multiply_length a o2 m hm
  rw [Op.apply_dense m ψ r d sm hψ hr s (by rw [lm, la]; exact hs), lm, la]
  apply sumDigits_congr
  intro t ht
  rw [mul_dense a o2 m d sa h2 hm s t (by rw [la]; exact hs) (by rw [la]; exact ht), la]
  congr 1
  apply sumDigits_congr
  intro u hu
  rw [add_dense o0 o1 a α d h0 h1 ha s u hs hu]

end MPO
end Ptn

import PtnModel.Proofs.SymDenseWord
import PtnModel.Proofs.TreeBridge
/-!
# Dense and symbolic meaning of a graph agree (`as_matrix` in both directions)
-/
set_option linter.unusedSectionVars false

namespace Ptn.Og
open List

variable {κ : Type} [CommRing κ] [DecidableEq κ]

/-- `Σ_(w,c) c · F w` -/
def symSum (F : Word → κ) (S : Sym κ) : κ := (S.map fun p => p.2 * F p.1).sum

theorem symSum_insert (F : Word → κ) (w : Word) (c : κ) (S : Sym κ) :
    symSum F (symInsert w c S) = c * F w + symSum F S := by
  induction S with
  | nil => simp [symInsert, symSum]
  | cons p S ih =>
    obtain ⟨v, d⟩ := p
    unfold symInsert
    by_cases h1 : w = v
    · subst h1
      simp only [if_true, symSum, map_cons, sum_cons]
      ring
    · simp only [h1, if_false]
      by_cases h2 : wordLt w v = true
      · simp only [h2, if_true, symSum, map_cons, sum_cons]
      · simp only [h2, Bool.false_eq_true, if_false]
        simp only [symSum, map_cons, sum_cons] at ih ⊢
        rw [ih]; ring

theorem symSum_collect (F : Word → κ) (S : Sym κ) : symSum F (symCollect S) = symSum F S := by
  unfold symCollect
  have : ∀ acc : Sym κ, symSum F (S.foldl (fun acc p => symInsert p.1 p.2 acc) acc) = symSum F acc + symSum F S := by
    induction S with
    | nil => intro acc; simp [symSum]
    | cons p S ih =>
      intro acc
      rw [foldl_cons, ih, symSum_insert]
      simp only [symSum, map_cons, sum_cons]
      ring
  rw [this []]
  simp [symSum]

/-- **normalisation does not change `Σ c · F w`** -/
theorem symSum_normalize (F : Word → κ) (S : Sym κ) : symSum F (symNormalize S) = symSum F S := by
  unfold symNormalize
  rw [← symSum_collect F S]
  generalize symCollect S = T
  induction T with
  | nil => rfl
  | cons p T ih =>
    rw [List.filter_cons]
    split
    · simp only [symSum, map_cons, sum_cons] at ih ⊢
      rw [ih]
    · rename_i h
      have h0 : p.2 = 0 := by simpa using h
      simp only [symSum, map_cons, sum_cons] at ih ⊢
      rw [ih, h0]; ring

theorem symCoeff_eq_symSum (S : Sym κ) (w : Word) : symCoeff S w = symSum (fun v => if v = w then 1 else 0) S := by
  rw [symCoeff_eq_sum]
  unfold symSum
  apply sum_map_congr
  intro p _
  by_cases h : p.1 = w <;> simp [h]

theorem symCoeff_normalize (S : Sym κ) (w : Word) : symCoeff (symNormalize S) w = symCoeff S w := by
  rw [symCoeff_eq_symSum, symSum_normalize, ← symCoeff_eq_symSum]

/-! ## the path enumeration of a graph -/

/-- the coefficient of a word in the forward path enumeration is the model's path sum -/
theorem pathsFrom_coeff (g : Graph κ) :
    ∀ (fuel : Nat) (x : Int) (w : Word), w.length < fuel →
      symCoeff (g.pathsFrom true fuel x) w = g.denFrom w x := by
  intro fuel
  induction fuel with
  | zero => intro x w h; omega
  | succ fuel ih =>
    intro x w hw
    unfold Graph.pathsFrom
    by_cases hx : x = g.term true
    · simp only [hx, if_true]
      cases w with
      | nil => simp [symCoeff, Graph.denFrom]
      | cons o w => simp [symCoeff, Graph.denFrom]
    · simp only [hx, if_false]
      cases hn : dGet? g.nodes x with
      | none =>
        cases w with
        | nil => simp [symCoeff, Graph.denFrom, hx]
        | cons o w => simp [symCoeff, Graph.denFrom, hx, hn]
      | some node =>
        simp only
        rw [symCoeff_flatMap]
        cases w with
        | nil =>
          simp only [Graph.denFrom, hx, if_false]
          apply sum_map_eq_zero
          intro eid _
          cases dGet? g.edges eid with
          | none => rfl
          | some e =>
            simp only
            rw [symCoeff_flatMap]
            apply sum_map_eq_zero
            intro p _
            simp only [if_true]
            exact symCoeff_map_cons_nil _ _ _
        | cons o w =>
          simp only [Graph.denFrom, hx, if_false, hn]
          rw [sumList_eq_sum]
          apply sum_map_congr
          intro eid _
          cases dGet? g.edges eid with
          | none => rfl
          | some e =>
            simp only
            rw [symCoeff_flatMap, sumList_eq_sum]
            apply sum_map_congr
            intro p _
            simp only [if_true]
            rw [symCoeff_map_cons, ih _ w (by simpa using hw)]
            simp [Edge.nid]

/-- the backward enumeration is the forward enumeration of the flipped graph with every word reversed -/
theorem pathsFrom_false_eq_flip (g : Graph κ) :
    ∀ (fuel : Nat) (x : Int),
      g.pathsFrom false fuel x = (g.flip.pathsFrom true fuel x).map fun p => (p.1.reverse, p.2) := by
  intro fuel
  induction fuel with
  | zero => intro x; simp [Graph.pathsFrom]
  | succ fuel ih =>
    intro x
    unfold Graph.pathsFrom
    rw [Graph.flip_term]
    simp only [Bool.not_true]
    by_cases hx : x = g.term false
    · simp [hx]
    · simp only [hx, if_false]
      rw [Graph.flip_getNode]
      cases dGet? g.nodes x with
      | none => simp
      | some node =>
        simp only [Option.map_some, Node.flip_eids, Bool.not_true]
        rw [map_flatMap]
        apply flatMap_congr
        intro eid _
        rw [Graph.flip_getEdge]
        cases dGet? g.edges eid with
        | none => simp
        | some e =>
          simp only [Option.map_some]
          rw [map_flatMap]
          show (e.opics.flatMap _) = (e.opics.flatMap _)
          apply flatMap_congr
          intro p _
          rw [Edge.flip_nid, Bool.not_true, ih, map_map, map_map]
          apply map_congr_left
          intro q _
          simp

theorem symCoeff_map_reverse (S : Sym κ) (w : Word) :
    symCoeff (S.map fun p => (p.1.reverse, p.2)) w = symCoeff S w.reverse := by
  rw [symCoeff_eq_sum, symCoeff_eq_sum, map_map]
  apply sum_map_congr
  intro p _
  simp only [Function.comp]
  by_cases h : p.1 = w.reverse
  · simp [h]
  · have : ¬ p.1.reverse = w := fun hc => h (by rw [← hc, reverse_reverse])
    simp [h, this]

/-- **Both enumerations of a valid graph have the model's path sums as coefficients** (words up to the number
of nodes, which bounds the length of every path of a consistent graph). -/
theorem denDir_coeff {g : Graph κ} (sv : SValid g) (dir : Bool) (w : Word) (hw : w.length ≤ g.nodes.length) :
    symCoeff (g.denDir dir) w = g.denF w := by
  unfold Graph.denDir
  rw [symCoeff_normalize]
  cases dir
  · rw [pathsFrom_false_eq_flip, symCoeff_map_reverse]
    have hlen : g.flip.nodes.length = g.nodes.length := by simp [Graph.flip]
    rw [pathsFrom_coeff g.flip _ _ _ (by simp only [length_reverse]; omega)]
    have : g.term (!false) = g.flip.term false := by rw [Graph.flip_term]
    rw [this]
    show g.flip.denF w.reverse = g.denF w
    rw [denF_flip sv, reverse_reverse]
  · rw [pathsFrom_coeff g _ _ _ (by omega)]
    rfl

/-- **Dense meaning of a graph** (`as_matrix(opmap, direction)` = dense meaning of the enumeration in that
direction): the `d^L × d^L` matrix with entries `Σ_(w,c) c · Π_k opmap[w_k][s_k, t_k]` over the normal form of
the path enumeration. -/
theorem denseOfSym_denDir {g : Graph κ} (dir : Bool) (opmap : OpMap κ) (d L : Nat)
    (hwords : ∀ p ∈ g.denDir dir, p.1.length = L ∧ OpMapOk opmap d p.1) :
    ∃ M, denseOfSym opmap (d ^ L) (g.denDir dir) = .ok M ∧ IsMat M (d ^ L) (d ^ L) ∧
      ∀ (s t : List Nat), IsDigits d L s → IsDigits d L t →
        M.entry (digIdx d s) (digIdx d t) = symSum (fun w => wordEntry opmap w s t) (g.denDir dir) := by
  obtain ⟨M, hM, hshape, hent⟩ := denseOfSym_spec opmap d L (g.denDir dir) hwords _ (zero_isMat _ _)
  refine ⟨M, hM, hshape, fun s t hs ht => ?_⟩
  rw [hent s t hs ht, zero_entry, zero_add]
  rfl

end Ptn.Og

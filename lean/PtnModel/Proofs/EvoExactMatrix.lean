import Mathlib.Analysis.Matrix.Spectrum
import Mathlib.Analysis.Normed.Algebra.MatrixExponential
import PtnModel.Proofs.EvoExactDefs
import PtnModel.Proofs.KryExpMatrix
/-!
# `DenseExp` is Mathlib's matrix exponential of the dense operator

* `DenseIdx d L`, `denseMatrix H d`, `denseVec d L ψ` : the dense operator of an MPO / a function on digit lists as a Mathlib
  matrix / vector over the index type `{σ // σ ∈ digitsU d L}`;
* `denseMatrix_isHermitian` : `C04.MPO.DenseHermitian` is `Matrix.IsHermitian` of the dense matrix;
* `dense_decomp_exists`     : spectral theorem — every dense vector is a combination of eigenvectors (real eigenvalues) of a
  Hermitian dense operator, so the hypothesis of `DenseExp` is never vacuous;
* `denseExp_matrix_exp`     : `DenseExp H d E g ψ φ` with `E = NormedSpace.exp` gives `φ = exp(g • H_dense) *ᵥ ψ`;
* `matrix_exp_denseExp`     : the converse.
-/
set_option linter.unusedSectionVars false

namespace Ptn.Evo
open Ptn Ptn.Env Ptn.Krylov Finset Matrix
open scoped Matrix.Norms.Operator

variable {𝕜 : Type} [RCLike 𝕜]

/-- index type of the dense state space -/
abbrev DenseIdx (d L : Nat) := {σ : List Nat // σ ∈ digitsU d L}

/-- the dense operator of `H` as a Mathlib matrix -/
def denseMatrix (H : MPO 𝕜) (d : Nat) : Matrix (DenseIdx d H.A.length) (DenseIdx d H.A.length) 𝕜 :=
  fun σ τ => H.elem σ.1 τ.1

/-- a function on digit lists as a dense vector -/
def denseVec (d L : Nat) (ψ : List Nat → 𝕜) : DenseIdx d L → 𝕜 := fun σ => ψ σ.1

variable {H : MPO 𝕜} {d : Nat}

theorem denseMatrix_isHermitian (hH : C04.MPO.DenseHermitian H d) : (denseMatrix H d).IsHermitian := by
  ext σ τ
  show star (H.elem τ.1 σ.1) = H.elem σ.1 τ.1
  exact (hH σ.1 σ.2 τ.1 τ.2).symm

/-! ## the spectral theorem, indexed by `range K` -/

/-- a sum over `range (card n)` of a function that factors through an enumeration of `n` -/
theorem sum_range_card {n : Type} [Fintype n] {M : Type} [AddCommMonoid M] (F : n → M) (G : Nat → M)
    (hG : ∀ (f : Nat) (h : f < Fintype.card n), G f = F ((Fintype.equivFin n).symm ⟨f, h⟩)) :
    ∑ f ∈ range (Fintype.card n), G f = ∑ j, F j := by
  rw [← Fin.sum_univ_eq_sum_range G (Fintype.card n), ← Equiv.sum_comp (Fintype.equivFin n).symm F]
  exact Finset.sum_congr rfl fun i _ => hG i i.isLt

/-- every vector is a combination of eigenvectors of a Hermitian matrix, with real eigenvalues -/
theorem herm_decomp {n : Type} [Fintype n] [DecidableEq n] {A : Matrix n n 𝕜} (hA : A.IsHermitian) (v : n → 𝕜) :
    ∃ (K : Nat) (μ : Nat → ℝ) (b : Nat → 𝕜) (u : Nat → n → 𝕜),
      (∀ f, f < K → A *ᵥ u f = ((μ f : ℝ) : 𝕜) • u f) ∧ v = ∑ f ∈ range K, b f • u f := by
  let e := Fintype.equivFin n
  refine ⟨Fintype.card n,
    fun f => if h : f < Fintype.card n then hA.eigenvalues (e.symm ⟨f, h⟩) else 0,
    fun f => if h : f < Fintype.card n then hA.eigenvectorBasis.repr (WithLp.toLp 2 v) (e.symm ⟨f, h⟩) else 0,
    fun f => if h : f < Fintype.card n then ⇑(hA.eigenvectorBasis (e.symm ⟨f, h⟩)) else 0, ?_, ?_⟩
  · intro f hf
    simp only [dif_pos hf]
    rw [hA.mulVec_eigenvectorBasis]
    exact RCLike.real_smul_eq_coe_smul (K := 𝕜) _ _
  · rw [sum_range_card (fun j => hA.eigenvectorBasis.repr (WithLp.toLp 2 v) j • ⇑(hA.eigenvectorBasis j)) _
      (fun f h => by simp only [dif_pos h]; rfl)]
    have := congrArg (WithLp.ofLp) (hA.eigenvectorBasis.sum_repr (WithLp.toLp 2 v))
    rw [WithLp.ofLp_sum] at this
    exact this.symm

/-! ## the dense operator -/

/-- extension of a dense vector by zero -/
def denseExt (d L : Nat) (u : DenseIdx d L → 𝕜) : List Nat → 𝕜 := fun σ => if h : σ ∈ digitsU d L then u ⟨σ, h⟩ else 0

theorem denseVec_denseExt (d L : Nat) (u : DenseIdx d L → 𝕜) : denseVec d L (denseExt d L u) = u := by
  funext σ
  show (if h : σ.1 ∈ digitsU d L then u ⟨σ.1, h⟩ else 0) = u σ
  rw [dif_pos σ.2]

theorem denseMatrix_mulVec (w : List Nat → 𝕜) (σ : DenseIdx d H.A.length) :
    (denseMatrix H d *ᵥ denseVec d H.A.length w) σ = ∑ τ ∈ digitsU d H.A.length, H.elem σ.1 τ * w τ := by
  rw [← Finset.sum_coe_sort (digitsU d H.A.length) (fun τ => H.elem σ.1 τ * w τ)]
  rfl

/-- `DenseEig` is the eigenvector equation of the dense matrix -/
theorem denseEig_iff (μ : ℝ) (w : List Nat → 𝕜) :
    DenseEig H d μ w ↔ denseMatrix H d *ᵥ denseVec d H.A.length w = ((μ : ℝ) : 𝕜) • denseVec d H.A.length w := by
  constructor
  · intro h
    funext σ
    rw [denseMatrix_mulVec]
    exact h σ.1 σ.2
  · intro h σ hσ
    have := congrFun h ⟨σ, hσ⟩
    rw [denseMatrix_mulVec] at this
    exact this

/-- **Spectral theorem for the dense operator**: every dense vector is a combination of eigenvectors (with real
eigenvalues) of a Hermitian dense operator. -/
theorem dense_decomp_exists (hH : C04.MPO.DenseHermitian H d) (ψ : List Nat → 𝕜) :
    ∃ (K : Nat) (μ : Nat → ℝ) (b : Nat → 𝕜) (w : Nat → List Nat → 𝕜),
      (∀ f, f < K → DenseEig H d (μ f) (w f)) ∧
      ∀ σ, σ ∈ digitsU d H.A.length → ψ σ = ∑ f ∈ range K, b f * w f σ := by
  obtain ⟨K, μ, b, u, hu, hv⟩ := herm_decomp (denseMatrix_isHermitian hH) (denseVec d H.A.length ψ)
  refine ⟨K, μ, b, fun f => denseExt d H.A.length (u f), fun f hf => ?_, fun σ hσ => ?_⟩
  · rw [denseEig_iff, denseVec_denseExt]
    exact hu f hf
  · have := congrFun hv ⟨σ, hσ⟩
    rw [Finset.sum_apply] at this
    refine this.trans (Finset.sum_congr rfl fun f _ => ?_)
    show b f * u f ⟨σ, hσ⟩ = b f * (if h : σ ∈ digitsU d H.A.length then u f ⟨σ, h⟩ else 0)
    rw [dif_pos hσ]

/-- the matrix exponential of the dense operator on a decomposition into eigenvectors -/
theorem exp_mulVec_decomp {g : 𝕜} {ψ : List Nat → 𝕜} {K : Nat} {μ : Nat → ℝ} {b : Nat → 𝕜} {w : Nat → List Nat → 𝕜}
    (hw : ∀ f, f < K → DenseEig H d (μ f) (w f))
    (hdec : ∀ σ, σ ∈ digitsU d H.A.length → ψ σ = ∑ f ∈ range K, b f * w f σ) (σ : DenseIdx d H.A.length) :
    (NormedSpace.exp (g • denseMatrix H d) *ᵥ denseVec d H.A.length ψ) σ =
      ∑ f ∈ range K, NormedSpace.exp (g * ((μ f : ℝ) : 𝕜)) * b f * w f σ.1 := by
  have hvec : denseVec d H.A.length ψ = ∑ f ∈ range K, b f • denseVec d H.A.length (w f) := by
    funext τ
    rw [Finset.sum_apply]
    exact hdec τ.1 τ.2
  rw [hvec, Matrix.mulVec_sum, Finset.sum_apply]
  refine Finset.sum_congr rfl fun f hf => ?_
  have he : (g • denseMatrix H d) *ᵥ denseVec d H.A.length (w f) =
      (g * ((μ f : ℝ) : 𝕜)) • denseVec d H.A.length (w f) := by
    rw [Matrix.smul_mulVec, (denseEig_iff _ _).1 (hw f (mem_range.1 hf)), smul_smul]
  rw [Matrix.mulVec_smul, exp_mulVec_eigen _ _ _ he]
  show b f * (NormedSpace.exp (g * ((μ f : ℝ) : 𝕜)) * w f σ.1) = _
  ring

/-- **`DenseExp` is the matrix exponential**: for a Hermitian dense operator and `E = NormedSpace.exp`, `DenseExp` gives
`φ = exp(g • H_dense) *ᵥ ψ` with Mathlib's power-series exponential. -/
theorem denseExp_matrix_exp (hH : C04.MPO.DenseHermitian H d) {E : 𝕜 → 𝕜} (hE : ∀ z : 𝕜, E z = NormedSpace.exp z) {g : 𝕜}
    {ψ φ : List Nat → 𝕜} (h : DenseExp H d E g ψ φ) :
    denseVec d H.A.length φ = NormedSpace.exp (g • denseMatrix H d) *ᵥ denseVec d H.A.length ψ := by
  obtain ⟨K, μ, b, w, hw, hdec⟩ := dense_decomp_exists hH ψ
  funext σ
  rw [exp_mulVec_decomp hw hdec σ]
  show φ σ.1 = _
  rw [h K μ b w hw hdec σ.1 σ.2]
  exact Finset.sum_congr rfl fun f _ => by rw [hE]

/-- the converse: the matrix exponential of the dense operator satisfies `DenseExp` (no Hermiticity needed) -/
theorem matrix_exp_denseExp {E : 𝕜 → 𝕜} (hE : ∀ z : 𝕜, E z = NormedSpace.exp z) {g : 𝕜} {ψ φ : List Nat → 𝕜}
    (h : denseVec d H.A.length φ = NormedSpace.exp (g • denseMatrix H d) *ᵥ denseVec d H.A.length ψ) :
    DenseExp H d E g ψ φ := by
  intro K μ b w hw hdec σ hσ
  have := congrFun h ⟨σ, hσ⟩
  rw [exp_mulVec_decomp hw hdec] at this
  refine this.trans (Finset.sum_congr rfl fun f _ => ?_)
  rw [hE]

/-- the true exponential satisfies the functional equation `ExpLaw` -/
theorem expLaw_of_exp {E : 𝕜 → 𝕜} (hE : ∀ z : 𝕜, E z = NormedSpace.exp z) : ExpLaw E := by
  refine ⟨fun a b => ?_, ?_⟩
  · rw [hE, hE, hE, NormedSpace.exp_add]
  · rw [hE, NormedSpace.exp_zero]

end Ptn.Evo

import PtnModel.Props.C15
/-!
# Krylov-level facts used by the TDVP / DMRG local steps

* `expm_energy` : the Hermitian Krylov exponential with purely imaginary time argument preserves the quadratic form
  `⟪x, A x⟫` of a *linear* Hermitian map, for every iteration count (`T` commutes with `exp(i t T)`: in the Lanczos basis
  the quadratic form of the output is `∑ w_a |c_a|²` with `|c_a|² = ‖v‖² U[0,a]²`, which is `‖v‖² T[0,0] = ⟪v, A v⟫`);
* `herm_matrix_of_actsAs` : a map that is Hermitian w.r.t. `vdot` and acts as the matrix `M` has a Hermitian matrix.
-/
set_option linter.unusedSectionVars false

namespace Ptn.Evo
open Ptn Ptn.Krylov Finset

variable {𝕜 : Type} [RCLike 𝕜]
local notation "conj" => starRingEnd 𝕜

theorem sum4_reorder {M ι₁ ι₂ ι₃ ι₄ : Type} [AddCommMonoid M] (S₁ : Finset ι₁) (S₂ : Finset ι₂) (S₃ : Finset ι₃)
    (S₄ : Finset ι₄) (F : ι₁ → ι₂ → ι₃ → ι₄ → M) :
    ∑ s ∈ S₁, ∑ a ∈ S₂, ∑ x ∈ S₃, ∑ y ∈ S₄, F s a x y = ∑ x ∈ S₃, ∑ y ∈ S₄, ∑ s ∈ S₁, ∑ a ∈ S₂, F s a x y := by
  calc ∑ s ∈ S₁, ∑ a ∈ S₂, ∑ x ∈ S₃, ∑ y ∈ S₄, F s a x y
      = ∑ s ∈ S₁, ∑ x ∈ S₃, ∑ a ∈ S₂, ∑ y ∈ S₄, F s a x y := Finset.sum_congr rfl fun s _ => Finset.sum_comm
    _ = ∑ x ∈ S₃, ∑ s ∈ S₁, ∑ a ∈ S₂, ∑ y ∈ S₄, F s a x y := Finset.sum_comm
    _ = ∑ x ∈ S₃, ∑ s ∈ S₁, ∑ y ∈ S₄, ∑ a ∈ S₂, F s a x y :=
        Finset.sum_congr rfl fun x _ => Finset.sum_congr rfl fun s _ => Finset.sum_comm
    _ = ∑ x ∈ S₃, ∑ y ∈ S₄, ∑ s ∈ S₁, ∑ a ∈ S₂, F s a x y := Finset.sum_congr rfl fun x _ => Finset.sum_comm

/-- `∑_{c,d} conj(∑_a U[c,a] x_a) T[c,d] (∑_b U[d,b] x_b) = ∑_a w_a conj(x_a) x_a` when `Uᵀ T U = diag w` -/
theorem quad_diag {k : Nat} (U : Nat → Nat → ℝ) (T : Nat → Nat → ℝ) (w : Nat → ℝ)
    (hD : ∀ a b, a < k → b < k → ∑ c ∈ range k, ∑ d ∈ range k, U c a * T c d * U d b = if a = b then w a else 0)
    (x : Nat → 𝕜) :
    ∑ c ∈ range k, ∑ d ∈ range k,
      conj (∑ a ∈ range k, ((U c a : ℝ) : 𝕜) * x a) * (∑ b ∈ range k, ((U d b : ℝ) : 𝕜) * x b) * ((T c d : ℝ) : 𝕜) =
    ∑ a ∈ range k, ((w a : ℝ) : 𝕜) * (conj (x a) * x a) := by
  have e1 : ∀ c ∈ range k, ∀ d ∈ range k,
      conj (∑ a ∈ range k, ((U c a : ℝ) : 𝕜) * x a) * (∑ b ∈ range k, ((U d b : ℝ) : 𝕜) * x b) * ((T c d : ℝ) : 𝕜) =
      ∑ a ∈ range k, ∑ b ∈ range k, ((U c a * T c d * U d b : ℝ) : 𝕜) * (conj (x a) * x b) := by
    intro c _ d _
    rw [map_sum, sum_mul_sum, sum_mul]
    refine sum_congr rfl fun a _ => ?_
    rw [sum_mul]
    refine sum_congr rfl fun b _ => ?_
    rw [map_mul, RCLike.conj_ofReal]; push_cast; ring
  rw [sum_congr rfl fun c hc => sum_congr rfl fun d hd => e1 c hc d hd]
  -- bring `a, b` to the front
  have e2 : ∑ c ∈ range k, ∑ d ∈ range k, ∑ a ∈ range k, ∑ b ∈ range k,
      ((U c a * T c d * U d b : ℝ) : 𝕜) * (conj (x a) * x b) =
      ∑ a ∈ range k, ∑ b ∈ range k, ((∑ c ∈ range k, ∑ d ∈ range k, U c a * T c d * U d b : ℝ) : 𝕜) *
        (conj (x a) * x b) := by
    rw [sum4_reorder]
    refine sum_congr rfl fun a _ => sum_congr rfl fun b _ => ?_
    rw [RCLike.ofReal_sum, sum_mul]
    refine sum_congr rfl fun c _ => ?_
    rw [RCLike.ofReal_sum, sum_mul]
  rw [e2]
  refine sum_congr rfl fun a ha => ?_
  have e3 : ∀ b ∈ range k, ((∑ c ∈ range k, ∑ d ∈ range k, U c a * T c d * U d b : ℝ) : 𝕜) * (conj (x a) * x b) =
      if a = b then ((w a : ℝ) : 𝕜) * (conj (x a) * x a) else 0 := by
    intro b hb
    rw [hD a b (mem_range.1 ha) (mem_range.1 hb)]
    by_cases hab : a = b
    · subst hab; rw [if_pos rfl, if_pos rfl]
    · rw [if_neg hab, if_neg hab, RCLike.ofReal_zero, zero_mul]
  rw [sum_congr rfl e3, sum_ite_eq (range k) a, if_pos ha]

/-- a map that is Hermitian w.r.t. `vdot` and acts as the matrix `M` on vectors of length `n` has a Hermitian matrix -/
theorem herm_matrix_of_actsAs {n : Nat} {Afun : List 𝕜 → List 𝕜} {M : Nat → Nat → 𝕜}
    (hA : IsHermitian n Afun) (hM : ActsAs n Afun M) :
    ∀ i j, i < n → j < n → conj (M i j) = M j i := by
  intro i j hi hj
  have hl : ∀ a, (unitVec (𝕜 := 𝕜) n a).length = n := fun a => by simp [unitVec]
  have hcol : ∀ a b, a < n → b < n → vget (Afun (unitVec n b)) a = M a b := by
    intro a b ha hb
    rw [hM _ (hl b) a ha, sum_eq_single b]
    · unfold unitVec; rw [vget_map_range, if_pos hb, if_pos rfl, mul_one]
    · intro c hc hne
      unfold unitVec; rw [vget_map_range, if_pos (mem_range.1 hc), if_neg hne, mul_zero]
    · intro h; exact absurd (mem_range.2 hb) h
  have h1 := hA (unitVec n j) (unitVec n i) (hl j) (hl i)
  rw [vdot_unitVec hj, ← vdot_conj, vdot_unitVec hi, hcol i j hi hj, hcol j i hj hi] at h1
  exact h1

/-- **Energy conservation of the local propagator.**  For a linear Hermitian map (acting as the matrix `M`), the
Hermitian Krylov exponential with purely imaginary time argument `dt = i t` preserves the quadratic form:
`⟪r, A r⟫ = ⟪v, A v⟫`, for every iteration count. -/
theorem expm_energy {Afun : List 𝕜 → List 𝕜} {dnorm : List 𝕜 → ℝ} {deigh : List ℝ → List ℝ → List ℝ × Mat ℝ}
    {dexp : 𝕜 → 𝕜} {dexpm : Mat 𝕜 → Mat 𝕜}
    (hN : NormContract dnorm) {v : List 𝕜} {numiter : Nat} {M : Nat → Nat → 𝕜}
    (hM : ActsAs v.length Afun M) (hA : IsHermitian v.length Afun)
    (hE : C15.EighAt Afun dnorm deigh v numiter)
    (hexp : ∀ x : ℝ, ‖dexp (RCLike.I * (x : 𝕜))‖ = 1) {t : ℝ}
    {r : List 𝕜} (h : expmKrylov Afun dnorm deigh dexp dexpm v (RCLike.I * (t : 𝕜)) numiter true = .ok r) :
    vdot v.length r (Afun r) = vdot v.length v (Afun v) := by
  obtain ⟨alpha, beta, V, hl, _, _, _, rfl⟩ := expmKrylov_herm_ok h
  have hE' := hE alpha beta V hl
  obtain ⟨st, hc, rfl, rfl, rfl⟩ := lanczos_ok Afun dnorm hl
  obtain ⟨k, _, hf⟩ := lanczosCore_fin hN hA hc
  obtain ⟨h0, _, _⟩ := lanczosCore_ok Afun dnorm hc
  have h0' : 0 < dnorm v := of_decide_eq_true h0
  have hk : st.alpha.length = k := hf.sized.1
  have hv : st.V.length = k := hf.sized.2.2
  set U := (deigh st.alpha st.beta).2 with hU
  set w := (deigh st.alpha st.beta).1 with hw
  have hUm : U.m = k := by rw [hE'.Um, hk]
  have hUn : U.n = k := by rw [hE'.Un, hk]
  set cc : Nat → 𝕜 := fun a => RealLike.ofReal (dnorm v) * dexp (RCLike.I * (t : 𝕜) * RealLike.ofReal (w.getD a 0)) *
    RealLike.ofReal (U.f 0 a) with hcc
  set clist : List 𝕜 := (List.range U.n).map cc with hclist
  set yy : Nat → 𝕜 := fun c => ∑ a ∈ range k, ((U.f c a : ℝ) : 𝕜) * cc a with hyy
  set ylist : List 𝕜 := (List.range U.m).map fun r => sumRange U.n fun a => RealLike.ofReal (U.f r a) * vget clist a
    with hylist
  have hcl : ∀ a, a < k → vget clist a = cc a := fun a ha => by
    rw [hclist, vget_map_range, if_pos (by rw [hUn]; exact ha)]
  have hyl : ∀ c, c < k → vget ylist c = yy c := fun c hc' => by
    rw [hylist, vget_map_range, if_pos (by rw [hUm]; exact hc'), sumRange_eq_sum, hUn]
    exact sum_congr rfl fun a ha => by rw [hcl a (mem_range.1 ha), ofReal_eq]
  set res : List 𝕜 := (List.range (colsMat v.length st.V).m).map fun i =>
    sumRange (colsMat v.length st.V).n fun c => (colsMat v.length st.V).f i c * vget ylist c with hres
  have hrl : res.length = v.length := by simp [hres, colsMat]
  have hcomb : IsComb v.length k yy (fun c => st.V.getD c []) res := by
    intro i hi
    rw [hres, vget_map_range, if_pos (by simpa [colsMat] using hi), sumRange_eq_sum]
    show ∑ c ∈ range st.V.length, vget (st.V.getD c []) i * vget ylist c = _
    rw [hv]
    exact sum_congr rfl fun c hc' => by rw [hyl c (mem_range.1 hc'), mul_comm]
  -- `A res = ∑ y_d A v_d`
  have hcombA := hM.comb hrl (fun d hd => hf.len d hd) hcomb
  rw [vdot_comb hcomb hcombA]
  have e1 : ∀ c ∈ range k, ∀ d ∈ range k, conj (yy c) * yy d * vdot v.length (st.V.getD c []) (Afun (st.V.getD d [])) =
      conj (∑ a ∈ range k, ((U.f c a : ℝ) : 𝕜) * cc a) * (∑ b ∈ range k, ((U.f d b : ℝ) : 𝕜) * cc b) *
        ((tridiag st.alpha st.beta c d : ℝ) : 𝕜) := by
    intro c hc' d hd
    rw [hf.proj hA (mem_range.1 hc') (mem_range.1 hd)]
  rw [sum_congr rfl fun c hc' => sum_congr rfl fun d hd => e1 c hc' d hd]
  rw [quad_diag U.f (tridiag st.alpha st.beta) (fun a => w.getD a 0)
    (fun a b ha hb => by
      have := hE'.diag (e := a) (e' := b) (by rw [hk]; exact ha) (by rw [hk]; exact hb)
      rw [hk] at this
      exact this) cc]
  -- |c_a|² = nrm² U₀ₐ²
  have h3 : ∀ a ∈ range k, conj (cc a) * cc a = ((dnorm v ^ 2 * (U.f 0 a * U.f 0 a) : ℝ) : 𝕜) := by
    intro a _
    have hz : RCLike.I * (t : 𝕜) * RealLike.ofReal (w.getD a 0) = RCLike.I * ((t * w.getD a 0 : ℝ) : 𝕜) := by
      rw [ofReal_eq]; push_cast; ring
    have hn1 := hexp (t * w.getD a 0)
    rw [← hz] at hn1
    have hmc : conj (dexp (RCLike.I * (t : 𝕜) * RealLike.ofReal (w.getD a 0))) *
        dexp (RCLike.I * (t : 𝕜) * RealLike.ofReal (w.getD a 0)) = 1 := by
      rw [mul_comm, RCLike.mul_conj, hn1]; simp
    rw [hcc]
    simp only [map_mul, ofReal_eq, RCLike.conj_ofReal]
    calc _ = ((dnorm v : ℝ) : 𝕜) * ((dnorm v : ℝ) : 𝕜) * (((U.f 0 a : ℝ) : 𝕜) * ((U.f 0 a : ℝ) : 𝕜)) *
          (conj (dexp (RCLike.I * (t : 𝕜) * ((w.getD a 0 : ℝ) : 𝕜))) * dexp (RCLike.I * (t : 𝕜) * ((w.getD a 0 : ℝ) : 𝕜))) := by
            ring
      _ = _ := by
        have := hmc; rw [ofReal_eq] at this
        rw [this]; push_cast; ring
  have e4 : ∀ a ∈ range k, ((w.getD a 0 : ℝ) : 𝕜) * (conj (cc a) * cc a) =
      ((dnorm v ^ 2 * (U.f 0 a * w.getD a 0 * U.f 0 a) : ℝ) : 𝕜) := by
    intro a ha
    rw [h3 a ha]; push_cast; ring
  rw [sum_congr rfl e4, ← RCLike.ofReal_sum, ← mul_sum]
  have hd := hE'.decomp 0 0 (by rw [hk]; exact hf.kpos) (by rw [hk]; exact hf.kpos)
  rw [hk] at hd
  rw [← hd]
  have ht : tridiag st.alpha st.beta 0 0 = st.alpha.getD 0 0 := by simp [tridiag]
  rw [ht, hN.sq v, mul_comm]
  rw [hf.alpha0 hN hA h0' (lanczosCore_first Afun dnorm hc)]
  -- `⟪v, A v⟫` is real
  have := hA.re_eq (x := v) rfl
  rw [hA v v rfl rfl] at this
  exact this

end Ptn.Evo

import PtnModel.Proofs.EnvFold
/-!
# `compute_right_operator_blocks` and the left contraction step

* `bond3 As Dl j`, `bond4 Ws Dl j` : the bond dimension to the left of site `j` of a chain.
* `rightBlocks_chain` : `rightBlocks ψ o = .ok BR`, `BR.length = L` and `BR[i]` is the right environment
  (`IsRightEnv`) of the sites `i+1 … L-1`.
* `IsLeftEnv`, `isLeftEnv_step` : `contraction_operator_step_left` extends a left environment by one site.
-/
set_option linter.unusedSectionVars false
set_option linter.unusedVariables false
namespace Ptn.Env
open Finset
variable {R : Type} [CommRing R] [StarRing R]
attribute [local instance] starConj

/-- bond dimension left of site `j` (right of the chain if `j` is the length) -/
def bond3 {α : Type} : List (T3 α) → Nat → Nat → Nat
  | _, Dl, 0 => Dl
  | A :: As, _, j + 1 => bond3 As A.d2 j
  | [], Dl, _ + 1 => Dl

def bond4 {α : Type} : List (T4 α) → Nat → Nat → Nat
  | _, Dl, 0 => Dl
  | A :: As, _, j + 1 => bond4 As A.d3 j
  | [], Dl, _ + 1 => Dl

@[simp] theorem bond3_zero {α : Type} (As : List (T3 α)) (Dl : Nat) : bond3 As Dl 0 = Dl := by
  cases As <;> rfl
@[simp] theorem bond3_succ {α : Type} (A : T3 α) (As : List (T3 α)) (Dl j : Nat) :
    bond3 (A :: As) Dl (j + 1) = bond3 As A.d2 j := rfl
@[simp] theorem bond4_zero {α : Type} (As : List (T4 α)) (Dl : Nat) : bond4 As Dl 0 = Dl := by
  cases As <;> rfl
@[simp] theorem bond4_succ {α : Type} (A : T4 α) (As : List (T4 α)) (Dl j : Nat) :
    bond4 (A :: As) Dl (j + 1) = bond4 As A.d3 j := rfl

theorem bond3_succ_eq {α : Type} (As : List (T3 α)) (Dl : Nat) {i : Nat} (hi : i < As.length) :
    bond3 As Dl (i + 1) = As[i].d2 := by
  induction As generalizing Dl i with
  | nil => simp at hi
  | cons A As ih =>
    cases i with
    | zero => simp
    | succ i => simp only [bond3_succ, List.getElem_cons_succ]; exact ih _ _

theorem bond4_succ_eq {α : Type} (As : List (T4 α)) (Dl : Nat) {i : Nat} (hi : i < As.length) :
    bond4 As Dl (i + 1) = As[i].d3 := by
  induction As generalizing Dl i with
  | nil => simp at hi
  | cons A As ih =>
    cases i with
    | zero => simp
    | succ i => simp only [bond4_succ, List.getElem_cons_succ]; exact ih _ _

theorem bond3_eq_d1 {α : Type} {ds : List Nat} {As : List (T3 α)} {Dl Dr : Nat} (h : Chain3 ds As Dl Dr)
    {i : Nat} (hi : i < As.length) : bond3 As Dl i = As[i].d1 := by
  induction i generalizing ds As Dl with
  | zero =>
    cases As with
    | nil => simp at hi
    | cons A As => cases ds <;> simp_all
  | succ i ih =>
    cases As with
    | nil => simp at hi
    | cons A As =>
      cases ds with
      | nil => simp at h
      | cons d ds =>
        simp only [chain3_cons] at h
        simp only [bond3_succ, List.getElem_cons_succ]
        exact ih h.2.2 _

theorem bond4_eq_d2 {α : Type} {ds : List Nat} {As : List (T4 α)} {Dl Dr : Nat} (h : Chain4 ds As Dl Dr)
    {i : Nat} (hi : i < As.length) : bond4 As Dl i = As[i].d2 := by
  induction i generalizing ds As Dl with
  | zero =>
    cases As with
    | nil => simp at hi
    | cons A As => cases ds <;> simp_all
  | succ i ih =>
    cases As with
    | nil => simp at hi
    | cons A As =>
      cases ds with
      | nil => simp at h
      | cons d ds =>
        simp only [chain4_cons] at h
        simp only [bond4_succ, List.getElem_cons_succ]
        exact ih h.2.2.2 _

/-- chains split at `i` with the middle bond `bond3 As Dl i` -/
theorem chain3_take {α : Type} {ds : List Nat} {As : List (T3 α)} {Dl Dr : Nat} (h : Chain3 ds As Dl Dr) (i : Nat)
    (hi : i ≤ As.length) : Chain3 (ds.take i) (As.take i) Dl (bond3 As Dl i) := by
  induction i generalizing ds As Dl with
  | zero => simp
  | succ i ih =>
    cases As with
    | nil => simp at hi
    | cons A As =>
      cases ds with
      | nil => simp at h
      | cons d ds =>
        simp only [chain3_cons] at h
        simp only [List.take_succ_cons, chain3_cons, bond3_succ]
        exact ⟨h.1, h.2.1, ih h.2.2 (by simpa using hi)⟩

theorem chain3_drop {α : Type} {ds : List Nat} {As : List (T3 α)} {Dl Dr : Nat} (h : Chain3 ds As Dl Dr) (i : Nat)
    (hi : i ≤ As.length) : Chain3 (ds.drop i) (As.drop i) (bond3 As Dl i) Dr := by
  induction i generalizing ds As Dl with
  | zero => simpa using h
  | succ i ih =>
    cases As with
    | nil => simp at hi
    | cons A As =>
      cases ds with
      | nil => simp at h
      | cons d ds =>
        simp only [chain3_cons] at h
        simp only [List.drop_succ_cons, bond3_succ]
        exact ih h.2.2 (by simpa using hi)

theorem chain4_take {α : Type} {ds : List Nat} {As : List (T4 α)} {Dl Dr : Nat} (h : Chain4 ds As Dl Dr) (i : Nat)
    (hi : i ≤ As.length) : Chain4 (ds.take i) (As.take i) Dl (bond4 As Dl i) := by
  induction i generalizing ds As Dl with
  | zero => simp
  | succ i ih =>
    cases As with
    | nil => simp at hi
    | cons A As =>
      cases ds with
      | nil => simp at h
      | cons d ds =>
        simp only [chain4_cons] at h
        simp only [List.take_succ_cons, chain4_cons, bond4_succ]
        exact ⟨h.1, h.2.1, h.2.2.1, ih h.2.2.2 (by simpa using hi)⟩

theorem chain4_drop {α : Type} {ds : List Nat} {As : List (T4 α)} {Dl Dr : Nat} (h : Chain4 ds As Dl Dr) (i : Nat)
    (hi : i ≤ As.length) : Chain4 (ds.drop i) (As.drop i) (bond4 As Dl i) Dr := by
  induction i generalizing ds As Dl with
  | zero => simpa using h
  | succ i ih =>
    cases As with
    | nil => simp at hi
    | cons A As =>
      cases ds with
      | nil => simp at h
      | cons d ds =>
        simp only [chain4_cons] at h
        simp only [List.drop_succ_cons, bond4_succ]
        exact ih h.2.2.2 (by simpa using hi)

/-! ## right blocks -/

/-- the step function of the fold in `rightBlocks` -/
def rbStep (p : T3 R × T4 R) (acc : List (T3 R)) : Except Err (List (T3 R)) :=
  match acc with
  | [] => throw Err.index
  | B :: _ => do
    let Bn ← Op.opStepRight p.1 p.1 p.2 B
    return Bn :: acc

theorem rb_fold {ds : List Nat} {As : List (T3 R)} {Ws : List (T4 R)} {Dl Dw : Nat}
    (hA : Chain3 ds As Dl 1) (hW : Chain4 ds Ws Dw 1)
    {E0 : T3 R} (h0 : E0.d0 = 1) (h1 : E0.d1 = 1) (h2 : E0.d2 = 1) (hf : E0.f 0 0 0 = 1) :
    ∃ acc, (List.zip As Ws).foldrM rbStep [E0] = .ok acc ∧ acc.length = ds.length + 1 ∧
      ∀ j, j ≤ ds.length → ∃ E, acc[j]? = some E ∧
        IsRightEnv (ds.drop j) (As.drop j) (As.drop j) (Ws.drop j) (bond3 As Dl j) (bond4 Ws Dw j) (bond3 As Dl j) E := by
  induction ds generalizing As Ws Dl Dw with
  | nil =>
    cases As with
    | cons _ _ => simp at hA
    | nil =>
      cases Ws with
      | cons _ _ => simp at hW
      | nil =>
        simp only [chain3_nil, chain4_nil] at hA hW
        subst hA hW
        refine ⟨[E0], rfl, rfl, ?_⟩
        intro j hj
        have : j = 0 := by simpa using hj
        subst this
        exact ⟨E0, rfl, by simpa using isRightEnv_nil h0 h1 h2 hf⟩
  | cons d ds ih =>
    cases As with
    | nil => simp at hA
    | cons A As =>
      cases Ws with
      | nil => simp at hW
      | cons W Ws =>
        simp only [chain3_cons, chain4_cons] at hA hW
        obtain ⟨acc, hacc, hlen, hall⟩ := ih hA.2.2 hW.2.2.2
        obtain ⟨E, hE, hEnv⟩ := hall 0 (Nat.zero_le _)
        simp only [List.drop_zero, bond3_zero, bond4_zero] at hEnv
        obtain ⟨T, hT, hTenv⟩ := isRightEnv_step hA.1 hA.1 hW.1 hW.2.1 hEnv
        cases acc with
        | nil => simp at hlen
        | cons E' accT =>
          simp only [List.getElem?_cons_zero, Option.some.injEq] at hE
          subst hE
          refine ⟨T :: E' :: accT, ?_, by simp [← hlen], ?_⟩
          · rw [List.zip_cons_cons, List.foldrM_cons, hacc, except_ok_bind]
            simp only [rbStep, hT, except_ok_bind]
            rfl
          · intro j hj
            cases j with
            | zero =>
              refine ⟨T, rfl, ?_⟩
              simp only [List.drop_zero, bond3_zero, bond4_zero]
              rw [← hA.2.1, ← hW.2.2.1]
              exact hTenv
            | succ j =>
              obtain ⟨Ej, hEj, hj'⟩ := hall j (by simpa using hj)
              exact ⟨Ej, by simpa using hEj, by simpa using hj'⟩

/-- `compute_right_operator_blocks(psi, op)` on chains with site dimensions `ds`. -/
theorem rightBlocks_chain {ds : List Nat} {ψ : MPS R} {o : MPO R} (hψ : Chain3 ds ψ.A 1 1)
    (ho : Chain4 ds o.A 1 1) (hne : ds ≠ []) :
    ∃ BR, Op.rightBlocks ψ o = .ok BR ∧ BR.length = ds.length ∧
      ∀ i, i < ds.length → ∃ E, BR[i]? = some E ∧
        IsRightEnv (ds.drop (i + 1)) (ψ.A.drop (i + 1)) (ψ.A.drop (i + 1)) (o.A.drop (i + 1))
          (bond3 ψ.A 1 (i + 1)) (bond4 o.A 1 (i + 1)) (bond3 ψ.A 1 (i + 1)) E := by
  have hl : ψ.A.length = o.A.length := (chain3_length hψ).trans (chain4_length ho).symm
  cases ds with
  | nil => exact absurd rfl hne
  | cons d ds =>
    cases hA : ψ.A with
    | nil => rw [hA] at hψ; simp at hψ
    | cons A As =>
      cases hW : o.A with
      | nil => rw [hW] at ho; simp at ho
      | cons W Ws =>
        rw [hA] at hψ
        rw [hW] at ho
        simp only [chain3_cons, chain4_cons] at hψ ho
        obtain ⟨acc, hacc, hlen, hall⟩ := rb_fold (E0 := (⟨1, 1, 1, fun _ _ _ => 1⟩ : T3 R)) hψ.2.2 ho.2.2.2
          rfl rfl rfl rfl
        refine ⟨acc, ?_, by simpa using hlen, ?_⟩
        · unfold Op.rightBlocks
          rw [pyAssert_true (by simp [hl]), except_ok_bind]
          simp only [hA, hW, List.zip_cons_cons]
          exact hacc
        · intro i hi
          obtain ⟨E, hE, hEnv⟩ := hall i (by simpa using Nat.lt_succ_iff.1 hi)
          exact ⟨E, hE, by simpa using hEnv⟩

/-! ## left environments -/

theorem sum_digits_snoc {β : Type} [AddCommMonoid β] (ds : List Nat) (d : Nat) (f : List Nat → β) :
    ∑ σ ∈ digits (ds ++ [d]), f σ = ∑ σ ∈ digits ds, ∑ x ∈ range d, f (σ ++ [x]) := by
  rw [sum_digits_append]
  refine Finset.sum_congr rfl fun σ _ => ?_
  rw [sum_digits_cons]
  simp

theorem pmat_snoc {ds : List Nat} {As : List (T3 R)} {Dl : Nat} {A : T3 R} (h : Chain3 ds As Dl A.d1)
    {σ : List Nat} (hσ : σ ∈ digits ds) (s : Nat) {b c : Nat} (hb : b < Dl) (hc : c < A.d2) :
    pmat (As ++ [A]) (σ ++ [s]) b c = ∑ x ∈ range A.d1, pmat As σ b x * A.f s x c := by
  rw [pmat_append h [A] hσ [s] hb c]
  refine Finset.sum_congr rfl fun x _ => ?_
  rw [pmat_cons]
  simp only [pmat_nil]
  rw [sum_ite_eq_of_lt hc]

theorem pmatO_snoc {ds : List Nat} {Ws : List (T4 R)} {Dl : Nat} {W : T4 R} (h : Chain4 ds Ws Dl W.d2)
    {σ τ : List Nat} (hσ : σ ∈ digits ds) (hτ : τ ∈ digits ds) (s t : Nat) {b c : Nat} (hb : b < Dl)
    (hc : c < W.d3) :
    pmatO (Ws ++ [W]) (σ ++ [s]) (τ ++ [t]) b c = ∑ x ∈ range W.d2, pmatO Ws σ τ b x * W.f s t x c := by
  rw [pmatO_append h [W] hσ hτ [s] [t] hb c]
  refine Finset.sum_congr rfl fun x _ => ?_
  rw [pmatO_cons]
  simp only [pmatO_nil]
  rw [sum_ite_eq_of_lt hc]

/-- `E` is the contraction of the sites `As` (ket), `Ws` (operator), `Bs` (bra) with the trivial left boundary:
`E[b,w,b'] = Σ_{σ,τ} (∏ As[τ])[0,b] (∏ Ws[σ,τ])[0,w] conj((∏ Bs[σ])[0,b'])`. -/
def IsLeftEnv (ds : List Nat) (As Bs : List (T3 R)) (Ws : List (T4 R)) (Dr Dw Dr' : Nat) (E : T3 R) : Prop :=
  E.d0 = Dr ∧ E.d1 = Dw ∧ E.d2 = Dr' ∧ ∀ b w b', b < Dr → w < Dw → b' < Dr' →
    E.f b w b' = ∑ σ ∈ digits ds, ∑ τ ∈ digits ds, pmat As τ 0 b * pmatO Ws σ τ 0 w * star (pmat Bs σ 0 b')

theorem isLeftEnv_nil {E : T3 R} (h0 : E.d0 = 1) (h1 : E.d1 = 1) (h2 : E.d2 = 1) (hf : E.f 0 0 0 = 1) :
    IsLeftEnv [] [] [] [] 1 1 1 E := by
  refine ⟨h0, h1, h2, ?_⟩
  intro a w a' ha hw ha'
  have : a = 0 := by omega
  have : w = 0 := by omega
  have : a' = 0 := by omega
  subst_vars
  simp [hf]

theorem isLeftEnv_step {d : Nat} {ds : List Nat} {As Bs : List (T3 R)} {Ws : List (T4 R)} {A B : T3 R} {W : T4 R}
    {E : T3 R} (cA : Chain3 ds As 1 A.d1) (cB : Chain3 ds Bs 1 B.d1) (cW : Chain4 ds Ws 1 W.d2)
    (hA : A.d0 = d) (hB : B.d0 = d) (hW0 : W.d0 = d) (hW1 : W.d1 = d)
    (hE : IsLeftEnv ds As Bs Ws A.d1 W.d2 B.d1 E) :
    ∃ T, Op.opStepLeft A B W E = .ok T ∧
      IsLeftEnv (ds ++ [d]) (As ++ [A]) (Bs ++ [B]) (Ws ++ [W]) A.d2 W.d3 B.d2 T := by
  obtain ⟨e0, e1, e2, hf⟩ := hE
  obtain ⟨T, hT, t0, t1, t2, hTf⟩ := opStepLeft_ok A B W E e2 (hW0.trans hB.symm) e1.symm
    (hA.trans hW1.symm) e0.symm
  refine ⟨T, hT, t0, t1, t2, ?_⟩
  intro b w' b' hb hw' hb'
  rw [hTf b w' b' hb hw' hb', sum_digits_snoc]
  have e : ∀ σ ∈ digits ds, ∑ x ∈ range d, ∑ τ' ∈ digits (ds ++ [d]),
      pmat (As ++ [A]) τ' 0 b * pmatO (Ws ++ [W]) (σ ++ [x]) τ' 0 w' * star (pmat (Bs ++ [B]) (σ ++ [x]) 0 b')
      = ∑ s' ∈ range d, ∑ τ ∈ digits ds, ∑ s ∈ range d,
        (∑ a ∈ range A.d1, pmat As τ 0 a * A.f s a b) * (∑ w ∈ range W.d2, pmatO Ws σ τ 0 w * W.f s' s w w')
          * star (∑ a' ∈ range B.d1, pmat Bs σ 0 a' * B.f s' a' b') := by
    intro σ hσ
    refine Finset.sum_congr rfl fun s' _ => ?_
    rw [sum_digits_snoc]
    refine Finset.sum_congr rfl fun τ hτ => Finset.sum_congr rfl fun s _ => ?_
    rw [pmat_snoc cA hτ s Nat.one_pos hb, pmatO_snoc cW hσ hτ s' s Nat.one_pos hw',
      pmat_snoc cB hσ s' Nat.one_pos hb']
  rw [Finset.sum_congr rfl e]
  have : ∀ s ∈ range A.d0, ∀ a ∈ range A.d1,
      A.f s a b * ∑ s' ∈ range W.d0, ∑ w ∈ range W.d2, W.f s' s w w' *
          ∑ a' ∈ range B.d1, E.f a w a' * star (B.f s' a' b')
      = A.f s a b * ∑ s' ∈ range W.d0, ∑ w ∈ range W.d2, W.f s' s w w' *
          ∑ a' ∈ range B.d1, (∑ σ ∈ digits ds, ∑ τ ∈ digits ds,
            pmat As τ 0 a * pmatO Ws σ τ 0 w * star (pmat Bs σ 0 a')) * star (B.f s' a' b') := by
    intro s _ a ha
    congr 1
    refine Finset.sum_congr rfl fun s' _ => Finset.sum_congr rfl fun w hw => ?_
    congr 1
    refine Finset.sum_congr rfl fun a' ha' => ?_
    rw [hf a w a' (by simpa using ha) (by simpa using hw) (by simpa using ha')]
  rw [Finset.sum_congr rfl fun s hs => Finset.sum_congr rfl fun a ha => this s hs a ha]
  rw [hA, hW0]
  exact alg_opStepLeft (digits ds) (digits ds) (range d) (range d) (range A.d1) (range B.d1) (range W.d2)
    (fun s a => A.f s a b) (fun s' a' => B.f s' a' b') (fun s' s w => W.f s' s w w')
    (fun τ a => pmat As τ 0 a) (fun σ τ w => pmatO Ws σ τ 0 w) (fun σ a' => pmat Bs σ 0 a')

end Ptn.Env

import Mathlib.Algebra.BigOperators.Group.List.Basic
import Mathlib.Algebra.BigOperators.Group.List.Lemmas
import Mathlib.Data.List.Nodup
import Mathlib.Data.List.Perm.Basic
import Mathlib.Algebra.Ring.Defs
import Mathlib.Tactic.Ring
import PtnModel.Model.OpGraph
/-!
# Operator graphs: the path-sum denotation over the edge list

`denE es t w x` is the coefficient of the word `w` on paths from node `x` to node `t` in the multigraph given
by the bare edge list `es` (node adjacency lists play no role).  For a structurally valid graph (`SValid`:
unique dictionary keys, duplicate-free edge-id lists, nodes and edges referring to each other -- the first
three clauses of `is_consistent`) the model's `Graph.denFrom` coincides with `denE` of the edge dictionary
(`denFrom_eq_denE`).  All rewrite theorems are proved on `denE`.
-/
set_option linter.unusedSectionVars false

namespace Ptn.Og

variable {κ : Type} [CommRing κ]

theorem sumList_eq_sum (l : List κ) : Ptn.sumList l = l.sum := by
  unfold Ptn.sumList
  rw [List.sum_eq_foldl]

/-- coefficient of the operator id `o` on an edge -/
def opc (e : Edge κ) (o : Int) : κ := (e.opics.map fun p => if p.1 = o then p.2 else 0).sum

/-- path sum over a bare edge list: coefficient of `w` on paths from `x` to `t` (which stop at `t`) -/
def denE (es : List (Edge κ)) (t : Int) : Word → Int → κ
  | [], x => if x = t then 1 else 0
  | o :: w, x =>
    if x = t then 0
    else (es.map fun e => if e.nids.1 = x then opc e o * denE es t w e.nids.2 else 0).sum

theorem denE_cons (es : List (Edge κ)) (t : Int) (o : Int) (w : Word) (x : Int) :
    denE es t (o :: w) x = if x = t then 0
      else (es.map fun e => if e.nids.1 = x then opc e o * denE es t w e.nids.2 else 0).sum := by
  rw [denE]

theorem denE_nil (es : List (Edge κ)) (t : Int) (x : Int) : denE es t [] x = if x = t then 1 else 0 := by
  rw [denE]

/-- the edge objects of a graph -/
def Graph.edgeList (g : Graph κ) : List (Edge κ) := g.edges.map (·.2)

/-! ## dictionaries -/

section Dict
variable {β : Type}

theorem dGet?_eq_some_of_mem {d : List (Int × β)} (hn : (dKeys d).Nodup) {k : Int} {v : β}
    (h : (k, v) ∈ d) : dGet? d k = some v := by
  induction d with
  | nil => simp at h
  | cons p rest ih =>
    obtain ⟨k', v'⟩ := p
    simp only [dKeys, List.map_cons, List.nodup_cons] at hn
    simp only [dGet?, List.lookup_cons]
    rcases List.mem_cons.1 h with h1 | h1
    · cases h1; simp
    · have : k ≠ k' := by
        intro hk; subst hk
        exact hn.1 (List.mem_map.2 ⟨(k, v), h1, rfl⟩)
      have hb : (k == k') = false := by simpa using this
      rw [hb]
      exact ih hn.2 h1

theorem mem_of_dGet?_eq_some {d : List (Int × β)} {k : Int} {v : β}
    (h : dGet? d k = some v) : (k, v) ∈ d := by
  induction d with
  | nil => simp [dGet?] at h
  | cons p rest ih =>
    obtain ⟨k', v'⟩ := p
    simp only [dGet?, List.lookup_cons] at h
    by_cases hk : k = k'
    · subst hk; simp at h; subst h; simp
    · have hb : (k == k') = false := by simpa using hk
      rw [hb] at h
      exact List.mem_cons_of_mem _ (ih h)

theorem dGet?_eq_none_iff {d : List (Int × β)} {k : Int} : dGet? d k = none ↔ k ∉ dKeys d := by
  induction d with
  | nil => simp [dGet?, dKeys]
  | cons p rest ih =>
    obtain ⟨k', v'⟩ := p
    simp only [dGet?, List.lookup_cons, dKeys, List.map_cons, List.mem_cons, not_or]
    by_cases hk : k = k'
    · subst hk; simp
    · have hb : (k == k') = false := by simpa using hk
      rw [hb]
      simp only [dGet?, dKeys] at ih
      simp [ih, hk]

theorem dHas_iff {d : List (Int × β)} {k : Int} : dHas d k = true ↔ k ∈ dKeys d := by
  unfold dHas
  rw [Option.isSome_iff_ne_none, Ne, ← dGet?.eq_1, dGet?_eq_none_iff, not_not]

theorem dGet_eq_ok_iff {d : List (Int × β)} {k : Int} {v : β} : dGet d k = .ok v ↔ dGet? d k = some v := by
  unfold dGet dGet?
  cases h : d.lookup k <;> simp

end Dict

/-! ## structural validity -/

/-- Structural validity: what `OpGraph`'s constructors and methods maintain, and what the first three clauses
of `is_consistent` check (the level clause is separate). -/
structure SValid (g : Graph κ) : Prop where
  nodesKeys : (dKeys g.nodes).Nodup
  edgesKeys : (dKeys g.edges).Nodup
  nodeKey : ∀ k n, (k, n) ∈ g.nodes → n.nid = k
  edgeKey : ∀ k e, (k, e) ∈ g.edges → e.eid = k
  eidsNodup : ∀ k n, (k, n) ∈ g.nodes → ∀ d, (n.eids d).Nodup
  nodeEdge : ∀ k n, (k, n) ∈ g.nodes → ∀ d eid, eid ∈ n.eids d → ∃ e, (eid, e) ∈ g.edges ∧ e.nid (!d) = k
  edgeNode : ∀ k e, (k, e) ∈ g.edges → ∀ d, ∃ n, (e.nid d, n) ∈ g.nodes ∧ k ∈ n.eids (!d)
  termNode : ∀ d, ∃ n, (g.term d, n) ∈ g.nodes ∧ n.eids d = []
  opicsSorted : ∀ k e, (k, e) ∈ g.edges → e.opics = sortOpics e.opics

theorem SValid.node_unique {g : Graph κ} (h : SValid g) {k : Int} {n n' : Node}
    (h1 : (k, n) ∈ g.nodes) (h2 : (k, n') ∈ g.nodes) : n = n' := by
  have a := dGet?_eq_some_of_mem h.nodesKeys h1
  have b := dGet?_eq_some_of_mem h.nodesKeys h2
  rw [a] at b; exact Option.some.inj b

theorem SValid.edge_unique {g : Graph κ} (h : SValid g) {k : Int} {e e' : Edge κ}
    (h1 : (k, e) ∈ g.edges) (h2 : (k, e') ∈ g.edges) : e = e' := by
  have a := dGet?_eq_some_of_mem h.edgesKeys h1
  have b := dGet?_eq_some_of_mem h.edgesKeys h2
  rw [a] at b; exact Option.some.inj b

/-- no edge leaves terminal 1 -/
theorem SValid.no_out_term {g : Graph κ} (h : SValid g) {k : Int} {e : Edge κ} (he : (k, e) ∈ g.edges) :
    e.nids.1 ≠ g.term true := by
  intro hx
  obtain ⟨n, hn, hk⟩ := h.edgeNode k e he false
  obtain ⟨n', hn', he'⟩ := h.termNode true
  have : e.nid false = g.term true := by simpa [Edge.nid] using hx
  rw [this] at hn
  have := h.node_unique hn hn'
  subst this
  simp [he'] at hk

/-- no edge enters terminal 0 -/
theorem SValid.no_in_term {g : Graph κ} (h : SValid g) {k : Int} {e : Edge κ} (he : (k, e) ∈ g.edges) :
    e.nids.2 ≠ g.term false := by
  intro hx
  obtain ⟨n, hn, hk⟩ := h.edgeNode k e he true
  obtain ⟨n', hn', he'⟩ := h.termNode false
  have : e.nid true = g.term false := by simpa [Edge.nid] using hx
  rw [this] at hn
  have := h.node_unique hn hn'
  subst this
  simp [he'] at hk

end Ptn.Og

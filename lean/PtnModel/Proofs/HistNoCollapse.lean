import PtnModel.Proofs.HistBoundarySvd
/-!
# C02: in the left-mode SVD sweep of `compress` a collapsed bond forces a zero trailing factor

If a bond charge list returned during the left sweep is empty (the truncation kept nothing), every later
`split_matrix_svd` runs on a matrix without rows, takes the dummy branch and pushes `0 · Anext`; the trailing
`1×1×1` factor is then `0`.  Hence: `T[0,0,0] ≠ 0` (non-zero returned scale) implies that no bond collapsed.
Shape clause only.
-/
set_option linter.unusedSectionVars false
namespace Ptn.HistWf
open Ptn.Hist Ptn.Ortho Ptn.BondOps Ptn.Dense Finset
variable {𝕜 : Type} [CommRing 𝕜] [DecidableEq 𝕜]
variable {ρ : Type} [Field ρ] [LinearOrder ρ] [IsStrictOrderedRing ρ] [RealLike ρ 𝕜]
variable {k : MPS.SvdKernels 𝕜 ρ} {tol : ρ} {qd : List Int}

theorem flatten2_nil_right (a : List Int) : QN.flatten2 a [] = [] := by
  simp [QN.flatten2]

/-- with no row charge the split takes the dummy branch: `v = 0`, `q = []` -/
theorem split_of_q0_nil {dsvd : Mat 𝕜 → Mat 𝕜 × List ρ × Mat 𝕜} {dnorm : List ρ → ρ} {dargsort : List ρ → List Nat}
    {A u v : Mat 𝕜} {s : List ρ} {q1 q : List Int}
    (hrun : splitMatrixSvd dsvd dnorm dargsort A [] q1 tol = .ok (u, s, v, q)) :
    v = Mat.zero 1 A.n ∧ q = [] := by
  obtain ⟨hq0, hq1, hsp⟩ := split_asserts hrun
  have he : (intersect1d [] q1).isEmpty = true := by
    simp [intersect1d, sortedUnique]
  rw [split_empty_cases dsvd dnorm dargsort tol hq0 hq1 hsp he] at hrun
  split at hrun
  · injection hrun with hrun
    injection hrun with h1 hrun
    injection hrun with h2 hrun
    injection hrun with h3 h4
    exact ⟨h3.symm, h4.symm⟩
  · cases hrun

theorem mat_tab_zero {M : Mat 𝕜} (h : ∀ i j, M.f i j = 0) (i j : Nat) : M.tab.f i j = 0 := by
  by_cases hr : i < M.m ∧ j < M.n
  · rw [Env.mat_tab_f M hr.1 hr.2]; exact h i j
  · exact Mat.tab_f_of_not M hr

theorem t3_tab_zero {X : T3 𝕜} (h : ∀ s p c, X.f s p c = 0) {s p c : Nat} (hs : s < X.tab.d0) (hp : p < X.tab.d1)
    (hc : c < X.tab.d2) : X.tab.f s p c = 0 := by
  rw [Env.t3_tab_f X hs hp hc]; exact h s p c

/-- a local left SVD step with empty left bond charges returns an empty bond again and pushes the zero tensor -/
theorem localLeftSvd_from_empty {A Anext A' Anext' : T3 𝕜} {qR qb : List Int}
    (h : MPS.localOrthoLeftSvd k A Anext qd [] qR tol = .ok (A', Anext', qb)) :
    qb = [] ∧ ∀ s p c, s < Anext'.d0 → p < Anext'.d1 → c < Anext'.d2 → Anext'.f s p c = 0 := by
  unfold MPS.localOrthoLeftSvd at h
  simp only [bind_ok] at h
  obtain ⟨⟨U, sigma, V, qb'⟩, hrun, h⟩ := h
  dsimp only at h
  rw [flatten2_nil_right] at hrun
  obtain ⟨hV, hq⟩ := split_of_q0_nil hrun
  split at h
  · simp [throw_map_ne] at h
  · simp only [pure_ok, Prod.mk.injEq] at h
    obtain ⟨-, rfl, rfl⟩ := h
    refine ⟨hq, fun s p c hs hp hc => t3_tab_zero (fun s p c => ?_) hs hp hc⟩
    show sumRange _ (fun b => _ * Anext.f s b c) = 0
    rw [Env.sumRange_eq]
    refine Finset.sum_eq_zero fun b _ => ?_
    rw [mat_tab_zero (M := ⟨V.m, V.n, fun p b => RealLike.ofReal (sigma.toArray.getD p 0) * V.f p b⟩)
      (fun i j => by show _ * V.f i j = 0; rw [hV]; show _ * (0 : 𝕜) = 0; rw [mul_zero]), zero_mul]

/-- a left SVD sweep that starts with empty left bond charges ends with a zero trailing factor -/
theorem sweepLeftSvd_from_empty : ∀ {rest : List (T3 𝕜)} {A : T3 𝕜} {qRs : List (List Int)} {As : List (T3 𝕜)}
    {qs : List (List Int)} {T : T3 𝕜},
    MPS.sweepLeftSvd k qd tol A [] rest qRs = .ok (As, qs, T) → T.d0 = 1 → T.d1 = 1 → T.d2 = 1 → T.f 0 0 0 = 0
  | [], A, [], _, _, _, h, _, _, _ => by simp [MPS.sweepLeftSvd] at h
  | [], A, [qR], As, qs, T, h, h0, h1, h2 => by
    rw [MPS.sweepLeftSvd] at h
    simp only [bind_ok, pure_ok, Prod.mk.injEq] at h
    obtain ⟨⟨A', T', qb⟩, hl, _, _, rfl, rfl, rfl⟩ := h
    exact (localLeftSvd_from_empty hl).2 0 0 0 (by rw [h0]; exact Nat.one_pos) (by rw [h1]; exact Nat.one_pos)
      (by rw [h2]; exact Nat.one_pos)
  | [], A, _ :: _ :: _, _, _, _, h, _, _, _ => by simp [MPS.sweepLeftSvd] at h
  | Anext :: rest, A, [], _, _, _, h, _, _, _ => by simp [MPS.sweepLeftSvd] at h
  | Anext :: rest, A, qR :: qRest, As, qs, T, h, h0, h1, h2 => by
    rw [MPS.sweepLeftSvd] at h
    simp only [bind_ok, pure_ok, Prod.mk.injEq] at h
    obtain ⟨⟨A', Anext', qb⟩, hl, _, _, ⟨As', qs', T'⟩, hs, rfl, rfl, rfl⟩ := h
    obtain ⟨rfl, -⟩ := localLeftSvd_from_empty hl
    exact sweepLeftSvd_from_empty hs h0 h1 h2

/-- **no collapse**: a successful left SVD sweep with a non-zero `1×1×1` trailing factor returned only non-empty
bond charge lists -/
theorem sweepLeftSvd_noCollapse (hshape : ∀ B, SvdShapeAt k.dsvd B) : ∀ {rest : List (T3 𝕜)} {A : T3 𝕜} {qL : List Int}
    {qRs : List (List Int)} {As : List (T3 𝕜)} {qs : List (List Int)} {T : T3 𝕜},
    MPS.sweepLeftSvd k qd tol A qL rest qRs = .ok (As, qs, T) → T.d0 = 1 → T.d1 = 1 → T.d2 = 1 → T.f 0 0 0 ≠ 0 →
    ∀ q ∈ qs, q ≠ []
  | [], A, qL, [], _, _, _, h, _, _, _, _ => by simp [MPS.sweepLeftSvd] at h
  | [], A, qL, [qR], As, qs, T, h, h0, h1, h2, hT => by
    rw [MPS.sweepLeftSvd] at h
    simp only [bind_ok, pure_ok, Prod.mk.injEq] at h
    obtain ⟨⟨A', T', qb⟩, hl, _, _, rfl, rfl, rfl⟩ := h
    obtain ⟨e, hlen⟩ := localLeftSvd_last hshape hl h1 hT
    intro q hq
    simp only [List.mem_singleton] at hq
    subst hq
    intro hq0
    rw [e] at hq0
    rw [hq0] at hlen
    simp at hlen
  | [], A, qL, _ :: _ :: _, _, _, _, h, _, _, _, _ => by simp [MPS.sweepLeftSvd] at h
  | Anext :: rest, A, qL, [], _, _, _, h, _, _, _, _ => by simp [MPS.sweepLeftSvd] at h
  | Anext :: rest, A, qL, qR :: qRest, As, qs, T, h, h0, h1, h2, hT => by
    rw [MPS.sweepLeftSvd] at h
    simp only [bind_ok, pure_ok, Prod.mk.injEq] at h
    obtain ⟨⟨A', Anext', qb⟩, hl, _, _, ⟨As', qs', T'⟩, hs, rfl, rfl, rfl⟩ := h
    intro q hq
    rcases List.mem_cons.1 hq with rfl | hq
    · intro hq0
      subst hq0
      exact hT (sweepLeftSvd_from_empty hs h0 h1 h2)
    · exact sweepLeftSvd_noCollapse hshape hs h0 h1 h2 hT q hq

end Ptn.HistWf

import PtnModel.Proofs.EnvBasic
/-!
# Bond chains, products of site matrices, and the digit-indexed dense meaning

* `Chain3 ds As Dl Dr` : the MPS tensors `As` have physical dimensions `ds`, left bond `Dl`, right bond `Dr`
  and consecutive bond dimensions agree; `Chain4` likewise for MPO tensors (both physical dimensions `ds`).
* `pmat As σ b c = (∏ₖ Aₖ[σₖ])[b, c]`, `pmatO Ws σ τ b c = (∏ₖ Wₖ[σₖ, τₖ])[b, c]` (sums over the actual bond ranges).
* `ampRow_eq`, `elemRow_eq` : the model's row-vector recursions `MPS.ampRow`, `MPO.elemRow` are `v ⬝ pmat`;
  hence `MPS.amp ψ σ = pmat ψ.A σ 0 0` and `MPO.elem o σ τ = pmatO o.A σ τ 0 0` on chains from 1 to 1.
* `pmat_append`, `pmatO_append` : splitting a chain.
-/
set_option linter.unusedSectionVars false
set_option linter.unusedVariables false
namespace Ptn.Env
open Finset

section chain
variable {α : Type}

def Chain3 : List Nat → List (T3 α) → Nat → Nat → Prop
  | [], [], Dl, Dr => Dl = Dr
  | d :: ds, A :: As, Dl, Dr => A.d0 = d ∧ A.d1 = Dl ∧ Chain3 ds As A.d2 Dr
  | _, _, _, _ => False

def Chain4 : List Nat → List (T4 α) → Nat → Nat → Prop
  | [], [], Dl, Dr => Dl = Dr
  | d :: ds, W :: Ws, Dl, Dr => W.d0 = d ∧ W.d1 = d ∧ W.d2 = Dl ∧ Chain4 ds Ws W.d3 Dr
  | _, _, _, _ => False

@[simp] theorem chain3_nil {Dl Dr : Nat} : Chain3 [] ([] : List (T3 α)) Dl Dr ↔ Dl = Dr := by simp [Chain3]
@[simp] theorem chain3_cons {d : Nat} {ds : List Nat} {A : T3 α} {As : List (T3 α)} {Dl Dr : Nat} :
    Chain3 (d :: ds) (A :: As) Dl Dr ↔ A.d0 = d ∧ A.d1 = Dl ∧ Chain3 ds As A.d2 Dr := by simp [Chain3]
@[simp] theorem chain3_nil_cons {A : T3 α} {As : List (T3 α)} {Dl Dr : Nat} :
    ¬ Chain3 [] (A :: As) Dl Dr := by simp [Chain3]
@[simp] theorem chain3_cons_nil {d : Nat} {ds : List Nat} {Dl Dr : Nat} :
    ¬ Chain3 (d :: ds) ([] : List (T3 α)) Dl Dr := by simp [Chain3]

@[simp] theorem chain4_nil {Dl Dr : Nat} : Chain4 [] ([] : List (T4 α)) Dl Dr ↔ Dl = Dr := by simp [Chain4]
@[simp] theorem chain4_cons {d : Nat} {ds : List Nat} {A : T4 α} {As : List (T4 α)} {Dl Dr : Nat} :
    Chain4 (d :: ds) (A :: As) Dl Dr ↔ A.d0 = d ∧ A.d1 = d ∧ A.d2 = Dl ∧ Chain4 ds As A.d3 Dr := by
  simp [Chain4]
@[simp] theorem chain4_nil_cons {A : T4 α} {As : List (T4 α)} {Dl Dr : Nat} :
    ¬ Chain4 [] (A :: As) Dl Dr := by simp [Chain4]
@[simp] theorem chain4_cons_nil {d : Nat} {ds : List Nat} {Dl Dr : Nat} :
    ¬ Chain4 (d :: ds) ([] : List (T4 α)) Dl Dr := by simp [Chain4]

instance decChain3 : (ds : List Nat) → (As : List (T3 α)) → (Dl Dr : Nat) → Decidable (Chain3 ds As Dl Dr)
  | [], [], Dl, Dr => decidable_of_iff _ chain3_nil.symm
  | d :: ds, A :: As, Dl, Dr =>
      have := decChain3 ds As A.d2 Dr
      decidable_of_iff _ chain3_cons.symm
  | [], _ :: _, _, _ => isFalse chain3_nil_cons
  | _ :: _, [], _, _ => isFalse chain3_cons_nil

instance decChain4 : (ds : List Nat) → (As : List (T4 α)) → (Dl Dr : Nat) → Decidable (Chain4 ds As Dl Dr)
  | [], [], Dl, Dr => decidable_of_iff _ chain4_nil.symm
  | d :: ds, A :: As, Dl, Dr =>
      have := decChain4 ds As A.d3 Dr
      decidable_of_iff _ chain4_cons.symm
  | [], _ :: _, _, _ => isFalse chain4_nil_cons
  | _ :: _, [], _, _ => isFalse chain4_cons_nil

theorem chain3_length {ds : List Nat} {As : List (T3 α)} {Dl Dr : Nat} (h : Chain3 ds As Dl Dr) :
    As.length = ds.length := by
  induction ds generalizing As Dl with
  | nil => cases As <;> simp_all
  | cons d ds ih =>
    cases As with
    | nil => simp at h
    | cons A As => simp only [chain3_cons] at h; simp [ih h.2.2]

theorem chain4_length {ds : List Nat} {As : List (T4 α)} {Dl Dr : Nat} (h : Chain4 ds As Dl Dr) :
    As.length = ds.length := by
  induction ds generalizing As Dl with
  | nil => cases As <;> simp_all
  | cons d ds ih =>
    cases As with
    | nil => simp at h
    | cons A As => simp only [chain4_cons] at h; simp [ih h.2.2.2]

theorem chain3_getLast {ds : List Nat} {As : List (T3 α)} {Dl Dr : Nat} (h : Chain3 ds As Dl Dr)
    (hne : As ≠ []) : ∃ Al, As.getLast? = some Al ∧ Al.d2 = Dr := by
  induction ds generalizing As Dl with
  | nil => cases As <;> simp_all
  | cons d ds ih =>
    cases As with
    | nil => simp at h
    | cons A As =>
      simp only [chain3_cons] at h
      cases As with
      | nil =>
        cases ds with
        | nil => exact ⟨A, rfl, by simpa using h.2.2⟩
        | cons _ _ => simp at h
      | cons A' As' =>
        obtain ⟨Al, h1, h2⟩ := ih h.2.2 (by simp)
        exact ⟨Al, by rw [List.getLast?_cons_cons]; exact h1, h2⟩

theorem chain3_append {ds es : List Nat} {As Bs : List (T3 α)} {Dl Dm Dr : Nat}
    (h1 : Chain3 ds As Dl Dm) (h2 : Chain3 es Bs Dm Dr) : Chain3 (ds ++ es) (As ++ Bs) Dl Dr := by
  induction ds generalizing As Dl with
  | nil => cases As <;> simp_all
  | cons d ds ih =>
    cases As with
    | nil => simp at h1
    | cons A As =>
      simp only [chain3_cons] at h1
      simp only [List.cons_append, chain3_cons]
      exact ⟨h1.1, h1.2.1, ih h1.2.2⟩

theorem chain4_append {ds es : List Nat} {As Bs : List (T4 α)} {Dl Dm Dr : Nat}
    (h1 : Chain4 ds As Dl Dm) (h2 : Chain4 es Bs Dm Dr) : Chain4 (ds ++ es) (As ++ Bs) Dl Dr := by
  induction ds generalizing As Dl with
  | nil => cases As <;> simp_all
  | cons d ds ih =>
    cases As with
    | nil => simp at h1
    | cons A As =>
      simp only [chain4_cons] at h1
      simp only [List.cons_append, chain4_cons]
      exact ⟨h1.1, h1.2.1, h1.2.2.1, ih h1.2.2.2⟩

/-- splitting a chain at position `i` -/
theorem chain3_split {ds : List Nat} {As : List (T3 α)} {Dl Dr : Nat} (h : Chain3 ds As Dl Dr) (i : Nat) :
    ∃ Dm, Chain3 (ds.take i) (As.take i) Dl Dm ∧ Chain3 (ds.drop i) (As.drop i) Dm Dr := by
  induction i generalizing ds As Dl with
  | zero => exact ⟨Dl, by simp, by simpa using h⟩
  | succ i ih =>
    cases ds with
    | nil => cases As <;> simp_all
    | cons d ds =>
      cases As with
      | nil => simp at h
      | cons A As =>
        simp only [chain3_cons] at h
        obtain ⟨Dm, h1, h2⟩ := ih h.2.2
        exact ⟨Dm, by simp only [List.take_succ_cons, chain3_cons]; exact ⟨h.1, h.2.1, h1⟩, by simpa using h2⟩

theorem chain4_split {ds : List Nat} {As : List (T4 α)} {Dl Dr : Nat} (h : Chain4 ds As Dl Dr) (i : Nat) :
    ∃ Dm, Chain4 (ds.take i) (As.take i) Dl Dm ∧ Chain4 (ds.drop i) (As.drop i) Dm Dr := by
  induction i generalizing ds As Dl with
  | zero => exact ⟨Dl, by simp, by simpa using h⟩
  | succ i ih =>
    cases ds with
    | nil => cases As <;> simp_all
    | cons d ds =>
      cases As with
      | nil => simp at h
      | cons A As =>
        simp only [chain4_cons] at h
        obtain ⟨Dm, h1, h2⟩ := ih h.2.2.2
        exact ⟨Dm, by simp only [List.take_succ_cons, chain4_cons]; exact ⟨h.1, h.2.1, h.2.2.1, h1⟩,
          by simpa using h2⟩

end chain

section pmat
variable {R : Type} [CommRing R]

/-- `(∏ₖ Aₖ[σₖ])[b, c]` -/
def pmat : List (T3 R) → List Nat → Nat → Nat → R
  | A :: As, s :: ss, b, c => ∑ x ∈ range A.d2, A.f s b x * pmat As ss x c
  | _, _, b, c => if b = c then 1 else 0

/-- `(∏ₖ Wₖ[σₖ, τₖ])[b, c]` -/
def pmatO : List (T4 R) → List Nat → List Nat → Nat → Nat → R
  | W :: Ws, s :: ss, t :: ts, b, c => ∑ x ∈ range W.d3, W.f s t b x * pmatO Ws ss ts x c
  | _, _, _, b, c => if b = c then 1 else 0

@[simp] theorem pmat_cons (A : T3 R) (As : List (T3 R)) (s : Nat) (ss : List Nat) (b c : Nat) :
    pmat (A :: As) (s :: ss) b c = ∑ x ∈ range A.d2, A.f s b x * pmat As ss x c := rfl
@[simp] theorem pmat_nil (σ : List Nat) (b c : Nat) : pmat ([] : List (T3 R)) σ b c = if b = c then 1 else 0 := by
  simp [pmat]
@[simp] theorem pmatO_cons (W : T4 R) (Ws : List (T4 R)) (s t : Nat) (ss ts : List Nat) (b c : Nat) :
    pmatO (W :: Ws) (s :: ss) (t :: ts) b c = ∑ x ∈ range W.d3, W.f s t b x * pmatO Ws ss ts x c := rfl
@[simp] theorem pmatO_nil (σ τ : List Nat) (b c : Nat) :
    pmatO ([] : List (T4 R)) σ τ b c = if b = c then 1 else 0 := by
  simp [pmatO]

theorem sum_ite_eq_of_lt {n c : Nat} (hc : c < n) (v : Nat → R) :
    ∑ b ∈ range n, v b * (if b = c then 1 else 0) = v c := by
  simp [Finset.sum_ite_eq', hc]

theorem sum_ite_eq_of_lt' {n c : Nat} (hc : c < n) (v : Nat → R) :
    ∑ b ∈ range n, (if c = b then 1 else 0) * v b = v c := by
  simp [Finset.sum_ite_eq, hc]

/-- the model's row recursion is `v ⬝ pmat` -/
theorem ampRow_eq {ds : List Nat} {As : List (T3 R)} {Dl Dr : Nat} (h : Chain3 ds As Dl Dr)
    {σ : List Nat} (hσ : σ ∈ digits ds) (v : Nat → R) {c : Nat} (hc : c < Dr) :
    MPS.ampRow As σ v c = ∑ b ∈ range Dl, v b * pmat As σ b c := by
  induction ds generalizing As Dl σ v with
  | nil =>
    cases As with
    | cons _ _ => simp at h
    | nil =>
      simp only [chain3_nil] at h
      subst h
      simp only [digits_nil, Finset.mem_singleton] at hσ
      subst hσ
      simp only [MPS.ampRow, pmat_nil]
      rw [sum_ite_eq_of_lt hc]
  | cons d ds ih =>
    cases As with
    | nil => simp at h
    | cons A As =>
      simp only [chain3_cons] at h
      obtain ⟨x, t, _, ht, rfl⟩ := mem_digits_cons.1 hσ
      simp only [MPS.ampRow, pmat_cons]
      rw [ih h.2.2 ht]
      simp only [sumRange_eq, h.2.1, Finset.sum_mul, Finset.mul_sum]
      rw [Finset.sum_comm]
      refine Finset.sum_congr rfl fun a _ => Finset.sum_congr rfl fun b _ => ?_
      ring

theorem elemRow_eq {ds : List Nat} {Ws : List (T4 R)} {Dl Dr : Nat} (h : Chain4 ds Ws Dl Dr)
    {σ τ : List Nat} (hσ : σ ∈ digits ds) (hτ : τ ∈ digits ds) (v : Nat → R) {c : Nat} (hc : c < Dr) :
    MPO.elemRow Ws σ τ v c = ∑ b ∈ range Dl, v b * pmatO Ws σ τ b c := by
  induction ds generalizing Ws Dl σ τ v with
  | nil =>
    cases Ws with
    | cons _ _ => simp at h
    | nil =>
      simp only [chain4_nil] at h
      subst h
      simp only [digits_nil, Finset.mem_singleton] at hσ hτ
      subst hσ hτ
      simp only [MPO.elemRow, pmatO_nil]
      rw [sum_ite_eq_of_lt hc]
  | cons d ds ih =>
    cases Ws with
    | nil => simp at h
    | cons W Ws =>
      simp only [chain4_cons] at h
      obtain ⟨x, t, _, ht, rfl⟩ := mem_digits_cons.1 hσ
      obtain ⟨y, u, _, hu, rfl⟩ := mem_digits_cons.1 hτ
      simp only [MPO.elemRow, pmatO_cons]
      rw [ih h.2.2.2 ht hu]
      simp only [sumRange_eq, h.2.2.1, Finset.sum_mul, Finset.mul_sum]
      rw [Finset.sum_comm]
      refine Finset.sum_congr rfl fun a _ => Finset.sum_congr rfl fun b _ => ?_
      ring

theorem amp_eq_pmat {ds : List Nat} {ψ : MPS R} (h : Chain3 ds ψ.A 1 1) {σ : List Nat} (hσ : σ ∈ digits ds) :
    ψ.amp σ = pmat ψ.A σ 0 0 := by
  rw [MPS.amp, ampRow_eq h hσ _ Nat.one_pos]
  simp

theorem elem_eq_pmatO {ds : List Nat} {o : MPO R} (h : Chain4 ds o.A 1 1) {σ τ : List Nat}
    (hσ : σ ∈ digits ds) (hτ : τ ∈ digits ds) : o.elem σ τ = pmatO o.A σ τ 0 0 := by
  rw [MPO.elem, elemRow_eq h hσ hτ _ Nat.one_pos]
  simp

/-- suffix amplitude with left boundary index `b`, written with the model's `ampRow` -/
theorem ampRow_basis {ds : List Nat} {As : List (T3 R)} {Dl Dr : Nat} (h : Chain3 ds As Dl Dr)
    {σ : List Nat} (hσ : σ ∈ digits ds) {b c : Nat} (hb : b < Dl) (hc : c < Dr) :
    MPS.ampRow As σ (fun a => if a = b then 1 else 0) c = pmat As σ b c := by
  rw [ampRow_eq h hσ _ hc]
  simp [Finset.sum_ite_eq', hb]

theorem elemRow_basis {ds : List Nat} {Ws : List (T4 R)} {Dl Dr : Nat} (h : Chain4 ds Ws Dl Dr)
    {σ τ : List Nat} (hσ : σ ∈ digits ds) (hτ : τ ∈ digits ds) {b c : Nat} (hb : b < Dl) (hc : c < Dr) :
    MPO.elemRow Ws σ τ (fun a => if a = b then 1 else 0) c = pmatO Ws σ τ b c := by
  rw [elemRow_eq h hσ hτ _ hc]
  simp [Finset.sum_ite_eq', hb]

theorem pmat_append {ds : List Nat} {As : List (T3 R)} {Dl Dm : Nat} (h : Chain3 ds As Dl Dm)
    (Bs : List (T3 R)) {σ : List Nat} (hσ : σ ∈ digits ds) (τ : List Nat) {b : Nat} (hb : b < Dl) (c : Nat) :
    pmat (As ++ Bs) (σ ++ τ) b c = ∑ x ∈ range Dm, pmat As σ b x * pmat Bs τ x c := by
  induction ds generalizing As Dl σ b with
  | nil =>
    cases As with
    | cons _ _ => simp at h
    | nil =>
      simp only [chain3_nil] at h
      subst h
      simp only [digits_nil, Finset.mem_singleton] at hσ
      subst hσ
      simp only [List.nil_append, pmat_nil]
      rw [sum_ite_eq_of_lt' hb]
  | cons d ds ih =>
    cases As with
    | nil => simp at h
    | cons A As =>
      simp only [chain3_cons] at h
      obtain ⟨x, t, _, ht, rfl⟩ := mem_digits_cons.1 hσ
      simp only [List.cons_append, pmat_cons, Finset.sum_mul]
      rw [Finset.sum_comm]
      refine Finset.sum_congr rfl fun y hy => ?_
      rw [ih h.2.2 ht (by simpa using hy), Finset.mul_sum]
      refine Finset.sum_congr rfl fun z _ => ?_
      ring

theorem pmatO_append {ds : List Nat} {Ws : List (T4 R)} {Dl Dm : Nat} (h : Chain4 ds Ws Dl Dm)
    (Vs : List (T4 R)) {σ τ : List Nat} (hσ : σ ∈ digits ds) (hτ : τ ∈ digits ds) (σ' τ' : List Nat)
    {b : Nat} (hb : b < Dl) (c : Nat) :
    pmatO (Ws ++ Vs) (σ ++ σ') (τ ++ τ') b c = ∑ x ∈ range Dm, pmatO Ws σ τ b x * pmatO Vs σ' τ' x c := by
  induction ds generalizing Ws Dl σ τ b with
  | nil =>
    cases Ws with
    | cons _ _ => simp at h
    | nil =>
      simp only [chain4_nil] at h
      subst h
      simp only [digits_nil, Finset.mem_singleton] at hσ hτ
      subst hσ hτ
      simp only [List.nil_append, pmatO_nil]
      rw [sum_ite_eq_of_lt' hb]
  | cons d ds ih =>
    cases Ws with
    | nil => simp at h
    | cons W Ws =>
      simp only [chain4_cons] at h
      obtain ⟨x, t, _, ht, rfl⟩ := mem_digits_cons.1 hσ
      obtain ⟨y, u, _, hu, rfl⟩ := mem_digits_cons.1 hτ
      simp only [List.cons_append, pmatO_cons, Finset.sum_mul]
      rw [Finset.sum_comm]
      refine Finset.sum_congr rfl fun z hz => ?_
      rw [ih h.2.2.2 ht hu (by simpa using hz), Finset.mul_sum]
      refine Finset.sum_congr rfl fun z' _ => ?_
      ring

end pmat
end Ptn.Env

import PtnModel.Proofs.EvoSpectral
/-!
# Exactness of the Hermitian Krylov exponential once the Krylov space is exhausted

`expm_exact_partial` (C15) writes the result as `∑_e dexp(dt θ_e) c_e u_e` for *one* eigen-decomposition `v = ∑ c_e u_e`
(the Ritz pairs).  Here:
* `expm_spectral` : the result is `∑_f dexp(dt μ_f) b_f w_f` for **every** decomposition `v = ∑ b_f w_f` of the start vector
  into eigenvectors of `A` (uniqueness of the spectral calculus, `Evo.spectral_unique`);
* `expm_linear`   : the result is `G v` for every linear map `G` that multiplies each eigenvector of `A` with eigenvalue
  `θ` by `dexp(dt θ)` — the defining property of `exp(dt A)` on the Krylov space, for any definition of the matrix
  exponential.
-/
set_option linter.unusedSectionVars false
namespace Ptn.Krylov
open Ptn Finset Ptn.Evo

variable {𝕜 : Type} [RCLike 𝕜]
local notation "conj" => starRingEnd 𝕜

variable {Afun : List 𝕜 → List 𝕜} {dnorm : List 𝕜 → ℝ} {deigh : List ℝ → List ℝ → List ℝ × Mat ℝ}
  {dexp : 𝕜 → 𝕜} {dexpm : Mat 𝕜 → Mat 𝕜}

/-- the result of the Hermitian branch is the spectral function `dexp(dt ·)` of `A` applied to `v`, computed from any
eigen-decomposition of `v` -/
theorem expm_spectral (hN : NormContract dnorm) {v : List 𝕜} {numiter : Nat} {M : Nat → Nat → 𝕜}
    (hM : ActsAs v.length Afun M) (hH : ∀ i j, i < v.length → j < v.length → conj (M i j) = M j i)
    (hE : C15.EighAt Afun dnorm deigh v numiter) (hX : C15.Exhausted Afun dnorm v numiter) {dt : 𝕜} {r : List 𝕜}
    (h : expmKrylov Afun dnorm deigh dexp dexpm v dt numiter true = .ok r) :
    r.length = v.length ∧
    (∃ (k : Nat) (θ : Nat → ℝ) (c : Nat → 𝕜) (u : Nat → List 𝕜),
      (∀ e, e < k → IsEigen v.length Afun (θ e) (u e)) ∧
      (∀ i, i < v.length → vget v i = ∑ e ∈ range k, c e * vget (u e) i)) ∧
    ∀ (K : Nat) (μ : Nat → ℝ) (b : Nat → 𝕜) (w : Nat → List 𝕜),
      (∀ f, f < K → IsEigen v.length Afun (μ f) (w f)) →
      (∀ i, i < v.length → vget v i = ∑ f ∈ range K, b f * vget (w f) i) →
      ∀ i, i < v.length → vget r i = ∑ f ∈ range K, dexp (dt * ((μ f : ℝ) : 𝕜)) * b f * vget (w f) i := by
  have hA : IsHermitian v.length Afun := hM.isHermitian hH
  obtain ⟨k, θ, c, u, hu, hv, hrl, hr⟩ := C15.expm_exact_partial hN hM hH hE hX h
  have hU : ∀ e, e < k → IsEigen v.length Afun (θ e) (u e) := fun e he => ⟨(hu e he).1, (hu e he).2.2⟩
  refine ⟨hrl, ⟨k, θ, c, u, hU, hv⟩, ?_⟩
  intro K μ b w hw hvw i hi
  have hx : ∀ j, j < v.length → ∑ e ∈ range k, c e * vget (u e) j = ∑ f ∈ range K, b f * vget (w f) j :=
    fun j hj => by rw [← hv j hj, ← hvw j hj]
  rw [hr i hi]
  exact spectral_unique hA hU hw hx (fun x => dexp (dt * ((x : ℝ) : 𝕜))) i hi

/-- the result of the Hermitian branch is `G v` for every linear map `G` (acting as a matrix `N` on vectors of length `n`)
that multiplies every eigenvector of `A` with real eigenvalue `θ` by `dexp(dt θ)` -/
theorem expm_linear (hN : NormContract dnorm) {v : List 𝕜} {numiter : Nat} {M : Nat → Nat → 𝕜}
    (hM : ActsAs v.length Afun M) (hH : ∀ i j, i < v.length → j < v.length → conj (M i j) = M j i)
    (hE : C15.EighAt Afun dnorm deigh v numiter) (hX : C15.Exhausted Afun dnorm v numiter) {dt : 𝕜} {r : List 𝕜}
    (h : expmKrylov Afun dnorm deigh dexp dexpm v dt numiter true = .ok r)
    {G : List 𝕜 → List 𝕜} {N : Nat → Nat → 𝕜} (hG : ActsAs v.length G N)
    (hGe : ∀ (θ : ℝ) (u : List 𝕜), IsEigen v.length Afun θ u →
      ∀ i, i < v.length → vget (G u) i = dexp (dt * ((θ : ℝ) : 𝕜)) * vget u i) :
    ∀ i, i < v.length → vget r i = vget (G v) i := by
  obtain ⟨_, ⟨k, θ, c, u, hU, hv⟩, hall⟩ := expm_spectral hN hM hH hE hX h
  intro i hi
  rw [hall k θ c u hU hv i hi]
  have hcomb := hG.comb (y := v) rfl (fun d hd => (hU d hd).1) (fun j hj => hv j hj)
  rw [hcomb i hi]
  refine sum_congr rfl fun e he => ?_
  rw [hGe (θ e) (u e) (hU e (mem_range.1 he)) i hi]
  ring

end Ptn.Krylov

import PtnModel.Proofs.EvoLocal
import PtnModel.Proofs.EvoSpectral
/-!
# A forward and a backward local step cancel (exact local exponentials)

`localStep_cancel` : `_local_hamiltonian_step(L, R, W, ·, dt)` followed by `_local_hamiltonian_step(L, R, W, ·, -dt)` with
the same Hermitian effective operator returns the start tensor, for every complex `dt`, provided both Lanczos runs
exhaust their Krylov spaces (exact local exponentials) and the scalar exponential satisfies `E(a) E(-a) = 1` on the
arguments that occur.
-/
set_option linter.unusedSectionVars false

namespace Ptn.Evo
open Ptn Ptn.Krylov Ptn.Dense Finset

variable {𝕜 : Type} [RCLike 𝕜] [DecidableEq 𝕜]
local notation "conj" => starRingEnd 𝕜

theorem localStep_cancel {k : EvoKernels 𝕜 ℝ} {L R : T3 𝕜} {W : T4 𝕜} {A A1 A2 : T3 𝕜} {dt : 𝕜} {m m' : Nat}
    (hN : NormContract k.cnorm) (hF : LocalFits L R W A.d0 A.d1 A.d2) (hH : LocalHermitian L R W A.d0 A.d1 A.d2)
    (hE : C15.EighAt (localHFun L R W A.d0 A.d1 A.d2) k.cnorm k.deigh (flat3 A) m)
    (hX : C15.Exhausted (localHFun L R W A.d0 A.d1 A.d2) k.cnorm (flat3 A) m)
    (h1 : localHamiltonianStep k L R W A dt m = .ok A1)
    (hE' : C15.EighAt (localHFun L R W A.d0 A.d1 A.d2) k.cnorm k.deigh (flat3 A1) m')
    (hX' : C15.Exhausted (localHFun L R W A.d0 A.d1 A.d2) k.cnorm (flat3 A1) m')
    (h2 : localHamiltonianStep k L R W A1 (-dt) m' = .ok A2)
    (hexp : ∀ x : ℝ, k.dexp (dt * (x : 𝕜)) * k.dexp (-dt * (x : 𝕜)) = 1) :
    A2.d0 = A.d0 ∧ A2.d1 = A.d1 ∧ A2.d2 = A.d2 ∧
      ∀ s a b, s < A.d0 → a < A.d1 → b < A.d2 → A2.f s a b = A.f s a b := by
  obtain ⟨y, hy, rfl⟩ := localStep_unfold h1
  obtain ⟨z, hz, rfl⟩ := localStep_unfold h2
  have hA := isHermitian_localHFun hF hH
  have hM := actsAs_localHFun hF
  have hHM := herm_matrix_of_actsAs hA hM
  rw [← length_flat3 A] at hA hM hHM
  -- length of the intermediate vector
  obtain ⟨_, _, _, _, _, _, hyl, _⟩ := C15.expm_exact_partial hN hM hHM hE hX hy
  rw [length_flat3] at hyl
  have hfl : flat3 (unflat3 y A.d0 A.d1 A.d2).tab = y := flat3_unflat3_tab hyl
  rw [hfl] at hE' hX'
  change expmKrylov (localHFun L R W A.d0 A.d1 A.d2) k.cnorm k.deigh k.dexp k.dexpm
    (flat3 (unflat3 y A.d0 A.d1 A.d2).tab) (-(-dt)) m' true = .ok z at hz
  rw [hfl] at hz
  obtain ⟨hzl, hzv⟩ := expm_cancel hN hM hHM hE hX hy hE' hX' hz (fun x => by
    have := hexp x
    rw [neg_neg]
    exact this)
  rw [length_flat3] at hzl hzv
  refine ⟨rfl, rfl, rfl, ?_⟩
  intro s a b hs ha hb
  show (unflat3 z A.d0 A.d1 A.d2).tab.f s a b = _
  rw [Env.t3_tab_f (A := unflat3 z A.d0 A.d1 A.d2) hs ha hb, unflat3_f, hzv _ (idx3_lt hs ha hb), vget_flat3 A hs ha hb]

end Ptn.Evo

import PtnModel.Proofs.EvoWf
/-!
# Structural facts about the TDVP drivers

* `wf_index`, `sweepWf_init` : the state after the prologue satisfies the shape invariant;
* `integrate1_struct`       : `integrate_local_singlesite` returns the factor of the initial right-orthonormalisation,
                              the result has the physical charges / number of sites / number of bonds of the input, and
                              no bond is larger than after the initial orthonormalisation;
* `integrate2_struct`       : the same (without the bond clause) for the two-site integrator.
-/
set_option linter.unusedSectionVars false

namespace Ptn.Evo
open Ptn Ptn.Krylov Ptn.Dense Ptn.BondOps Ptn.Ortho

variable {𝕜 : Type} [RCLike 𝕜] [DecidableEq 𝕜]

omit [RCLike 𝕜] [DecidableEq 𝕜] in
theorem toArray_getD {β : Type} (l : List β) (i : Nat) (d : β) : l.toArray.getD i d = l.getD i d := by
  simp [Array.getD_eq_getD_getElem?, List.getD_eq_getElem?_getD]

omit [RCLike 𝕜] [DecidableEq 𝕜] in
theorem toList_getD {β : Type} (a : Array β) (i : Nat) (d : β) : a.toList.getD i d = a.getD i d := by
  simp [Array.getD_eq_getD_getElem?, List.getD_eq_getElem?_getD]

/-- index form of `MPS.wellFormed` -/
theorem wf_index {ψ : MPS 𝕜} (h : ψ.wellFormed = true) :
    ψ.qD.length = ψ.A.length + 1 ∧ ∀ i, i < ψ.A.length →
      (ψ.A.getD i emptyT3).d0 = ψ.qd.length ∧ (ψ.A.getD i emptyT3).d1 = (ψ.qD.getD i []).length ∧
      (ψ.A.getD i emptyT3).d2 = (ψ.qD.getD (i + 1) []).length ∧
      SparseT3 (ψ.A.getD i emptyT3) ψ.qd (ψ.qD.getD i []) (ψ.qD.getD (i + 1) []) := by
  unfold MPS.wellFormed at h
  rw [Bool.and_eq_true, beq_iff_eq, List.all_eq_true] at h
  refine ⟨h.1, fun i hi => ?_⟩
  have := h.2 i (List.mem_range.2 hi)
  rw [List.getElem?_eq_getElem hi] at this
  simp only [Bool.and_eq_true, beq_iff_eq] at this
  have e : ψ.A.getD i emptyT3 = ψ.A[i] := by simp [List.getD_eq_getElem?_getD, hi]
  rw [e]
  exact ⟨this.1.1.1, this.1.1.2, this.1.2, (isSparseT3_iff _ _ _ _).1 this.2⟩

/-- the sweep state built from an admissible MPS satisfies the shape invariant -/
theorem sweepWf_init {ψ : MPS 𝕜} (hadm : Admissible ψ) (BL BR : Array (T3 𝕜)) :
    SweepWf ψ.qd ψ.A.length (⟨ψ.A.toArray, ψ.qD.toArray, BL, BR⟩ : Sweep 𝕜) := by
  obtain ⟨hl, hs⟩ := wf_index hadm.wf
  refine ⟨by simp, by simp [hl], ?_, ?_⟩
  · intro i hi
    show 0 < (ψ.qD.toArray.getD i []).length
    rw [toArray_getD]
    apply hadm.bond_pos
    rw [List.getD_eq_getElem?_getD, List.getElem?_eq_getElem (by omega)]
    simp
  · intro i hi
    show (ψ.A.toArray.getD i emptyT3).d0 = _ ∧ (ψ.A.toArray.getD i emptyT3).d1 = (ψ.qD.toArray.getD i []).length ∧
      (ψ.A.toArray.getD i emptyT3).d2 = (ψ.qD.toArray.getD (i + 1) []).length
    simp only [toArray_getD]
    obtain ⟨h0, h1, h2, _⟩ := hs i hi
    exact ⟨h0, h1, h2⟩

omit [DecidableEq 𝕜] in
theorem getLast_getD (l : List (List Int)) : (l.getLast?.getD []) = l.getD (l.length - 1) [] := by
  rw [List.getLast?_eq_getElem?, List.getD_eq_getElem?_getD]

/-- **Structure of `integrate_local_singlesite`.** -/
theorem integrate1_struct {k : EvoKernels 𝕜 ℝ} (hshape : ∀ B, ShapeAt k.dqr B) {H : MPO 𝕜} {ψ ψ' : MPS 𝕜} {dt : 𝕜}
    {numsteps numiter : Nat} {nrm : ℝ} (hadm : Admissible ψ)
    (h : integrateLocalSinglesite k H ψ dt numsteps numiter = .ok (ψ', nrm)) :
    ∃ ψ1, MPS.orthonormalize (ρ := ℝ) k.dqr ψ false = .ok (ψ1, nrm) ∧
      ψ'.qd = ψ.qd ∧ ψ'.A.length = ψ.A.length ∧ ψ'.qD.length = ψ.qD.length ∧ H.A.length = ψ.A.length ∧
      ∀ i, (ψ'.qD.getD i []).length ≤ (ψ1.qD.getD i []).length ∧ (ψ1.qD.getD i []).length ≤ (ψ.qD.getD i []).length := by
  obtain ⟨s0, s, hp, hL, hit, rfl⟩ := integrate1_unfold h
  obtain ⟨hHL, ψ1, BR, ho, _, _, rfl⟩ := prologue_unfold hp
  have ho' : MPS.orthonormalize (ρ := ℝ) k.dqr ψ false = .ok (ψ1, nrm) := ho
  obtain ⟨hadm1, hqd, hlen⟩ := C01.ortho_wf (dqr := k.dqr) hshape hadm ho'
  have hw0 := sweepWf_init hadm1 ((Array.replicate H.A.length emptyT3).setIfInBounds 0 ones111) BR.toArray
  rw [hlen, ← hHL, hqd] at hw0
  have hinv := iterate_inv (tdvp1Step k H ψ.qd dt numiter)
    (fun t => SweepWf ψ.qd H.A.length t ∧
      BondLe t (⟨ψ1.A.toArray, ψ1.qD.toArray, (Array.replicate H.A.length emptyT3).setIfInBounds 0 ones111, BR.toArray⟩ : Sweep 𝕜))
    (fun t t' ht ht' => by
      obtain ⟨w, b⟩ := tdvp1Step_wf hshape (hqd ▸ hadm1.d_pos) ht.1 ht'
      exact ⟨w, b.trans ht.2⟩)
    numsteps _ s ⟨hw0, BondLe.refl _⟩ hit
  obtain ⟨hl1, _⟩ := wf_index hadm1.wf
  obtain ⟨hl0, _⟩ := wf_index hadm.wf
  refine ⟨ψ1, ho', rfl, ?_, ?_, hHL, ?_⟩
  · show s.A.toList.length = _
    rw [Array.length_toList, hinv.1.sizeA, hHL]
  · show s.qD.toList.length = _
    rw [Array.length_toList, hinv.1.sizeQ, hl0, hHL]
  · intro i
    constructor
    · have := hinv.2 i
      show (s.qD.toList.getD i []).length ≤ _
      have e1 : s.qD.toList.getD i [] = getQ s i := by
        show _ = s.qD.getD i []
        rw [toList_getD]
      rw [e1]
      have e2 : getQ (⟨ψ1.A.toArray, ψ1.qD.toArray, (Array.replicate H.A.length emptyT3).setIfInBounds 0 ones111,
          BR.toArray⟩ : Sweep 𝕜) i = ψ1.qD.getD i [] := by
        show ψ1.qD.toArray.getD i [] = _
        rw [toArray_getD]
      rw [e2] at this
      exact this
    · by_cases hi : i < ψ.A.length
      · have := C01.ortho_bond (dqr := k.dqr) hshape hadm ho' hi
        simp only [Bool.false_eq_true, if_false] at this
        omega
      · by_cases hi' : i = ψ.A.length
        · have h1 := hadm1.last
          have h2 := hadm.last
          rw [getLast_getD, hl1, hlen] at h1
          rw [getLast_getD, hl0] at h2
          simp only [Nat.add_sub_cancel] at h1 h2
          rw [hi', h1, h2]
        · have e1 : ψ1.qD.getD i [] = [] := by
            rw [List.getD_eq_getElem?_getD, List.getElem?_eq_none (by omega)]; rfl
          rw [e1]; exact Nat.zero_le _

/-! ## two-site: sizes only -/

/-- the arrays of site tensors and bond charges keep their sizes -/
def SameSize (s' s : Sweep 𝕜) : Prop := s'.A.size = s.A.size ∧ s'.qD.size = s.qD.size

omit [DecidableEq 𝕜] in
theorem SameSize.refl (s : Sweep 𝕜) : SameSize s s := ⟨rfl, rfl⟩
omit [DecidableEq 𝕜] in
theorem SameSize.trans {s1 s2 s3 : Sweep 𝕜} (h1 : SameSize s1 s2) (h2 : SameSize s2 s3) : SameSize s1 s3 :=
  ⟨h1.1.trans h2.1, h1.2.trans h2.2⟩

theorem twoSiteUpdate_size {k : EvoKernels 𝕜 ℝ} {H : MPO 𝕜} {qd : List Int} {tau : 𝕜} {numiter : Nat} {tol : ℝ}
    {distr : Nat} {s s' : Sweep 𝕜} {i : Nat} (h : twoSiteUpdate k H qd tau numiter tol distr s i = .ok s') :
    SameSize s' s := by
  obtain ⟨_, _, _, _, _, _, rfl⟩ := twoSiteUpdate_unfold h
  exact ⟨by simp, by simp⟩

theorem tdvp2Left_size {k : EvoKernels 𝕜 ℝ} {H : MPO 𝕜} {qd : List Int} {dt : 𝕜} {numiter : Nat} {tol : ℝ}
    {s s' : Sweep 𝕜} {i : Nat} (h : tdvp2Left k H qd dt numiter tol s i = .ok s') : SameSize s' s := by
  obtain ⟨s1, _, _, h1, _, _, rfl⟩ := tdvp2Left_unfold h
  have := twoSiteUpdate_size h1
  exact ⟨by simp [this.1], this.2⟩

theorem tdvp2Right_size {k : EvoKernels 𝕜 ℝ} {H : MPO 𝕜} {qd : List Int} {dt : 𝕜} {numiter : Nat} {tol : ℝ}
    {s s' : Sweep 𝕜} {i : Nat} (h : tdvp2Right k H qd dt numiter tol s i = .ok s') : SameSize s' s := by
  obtain ⟨_, s1, _, _, h1, _, rfl⟩ := tdvp2Right_unfold h
  have := twoSiteUpdate_size h1
  exact ⟨by simpa using this.1, this.2⟩

theorem tdvp2Step_size {k : EvoKernels 𝕜 ℝ} {H : MPO 𝕜} {qd : List Int} {dt : 𝕜} {numiter : Nat} {tol : ℝ}
    {s s' : Sweep 𝕜} (h : tdvp2Step k H qd dt numiter tol s = .ok s') : SameSize s' s := by
  obtain ⟨s1, s2, BRn, h1, h2, _, h4⟩ := tdvp2Step_unfold h
  have e1 : SameSize s1 s := foldIdx_inv _ (fun t => SameSize t s) (fun _ => True)
    (fun x t t' _ ht ht' => (tdvp2Left_size ht').trans ht) _ (fun _ _ => trivial) s s1 (SameSize.refl s) h1
  have e2 := twoSiteUpdate_size h2
  have e3 : SameSize s' (⟨s2.A, s2.qD, s2.BL, s2.BR.setIfInBounds (H.A.length - 2) BRn⟩ : Sweep 𝕜) :=
    foldIdx_inv _ (fun t => SameSize t (⟨s2.A, s2.qD, s2.BL, s2.BR.setIfInBounds (H.A.length - 2) BRn⟩ : Sweep 𝕜))
      (fun _ => True) (fun x t t' _ ht ht' => (tdvp2Right_size ht').trans ht) _ (fun _ _ => trivial) _ s'
      (SameSize.refl _) h4
  exact e3.trans ((show SameSize (⟨s2.A, s2.qD, s2.BL, s2.BR.setIfInBounds (H.A.length - 2) BRn⟩ : Sweep 𝕜) s2 from
    ⟨rfl, rfl⟩).trans (e2.trans e1))

/-- **Structure of `integrate_local_twosite`.** -/
theorem integrate2_struct {k : EvoKernels 𝕜 ℝ} (hshape : ∀ B, ShapeAt k.dqr B) {H : MPO 𝕜} {ψ ψ' : MPS 𝕜} {dt : 𝕜}
    {numsteps numiter : Nat} {tol nrm : ℝ} (hadm : Admissible ψ)
    (h : integrateLocalTwosite k H ψ dt numsteps numiter tol = .ok (ψ', nrm)) :
    ∃ ψ1, MPS.orthonormalize (ρ := ℝ) k.dqr ψ false = .ok (ψ1, nrm) ∧
      ψ'.qd = ψ.qd ∧ ψ'.A.length = ψ.A.length ∧ ψ'.qD.length = ψ.qD.length ∧ H.A.length = ψ.A.length ∧
      2 ≤ ψ.A.length := by
  obtain ⟨s0, s, hp, hL, hit, rfl⟩ := integrate2_unfold h
  obtain ⟨hHL, ψ1, BR, ho, _, _, rfl⟩ := prologue_unfold hp
  have ho' : MPS.orthonormalize (ρ := ℝ) k.dqr ψ false = .ok (ψ1, nrm) := ho
  obtain ⟨hadm1, hqd, hlen⟩ := C01.ortho_wf (dqr := k.dqr) hshape hadm ho'
  have hinv := iterate_inv (tdvp2Step k H ψ.qd dt numiter tol)
    (fun t => SameSize t (⟨ψ1.A.toArray, ψ1.qD.toArray, (Array.replicate H.A.length emptyT3).setIfInBounds 0 ones111,
      BR.toArray⟩ : Sweep 𝕜))
    (fun t t' ht ht' => (tdvp2Step_size ht').trans ht) numsteps _ s (SameSize.refl _) hit
  obtain ⟨hl1, _⟩ := wf_index hadm1.wf
  obtain ⟨hl0, _⟩ := wf_index hadm.wf
  refine ⟨ψ1, ho', rfl, ?_, ?_, hHL, hHL ▸ hL⟩
  · show s.A.toList.length = _
    rw [Array.length_toList, hinv.1]
    simp [hlen]
  · show s.qD.toList.length = _
    rw [Array.length_toList, hinv.2]
    simp [hl1, hl0, hlen]

end Ptn.Evo

import PtnModel.Proofs.EvoCanon
/-!
# The mixed-canonical sweep invariant

`cur qd s` is the MPS held by a sweep state.  `Canon H qd s c` says: shapes fit, boundary bonds have dimension one, the
tensors left of the centre `c` are left isometries, right of it right isometries, `BL[j]` (`j ≤ c`) and `BR[j]`
(`j ≥ c`) are the partial contractions of the *current* tensors (C04 `IsLeftBlock` / `IsRightBlock`).

* `canon_replace` : replacing the centre tensor by a tensor of the same shape keeps the invariant;
* `canon_centre`  : norm and energy of the current state are the local quantities of the centre tensor;
* `canon_left`, `canon_right` : gauge moves (QR of the centre, remainder pushed into the neighbour, new block) move the
  centre and keep all amplitudes.
-/
set_option linter.unusedSectionVars false

namespace Ptn.Evo
open Ptn Ptn.BondOps Ptn.Ortho Ptn.Env Ptn.Krylov Finset

variable {𝕜 : Type} [RCLike 𝕜] [DecidableEq 𝕜]
local notation "conj" => starRingEnd 𝕜

/-- the MPS held by a sweep state -/
def cur (qd : List Int) (s : Sweep 𝕜) : MPS 𝕜 := ⟨qd, s.qD.toList, s.A.toList⟩

omit [RCLike 𝕜] [DecidableEq 𝕜] in
theorem toList_getD' {β : Type} (a : Array β) (i : Nat) (d : β) : a.toList.getD i d = a.getD i d := by
  simp [Array.getD_eq_getD_getElem?, List.getD_eq_getElem?_getD]

omit [DecidableEq 𝕜] in
theorem cur_getD (qd : List Int) (s : Sweep 𝕜) (j : Nat) : (cur qd s).A.getD j emptyT3 = getA s j :=
  toList_getD' _ _ _

omit [DecidableEq 𝕜] in
@[simp] theorem cur_length (qd : List Int) (s : Sweep 𝕜) : (cur qd s).A.length = s.A.size := by simp [cur]

omit [DecidableEq 𝕜] in
theorem cur_getElem? (qd : List Int) (s : Sweep 𝕜) {j : Nat} (hj : j < s.A.size) :
    (cur qd s).A[j]? = some (getA s j) := by
  show s.A.toList[j]? = some (s.A.getD j emptyT3)
  simp [Array.getD_eq_getD_getElem?, hj]

omit [RCLike 𝕜] [DecidableEq 𝕜] in
theorem chain3_of_index {α : Type} {d : Nat} : ∀ (As : List (T3 α)) (D : Nat → Nat),
    (∀ i, (hi : i < As.length) → As[i].d0 = d ∧ As[i].d1 = D i ∧ As[i].d2 = D (i + 1)) →
    Chain3 (List.replicate As.length d) As (D 0) (D As.length)
  | [], D, _ => by simp
  | A :: As, D, h => by
    simp only [List.length_cons, List.replicate_succ, chain3_cons]
    have h0 := h 0 (by simp)
    simp only [List.getElem_cons_zero] at h0
    refine ⟨h0.1, h0.2.1, ?_⟩
    have := chain3_of_index As (fun i => D (i + 1)) (fun i hi => by
      have := h (i + 1) (by simp; omega)
      simpa using this)
    rw [h0.2.2]
    exact this

omit [DecidableEq 𝕜] in
theorem shaped_cur {qd : List Int} {L : Nat} {s : Sweep 𝕜} (hwf : SweepWf qd L s) (hL : 0 < L)
    (h0 : (getQ s 0).length = 1) (hl : (getQ s L).length = 1) : C04.MPS.Shaped (cur qd s) qd.length := by
  constructor
  · intro hn
    have : (cur qd s).A.length = 0 := by rw [hn]; rfl
    rw [cur_length, hwf.sizeA] at this
    omega
  · have := chain3_of_index (d := qd.length) (cur qd s).A (fun i => (getQ s i).length) (fun i hi => by
      have hi' : i < L := by rw [cur_length, hwf.sizeA] at hi; exact hi
      have e : (cur qd s).A[i] = getA s i := by
        have := cur_getElem? qd s (j := i) (by rw [hwf.sizeA]; exact hi')
        rw [List.getElem?_eq_getElem hi] at this
        exact Option.some.inj this
      rw [e]
      exact hwf.shape i hi')
    rw [cur_length, hwf.sizeA] at this ⊢
    rw [h0, hl] at this
    exact this

omit [DecidableEq 𝕜] in
theorem mpsBond_cur {qd : List Int} {L : Nat} {s : Sweep 𝕜} (hwf : SweepWf qd L s) (hL : 0 < L)
    (h0 : (getQ s 0).length = 1) (hl : (getQ s L).length = 1) {j : Nat} (hj : j ≤ L) :
    mpsBond (cur qd s) j = (getQ s j).length := by
  have hsh := (shaped_cur hwf hL h0 hl).2
  have hlen : (cur qd s).A.length = L := by rw [cur_length, hwf.sizeA]
  unfold mpsBond
  by_cases hj' : j < L
  · have hj'' : j < (cur qd s).A.length := by rw [hlen]; exact hj'
    rw [bond3_eq_d1 hsh hj'']
    have e : (cur qd s).A[j] = getA s j := by
      have := cur_getElem? qd s (j := j) (by rw [hwf.sizeA]; exact hj')
      rw [List.getElem?_eq_getElem hj''] at this
      exact Option.some.inj this
    rw [e]; exact (hwf.shape j hj').2.1
  · obtain ⟨i, rfl⟩ : ∃ i, j = i + 1 := ⟨j - 1, by omega⟩
    have hi : i < (cur qd s).A.length := by rw [hlen]; omega
    rw [bond3_succ_eq _ _ hi]
    have e : (cur qd s).A[i] = getA s i := by
      have := cur_getElem? qd s (j := i) (by rw [hwf.sizeA]; omega)
      rw [List.getElem?_eq_getElem hi] at this
      exact Option.some.inj this
    rw [e]; exact (hwf.shape i (by omega)).2.2

/-- one right contraction step turns the partial contraction of the sites `i+1 … L-1` into that of `i … L-1` -/
theorem right_step_dense {ψ : MPS 𝕜} {o : MPO 𝕜} {d : Nat} (hψ : C04.MPS.Shaped ψ d) (ho : C04.MPO.Shaped o d)
    (hL : ψ.A.length = o.A.length) {i : Nat} (hi : i < ψ.A.length) {A : T3 𝕜} {W : T4 𝕜}
    (hA : ψ.A[i]? = some A) (hW : o.A[i]? = some W) {E : T3 𝕜} (hE : IsRightBlock ψ o d (i + 1) E) :
    ∃ T, Op.opStepRight A A W E = .ok T ∧ IsRightBlock ψ o d i T := by
  have hψ' := hψ.2
  have ho' : Chain4 (List.replicate ψ.A.length d) o.A 1 1 := hL ▸ ho.2
  have hio : i < o.A.length := hL ▸ hi
  have eA := getElem_of_getElem? hA hi
  have eW := getElem_of_getElem? hW hio
  have hEnv := (isRightBlock_iff hψ' ho' (Nat.succ_le_of_lt hi) E).1 hE
  have b3 : mpsBond ψ i = A.d1 := by rw [mpsBond, bond3_eq_d1 hψ' hi, eA]
  have b4 : mpoBond o i = W.d2 := by rw [mpoBond, bond4_eq_d2 ho' hio, eW]
  have b3' : mpsBond ψ (i + 1) = A.d2 := by rw [mpsBond, bond3_succ_eq _ _ hi, eA]
  have b4' : mpoBond o (i + 1) = W.d3 := by rw [mpoBond, bond4_succ_eq _ _ hio, eW]
  have dA : A.d0 = d := by
    have := chain3_d0 hψ' hi (by simpa using hi)
    simpa [eA] using this
  have dW : W.d0 = d ∧ W.d1 = d := by
    have := chain4_d01 ho' hio (by simpa using hi)
    simpa [eW] using this
  rw [b3', b4'] at hEnv
  obtain ⟨T, hT, hTenv⟩ := isRightEnv_step dA dA dW.1 dW.2 hEnv
  refine ⟨T, hT, (isRightBlock_iff hψ' ho' (Nat.le_of_lt hi) T).2 ?_⟩
  have t1 : ψ.A.drop i = A :: ψ.A.drop (i + 1) := by rw [← eA]; exact List.drop_eq_getElem_cons hi
  have t2 : o.A.drop i = W :: o.A.drop (i + 1) := by rw [← eW]; exact List.drop_eq_getElem_cons hio
  have t3 : List.replicate (ψ.A.length - i) d = d :: List.replicate (ψ.A.length - (i + 1)) d := by
    rw [show ψ.A.length - i = (ψ.A.length - (i + 1)) + 1 by omega, List.replicate_succ]
  rw [t1, t2, t3, b3, b4]
  exact hTenv

/-- the sweep invariant with centre `c` -/
structure Canon (H : MPO 𝕜) (qd : List Int) (s : Sweep 𝕜) (c : Nat) : Prop where
  wf : SweepWf qd H.A.length s
  sizeBL : s.BL.size = H.A.length
  sizeBR : s.BR.size = H.A.length
  hc : c < H.A.length
  q0 : (getQ s 0).length = 1
  qL : (getQ s H.A.length).length = 1
  liso : ∀ j, j < c → LeftIso (getA s j)
  riso : ∀ j, c < j → j < H.A.length → RightIso (getA s j)
  bl : ∀ j, j ≤ c → IsLeftBlock (cur qd s) H qd.length j (getBL s j)
  br : ∀ j, c ≤ j → j < H.A.length → IsRightBlock (cur qd s) H qd.length (j + 1) (getBR s j)

omit [DecidableEq 𝕜] in
theorem Canon.shaped {H : MPO 𝕜} {qd : List Int} {s : Sweep 𝕜} {c : Nat} (h : Canon H qd s c) :
    C04.MPS.Shaped (cur qd s) qd.length := shaped_cur h.wf (by have := h.hc; omega) h.q0 h.qL

omit [DecidableEq 𝕜] in
theorem Canon.bond {H : MPO 𝕜} {qd : List Int} {s : Sweep 𝕜} {c : Nat} (h : Canon H qd s c) {j : Nat}
    (hj : j ≤ H.A.length) : mpsBond (cur qd s) j = (getQ s j).length :=
  mpsBond_cur h.wf (by have := h.hc; omega) h.q0 h.qL hj

omit [DecidableEq 𝕜] in
theorem Canon.len {H : MPO 𝕜} {qd : List Int} {s : Sweep 𝕜} {c : Nat} (h : Canon H qd s c) :
    (cur qd s).A.length = H.A.length := by rw [cur_length, h.wf.sizeA]

omit [DecidableEq 𝕜] in
theorem cur_setSite (qd : List Int) (s : Sweep 𝕜) (i : Nat) (X : T3 𝕜) :
    cur qd (⟨s.A.setIfInBounds i X, s.qD, s.BL, s.BR⟩ : Sweep 𝕜) = (cur qd s).setSite i X := by
  simp [cur, MPS.setSite]

omit [DecidableEq 𝕜] in
theorem cur_setSite_self (qd : List Int) (s : Sweep 𝕜) {i : Nat} (hi : i < s.A.size) :
    (cur qd s).setSite i (getA s i) = cur qd s := by
  simp only [cur, MPS.setSite]
  congr 1
  apply List.ext_getElem
  · simp
  · intro n h1 h2
    rw [List.getElem_set]
    split
    · rename_i h; subst h
      show s.A.getD i emptyT3 = _
      simp [Array.getD_eq_getD_getElem?, hi]
    · rfl

/-- **norm and energy at the centre.** -/
theorem canon_centre {H : MPO 𝕜} {qd : List Int} {s : Sweep 𝕜} {c : Nat} (h : Canon H qd s c)
    (hH : C04.MPO.Shaped H qd.length) :
    normSq (cur qd s) qd.length = ((frob3 (getA s c) : ℝ) : 𝕜) ∧
    ∀ T, Op.applyLocalHamiltonian (getBL s c) (getBR s c) (H.A.getD c zeroT4) (getA s c) = .ok T →
      energy (cur qd s) H qd.length = inner3 (getA s c) T := by
  have hsh := h.shaped
  have hc' : c < (cur qd s).A.length := by rw [h.len]; exact h.hc
  have hcs : c < s.A.size := by rw [h.wf.sizeA]; exact h.hc
  obtain ⟨s0, s1, s2⟩ := h.wf.shape c h.hc
  have b1 := h.bond (j := c) (Nat.le_of_lt h.hc)
  have b2 := h.bond (j := c + 1) h.hc
  constructor
  · have := normSq_setSite hsh hc' (fun j hj => by rw [cur_getD]; exact h.liso j hj)
      (fun j hj hj' => by rw [cur_getD]; exact h.riso j hj (by rw [h.len] at hj'; exact hj'))
      (X := getA s c) s0 (s1.trans b1.symm) (s2.trans b2.symm)
    rwa [cur_setSite_self qd s hcs] at this
  · intro T hT
    have hW : H.A[c]? = some (H.A.getD c zeroT4) := by
      rw [List.getD_eq_getElem?_getD, List.getElem?_eq_getElem h.hc]; rfl
    have := energy_setSite hsh hH h.len hc' hW (X := getA s c) s0 (s1.trans b1.symm) (s2.trans b2.symm)
      (h.bl c (Nat.le_refl c)) (h.br c (Nat.le_refl c) h.hc) hT
    rwa [cur_setSite_self qd s hcs] at this

/-- the effective one-site operator at the centre is well-dimensioned and Hermitian -/
theorem canon_local {H : MPO 𝕜} {qd : List Int} {s : Sweep 𝕜} {c : Nat} (h : Canon H qd s c)
    (hH : C04.MPO.Shaped H qd.length) (hHerm : C04.MPO.DenseHermitian H qd.length) :
    LocalFits (getBL s c) (getBR s c) (H.A.getD c zeroT4) (getA s c).d0 (getA s c).d1 (getA s c).d2 ∧
    LocalHermitian (getBL s c) (getBR s c) (H.A.getD c zeroT4) (getA s c).d0 (getA s c).d1 (getA s c).d2 := by
  have hc' : c < (cur qd s).A.length := by rw [h.len]; exact h.hc
  obtain ⟨s0, s1, s2⟩ := h.wf.shape c h.hc
  have b1 := h.bond (j := c) (Nat.le_of_lt h.hc)
  have b2 := h.bond (j := c + 1) h.hc
  have hW : H.A[c]? = some (H.A.getD c zeroT4) := by
    rw [List.getD_eq_getElem?_getD, List.getElem?_eq_getElem h.hc]; rfl
  have := local_of_blocks h.shaped hH h.len hHerm hc' hW (h.bl c (Nat.le_refl c)) (h.br c (Nat.le_refl c) h.hc)
  rw [b1, b2, ← s0, ← s1, ← s2] at this
  exact this

/-- **Replacing the centre tensor** by a tensor of the same shape keeps the invariant. -/
theorem canon_replace {H : MPO 𝕜} {qd : List Int} {s : Sweep 𝕜} {c : Nat} (h : Canon H qd s c) {X : T3 𝕜}
    (hX : X.d0 = (getA s c).d0 ∧ X.d1 = (getA s c).d1 ∧ X.d2 = (getA s c).d2) :
    Canon H qd (⟨s.A.setIfInBounds c X, s.qD, s.BL, s.BR⟩ : Sweep 𝕜) c := by
  have hcs : c < s.A.size := by rw [h.wf.sizeA]; exact h.hc
  have hA : ∀ m, getA (⟨s.A.setIfInBounds c X, s.qD, s.BL, s.BR⟩ : Sweep 𝕜) m = if m = c then X else getA s m := by
    intro m
    show (s.A.setIfInBounds c X).getD m emptyT3 = _
    rw [getD_setIfInBounds]
    by_cases hm : m = c
    · rw [if_pos ⟨hm, hcs⟩, if_pos hm]
    · rw [if_neg (fun hh => hm hh.1), if_neg hm]; rfl
  have hwf : SweepWf qd H.A.length (⟨s.A.setIfInBounds c X, s.qD, s.BL, s.BR⟩ : Sweep 𝕜) :=
    wf_replace h.wf (by simp [h.wf.sizeA]) h.wf.sizeQ hA (fun _ => rfl) hX
  have hlen : (cur qd (⟨s.A.setIfInBounds c X, s.qD, s.BL, s.BR⟩ : Sweep 𝕜)).A.length = (cur qd s).A.length := by
    simp
  have hL : 0 < H.A.length := by have := h.hc; omega
  refine ⟨hwf, h.sizeBL, h.sizeBR, h.hc, h.q0, h.qL, ?_, ?_, ?_, ?_⟩
  · intro j hj
    rw [hA, if_neg (by omega)]; exact h.liso j hj
  · intro j hj hj'
    rw [hA, if_neg (by omega)]; exact h.riso j hj hj'
  · intro j hj
    have hc := h.hc
    refine isLeftBlock_congr ?_ (by rw [h.len]; omega) (by rw [hlen, h.len]; omega) (h.bl j hj)
    rw [cur_setSite]
    show ((cur qd s).A.set c X).take j = _
    rw [List.take_set_of_le hj]
  · intro j hj hj'
    refine isRightBlock_congr ?_ hlen ?_ (h.br j hj hj')
    · rw [cur_setSite]
      show ((cur qd s).A.set c X).drop (j + 1) = _
      rw [List.drop_set_of_lt (by omega)]
    · rw [mpsBond_cur hwf hL h.q0 h.qL (show j + 1 ≤ H.A.length by omega), h.bond (show j + 1 ≤ H.A.length by omega)]
      rfl

end Ptn.Evo

import PtnModel.Props.C15
/-! # Uniqueness of the spectral calculus on vectors, and cancellation of a forward and a backward Krylov exponential

* `IsEigen n Afun θ u`: `u` is an eigenvector (entrywise on the first `n` entries) of `Afun` with the real eigenvalue `θ`;
* `eigen_orth`: eigenvectors of a Hermitian map (w.r.t. `vdot n`, *not* assumed linear) for different eigenvalues are
  orthogonal;
* `spectral_zero`: if a combination `∑ c_e w_e` of eigenvectors vanishes then so does `∑ g(μ_e) c_e w_e`, for every
  scalar function `g` (each spectral component of the combination vanishes separately);
* `spectral_unique`: `∑ g(θ_e) a_e u_e` only depends on the vector `∑ a_e u_e`, not on the chosen eigen-decomposition;
* `expm_cancel`: a backward Hermitian Krylov exponential applied to the result of a forward one (both with exhausted
  Krylov spaces) returns the start vector, whenever `dexp (-dt x) * dexp (dt x) = 1` on the reals.
-/
set_option linter.unusedSectionVars false
namespace Ptn.Evo
open Ptn Ptn.Krylov Finset
variable {𝕜 : Type} [RCLike 𝕜]
local notation "conj" => starRingEnd 𝕜

/-- `u` (of length `n`) is an eigenvector of `Afun` with real eigenvalue `θ`, entrywise on the first `n` entries -/
def IsEigen (n : Nat) (Afun : List 𝕜 → List 𝕜) (θ : ℝ) (u : List 𝕜) : Prop :=
  u.length = n ∧ ∀ i, i < n → vget (Afun u) i = ((θ : ℝ) : 𝕜) * vget u i

section orth
variable {n : Nat} {Afun : List 𝕜 → List 𝕜}

theorem IsEigen.vdot_left {θ : ℝ} {u : List 𝕜} (h : IsEigen n Afun θ u) (y : List 𝕜) :
    vdot n (Afun u) y = ((θ : ℝ) : 𝕜) * vdot n u y := by
  rw [vdot_eq_sum, vdot_eq_sum, mul_sum]
  refine sum_congr rfl fun i hi => ?_
  rw [h.2 i (mem_range.1 hi), map_mul, RCLike.conj_ofReal, mul_assoc]

theorem IsEigen.vdot_right {θ : ℝ} {u : List 𝕜} (h : IsEigen n Afun θ u) (x : List 𝕜) :
    vdot n x (Afun u) = ((θ : ℝ) : 𝕜) * vdot n x u := by
  rw [vdot_eq_sum, vdot_eq_sum, mul_sum]
  refine sum_congr rfl fun i hi => ?_
  rw [h.2 i (mem_range.1 hi)]; ring

/-- eigenvectors of a Hermitian map for different (real) eigenvalues are orthogonal -/
theorem eigen_orth (hA : IsHermitian n Afun) {θ θ' : ℝ} {u u' : List 𝕜} (h : IsEigen n Afun θ u)
    (h' : IsEigen n Afun θ' u') (hne : θ ≠ θ') : vdot n u u' = 0 := by
  have e := hA u u' h.1 h'.1
  rw [h.vdot_left, h'.vdot_right] at e
  have e2 : (((θ : ℝ) : 𝕜) - ((θ' : ℝ) : 𝕜)) * vdot n u u' = 0 := by rw [sub_mul, e, sub_self]
  rcases mul_eq_zero.1 e2 with h0 | h0
  · exact absurd (RCLike.ofReal_injective (sub_eq_zero.1 h0)) hne
  · exact h0

end orth

/-! ### the spectral components of a combination of eigenvectors -/

/-- entry `i` of the component of `∑ c_e w_e` in the eigenspace of `lam`: the sum over the `e` with `μ e = lam` -/
noncomputable def comp (K : Nat) (μ : Nat → ℝ) (c : Nat → 𝕜) (w : Nat → List 𝕜) (lam : ℝ) (i : Nat) : 𝕜 :=
  ∑ e ∈ range K, if μ e = lam then c e * vget (w e) i else 0

section comp
variable {n : Nat} {Afun : List 𝕜 → List 𝕜} {K : Nat} {μ : Nat → ℝ} {c : Nat → 𝕜} {w : Nat → List 𝕜}

/-- the component for `lam` is orthogonal to every eigenvector with another eigenvalue -/
theorem comp_orth (hA : IsHermitian n Afun) (hw : ∀ e, e < K → IsEigen n Afun (μ e) (w e)) (lam : ℝ)
    {e : Nat} (he : e < K) (hne : μ e ≠ lam) :
    ∑ i ∈ range n, conj (comp K μ c w lam i) * vget (w e) i = 0 := by
  have e1 : ∀ i ∈ range n, conj (comp K μ c w lam i) * vget (w e) i =
      ∑ f ∈ range K, if μ f = lam then conj (c f) * (conj (vget (w f) i) * vget (w e) i) else 0 := by
    intro i _
    unfold comp
    rw [map_sum, sum_mul]
    refine sum_congr rfl fun f _ => ?_
    by_cases hf : μ f = lam
    · rw [if_pos hf, if_pos hf, map_mul, mul_assoc]
    · rw [if_neg hf, if_neg hf, map_zero, zero_mul]
  rw [sum_congr rfl e1, sum_comm]
  refine sum_eq_zero fun f hf => ?_
  by_cases hfl : μ f = lam
  · simp only [if_pos hfl]
    rw [← mul_sum, ← vdot_eq_sum,
      eigen_orth hA (hw f (mem_range.1 hf)) (hw e he) (by rw [hfl]; exact Ne.symm hne), mul_zero]
  · simp only [if_neg hfl]
    exact sum_const_zero

/-- if the whole combination vanishes, the component is minus the sum of the other terms -/
theorem comp_eq_neg (h0 : ∀ i, i < n → ∑ e ∈ range K, c e * vget (w e) i = 0) (lam : ℝ) {i : Nat} (hi : i < n) :
    comp K μ c w lam i = - ∑ e ∈ range K, if μ e = lam then 0 else c e * vget (w e) i := by
  rw [eq_neg_iff_add_eq_zero, comp, ← sum_add_distrib]
  refine (sum_congr rfl fun e _ => ?_).trans (h0 i hi)
  by_cases h : μ e = lam
  · rw [if_pos h, if_pos h, add_zero]
  · rw [if_neg h, if_neg h, zero_add]

/-- the squared norm of the component vanishes -/
theorem comp_sq (hA : IsHermitian n Afun) (hw : ∀ e, e < K → IsEigen n Afun (μ e) (w e))
    (h0 : ∀ i, i < n → ∑ e ∈ range K, c e * vget (w e) i = 0) (lam : ℝ) :
    ∑ i ∈ range n, conj (comp K μ c w lam i) * comp K μ c w lam i = 0 := by
  have e1 : ∀ i ∈ range n, conj (comp K μ c w lam i) * comp K μ c w lam i =
      - ∑ e ∈ range K, if μ e = lam then 0 else c e * (conj (comp K μ c w lam i) * vget (w e) i) := by
    intro i hi
    refine (congrArg (HMul.hMul (conj (comp K μ c w lam i))) (comp_eq_neg h0 lam (mem_range.1 hi))).trans ?_
    rw [mul_neg, mul_sum]
    congr 1
    refine sum_congr rfl fun e _ => ?_
    by_cases h : μ e = lam
    · rw [if_pos h, if_pos h, mul_zero]
    · rw [if_neg h, if_neg h]; ring
  rw [sum_congr rfl e1, sum_neg_distrib, neg_eq_zero, sum_comm]
  refine sum_eq_zero fun e he => ?_
  by_cases h : μ e = lam
  · simp only [if_pos h]; exact sum_const_zero
  · simp only [if_neg h]
    rw [← mul_sum, comp_orth hA hw lam (mem_range.1 he) h, mul_zero]

/-- every spectral component of a vanishing combination of eigenvectors vanishes -/
theorem comp_zero (hA : IsHermitian n Afun) (hw : ∀ e, e < K → IsEigen n Afun (μ e) (w e))
    (h0 : ∀ i, i < n → ∑ e ∈ range K, c e * vget (w e) i = 0) (lam : ℝ) {i : Nat} (hi : i < n) :
    comp K μ c w lam i = 0 := by
  have h := comp_sq hA hw h0 lam
  have e1 : ∀ j ∈ range n, conj (comp K μ c w lam j) * comp K μ c w lam j =
      ((‖comp K μ c w lam j‖ ^ 2 : ℝ) : 𝕜) := fun j _ => by
    rw [RCLike.conj_mul, RCLike.ofReal_pow]
  rw [sum_congr rfl e1, ← RCLike.ofReal_sum, RCLike.ofReal_eq_zero] at h
  have h2 := (sum_eq_zero_iff_of_nonneg (fun j _ => by positivity)).1 h i (mem_range.2 hi)
  exact norm_eq_zero.1 ((pow_eq_zero_iff (two_ne_zero)).1 h2)

end comp

/-- **Single family.**  If a combination of eigenvectors of a Hermitian map vanishes, so does the combination with the
coefficients multiplied by an arbitrary function of the eigenvalues. -/
theorem spectral_zero {n : Nat} {Afun : List 𝕜 → List 𝕜} (hA : IsHermitian n Afun) {K : Nat} {μ : Nat → ℝ}
    {c : Nat → 𝕜} {w : Nat → List 𝕜} (hw : ∀ e, e < K → IsEigen n Afun (μ e) (w e))
    (h0 : ∀ i, i < n → ∑ e ∈ range K, c e * vget (w e) i = 0) (g : ℝ → 𝕜) :
    ∀ i, i < n → ∑ e ∈ range K, g (μ e) * c e * vget (w e) i = 0 := by
  intro i hi
  have e1 : ∀ e ∈ range K, g (μ e) * c e * vget (w e) i =
      ∑ lam ∈ (range K).image μ, if μ e = lam then g lam * (c e * vget (w e) i) else 0 := by
    intro e he
    rw [sum_ite_eq ((range K).image μ) (μ e) fun lam => g lam * (c e * vget (w e) i),
      if_pos (mem_image_of_mem μ he), mul_assoc]
  rw [sum_congr rfl e1, sum_comm]
  refine sum_eq_zero fun lam _ => ?_
  have e2 : ∑ e ∈ range K, (if μ e = lam then g lam * (c e * vget (w e) i) else 0) =
      g lam * comp K μ c w lam i := by
    unfold comp
    rw [mul_sum]
    refine sum_congr rfl fun e _ => ?_
    by_cases h : μ e = lam
    · rw [if_pos h, if_pos h]
    · rw [if_neg h, if_neg h, mul_zero]
  rw [e2, comp_zero hA hw h0 lam hi, mul_zero]

/-! ### two families: merging them into one -/

/-- a sum over the merged index range `range (k + k')` -/
theorem sum_merge (k k' : Nat) (F G : Nat → 𝕜) :
    ∑ e ∈ range (k + k'), (if e < k then F e else G (e - k)) = ∑ e ∈ range k, F e + ∑ e ∈ range k', G e := by
  rw [sum_range_add]
  congr 1
  · exact sum_congr rfl fun e he => by rw [if_pos (mem_range.1 he)]
  · exact sum_congr rfl fun e _ => by rw [if_neg (by omega), Nat.add_sub_cancel_left]

/-- **Uniqueness of the spectral calculus on vectors.**  Two decompositions of the same vector into eigenvectors of a
Hermitian map (not assumed linear) give the same value of `∑ g(θ_e) a_e u_e`, for every scalar function `g`. -/
theorem spectral_unique {n : Nat} {Afun : List 𝕜 → List 𝕜} (hA : IsHermitian n Afun)
    {k k' : Nat} {θ θ' : Nat → ℝ} {a b : Nat → 𝕜} {u u' : Nat → List 𝕜}
    (hu : ∀ e, e < k → IsEigen n Afun (θ e) (u e)) (hu' : ∀ e, e < k' → IsEigen n Afun (θ' e) (u' e))
    (hx : ∀ i, i < n → ∑ e ∈ range k, a e * vget (u e) i = ∑ e ∈ range k', b e * vget (u' e) i)
    (g : ℝ → 𝕜) :
    ∀ i, i < n → ∑ e ∈ range k, g (θ e) * a e * vget (u e) i = ∑ e ∈ range k', g (θ' e) * b e * vget (u' e) i := by
  intro i hi
  -- the merged family
  let μ : Nat → ℝ := fun e => if e < k then θ e else θ' (e - k)
  let c : Nat → 𝕜 := fun e => if e < k then a e else - b (e - k)
  let w : Nat → List 𝕜 := fun e => if e < k then u e else u' (e - k)
  have hw : ∀ e, e < k + k' → IsEigen n Afun (μ e) (w e) := by
    intro e he
    by_cases h : e < k
    · simp only [μ, w, if_pos h]; exact hu e h
    · simp only [μ, w, if_neg h]; exact hu' (e - k) (by omega)
  have h0 : ∀ j, j < n → ∑ e ∈ range (k + k'), c e * vget (w e) j = 0 := by
    intro j hj
    have e1 : ∀ e ∈ range (k + k'), c e * vget (w e) j =
        if e < k then a e * vget (u e) j else - (b (e - k) * vget (u' (e - k)) j) := by
      intro e _
      by_cases h : e < k
      · simp only [c, w, if_pos h]
      · simp only [c, w, if_neg h, neg_mul]
    rw [sum_congr rfl e1, sum_merge k k' (fun e => a e * vget (u e) j) (fun e => - (b e * vget (u' e) j)),
      sum_neg_distrib, hx j hj, add_neg_cancel]
  have h1 := spectral_zero hA hw h0 g i hi
  have e2 : ∀ e ∈ range (k + k'), g (μ e) * c e * vget (w e) i =
      if e < k then g (θ e) * a e * vget (u e) i else - (g (θ' (e - k)) * b (e - k) * vget (u' (e - k)) i) := by
    intro e _
    by_cases h : e < k
    · simp only [μ, c, w, if_pos h]
    · simp only [μ, c, w, if_neg h, mul_neg, neg_mul]
  rw [sum_congr rfl e2, sum_merge k k' (fun e => g (θ e) * a e * vget (u e) i)
    (fun e => - (g (θ' e) * b e * vget (u' e) i)), sum_neg_distrib, add_neg_eq_zero] at h1
  exact h1

/-! ### a forward followed by a backward Krylov exponential -/

/-- **Cancellation of a forward and a backward Hermitian Krylov exponential.**  For a linear Hermitian map, if both
Lanczos runs exhaust their Krylov spaces, `expm_krylov(A, expm_krylov(A, v, dt), -dt)` is `v` (entrywise, with the same
length), provided the scalar exponential satisfies `dexp (-dt x) * dexp (dt x) = 1` for real `x`.  The numbers of
iterations `m`, `m'` of the two runs are unrelated. -/
theorem expm_cancel {Afun : List 𝕜 → List 𝕜} {dnorm : List 𝕜 → ℝ} {deigh : List ℝ → List ℝ → List ℝ × Mat ℝ}
    {dexp : 𝕜 → 𝕜} {dexpm : Mat 𝕜 → Mat 𝕜} (hN : NormContract dnorm) {v r r' : List 𝕜} {m m' : Nat}
    {M : Nat → Nat → 𝕜} (hM : ActsAs v.length Afun M)
    (hH : ∀ i j, i < v.length → j < v.length → conj (M i j) = M j i) {dt : 𝕜}
    (hE : C15.EighAt Afun dnorm deigh v m) (hX : C15.Exhausted Afun dnorm v m)
    (h : expmKrylov Afun dnorm deigh dexp dexpm v dt m true = .ok r)
    (hE' : C15.EighAt Afun dnorm deigh r m') (hX' : C15.Exhausted Afun dnorm r m')
    (h' : expmKrylov Afun dnorm deigh dexp dexpm r (-dt) m' true = .ok r')
    (hexp : ∀ x : ℝ, dexp (-dt * (x : 𝕜)) * dexp (dt * (x : 𝕜)) = 1) :
    r'.length = v.length ∧ ∀ i, i < v.length → vget r' i = vget v i := by
  have hA : IsHermitian v.length Afun := hM.isHermitian hH
  obtain ⟨k, θ, c, u, hu, hv, hrl, hr⟩ := C15.expm_exact_partial hN hM hH hE hX h
  obtain ⟨k', θ', c', u', hu', hrd, hrl', hr'⟩ :=
    C15.expm_exact_partial hN (v := r) (by rw [hrl]; exact hM) (by rw [hrl]; exact hH) hE' hX' h'
  rw [hrl] at hu' hrd hrl' hr'
  refine ⟨hrl', fun i hi => ?_⟩
  have hU : ∀ e, e < k → IsEigen v.length Afun (θ e) (u e) := fun e he => ⟨(hu e he).1, (hu e he).2.2⟩
  have hU' : ∀ e, e < k' → IsEigen v.length Afun (θ' e) (u' e) := fun e he => ⟨(hu' e he).1, (hu' e he).2.2⟩
  have hx : ∀ j, j < v.length →
      ∑ e ∈ range k, (dexp (dt * ((θ e : ℝ) : 𝕜)) * c e) * vget (u e) j = ∑ e ∈ range k', c' e * vget (u' e) j :=
    fun j hj => by rw [← hr j hj, ← hrd j hj]
  have hs := spectral_unique hA hU hU' hx (fun x => dexp (-dt * ((x : ℝ) : 𝕜))) i hi
  rw [hr' i hi, ← hs, hv i hi]
  refine sum_congr rfl fun e _ => ?_
  rw [← mul_assoc, hexp (θ e), one_mul]

/-! ### non-vacuity -/

/-- the hypotheses of `spectral_unique` are satisfiable by two genuinely different decompositions: for the map
`x ↦ 2 x` on `ℝ²` (every vector is an eigenvector) `(1, 1) = 1·e₁ + 1·e₂ = 1·(1, 1)`, with `k = 2 ≠ 1 = k'`. -/
example : ∃ (Afun : List ℝ → List ℝ) (k k' : Nat) (θ θ' : Nat → ℝ) (a b : Nat → ℝ) (u u' : Nat → List ℝ),
    IsHermitian 2 Afun ∧ (∀ e, e < k → IsEigen 2 Afun (θ e) (u e)) ∧ (∀ e, e < k' → IsEigen 2 Afun (θ' e) (u' e)) ∧
    (∀ i, i < 2 → ∑ e ∈ range k, a e * vget (u e) i = ∑ e ∈ range k', b e * vget (u' e) i) ∧
    k ≠ k' ∧ vget (u 0) 1 ≠ vget (u' 0) 1 := by
  have hE : ∀ x : List ℝ, x.length = 2 → IsEigen 2 (fun x : List ℝ => vscale 2 2 x) 2 x := by
    intro x hx
    refine ⟨hx, fun i hi => ?_⟩
    show vget (vscale 2 2 x) i = _
    rw [vget_vscale hi]; simp
  refine ⟨fun x => vscale 2 2 x, 2, 1, fun _ => 2, fun _ => 2, fun _ => 1, fun _ => 1,
    fun e => if e = 0 then [1, 0] else [0, 1], fun _ => [1, 1], ?_, ?_, ?_, ?_, by omega, by simp [vget]⟩
  · intro x y _ _
    show vdot 2 (vscale 2 2 x) y = vdot 2 x (vscale 2 2 y)
    rw [vdot_vscale_left, vdot_vscale_right]; simp
  · intro e _
    apply hE
    show (if e = 0 then [(1 : ℝ), 0] else [0, 1]).length = 2
    by_cases h : e = 0
    · rw [if_pos h]; rfl
    · rw [if_neg h]; rfl
  · intro e _
    exact hE _ rfl
  · intro i hi
    have : i = 0 ∨ i = 1 := by omega
    rcases this with rfl | rfl <;> simp [sum_range_succ, vget]

/-- the hypotheses of `expm_cancel` are jointly satisfiable by a run that really changes the vector: the map `x ↦ 2 x`
on `ℝ²`, the 2-norm, the exact eigen-decomposition of `1 × 1` matrices, one iteration in both directions, `dt = 1`,
and the non-constant scalar function `dexp y = y + √(1 + y²)` (`= exp (arsinh y)`, which satisfies
`dexp (-y) * dexp y = 1`); the forward result is `(2 + √5) • v ≠ v`. -/
theorem expm_cancel_nonvacuous : ∃ (Afun : List ℝ → List ℝ) (M : Nat → Nat → ℝ) (dnorm : List ℝ → ℝ)
    (deigh : List ℝ → List ℝ → List ℝ × Mat ℝ) (dexp : ℝ → ℝ) (v r r' : List ℝ) (dt : ℝ),
    NormContract dnorm ∧ ActsAs v.length Afun M ∧
    (∀ i j, i < v.length → j < v.length → (starRingEnd ℝ) (M i j) = M j i) ∧
    C15.EighAt Afun dnorm deigh v 1 ∧ C15.Exhausted Afun dnorm v 1 ∧
    expmKrylov Afun dnorm deigh dexp id v dt 1 true = .ok r ∧
    C15.EighAt Afun dnorm deigh r 1 ∧ C15.Exhausted Afun dnorm r 1 ∧
    expmKrylov Afun dnorm deigh dexp id r (-dt) 1 true = .ok r' ∧
    (∀ x : ℝ, dexp (-dt * (RCLike.ofReal x : ℝ)) * dexp (dt * (RCLike.ofReal x : ℝ)) = 1) ∧ vget r 0 ≠ vget v 0 := by
  let Afun : List ℝ → List ℝ := fun x => vscale 2 2 x
  let M : Nat → Nat → ℝ := fun i j => if i = j then 2 else 0
  let deigh : List ℝ → List ℝ → List ℝ × Mat ℝ := fun al _ => (al, ⟨al.length, al.length, fun _ _ => 1⟩)
  let dexp : ℝ → ℝ := fun y => y + Real.sqrt (1 + y ^ 2)
  have hexp : ∀ x : ℝ, dexp (-1 * (RCLike.ofReal x : ℝ)) * dexp (1 * (RCLike.ofReal x : ℝ)) = 1 := by
    intro x
    show (-1 * x + Real.sqrt (1 + (-1 * x) ^ 2)) * (1 * x + Real.sqrt (1 + (1 * x) ^ 2)) = 1
    have e : (1 : ℝ) + (-1 * x) ^ 2 = 1 + (1 * x) ^ 2 := by ring
    rw [e]
    have := Real.mul_self_sqrt (show (0 : ℝ) ≤ 1 + (1 * x) ^ 2 by positivity)
    nlinarith
  have hM : ActsAs 2 Afun M := by
    intro x _ i hi
    show vget (vscale 2 2 x) i = _
    rw [vget_vscale hi, Finset.sum_eq_single i]
    · simp [M]
    · intro j _ hne; simp [M, Ne.symm hne]
    · intro h; exact absurd (Finset.mem_range.2 hi) h
  have hH : ∀ i j, i < 2 → j < 2 → (starRingEnd ℝ) (M i j) = M j i := by
    intro i j _ _
    simp only [M, RCLike.conj_to_real]
    by_cases h : i = j
    · subst h; rfl
    · rw [if_neg h, if_neg (Ne.symm h)]
  have hA : IsHermitian 2 Afun := hM.isHermitian hH
  have hAt : ∀ p q : ℝ, C15.EighAt Afun sqrtNorm deigh [p, q] 1 := by
    intro p q alpha beta V hl
    obtain ⟨h1, h2, h3, _, _⟩ := lanczos_sizes _ _ hl
    have hlen : alpha.length = 1 := by omega
    have hb : beta = [] := List.eq_nil_of_length_eq_zero (by omega)
    obtain ⟨a, rfl⟩ : ∃ a, alpha = [a] := by
      match alpha, hlen with
      | [a], _ => exact ⟨a, rfl⟩
    subst hb
    refine ⟨rfl, rfl, rfl, ?_, ?_, ?_, ?_⟩
    · intro i j hij hj
      have : j = 0 := by simpa using hj
      subst this
      have : i = 0 := by omega
      subst this; exact le_refl _
    all_goals
      intro a' b' ha' hb'
      have ha'' : a' = 0 := by simpa using ha'
      have hb'' : b' = 0 := by simpa using hb'
      subst ha''; subst hb''
      simp [deigh, tridiag]
  have hEx : ∀ p q : ℝ, C15.Exhausted Afun sqrtNorm [p, q] 1 := by
    intro p q alpha beta V hl
    obtain ⟨st, hc, rfl, rfl, rfl⟩ := lanczos_ok Afun sqrtNorm hl
    obtain ⟨k, hk1, hf⟩ := lanczosCore_fin sqrtNorm_contract (vstart := [p, q]) hA hc
    have hk : k = 1 := by have := hf.kpos; omega
    subst hk
    have hv : (colsMat ([p, q] : List ℝ).length st.V).n = 1 := hf.sized.2.2
    rw [hv, lanczosResidual_eq hf]
    have horth : vdot 2 (st.vec 0) (st.vec 0) = 1 := by
      have := hf.orth 0 0 (by omega) (by omega)
      rwa [if_pos rfl] at this
    have hal : st.al 0 = 2 := by
      have := hf.last
      rw [this]
      show RCLike.re (vdot 2 (vscale 2 2 (st.vec 0)) (st.vec 0)) = 2
      rw [vdot_vscale_left, horth]; simp
    have hzero : ∀ z ∈ lzRes Afun ([p, q] : List ℝ).length st (1 - 1), z = 0 := by
      intro z hz
      unfold lzRes vsub at hz
      simp only [List.mem_map, List.mem_range] at hz
      obtain ⟨i, hi, rfl⟩ := hz
      have hi : i < 2 := hi
      rw [if_neg (by omega)]
      show vget (vscale 2 2 (st.vec 0)) i - vget (vscale 2 (RealLike.ofReal (st.al 0)) (st.vec 0)) i = 0
      rw [vget_vscale hi, vget_vscale hi, hal]
      show 2 * _ - (2 : ℝ) * _ = 0
      ring
    show Real.sqrt (sqNorm _) = 0
    rw [(sqNorm_eq_zero_iff _).2 hzero, Real.sqrt_zero]
  have hOk : ∀ (p q dt : ℝ), p ≠ 0 → ∃ r, expmKrylov Afun sqrtNorm deigh dexp id [p, q] dt 1 true = .ok r := by
    intro p q dt hp
    obtain ⟨⟨alpha, beta, V⟩, hl⟩ := lanczos_isOk Afun (sqrtNorm (𝕜 := ℝ)) (vstart := [p, q]) (numiter := 1)
      ((sqrtNorm_contract.pos_iff _).2 ⟨p, by simp, hp⟩) (by omega) (by simp)
    have hE' := hAt p q alpha beta V hl
    obtain ⟨h1, _, _, _, hVn⟩ := lanczos_sizes _ _ hl
    unfold expmKrylov
    simp only [if_true]
    rw [hl]
    simp only [bind, Except.bind]
    rw [if_neg (by rw [hE'.Um]; omega), if_neg (by rw [hE'.wlen, hE'.Un]; simp), if_neg (by rw [hVn, hE'.Um]; simp)]
    exact ⟨_, rfl⟩
  -- the forward run
  obtain ⟨r, hr⟩ := hOk 1 0 1 one_ne_zero
  obtain ⟨k, θ, c, u, hu, hv, hrl, hre⟩ :=
    C15.expm_exact_partial sqrtNorm_contract (v := [1, 0]) hM hH (hAt 1 0) (hEx 1 0) hr
  -- all eigenvalues are `2`
  have hθ : ∀ e, e < k → θ e = 2 := by
    intro e he
    obtain ⟨hl, hn, heig⟩ := hu e he
    by_contra hne
    have hz : ∀ i, i < 2 → vget (u e) i = 0 := by
      intro i hi
      have h1 := heig i hi
      have h2 : vget (Afun (u e)) i = 2 * vget (u e) i := vget_vscale hi 2 (u e)
      rw [h2] at h1
      have h3 : (2 - θ e) * vget (u e) i = 0 := by
        have : (RCLike.ofReal (θ e) : ℝ) = θ e := rfl
        rw [this] at h1; linarith
      rcases mul_eq_zero.1 h3 with h4 | h4
      · exact absurd (by linarith) hne
      · exact h4
    rw [vdot_eq_sum] at hn
    have : ∑ i ∈ range ([1, 0] : List ℝ).length, (starRingEnd ℝ) (vget (u e) i) * vget (u e) i = 0 :=
      sum_eq_zero fun i hi => by rw [hz i (mem_range.1 hi), mul_zero]
    rw [this] at hn
    exact zero_ne_one hn
  have hr0 : vget r 0 = dexp (1 * 2) := by
    rw [hre 0 (by simp)]
    have h1 := hv 0 (by simp)
    have : vget ([1, 0] : List ℝ) 0 = 1 := rfl
    rw [this] at h1
    have e1 : ∀ e ∈ range k, dexp (1 * (RCLike.ofReal (θ e) : ℝ)) * c e * vget (u e) 0 =
        dexp (1 * 2) * (c e * vget (u e) 0) := by
      intro e he
      rw [hθ e (mem_range.1 he), mul_assoc]; rfl
    rw [sum_congr rfl e1, ← mul_sum, ← h1, mul_one]
  have hd2 : dexp (1 * 2) ≠ 0 := by
    intro h0
    have := hexp 2
    have e : (RCLike.ofReal (2 : ℝ) : ℝ) = 2 := rfl
    rw [e, h0, mul_zero] at this
    exact zero_ne_one this
  have hd1 : dexp (1 * 2) ≠ 1 := by
    show (1 * 2 + Real.sqrt (1 + (1 * 2) ^ 2) : ℝ) ≠ 1
    have := Real.sqrt_nonneg (1 + (1 * 2) ^ 2 : ℝ)
    intro h; linarith
  -- `r` is a list of two entries, the first non-zero
  obtain ⟨x, y, rfl⟩ : ∃ x y, r = [x, y] := by
    match r, hrl with
    | [x, y], _ => exact ⟨x, y, rfl⟩
  have hx : x ≠ 0 := by
    have : vget [x, y] 0 = x := rfl
    rw [← this, hr0]; exact hd2
  obtain ⟨r', hr'⟩ := hOk x y (-1) hx
  refine ⟨Afun, M, sqrtNorm, deigh, dexp, [1, 0], [x, y], r', 1, sqrtNorm_contract, hM, hH, hAt 1 0, hEx 1 0, hr,
    hAt x y, hEx x y, hr', hexp, ?_⟩
  rw [hr0]; exact hd1

end Ptn.Evo

import PtnModel.Proofs.ChainPartition
/-!
# The cover steps of `from_opchains`, as explicit state transformers

`uCoverStep_spec`, `vCoverStep_spec`: what one round of `for i in u_cover` / `for j in v_cover` does to the
loop state whenever it does not raise.
-/
set_option linter.unusedSectionVars false

namespace Ptn.Ch
open Ptn Ptn.Og List

variable {κ : Type} [CommRing κ] [DecidableEq κ]

/-! ## primitives -/

theorem addEdge_ok_iff (g g' : Graph κ) (e : Edge κ) :
    g.addEdge e = .ok g' ↔ dHas g.edges e.eid = false ∧ g' = { g with edges := g.edges ++ [(e.eid, e)] } := by
  unfold Graph.addEdge
  cases h : dHas g.edges e.eid <;> simp [eq_comm]

theorem addNode_ok_iff (g g' : Graph κ) (n : Node) :
    g.addNode n = .ok g' ↔ dHas g.nodes n.nid = false ∧ g' = { g with nodes := g.nodes ++ [(n.nid, n)] } := by
  unfold Graph.addNode
  cases h : dHas g.nodes n.nid <;> simp [eq_comm]

theorem dGet_ok_iff {β : Type} (d : List (Int × β)) (k : Int) (v : β) : dGet d k = .ok v ↔ dGet? d k = some v := by
  unfold dGet dGet?
  cases d.lookup k <;> simp

theorem getNode_ok_iff (g : Graph κ) (k : Int) (n : Node) : g.getNode k = .ok n ↔ dGet? g.nodes k = some n :=
  dGet_ok_iff _ _ _

theorem modifyNode_ok_iff (g g' : Graph κ) (k : Int) (f : Node → Except Err Node) :
    g.modifyNode k f = .ok g' ↔
      ∃ n, dGet? g.nodes k = some n ∧ ∃ n', f n = .ok n' ∧ g' = { g with nodes := dReplace g.nodes k n' } := by
  unfold Graph.modifyNode
  simp only [bind_ok_iff, dGet_ok_iff, pure_ok_iff]
  constructor
  · rintro ⟨n, hn, n', hn', rfl⟩; exact ⟨n, hn, n', hn', rfl⟩
  · rintro ⟨n, hn, n', hn', rfl⟩; exact ⟨n, hn, n', hn', rfl⟩

theorem addEdgeId_ok_iff (n n' : Node) (eid : Int) (d : Bool) :
    n.addEdgeId eid d = .ok n' ↔ (n.eids d).contains eid = false ∧ n' = n.setEids d (n.eids d ++ [eid]) := by
  unfold Node.addEdgeId
  simp only [bind_ok_iff, pyAssert_ok_iff, pure_ok_iff]
  cases h : (n.eids d).contains eid <;> simp [eq_comm]

theorem nodeMk'_ok_iff (nid : Int) (i o : List Int) (q : Int) (n : Node) :
    Node.mk' nid i o q = .ok n ↔ hasDup i = false ∧ hasDup o = false ∧ n = ⟨nid, i, o, q⟩ := by
  unfold Node.mk'
  simp only [bind_ok_iff, pyAssert_ok_iff, pure_ok_iff]
  cases hasDup i <;> cases hasDup o <;> simp [eq_comm]

theorem pyRemove_ok_iff {α : Type} [BEq α] [LawfulBEq α] (l l' : List α) (x : α) :
    pyRemove l x = .ok l' ↔ x ∈ l ∧ l' = l.erase x := by
  unfold pyRemove
  by_cases h : l.contains x = true
  · have : x ∈ l := by simpa using h
    simp [this, eq_comm]
  · have : x ∉ l := by simpa using h
    simp [this]

theorem gammaGet_ok_iff (gamma : List ((Nat × Nat) × κ)) (e : Nat × Nat) (c : κ) :
    gammaGet gamma e = .ok c ↔ gamma.lookup e = some c := by
  unfold gammaGet
  cases gamma.lookup e <;> simp

theorem lookup_dReplace {β : Type} (d : List (Int × β)) (k : Int) (v : β) (k2 : Int) :
    (dReplace d k v).lookup k2 = if k2 = k then (d.lookup k2).map (fun _ => v) else d.lookup k2 := by
  induction d with
  | nil => simp [dReplace]
  | cons p rest ih =>
    obtain ⟨k', v'⟩ := p
    unfold dReplace
    by_cases h : k' = k
    · subst h
      by_cases h2 : k2 = k'
      · subst h2; simp
      · have : (k2 == k') = false := by simpa using h2
        simp [lookup_cons, this, h2]
    · have hb : (k' == k) = false := by simpa using h
      simp only [hb, lookup_cons, Bool.false_eq_true, if_false]
      by_cases h2 : k2 = k'
      · subst h2
        have : ¬ k2 = k := h
        simp [this]
      · have : (k2 == k') = false := by simpa using h2
        simp only [this]
        exact ih

theorem dHas_dReplace {β : Type} (d : List (Int × β)) (k : Int) (v : β) (k2 : Int) :
    dHas (dReplace d k v) k2 = dHas d k2 := by
  unfold dHas
  rw [lookup_dReplace]
  split <;> simp

theorem dKeys_dReplace {β : Type} (d : List (Int × β)) (k : Int) (v : β) : dKeys (dReplace d k v) = dKeys d := by
  induction d with
  | nil => simp [dReplace]
  | cons p rest ih =>
    obtain ⟨k', v'⟩ := p
    unfold dReplace
    by_cases h : (k' == k) = true
    · simp [h, dKeys]
    · have hb : (k' == k) = false := by simpa using h
      simp only [hb, Bool.false_eq_true, if_false]
      simp only [dKeys, map_cons] at ih ⊢
      rw [ih]

/-- the edge objects of a graph -/
def edgeList (g : Graph κ) : List (Edge κ) := g.edges.map (·.2)

/-- `OpGraphEdge(eid, nids, [(oid, c)])` -/
theorem edgeMk'_single (eid : Int) (nids : Int × Int) (oid : Int) (c : κ) :
    Edge.mk' eid nids [(oid, c)] = ⟨eid, nids, [(oid, c)]⟩ := by
  simp [Edge.mk', mergeOpic, sortOpics, insertOpic]

theorem opc_single (eid : Int) (nids : Int × Int) (oid : Int) (c : κ) (o : Int) :
    opc (⟨eid, nids, [(oid, c)]⟩ : Edge κ) o = if oid = o then c else 0 := by
  simp [opc]

/-! ## the inner loop of the U branch -/

/-- body of `for j in bigraph.adj_u[i]` -/
def uInner (vlist : List HalfChain) (gamma : List ((Nat × Nat) × κ)) (i : Nat) (nid : Int)
    (s : ChState κ) (j : Nat) : Except Err (ChState κ) := do
  let v ← pyIdx vlist j
  let h ← HalfChain.mk' v.oids v.qnums nid
  let c ← gammaGet gamma (i, j)
  let edges ← pyRemove s.edges (i, j)
  pure { s with vlistNext := s.vlistNext ++ [h], coeffsNext := s.coeffsNext ++ [c], edges := edges }

/-- the half-chain `v` re-attached to the node `nid` -/
def reattach (v : HalfChain) (nid : Int) : HalfChain := ⟨v.oids, v.qnums, nid⟩

theorem uInner_spec (vlist : List HalfChain) (gamma : List ((Nat × Nat) × κ)) (i : Nat) (nid : Int) :
    ∀ (adj : List Nat) (s s' : ChState κ), adj.foldlM (uInner vlist gamma i nid) s = .ok s' →
      ∃ items : List (Nat × HalfChain × κ),
        (∀ t ∈ items, vlist[t.1]? = some t.2.1 ∧ gamma.lookup (i, t.1) = some t.2.2) ∧
        items.map (·.1) = adj ∧
        s'.graph = s.graph ∧ s'.nidNext = s.nidNext ∧ s'.eidNext = s.eidNext ∧
        s'.vlistNext = s.vlistNext ++ items.map (fun t => reattach t.2.1 nid) ∧
        s'.coeffsNext = s.coeffsNext ++ items.map (·.2.2) ∧
        s.edges.Perm (items.map (fun t => (i, t.1)) ++ s'.edges) := by
  intro adj
  induction adj with
  | nil =>
    intro s s' h
    simp only [foldlM_nil, pure_ok_iff] at h
    subst h
    exact ⟨[], by simp⟩
  | cons j adj ih =>
    intro s s' h
    simp only [foldlM_cons, bind_ok_iff] at h
    obtain ⟨s1, h1, h2⟩ := h
    unfold uInner at h1
    simp only [bind_ok_iff, pyIdx_ok_iff, halfChain_mk'_ok_iff, gammaGet_ok_iff, pyRemove_ok_iff, pure_ok_iff] at h1
    obtain ⟨v, hv, hc, ⟨_, hh⟩, c, hcg, edges, ⟨hmem, hed⟩, hs1⟩ := h1
    obtain ⟨items, hit, hadj, hg, hn, he, hvl, hcs, hperm⟩ := ih s1 s' h2
    subst hs1 hh hed
    refine ⟨(j, v, c) :: items, ?_, by simp [hadj], hg, hn, he, ?_, ?_, ?_⟩
    · intro t ht
      rcases mem_cons.1 ht with ht | ht
      · subst ht; exact ⟨hv, hcg⟩
      · exact hit t ht
    · simp only [hvl, map_cons, reattach, append_assoc, singleton_append]
    · simp only [hcs, map_cons, append_assoc, singleton_append]
    · simp only [map_cons, cons_append]
      exact (perm_cons_erase hmem).trans (Perm.cons _ hperm)

/-- `uCoverStep` when it does not raise -/
theorem uCoverStep_spec (ulist : List UNode) (vlist : List HalfChain) (gamma : List ((Nat × Nat) × κ))
    (adjU : List (List Nat)) (s s' : ChState κ) (i : Nat)
    (h : uCoverStep ulist vlist gamma adjU s i = .ok s') :
    ∃ (u : UNode) (nodePrev : Node) (items : List (Nat × HalfChain × κ)),
      ulist[i]? = some u ∧
      dHas s.graph.edges s.eidNext = false ∧
      dGet? s.graph.nodes u.nidl = some nodePrev ∧
      nodePrev.eidsOut.contains s.eidNext = false ∧
      nodePrev.qnum = u.qnum0 ∧
      dHas s.graph.nodes s.nidNext = false ∧
      (∀ t ∈ items, vlist[t.1]? = some t.2.1 ∧ gamma.lookup (i, t.1) = some t.2.2) ∧
      adjU[i]? = some (items.map (·.1)) ∧
      s'.graph = { s.graph with
        nodes := dReplace s.graph.nodes u.nidl (nodePrev.setEids true (nodePrev.eidsOut ++ [s.eidNext]))
                  ++ [(s.nidNext, ⟨s.nidNext, [s.eidNext], [], u.qnum1⟩)],
        edges := s.graph.edges ++ [(s.eidNext, ⟨s.eidNext, (u.nidl, s.nidNext), [(u.oid, 1)]⟩)] } ∧
      s'.nidNext = s.nidNext + 1 ∧ s'.eidNext = s.eidNext + 1 ∧
      s'.vlistNext = s.vlistNext ++ items.map (fun t => reattach t.2.1 s.nidNext) ∧
      s'.coeffsNext = s.coeffsNext ++ items.map (·.2.2) ∧
      s.edges.Perm (items.map (fun t => (i, t.1)) ++ s'.edges) := by
  unfold uCoverStep at h
  simp only [bind_ok_iff, pyIdx_ok_iff, addEdge_ok_iff, getNode_ok_iff, addEdgeId_ok_iff, pyAssert_ok_iff,
    nodeMk'_ok_iff, addNode_ok_iff, edgeMk'_single] at h
  obtain ⟨u, hu, g1, ⟨hne, hg1⟩, nodePrev, hnp, nodePrev', ⟨hcont, hnp'⟩, _, hq, node, ⟨_, _, hnode⟩,
    g2, ⟨hnn, hg2⟩, adj, hadj, hfold⟩ := h
  subst hg1 hnp' hnode hg2
  simp only at hnp hnn hfold hq
  have hfold' : adj.foldlM (uInner vlist gamma i s.nidNext) _ = .ok s' := hfold
  obtain ⟨items, hit, hia, hg, hn, he, hvl, hcs, hperm⟩ := uInner_spec vlist gamma i s.nidNext adj _ s' hfold'
  refine ⟨u, nodePrev, items, hu, hne, hnp, ?_, ?_, ?_, hit, by rw [hia]; exact hadj, ?_, hn, he, hvl, hcs, hperm⟩
  · simpa [Node.eids] using hcont
  · simpa [Node.setEids] using hq
  · rw [← hnn, dHas_dReplace]
  · rw [hg]
    simp [Node.eids]

/-! ## the inner loop of the V branch -/

/-- body of `for i in bigraph.adj_v[j]` -/
def vInner (ulist : List UNode) (gamma : List ((Nat × Nat) × κ)) (j : Nat) (nid : Int)
    (s : ChState κ) (i : Nat) : Except Err (ChState κ) := do
  if !(s.edges.contains (i, j)) then pure s
  else do
    let u ← pyIdx ulist i
    let c ← gammaGet gamma (i, j)
    let g ← s.graph.addEdge (Edge.mk' s.eidNext (u.nidl, nid) [(u.oid, c)])
    let nodeCur ← g.getNode nid
    pyAssert (u.qnum1 == nodeCur.qnum)
    let edges ← pyRemove s.edges (i, j)
    let g ← g.modifyNode u.nidl (fun n => n.addEdgeId s.eidNext true)
    let nodePrev ← g.getNode u.nidl
    pyAssert (nodePrev.qnum == u.qnum0)
    let g ← g.modifyNode nid (fun n => n.addEdgeId s.eidNext false)
    pure { s with graph := g, eidNext := s.eidNext + 1, edges := edges }

/-- one round of the inner V loop when it does not raise -/
theorem vInner_step (ulist : List UNode) (gamma : List ((Nat × Nat) × κ)) (j : Nat) (nid : Int)
    (s s' : ChState κ) (i : Nat) (h : vInner ulist gamma j nid s i = .ok s') :
    ((i, j) ∉ s.edges ∧ s' = s) ∨
    ((i, j) ∈ s.edges ∧ ∃ (u : UNode) (c : κ) (n1 n2 : Node),
      ulist[i]? = some u ∧ gamma.lookup (i, j) = some c ∧
      dHas s.graph.edges s.eidNext = false ∧
      dGet? s.graph.nodes u.nidl = some n1 ∧ n1.eidsOut.contains s.eidNext = false ∧ n1.qnum = u.qnum0 ∧
      dGet? (dReplace s.graph.nodes u.nidl (n1.setEids true (n1.eidsOut ++ [s.eidNext]))) nid = some n2 ∧
      n2.eidsIn.contains s.eidNext = false ∧ n2.qnum = u.qnum1 ∧
      s'.graph = { s.graph with
        nodes := dReplace (dReplace s.graph.nodes u.nidl (n1.setEids true (n1.eidsOut ++ [s.eidNext]))) nid
                    (n2.setEids false (n2.eidsIn ++ [s.eidNext])),
        edges := s.graph.edges ++ [(s.eidNext, ⟨s.eidNext, (u.nidl, nid), [(u.oid, c)]⟩)] } ∧
      s'.nidNext = s.nidNext ∧ s'.eidNext = s.eidNext + 1 ∧ s'.vlistNext = s.vlistNext ∧
      s'.coeffsNext = s.coeffsNext ∧ s'.edges = s.edges.erase (i, j)) := by
  unfold vInner at h
  by_cases hc : s.edges.contains (i, j) = true
  · have hmem : (i, j) ∈ s.edges := by simpa using hc
    right
    simp only [hc, Bool.not_true, Bool.false_eq_true, if_false] at h
    simp only [bind_ok_iff, pyIdx_ok_iff, gammaGet_ok_iff, addEdge_ok_iff, getNode_ok_iff, pyAssert_ok_iff,
      pyRemove_ok_iff, modifyNode_ok_iff, addEdgeId_ok_iff, pure_ok_iff, edgeMk'_single] at h
    obtain ⟨u, hu, c, hcg, g1, ⟨hne, hg1⟩, nodeCur, hcur, _, hq1, edges, ⟨_, hed⟩, g2,
      ⟨n1, hn1, n1', ⟨hc1, hn1'⟩, hg2⟩, nodePrev, hprev, _, hq0, g3, ⟨n2, hn2, n2', ⟨hc2, hn2'⟩, hg3⟩, hs'⟩ := h
    subst hg1 hn1' hg2 hn2' hg3 hed hs'
    simp only at hn1 hn2 hcur hprev
    -- the node objects seen by the two assertions
    have hprev' : nodePrev = n1.setEids true (n1.eids true ++ [s.eidNext]) := by
      rw [dGet?, lookup_dReplace, if_pos rfl] at hprev
      rw [dGet?] at hn1
      rw [hn1] at hprev
      simpa [eq_comm] using hprev
    have hcur' : n2.qnum = nodeCur.qnum := by
      have hn1'' := hn1
      unfold dGet? at hn2 hcur hn1''
      rw [lookup_dReplace] at hn2
      by_cases hk : nid = u.nidl
      · rw [if_pos hk, hcur] at hn2
        simp only [Option.map_some, Option.some.injEq] at hn2
        rw [← hn2]
        rw [hk, hn1''] at hcur
        cases hcur
        cases hd : true <;> simp [Node.setEids]
      · rw [if_neg hk, hcur] at hn2
        cases hn2; rfl
    refine ⟨hmem, u, c, n1, n2, hu, hcg, hne, hn1, by simpa [Node.eids] using hc1, ?_, by simpa [Node.eids] using hn2,
      by simpa [Node.eids] using hc2, ?_, by simp [Node.eids], rfl, rfl, rfl, rfl, rfl⟩
    · subst hprev'
      simpa [Node.setEids] using hq0
    · rw [hcur']
      exact (beq_iff_eq.1 hq1).symm
  · have hmem : (i, j) ∉ s.edges := by simpa using hc
    left
    have hb : s.edges.contains (i, j) = false := by simpa using hc
    simp only [hb, Bool.not_false, if_true, pure_ok_iff] at h
    exact ⟨hmem, h.symm⟩

/-- the edges added by the inner V loop: `(u.nidl → nid, [(u.oid, γ)])` with consecutive edge ids -/
def vEdges (nid : Int) : Int → List (Nat × UNode × κ) → List (Edge κ)
  | _, [] => []
  | eid, t :: ts => ⟨eid, (t.2.1.nidl, nid), [(t.2.1.oid, t.2.2)]⟩ :: vEdges nid (eid + 1) ts

theorem vInner_spec (ulist : List UNode) (gamma : List ((Nat × Nat) × κ)) (j : Nat) (nid : Int) :
    ∀ (adj : List Nat) (s s' : ChState κ), adj.foldlM (vInner ulist gamma j nid) s = .ok s' →
      ∃ items : List (Nat × UNode × κ),
        (∀ t ∈ items, ulist[t.1]? = some t.2.1 ∧ gamma.lookup (t.1, j) = some t.2.2) ∧
        edgeList s'.graph = edgeList s.graph ++ vEdges nid s.eidNext items ∧
        s'.nidNext = s.nidNext ∧ s'.eidNext = s.eidNext + items.length ∧
        s'.vlistNext = s.vlistNext ∧ s'.coeffsNext = s.coeffsNext ∧
        s.edges.Perm (items.map (fun t => (t.1, j)) ++ s'.edges) := by
  intro adj
  induction adj with
  | nil =>
    intro s s' h
    simp only [foldlM_nil, pure_ok_iff] at h
    subst h
    exact ⟨[], by simp [vEdges]⟩
  | cons i adj ih =>
    intro s s' h
    simp only [foldlM_cons, bind_ok_iff] at h
    obtain ⟨s1, h1, h2⟩ := h
    obtain ⟨items, hit, hel, hn, he, hvl, hcs, hperm⟩ := ih s1 s' h2
    rcases vInner_step ulist gamma j nid s s1 i h1 with ⟨_, rfl⟩ | ⟨hmem, u, c, n1, n2, hu, hcg, _, _, _, _, _, _, _,
      hg, hn1, he1, hvl1, hcs1, hed1⟩
    · exact ⟨items, hit, hel, hn, he, hvl, hcs, hperm⟩
    · refine ⟨(i, u, c) :: items, ?_, ?_, by rw [hn, hn1], ?_, by rw [hvl, hvl1], by rw [hcs, hcs1], ?_⟩
      · intro t ht
        rcases mem_cons.1 ht with ht | ht
        · subst ht; exact ⟨hu, hcg⟩
        · exact hit t ht
      · rw [hel, he1]
        simp [edgeList, hg, vEdges]
      · rw [he, he1]; simp; ring
      · simp only [map_cons, cons_append]
        rw [hed1] at hperm
        exact (perm_cons_erase hmem).trans (Perm.cons _ hperm)

/-- `vCoverStep` when it does not raise -/
theorem vCoverStep_spec (ulist : List UNode) (vlist : List HalfChain) (gamma : List ((Nat × Nat) × κ))
    (adjV : List (List Nat)) (s s' : ChState κ) (j : Nat)
    (h : vCoverStep ulist vlist gamma adjV s j = .ok s') :
    ∃ (v : HalfChain) (q : Int) (adj : List Nat),
      vlist[j]? = some v ∧ v.qnums[0]? = some q ∧ dHas s.graph.nodes s.nidNext = false ∧
      adjV[j]? = some adj ∧
      adj.foldlM (vInner ulist gamma j s.nidNext)
        { s with graph := { s.graph with nodes := s.graph.nodes ++ [(s.nidNext, ⟨s.nidNext, [], [], q⟩)] },
                 nidNext := s.nidNext + 1,
                 vlistNext := s.vlistNext ++ [reattach v s.nidNext],
                 coeffsNext := s.coeffsNext ++ [1] } = .ok s' := by
  unfold vCoverStep at h
  simp only [bind_ok_iff, pyIdx_ok_iff, nodeMk'_ok_iff, addNode_ok_iff, halfChain_mk'_ok_iff] at h
  obtain ⟨v, hv, q, hq, node, ⟨_, _, hnode⟩, g, ⟨hnn, hg⟩, hc, ⟨_, hhc⟩, adj, hadj, hfold⟩ := h
  subst hnode hg hhc
  exact ⟨v, q, adj, hv, hq, hnn, hadj, hfold⟩

end Ptn.Ch

import PtnModel.Proofs.EnvMerge
/-!
# Two-site effective operator and `merge_dense` (uniform site dimension `d`)

* `ampTwo ψ d i A2 σ`   : dense vector of `ψ` with the tensors of the sites `i, i+1` replaced by the two-site tensor
                          `A2` of shape `(d·d, D_i, D_{i+2})` (row-major pair index `σ_i·d + σ_{i+1}`);
* `elemTwo o d i W2 σ τ`: the same for an MPO and a two-site operator tensor of shape `(d·d, d·d, Dw_i, Dw_{i+2})`;
* `ampTwo_merge`, `elemTwo_merge` : inserting `merge_mps_tensor_pair(A_i, A_{i+1})` resp.
  `merge_mpo_tensor_pair(W_i, W_{i+1})` gives back `ψ.amp` resp. `o.elem` (merging preserves the dense meaning);
* `two_site_core` : the two-site effective Hamiltonian is the projection of the full operator.
-/
set_option linter.unusedSectionVars false
set_option linter.unusedVariables false
namespace Ptn.Env
open Finset
variable {R : Type} [CommRing R] [StarRing R]
attribute [local instance] starConj

def ampTwo (ψ : MPS R) (d i : Nat) (A2 : T3 R) (σ : List Nat) : R :=
  ∑ a ∈ range A2.d1, ∑ b ∈ range A2.d2,
    ampPrefix ψ i (σ.take i) a * A2.f (σ.getD i 0 * d + σ.getD (i + 1) 0) a b * ampSuffix ψ (i + 2) (σ.drop (i + 2)) b

def elemTwo (o : MPO R) (d i : Nat) (W2 : T4 R) (σ τ : List Nat) : R :=
  ∑ a ∈ range W2.d2, ∑ b ∈ range W2.d3,
    elemPrefix o i (σ.take i) (τ.take i) a
      * W2.f (σ.getD i 0 * d + σ.getD (i + 1) 0) (τ.getD i 0 * d + τ.getD (i + 1) 0) a b
      * elemSuffix o (i + 2) (σ.drop (i + 2)) (τ.drop (i + 2)) b

theorem split2_facts {i : Nat} {σl σr : List Nat} {s0 s1 : Nat} (hlen : σl.length = i) :
    (σl ++ s0 :: s1 :: σr).take i = σl ∧ (σl ++ s0 :: s1 :: σr).getD i 0 = s0 ∧
    (σl ++ s0 :: s1 :: σr).getD (i + 1) 0 = s1 ∧ (σl ++ s0 :: s1 :: σr).drop (i + 2) = σr := by
  subst hlen
  refine ⟨List.take_left' rfl, ?_, ?_, ?_⟩
  · simp [List.getD]
  · simp [List.getD]
  · rw [← List.drop_drop]
    simp

theorem replicate_split2 {L i d : Nat} (hi : i + 1 < L) :
    List.replicate L d = List.replicate i d ++ d :: d :: List.replicate (L - (i + 2)) d := by
  have : L = i + ((L - (i + 2)) + 1 + 1) := by omega
  conv_lhs => rw [this]
  rw [List.replicate_add, List.replicate_succ, List.replicate_succ]

theorem ampTwo_eq {d : Nat} {ψ : MPS R} (hψ : Chain3 (List.replicate ψ.A.length d) ψ.A 1 1) {i : Nat}
    (hi : i + 1 < ψ.A.length) {A2 : T3 R} (h1 : A2.d1 = mpsBond ψ i) (h2 : A2.d2 = mpsBond ψ (i + 2))
    {σl σr : List Nat} (s0 s1 : Nat) (hl : σl ∈ digits (List.replicate i d))
    (hr : σr ∈ digits (List.replicate (ψ.A.length - (i + 2)) d)) :
    ampTwo ψ d i A2 (σl ++ s0 :: s1 :: σr)
      = pmat (ψ.A.take i ++ A2 :: ψ.A.drop (i + 2)) (σl ++ (s0 * d + s1) :: σr) 0 0 := by
  have hlen : σl.length = i := by simpa using length_of_mem_digits hl
  have hi0 : i ≤ ψ.A.length := by omega
  have hi2 : i + 2 ≤ ψ.A.length := by omega
  have cL : Chain3 (List.replicate i d) (ψ.A.take i) 1 (mpsBond ψ i) := by
    have := chain3_take hψ i hi0
    rwa [take_replicate_le hi0] at this
  obtain ⟨f1, f2, f3, f4⟩ := split2_facts (σr := σr) (s0 := s0) (s1 := s1) hlen
  rw [ampTwo, f1, f2, f3, f4, pmat_append cL _ hl _ Nat.one_pos 0, h1]
  refine Finset.sum_congr rfl fun a ha => ?_
  rw [pmat_cons, Finset.mul_sum]
  refine Finset.sum_congr rfl fun b hb => ?_
  rw [← take_replicate_le hi0] at hl
  rw [← drop_replicate'] at hr
  rw [ampPrefix_eq hψ hi0 hl (by simpa using ha),
    ampSuffix_eq hψ Nat.one_pos hi2 hr (by rw [← h2]; simpa using hb)]
  ring

theorem mem_digits_split2 {L i d : Nat} (hi : i + 1 < L) {σl σr : List Nat} {s0 s1 : Nat}
    (hl : σl ∈ digits (List.replicate i d)) (h0 : s0 ∈ range d) (h1 : s1 ∈ range d)
    (hr : σr ∈ digits (List.replicate (L - (i + 2)) d)) :
    σl ++ s0 :: s1 :: σr ∈ digits (List.replicate L d) := by
  rw [replicate_split2 hi]
  refine append_mem_digits hl ?_
  rw [cons_mem_digits, cons_mem_digits]
  exact ⟨by simpa using h0, by simpa using h1, hr⟩

theorem two_site_core {d : Nat} {ψ : MPS R} {o : MPO R}
    (hψ : Chain3 (List.replicate ψ.A.length d) ψ.A 1 1) (ho : Chain4 (List.replicate ψ.A.length d) o.A 1 1)
    {i : Nat} (hi : i + 1 < ψ.A.length) {W0 W1 : T4 R} (hW0 : o.A[i]? = some W0) (hW1 : o.A[i + 1]? = some W1)
    {A2 B2 : T3 R}
    (hA0 : A2.d0 = d * d) (hA1 : A2.d1 = mpsBond ψ i) (hA2 : A2.d2 = mpsBond ψ (i + 2))
    (hB0 : B2.d0 = d * d) (hB1 : B2.d1 = mpsBond ψ i) (hB2 : B2.d2 = mpsBond ψ (i + 2))
    {Lb Rb : T3 R} (hL : IsLeftBlock ψ o d i Lb) (hR : IsRightBlock ψ o d (i + 2) Rb) :
    ∃ T, Op.applyLocalHamiltonian Lb Rb (MPO.mergePair W0 W1) A2 = .ok T ∧ T.d0 = d * d ∧
      T.d1 = mpsBond ψ i ∧ T.d2 = mpsBond ψ (i + 2) ∧
      ∑ s ∈ range (d * d), ∑ a ∈ range (mpsBond ψ i), ∑ b ∈ range (mpsBond ψ (i + 2)), star (B2.f s a b) * T.f s a b
      = ∑ σ ∈ digitsU d ψ.A.length, ∑ τ ∈ digitsU d ψ.A.length,
          star (ampTwo ψ d i B2 σ) * o.elem σ τ * ampTwo ψ d i A2 τ := by
  have hlo : o.A.length = ψ.A.length := by simpa using chain4_length ho
  have hi0 : i < ψ.A.length := by omega
  have hio : i < o.A.length := by omega
  have hio1 : i + 1 < o.A.length := by omega
  have eW0 := getElem_of_getElem? hW0 hio
  have eW1 := getElem_of_getElem? hW1 hio1
  have b4 : mpoBond o i = W0.d2 := by rw [mpoBond, bond4_eq_d2 ho hio, eW0]
  have b4' : mpoBond o (i + 2) = W1.d3 := by rw [mpoBond, bond4_succ_eq _ _ hio1, eW1]
  have hW : W0.d3 = W1.d2 := by
    rw [← eW0, ← eW1, ← bond4_succ_eq _ 1 hio, bond4_eq_d2 ho hio1]
  have dW0 : W0.d0 = d ∧ W0.d1 = d := by
    have := chain4_d01 ho hio (by simpa using hi0)
    simpa [eW0] using this
  have dW1 : W1.d0 = d ∧ W1.d1 = d := by
    have := chain4_d01 ho hio1 (by simpa using hi)
    simpa [eW1] using this
  have hEL : IsLeftEnv (List.replicate i d) (ψ.A.take i) (ψ.A.take i) (o.A.take i) A2.d1 W0.d2 B2.d1 Lb := by
    rw [hA1, hB1, ← b4]; exact (isLeftBlock_iff hψ ho (Nat.le_of_lt hi0) Lb).1 hL
  have hER : IsRightEnv (List.replicate (ψ.A.length - (i + 2)) d) (ψ.A.drop (i + 2)) (ψ.A.drop (i + 2))
      (o.A.drop (i + 2)) A2.d2 W1.d3 B2.d2 Rb := by
    rw [hA2, hB2, ← b4']; exact (isRightBlock_iff hψ ho (Nat.succ_le_of_lt hi) Rb).1 hR
  have cL : Chain3 (List.replicate i d) (ψ.A.take i) 1 (mpsBond ψ i) := by
    have := chain3_take hψ i (Nat.le_of_lt hi0)
    rwa [take_replicate_le (Nat.le_of_lt hi0)] at this
  have cR : Chain3 (List.replicate (ψ.A.length - (i + 2)) d) (ψ.A.drop (i + 2)) (mpsBond ψ (i + 2)) 1 := by
    have := chain3_drop hψ (i + 2) (Nat.succ_le_of_lt hi)
    rwa [drop_replicate'] at this
  have cWL : Chain4 (List.replicate i d) (o.A.take i) 1 W0.d2 := by
    have := chain4_take ho i (Nat.le_of_lt hio)
    rwa [take_replicate_le (Nat.le_of_lt hi0), ← mpoBond, b4] at this
  have cWR : Chain4 (List.replicate (ψ.A.length - (i + 2)) d) (o.A.drop (i + 2)) W1.d3 1 := by
    have := chain4_drop ho (i + 2) (Nat.succ_le_of_lt hio1)
    rwa [drop_replicate', ← mpoBond, b4'] at this
  obtain ⟨T, hT, t0, t1, t2, hsum⟩ := two_chain (A2 := A2) (B2 := B2) (hA1 ▸ cL) (hA2 ▸ cR) (hB1 ▸ cL) (hB2 ▸ cR)
    cWL cWR hA0 hB0 dW0.1 dW0.2 dW1.1 dW1.2 hW hEL hER
  refine ⟨T, hT, t0, t1.trans hB1, t2.trans hB2, ?_⟩
  rw [← hB1, ← hB2, hsum]
  have eo : o.A.take i ++ W0 :: W1 :: o.A.drop (i + 2) = o.A := by
    rw [← eW1, ← List.drop_eq_getElem_cons hio1, ← eW0, ← List.drop_eq_getElem_cons hio, List.take_append_drop]
  symm
  unfold digitsU
  rw [replicate_split2 hi, sum_digits_mid2]
  refine Finset.sum_congr rfl fun σl hσl => Finset.sum_congr rfl fun s0 hs0 =>
    Finset.sum_congr rfl fun s1 hs1 => Finset.sum_congr rfl fun σr hσr => ?_
  rw [sum_digits_mid2]
  refine Finset.sum_congr rfl fun τl hτl => Finset.sum_congr rfl fun t0 ht0 =>
    Finset.sum_congr rfl fun t1 ht1 => Finset.sum_congr rfl fun τr hτr => ?_
  rw [ampTwo_eq hψ hi hB1 hB2 s0 s1 hσl hσr, ampTwo_eq hψ hi hA1 hA2 t0 t1 hτl hτr,
    elem_eq_pmatO ho (mem_digits_split2 hi hσl hs0 hs1 hσr) (mem_digits_split2 hi hτl ht0 ht1 hτr), eo]

/-! ## merging two neighbouring tensors preserves the dense meaning -/

theorem elemTwo_eq {d : Nat} {ψ : MPS R} {o : MPO R} (ho : Chain4 (List.replicate ψ.A.length d) o.A 1 1) {i : Nat}
    (hi : i + 1 < ψ.A.length) {W2 : T4 R} (h1 : W2.d2 = mpoBond o i) (h2 : W2.d3 = mpoBond o (i + 2))
    {σl σr τl τr : List Nat} (s0 s1 t0 t1 : Nat) (hl : σl ∈ digits (List.replicate i d))
    (hr : σr ∈ digits (List.replicate (ψ.A.length - (i + 2)) d)) (hl' : τl ∈ digits (List.replicate i d))
    (hr' : τr ∈ digits (List.replicate (ψ.A.length - (i + 2)) d)) :
    elemTwo o d i W2 (σl ++ s0 :: s1 :: σr) (τl ++ t0 :: t1 :: τr)
      = pmatO (o.A.take i ++ W2 :: o.A.drop (i + 2)) (σl ++ (s0 * d + s1) :: σr) (τl ++ (t0 * d + t1) :: τr) 0 0 := by
  have hlo : o.A.length = ψ.A.length := by simpa using chain4_length ho
  have hlen : σl.length = i := by simpa using length_of_mem_digits hl
  have hlen' : τl.length = i := by simpa using length_of_mem_digits hl'
  have hi0 : i ≤ ψ.A.length := by omega
  have hio : i ≤ o.A.length := by omega
  have hio2 : i + 2 ≤ o.A.length := by omega
  have cL : Chain4 (List.replicate i d) (o.A.take i) 1 (mpoBond o i) := by
    have := chain4_take ho i hio
    rwa [take_replicate_le hi0] at this
  obtain ⟨f1, f2, f3, f4⟩ := split2_facts (σr := σr) (s0 := s0) (s1 := s1) hlen
  obtain ⟨g1, g2, g3, g4⟩ := split2_facts (σr := τr) (s0 := t0) (s1 := t1) hlen'
  rw [elemTwo, f1, f2, f3, f4, g1, g2, g3, g4, pmatO_append cL _ hl hl' _ _ Nat.one_pos 0, h1]
  refine Finset.sum_congr rfl fun a ha => ?_
  rw [pmatO_cons, Finset.mul_sum]
  refine Finset.sum_congr rfl fun b hb => ?_
  rw [← take_replicate_le hi0] at hl hl'
  rw [← drop_replicate'] at hr hr'
  rw [elemPrefix_eq ho hio hl hl' (by simpa using ha),
    elemSuffix_eq ho Nat.one_pos hio2 hr hr' (by rw [← h2]; simpa using hb)]
  ring

theorem mem_digits_split2_inv {L i d : Nat} (hi : i + 1 < L) {σ : List Nat} (h : σ ∈ digits (List.replicate L d)) :
    ∃ σl s0 s1 σr, σl ∈ digits (List.replicate i d) ∧ s0 < d ∧ s1 < d ∧
      σr ∈ digits (List.replicate (L - (i + 2)) d) ∧ σ = σl ++ s0 :: s1 :: σr := by
  rw [replicate_split2 hi] at h
  obtain ⟨σl, r, hl, hr, rfl⟩ := mem_digits_append h
  obtain ⟨s0, r', h0, hr', rfl⟩ := mem_digits_cons.1 hr
  obtain ⟨s1, σr, h1, hr'', rfl⟩ := mem_digits_cons.1 hr'
  exact ⟨σl, s0, s1, σr, hl, h0, h1, hr'', rfl⟩

/-- `merge_mps_tensor_pair` preserves the amplitudes -/
theorem ampTwo_merge {d : Nat} {ψ : MPS R} (hψ : Chain3 (List.replicate ψ.A.length d) ψ.A 1 1) {i : Nat}
    (hi : i + 1 < ψ.A.length) {A0 A1 : T3 R} (hA0 : ψ.A[i]? = some A0) (hA1 : ψ.A[i + 1]? = some A1)
    {σ : List Nat} (hσ : σ ∈ digitsU d ψ.A.length) :
    ampTwo ψ d i (MPS.mergePair A0 A1) σ = ψ.amp σ := by
  have hi0 : i < ψ.A.length := by omega
  have e0 := getElem_of_getElem? hA0 hi0
  have e1 := getElem_of_getElem? hA1 hi
  obtain ⟨σl, s0, s1, σr, hl, h0, h1, hr, rfl⟩ := mem_digits_split2_inv hi hσ
  have b1 : (MPS.mergePair A0 A1).d1 = mpsBond ψ i := by
    rw [mpsBond, bond3_eq_d1 hψ hi0, e0]; rfl
  have b2 : (MPS.mergePair A0 A1).d2 = mpsBond ψ (i + 2) := by
    rw [mpsBond, bond3_succ_eq _ _ hi, e1]; rfl
  have dA1 : A1.d0 = d := by
    have := chain3_d0 hψ hi (by simpa using hi)
    simpa [e1] using this
  have cL : Chain3 (List.replicate i d) (ψ.A.take i) 1 (mpsBond ψ i) := by
    have := chain3_take hψ i (Nat.le_of_lt hi0)
    rwa [take_replicate_le (Nat.le_of_lt hi0)] at this
  have eA : ψ.A.take i ++ A0 :: A1 :: ψ.A.drop (i + 2) = ψ.A := by
    rw [← e1, ← List.drop_eq_getElem_cons hi, ← e0, ← List.drop_eq_getElem_cons hi0, List.take_append_drop]
  rw [ampTwo_eq hψ hi b1 b2 s0 s1 hl hr, amp_eq_pmat hψ hσ]
  conv_rhs => rw [← eA]
  rw [pmat_append cL _ hl _ Nat.one_pos 0, pmat_append cL _ hl _ Nat.one_pos 0]
  refine Finset.sum_congr rfl fun x _ => ?_
  have key := pmat_merge A0 A1 (ψ.A.drop (i + 2)) s0 (s1 := s1) (by rw [dA1]; exact h1) σr x 0
  rw [dA1] at key
  rw [key]

/-- `merge_mpo_tensor_pair` preserves the matrix elements -/
theorem elemTwo_merge {d : Nat} {ψ : MPS R} {o : MPO R} (ho : Chain4 (List.replicate ψ.A.length d) o.A 1 1)
    {i : Nat} (hi : i + 1 < ψ.A.length) {W0 W1 : T4 R} (hW0 : o.A[i]? = some W0) (hW1 : o.A[i + 1]? = some W1)
    {σ τ : List Nat} (hσ : σ ∈ digitsU d ψ.A.length) (hτ : τ ∈ digitsU d ψ.A.length) :
    elemTwo o d i (MPO.mergePair W0 W1) σ τ = o.elem σ τ := by
  have hlo : o.A.length = ψ.A.length := by simpa using chain4_length ho
  have hi0 : i < ψ.A.length := by omega
  have hio : i < o.A.length := by omega
  have hio1 : i + 1 < o.A.length := by omega
  have e0 := getElem_of_getElem? hW0 hio
  have e1 := getElem_of_getElem? hW1 hio1
  obtain ⟨σl, s0, s1, σr, hl, h0, h1, hr, rfl⟩ := mem_digits_split2_inv hi hσ
  obtain ⟨τl, t0, t1, τr, hl', h0', h1', hr', rfl⟩ := mem_digits_split2_inv hi hτ
  have b1 : (MPO.mergePair W0 W1).d2 = mpoBond o i := by
    rw [mpoBond, bond4_eq_d2 ho hio, e0]; rfl
  have b2 : (MPO.mergePair W0 W1).d3 = mpoBond o (i + 2) := by
    rw [mpoBond, bond4_succ_eq _ _ hio1, e1]; rfl
  have dW1 : W1.d0 = d ∧ W1.d1 = d := by
    have := chain4_d01 ho hio1 (by simpa using hi)
    simpa [e1] using this
  have cL : Chain4 (List.replicate i d) (o.A.take i) 1 (mpoBond o i) := by
    have := chain4_take ho i (Nat.le_of_lt hio)
    rwa [take_replicate_le (Nat.le_of_lt hi0)] at this
  have eo : o.A.take i ++ W0 :: W1 :: o.A.drop (i + 2) = o.A := by
    rw [← e1, ← List.drop_eq_getElem_cons hio1, ← e0, ← List.drop_eq_getElem_cons hio, List.take_append_drop]
  rw [elemTwo_eq ho hi b1 b2 s0 s1 t0 t1 hl hr hl' hr', elem_eq_pmatO ho hσ hτ]
  conv_rhs => rw [← eo]
  rw [pmatO_append cL _ hl hl' _ _ Nat.one_pos 0, pmatO_append cL _ hl hl' _ _ Nat.one_pos 0]
  refine Finset.sum_congr rfl fun x _ => ?_
  have key := pmatO_merge W0 W1 (o.A.drop (i + 2)) s0 t0 (s1 := s1) (t1 := t1) (by rw [dW1.1]; exact h1)
    (by rw [dW1.2]; exact h1') σr τr x 0
  rw [dW1.1, dW1.2] at key
  rw [key]

/-- `elemTwo_merge` stated with the length of the MPO itself -/
theorem elemTwo_merge_len {d : Nat} {o : MPO R} (ho : Chain4 (List.replicate o.A.length d) o.A 1 1)
    {i : Nat} (hi : i + 1 < o.A.length) {W0 W1 : T4 R} (hW0 : o.A[i]? = some W0) (hW1 : o.A[i + 1]? = some W1)
    {σ τ : List Nat} (hσ : σ ∈ digitsU d o.A.length) (hτ : τ ∈ digitsU d o.A.length) :
    elemTwo o d i (MPO.mergePair W0 W1) σ τ = o.elem σ τ := by
  let ψ : MPS R := ⟨[], [], List.replicate o.A.length ⟨0, 0, 0, fun _ _ _ => 0⟩⟩
  have hl : ψ.A.length = o.A.length := by simp [ψ]
  exact elemTwo_merge (ψ := ψ) (hl ▸ ho) (hl ▸ hi) hW0 hW1 (hl ▸ hσ) (hl ▸ hτ)

end Ptn.Env

import PtnModel.Proofs.KryFullDmrgAny
import PtnModel.Proofs.KryFullDmrgExample
import PtnModel.Props.C10Total
/-!
# A (degenerate) two-site witness for the sweep-level theorems of `Props/C10Exact.lean`

Two sites of physical dimension ONE (`exHd`: dense operator the `1 × 1` matrix `(1)`, `exψd`: the product state with amplitude
`1`), kernels `exKF`.  All bond dimensions are one — a complete shape —, every local problem is one-dimensional — every Lanczos
run is full-length —, and the normalised state overlaps the only eigenvector: the first local optimisation of every sweep is a
`CentreHit` (`exd_hit`), the call returns (`exd_total`).  The Hilbert space is one-dimensional, so this witness only shows that
the hypotheses of the sweep-level theorems are jointly satisfiable for `L ≥ 2`; the non-degenerate witness of the local
mechanism (a genuinely two-dimensional full-length Lanczos run) is `exz_dmrg` in `Proofs/KryFullDmrgExample.lean`.
-/
set_option linter.unusedSectionVars false
namespace Ptn.Evo
open Ptn Ptn.BondOps Ptn.Ortho Ptn.Env Ptn.Krylov Ptn.Dense Finset

/-- two sites of physical dimension one: the dense operator is the `1 × 1` matrix `(1)` -/
noncomputable def exHd : MPO ℂ :=
  ⟨[0], [[0], [0], [0]], [⟨1, 1, 1, 1, fun _ _ _ _ => 1⟩, ⟨1, 1, 1, 1, fun _ _ _ _ => 1⟩]⟩
noncomputable def exψd : MPS ℂ := ⟨[0], [[0], [0], [0]], [⟨1, 1, 1, fun _ _ _ => 1⟩, ⟨1, 1, 1, fun _ _ _ => 1⟩]⟩

theorem sum_digitsU_one_two {β : Type} [AddCommMonoid β] (F : List Nat → β) : ∑ σ ∈ digitsU 1 2, F σ = F [0, 0] := by
  rw [sum_digitsU_succ]
  simp only [Finset.sum_range_one]
  rw [show digitsU 1 1 = digitsU 1 (0 + 1) from rfl, sum_digitsU_succ]
  simp [digitsU]

theorem mem_digitsU_one_two {σ : List Nat} (h : σ ∈ digitsU 1 2) : σ = [0, 0] := by
  have h' : σ ∈ digits [1, 1] := h
  obtain ⟨s0, r, h0, hr, rfl⟩ := mem_digits_cons.1 h'
  obtain ⟨s1, r', h1, hr', rfl⟩ := mem_digits_cons.1 hr
  simp only [digits_nil, Finset.mem_singleton] at hr'
  subst hr'
  have : s0 = 0 := by omega
  have : s1 = 0 := by omega
  subst_vars; rfl

theorem exHd_elem : exHd.elem [0, 0] [0, 0] = 1 := by
  simp [MPO.elem, MPO.elemRow, exHd, sumRange, List.range_succ]

theorem exHd_shaped : C04.MPO.Shaped exHd 1 := by decide

theorem exHd_herm : C04.MPO.DenseHermitian exHd 1 := by
  intro s hs t ht
  have hs' : s ∈ digitsU 1 2 := hs
  have ht' : t ∈ digitsU 1 2 := ht
  rw [mem_digitsU_one_two hs', mem_digitsU_one_two ht', exHd_elem]; simp

theorem exKFd_ctx (numiter : Nat) : SweepCtx exKF exHd [0] numiter :=
  sweepCtx_of_eighExact (k := exKF) rfl ⟨realQR_contract, realQR_realDiag⟩ sqrtNorm_contract exHd_shaped exHd_herm
    (by decide) numiter

theorem exHd_lower : DenseLower exHd 1 1 := by
  intro x
  have hL : exHd.A.length = 2 := rfl
  rw [hL]
  simp only [sum_digitsU_one_two, exHd_elem]
  have h0 : RCLike.re (star (x [0, 0]) * 1 * x [0, 0]) = ‖x [0, 0]‖ ^ 2 := by
    rw [mul_one, ← starRingEnd_apply, RCLike.conj_mul]; norm_cast
  rw [h0, one_mul]

theorem exHd_eig : DenseEig exHd 1 1 (fun _ => (1 : ℂ)) := by
  intro σ hσ
  have hL : exHd.A.length = 2 := rfl
  rw [hL] at hσ ⊢
  rw [sum_digitsU_one_two, mem_digitsU_one_two hσ, exHd_elem]; simp

theorem exψd_adm : Admissible exψd := by
  refine ⟨(wellFormed_iff_idx exψd).2 ⟨rfl, ?_⟩, by decide, by simp [exψd], by simp [exψd], rfl, rfl⟩
  intro i hi
  have hi' : i < 2 := hi
  interval_cases i <;>
  · refine ⟨rfl, rfl, rfl, ?_⟩
    intro s a b hs ha hb
    have hs' : s < 1 := hs
    have ha' : a < 1 := ha
    have hb' : b < 1 := hb
    interval_cases s; interval_cases a; interval_cases b; simp [exψd]

theorem exHd_wf : exHd.wellFormed = true := by
  refine (mpo_wellFormed_iff_idx exHd).2 ⟨rfl, ?_⟩
  intro i hi
  have hi' : i < 2 := hi
  interval_cases i <;>
  · refine ⟨rfl, rfl, rfl, rfl, ?_⟩
    intro s t a b hs ht ha hb hne
    have hs' : s < 1 := hs
    have ht' : t < 1 := ht
    have ha' : a < 1 := ha
    have hb' : b < 1 := hb
    interval_cases s; interval_cases t; interval_cases a; interval_cases b; simp [exHd] at hne ⊢

theorem exCompatd : C02.EvoCompat exHd exψd := ⟨rfl, rfl⟩

/-- the call returns, for every number of sweeps and every `numiter ≥ 1` -/
theorem exd_total {numiter : Nat} (hm : 1 ≤ numiter) (numsweeps : Nat) :
    ∃ ψ' en, dmrgSinglesite exKF exHd exψd numsweeps numiter = .ok (ψ', en) :=
  C10.dmrg1_total (k := exKF) (H := exHd) (ψ := exψd) (exKFd_ctx numiter) hm exHd_wf exCompatd rfl exψd_adm rfl numsweeps

/-- the first local optimisation of the first sweep is a hit: the prologue state has all bond dimensions one (complete shape
with centre `0`), the local problem is one-dimensional (every Lanczos run is full-length), the dense operator is `(1)`, and the
normalised state overlaps its eigenvector -/
theorem exd_hit {numiter : Nat} {s0 : Sweep ℂ} {nrm : ℝ} (hp : prologue exKF exHd exψd = .ok (s0, nrm)) :
    SweepHit exKF exHd [0] numiter 1 s0 := by
  have ctx := exKFd_ctx numiter
  obtain ⟨ψ1, E0, ho, hcur, hinv0⟩ := prologue_inv ctx rfl exψd_adm hp
  have h := hinv0.can
  have hq2 : (getQ s0 2).length = 1 := h.qL
  have hq0 : (getQ s0 0).length = 1 := h.q0
  have hq1 : (getQ s0 1).length = 1 := by
    have h1 := h.wf.qpos 1 (by show 1 ≤ 2; omega)
    have h2 := C01.ortho_bond ctx.qr.contract.shape exψd_adm ho (i := 1) (by decide)
    simp only [Bool.false_eq_true, if_false] at h2
    rw [← hcur, getQ_cur, getQ_cur] at h2
    have h3 : (exψd.qD.getD 1 []).length = 1 := rfl
    rw [h3] at h2
    omega
  left
  show FoldAny _ _ [0] (s0, (0 : ℝ))
  refine Or.inl ⟨fun j hj => absurd hj (Nat.not_lt_zero j), ?_, ?_, fun _ => (1 : ℂ), exHd_eig, ?_⟩
  · intro j hj hj'
    have hj2 : j < 2 := hj'
    have : j = 1 := by omega
    subst this
    show (getQ s0 1).length = 1 * (getQ s0 2).length
    rw [hq1, hq2]
  · intro alpha beta V hl
    obtain ⟨a0, a1, a2⟩ := h.wf.shape 0 h.hc
    have hlen : (flat3 (getA s0 0)).length = 1 := by
      rw [length_flat3, a0, a1, a2, hq0, hq1]; rfl
    have hle := (lanczos_le_length _ _ hl).1
    obtain ⟨h1, _, _, _, h5⟩ := lanczos_sizes _ _ hl
    rw [hlen] at hle ⊢
    omega
  · show ∑ σ ∈ digitsU 1 2, star ((fun _ => (1 : ℂ)) σ) * (cur [0] s0).amp σ ≠ 0
    rw [sum_digitsU_one_two]
    intro h0
    have hn := hinv0.nrm
    unfold normSq at hn
    rw [h.len] at hn
    have hn' : ∑ σ ∈ digitsU 1 2, star ((cur [0] s0).amp σ) * (cur [0] s0).amp σ = 1 := hn
    rw [sum_digitsU_one_two] at hn'
    simp only [star_one, one_mul] at h0
    rw [h0] at hn'
    simp at hn'

end Ptn.Evo

import PtnModel.Proofs.OgRenameEdge
/-!
# `rename_node_id` keeps the denotation and structural validity
-/
set_option linter.unusedSectionVars false
namespace Ptn.Og
open List Rw
variable {κ : Type} [CommRing κ] [DecidableEq κ]

/-- two dictionaries with the same key sequence and the same lookups are equal -/
theorem dict_ext {β : Type} : ∀ {d d' : List (Int × β)}, dKeys d = dKeys d' → (dKeys d).Nodup →
    (∀ k, dGet? d k = dGet? d' k) → d = d'
  | [], [], _, _, _ => rfl
  | [], _ :: _, hk, _, _ => by simp [dKeys] at hk
  | _ :: _, [], hk, _, _ => by simp [dKeys] at hk
  | (k0, v0) :: d, (k1, v1) :: d', hk, hn, hl => by
    rw [dKeys_cons, dKeys_cons, cons.injEq] at hk
    obtain ⟨rfl, hk⟩ := hk
    rw [dKeys_cons, nodup_cons] at hn
    have h0 := hl k0
    rw [dGet?_cons, dGet?_cons] at h0
    simp only [if_true, Option.some.injEq] at h0
    subst h0
    congr 1
    apply dict_ext hk hn.2
    intro k
    have := hl k
    rw [dGet?_cons, dGet?_cons] at this
    by_cases h : k = k0
    · subst h
      rw [dGet?_eq_none_iff.2 hn.1, dGet?_eq_none_iff.2 (hk ▸ hn.1)]
    · simpa [h] using this

/-- a fold of `modifyEdge` over a duplicate-free id list -/
theorem foldlM_modifyEdge {f : Edge κ → Except Err (Edge κ)} :
    ∀ {l : List Int} {g g' : Graph κ}, l.foldlM (fun g eid => g.modifyEdge eid f) g = .ok g' → l.Nodup →
      g'.nodes = g.nodes ∧ g'.nidTerminal = g.nidTerminal ∧ dKeys g'.edges = dKeys g.edges ∧
      (∀ k ∈ l, ∃ e e', dGet? g.edges k = some e ∧ f e = .ok e' ∧ dGet? g'.edges k = some e') ∧
      (∀ k, k ∉ l → dGet? g'.edges k = dGet? g.edges k)
  | [], g, g', hr, _ => by
    simp only [foldlM_nil, pure_ok] at hr
    subst hr
    simp
  | a :: l, g, g', hr, hn => by
    rw [foldlM_cons, bind_ok] at hr
    obtain ⟨g1, h1, h2⟩ := hr
    rw [modifyEdge_ok] at h1
    obtain ⟨e, e', hge, hfe, rfl⟩ := h1
    rw [nodup_cons] at hn
    obtain ⟨hn1, hn2, hn3, hn4, hn5⟩ := foldlM_modifyEdge h2 hn.2
    have hka : a ∈ dKeys g.edges := dGet?_some_mem_keys hge
    refine ⟨hn1, hn2, by rw [hn3]; exact dKeys_dReplace _ _ _, ?_, ?_⟩
    · intro k hk
      rcases mem_cons.1 hk with rfl | hk
      · refine ⟨e, e', hge, hfe, ?_⟩
        rw [hn5 k hn.1]
        simp [dGet?_dReplace, hka]
      · obtain ⟨e1, e1', h3, h4, h5⟩ := hn4 k hk
        have hne : k ≠ a := fun h => hn.1 (h ▸ hk)
        simp only [dGet?_dReplace, hne, false_and, if_false] at h3
        exact ⟨e1, e1', h3, h4, h5⟩
    · intro k hk
      rw [mem_cons, not_or] at hk
      rw [hn5 k hk.2]
      simp [dGet?_dReplace, hk.1]

/-- the renaming of node ids -/
def rho (cur new : Int) (x : Int) : Int := if x = cur then new else x

/-- an edge with both end points renamed -/
def renE (cur new : Int) (e : Edge κ) : Edge κ := { e with nids := (rho cur new e.nids.1, rho cur new e.nids.2) }

theorem rho_inj {cur new a b : Int} (ha : a ≠ new) (hb : b ≠ new) : rho cur new a = rho cur new b ↔ a = b := by
  unfold rho
  by_cases h1 : a = cur <;> by_cases h2 : b = cur
  · simp [h1, h2]
  · subst h1
    simp only [if_true, h2, if_false]
    exact ⟨fun h => absurd h.symm hb, fun h => absurd h.symm h2⟩
  · subst h2
    simp only [if_true, h1, if_false]
    exact ⟨fun h => absurd h ha, fun h => h.elim⟩
  · simp [h1, h2]

theorem renE_nid (cur new : Int) (e : Edge κ) (d : Bool) : (renE cur new e).nid d = rho cur new (e.nid d) := by
  cases d <;> rfl

/-- result of `rename_node_id` on a structurally valid graph -/
theorem renameNodeId_spec {g g' : Graph κ} (h : SValid g) {cur new : Int} (hr : g.renameNodeId cur new = .ok g') :
    ∃ node, dGet? g.nodes cur = some node ∧ new ∉ dKeys g.nodes ∧
      g'.nodes = dErase g.nodes cur ++ [(new, { node with nid := new })] ∧
      g'.edges = g.edges.map (fun p => (p.1, renE cur new p.2)) ∧
      g'.nidTerminal = (rho cur new g.nidTerminal.1, rho cur new g.nidTerminal.2) := by
  unfold Graph.renameNodeId at hr
  by_cases h1 : dHas g.nodes cur = true
  · by_cases h2 : dHas g.nodes new = true
    · simp [h1, h2] at hr
    · simp only [h1, h2, Bool.not_true, Bool.false_eq_true, if_false, bind_ok, pyAssert_ok, List.foldlM_cons,
        List.foldlM_nil, pure_ok, Prod.exists, beq_iff_eq] at hr
      obtain ⟨node, g0, hrem, _, hnid, g4, ⟨g2, ⟨g1, hf1, rfl⟩, g4', ⟨g3, hf3, rfl⟩, rfl⟩, hadd⟩ := hr
      rw [removeNode_ok] at hrem
      obtain ⟨hget, rfl⟩ := hrem
      have hmem := mem_of_dGet?_eq_some hget
      have hnew : new ∉ dKeys g.nodes := fun hk => h2 (dHas_iff.2 hk)
      obtain ⟨a1, a2, a3, a4, a5⟩ := foldlM_modifyEdge hf1 (h.eidsNodup cur node hmem false)
      -- the state after the first direction
      have hf3' := hf3
      have b := foldlM_modifyEdge (g := if g1.term false = cur then g1.setTerm false new else g1) hf3
        (h.eidsNodup cur node hmem true)
      obtain ⟨b1, b2, b3, b4, b5⟩ := b
      have e2 : ∀ (x : Graph κ) (d : Bool) (v : Int), (if x.term d = cur then x.setTerm d v else x).edges = x.edges := by
        intro x d v; split <;> cases d <;> rfl
      have n2 : ∀ (x : Graph κ) (d : Bool) (v : Int), (if x.term d = cur then x.setTerm d v else x).nodes = x.nodes := by
        intro x d v; split <;> cases d <;> rfl
      rw [e2] at b3 b4 b5
      rw [n2] at b1
      rw [addNode_ok] at hadd
      obtain ⟨_, rfl⟩ := hadd
      refine ⟨node, hget, hnew, ?_, ?_, ?_⟩
      · simp only [n2, b1, a1]
      · -- edges
        simp only [e2]
        apply dict_ext
        · rw [b3, a3]; simp [dKeys, map_map, Function.comp]
        · rw [b3, a3]; exact h.edgesKeys
        · intro k
          rw [dGet?_map_snd]
          cases hl : dGet? g.edges k with
          | none =>
            have hk : ∀ d, k ∉ node.eids d := by
              intro d hc
              obtain ⟨e, he, _⟩ := h.nodeEdge cur node hmem d k hc
              rw [dGet?_eq_some_of_mem h.edgesKeys he] at hl; cases hl
            rw [b5 k (hk true), a5 k (hk false), hl]; rfl
          | some e =>
            have he := mem_of_dGet?_eq_some hl
            have hin := h.mem_eids_iff he hmem false
            have hout := h.mem_eids_iff he hmem true
            simp only [Bool.not_false, Bool.not_true, Edge.nid, if_true, Bool.false_eq_true, if_false] at hin hout
            simp only [Option.map_some]
            by_cases hi : k ∈ node.eids false
            · obtain ⟨e1, e1', h3, h4, h5⟩ := a4 k hi
              rw [hl] at h3; cases h3
              simp only [bind_ok, pyAssert_ok, pure_ok] at h4
              obtain ⟨_, _, rfl⟩ := h4
              by_cases ho : k ∈ node.eids true
              · obtain ⟨e2', e2'', h6, h7, h8⟩ := b4 k ho
                rw [h5] at h6; cases h6
                simp only [bind_ok, pyAssert_ok, pure_ok] at h7
                obtain ⟨_, _, rfl⟩ := h7
                rw [h8]
                have q1 := hin.1 hi
                have q2 := hout.1 ho
                simp [renE, rho, Edge.setNid, q1, q2]
              · rw [b5 k ho, h5]
                have q1 := hin.1 hi
                have q2 : ¬ e.nids.1 = cur := fun q => ho (hout.2 q)
                simp [renE, rho, Edge.setNid, q1, q2]
            · by_cases ho : k ∈ node.eids true
              · obtain ⟨e2', e2'', h6, h7, h8⟩ := b4 k ho
                rw [a5 k hi, hl] at h6; cases h6
                simp only [bind_ok, pyAssert_ok, pure_ok] at h7
                obtain ⟨_, _, rfl⟩ := h7
                rw [h8]
                have q1 : ¬ e.nids.2 = cur := fun q => hi (hin.2 q)
                have q2 := hout.1 ho
                simp [renE, rho, Edge.setNid, q1, q2]
              · rw [b5 k ho, a5 k hi, hl]
                have q1 : ¬ e.nids.2 = cur := fun q => hi (hin.2 q)
                have q2 : ¬ e.nids.1 = cur := fun q => ho (hout.2 q)
                simp [renE, rho, Edge.setNid, q1, q2]
      · -- terminals
        have t1 : g1.nidTerminal = g.nidTerminal := a2
        have t3 : g3.nidTerminal = (if g1.term false = cur then g1.setTerm false new else g1).nidTerminal := b2
        simp only [Graph.term, Graph.setTerm, Bool.false_eq_true, if_false, if_true] at t3 ⊢
        rw [apply_ite Graph.nidTerminal] at t3
        simp only [t1] at t3
        by_cases q0 : g.nidTerminal.1 = cur <;> by_cases q1 : g.nidTerminal.2 = cur <;>
          simp [rho, q0, q1, t1, t3, apply_ite Graph.nidTerminal]
  · simp [h1] at hr


theorem mem_map_snd {β γ : Type} {f : β → γ} {d : List (Int × β)} {k : Int} {v : γ} :
    (k, v) ∈ d.map (fun p => (p.1, f p.2)) ↔ ∃ v0, (k, v0) ∈ d ∧ v = f v0 := by
  simp only [mem_map, Prod.mk.injEq, Prod.exists]
  constructor
  · rintro ⟨a, b, hab, rfl, rfl⟩; exact ⟨b, hab, rfl⟩
  · rintro ⟨v0, h0, rfl⟩; exact ⟨k, v0, h0, rfl, rfl⟩

/-- `rename_node_id` keeps structural validity -/
theorem SValid.renameNodeId {g g' : Graph κ} (h : SValid g) {cur new : Int}
    (hr : g.renameNodeId cur new = .ok g') : SValid g' := by
  obtain ⟨node, hget, hnew, hnodes, hedges, hterm⟩ := renameNodeId_spec h hr
  have hmem := mem_of_dGet?_eq_some hget
  have hnid : node.nid = cur := h.nodeKey cur node hmem
  have hnk' : (dKeys g'.nodes).Nodup := by
    rw [hnodes, dKeys_append, dKeys_dErase]
    refine Nodup.append (h.nodesKeys.erase _) (by simp [dKeys]) ?_
    intro x hx hx'
    simp only [dKeys, map_cons, map_nil, mem_singleton] at hx'
    subst hx'
    exact hnew (mem_of_mem_erase hx)
  have hek' : (dKeys g'.edges).Nodup := by
    rw [hedges]
    have : dKeys (g.edges.map fun p => (p.1, renE cur new p.2)) = dKeys g.edges := by
      simp [dKeys, map_map, Function.comp]
    rw [this]; exact h.edgesKeys
  have nodes' : ∀ {k n}, (k, n) ∈ g'.nodes →
      ((k, n) ∈ g.nodes ∧ k ≠ cur) ∨ (k = new ∧ n = { node with nid := new }) := by
    intro k n hn
    rw [hnodes, mem_append] at hn
    rcases hn with hn | hn
    · left; exact ⟨(dErase_sublist _ _).subset hn, ne_of_mem_dErase h.nodesKeys hn⟩
    · right; simpa using hn
  have nodes_old : ∀ {k n}, (k, n) ∈ g.nodes → k ≠ cur → (k, n) ∈ g'.nodes := by
    intro k n hn hk
    rw [hnodes]; exact mem_append_left _ (mem_dErase_of_ne hn hk)
  have node_new : (new, { node with nid := new }) ∈ g'.nodes := by rw [hnodes]; simp
  have edges' : ∀ {k e}, (k, e) ∈ g'.edges ↔ ∃ e0, (k, e0) ∈ g.edges ∧ e = renE cur new e0 := by
    intro k e; rw [hedges]; exact mem_map_snd
  -- the node found at a renamed id
  have node_at : ∀ {x n}, (x, n) ∈ g.nodes → ∃ n', (rho cur new x, n') ∈ g'.nodes ∧ ∀ d, n'.eids d = n.eids d := by
    intro x n hn
    by_cases hx : x = cur
    · subst hx
      have := h.node_unique hn hmem
      subst this
      refine ⟨{ n with nid := new }, by simpa [rho] using node_new, fun d => by cases d <;> rfl⟩
    · exact ⟨n, by simpa [rho, hx] using nodes_old hn hx, fun _ => rfl⟩
  refine ⟨hnk', hek', ?_, ?_, ?_, ?_, ?_, ?_, ?_⟩
  · intro k n hn
    rcases nodes' hn with ⟨hn, _⟩ | ⟨rfl, rfl⟩
    · exact h.nodeKey k n hn
    · rfl
  · intro k e he
    obtain ⟨e0, he0, rfl⟩ := edges'.1 he
    exact h.edgeKey k e0 he0
  · intro k n hn d
    rcases nodes' hn with ⟨hn, _⟩ | ⟨rfl, rfl⟩
    · exact h.eidsNodup k n hn d
    · have := h.eidsNodup cur node hmem d
      cases d <;> simpa [Node.eids] using this
  · intro k n hn d eid heid
    rcases nodes' hn with ⟨hn, hk⟩ | ⟨rfl, rfl⟩
    · obtain ⟨e, he, hx⟩ := h.nodeEdge k n hn d eid heid
      refine ⟨renE cur new e, edges'.2 ⟨e, he, rfl⟩, ?_⟩
      rw [renE_nid, hx]; simp [rho, hk]
    · have heid' : eid ∈ node.eids d := by cases d <;> simpa [Node.eids] using heid
      obtain ⟨e, he, hx⟩ := h.nodeEdge cur node hmem d eid heid'
      refine ⟨renE cur k e, edges'.2 ⟨e, he, rfl⟩, ?_⟩
      rw [renE_nid, hx]; simp [rho]
  · intro k e he d
    obtain ⟨e0, he0, rfl⟩ := edges'.1 he
    obtain ⟨n, hn, hx⟩ := h.edgeNode k e0 he0 d
    obtain ⟨n', hn', heq⟩ := node_at hn
    exact ⟨n', by rw [renE_nid]; exact hn', by rw [heq]; exact hx⟩
  · intro d
    obtain ⟨n, hn, hx⟩ := h.termNode d
    obtain ⟨n', hn', heq⟩ := node_at hn
    refine ⟨n', ?_, by rw [heq]; exact hx⟩
    have : g'.term d = rho cur new (g.term d) := by cases d <;> simp [Graph.term, hterm]
    rw [this]; exact hn'
  · intro k e he
    obtain ⟨e0, he0, rfl⟩ := edges'.1 he
    exact h.opicsSorted k e0 he0

/-- path sums under a renaming of node ids that is injective away from the fresh id -/
theorem denE_map_renE (es : List (Edge κ)) (t : Int) (cur new : Int)
    (hes : ∀ e ∈ es, e.nids.1 ≠ new ∧ e.nids.2 ≠ new) (ht : t ≠ new) :
    ∀ (w : Word) (x : Int), x ≠ new →
      denE (es.map (renE cur new)) (rho cur new t) w (rho cur new x) = denE es t w x := by
  intro w
  induction w with
  | nil =>
    intro x hx
    simp only [denE_nil, rho_inj hx ht]
  | cons o w ih =>
    intro x hx
    rw [denE_cons, denE_cons]
    simp only [rho_inj hx ht]
    by_cases hxt : x = t
    · simp [hxt]
    · simp only [hxt, if_false]
      rw [map_map]
      apply sum_map_congr
      intro e he
      obtain ⟨h1, h2⟩ := hes e he
      simp only [Function.comp]
      have e1 : (renE cur new e).nids.1 = rho cur new e.nids.1 := rfl
      have e2 : (renE cur new e).nids.2 = rho cur new e.nids.2 := rfl
      have e3 : opc (renE cur new e) o = opc e o := rfl
      rw [e1, e2, e3, ih _ h2]
      simp only [rho_inj h1 hx]

/-- **`rename_node_id`**: structural validity is kept and the denoted operator is unchanged. -/
theorem denF_renameNodeId {g g' : Graph κ} (h : SValid g) {cur new : Int}
    (hr : g.renameNodeId cur new = .ok g') (w : Word) : g'.denF w = g.denF w := by
  obtain ⟨node, hget, hnew, hnodes, hedges, hterm⟩ := renameNodeId_spec h hr
  rw [denF_eq_denE (h.renameNodeId hr), denF_eq_denE h]
  have hkey : ∀ {x n}, (x, n) ∈ g.nodes → x ≠ new := by
    intro x n hn hx
    subst hx
    exact hnew (mem_map.2 ⟨(x, n), hn, rfl⟩)
  have t1 : g'.term true = rho cur new (g.term true) := by simp [Graph.term, hterm]
  have t0 : g'.term false = rho cur new (g.term false) := by simp [Graph.term, hterm]
  have el : g'.edgeList = g.edgeList.map (renE cur new) := by
    simp [Graph.edgeList, hedges, map_map, Function.comp]
  rw [t1, t0, el]
  apply denE_map_renE
  · intro e he
    obtain ⟨⟨k, e'⟩, hp, rfl⟩ := mem_map.1 he
    obtain ⟨n0, hn0, _⟩ := h.edgeNode k e' hp false
    obtain ⟨n1, hn1, _⟩ := h.edgeNode k e' hp true
    exact ⟨by simpa [Edge.nid] using hkey hn0, by simpa [Edge.nid] using hkey hn1⟩
  · obtain ⟨n, hn, _⟩ := h.termNode true
    exact hkey hn
  · obtain ⟨n, hn, _⟩ := h.termNode false
    exact hkey hn

end Ptn.Og

import PtnModel.Props.C01
import PtnModel.Proofs.CompressFinal
/-!
# A successful `MPS.compress` is a QR pass in the opposite direction followed by a `CompOf`
-/
set_option linter.unusedSectionVars false
set_option linter.unusedVariables false
namespace Ptn.Compress
open Ptn.BondOps Ptn.Ortho Ptn.Env Finset

variable {𝕜 : Type} [RCLike 𝕜] [DecidableEq 𝕜]
attribute [local instance] rcRealLike

variable {dqr : Mat 𝕜 → Mat 𝕜 × Mat 𝕜} {k : MPS.SvdKernels 𝕜 ℝ} {dabs : 𝕜 → ℝ} {divR : 𝕜 → ℝ → 𝕜}
  {ψ ψ' : MPS 𝕜} {tol nrm scale : ℝ}

/-- the intermediate state of `compress` -/
theorem oppCanon_of_ortho (hq : C01.QRKernel dqr) (hadm : Admissible ψ) {left : Bool} {ψ1 : MPS 𝕜}
    (ho : MPS.orthonormalize dqr ψ (!left) = .ok (ψ1, nrm)) : OppCanon left ψ1 := by
  refine ⟨(C01.ortho_wf hq.contract.shape hadm ho).1, ?_⟩
  have := C01.ortho_isometry hq hadm ho
  cases left with
  | true => exact this
  | false => exact this

theorem compOf_of_left (hq : C01.QRKernel dqr) (hk : SvdKernel k) (ha : AbsContract dabs divR)
    (hadm : Admissible ψ) (htol : 0 ≤ tol) (htol1 : tol < 1)
    (hrun : MPS.compress dqr k dabs divR ψ tol true = .ok (ψ', nrm, scale)) :
    ∃ ψ1, MPS.orthonormalize dqr ψ false = .ok (ψ1, nrm) ∧ CompOf true tol ψ1 ψ' scale := by
  obtain ⟨ψ1, A0, rest, q0, qrest, As, qs, T, ho, hA, hq', hs, t0, t1, t2, rfl, rfl⟩ := compress_left_inv hrun
  have hc : OppCanon true ψ1 := oppCanon_of_ortho hq hadm (left := true) ho
  obtain ⟨hw, h0, hl⟩ := hc.1.chain hA hq'
  have hiso : ∀ B ∈ A0 :: rest, RightIso B := by rw [← hA]; exact hc.2
  have hF := frobT_first hc.1 hA hq' (hiso A0 (by simp))
  have S := (sweepLeftSvd_of_run hs).toS
    (fun h hA hL hR hN hpos => locL_sem hk htol htol1 hc.1.d_pos h hA hL hR hN hpos) htol1 (by omega) hw hl
    (fun B hB => hiso B (List.mem_cons_of_mem _ hB)) (by rw [hF]; exact one_pos)
  refine ⟨ψ1, ho, A0, rest, q0, qrest, As, qs, T, hA, hq', S, ?_, ha.abs _⟩
  rw [ha.div, ha.abs]

theorem compOf_of_right (hq : C01.QRKernel dqr) (hk : SvdKernel k) (ha : AbsContract dabs divR)
    (hadm : Admissible ψ) (htol : 0 ≤ tol) (htol1 : tol < 1)
    (hrun : MPS.compress dqr k dabs divR ψ tol false = .ok (ψ', nrm, scale)) :
    ∃ ψ1, MPS.orthonormalize dqr ψ true = .ok (ψ1, nrm) ∧ CompOf false tol ψ1 ψ' scale := by
  obtain ⟨ψ1, Al, rrest, ql, qrrest, As, qs, T, ho, hA, hq', hs, t0, t1, t2, rfl, rfl⟩ := compress_right_inv hrun
  have hc : OppCanon false ψ1 := oppCanon_of_ortho hq hadm (left := false) ho
  have hm := admissible_mirror hc.1
  have hA' : (mirror ψ1).A = Al.swap12 :: rrest.map T3.swap12 := by
    show ψ1.A.reverse.map T3.swap12 = _
    rw [hA]; rfl
  have hq'' : (mirror ψ1).qD = QN.neg ql :: qrrest.map QN.neg := by
    show ψ1.qD.reverse.map QN.neg = _
    rw [hq']; rfl
  obtain ⟨hw, h0, hl⟩ := hm.chain hA' hq''
  have hiso : ∀ B ∈ Al.swap12 :: rrest.map T3.swap12, RightIso B := by rw [← hA']; exact hc.mirror_iso
  have hF := frobT_first hm hA' hq'' (hiso _ (by simp))
  have S := (sweepRightSvd_of_run hs).toS (qd := ψ1.qd)
    (fun h hA hL hR hN hpos => locR_sem hk htol htol1 hc.1.d_pos h hA hL hR hN hpos) htol1 (by omega) hw hl
    (fun B hB => hiso B (List.mem_cons_of_mem _ hB)) (by rw [hF]; exact one_pos)
  refine ⟨ψ1, ho, Al.swap12, rrest.map T3.swap12, QN.neg ql, qrrest.map QN.neg, As.map T3.swap12, qs.map QN.neg,
    T.swap12, hA', hq'', S, ?_, ha.abs _⟩
  show mirror _ = _
  simp only [mirror, List.reverse_reverse, List.map_cons, scaleLast_map_swap]
  rw [ha.div, ha.abs]
  rfl

/-- both modes -/
theorem compOf_of_run (hq : C01.QRKernel dqr) (hk : SvdKernel k) (ha : AbsContract dabs divR)
    (hadm : Admissible ψ) (htol : 0 ≤ tol) (htol1 : tol < 1) {left : Bool}
    (hrun : MPS.compress dqr k dabs divR ψ tol left = .ok (ψ', nrm, scale)) :
    ∃ ψ1, MPS.orthonormalize dqr ψ (!left) = .ok (ψ1, nrm) ∧ OppCanon left ψ1 ∧ CompOf left tol ψ1 ψ' scale := by
  cases left with
  | true =>
    obtain ⟨ψ1, ho, hc⟩ := compOf_of_left hq hk ha hadm htol htol1 hrun
    exact ⟨ψ1, ho, oppCanon_of_ortho hq hadm (left := true) ho, hc⟩
  | false =>
    obtain ⟨ψ1, ho, hc⟩ := compOf_of_right hq hk ha hadm htol htol1 hrun
    exact ⟨ψ1, ho, oppCanon_of_ortho hq hadm (left := false) ho, hc⟩

end Ptn.Compress

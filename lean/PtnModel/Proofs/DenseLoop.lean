import Mathlib.Data.List.Forall2
import PtnModel.Proofs.DenseExcept
/-!
# Reading the `for i in range(L): As.append(g(A0[i], A1[i]))` loops of `multiply_mpo` / `apply_operator`

`forIn_append_spec` : a successful loop whose body appends one element satisfying `P i` per index yields a list that is
pointwise `P`-related to the index list;  `zipRel_of_forall₂` turns the index form into the structural relation `ZipRel`.
-/
namespace Ptn.Dense

theorem forIn_append_spec {β : Type} (P : Nat → β → Prop)
    (f : Nat → List β → Except Err (ForInStep (List β)))
    (hf : ∀ i acc r, f i acc = .ok r → ∃ a, r = .yield (acc ++ [a]) ∧ P i a) :
    ∀ (l : List Nat) (acc res : List β), forIn l acc f = .ok res →
      ∃ as, res = acc ++ as ∧ List.Forall₂ P l as
  | [], acc, res, h => by
      simp only [List.forIn_nil, pure_ok] at h
      exact ⟨[], by simp [h], List.Forall₂.nil⟩
  | i :: l, acc, res, h => by
      simp only [List.forIn_cons, bind_ok] at h
      obtain ⟨y, hy, h⟩ := h
      obtain ⟨a, rfl, ha⟩ := hf i acc y hy
      obtain ⟨as, rfl, has⟩ := forIn_append_spec P f hf l _ res h
      exact ⟨a :: as, by simp, List.Forall₂.cons ha has⟩

/-- `Zs` is the sitewise combination `g X Y` of `Xs` and `Ys` (equal lengths), every pair satisfying `C`. -/
def ZipRel {α β γ : Type} (C : α → β → Prop) (g : α → β → γ) : List α → List β → List γ → Prop
  | [], [], [] => True
  | X :: Xs, Y :: Ys, Z :: Zs => C X Y ∧ Z = g X Y ∧ ZipRel C g Xs Ys Zs
  | _, _, _ => False

theorem zipRel_of_forall₂ {α β γ : Type} (C : α → β → Prop) (g : α → β → γ) :
    ∀ (Xs : List α) (Ys : List β) (Zs : List γ), Xs.length = Ys.length →
    List.Forall₂ (fun i Z => ∃ X Y, Xs[i]? = some X ∧ Ys[i]? = some Y ∧ C X Y ∧ Z = g X Y)
      (List.range Xs.length) Zs → ZipRel C g Xs Ys Zs
  | [], [], Zs, _, h => by
      simp only [List.length_nil, List.range_zero, List.forall₂_nil_left_iff] at h
      subst h; trivial
  | [], _ :: _, _, hl, _ => by simp at hl
  | _ :: _, [], _, hl, _ => by simp at hl
  | X :: Xs, Y :: Ys, Zs, hl, h => by
      rw [List.length_cons, List.range_succ_eq_map, List.forall₂_cons_left_iff] at h
      obtain ⟨Z, Zs', ⟨X', Y', hX, hY, hC, rfl⟩, h, rfl⟩ := h
      simp only [List.getElem?_cons_zero, Option.some.injEq] at hX hY
      subst hX hY
      rw [List.forall₂_map_left_iff] at h
      simp only [List.getElem?_cons_succ] at h
      exact ⟨hC, rfl, zipRel_of_forall₂ C g Xs Ys Zs' (by simpa using hl) h⟩

theorem zipRel_length {α β γ : Type} (C : α → β → Prop) (g : α → β → γ) :
    ∀ (Xs : List α) (Ys : List β) (Zs : List γ), ZipRel C g Xs Ys Zs → Ys.length = Xs.length ∧ Zs.length = Xs.length
  | [], [], [], _ => ⟨rfl, rfl⟩
  | X :: Xs, Y :: Ys, Z :: Zs, h => by
      obtain ⟨h1, h2⟩ := zipRel_length C g Xs Ys Zs h.2.2
      simp [h1, h2]
  | [], [], _ :: _, h => by simp [ZipRel] at h
  | [], _ :: _, _, h => by simp [ZipRel] at h
  | _ :: _, [], _, h => by simp [ZipRel] at h
  | _ :: _, _ :: _, [], h => by simp [ZipRel] at h

end Ptn.Dense

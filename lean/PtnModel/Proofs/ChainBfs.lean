import PtnModel.Proofs.ChainGraph
/-!
# The level BFS of `is_consistent` succeeds on levelled graphs

If a function `lev` on node ids increases by one along every edge followed by the BFS in direction `d`
(and is bounded by `H`), the BFS never finds a level conflict; the potential
`Σ_{(n, _) ∈ queue} (E + 2) ^ (H - lev n)` (`E` = number of edges) strictly decreases with every node taken from
the queue, so the fuel `bfsFuel` of the model suffices.
-/
set_option linter.unusedSectionVars false

namespace Ptn.Ch
open Ptn Ptn.Og List

variable {κ : Type} [CommRing κ] [DecidableEq κ]

/-- `lev` is a level function for the BFS in direction `d` -/
structure LevelOK (g : Graph κ) (d : Bool) (lev : Int → Nat) (H : Nat) : Prop where
  step : ∀ n node, dGet? g.nodes n = some node →
    lev n ≤ H ∧ (node.eids (!d)).length ≤ g.edges.length ∧
    ∀ eid ∈ node.eids (!d), ∃ e, dGet? g.edges eid = some e ∧
      (∃ node', dGet? g.nodes (e.nid (!d)) = some node') ∧ lev (e.nid (!d)) = lev n + 1

/-- the potential of a queue -/
def pot (B H : Nat) (lev : Int → Nat) (queue : List (Int × Nat)) : Nat :=
  (queue.map fun p => B ^ (H - lev p.1)).sum

theorem sum_map_const_nat {α : Type} (l : List α) (F : α → Nat) (c : Nat) (h : ∀ x ∈ l, F x = c) :
    (l.map F).sum = l.length * c := by
  induction l with
  | nil => simp
  | cons a l ih =>
    simp only [map_cons, sum_cons, length_cons]
    rw [h a (by simp), ih (fun x hx => h x (by simp [hx]))]
    ring

theorem levelBfs_complete {g : Graph κ} {d : Bool} {lev : Int → Nat} {H : Nat} (h : LevelOK g d lev H) :
    ∀ (fuel : Nat) (queue levels : List (Int × Nat)),
      (∀ p ∈ queue, p.2 = lev p.1 ∧ ∃ node, dGet? g.nodes p.1 = some node) →
      (∀ p ∈ levels, p.2 = lev p.1) →
      pot (g.edges.length + 2) H lev queue < fuel →
      g.levelBfs d fuel queue levels = true := by
  intro fuel
  induction fuel with
  | zero => intro queue levels _ _ hp; omega
  | succ fuel ih =>
    intro queue levels hq hl hp
    cases queue with
    | nil => simp [Graph.levelBfs]
    | cons p q =>
      obtain ⟨nid, level⟩ := p
      obtain ⟨hlev, node, hnode⟩ := hq (nid, level) (by simp)
      simp only at hlev hnode
      obtain ⟨hH, hdeg, hstep⟩ := h.step nid node hnode
      -- the new queue
      have hq' : ∀ p ∈ q ++ (node.eids (!d)).map (fun eid =>
            match dGet? g.edges eid with
            | some e => (e.nid (!d), level + 1)
            | none => (nid, level + 1)),
          p.2 = lev p.1 ∧ ∃ node, dGet? g.nodes p.1 = some node := by
        intro p hp'
        rcases mem_append.1 hp' with hp' | hp'
        · exact hq p (mem_cons_of_mem _ hp')
        · obtain ⟨eid, heid, rfl⟩ := mem_map.1 hp'
          obtain ⟨e, he, hn', hl'⟩ := hstep eid heid
          simp only [he]
          exact ⟨by rw [hl', hlev], hn'⟩
      have hpot : pot (g.edges.length + 2) H lev (q ++ (node.eids (!d)).map (fun eid =>
            match dGet? g.edges eid with
            | some e => (e.nid (!d), level + 1)
            | none => (nid, level + 1))) < fuel := by
        unfold pot at hp ⊢
        simp only [map_cons, sum_cons] at hp
        rw [map_append, sum_append, map_map]
        have hsum : (map ((fun p : Int × Nat => (g.edges.length + 2) ^ (H - lev p.1)) ∘ fun eid =>
              match dGet? g.edges eid with
              | some e => (e.nid (!d), level + 1)
              | none => (nid, level + 1)) (node.eids (!d))).sum
            = (node.eids (!d)).length * (g.edges.length + 2) ^ (H - (lev nid + 1)) := by
          apply sum_map_const_nat
          intro eid heid
          obtain ⟨e, he, _, hl'⟩ := hstep eid heid
          simp only [Function.comp, he, hl']
        rw [hsum]
        cases hne : node.eids (!d) with
        | nil =>
          simp only [length_nil, Nat.zero_mul, Nat.add_zero]
          have : 1 ≤ (g.edges.length + 2) ^ (H - lev nid) := Nat.one_le_two_pow.trans (Nat.pow_le_pow_left (by omega) _)
          omega
        | cons eid rest =>
          obtain ⟨e, he, ⟨node', hn'⟩, hl'⟩ := hstep eid (by rw [hne]; simp)
          have hle := (h.step _ node' hn').1
          rw [hl'] at hle
          have hsplit : H - lev nid = (H - (lev nid + 1)) + 1 := by omega
          rw [hsplit, Nat.pow_succ] at hp
          rw [← hne]
          have hX : 1 ≤ (g.edges.length + 2) ^ (H - (lev nid + 1)) :=
            Nat.one_le_two_pow.trans (Nat.pow_le_pow_left (by omega) _)
          generalize (g.edges.length + 2) ^ (H - (lev nid + 1)) = X at hp hX ⊢
          have h1 : (node.eids (!d)).length * X ≤ g.edges.length * X := Nat.mul_le_mul_right _ hdeg
          have h2 : X * (g.edges.length + 2) = g.edges.length * X + 2 * X := by ring
          rw [h2] at hp
          generalize g.edges.length * X = a at *
          generalize (node.eids (!d)).length * X = b at *
          omega
      rw [Graph.levelBfs]
      cases hlook : levels.lookup nid with
      | some l =>
        have hl1 : l = lev nid := hl (nid, l) (mem_of_dGet? (d := levels) hlook)
        have : (level != l) = false := by simp [hlev, hl1]
        simp only [this, Bool.false_eq_true, if_false, hnode]
        exact ih _ _ hq' hl hpot
      | none =>
        simp only [hnode]
        apply ih _ _ hq' _ hpot
        intro p hp'
        rcases mem_append.1 hp' with hp' | hp'
        · exact hl p hp'
        · simp only [mem_singleton] at hp'
          subst hp'
          exact hlev

/-- with the model's fuel -/
theorem levelBfs_bfsFuel {g : Graph κ} {d : Bool} {lev : Int → Nat} {H : Nat} (h : LevelOK g d lev H)
    (hH : H ≤ g.nodes.length + 1) (h0 : lev (g.term d) = 0) (hn : ∃ node, dGet? g.nodes (g.term d) = some node) :
    g.levelBfs d g.bfsFuel [(g.term d, 0)] [] = true := by
  apply levelBfs_complete h
  · intro p hp
    simp only [mem_singleton] at hp
    subst hp
    exact ⟨h0.symm, hn⟩
  · simp
  · unfold pot Graph.bfsFuel
    simp only [map_cons, map_nil, sum_cons, sum_nil, Nat.add_zero, h0, Nat.sub_zero]
    have : (g.edges.length + 2) ^ H ≤ (g.edges.length + 2) ^ (g.nodes.length + 1) :=
      Nat.pow_le_pow_right (by omega) hH
    omega

end Ptn.Ch

import PtnModel.Proofs.EvoRevExample
import PtnModel.Proofs.KryExpExample
/-!
# A complete non-vacuity witness for `C09.tdvp1_steps_reversible` (one site)

`Proofs/EvoRevExample.lean` exhibits all hypotheses of the sweep-level reversibility theorems except the exactness
predicates (`RunExact` / `StepExact`) for actual runs.  Here ALL hypotheses, including `RunExact false` for the forward run
and `RunExact true` for the backward run, are exhibited jointly for actual runs of arbitrary length `n` and arbitrary real
`τ` (`dt = i τ`) on a one-site system:

* `exH1` : the one-site MPO `H = 2·𝟙` on one qubit (trivial charges), `exψ1` : the state `|0⟩ + i|1⟩`,
* `exK1` : the kernels `exK` (QR kernel `realQR`, 2-norm, eigen-solver of `1 × 1` matrices, `half = 1/2`) with the true scalar
  exponential `dexp = Complex.exp`; one Lanczos iteration.

For `L = 1` a time step is the single local step at site `0` (`ex1_step_eq`; no QR sub-steps), so `StepExact` reduces to
`MidExact` (`ex1_stepExact`).  The environment blocks of a canonical one-site state are `1` (`ex1_blocks`), the effective
operator is `2·𝟙`, every start tensor is an eigenvector with eigenvalue `2`, and one Lanczos iteration exhausts the Krylov
space (`ex1_mid`, via `exhausted_one_of_eigen`).  Norm one (`DInv`) is preserved by every step with imaginary time
(`tdvp1Step_inv`), so every local step returns (`ex1_step_ok`).

* `exRev1_full`  : the joint hypotheses for actual runs;
* `exRev1_concl` : the conclusion of the theorem for this instance (through `tdvp1Steps_gauge`), for a state of norm one.
-/
set_option linter.unusedSectionVars false

namespace Ptn.Evo
open Ptn Ptn.BondOps Ptn.Ortho Ptn.Env Ptn.Krylov Ptn.Dense Finset

noncomputable def exH1 : MPO ℂ := ⟨[0, 0], [[0], [0]], [⟨2, 2, 1, 1, fun s t _ _ => if s = t then 2 else 0⟩]⟩
noncomputable def exψ1 : MPS ℂ := ⟨[0, 0], [[0], [0]], [⟨2, 1, 1, fun s _ _ => if s = 0 then 1 else Complex.I⟩]⟩
noncomputable def exK1 : EvoKernels ℂ ℝ := { exK with dexp := Complex.exp }

theorem exH1_shaped : C04.MPO.Shaped exH1 2 := by decide

theorem exH1_herm : C04.MPO.DenseHermitian exH1 2 := by
  intro s hs t ht
  have hs' : s ∈ digits [2] := hs
  have ht' : t ∈ digits [2] := ht
  obtain ⟨s0, r, h0, hr, rfl⟩ := mem_digits_cons.1 hs'
  obtain ⟨t0, u, g0, hu, rfl⟩ := mem_digits_cons.1 ht'
  simp only [digits_nil, Finset.mem_singleton] at hr hu
  subst hr hu
  interval_cases s0 <;> interval_cases t0 <;>
    simp [MPO.elem, MPO.elemRow, exH1, sumRange, List.range_succ]

theorem exK1_ctx : SweepCtx exK1 exH1 [0, 0] 1 :=
  ⟨⟨realQR_contract, realQR_realDiag⟩, sqrtNorm_contract, fun Afun v => eighAt_one Afun _ v, exH1_shaped, exH1_herm,
    by decide⟩

theorem exK1_exp : ∀ x : ℝ, ‖exK1.dexp (RCLike.I * (x : ℂ))‖ = 1 := fun x => by
  show ‖Complex.exp (Complex.I * (x : ℂ))‖ = 1
  rw [mul_comm]; exact Complex.norm_exp_ofReal_mul_I x

theorem exRev1_exp : ∀ (a : ℂ) (x : ℝ), exK1.dexp (a * (x : ℂ)) * exK1.dexp (-a * (x : ℂ)) = 1 := fun a x => by
  show Complex.exp (a * (x : ℂ)) * Complex.exp (-a * (x : ℂ)) = 1
  rw [← Complex.exp_add]; simp

theorem exH1_wf : exH1.wellFormed = true := by
  refine (mpo_wellFormed_iff_idx exH1).2 ⟨rfl, ?_⟩
  intro i hi
  have hi' : i < 1 := hi
  interval_cases i
  refine ⟨rfl, rfl, rfl, rfl, ?_⟩
  intro s t a b hs ht ha hb hne
  have hs' : s < 2 := hs
  have ht' : t < 2 := ht
  have ha' : a < 1 := ha
  have hb' : b < 1 := hb
  interval_cases s <;> interval_cases t <;> interval_cases a <;> interval_cases b <;> simp [exH1] at hne ⊢

theorem exCompat1 : C02.EvoCompat exH1 exψ1 := ⟨rfl, rfl⟩

theorem exψ1_adm : Admissible exψ1 := by
  refine ⟨(wellFormed_iff_idx exψ1).2 ⟨rfl, ?_⟩, by decide, by simp [exψ1], by simp [exψ1], rfl, rfl⟩
  intro i hi
  have hi' : i < 1 := hi
  interval_cases i
  refine ⟨rfl, rfl, rfl, ?_⟩
  intro s a b hs ha hb
  have hs' : s < 2 := hs
  have ha' : a < 1 := ha
  have hb' : b < 1 := hb
  interval_cases s <;> interval_cases a <;> interval_cases b <;> simp [exψ1]

/-- boundary blocks of a one-site canonical state -/
theorem ex1_blocks {s : Sweep ℂ} (h : Canon exH1 [0, 0] s 0) :
    (getBL s 0).f 0 0 0 = 1 ∧ (getBR s 0).f 0 0 0 = 1 := by
  have hl := h.bl 0 le_rfl
  have hr := h.br 0 le_rfl h.hc
  have hlen : (cur [0, 0] s).A.length = 1 := h.len
  have b1 : mpsBond (cur [0, 0] s) 1 = 1 := by rw [h.bond (j := 1) (le_refl 1)]; exact h.qL
  constructor
  · have := hl.2.2.2 0 0 0 (by simp [mpsBond]) (by simp [mpoBond]) (by simp [mpsBond])
    rw [this]
    simp [digitsU, ampPrefix, elemPrefix, MPS.ampRow, MPO.elemRow]
  · have := hr.2.2.2 0 0 0 (by rw [b1]; exact one_pos) (by decide) (by rw [b1]; exact one_pos)
    rw [this, hlen]
    have hd : (cur [0, 0] s).A.drop 1 = [] := List.drop_eq_nil_of_le (le_of_eq hlen)
    simp [digitsU, ampSuffix, elemSuffix, MPS.ampRow, MPO.elemRow, hd, exH1]

theorem ex1_mid {s : Sweep ℂ} (h : Canon exH1 [0, 0] s 0) : MidExact exK1 exH1 1 s 0 := by
  obtain ⟨hF, hH⟩ := canon_local h exK1_ctx.hH exK1_ctx.herm
  obtain ⟨hL, hR⟩ := ex1_blocks h
  obtain ⟨a0, a1, a2⟩ := h.wf.shape 0 h.hc
  have a0' : (getA s 0).d0 = 2 := a0
  have a1' : (getA s 0).d1 = 1 := a1.trans h.q0
  have a2' : (getA s 0).d2 = 1 := a2.trans h.qL
  unfold MidExact
  have hM := actsAs_localHFun hF
  have hA := isHermitian_localHFun hF hH
  rw [← length_flat3] at hM hA
  refine exhausted_one_of_eigen (θ := 2) sqrtNorm_contract hM hA ?_
  intro i hi
  rw [hM _ rfl i hi]
  rw [length_flat3, a0', a1', a2'] at hi ⊢
  have hW : exH1.A.getD 0 zeroT4 = ⟨2, 2, 1, 1, fun s t _ _ => if s = t then 2 else 0⟩ := rfl
  have hi' : i < 2 := by omega
  rw [hW]
  interval_cases i <;>
    simp [localMat, localKer, hL, hR]

/-- for one site a time step is the single local step at site `0` -/
theorem ex1_step_eq (δ : ℂ) (s : Sweep ℂ) : tdvp1Step exK1 exH1 [0, 0] δ 1 s =
    (localHamiltonianStep exK1 (getBL s 0) (getBR s 0) (exH1.A.getD 0 zeroT4) (getA s 0) δ 1).bind
      fun Al => .ok (⟨s.A.setIfInBounds 0 Al, s.qD, s.BL, s.BR⟩ : Sweep ℂ) := by
  rfl

theorem ex1_step_ok {s : Sweep ℂ} {E : ℝ} (h : DInv exH1 [0, 0] s 0 E) (δ : ℂ) :
    ∃ s', tdvp1Step exK1 exH1 [0, 0] δ 1 s = .ok s' := by
  obtain ⟨A1, hA1⟩ := centre_step_ok exK1_ctx (le_refl 1) h δ
  rw [ex1_step_eq, hA1]
  exact ⟨_, rfl⟩

theorem ex1_step_inv {s s' : Sweep ℂ} {E : ℝ} (h : DInv exH1 [0, 0] s 0 E) {δ : ℂ} (τ : ℝ) (hδ : δ = Complex.I * (τ : ℂ))
    (hrun : tdvp1Step exK1 exH1 [0, 0] δ 1 s = .ok s') : DInv exH1 [0, 0] s' 0 E :=
  tdvp1Step_inv exK1_ctx exK1_exp (hh := 1 / 2) rfl hδ h hrun

theorem ex1_iter_ok {δ : ℂ} (τ : ℝ) (hδ : δ = Complex.I * (τ : ℂ)) : ∀ (n : Nat) (s : Sweep ℂ) (E : ℝ),
    DInv exH1 [0, 0] s 0 E → ∃ b, iterate (tdvp1Step exK1 exH1 [0, 0] δ 1) n s = .ok b ∧ DInv exH1 [0, 0] b 0 E
  | 0, s, _, h => ⟨s, rfl, h⟩
  | n + 1, s, E, h => by
    obtain ⟨s', hs'⟩ := ex1_step_ok h δ
    obtain ⟨b, hb, hinv⟩ := ex1_iter_ok τ hδ n s' E (ex1_step_inv h τ hδ hs')
    refine ⟨b, ?_, hinv⟩
    unfold iterate
    rw [hs']
    exact hb

theorem ex1_stepExact (inv : Bool) (δ : ℂ) {s : Sweep ℂ} (h : Canon exH1 [0, 0] s 0) :
    StepExact inv exK1 exH1 [0, 0] δ 1 s := by
  refine ⟨trivial, ?_⟩
  intro s1 hs1
  have e : s = s1 := by
    have hs1' : (Except.ok s : Except Err (Sweep ℂ)) = .ok s1 := hs1
    injection hs1'
  subst e
  exact ⟨ex1_mid h, fun _ _ => trivial⟩

theorem ex1_runExact (inv : Bool) {δ : ℂ} (τ : ℝ) (hδ : δ = Complex.I * (τ : ℂ)) : ∀ (n : Nat) (s : Sweep ℂ) (E : ℝ),
    DInv exH1 [0, 0] s 0 E → RunExact inv exK1 exH1 [0, 0] δ 1 n s
  | 0, _, _, _ => trivial
  | n + 1, _, E, h =>
    ⟨ex1_stepExact inv δ h.can, fun s' hs' => ex1_runExact inv τ hδ n s' E (ex1_step_inv h τ hδ hs')⟩

/-- **all hypotheses of `C09.tdvp1_steps_reversible`, including both exactness predicates, hold jointly for actual runs** -/
theorem exRev1_full (n : Nat) (τ : ℝ) : ∃ (s0 b e : Sweep ℂ) (nrm : ℝ),
    SweepCtx exK1 exH1 exψ1.qd 1 ∧ prologue exK1 exH1 exψ1 = .ok (s0, nrm) ∧ Canon exH1 exψ1.qd s0 0 ∧
    iterate (tdvp1Step exK1 exH1 exψ1.qd (Complex.I * τ) 1) n s0 = .ok b ∧
    iterate (tdvp1Step exK1 exH1 exψ1.qd (-(Complex.I * τ)) 1) n b = .ok e ∧
    RunExact false exK1 exH1 exψ1.qd (Complex.I * τ) 1 n s0 ∧
    RunExact true exK1 exH1 exψ1.qd (-(Complex.I * τ)) 1 n b ∧
    GaugeEq exH1 exψ1.qd b b 0 ∧
    (∀ (a : ℂ) (x : ℝ), exK1.dexp (a * (x : ℂ)) * exK1.dexp (-a * (x : ℂ)) = 1) := by
  obtain ⟨ψ1, nrm, h1⟩ := C08.tdvp1_total (k := exK1) (H := exH1) (ψ := exψ1) exK1_ctx exK1_exp (hh := 1 / 2) (τ := τ) rfl
    (dt := Complex.I * τ) rfl (le_refl 1) exH1_wf exCompat1 rfl exψ1_adm rfl n
  obtain ⟨s0, b, _, hp, _, _, hcan0, hit, hcanb, _⟩ := integrate1_canon (k := exK1) (H := exH1) exK1_ctx exψ1_adm h1
  obtain ⟨_, E0, _, _, hinv0⟩ := prologue_inv exK1_ctx rfl exψ1_adm hp
  have hm : -(Complex.I * (τ : ℂ)) = Complex.I * ((-τ : ℝ) : ℂ) := by push_cast; ring
  obtain ⟨b', hb', hinvb⟩ := ex1_iter_ok τ rfl n s0 E0 hinv0
  have eb : b' = b := by
    have := hb'.symm.trans hit
    injection this
  subst eb
  obtain ⟨e, he, _⟩ := ex1_iter_ok (-τ) hm n b' E0 hinvb
  exact ⟨s0, b', e, nrm, exK1_ctx, hp, hcan0, hit, he, ex1_runExact false τ rfl n s0 E0 hinv0,
    ex1_runExact true (-τ) hm n b' E0 hinvb, GaugeEq.refl hcanb, exRev1_exp⟩

/-- the conclusion of `C09.tdvp1_steps_reversible` for this instance: the forward run followed by the backward run
returns the dense state of the prologue state -/
theorem exRev1_concl (n : Nat) (τ : ℝ) : ∃ (s0 b e : Sweep ℂ) (nrm : ℝ),
    prologue exK1 exH1 exψ1 = .ok (s0, nrm) ∧
    iterate (tdvp1Step exK1 exH1 exψ1.qd (Complex.I * τ) 1) n s0 = .ok b ∧
    iterate (tdvp1Step exK1 exH1 exψ1.qd (-(Complex.I * τ)) 1) n b = .ok e ∧
    GaugeEq exH1 exψ1.qd s0 e 0 ∧ (∀ σ ∈ digitsU 2 1, (cur exψ1.qd e).amp σ = (cur exψ1.qd s0).amp σ) ∧
    normSq (cur exψ1.qd s0) 2 = 1 := by
  obtain ⟨s0, b, e, nrm, ctx, hp, hcan0, hit, he, hex, hex', hg, hexp⟩ := exRev1_full n τ
  obtain ⟨_, E0, _, _, hinv0⟩ := prologue_inv exK1_ctx rfl exψ1_adm hp
  have g := tdvp1Steps_gauge ctx hexp n s0 b b e hcan0 hit hg he hex hex'
  exact ⟨s0, b, e, nrm, hp, hit, he, g, fun σ hσ => g.amp hσ, hinv0.nrm⟩

end Ptn.Evo

import PtnModel.Proofs.EvoExactCalls
import PtnModel.Proofs.KryExpExample
/-!
# A Hamiltonian whose dense operator is a multiple of the identity: every local Krylov space is one-dimensional

`DenseScalar H d c` : the dense operator of the MPO `H` is `c · 𝟙`.  Then at every canonical sweep state the effective
one-site operator is `c · 𝟙` (`scalar_canon`, via `C04.local_projection` and `mixed_inner`), the zero-site operator right of a
new left isometry / left of a new right isometry is `c · 𝟙` (`scalarBond_left`, `scalarBond_right`, via `bond_proj_left/right`),
every start vector is an eigenvector, and ONE Lanczos iteration exhausts the Krylov space (`exhausted_local`,
`exhausted_bond`, via `exhausted_one_of_eigen`).
-/
set_option linter.unusedSectionVars false

namespace Ptn.Evo
open Ptn Ptn.BondOps Ptn.Ortho Ptn.Env Ptn.Krylov Ptn.Dense Finset

variable {𝕜 : Type} [RCLike 𝕜] [DecidableEq 𝕜]
local notation "conj" => starRingEnd 𝕜

/-- the dense operator of `H` is `c · 𝟙` -/
def DenseScalar (H : MPO 𝕜) (d : Nat) (c : ℝ) : Prop :=
  ∀ σ, σ ∈ digitsU d H.A.length → ∀ τ, τ ∈ digitsU d H.A.length → H.elem σ τ = if σ = τ then ((c : ℝ) : 𝕜) else 0

/-- the one-site map is `c · 𝟙` on tensors of shape `(d0, d1, d2)` -/
def ScalarLocal (L R : T3 𝕜) (W : T4 𝕜) (d0 d1 d2 : Nat) (c : ℝ) : Prop :=
  ∀ A T : T3 𝕜, A.d0 = d0 → A.d1 = d1 → A.d2 = d2 → Op.applyLocalHamiltonian L R W A = .ok T →
    ∀ s a b, s < d0 → a < d1 → b < d2 → T.f s a b = ((c : ℝ) : 𝕜) * A.f s a b

/-- the zero-site map is `c · 𝟙` on `m × n` matrices -/
def ScalarBond (L R : T3 𝕜) (m n : Nat) (c : ℝ) : Prop :=
  ∀ X KX : Mat 𝕜, X.m = m → X.n = n → Op.applyLocalBondContraction L R X = .ok KX →
    ∀ p b, p < m → b < n → KX.f p b = ((c : ℝ) : 𝕜) * X.f p b

/-- the unit tensor `e_{s',a',b'}` of shape `(d0, d1, d2)` -/
def unit3 (d0 d1 d2 s' a' b' : Nat) : T3 𝕜 :=
  ⟨d0, d1, d2, fun s a b => if s = s' then (if a = a' then (if b = b' then 1 else 0) else 0) else 0⟩

omit [DecidableEq 𝕜] in
theorem sum_unit3 {d0 d1 d2 s' a' b' : Nat} (hs : s' < d0) (ha : a' < d1) (hb : b' < d2) (F : Nat → Nat → Nat → 𝕜) :
    ∑ s ∈ range d0, ∑ a ∈ range d1, ∑ b ∈ range d2, star ((unit3 (𝕜 := 𝕜) d0 d1 d2 s' a' b').f s a b) * F s a b =
      F s' a' b' := by
  rw [Finset.sum_eq_single s']
  · rw [Finset.sum_eq_single a']
    · rw [Finset.sum_eq_single b']
      · simp [unit3]
      · intro b _ hne
        simp [unit3, hne]
      · intro h; exact absurd (mem_range.2 hb) h
    · intro a _ hne
      refine Finset.sum_eq_zero fun b _ => ?_
      simp [unit3, hne]
    · intro h; exact absurd (mem_range.2 ha) h
  · intro s _ hne
    refine Finset.sum_eq_zero fun a _ => Finset.sum_eq_zero fun b _ => ?_
    simp [unit3, hne]
  · intro h; exact absurd (mem_range.2 hs) h

/-- **the effective one-site operator of a scalar dense operator is scalar** (at the centre of a canonical state) -/
theorem scalar_canon {H : MPO 𝕜} {qd : List Int} {s : Sweep 𝕜} {c : Nat} (h : Canon H qd s c)
    (hH : C04.MPO.Shaped H qd.length) {μ : ℝ} (hS : DenseScalar H qd.length μ) :
    ScalarLocal (getBL s c) (getBR s c) (H.A.getD c zeroT4) (getA s c).d0 (getA s c).d1 (getA s c).d2 μ := by
  intro A T a0 a1 a2 hT s' a' b' hs' ha' hb'
  have hsh := h.shaped
  have hc' : c < (cur qd s).A.length := by rw [h.len]; exact h.hc
  obtain ⟨s0, s1, s2⟩ := h.wf.shape c h.hc
  have b1 := h.bond (j := c) (Nat.le_of_lt h.hc)
  have b2 := h.bond (j := c + 1) h.hc
  have hW : H.A[c]? = some (H.A.getD c zeroT4) := by
    rw [List.getD_eq_getElem?_getD, List.getElem?_eq_getElem h.hc]; rfl
  have A0 : A.d0 = qd.length := a0.trans s0
  have A1 : A.d1 = mpsBond (cur qd s) c := a1.trans (s1.trans b1.symm)
  have A2 : A.d2 = mpsBond (cur qd s) (c + 1) := a2.trans (s2.trans b2.symm)
  set B : T3 𝕜 := unit3 qd.length (mpsBond (cur qd s) c) (mpsBond (cur qd s) (c + 1)) s' a' b' with hB
  have hs'' : s' < qd.length := by rw [← s0]; exact hs'
  have ha'' : a' < mpsBond (cur qd s) c := by rw [b1, ← s1]; exact ha'
  have hb'' : b' < mpsBond (cur qd s) (c + 1) := by rw [b2, ← s2]; exact hb'
  obtain ⟨T', hT', _, _, _, e⟩ := C04.local_projection hsh hH h.len hc' hW (A := A) (B := B) A0 A1 A2 rfl rfl rfl
    (h.bl c (Nat.le_refl c)) (h.br c (Nat.le_refl c) h.hc)
  have eT : T' = T := Except.ok.inj (hT'.symm.trans hT)
  subst eT
  rw [sum_unit3 hs'' ha'' hb'' T'.f] at e
  rw [e]
  have hmi := mixed_inner hsh hc' (fun j hj => by rw [cur_getD]; exact h.liso j hj)
    (fun j hj hj' => by rw [cur_getD]; exact h.riso j hj (by rw [h.len] at hj'; exact hj'))
    (A := A) (B := B) A0 A1 A2 rfl rfl rfl
  rw [sum_unit3 hs'' ha'' hb'' A.f] at hmi
  rw [← hmi, Finset.mul_sum]
  refine sum_congr rfl fun σ hσ => ?_
  have hσ' : σ ∈ digitsU qd.length H.A.length := by rw [← h.len]; exact hσ
  have e1 : ∀ τ ∈ digitsU qd.length (cur qd s).A.length,
      star (((cur qd s).setSite c B).amp σ) * H.elem σ τ * ((cur qd s).setSite c A).amp τ =
      if σ = τ then ((μ : ℝ) : 𝕜) * (star (((cur qd s).setSite c B).amp σ) * ((cur qd s).setSite c A).amp σ) else 0 := by
    intro τ hτ
    have hτ' : τ ∈ digitsU qd.length H.A.length := by rw [← h.len]; exact hτ
    rw [hS σ hσ' τ hτ']
    by_cases hστ : σ = τ
    · subst hστ
      rw [if_pos rfl, if_pos rfl]; ring
    · rw [if_neg hστ, if_neg hστ]; ring
  rw [sum_congr rfl e1, Finset.sum_ite_eq, if_pos hσ]

omit [DecidableEq 𝕜] in
theorem vget_flat3' (A : T3 𝕜) {i : Nat} (hi : i < A.d0 * A.d1 * A.d2) :
    vget (flat3 A) i = A.f (i / (A.d1 * A.d2)) (i / A.d2 % A.d1) (i % A.d2) := by
  unfold flat3
  rw [vget_map_range, if_pos hi]

omit [DecidableEq 𝕜] in
theorem vget_flat2' (C : Mat 𝕜) {i : Nat} (hi : i < C.m * C.n) : vget (flat2 C) i = C.f (i / C.n) (i % C.n) := by
  unfold flat2
  rw [vget_map_range, if_pos hi]

omit [DecidableEq 𝕜] in
/-- flat form of `ScalarLocal` -/
theorem scalar_vget_local {L R : T3 𝕜} {W : T4 𝕜} {d0 d1 d2 : Nat} {μ : ℝ} (hF : LocalFits L R W d0 d1 d2)
    (hS : ScalarLocal L R W d0 d1 d2 μ) (x : List 𝕜) (hx : x.length = d0 * d1 * d2) :
    ∀ i, i < d0 * d1 * d2 → vget (localHFun L R W d0 d1 d2 x) i = ((μ : ℝ) : 𝕜) * vget x i := by
  intro i hi
  obtain ⟨T, hT, e, t0, t1, t2⟩ := localHFun_eq hF x
  rw [e]
  have hx' : vget x i = vget (flat3 (unflat3 x d0 d1 d2)) i := by rw [flat3_unflat3 hx]
  rw [hx']
  have hi2 : i < d0 * (d1 * d2) := by rw [← Nat.mul_assoc]; exact hi
  have hs : i / (d1 * d2) < d0 := Ortho.div_lt_of_lt_mul hi2
  have ha : i / d2 % d1 < d1 := Ortho.mod_lt_of_lt_mul (Ortho.div_lt_of_lt_mul hi)
  have hb : i % d2 < d2 := Ortho.mod_lt_of_lt_mul hi
  rw [vget_flat3' T (by rw [t0, t1, t2]; exact hi), vget_flat3' (unflat3 x d0 d1 d2) hi, t1, t2]
  exact hS (unflat3 x d0 d1 d2) T rfl rfl rfl hT _ _ _ hs ha hb

omit [DecidableEq 𝕜] in
/-- flat form of `ScalarBond` -/
theorem scalar_vget_bond {L R : T3 𝕜} {m n : Nat} {μ : ℝ} (hF : BondFits L R m n)
    (hS : ScalarBond L R m n μ) (x : List 𝕜) (hx : x.length = m * n) :
    ∀ i, i < m * n → vget (localBondFun L R m n x) i = ((μ : ℝ) : 𝕜) * vget x i := by
  intro i hi
  obtain ⟨T, hT, e, t0, t1⟩ := localBondFun_eq hF x
  rw [e]
  have hx' : vget x i = vget (flat2 (unflat2 x m n)) i := by rw [flat2_unflat2 hx]
  rw [hx']
  have ha : i / n < m := Ortho.div_lt_of_lt_mul hi
  have hb : i % n < n := Ortho.mod_lt_of_lt_mul hi
  rw [vget_flat2' T (by rw [t0, t1]; exact hi), vget_flat2' (unflat2 x m n) hi, t1]
  exact hS (unflat2 x m n) T rfl rfl hT _ _ ha hb

omit [DecidableEq 𝕜] in
/-- one Lanczos iteration exhausts the Krylov space of a scalar one-site map -/
theorem exhausted_local {dnorm : List 𝕜 → ℝ} (hN : NormContract dnorm) {L R : T3 𝕜} {W : T4 𝕜} {X : T3 𝕜} {μ : ℝ}
    (hF : LocalFits L R W X.d0 X.d1 X.d2) (hH : LocalHermitian L R W X.d0 X.d1 X.d2)
    (hS : ScalarLocal L R W X.d0 X.d1 X.d2 μ) :
    C15.Exhausted (localHFun L R W X.d0 X.d1 X.d2) dnorm (flat3 X) 1 := by
  have hM := actsAs_localHFun hF
  have hA := isHermitian_localHFun hF hH
  rw [← length_flat3] at hM hA
  refine exhausted_one_of_eigen (θ := μ) hN hM hA ?_
  intro i hi
  rw [length_flat3] at hi
  exact scalar_vget_local hF hS (flat3 X) (length_flat3 X) i hi

omit [DecidableEq 𝕜] in
/-- one Lanczos iteration exhausts the Krylov space of a scalar zero-site map -/
theorem exhausted_bond {dnorm : List 𝕜 → ℝ} (hN : NormContract dnorm) {L R : T3 𝕜} {C : Mat 𝕜} {μ : ℝ}
    (hF : BondFits L R C.m C.n) (hH : BondHermitian L R C.m C.n) (hS : ScalarBond L R C.m C.n μ) :
    C15.Exhausted (localBondFun L R C.m C.n) dnorm (flat2 C) 1 := by
  have hM := actsAs_localBondFun hF
  have hA := isHermitian_localBondFun hF hH
  rw [← length_flat2] at hM hA
  refine exhausted_one_of_eigen (θ := μ) hN hM hA ?_
  intro i hi
  rw [length_flat2] at hi
  exact scalar_vget_bond hF hS (flat2 C) (length_flat2 C) i hi

omit [DecidableEq 𝕜] in
/-- the zero-site operator right of a new left isometry `Q` is scalar if the one-site operator is -/
theorem scalarBond_left {BL BR : T3 𝕜} {W : T4 𝕜} {Q BLn : T3 𝕜} {n : Nat} {μ : ℝ}
    (hF : LocalFits BL BR W Q.d0 Q.d1 n) (hS : ScalarLocal BL BR W Q.d0 Q.d1 n μ) (hQ : LeftIso Q)
    (hBLn : Op.opStepLeft Q Q W BL = .ok BLn) : ScalarBond BLn BR Q.d2 n μ := by
  obtain ⟨hFB, hproj⟩ := bond_proj_left hF hBLn
  intro X KX hXm hXn hKX p' b' hp' hb'
  obtain ⟨T, hT, t0, t1, t2, _⟩ := applyLocal_ker hF (A := mulRight Q X) rfl rfl hXn
  rw [hproj X KX T hXm hXn hKX hT p' b' hp' hb']
  have e1 : ∀ s' ∈ range Q.d0, ∀ a' ∈ range Q.d1, star (Q.f s' a' p') * T.f s' a' b' =
      ∑ p ∈ range Q.d2, ((μ : ℝ) : 𝕜) * X.f p b' * (star (Q.f s' a' p') * Q.f s' a' p) := by
    intro s' hs' a' ha'
    rw [hS (mulRight Q X) T rfl rfl hXn hT s' a' b' (mem_range.1 hs') (mem_range.1 ha') hb']
    show star (Q.f s' a' p') * (((μ : ℝ) : 𝕜) * ∑ p ∈ range Q.d2, Q.f s' a' p * X.f p b') = _
    rw [Finset.mul_sum, Finset.mul_sum]
    exact sum_congr rfl fun p _ => by ring
  rw [sum_congr rfl fun s' hs' => sum_congr rfl fun a' ha' => e1 s' hs' a' ha']
  rw [sum_congr rfl fun s' _ => Finset.sum_comm, Finset.sum_comm]
  have e2 : ∀ p ∈ range Q.d2, ∑ s' ∈ range Q.d0, ∑ a' ∈ range Q.d1,
      ((μ : ℝ) : 𝕜) * X.f p b' * (star (Q.f s' a' p') * Q.f s' a' p) =
      if p' = p then ((μ : ℝ) : 𝕜) * X.f p b' else 0 := by
    intro p hp
    have := hQ p' p hp' (mem_range.1 hp)
    rw [sum_congr rfl fun s' _ => (Finset.mul_sum _ _ _).symm, ← Finset.mul_sum, this]
    by_cases e : p' = p
    · rw [if_pos e, if_pos e, mul_one]
    · rw [if_neg e, if_neg e, mul_zero]
  rw [sum_congr rfl e2, Finset.sum_ite_eq, if_pos (mem_range.2 hp')]

omit [DecidableEq 𝕜] in
/-- the zero-site operator left of a new right isometry `Q` is scalar if the one-site operator is -/
theorem scalarBond_right {BL BR : T3 𝕜} {W : T4 𝕜} {Q BRn : T3 𝕜} {m : Nat} {μ : ℝ}
    (hF : LocalFits BL BR W Q.d0 m Q.d2) (hS : ScalarLocal BL BR W Q.d0 m Q.d2 μ) (hQ : RightIso Q)
    (hBRn : Op.opStepRight Q Q W BR = .ok BRn) : ScalarBond BL BRn m Q.d1 μ := by
  obtain ⟨hFB, hproj⟩ := bond_proj_right hF hBRn
  intro X KX hXm hXn hKX a' p' ha' hp'
  obtain ⟨T, hT, t0, t1, t2, _⟩ := applyLocal_ker hF (A := mulLeft X Q) rfl hXm rfl
  rw [hproj X KX T hXm hXn hKX hT a' p' ha' hp']
  have e1 : ∀ s' ∈ range Q.d0, ∀ b' ∈ range Q.d2, star (Q.f s' p' b') * T.f s' a' b' =
      ∑ p ∈ range Q.d1, ((μ : ℝ) : 𝕜) * X.f a' p * (star (Q.f s' p' b') * Q.f s' p b') := by
    intro s' hs' b' hb'
    rw [hS (mulLeft X Q) T rfl hXm rfl hT s' a' b' (mem_range.1 hs') ha' (mem_range.1 hb')]
    show star (Q.f s' p' b') * (((μ : ℝ) : 𝕜) * ∑ p ∈ range Q.d1, X.f a' p * Q.f s' p b') = _
    rw [Finset.mul_sum, Finset.mul_sum]
    exact sum_congr rfl fun p _ => by ring
  rw [sum_congr rfl fun s' hs' => sum_congr rfl fun b' hb' => e1 s' hs' b' hb']
  rw [sum_congr rfl fun s' _ => Finset.sum_comm, Finset.sum_comm]
  have e2 : ∀ p ∈ range Q.d1, ∑ s' ∈ range Q.d0, ∑ b' ∈ range Q.d2,
      ((μ : ℝ) : 𝕜) * X.f a' p * (star (Q.f s' p' b') * Q.f s' p b') =
      if p' = p then ((μ : ℝ) : 𝕜) * X.f a' p else 0 := by
    intro p hp
    have := hQ p' p hp' (mem_range.1 hp)
    rw [sum_congr rfl fun s' _ => (Finset.mul_sum _ _ _).symm, ← Finset.mul_sum, this]
    by_cases e : p' = p
    · rw [if_pos e, if_pos e, mul_one]
    · rw [if_neg e, if_neg e, mul_zero]
  rw [sum_congr rfl e2, Finset.sum_ite_eq, if_pos (mem_range.2 hp')]

end Ptn.Evo

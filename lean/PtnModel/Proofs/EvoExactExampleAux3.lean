import PtnModel.Proofs.EvoExactExampleAux2
import PtnModel.Proofs.EvoRevExample2
/-!
# The two-site witness: definitions and static facts

* `exH2` : the two-site MPO with tensors `2·𝟙`, `𝟙` (MPO bond dimensions one, all charges zero): the dense operator is `2·𝟙`
  on `ℂ⁴` (`exH2_scalar`);
* `exψ2` : the two-site MPS with bond dimensions `[1, 2, 1]` (all charges zero), `A0[s,0,b] = δ_{sb}`,
  `A1[·,·,0] = [[1, 0], [i, 1]]`: the dense vector is `(ψ[00], ψ[01], ψ[10], ψ[11]) = (1, i, 0, 1)`;
* kernels `exK1` (`Proofs/EvoRevExample1.lean`), one Lanczos iteration.
-/
set_option linter.unusedSectionVars false

namespace Ptn.Evo
open Ptn Ptn.BondOps Ptn.Ortho Ptn.Env Ptn.Krylov Ptn.Dense Finset

noncomputable def exH2 : MPO ℂ := ⟨[0, 0], [[0], [0], [0]],
  [⟨2, 2, 1, 1, fun s t _ _ => if s = t then 2 else 0⟩, ⟨2, 2, 1, 1, fun s t _ _ => if s = t then 1 else 0⟩]⟩

noncomputable def exψ2 : MPS ℂ := ⟨[0, 0], [[0], [0, 0], [0]],
  [⟨2, 1, 2, fun s _ b => if s = b then 1 else 0⟩,
   ⟨2, 2, 1, fun s a _ => if s = a then 1 else if s = 1 then Complex.I else 0⟩]⟩

theorem exH2_shaped : C04.MPO.Shaped exH2 2 := by decide

theorem exH2_scalar : DenseScalar exH2 2 2 := by
  intro s hs t ht
  have hs' : s ∈ digits [2, 2] := hs
  have ht' : t ∈ digits [2, 2] := ht
  obtain ⟨s0, r, h0, hr, rfl⟩ := mem_digits_cons.1 hs'
  obtain ⟨t0, u, g0, hu, rfl⟩ := mem_digits_cons.1 ht'
  obtain ⟨s1, r', h1, hr', rfl⟩ := mem_digits_cons.1 hr
  obtain ⟨t1, u', g1, hu', rfl⟩ := mem_digits_cons.1 hu
  simp only [digits_nil, Finset.mem_singleton] at hr' hu'
  subst hr' hu'
  interval_cases s0 <;> interval_cases t0 <;> interval_cases s1 <;> interval_cases t1 <;>
    simp [MPO.elem, MPO.elemRow, exH2, sumRange, List.range_succ]

theorem exH2_herm : C04.MPO.DenseHermitian exH2 2 := by
  intro s hs t ht
  rw [exH2_scalar s hs t ht, exH2_scalar t ht s hs]
  by_cases e : s = t
  · subst e; simp
  · rw [if_neg e, if_neg (fun e' => e e'.symm)]; simp

theorem exE2_ctx : SweepCtx exK1 exH2 [0, 0] 1 :=
  ⟨⟨realQR_contract, realQR_realDiag⟩, sqrtNorm_contract, fun Afun v => eighAt_one Afun _ v, exH2_shaped, exH2_herm,
    by decide⟩

theorem exH2_wf : exH2.wellFormed = true := by
  refine (mpo_wellFormed_iff_idx exH2).2 ⟨rfl, ?_⟩
  intro i hi
  have hi' : i < 2 := hi
  interval_cases i
  · refine ⟨rfl, rfl, rfl, rfl, ?_⟩
    intro s t a b hs ht ha hb hne
    have hs' : s < 2 := hs
    have ht' : t < 2 := ht
    have ha' : a < 1 := ha
    have hb' : b < 1 := hb
    interval_cases s <;> interval_cases t <;> interval_cases a <;> interval_cases b <;> simp [exH2] at hne ⊢
  · refine ⟨rfl, rfl, rfl, rfl, ?_⟩
    intro s t a b hs ht ha hb hne
    have hs' : s < 2 := hs
    have ht' : t < 2 := ht
    have ha' : a < 1 := ha
    have hb' : b < 1 := hb
    interval_cases s <;> interval_cases t <;> interval_cases a <;> interval_cases b <;> simp [exH2] at hne ⊢

theorem exCompat2 : C02.EvoCompat exH2 exψ2 := ⟨rfl, rfl⟩

theorem exψ2_adm : Admissible exψ2 := by
  refine ⟨(wellFormed_iff_idx exψ2).2 ⟨rfl, ?_⟩, by decide, by simp [exψ2], by simp [exψ2], rfl, rfl⟩
  intro i hi
  have hi' : i < 2 := hi
  interval_cases i
  · refine ⟨rfl, rfl, rfl, ?_⟩
    intro s a b hs ha hb
    have hs' : s < 2 := hs
    have ha' : a < 1 := ha
    have hb' : b < 2 := hb
    interval_cases s <;> interval_cases a <;> interval_cases b <;> simp [exψ2]
  · refine ⟨rfl, rfl, rfl, ?_⟩
    intro s a b hs ha hb
    have hs' : s < 2 := hs
    have ha' : a < 2 := ha
    have hb' : b < 1 := hb
    interval_cases s <;> interval_cases a <;> interval_cases b <;> simp [exψ2]

theorem exK1_expLaw : ExpLaw exK1.dexp := ⟨fun a b => Complex.exp_add a b, Complex.exp_zero⟩

theorem exK1_half : exK1.half + exK1.half = 1 := by
  show (((1 / 2 : ℝ) : ℂ)) + (((1 / 2 : ℝ) : ℂ)) = 1
  push_cast
  norm_num

end Ptn.Evo

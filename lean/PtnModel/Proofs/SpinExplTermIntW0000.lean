import PtnModel.Proofs.SpinExplTermIntW0000p0
import PtnModel.Proofs.SpinExplTermIntW0000p1
import PtnModel.Proofs.SpinExplTermIntW0000p2
/-!
# Explicit spin-orbital molecular graph: interaction terms, spin pattern 0000, words
-/
set_option linter.unusedSectionVars false
set_option linter.unusedSimpArgs false
set_option linter.unusedVariables false
set_option linter.unusedTactic false
set_option linter.unreachableTactic false

namespace Ptn.Ham
open Ptn.Og List Ptn.Ham2

theorem sint_word_0000 (L : Int) (hL : 2 ≤ L) (i j k l : Int) (hi : 0 ≤ i) (hjL : j < L) (hk : 0 ≤ k) (hlL : l < L) (hij : i < j) (hkl : k < l) :
    ∃ x, stermE L (sortTrips [(i, 0, mC), (j, 0, mC), (l, 0, mA), (k, 0, mA)]) = .ok x ∧
      STw L (intF (md i 0).toNat (md j 0).toNat (md k 0).toNat (md l 0).toNat) x := by
  rcases Int.lt_trichotomy i k with hh0 | hh0 | hh0
  · rcases Int.lt_trichotomy j l with hh1 | hh1 | hh1
    · rcases Int.lt_trichotomy j k with hh2 | hh2 | hh2
      · exact sint_word_0000_0123 L hL _ _ _ _ (by omega) (by omega) (by omega) (by omega) (by omega)
      · obtain rfl : j = k := by omega
        exact sint_word_0000_0112 L hL _ _ _ (by omega) (by omega) (by omega) (by omega)
      · exact sint_word_0000_0213 L hL _ _ _ _ (by omega) (by omega) (by omega) (by omega) (by omega)
    · obtain rfl : j = l := by omega
      exact sint_word_0000_0212 L hL _ _ _ (by omega) (by omega) (by omega) (by omega)
    · exact sint_word_0000_0312 L hL _ _ _ _ (by omega) (by omega) (by omega) (by omega) (by omega)
  · rcases Int.lt_trichotomy j l with hh1 | hh1 | hh1
    · obtain rfl : i = k := by omega
      exact sint_word_0000_0102 L hL _ _ _ (by omega) (by omega) (by omega) (by omega)
    · obtain rfl : i = k := by omega
      obtain rfl : j = l := by omega
      exact sint_word_0000_0101 L hL _ _ (by omega) (by omega) (by omega)
    · obtain rfl : i = k := by omega
      exact sint_word_0000_0201 L hL _ _ _ (by omega) (by omega) (by omega) (by omega)
  · rcases Int.lt_trichotomy j l with hh1 | hh1 | hh1
    · exact sint_word_0000_1203 L hL _ _ _ _ (by omega) (by omega) (by omega) (by omega) (by omega)
    · obtain rfl : j = l := by omega
      exact sint_word_0000_1202 L hL _ _ _ (by omega) (by omega) (by omega) (by omega)
    · rcases Int.lt_trichotomy i l with hh2 | hh2 | hh2
      · exact sint_word_0000_1302 L hL _ _ _ _ (by omega) (by omega) (by omega) (by omega) (by omega)
      · obtain rfl : i = l := by omega
        exact sint_word_0000_1201 L hL _ _ _ (by omega) (by omega) (by omega) (by omega)
      · exact sint_word_0000_2301 L hL _ _ _ _ (by omega) (by omega) (by omega) (by omega) (by omega)

end Ptn.Ham

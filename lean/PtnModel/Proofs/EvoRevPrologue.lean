import PtnModel.Proofs.EvoRevTop
/-!
# The prologue on a right-canonical, normalised sweep state is a unitary gauge change

The second call of a reversibility test (`dt`, then `-dt`) starts with the prologue of `integrate_local_singlesite` on the
state written back by the first call.  That state is already right-canonical (sweep invariant with centre `0`) and
normalised, so the right-orthonormalisation of the prologue can only change the gauge:

* `right_site_gauge`, `localRight_gauge` : one call of `local_orthonormalize_right_qr` on `A = P · V` (`P` a right isometry,
  `V` unitary) returns `V'ᴴ · P · V` and pushes `V'` into the neighbour (QR uniqueness `qr_gauge_right2`), provided the block
  QR keeps the bond dimension (`QRKeeps`); the full rank of the triangular factor follows (`rightInv_of_keep`);
* `sweepRight_gauge`  : induction along `sweepRightQr`;
* `OrthoRightRegular` : the regularity hypothesis "every block QR of the orthonormalisation at a site `≥ 1` keeps the bond
  dimension" (`SweepRightRegular`: recursion along the sweep, like `FoldAll` for `foldIdx`);
* `prologue_gauge`    : `GaugeEq H qd b t0 0` for the sweep state `t0` returned by the prologue on `toMPS ψ b`;
  `prologue_gauge_norm` : the reported norm is one.
-/
set_option linter.unusedSectionVars false

namespace Ptn.Evo
open Ptn Ptn.BondOps Ptn.Ortho Ptn.Env Ptn.Krylov Ptn.Dense Finset

variable {𝕜 : Type} [RCLike 𝕜] [DecidableEq 𝕜]

/-- `A = P · V` on in-range entries (the bond matrix `V` acts on the right bond) -/
structure MulU (P : T3 𝕜) (V : Nat → Nat → 𝕜) (A : T3 𝕜) : Prop where
  d0 : A.d0 = P.d0
  d1 : A.d1 = P.d1
  d2 : A.d2 = P.d2
  f : ∀ s a b, s < P.d0 → a < P.d1 → b < P.d2 → A.f s a b = ∑ c ∈ range P.d2, P.f s a c * V c b

/-- `Σ_x Σ_b conj(δ_{x x'}) (Σ_q δ_{x q} F q b) w b = Σ_b F x' b w b` -/
theorem sum_idU_collapse (D : Nat) (S : Finset Nat) {x' : Nat} (hx' : x' < D) (F : Nat → Nat → 𝕜) (w : Nat → 𝕜) :
    ∑ x ∈ range D, ∑ b ∈ S, star (idU (𝕜 := 𝕜) x x') * (∑ q ∈ range D, idU x q * F q b) * w b =
      ∑ b ∈ S, F x' b * w b := by
  have e1 : ∀ x ∈ range D, ∑ b ∈ S, star (idU (𝕜 := 𝕜) x x') * (∑ q ∈ range D, idU x q * F q b) * w b =
      (∑ b ∈ S, F x b * w b) * (if x = x' then 1 else 0) := by
    intro x hx
    rw [Finset.sum_mul]
    refine sum_congr rfl fun b _ => ?_
    have e2 : ∑ q ∈ range D, idU (𝕜 := 𝕜) x q * F q b = F x b := by
      have : ∀ q ∈ range D, idU (𝕜 := 𝕜) x q * F q b = F q b * (if x = q then 1 else 0) := by
        intro q _
        unfold idU
        rw [mul_comm]
      rw [sum_congr rfl this, sum_mul_delta D x (mem_range.1 hx)]
    rw [e2]
    unfold idU
    by_cases h : x = x'
    · rw [if_pos h, star_one]; ring
    · rw [if_neg h, star_zero]; ring
  rw [sum_congr rfl e1, sum_mul_delta' D x' hx' (fun x => ∑ b ∈ S, F x b * w b)]

/-- `Σ_a Σ_b conj(δ_{a a'}) δ_{a b} V b b' = V a' b'` -/
theorem sum_idU_mat (D : Nat) {a' : Nat} (ha' : a' < D) (V : Nat → 𝕜) :
    ∑ a ∈ range D, ∑ b ∈ range D, star (idU (𝕜 := 𝕜) a a') * idU a b * V b = V a' := by
  have e1 : ∀ a ∈ range D, ∑ b ∈ range D, star (idU (𝕜 := 𝕜) a a') * idU a b * V b =
      V a * (if a = a' then 1 else 0) := by
    intro a ha
    have : ∀ b ∈ range D, star (idU (𝕜 := 𝕜) a a') * idU a b * V b =
        (star (idU (𝕜 := 𝕜) a a') * V b) * (if a = b then 1 else 0) := by
      intro b _
      unfold idU
      ring
    rw [sum_congr rfl this, sum_mul_delta D a (mem_range.1 ha) (fun b => star (idU (𝕜 := 𝕜) a a') * V b)]
    unfold idU
    by_cases h : a = a'
    · rw [if_pos h, star_one]; ring
    · rw [if_neg h, star_zero]; ring
  rw [sum_congr rfl e1, sum_mul_delta' D a' ha' V]

/-- **One QR step of the right-orthonormalisation on a gauged right isometry.**  The current tensor is `A = P · V` with a
right isometry `P` and a unitary `V`; the block QR of the matricised `A` keeps the bond dimension (`hkeep`) and its
triangular factor `R` has a right inverse (`hinv`, i.e. `Rᵀ` has a left inverse).  Then the new tensor is `V'ᴴ · P · V` for a unitary `V'`
and `Rᵀ = V'` (in range). -/
theorem right_site_gauge {dqr : Mat 𝕜 → Mat 𝕜 × Mat 𝕜} (hc : C11.QRContract dqr) {A P : T3 𝕜} {V : Nat → Nat → 𝕜}
    {q0 q1 : List Int} {Q R : Mat 𝕜} {qb : List Int} (hP : RightIso P) (hV : IsU P.d2 V) (hA : MulU P V A)
    (p0 : 0 < P.d0) (p1 : 0 < P.d1) (p2 : 0 < P.d2)
    (hq : qr dqr A.swap12.flattenLeft.tab q0 q1 = .ok (Q, R, qb)) (hkeep : qb.length = A.d1)
    (hinv : RightInv R A.d1) :
    ∃ V' : Nat → Nat → 𝕜, IsU P.d1 V' ∧ GT3 V' V P (T3.ofFlattenLeft Q A.d0 A.d2).swap12.tab ∧ R.m = P.d1 ∧
      R.n = P.d1 ∧ ∀ x p, x < P.d1 → p < P.d1 → R.f p x = V' x p := by
  have hm : 0 < A.swap12.flattenLeft.tab.m := by
    show 0 < A.d0 * A.d2
    rw [hA.d0, hA.d2]; exact Nat.mul_pos p0 p2
  have hn : 0 < A.swap12.flattenLeft.tab.n := by
    show 0 < A.d1
    rw [hA.d1]; exact p1
  have hf := qr_facts hc hm hn hq
  set Ai : T3 𝕜 := (T3.ofFlattenLeft Q A.d0 A.d2).swap12.tab with hAi
  have hAiIso : RightIso Ai := rightQR_iso hf
  have hAi0 : Ai.d0 = P.d0 := hA.d0
  have hAi1 : Ai.d1 = P.d1 := (hf.Qn.trans hkeep).trans hA.d1
  have hAi2 : Ai.d2 = P.d2 := hA.d2
  have hRm : R.m = P.d1 := (hf.Rm.trans hkeep).trans hA.d1
  have hRn : R.n = P.d1 := hf.Rn.trans hA.d1
  have hqb : qb.length = P.d1 := hkeep.trans hA.d1
  obtain ⟨Cinv, hCinv⟩ := hinv
  obtain ⟨V', hV', hG, hM⟩ := qr_gauge_right2 (P := P) (Q' := Ai) (C1 := ⟨P.d1, P.d1, idU⟩)
    (C' := ⟨P.d1, P.d1, fun x p => R.f p x⟩) (Ul := idU) (Ur := V) hP hAiIso hAi0 hAi1 hAi2 rfl rfl rfl hV
    (fun s x' b' hs hx' hb' => by
      show ∑ p ∈ range P.d1, R.f p x' * Ai.f s p b' =
        ∑ x ∈ range P.d1, ∑ b ∈ range P.d2, star (idU x x') * (∑ q ∈ range P.d1, idU x q * P.f s q b) * V b b'
      have hx'' : x' < P.d1 := hx'
      rw [sum_idU_collapse P.d1 (range P.d2) hx'' (fun q b => P.f s q b) (fun b => V b b'),
        ← hA.f s x' b' hs hx'' hb']
      have hs' : s < A.d0 := by rw [hA.d0]; exact hs
      have hb2 : b' < A.d2 := by rw [hA.d2]; exact hb'
      have hx2 : x' < A.d1 := by rw [hA.d1]; exact hx''
      have hr : s * A.d2 + b' < A.d0 * A.d2 := Ortho.fused_lt hs' hb2
      have := hf.prod (s * A.d2 + b') x' hr hx2
      rw [Mat.tab_f A.swap12.flattenLeft hr hx2] at this
      have e : A.swap12.flattenLeft.f (s * A.d2 + b') x' = A.f s x' b' := by
        show A.f ((s * A.d2 + b') / A.d2) x' ((s * A.d2 + b') % A.d2) = _
        rw [Ortho.fused_div hb2, Ortho.fused_mod hb2]
      rw [← e, ← this, hqb]
      refine sum_congr rfl fun p hp => ?_
      have hp' : p < qb.length := by rw [hqb]; exact mem_range.1 hp
      rw [hAi, Env.t3_tab_f (A := (T3.ofFlattenLeft Q A.d0 A.d2).swap12) hs'
        (by show p < Q.n; rw [hf.Qn]; exact hp') hb2]
      show R.f p x' * Q.f (s * A.d2 + b') p = _
      ring)
    ⟨Cinv, fun p p' hp hp' => by
      show ∑ x ∈ range P.d1, R.f p x * Cinv.f x p' = _
      rw [← hRn]
      exact hCinv p p' (by rw [hA.d1]; exact hp) (by rw [hA.d1]; exact hp')⟩
  refine ⟨V', hV', hG, hRm, hRn, ?_⟩
  intro x p hx hp
  have := hM.f x p hx hp
  show R.f p x = V' x p
  rw [show R.f p x = (⟨P.d1, P.d1, fun x p => R.f p x⟩ : Mat 𝕜).f x p from rfl, this]
  exact sum_idU_mat P.d1 hx (fun b => V' b p)


/-- Gram matrix of the columns of `Q · R` for a `Q` with orthonormal columns -/
theorem gram_isoQ (Si : Finset Nat) (D : Nat) (Q : Nat → Nat → 𝕜) (X Y : Nat → 𝕜)
    (hQ : ∀ p p', p < D → p' < D → ∑ i ∈ Si, star (Q i p) * Q i p' = if p = p' then 1 else 0) :
    ∑ i ∈ Si, star (∑ p ∈ range D, Q i p * X p) * (∑ p' ∈ range D, Q i p' * Y p') =
      ∑ p ∈ range D, star (X p) * Y p := by
  have h := alg_gram_l Si (range D) (range D) (fun p i => star (Q i p)) X Y
  simp only [star_star] at h
  rw [h]
  refine sum_congr rfl fun p hp => ?_
  have e : ∀ p' ∈ range D, (star (X p) * Y p') * ∑ i ∈ Si, star (Q i p) * Q i p' =
      (star (X p) * Y p') * (if p = p' then 1 else 0) := by
    intro p' hp'
    rw [hQ p p' (mem_range.1 hp) (mem_range.1 hp')]
  rw [sum_congr rfl e, sum_mul_delta D p (mem_range.1 hp) (fun p' => star (X p) * Y p')]

/-- a block QR of the matricised right isometry `A` that keeps the bond dimension has a unitary triangular factor; in
particular the factor has a right inverse -/
theorem rightInv_of_keep {A : T3 𝕜} {Q R : Mat 𝕜} {qb : List Int} (hA : RightIso A)
    (hf : QRFacts A.swap12.flattenLeft.tab Q R qb) (hkeep : qb.length = A.d1) : RightInv R A.d1 := by
  have hcol : ∀ x x', x < A.d1 → x' < A.d1 →
      ∑ p ∈ range A.d1, star (R.f p x) * R.f p x' = if x = x' then 1 else 0 := by
    intro x x' hx hx'
    rw [← hA x x' hx hx']
    have e : ∀ s ∈ range A.d0, ∀ b ∈ range A.d2, star (A.f s x b) * A.f s x' b =
        star (∑ p ∈ range A.d1, Q.f (s * A.d2 + b) p * R.f p x) *
          (∑ p' ∈ range A.d1, Q.f (s * A.d2 + b) p' * R.f p' x') := by
      intro s hs b hb
      have hs' := mem_range.1 hs
      have hb' := mem_range.1 hb
      have hr : s * A.d2 + b < A.d0 * A.d2 := Ortho.fused_lt hs' hb'
      have ee : ∀ y, y < A.d1 → ∑ p ∈ range A.d1, Q.f (s * A.d2 + b) p * R.f p y = A.f s y b := by
        intro y hy
        have := hf.prod (s * A.d2 + b) y hr hy
        rw [Mat.tab_f A.swap12.flattenLeft hr hy, hkeep] at this
        rw [this]
        show A.f ((s * A.d2 + b) / A.d2) y ((s * A.d2 + b) % A.d2) = _
        rw [Ortho.fused_div hb', Ortho.fused_mod hb']
      rw [ee x hx, ee x' hx']
    rw [sum_congr rfl fun s hs => sum_congr rfl fun b hb => e s hs b hb, ← sum_fused A.d0 A.d2
      (fun i => star (∑ p ∈ range A.d1, Q.f i p * R.f p x) * (∑ p' ∈ range A.d1, Q.f i p' * R.f p' x'))]
    exact (gram_isoQ (range (A.d0 * A.d2)) A.d1 Q.f (fun p => R.f p x) (fun p => R.f p x')
      (fun p p' hp hp' => hf.iso p p' (by rw [hkeep]; exact hp) (by rw [hkeep]; exact hp'))).symm
  have hrow := sq_iso_unitary A.d1 (fun p x => R.f p x) hcol
  refine ⟨⟨A.d1, A.d1, fun x p' => star (R.f p' x)⟩, ?_⟩
  intro p p' hp hp'
  have hRn : R.n = A.d1 := hf.Rn
  rw [hRn]
  exact hrow p p' hp hp'

/-- `P · V` is a right isometry -/
theorem rightIso_of_mulU {A P : T3 𝕜} {V : Nat → Nat → 𝕜} (hP : RightIso P) (hV : IsU P.d2 V) (hA : MulU P V A) :
    RightIso A := by
  intro a a' ha ha'
  have ha1 : a < P.d1 := by rw [← hA.d1]; exact ha
  have ha1' : a' < P.d1 := by rw [← hA.d1]; exact ha'
  refine Eq.trans ?_ (rightIso_gaugeR hP hV a a' ha1 ha1')
  rw [hA.d0, hA.d2]
  refine sum_congr rfl fun s hs => sum_congr rfl fun b hb => ?_
  rw [hA.f s a b (mem_range.1 hs) ha1 (mem_range.1 hb), hA.f s a' b (mem_range.1 hs) ha1' (mem_range.1 hb)]

/-- regularity of one QR call of the right-orthonormalisation: the block QR of the matricised tensor `A` (left charges
`qL`, right charges `qR`) keeps the dimension of the left bond -/
def QRKeeps (dqr : Mat 𝕜 → Mat 𝕜 × Mat 𝕜) (qd : List Int) (A : T3 𝕜) (qL qR : List Int) : Prop :=
  ∀ Q R qb, qr dqr A.swap12.flattenLeft.tab (QN.flatten2 qd (QN.neg qR)) (QN.neg qL) = .ok (Q, R, qb) →
    qb.length = A.d1

/-- every QR call executed by `sweepRightQr dqr qd A qR rest qLs` on a tensor that has a left neighbour (sites `≥ 1`) keeps the
bond dimension (recursion along the sweep; the call at the first site factorises a bond of dimension one and needs no
hypothesis) -/
def SweepRightRegular (dqr : Mat 𝕜 → Mat 𝕜 × Mat 𝕜) (qd : List Int) :
    T3 𝕜 → List Int → List (T3 𝕜) → List (List Int) → Prop
  | A, qR, Aprev :: rest, qL :: qRest => QRKeeps dqr qd A qL qR ∧
      ∀ A' Aprev' qb, MPS.localOrthoRightQr dqr A Aprev qd qL qR = .ok (A', Aprev', qb) →
        SweepRightRegular dqr qd Aprev' qb rest qRest
  | _, _, _, _ => True

/-- the QR call at the first site (neighbour `ones111`) keeps the bond dimension one -/
theorem qrKeeps_first {dqr : Mat 𝕜 → Mat 𝕜 × Mat 𝕜} (hc : C11.QRContract dqr) {A : T3 𝕜} {qd qL qR : List Int}
    {A' T : T3 𝕜} {qb : List Int} (p0 : 0 < A.d0) (p1 : 0 < A.d1) (p2 : 0 < A.d2)
    (hl : MPS.localOrthoRightQr dqr A MPS.ones111 qd qL qR = .ok (A', T, qb)) : QRKeeps dqr qd A qL qR := by
  intro Q R qb1 hq
  obtain ⟨Q', R', qb', hq', hRn, _, _, _⟩ := localRight_run hl
  rw [hq] at hq'
  injection hq' with e
  injection e with e1 e
  injection e with e2 e3
  subst e1 e2 e3
  have hm : 0 < A.swap12.flattenLeft.tab.m := by
    show 0 < A.d0 * A.d2
    exact Nat.mul_pos p0 p2
  have hf := qr_facts hc hm (show 0 < A.d1 from p1) hq
  have h1 : A.d1 = 1 := (hf.Rn.symm.trans hRn : A.d1 = 1)
  have hle : qb1.length ≤ A.d1 := le_trans hf.le (Nat.min_le_right _ _)
  have := hf.pos
  omega

/-- one local step: from `A = P · V` to the new tensor `V'ᴴ P V` and the neighbour `Aprev · V'` -/
theorem localRight_gauge {dqr : Mat 𝕜 → Mat 𝕜 × Mat 𝕜} (hc : C11.QRContract dqr) {A P Aprev : T3 𝕜}
    {V : Nat → Nat → 𝕜} {qd qL qR : List Int} {A' Aprev' : T3 𝕜} {qb : List Int}
    (hP : RightIso P) (hV : IsU P.d2 V) (hA : MulU P V A) (p0 : 0 < P.d0) (p1 : 0 < P.d1) (p2 : 0 < P.d2)
    (hreg : QRKeeps dqr qd A qL qR)
    (hl : MPS.localOrthoRightQr dqr A Aprev qd qL qR = .ok (A', Aprev', qb)) :
    ∃ V' : Nat → Nat → 𝕜, IsU P.d1 V' ∧ GT3 V' V P A' ∧ Aprev.d2 = P.d1 ∧
      Aprev'.d0 = Aprev.d0 ∧ Aprev'.d1 = Aprev.d1 ∧ Aprev'.d2 = Aprev.d2 ∧
      ∀ s a p, s < Aprev.d0 → a < Aprev.d1 → p < Aprev.d2 →
        Aprev'.f s a p = ∑ b ∈ range Aprev.d2, Aprev.f s a b * V' b p := by
  obtain ⟨Q, R, qb', hq, hRn, rfl, rfl, rfl⟩ := localRight_run hl
  have hkeep := hreg Q R qb' hq
  have hm : 0 < A.swap12.flattenLeft.tab.m := by
    show 0 < A.d0 * A.d2
    rw [hA.d0, hA.d2]; exact Nat.mul_pos p0 p2
  have hn : 0 < A.swap12.flattenLeft.tab.n := by
    show 0 < A.d1
    rw [hA.d1]; exact p1
  have hf := qr_facts hc hm hn hq
  have hinv := rightInv_of_keep (rightIso_of_mulU hP hV hA) hf hkeep
  obtain ⟨V', hV', hG, hRm, hRn', hRf⟩ := right_site_gauge hc hP hV hA p0 p1 p2 hq hkeep hinv
  have hd2 : Aprev.d2 = P.d1 := hRn.symm.trans hRn'
  refine ⟨V', hV', hG, hd2, rfl, rfl, hRm.trans hd2.symm, ?_⟩
  intro s a p hs ha hp
  unfold pushL
  rw [Env.t3_tab_f (A := ⟨Aprev.d0, Aprev.d1, R.m, fun s a p => sumRange R.n fun b => Aprev.f s a b * R.f p b⟩) hs ha
    (by show p < R.m; rw [hRm, ← hd2]; exact hp)]
  show sumRange R.n (fun b => Aprev.f s a b * R.f p b) = _
  rw [Env.sumRange_eq, hRn]
  refine sum_congr rfl fun b hb => ?_
  rw [hRf b p (by rw [← hd2]; exact mem_range.1 hb) (by rw [← hd2]; exact hp)]


/-- **The right-to-left QR sweep on a gauged chain of right isometries is a gauge change.**  `P :: rest` are right
isometries (reversed order of sites), the current tensor is `A = P · V`; every QR call keeps the bond dimension.  Then there
are unitaries `W 1, W 2, …` (`W 0 = V`) with `As[j] = (W (j+1))ᴴ · (P :: rest)[j] · W j`; the last one is the `1 × 1` matrix
with entry `T[0,0,0]`. -/
theorem sweepRight_gauge {dqr : Mat 𝕜 → Mat 𝕜 × Mat 𝕜} (hc : C11.QRContract dqr) {qd : List Int} :
    ∀ (rest : List (T3 𝕜)) (qLs : List (List Int)) (A P : T3 𝕜) (V : Nat → Nat → 𝕜) (qR : List Int)
      (As : List (T3 𝕜)) (qs : List (List Int)) (T : T3 𝕜),
    MPS.sweepRightQr dqr qd A qR rest qLs = .ok (As, qs, T) →
    SweepRightRegular dqr qd A qR rest qLs → IsU P.d2 V → MulU P V A →
    (∀ j, j < rest.length + 1 → RightIso ((P :: rest).getD j emptyT3) ∧ 0 < ((P :: rest).getD j emptyT3).d0 ∧
      0 < ((P :: rest).getD j emptyT3).d1 ∧ 0 < ((P :: rest).getD j emptyT3).d2) →
    ∃ W : Nat → Nat → Nat → 𝕜, W 0 = V ∧ As.length = rest.length + 1 ∧
      (∀ j, j < rest.length + 1 → IsU ((P :: rest).getD j emptyT3).d1 (W (j + 1)) ∧
        GT3 (W (j + 1)) (W j) ((P :: rest).getD j emptyT3) (As.getD j emptyT3)) ∧
      ((P :: rest).getD rest.length emptyT3).d1 = 1 ∧ T.f 0 0 0 = W (rest.length + 1) 0 0
  | [], [], A, P, V, qR, As, qs, T, h, _, _, _, _ => by simp [MPS.sweepRightQr] at h
  | [], [qL], A, P, V, qR, As, qs, T, h, hreg, hV, hA, hall => by
    rw [MPS.sweepRightQr] at h
    cases hl : MPS.localOrthoRightQr dqr A MPS.ones111 qd qL qR with
    | error e => rw [hl] at h; cases h
    | ok r =>
      obtain ⟨A', T', qb⟩ := r
      rw [hl] at h
      injection h with h
      injection h with h1 h
      injection h with h2 h3
      subst h1 h2 h3
      obtain ⟨hP, p0, p1, p2⟩ := hall 0 (by simp)
      simp only [List.getD_cons_zero] at hP p0 p1 p2
      have hreg0 : QRKeeps dqr qd A qL qR :=
        qrKeeps_first hc (by rw [hA.d0]; exact p0) (by rw [hA.d1]; exact p1) (by rw [hA.d2]; exact p2) hl
      obtain ⟨V', hV', hG, hd2, _, _, _, hTf⟩ := localRight_gauge hc hP hV hA p0 p1 p2 hreg0 hl
      have hP1 : P.d1 = 1 := hd2.symm
      refine ⟨fun j => match j with | 0 => V | _ + 1 => V', rfl, rfl, ?_, ?_, ?_⟩
      · intro j hj
        have : j = 0 := by simpa using hj
        subst this
        simp only [List.getD_cons_zero]
        exact ⟨hV', hG⟩
      · simpa using hP1
      · have := hTf 0 0 0 Nat.one_pos Nat.one_pos Nat.one_pos
        rw [this]
        show ∑ b ∈ range 1, (1 : 𝕜) * V' b 0 = V' 0 0
        rw [Finset.sum_range_one, one_mul]
  | [], _ :: _ :: _, A, P, V, qR, As, qs, T, h, _, _, _, _ => by simp [MPS.sweepRightQr] at h
  | Aprev :: rest, [], A, P, V, qR, As, qs, T, h, _, _, _, _ => by simp [MPS.sweepRightQr] at h
  | Aprev :: rest, qL :: qRest, A, P, V, qR, As, qs, T, h, hreg, hV, hA, hall => by
    rw [MPS.sweepRightQr] at h
    cases hl : MPS.localOrthoRightQr dqr A Aprev qd qL qR with
    | error e => rw [hl] at h; cases h
    | ok r =>
      obtain ⟨A', Aprev', qb⟩ := r
      rw [hl] at h
      cases hs : MPS.sweepRightQr dqr qd Aprev' qb rest qRest with
      | error e => simp only [bind, Except.bind, hs] at h; cases h
      | ok r' =>
        obtain ⟨As', qs', T'⟩ := r'
        simp only [bind, Except.bind, hs] at h
        injection h with h
        injection h with h1 h
        injection h with h2 h3
        subst h1 h2 h3
        rw [SweepRightRegular] at hreg
        obtain ⟨hreg0, hregS⟩ := hreg
        obtain ⟨hP, p0, p1, p2⟩ := hall 0 (by simp)
        simp only [List.getD_cons_zero] at hP p0 p1 p2
        obtain ⟨V', hV', hG, hd2, a0, a1, a2, hAf⟩ := localRight_gauge hc hP hV hA p0 p1 p2 hreg0 hl
        have hV'' : IsU Aprev.d2 V' := by rw [hd2]; exact hV'
        obtain ⟨W', hW0, hlen, hW, hlast, hT⟩ := sweepRight_gauge hc rest qRest Aprev' Aprev V' qb As' qs' T' hs
          (hregS A' Aprev' qb hl) hV'' ⟨a0, a1, a2, hAf⟩
          (fun j hj => by
            have := hall (j + 1) (by simp only [List.length_cons]; omega)
            simpa only [List.getD_cons_succ] using this)
        refine ⟨fun j => match j with | 0 => V | j + 1 => W' j, rfl, by simp [hlen], ?_, ?_, ?_⟩
        · intro j hj
          cases j with
          | zero =>
            simp only [List.getD_cons_zero]
            show IsU P.d1 (W' 0) ∧ GT3 (W' 0) V P A'
            rw [hW0]
            exact ⟨hV', hG⟩
          | succ j =>
            simp only [List.getD_cons_succ]
            exact hW j (by simp only [List.length_cons] at hj; omega)
        · simpa only [List.length_cons, List.getD_cons_succ] using hlast
        · exact hT


/-! ## plumbing for the top-level statement -/

omit [RCLike 𝕜] [DecidableEq 𝕜] in
theorem getD_reverse_idx {α : Type} (l : List α) (d : α) {j : Nat} (hj : j < l.length) :
    l.reverse.getD j d = l.getD (l.length - 1 - j) d := by
  rw [List.getD_eq_getElem?_getD, List.getD_eq_getElem?_getD, List.getElem?_reverse hj]

omit [DecidableEq 𝕜] in
theorem negLast_getD_lt : ∀ (As : List (T3 𝕜)) (d : T3 𝕜) (j : Nat), j + 1 < As.length →
    (negLast As).getD j d = As.getD j d
  | [], _, _, h => by simp at h
  | [A], _, j, h => by simp at h
  | A :: B :: As, d, 0, _ => by simp [negLast]
  | A :: B :: As, d, j + 1, h => by
    simp only [negLast, List.getD_cons_succ]
    exact negLast_getD_lt (B :: As) d j (by simp only [List.length_cons] at h ⊢; omega)

omit [DecidableEq 𝕜] in
theorem negLast_getD_last : ∀ (As : List (T3 𝕜)) (d : T3 𝕜), As ≠ [] →
    (negLast As).getD (As.length - 1) d = MPS.negT3 (As.getD (As.length - 1) d)
  | [], _, h => absurd rfl h
  | [A], _, _ => by simp [negLast]
  | A :: B :: As, d, _ => by
    have := negLast_getD_last (B :: As) d (by simp)
    simp only [List.length_cons, Nat.add_sub_cancel] at this ⊢
    simp only [negLast, List.getD_cons_succ]
    exact this

/-- reading a successful `orthonormalize(mode='right')` -/
theorem ortho_right_unfold {dqr : Mat 𝕜 → Mat 𝕜 × Mat 𝕜} {ψ ψ' : MPS 𝕜} {nrm : ℝ} (hne : ψ.A ≠ [])
    (hrun : MPS.orthonormalize (ρ := ℝ) dqr ψ false = .ok (ψ', nrm)) :
    ∃ Al rrest ql qrrest As qs T, ψ.A.reverse = Al :: rrest ∧ ψ.qD.reverse = ql :: qrrest ∧
      MPS.sweepRightQr dqr ψ.qd Al ql rrest qrrest = .ok (As, qs, T) ∧
      ψ'.A = (if RCLike.re (T.f 0 0 0) < 0 then negLast As else As).reverse ∧
      nrm = if RCLike.re (T.f 0 0 0) < 0 then -RCLike.re (T.f 0 0 0) else RCLike.re (T.f 0 0 0) := by
  obtain ⟨qd, qD, A⟩ := ψ
  cases A with
  | nil => exact absurd rfl hne
  | cons A0 rest =>
    cases hAr : (A0 :: rest).reverse with
    | nil => simp at hAr
    | cons Al rrest =>
      cases hqr : qD.reverse with
      | nil =>
        unfold MPS.orthonormalize at hrun
        simp only [Bool.false_eq_true, if_false] at hrun
        rw [hAr, hqr] at hrun
        cases hrun
      | cons ql qrrest =>
        rw [ortho_right_eq qd A0 rest qD hAr hqr] at hrun
        cases hs : MPS.sweepRightQr dqr qd Al ql rrest qrrest with
        | error e => rw [hs] at hrun; cases hrun
        | ok r =>
          obtain ⟨As, qs, T⟩ := r
          rw [hs] at hrun
          dsimp only at hrun
          by_cases hT : (T.d0 == 1 && T.d1 == 1 && T.d2 == 1) = true
          · rw [if_pos hT] at hrun
            injection hrun with h
            injection h with h1 h2
            refine ⟨Al, rrest, ql, qrrest, As, qs, T, rfl, rfl, hs, ?_, h2.symm⟩
            rw [← h1]
            rfl
          · rw [if_neg hT] at hrun; cases hrun

/-- `P = P · 1` -/
theorem mulU_id (P : T3 𝕜) : MulU P idU P :=
  ⟨rfl, rfl, rfl, fun s a b _ _ hb => (sum_mul_delta' P.d2 b hb (fun c => P.f s a c)).symm⟩

/-- a tensor with left bond dimension one and unit Frobenius norm is a right isometry -/
theorem rightIso_of_inner {P : T3 𝕜} (h1 : P.d1 = 1) (hn : inner3 P P = 1) : RightIso P := by
  intro a a' ha ha'
  rw [h1] at ha ha'
  have e0 : a = 0 := by omega
  have e0' : a' = 0 := by omega
  subst e0 e0'
  rw [if_pos rfl, ← hn]
  unfold inner3
  rw [h1]
  refine sum_congr rfl fun s _ => ?_
  rw [Finset.sum_range_one]
  rfl

/-- a unimodular number whose real part has modulus one is `±1` -/
theorem unit_re_cases {r : 𝕜} (hr : r * star r = 1) {n : ℝ}
    (hn : n = if RCLike.re r < 0 then -RCLike.re r else RCLike.re r) (h1 : n = 1) :
    (RCLike.re r < 0 ∧ r = -1) ∨ (¬ RCLike.re r < 0 ∧ r = 1) := by
  have hnorm : ‖r‖ ^ 2 = 1 := by
    have := RCLike.mul_conj r
    rw [← RCLike.star_def, hr] at this
    have h' : ((‖r‖ ^ 2 : ℝ) : 𝕜) = 1 := by rw [RCLike.ofReal_pow]; exact this.symm
    exact_mod_cast h'
  have hdef := RCLike.norm_sq_eq_def (z := r)
  rw [hnorm] at hdef
  have hre : RCLike.re r * RCLike.re r = 1 := by
    by_cases h : RCLike.re r < 0
    · rw [if_pos h] at hn
      have : RCLike.re r = -1 := by linarith
      rw [this]; norm_num
    · rw [if_neg h] at hn
      have : RCLike.re r = 1 := by linarith
      rw [this]; norm_num
  have him : RCLike.im r = 0 := by
    have : RCLike.im r * RCLike.im r = 0 := by linarith
    exact mul_self_eq_zero.1 this
  have hz : r = ((RCLike.re r : ℝ) : 𝕜) := by
    have := RCLike.re_add_im r
    rw [him, RCLike.ofReal_zero, zero_mul, add_zero] at this
    exact this.symm
  by_cases h : RCLike.re r < 0
  · left
    rw [if_pos h] at hn
    have : RCLike.re r = -1 := by linarith
    refine ⟨h, ?_⟩
    rw [hz, this]
    simp
  · right
    rw [if_neg h] at hn
    have : RCLike.re r = 1 := by linarith
    refine ⟨h, ?_⟩
    rw [hz, this]
    simp

/-- the sign fix of `orthonormalize` turns the last gauge `±1` into the identity -/
theorem gT3_sign_fix {Wl Wr : Nat → Nat → 𝕜} {P X Y : T3 𝕜} (hG : GT3 Wl Wr P X) (h1 : P.d1 = 1)
    (hY : (Wl 0 0 = -1 ∧ Y = MPS.negT3 X) ∨ (Wl 0 0 = 1 ∧ Y = X)) : GT3 idU Wr P Y := by
  have hd : Y.d0 = X.d0 ∧ Y.d1 = X.d1 ∧ Y.d2 = X.d2 := by
    rcases hY with ⟨_, rfl⟩ | ⟨_, rfl⟩
    · exact ⟨rfl, rfl, rfl⟩
    · exact ⟨rfl, rfl, rfl⟩
  refine ⟨hd.1.trans hG.d0, hd.2.1.trans hG.d1, hd.2.2.trans hG.d2, ?_⟩
  intro s a' b' hs ha' hb'
  have hX := hG.f s a' b' hs ha' hb'
  rw [h1] at ha'
  have e0 : a' = 0 := by omega
  subst e0
  rw [h1, Finset.sum_range_one] at hX ⊢
  have e : ∀ b ∈ range P.d2, star (idU (𝕜 := 𝕜) 0 0) * P.f s 0 b * Wr b b' = P.f s 0 b * Wr b b' := by
    intro b _
    unfold idU
    rw [if_pos rfl, star_one, one_mul]
  rw [sum_congr rfl e]
  rcases hY with ⟨hw, rfl⟩ | ⟨hw, rfl⟩
  · show -(X.f s 0 b') = _
    rw [hX, hw, ← Finset.sum_neg_distrib]
    refine sum_congr rfl fun b _ => ?_
    rw [star_neg, star_one]; ring
  · rw [hX, hw]
    refine sum_congr rfl fun b _ => ?_
    rw [star_one, one_mul]


/-! ## the prologue on a right-canonical, normalised sweep state -/

/-- **Regularity hypothesis of `prologue_gauge`**: every block QR executed by `orthonormalize(mode='right')` on `ψ` keeps the
dimension of the bond it factorises (`qb.length = A.d1` for the call on the current tensor `A`; the calls are enumerated by
recursion along the sweep, `SweepRightRegular`). -/
def OrthoRightRegular (dqr : Mat 𝕜 → Mat 𝕜 × Mat 𝕜) (ψ : MPS 𝕜) : Prop :=
  ∀ Al rrest ql qrrest, ψ.A.reverse = Al :: rrest → ψ.qD.reverse = ql :: qrrest →
    SweepRightRegular dqr ψ.qd Al ql rrest qrrest

omit [RCLike 𝕜] [DecidableEq 𝕜] in
theorem reverse_eq_cons_single {α : Type} {l : List α} (h : l.length = 1) {x : α} {xs : List α}
    (hr : l.reverse = x :: xs) : xs = [] := by
  have := congrArg List.length hr
  rw [List.length_reverse, h] at this
  simp only [List.length_cons] at this
  exact List.length_eq_zero_iff.1 (by omega)

/-- for a single site the regularity hypothesis is empty (the only QR call factorises a bond of dimension one) -/
theorem orthoRightRegular_single (dqr : Mat 𝕜 → Mat 𝕜 × Mat 𝕜) {ψ : MPS 𝕜} (h : ψ.A.length = 1) :
    OrthoRightRegular dqr ψ := by
  intro Al rrest ql qrrest hA _
  have := reverse_eq_cons_single h hA
  subst this
  unfold SweepRightRegular
  trivial

variable {k : EvoKernels 𝕜 ℝ} {H : MPO 𝕜} {qd : List Int} {numiter : Nat}

/-- core of `prologue_gauge`: the gauge relation and the returned norm -/
theorem prologue_gauge_core (ctx : SweepCtx k H qd numiter) {ψ : MPS 𝕜} (hqd : ψ.qd = qd) {b t0 : Sweep 𝕜}
    (hb : Canon H qd b 0) (hadm : Admissible (toMPS ψ b)) {nrm2 : ℝ}
    (hp : prologue k H (toMPS ψ b) = .ok (t0, nrm2)) (hreg : OrthoRightRegular k.dqr (toMPS ψ b))
    (hnorm : normSq (cur qd b) qd.length = 1) :
    Canon H qd t0 0 ∧ nrm2 = 1 ∧ ∃ U, GaugeRel H U b t0 := by
  subst hqd
  have hL : 0 < H.A.length := hb.hc
  obtain ⟨ψ1, E0, ho, hcur, hinv0⟩ := prologue_inv ctx (ψ := toMPS ψ b) rfl hadm hp
  have hcan0 := hinv0.can
  obtain ⟨Al, rrest, ql, qrrest, As, qs, T, hAr, hqr, hs, hA1, hnrm⟩ := ortho_right_unfold hadm.nonempty ho
  have hregS := hreg Al rrest ql qrrest hAr hqr
  have hAr' : b.A.toList.reverse = Al :: rrest := hAr
  have hlenb : b.A.toList.length = H.A.length := by rw [Array.length_toList]; exact hb.wf.sizeA
  have hlenr : rrest.length + 1 = H.A.length := by
    have := congrArg List.length hAr'
    rw [List.length_reverse, hlenb] at this
    simpa using this.symm
  -- the returned norm is one
  have hn1 : nrm2 = 1 := by
    have h2 := C01.ortho_norm_sq ctx.qr hadm ho
    have h0 := C01.ortho_nonneg ho
    have h3 : normSq (toMPS ψ b) ψ.qd.length = 1 := hnorm
    rw [normSq_real] at h3
    have h4 : ∑ σ ∈ digitsU ψ.qd.length (toMPS ψ b).A.length, ‖(toMPS ψ b).amp σ‖ ^ 2 = 1 := by exact_mod_cast h3
    have h5 : nrm2 ^ 2 = 1 := h2.trans h4
    exact (pow_eq_one_iff_of_nonneg h0 (by norm_num)).1 h5
  -- the reversed tensor list in terms of the sweep state
  have ePs : ∀ m, m < H.A.length → (Al :: rrest).getD (H.A.length - (m + 1)) emptyT3 = getA b m := by
    intro m hm
    rw [← hAr', getD_reverse_idx _ _ (by rw [hlenb]; omega), hlenb, toList_getD']
    have : H.A.length - 1 - (H.A.length - (m + 1)) = m := by omega
    rw [this]
    rfl
  -- the first tensor is a right isometry because the state is normalised
  have hP0 : RightIso (getA b 0) := by
    have h1 : (getA b 0).d1 = 1 := (hb.wf.shape 0 hL).2.1.trans hb.q0
    refine rightIso_of_inner h1 ?_
    rw [inner3_self, ← (canon_centre hb ctx.hH).1]
    exact hnorm
  have hall : ∀ j, j < rrest.length + 1 → RightIso ((Al :: rrest).getD j emptyT3) ∧
      0 < ((Al :: rrest).getD j emptyT3).d0 ∧ 0 < ((Al :: rrest).getD j emptyT3).d1 ∧
      0 < ((Al :: rrest).getD j emptyT3).d2 := by
    intro j hj
    rw [hlenr] at hj
    have e := ePs (H.A.length - 1 - j) (by omega)
    have ej : H.A.length - (H.A.length - 1 - j + 1) = j := by omega
    rw [ej] at e
    rw [e]
    obtain ⟨s0, s1, s2⟩ := hb.wf.shape (H.A.length - 1 - j) (by omega)
    refine ⟨?_, by rw [s0]; exact ctx.dpos, by rw [s1]; exact hb.wf.qpos _ (by omega),
      by rw [s2]; exact hb.wf.qpos _ (by omega)⟩
    by_cases h0 : H.A.length - 1 - j = 0
    · rw [h0]; exact hP0
    · exact hb.riso _ (by omega) (by omega)
  obtain ⟨W, hW0, hlen, hW, hlast, hT⟩ := sweepRight_gauge ctx.qr.contract rrest qrrest Al Al idU ql As qs T hs hregS
    (isU_id _) (mulU_id Al) hall
  rw [hlenr] at hlen
  -- the gauge in site indices
  have key : ∀ m, m < H.A.length → IsU (getA b m).d1 (W (H.A.length - m)) ∧
      GT3 (W (H.A.length - m)) (W (H.A.length - (m + 1))) (getA b m) (As.getD (H.A.length - (m + 1)) emptyT3) := by
    intro m hm
    have h := hW (H.A.length - (m + 1)) (by omega)
    rw [ePs m hm] at h
    have e1 : H.A.length - (m + 1) + 1 = H.A.length - m := by omega
    rw [e1] at h
    exact h
  -- the tensors of the returned state
  have eT : ∀ m, m < H.A.length → getA t0 m =
      (if RCLike.re (T.f 0 0 0) < 0 then negLast As else As).getD (H.A.length - (m + 1)) emptyT3 := by
    intro m hm
    have hl2 : (if RCLike.re (T.f 0 0 0) < 0 then negLast As else As).length = H.A.length := by
      split
      · rw [negLast_length]; exact hlen
      · exact hlen
    rw [← cur_getD ψ.qd t0 m, hcur, hA1, getD_reverse_idx _ _ (by rw [hl2]; exact hm), hl2]
    have : H.A.length - 1 - m = H.A.length - (m + 1) := by omega
    rw [this]
  have eT' : ∀ m, 0 < m → m < H.A.length → getA t0 m = As.getD (H.A.length - (m + 1)) emptyT3 := by
    intro m hm0 hm
    rw [eT m hm]
    split
    · exact negLast_getD_lt As emptyT3 _ (by rw [hlen]; omega)
    · rfl
  -- the last gauge is `±1`
  have hd10 : (getA b 0).d1 = 1 := (hb.wf.shape 0 hL).2.1.trans hb.q0
  have hWL : IsU 1 (W H.A.length) := by
    have := (key 0 hL).1
    rw [hd10] at this
    exact this
  have hr : W H.A.length 0 0 * star (W H.A.length 0 0) = 1 := by
    have := hWL.row 0 0 Nat.one_pos Nat.one_pos
    rw [Finset.sum_range_one, if_pos rfl] at this
    exact this
  have hTr : T.f 0 0 0 = W H.A.length 0 0 := by rw [hT, hlenr]
  rw [hTr] at hnrm eT
  have hcases := unit_re_cases hr hnrm hn1
  have hten0 : GT3 idU (W (H.A.length - 1)) (getA b 0) (getA t0 0) := by
    refine gT3_sign_fix (key 0 hL).2 hd10 ?_
    rw [eT 0 hL]
    rcases hcases with ⟨hneg, hw⟩ | ⟨hpos, hw⟩
    · left
      refine ⟨hw, ?_⟩
      rw [if_pos hneg]
      have := negLast_getD_last As emptyT3 (by intro e; rw [e] at hlen; simp at hlen; omega)
      rw [hlen] at this
      exact this
    · right
      refine ⟨hw, ?_⟩
      rw [if_neg hpos]
  refine ⟨hcan0, hn1, fun m => if m = 0 then idU else W (H.A.length - m), ?_⟩
  have hten : ∀ m, m < H.A.length → GT3 (if m = 0 then idU else W (H.A.length - m))
      (if m + 1 = 0 then idU else W (H.A.length - (m + 1))) (getA b m) (getA t0 m) := by
    intro m hm
    rw [if_neg (Nat.succ_ne_zero m)]
    by_cases hm0 : m = 0
    · subst hm0
      rw [if_pos rfl]
      exact hten0
    · rw [if_neg hm0, eT' m (by omega) hm]
      exact (key m hm).2
  refine ⟨?_, ?_, ?_, ?_, hten⟩
  · intro m hm
    by_cases hm0 : m = 0
    · rw [if_pos hm0]; exact isU_id _
    · rw [if_neg hm0]
      by_cases hmL : m = H.A.length
      · rw [hmL, Nat.sub_self, hW0]; exact isU_id _
      · have := (key m (by omega)).1
        rw [(hb.wf.shape m (by omega)).2.1] at this
        exact this
  · show (if (0 : Nat) = 0 then idU else W (H.A.length - 0)) 0 0 = (1 : 𝕜)
    rw [if_pos rfl]
    unfold idU
    rw [if_pos rfl]
  · show (if H.A.length = 0 then idU else W (H.A.length - H.A.length)) 0 0 = (1 : 𝕜)
    rw [if_neg (by omega), Nat.sub_self, hW0]
    unfold idU
    rw [if_pos rfl]
  · intro m hm
    by_cases hmL : m = H.A.length
    · rw [hmL, hcan0.qL, hb.qL]
    · have hm' : m < H.A.length := by omega
      rw [← (hcan0.wf.shape m hm').2.1, ← (hb.wf.shape m hm').2.1]
      exact (hten m hm').d1

/-- **The prologue on an already right-canonical, normalised sweep state is a pure unitary gauge change.**

`b` satisfies the sweep invariant with centre `0` (all tensors right of site `0` are right isometries) and holds a state of
norm one (`hnorm`).  The prologue of `integrate_local_singlesite` applied to the MPS written back from `b` right-orthonormalises
it again.  If every block QR of this orthonormalisation keeps the bond dimension (`hreg : OrthoRightRegular`, the regularity
hypothesis; the full rank of the triangular factors is derived from it), then the returned sweep state `t0` is `b` in another
gauge: `t0.A[m] = (U m)ᴴ · b.A[m] · U (m+1)` with unitaries `U m` on the bonds, `U 0 = U L = 1`. -/
theorem prologue_gauge (ctx : SweepCtx k H qd numiter) {ψ : MPS 𝕜} (hqd : ψ.qd = qd) {b t0 : Sweep 𝕜}
    (hb : Canon H qd b 0) (hadm : Admissible (toMPS ψ b)) {nrm2 : ℝ}
    (hp : prologue k H (toMPS ψ b) = .ok (t0, nrm2)) (hreg : OrthoRightRegular k.dqr (toMPS ψ b))
    (hnorm : normSq (cur qd b) qd.length = 1) :
    GaugeEq H qd b t0 0 := by
  obtain ⟨h1, _, h3⟩ := prologue_gauge_core ctx hqd hb hadm hp hreg hnorm
  exact ⟨hb, h1, h3⟩

/-- under the hypotheses of `prologue_gauge` the prologue reports the norm one -/
theorem prologue_gauge_norm (ctx : SweepCtx k H qd numiter) {ψ : MPS 𝕜} (hqd : ψ.qd = qd) {b t0 : Sweep 𝕜}
    (hb : Canon H qd b 0) (hadm : Admissible (toMPS ψ b)) {nrm2 : ℝ}
    (hp : prologue k H (toMPS ψ b) = .ok (t0, nrm2)) (hreg : OrthoRightRegular k.dqr (toMPS ψ b))
    (hnorm : normSq (cur qd b) qd.length = 1) : nrm2 = 1 :=
  (prologue_gauge_core ctx hqd hb hadm hp hreg hnorm).2.1

end Ptn.Evo

import PtnModel.Model.MPSSvd
import PtnModel.Proofs.CompressSplit
import PtnModel.Proofs.CompressSweep
/-!
# The local SVD steps of `MPS.compress` provide `StepSem`

* `SvdKernel k`        : the kernel contracts of C13 (`SVDContract`, `NormContract`, `SortContract` for all inputs);
* `SplitSem`           : everything C13 needs about one successful `splitMatrixSvd` on a non-zero matrix;
* `LocL`, `locL_sem`   : a successful `localOrthoLeftSvd` is a `StepSem`;
* `LocR`, `locR_sem`   : a successful `localOrthoRightSvd` is a `StepSem` of the mirrored tensors.
-/
set_option linter.unusedSectionVars false
set_option linter.unusedVariables false
namespace Ptn.Compress
open Ptn.BondOps Ptn.Ortho Ptn.Env Finset

variable {𝕜 : Type} [RCLike 𝕜] [DecidableEq 𝕜]
attribute [local instance] rcRealLike

/-- Contracts of the dense kernels used by `compress`: `np.linalg.svd(·, full_matrices=False)` (C12),
`np.linalg.norm` of a real vector and `np.argsort` (C12, truncation rule), for all inputs. -/
structure SvdKernel (k : MPS.SvdKernels 𝕜 ℝ) : Prop where
  svd : C12.SVDContract (ιR 𝕜) k.dsvd
  norm : ∀ s, C12.NormContract s (k.dnorm s)
  sort : ∀ keys, C12.SortContract keys (k.dargsort keys)

/-- what C13 needs about one successful split of a non-zero matrix -/
structure SplitSem (tol : ℝ) (M : Mat 𝕜) (q0 q1 : List Int) (u : Mat 𝕜) (s : List ℝ) (v : Mat 𝕜) (q : List Int) :
    Prop where
  um : u.m = M.m
  un : u.n = s.length
  vm : v.m = s.length
  vn : v.n = M.n
  ql : q.length = s.length
  le : s.length ≤ min M.m M.n
  pos : 0 < s.length
  sparseU : Sparse u q0 q
  sparseV : Sparse v q q1
  isoU : ∀ t t', t < s.length → t' < s.length →
    ∑ i ∈ range M.m, star (u.f i t) * u.f i t' = if t = t' then 1 else 0
  isoV : ∀ t t', t < s.length → t' < s.length →
    ∑ j ∈ range M.n, v.f t j * star (v.f t' j) = if t = t' then 1 else 0
  wle : sqSum s ≤ frobM M
  wge : (1 - tol) * frobM M ≤ sqSum s
  exact : tol = 0 → ∀ i j, i < M.m → j < M.n → tripleF (ιR 𝕜) u s v i j = M.f i j
  projU : ∀ t j, t < s.length → j < M.n →
    ∑ i ∈ range M.m, star (u.f i t) * M.f i j = (s.getD t 0 : 𝕜) * v.f t j
  projV : ∀ t i, t < s.length → i < M.m →
    ∑ j ∈ range M.n, M.f i j * star (v.f t j) = u.f i t * (s.getD t 0 : 𝕜)

theorem splitSem_of_run {k : MPS.SvdKernels 𝕜 ℝ} (hk : SvdKernel k) {tol : ℝ} (htol : 0 ≤ tol) (htol1 : tol < 1)
    {M : Mat 𝕜} {q0 q1 : List Int} (H : QRInput M q0 q1) (hpos : 0 < frobM M)
    {u v : Mat 𝕜} {s : List ℝ} {q : List Int}
    (hrun : splitMatrixSvd k.dsvd k.dnorm k.dargsort M q0 q1 tol = .ok (u, s, v, q)) :
    SplitSem tol M q0 q1 u s v q := by
  have hc := hk.svd.on M q0 q1
  have hnz := anyNZ_of_frob_pos hpos
  have hd := C12.split_dims k.dnorm k.dargsort tol hc.shape H.hq0 H.hq1 H.hm H.hn H.hsp hrun
  have hw := split_weight k.dnorm k.dargsort tol hc H (hk.norm _) (hk.sort _) htol hpos hrun
  have hspos : 0 < s.length := by
    rcases Nat.eq_zero_or_pos s.length with h0 | h
    · have : s = [] := List.length_eq_zero_iff.1 h0
      have h2 := hw.2
      rw [this] at h2
      have : 0 < (1 - tol) * frobM M := mul_pos (by linarith) hpos
      simp [sqSum] at h2
      linarith
    · exact h
  refine ⟨hd.1, hd.2.1, hd.2.2.1, hd.2.2.2.1, hd.2.2.2.2.1, hd.2.2.2.2.2.1, hspos,
    C12.split_sparse_u k.dnorm k.dargsort tol hc.shape H.hq0 H.hq1 H.hm H.hn H.hsp hrun,
    C12.split_sparse_v k.dnorm k.dargsort tol hc.shape H.hq0 H.hq1 H.hm H.hn H.hsp hrun,
    ?_, ?_, hw.1, hw.2, ?_,
    fun t j ht hj => (split_proj k.dnorm k.dargsort tol hc H hrun ht).1 j hj,
    fun t i ht hi => (split_proj k.dnorm k.dargsort tol hc H hrun ht).2 i hi⟩
  · intro t t' ht ht'
    exact C12.split_isometry_u k.dnorm k.dargsort tol hc H.hq0 H.hq1 H.hm H.hn H.hsp hrun
      (by rw [hd.2.1]; exact ht) (by rw [hd.2.1]; exact ht')
  · intro t t' ht ht'
    exact C12.split_isometry_v k.dnorm k.dargsort tol hc H.hq0 H.hq1 H.hm H.hn H.hsp hrun hnz
      (by rw [hd.2.2.1]; exact ht) (by rw [hd.2.2.1]; exact ht')
  · intro h0 i j hi hj
    subst h0
    exact C12.split_tol0_exact k.dnorm k.dargsort hc H.hq0 H.hq1 H.hm H.hn H.hsp hrun (hk.norm _) (hk.sort _) hi hj

/-- a `K × n` matrix with unit rows, rows scaled by reals `c_p`: the squared Frobenius norm is `Σ c_p²` -/
theorem frobM_scaled_rows (W : Mat 𝕜) (N : Nat → Nat → 𝕜) (s : List ℝ) (hm : W.m = s.length)
    (hN : ∀ p, p < s.length → ∑ j ∈ range W.n, N p j * star (N p j) = 1)
    (hW : ∀ p j, p < W.m → j < W.n → W.f p j = (s.getD p 0 : 𝕜) * N p j) : frobM W = sqSum s := by
  apply RCLike.ofReal_injective (K := 𝕜)
  rw [frobM_cast, sqSum, ← sum_range_getD, RCLike.ofReal_sum, hm]
  refine sum_congr rfl fun p hp => ?_
  have hp' := mem_range.1 hp
  have e : ∀ j ∈ range W.n, star (W.f p j) * W.f p j =
      ((s.getD p 0 * s.getD p 0 : ℝ) : 𝕜) * (N p j * star (N p j)) := by
    intro j hj
    rw [hW p j (by rw [hm]; exact hp') (mem_range.1 hj), star_mul', RCLike.ofReal_mul]
    have : star ((s.getD p 0 : ℝ) : 𝕜) = ((s.getD p 0 : ℝ) : 𝕜) := RCLike.conj_ofReal _
    rw [this]; ring
  rw [sum_congr rfl e, ← mul_sum, hN p hp', mul_one]

/-! ## the left step -/

/-- `diag(σ) · V` (`sigma[:, None] * V`), with the model's index formula -/
def svMat (s : List ℝ) (V : Mat 𝕜) : Mat 𝕜 :=
  ⟨V.m, V.n, fun p b => RealLike.ofReal (s.toArray.getD p 0) * V.f p b⟩

theorem svMat_f (s : List ℝ) (V : Mat 𝕜) (p b : Nat) : (svMat s V).f p b = (s.getD p 0 : 𝕜) * V.f p b := by
  show RealLike.ofReal (s.toArray.getD p 0) * V.f p b = _
  rw [toArray_getD]
  rfl

theorem localLeftSvd_eq (k : MPS.SvdKernels 𝕜 ℝ) (A Anext : T3 𝕜) (qd qL qR : List Int) (tol : ℝ) :
    MPS.localOrthoLeftSvd k A Anext qd qL qR tol =
      match splitMatrixSvd k.dsvd k.dnorm k.dargsort A.flattenLeft.tab (QN.flatten2 qd qL) qR tol with
      | .error e => .error e
      | .ok (U, s, V, qb) =>
        if V.n ≠ Anext.d1 then .error .value
        else .ok ((T3.ofFlattenLeft U A.d0 A.d1).tab, pushR (svMat s V).tab Anext, qb) := by
  unfold MPS.localOrthoLeftSvd
  dsimp only
  cases h : splitMatrixSvd k.dsvd k.dnorm k.dargsort A.flattenLeft.tab (QN.flatten2 qd qL) qR tol with
  | error e => rfl
  | ok r =>
    obtain ⟨U, s, V, qb⟩ := r
    by_cases hc : V.n ≠ Anext.d1
    · simp only [bind, Except.bind]; rfl
    · simp only [bind, Except.bind]; rfl

/-- the Frobenius norm of the matricization -/
theorem frobM_flattenLeft (A : T3 𝕜) : frobM A.flattenLeft.tab = frobT A := by
  rw [frobM_congr (M := A.flattenLeft.tab) (N := A.flattenLeft) rfl rfl (fun i j hi hj => Mat.tab_f _ hi hj)]
  unfold frobM frobT
  show ∑ i ∈ range (A.d0 * A.d1), ∑ j ∈ range A.d2, ‖A.f (i / A.d1) (i % A.d1) j‖ ^ 2 = _
  rw [sum_fused]
  refine sum_congr rfl fun s _ => sum_congr rfl fun a ha => ?_
  rw [fused_div (mem_range.1 ha), fused_mod (mem_range.1 ha)]

/-- replacing the matrix by its memoised copy does not change the pushed tensor -/
theorem rawPush_tab_eqv (W : Mat 𝕜) (X : T3 𝕜) : T3Eqv (rawPush W.tab X) (rawPush W X) :=
  ⟨rfl, rfl, rfl, fun s p c _ hp _ => by
    show ∑ b ∈ range W.n, W.tab.f p b * X.f s b c = ∑ b ∈ range W.n, W.f p b * X.f s b c
    refine sum_congr rfl fun b hb => ?_
    rw [Mat.tab_f W hp (mem_range.1 hb)]⟩

/-- the local relation of the left sweep -/
def LocL (k : MPS.SvdKernels 𝕜 ℝ) (tol : ℝ) (qd : List Int) (A Anext : T3 𝕜) (qL qR : List Int)
    (A' Anext' : T3 𝕜) (qb : List Int) : Prop :=
  MPS.localOrthoLeftSvd k A Anext qd qL qR tol = .ok (A', Anext', qb)

theorem locL_sem {k : MPS.SvdKernels 𝕜 ℝ} (hk : SvdKernel k) {tol : ℝ} (htol : 0 ≤ tol) (htol1 : tol < 1)
    {qd : List Int} (hd : 0 < qd.length) {A Anext : T3 𝕜} {qL qR : List Int} {A' Anext' : T3 𝕜} {qb : List Int}
    (h : LocL k tol qd A Anext qL qR A' Anext' qb) (hA : T3Wf A qd qL qR) (hL : 0 < qL.length)
    (hR : 0 < qR.length) (hN : Anext.d1 = qR.length) (hpos : 0 < frobT A) :
    StepSem tol A Anext A' Anext' qd qL qR qb := by
  unfold LocL at h
  rw [localLeftSvd_eq] at h
  cases hq : splitMatrixSvd k.dsvd k.dnorm k.dargsort A.flattenLeft.tab (QN.flatten2 qd qL) qR tol with
  | error e => rw [hq] at h; cases h
  | ok r =>
    obtain ⟨U, s, V, qb'⟩ := r
    rw [hq] at h
    dsimp only at h
    by_cases hc : V.n ≠ Anext.d1
    · rw [if_pos hc] at h; cases h
    · rw [if_neg hc] at h
      injection h with h
      injection h with h1 h
      injection h with h2 h3
      subst h3 h1 h2
      have hVn : V.n = Anext.d1 := not_not.1 hc
      have H := qrInput_flattenLeft hA hd hL hR
      have S := splitSem_of_run hk htol htol1 H (by rw [frobM_flattenLeft]; exact hpos) hq
      have hMm : A.flattenLeft.tab.m = A.d0 * A.d1 := rfl
      have hMn : A.flattenLeft.tab.n = A.d2 := rfl
      have hm : U.m = qd.length * qL.length := by rw [S.um, hMm, hA.d0, hA.d1]
      have hW : T3Eqv (pushR (svMat s V).tab Anext) (rawPush (svMat s V) Anext) :=
        (pushR_eqv _ _).trans (rawPush_tab_eqv _ _)
      have hFW : frobM (svMat s V) = sqSum s := by
        refine frobM_scaled_rows (svMat s V) V.f s S.vm ?_ (fun p j _ _ => svMat_f s V p j)
        intro p hp
        have := S.isoV p p hp hp
        rw [if_pos rfl] at this
        rw [← this]
        show ∑ j ∈ range V.n, _ = _
        rw [S.vn]
      refine ⟨⟨by rw [S.ql]; exact S.pos, ?_, ?_, rfl, ?_, rfl, ?_⟩, ?_, svMat s V, ⟨?_, ?_, ?_, hW, ?_, ?_, ?_, ?_⟩⟩
      · have := S.le
        rw [hMm, hMn, hA.d0, hA.d1, hA.d2, ← S.ql] at this
        exact this
      · refine T3Wf.congr (T3Eqv.tab _) ?_
        rw [hA.d0, hA.d1]
        exact sparseT3_ofFlattenLeft hm (S.un.trans S.ql.symm) S.sparseU
      · show V.m = qb'.length
        rw [S.vm, S.ql]
      · rw [← hVn, S.vn]; exact hMn.symm
      · refine LeftIso.congr (T3Eqv.tab _) ?_
        intro p p' hp hp'
        have hp1 : p < s.length := by rw [← S.un]; exact hp
        have hp1' : p' < s.length := by rw [← S.un]; exact hp'
        rw [← S.isoU p p' hp1 hp1']
        show _ = ∑ i ∈ range (A.d0 * A.d1), _
        rw [sum_fused]
        rfl
      · show V.m = qb'.length
        rw [S.vm, S.ql]
      · show V.n = qR.length
        rw [S.vn, hMn, hA.d2]
      · intro p b hp hb hne
        have hp' : p < V.m := hp
        have hb' : b < V.n := hb
        refine S.sparseV p b hp' hb' ?_
        intro h0
        rw [svMat_f, h0, mul_zero] at hne
        exact hne rfl
      · rw [hFW, ← frobM_flattenLeft]; exact S.wle
      · rw [hFW, ← frobM_flattenLeft]; exact S.wge
      · intro h0 σ a b hσ ha hb
        have hr : σ * A.d1 + a < A.d0 * A.d1 := fused_lt hσ ha
        have := S.exact h0 (σ * A.d1 + a) b hr hb
        rw [Mat.tab_f A.flattenLeft hr hb] at this
        have e : A.flattenLeft.f (σ * A.d1 + a) b = A.f σ a b := by
          show A.f ((σ * A.d1 + a) / A.d1) ((σ * A.d1 + a) % A.d1) b = _
          rw [fused_div ha, fused_mod ha]
        rw [e] at this
        rw [← this]
        unfold tripleF
        rw [S.un, S.ql]
        refine sum_congr rfl fun p hp => ?_
        have hp' : p < U.n := by rw [S.un]; exact mem_range.1 hp
        rw [t3_tab_f (T3.ofFlattenLeft U A.d0 A.d1) hσ ha hp', svMat_f, mul_assoc]
        rfl
      · intro p b hp hb
        have hp' : p < s.length := by rw [← S.ql]; exact hp
        have hpU : p < U.n := by rw [S.un]; exact hp'
        have := S.projU p b hp' hb
        rw [svMat_f, ← this]
        show _ = ∑ i ∈ range (A.d0 * A.d1), _
        rw [sum_fused]
        refine sum_congr rfl fun σ hσ => sum_congr rfl fun a ha => ?_
        have hr : σ * A.d1 + a < A.d0 * A.d1 := fused_lt (mem_range.1 hσ) (mem_range.1 ha)
        rw [t3_tab_f (T3.ofFlattenLeft U A.d0 A.d1) (mem_range.1 hσ) (mem_range.1 ha) hpU,
          Mat.tab_f A.flattenLeft hr hb]
        show _ = star (U.f (σ * A.d1 + a) p) * A.f ((σ * A.d1 + a) / A.d1) ((σ * A.d1 + a) % A.d1) b
        rw [fused_div (mem_range.1 ha), fused_mod (mem_range.1 ha)]
        rfl

/-! ## the right step, in mirrored coordinates -/

/-- `U · diag(σ)` (`U * sigma`), with the model's index formula -/
def usMat (s : List ℝ) (U : Mat 𝕜) : Mat 𝕜 :=
  ⟨U.m, U.n, fun b p => U.f b p * RealLike.ofReal (s.toArray.getD p 0)⟩

theorem usMat_f (s : List ℝ) (U : Mat 𝕜) (b p : Nat) : (usMat s U).f b p = U.f b p * (s.getD p 0 : 𝕜) := by
  show U.f b p * RealLike.ofReal (s.toArray.getD p 0) = _
  rw [toArray_getD]
  rfl

/-- `np.tensordot(Aprev, U * sigma, (2, 0))` -/
def pushUS (s : List ℝ) (U : Mat 𝕜) (Aprev : T3 𝕜) : T3 𝕜 :=
  (⟨Aprev.d0, Aprev.d1, U.n, fun σ a p => sumRange U.m fun b => Aprev.f σ a b * (usMat s U).tab.f b p⟩ : T3 𝕜).tab

theorem localRightSvd_eq (k : MPS.SvdKernels 𝕜 ℝ) (A Aprev : T3 𝕜) (qd qL qR : List Int) (tol : ℝ) :
    MPS.localOrthoRightSvd k A Aprev qd qL qR tol =
      match splitMatrixSvd k.dsvd k.dnorm k.dargsort A.swap01.flattenRight.tab qL
          (QN.flatten2 (QN.neg qd) qR) tol with
      | .error e => .error e
      | .ok (U, s, V, qb) =>
        if U.m ≠ Aprev.d2 then .error .value
        else .ok ((T3.ofFlattenRight V A.d0 A.d2).swap01.tab, pushUS s U Aprev, qb) := by
  unfold MPS.localOrthoRightSvd
  dsimp only
  cases h : splitMatrixSvd k.dsvd k.dnorm k.dargsort A.swap01.flattenRight.tab qL
      (QN.flatten2 (QN.neg qd) qR) tol with
  | error e => rfl
  | ok r =>
    obtain ⟨U, s, V, qb⟩ := r
    by_cases hc : U.m ≠ Aprev.d2
    · simp only [bind, Except.bind]; rfl
    · simp only [bind, Except.bind]; rfl

/-- the local relation of the right sweep, written for the mirrored tensors (bond axes swapped, charges negated) -/
def LocR (k : MPS.SvdKernels 𝕜 ℝ) (tol : ℝ) (qd : List Int) (B Bn : T3 𝕜) (qL qR : List Int)
    (B' Bn' : T3 𝕜) (qb : List Int) : Prop :=
  MPS.localOrthoRightSvd k B.swap12 Bn.swap12 qd (QN.neg qR) (QN.neg qL) tol = .ok (B'.swap12, Bn'.swap12, QN.neg qb)

/-- the matrix handed to the split in a right step is the transpose of the matricization of the mirrored tensor -/
theorem rightMat_f (B : T3 𝕜) {r c : Nat} (hr : r < B.d2) (hc : c < B.d0 * B.d1) :
    B.swap12.swap01.flattenRight.tab.f r c = B.f (c / B.d1) (c % B.d1) r :=
  Mat.tab_f B.swap12.swap01.flattenRight hr hc

theorem frobM_rightMat (B : T3 𝕜) : frobM B.swap12.swap01.flattenRight.tab = frobT B := by
  rw [← frobM_flattenLeft]
  unfold frobM
  show ∑ r ∈ range B.d2, ∑ c ∈ range (B.d0 * B.d1), ‖B.swap12.swap01.flattenRight.tab.f r c‖ ^ 2 =
    ∑ c ∈ range (B.d0 * B.d1), ∑ r ∈ range B.d2, ‖B.flattenLeft.tab.f c r‖ ^ 2
  rw [sum_comm]
  refine sum_congr rfl fun c hc => sum_congr rfl fun r hr => ?_
  rw [rightMat_f B (mem_range.1 hr) (mem_range.1 hc), Mat.tab_f B.flattenLeft (mem_range.1 hc) (mem_range.1 hr)]
  rfl

/-- the input of the split of a right step satisfies the hypotheses of C12 -/
theorem qrInput_rightMat {B : T3 𝕜} {qd qL qR : List Int} (hB : T3Wf B qd qL qR)
    (hd : 0 < qd.length) (hL : 0 < qL.length) (hR : 0 < qR.length) :
    QRInput B.swap12.swap01.flattenRight.tab (QN.neg qR) (QN.flatten2 (QN.neg qd) (QN.neg qL)) := by
  refine ⟨?_, ?_, ?_, ?_, ?_⟩
  · rw [neg_length, ← hB.d2]; rfl
  · rw [flatten2_length, neg_length, neg_length, ← hB.d0, ← hB.d1]; rfl
  · show 0 < B.d2
    rw [hB.d2]; exact hR
  · show 0 < B.d0 * B.d1
    rw [hB.d0, hB.d1]; exact Nat.mul_pos hd hL
  · intro r c hr hc hne
    have hr' : r < B.d2 := hr
    have hc' : c < B.d0 * B.d1 := hc
    rw [rightMat_f B hr' hc'] at hne
    have h1 := div_lt_of_lt_mul hc'
    have h2 := mod_lt_of_lt_mul hc'
    have := hB.sp _ _ _ h1 h2 hr' hne
    have e : c = c / B.d1 * (QN.neg qL).length + c % B.d1 := by
      rw [neg_length, ← hB.d1, Nat.mul_comm]; exact (Nat.div_add_mod c B.d1).symm
    rw [e, flatten2_getD _ _ (by rw [neg_length, ← hB.d0]; exact h1) (by rw [neg_length, ← hB.d1]; exact h2),
      neg_getD, neg_getD, neg_getD]
    omega

/-- `(U · diag σ)ᵀ`, the matrix pushed into the previous tensor (mirrored coordinates) -/
def usT (s : List ℝ) (U : Mat 𝕜) : Mat 𝕜 := ⟨U.n, U.m, fun p a => U.f a p * (s.getD p 0 : 𝕜)⟩

theorem pushUS_eqv (s : List ℝ) (U : Mat 𝕜) (Bn : T3 𝕜) :
    T3Eqv (pushUS s U Bn.swap12).swap12 (rawPush (usT s U) Bn) :=
  ⟨rfl, rfl, rfl, fun σ p a hσ hp ha => by
    have hσ' : σ < Bn.d0 := hσ
    have hp' : p < U.n := hp
    have ha' : a < Bn.d2 := ha
    show (pushUS s U Bn.swap12).f σ a p = ∑ b ∈ range U.m, (U.f b p * (s.getD p 0 : 𝕜)) * Bn.f σ b a
    unfold pushUS
    rw [t3_tab_f (A := ⟨Bn.swap12.d0, Bn.swap12.d1, U.n,
      fun σ a p => sumRange U.m fun b => Bn.swap12.f σ a b * (usMat s U).tab.f b p⟩) hσ' ha' hp']
    show sumRange U.m (fun b => Bn.f σ b a * (usMat s U).tab.f b p) = _
    rw [sumRange_eq]
    refine sum_congr rfl fun b hb => ?_
    rw [Mat.tab_f (usMat s U) (mem_range.1 hb) hp', usMat_f, mul_comm]⟩

theorem locR_sem {k : MPS.SvdKernels 𝕜 ℝ} (hk : SvdKernel k) {tol : ℝ} (htol : 0 ≤ tol) (htol1 : tol < 1)
    {qd : List Int} (hd : 0 < qd.length) {B Bn : T3 𝕜} {qL qR : List Int} {B' Bn' : T3 𝕜} {qb : List Int}
    (h : LocR k tol qd B Bn qL qR B' Bn' qb) (hB : T3Wf B qd qL qR) (hL : 0 < qL.length)
    (hR : 0 < qR.length) (hN : Bn.d1 = qR.length) (hpos : 0 < frobT B) :
    StepSem tol B Bn B' Bn' qd qL qR qb := by
  unfold LocR at h
  rw [localRightSvd_eq] at h
  cases hq : splitMatrixSvd k.dsvd k.dnorm k.dargsort B.swap12.swap01.flattenRight.tab (QN.neg qR)
      (QN.flatten2 (QN.neg qd) (QN.neg qL)) tol with
  | error e => rw [hq] at h; cases h
  | ok r =>
    obtain ⟨U, s, V, qb'⟩ := r
    rw [hq] at h
    dsimp only at h
    by_cases hc : U.m ≠ Bn.swap12.d2
    · rw [if_pos hc] at h; cases h
    · rw [if_neg hc] at h
      injection h with h
      injection h with h1 h
      injection h with h2 h3
      have hUm : U.m = Bn.d1 := not_not.1 hc
      have hB' : B' = ((T3.ofFlattenRight V B.d0 B.d1).swap01.tab).swap12 := (congrArg T3.swap12 h1).symm
      have hBn' : Bn' = (pushUS s U Bn.swap12).swap12 := (congrArg T3.swap12 h2).symm
      have hqb : qb = QN.neg qb' := by rw [h3, neg_neg]
      have H := qrInput_rightMat hB hd hL hR
      have S := splitSem_of_run hk htol htol1 H (by rw [frobM_rightMat]; exact hpos) hq
      have hMm : B.swap12.swap01.flattenRight.tab.m = B.d2 := rfl
      have hMn : B.swap12.swap01.flattenRight.tab.n = B.d0 * B.d1 := rfl
      have hlen : qb.length = s.length := by rw [hqb, neg_length, S.ql]
      have eB' : T3Eqv B' ⟨B.d0, B.d1, V.m, fun σ b p => V.f p (σ * B.d1 + b)⟩ := by
        rw [hB']
        exact ⟨rfl, rfl, rfl, fun σ b p hσ hb hp =>
          t3_tab_f (A := (T3.ofFlattenRight V B.d0 B.d1).swap01) hσ hp hb⟩
      have eBn' : T3Eqv Bn' (rawPush (usT s U) Bn) := by rw [hBn']; exact pushUS_eqv s U Bn
      have hFW : frobM (usT s U) = sqSum s := by
        refine frobM_scaled_rows (usT s U) (fun p a => U.f a p) s S.un ?_ (fun p j _ _ => mul_comm _ _)
        intro p hp
        have := S.isoU p p hp hp
        rw [if_pos rfl] at this
        rw [← this]
        show ∑ j ∈ range U.m, _ = _
        rw [S.um]
        exact sum_congr rfl fun j _ => mul_comm _ _
      refine ⟨⟨by rw [hlen]; exact S.pos, ?_, ?_, eBn'.d0, ?_, eBn'.d2, ?_⟩, ?_, usT s U, ⟨?_, ?_, ?_, eBn', ?_, ?_, ?_, ?_⟩⟩
      · have := S.le
        rw [hMm, hMn, hB.d0, hB.d1, hB.d2, ← hlen, Nat.min_comm] at this
        exact this
      · refine T3Wf.congr eB' ⟨hB.d0, hB.d1, ?_, ?_⟩
        · show V.m = qb.length
          rw [S.vm, hlen]
        · intro σ b p hσ hb hp hne
          have hσ' : σ < B.d0 := hσ
          have hb' : b < B.d1 := hb
          have hp' : p < V.m := hp
          have hne' : V.f p (σ * B.d1 + b) ≠ 0 := hne
          have := S.sparseV p (σ * B.d1 + b) hp' (by rw [S.vn, hMn]; exact fused_lt hσ' hb') hne'
          have e : σ * B.d1 + b = σ * (QN.neg qL).length + b := by rw [neg_length, hB.d1]
          rw [e, flatten2_getD _ _ (by rw [neg_length, ← hB.d0]; exact hσ') (by rw [neg_length, ← hB.d1]; exact hb'),
            neg_getD, neg_getD] at this
          rw [hqb, neg_getD]
          omega
      · rw [eBn'.d1]
        show U.n = qb.length
        rw [S.un, hlen]
      · rw [← hUm, S.um]; exact hMm.symm
      · refine LeftIso.congr eB' ?_
        intro p p' hp hp'
        have hp1 : p < s.length := by rw [← S.vm]; exact hp
        have hp1' : p' < s.length := by rw [← S.vm]; exact hp'
        have := S.isoV p' p hp1' hp1
        rw [hMn, sum_fused] at this
        show ∑ σ ∈ range B.d0, ∑ b ∈ range B.d1, star (V.f p (σ * B.d1 + b)) * V.f p' (σ * B.d1 + b) = _
        rw [show (if p = p' then (1 : 𝕜) else 0) = if p' = p then 1 else 0 by simp only [eq_comm], ← this]
        exact sum_congr rfl fun σ _ => sum_congr rfl fun b _ => mul_comm _ _
      · show U.n = qb.length
        rw [S.un, hlen]
      · show U.m = qR.length
        rw [S.um, hMm, hB.d2]
      · intro p a hp ha hne
        have hp' : p < U.n := hp
        have ha' : a < U.m := ha
        have hne' : U.f a p * (s.getD p 0 : 𝕜) ≠ 0 := hne
        have := S.sparseU a p ha' hp' (fun h0 => hne' (by rw [h0, zero_mul]))
        rw [neg_getD] at this
        rw [hqb, neg_getD]
        omega
      · rw [hFW, ← frobM_rightMat]; exact S.wle
      · rw [hFW, ← frobM_rightMat]; exact S.wge
      · intro h0 σ b a hσ hb ha
        have hc' : σ * B.d1 + b < B.d0 * B.d1 := fused_lt hσ hb
        have := S.exact h0 a (σ * B.d1 + b) ha hc'
        rw [rightMat_f B ha hc', fused_div hb, fused_mod hb] at this
        rw [← this]
        unfold tripleF
        rw [S.un, hlen]
        refine sum_congr rfl fun p hp => ?_
        have hp' : p < V.m := by rw [S.vm]; exact mem_range.1 hp
        rw [eB'.f σ b p (by rw [eB'.d0]; exact hσ) (by rw [eB'.d1]; exact hb) (by rw [eB'.d2]; exact hp')]
        show V.f p (σ * B.d1 + b) * (U.f a p * (s.getD p 0 : 𝕜)) = U.f a p * (ιR 𝕜) (s.getD p 0) * V.f p (σ * B.d1 + b)
        rw [ιR_apply]; ring
      · intro p a hp ha
        have hp' : p < s.length := by rw [← hlen]; exact hp
        have hpV : p < V.m := by rw [S.vm]; exact hp'
        have := S.projV p a hp' ha
        show _ = U.f a p * (s.getD p 0 : 𝕜)
        rw [← this, hMn, sum_fused]
        refine sum_congr rfl fun σ hσ => sum_congr rfl fun b hb => ?_
        have hc' : σ * B.d1 + b < B.d0 * B.d1 := fused_lt (mem_range.1 hσ) (mem_range.1 hb)
        rw [eB'.f σ b p (by rw [eB'.d0]; exact mem_range.1 hσ) (by rw [eB'.d1]; exact mem_range.1 hb)
          (by rw [eB'.d2]; exact hpV), rightMat_f B ha hc', fused_div (mem_range.1 hb), fused_mod (mem_range.1 hb)]
        exact mul_comm _ _

end Ptn.Compress

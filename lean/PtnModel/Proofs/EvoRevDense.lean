import PtnModel.Proofs.EvoRevDefs
/-!
# Gauge-related sweep states hold the same dense objects

For sweep states `s`, `t` with `GaugeRel H U s t` (tensors of `t` = tensors of `s` conjugated by the bond unitaries `U m`):

* `pmat_gauge`       : `U_0 · P' = P · U_n` for the products `P`, `P'` of the site matrices along a chain;
* `gauge_prefix`, `gauge_suffix`, `gauge_suffix_inv`, `gauge_ampPrefix`, `gauge_ampSuffix` :
                       prefix amplitudes pick up `U_k` on the right, suffix amplitudes `U_kᴴ` on the left;
* `gaugeRel_amp`     : both states have the same dense vector;
* `gaugeRel_bl`, `gaugeRel_br` : the environment blocks of canonical states are related by `GBL (U j)`, `GBR (U (j+1))`;
* `gaugeRel_refl`    : the identity gauge.
-/
set_option linter.unusedSectionVars false
set_option linter.unusedVariables false

namespace Ptn.Evo
open Ptn Ptn.Krylov Ptn.Dense Ptn.BondOps Ptn.Ortho Ptn.Env Finset

variable {𝕜 : Type} [RCLike 𝕜] [DecidableEq 𝕜]
local notation "conj" => starRingEnd 𝕜

/-! ## algebra -/

private theorem alg_gt3 (Sa Sp Sb : Finset Nat) (u v : Nat → 𝕜) (w : Nat → Nat → 𝕜) (F : Nat → Nat → 𝕜) :
    ∑ a' ∈ Sa, u a' * ∑ p ∈ Sp, ∑ b ∈ Sb, star (w p a') * F p b * v b =
    ∑ p ∈ Sp, ∑ b ∈ Sb, (∑ a' ∈ Sa, u a' * star (w p a')) * F p b * v b := by
  simp only [Finset.sum_mul, Finset.mul_sum]
  sum_pull Sp
  sum_pull Sb
  sum_pull Sa
  ring

/-- `Σ_{a'} Ul[a,a'] A'[s,a',x] = Σ_b A[s,a,b] Ur[b,x]` -/
theorem gt3_conv {Ul Ur : Nat → Nat → 𝕜} {A A' : T3 𝕜} (h : GT3 Ul Ur A A') (hu : IsU A.d1 Ul) {s a x : Nat}
    (hs : s < A.d0) (ha : a < A.d1) (hx : x < A.d2) :
    ∑ a' ∈ range A.d1, Ul a a' * A'.f s a' x = ∑ b ∈ range A.d2, A.f s a b * Ur b x := by
  have e1 : ∀ a' ∈ range A.d1, Ul a a' * A'.f s a' x =
      Ul a a' * ∑ p ∈ range A.d1, ∑ b ∈ range A.d2, star (Ul p a') * A.f s p b * Ur b x := by
    intro a' ha'
    rw [h.f s a' x hs (mem_range.1 ha') hx]
  rw [sum_congr rfl e1, alg_gt3]
  have e2 : ∀ p ∈ range A.d1, ∑ b ∈ range A.d2, (∑ a' ∈ range A.d1, Ul a a' * star (Ul p a')) * A.f s p b * Ur b x =
      if a = p then ∑ b ∈ range A.d2, A.f s a b * Ur b x else 0 := by
    intro p hp
    rw [hu.row a p ha (mem_range.1 hp)]
    by_cases hap : a = p
    · subst hap
      rw [if_pos rfl, if_pos rfl]
      simp only [one_mul]
    · simp only [if_neg hap, zero_mul, sum_const_zero]
  rw [sum_congr rfl e2, sum_ite_eq (range A.d1) a, if_pos (mem_range.2 ha)]

private theorem alg_core (Sa Sx : Finset Nat) (u : Nat → 𝕜) (F : Nat → Nat → 𝕜) (P : Nat → 𝕜) :
    ∑ a' ∈ Sa, u a' * ∑ x ∈ Sx, F a' x * P x = ∑ x ∈ Sx, (∑ a' ∈ Sa, u a' * F a' x) * P x := by
  simp only [Finset.sum_mul, Finset.mul_sum]
  sum_pull Sx
  sum_pull Sa
  ring

private theorem alg_core2 (Sx Sb : Finset Nat) (F : Nat → 𝕜) (V : Nat → Nat → 𝕜) (P : Nat → 𝕜) :
    ∑ x ∈ Sx, (∑ b ∈ Sb, F b * V b x) * P x = ∑ b ∈ Sb, F b * ∑ x ∈ Sx, V b x * P x := by
  simp only [Finset.sum_mul, Finset.mul_sum]
  sum_pull Sb
  sum_pull Sx
  ring

private theorem alg_core3 (Sb Sy : Finset Nat) (F : Nat → 𝕜) (P : Nat → Nat → 𝕜) (V : Nat → 𝕜) :
    ∑ b ∈ Sb, F b * ∑ y ∈ Sy, P b y * V y = ∑ y ∈ Sy, (∑ b ∈ Sb, F b * P b y) * V y := by
  simp only [Finset.sum_mul, Finset.mul_sum]
  sum_pull Sy
  sum_pull Sb
  ring

/-- **`U · P' = P · U`** along a chain of gauge-transformed tensors -/
theorem pmat_gauge {ds : List Nat} {As As' : List (T3 𝕜)} {Dl Dr : Nat} (U : Nat → Nat → Nat → 𝕜)
    (h : Chain3 ds As Dl Dr) (h' : Chain3 ds As' Dl Dr)
    (hg : ∀ i (hi : i < As.length) (hi' : i < As'.length), GT3 (U i) (U (i + 1)) As[i] As'[i])
    (hu : ∀ i (hi : i < As.length), IsU As[i].d1 (U i))
    {σ : List Nat} (hσ : σ ∈ digits ds) {a c : Nat} (ha : a < Dl) (hc : c < Dr) :
    ∑ a' ∈ range Dl, U 0 a a' * pmat As' σ a' c = ∑ b ∈ range Dr, pmat As σ a b * U As.length b c := by
  induction ds generalizing As As' Dl σ a U with
  | nil =>
    cases As with
    | cons _ _ => simp at h
    | nil =>
      cases As' with
      | cons _ _ => simp at h'
      | nil =>
        simp only [chain3_nil] at h
        subst h
        simp only [pmat_nil, List.length_nil]
        rw [sum_ite_eq_of_lt hc, sum_ite_eq_of_lt' ha]
  | cons d ds ih =>
    cases As with
    | nil => simp at h
    | cons A As =>
      cases As' with
      | nil => simp at h'
      | cons A' As' =>
        simp only [chain3_cons] at h h'
        obtain ⟨x, t, hx, ht, rfl⟩ := mem_digits_cons.1 hσ
        have g0 : GT3 (U 0) (U 1) A A' := hg 0 (by simp) (by simp)
        have u0 : IsU A.d1 (U 0) := hu 0 (by simp)
        have hA' : Chain3 ds As' A.d2 Dr := by rw [← g0.d2]; exact h'.2.2
        have IH := fun b (hb : b < A.d2) => ih (As := As) (As' := As') (Dl := A.d2) (fun m => U (m + 1)) h.2.2 hA'
          (fun i hi hi' => hg (i + 1) (by simpa using hi) (by simpa using hi'))
          (fun i hi => hu (i + 1) (by simpa using hi)) ht (a := b) hb
        simp only [pmat_cons, List.length_cons]
        rw [g0.d2, alg_core (range Dl) (range A.d2)]
        have e1 : ∀ y ∈ range A.d2, (∑ a' ∈ range Dl, U 0 a a' * A'.f x a' y) * pmat As' t y c =
            (∑ b ∈ range A.d2, A.f x a b * U 1 b y) * pmat As' t y c := by
          intro y hy
          rw [← h.2.1, gt3_conv g0 u0 (by rw [h.1]; exact hx) (by rw [h.2.1]; exact ha) (mem_range.1 hy)]
        rw [sum_congr rfl e1, alg_core2]
        have e2 : ∀ b ∈ range A.d2, A.f x a b * ∑ y ∈ range A.d2, U 1 b y * pmat As' t y c =
            A.f x a b * ∑ y ∈ range Dr, pmat As t b y * U (As.length + 1) y c := by
          intro b hb
          rw [IH b (mem_range.1 hb)]
        rw [sum_congr rfl e2, alg_core3]

/-! ## the chains of a sweep state -/

variable {H : MPO 𝕜} {qd : List Int}

omit [DecidableEq 𝕜] in
theorem cur_getElem_eq (qd : List Int) (s : Sweep 𝕜) {i : Nat} (hi : i < (cur qd s).A.length) :
    (cur qd s).A[i] = getA s i := by
  have := cur_getElem? qd s (j := i) (by simpa using hi)
  rw [List.getElem?_eq_getElem hi] at this
  exact Option.some.inj this

theorem Canon.cpre {s : Sweep 𝕜} {c : Nat} (h : Canon H qd s c) {k : Nat} (hk : k ≤ H.A.length) :
    Chain3 (List.replicate k qd.length) ((cur qd s).A.take k) 1 (getQ s k).length := by
  have hk' : k ≤ (cur qd s).A.length := by rw [h.len]; exact hk
  have := chain3_take h.shaped.2 k hk'
  rwa [take_replicate_le hk', ← mpsBond, h.bond hk] at this

theorem Canon.csuf {s : Sweep 𝕜} {c : Nat} (h : Canon H qd s c) {k : Nat} (hk : k ≤ H.A.length) :
    Chain3 (List.replicate (H.A.length - k) qd.length) ((cur qd s).A.drop k) (getQ s k).length 1 := by
  have hk' : k ≤ (cur qd s).A.length := by rw [h.len]; exact hk
  have := chain3_drop h.shaped.2 k hk'
  rwa [drop_replicate', ← mpsBond, h.bond hk, h.len] at this

/-- prefix products: `P'_k = P_k · U_k` -/
theorem gauge_prefix {s t : Sweep 𝕜} {c c' : Nat} {U : Nat → Nat → Nat → 𝕜} (hs : Canon H qd s c)
    (ht : Canon H qd t c') (hg : GaugeRel H U s t) {k : Nat} (hk : k ≤ H.A.length) {τ : List Nat}
    (hτ : τ ∈ digitsU qd.length k) {b : Nat} (hb : b < (getQ s k).length) :
    pmat ((cur qd t).A.take k) τ 0 b =
      ∑ p ∈ range (getQ s k).length, pmat ((cur qd s).A.take k) τ 0 p * U k p b := by
  have c1 := hs.cpre hk
  have c2 := ht.cpre hk
  rw [hg.qlen k hk] at c2
  have hlen : ((cur qd s).A.take k).length = k := by rw [List.length_take, hs.len]; omega
  have hlen' : ((cur qd t).A.take k).length = k := by rw [List.length_take, ht.len]; omega
  have key := pmat_gauge U c1 c2
    (fun i hi hi' => by
      have hi1 : i < k := hlen ▸ hi
      rw [List.getElem_take, List.getElem_take, cur_getElem_eq, cur_getElem_eq]
      exact hg.ten i (by omega))
    (fun i hi => by
      have hi1 : i < k := hlen ▸ hi
      rw [List.getElem_take, cur_getElem_eq, (hs.wf.shape i (by omega)).2.1]
      exact hg.uni i (by omega))
    hτ (a := 0) Nat.one_pos hb
  rw [sum_range_one, hg.u0, one_mul, hlen] at key
  exact key

/-- suffix products: `U_k · S'_k = S_k` -/
theorem gauge_suffix {s t : Sweep 𝕜} {c c' : Nat} {U : Nat → Nat → Nat → 𝕜} (hs : Canon H qd s c)
    (ht : Canon H qd t c') (hg : GaugeRel H U s t) {k : Nat} (hk : k ≤ H.A.length) {τ : List Nat}
    (hτ : τ ∈ digitsU qd.length (H.A.length - k)) {a : Nat} (ha : a < (getQ s k).length) :
    ∑ a' ∈ range (getQ s k).length, U k a a' * pmat ((cur qd t).A.drop k) τ a' 0 =
      pmat ((cur qd s).A.drop k) τ a 0 := by
  have c1 := hs.csuf hk
  have c2 := ht.csuf hk
  rw [hg.qlen k hk] at c2
  have hlen : ((cur qd s).A.drop k).length = H.A.length - k := by rw [List.length_drop, hs.len]
  have key := pmat_gauge (fun m => U (k + m)) c1 c2
    (fun i hi hi' => by
      have hi1 : i < H.A.length - k := hlen ▸ hi
      rw [List.getElem_drop, List.getElem_drop, cur_getElem_eq, cur_getElem_eq]
      exact hg.ten (k + i) (by omega))
    (fun i hi => by
      have hi1 : i < H.A.length - k := hlen ▸ hi
      rw [List.getElem_drop, cur_getElem_eq, (hs.wf.shape (k + i) (by omega)).2.1]
      exact hg.uni (k + i) (by omega))
    hτ ha Nat.one_pos
  rw [sum_range_one, hlen, show k + (H.A.length - k) = H.A.length by omega, hg.uL, mul_one] at key
  exact key

/-- suffix products, solved for the new state: `S'_k = U_kᴴ · S_k` -/
theorem gauge_suffix_inv {s t : Sweep 𝕜} {c c' : Nat} {U : Nat → Nat → Nat → 𝕜} (hs : Canon H qd s c)
    (ht : Canon H qd t c') (hg : GaugeRel H U s t) {k : Nat} (hk : k ≤ H.A.length) {τ : List Nat}
    (hτ : τ ∈ digitsU qd.length (H.A.length - k)) {a' : Nat} (ha' : a' < (getQ s k).length) :
    pmat ((cur qd t).A.drop k) τ a' 0 =
      ∑ a ∈ range (getQ s k).length, star (U k a a') * pmat ((cur qd s).A.drop k) τ a 0 := by
  have e1 : ∀ a ∈ range (getQ s k).length, star (U k a a') * pmat ((cur qd s).A.drop k) τ a 0 =
      star (U k a a') * ∑ x ∈ range (getQ s k).length, U k a x * pmat ((cur qd t).A.drop k) τ x 0 := by
    intro a ha
    rw [gauge_suffix hs ht hg hk hτ (mem_range.1 ha)]
  rw [sum_congr rfl e1, alg_core3]
  have e2 : ∀ x ∈ range (getQ s k).length,
      (∑ a ∈ range (getQ s k).length, star (U k a a') * U k a x) * pmat ((cur qd t).A.drop k) τ x 0 =
      (if a' = x then 1 else 0) * pmat ((cur qd t).A.drop k) τ x 0 := by
    intro x hx
    rw [(hg.uni k hk).col a' x ha' (mem_range.1 hx)]
  rw [sum_congr rfl e2, sum_ite_eq_of_lt' ha']

theorem gauge_ampPrefix {s t : Sweep 𝕜} {c c' : Nat} {U : Nat → Nat → Nat → 𝕜} (hs : Canon H qd s c)
    (ht : Canon H qd t c') (hg : GaugeRel H U s t) {k : Nat} (hk : k ≤ H.A.length) {τ : List Nat}
    (hτ : τ ∈ digitsU qd.length k) {b : Nat} (hb : b < (getQ s k).length) :
    ampPrefix (cur qd t) k τ b = ∑ p ∈ range (getQ s k).length, ampPrefix (cur qd s) k τ p * U k p b := by
  have hks : k ≤ (cur qd s).A.length := by rw [hs.len]; exact hk
  have hkt : k ≤ (cur qd t).A.length := by rw [ht.len]; exact hk
  have hτs : τ ∈ digits ((List.replicate (cur qd s).A.length qd.length).take k) := by
    rw [take_replicate_le hks]; exact hτ
  have hτt : τ ∈ digits ((List.replicate (cur qd t).A.length qd.length).take k) := by
    rw [take_replicate_le hkt]; exact hτ
  rw [ampPrefix_eq ht.shaped.2 hkt hτt (by rw [ht.bond hk, hg.qlen k hk]; exact hb), gauge_prefix hs ht hg hk hτ hb]
  refine sum_congr rfl fun p hp => ?_
  rw [ampPrefix_eq hs.shaped.2 hks hτs (by rw [hs.bond hk]; exact mem_range.1 hp)]

theorem gauge_ampSuffix {s t : Sweep 𝕜} {c c' : Nat} {U : Nat → Nat → Nat → 𝕜} (hs : Canon H qd s c)
    (ht : Canon H qd t c') (hg : GaugeRel H U s t) {k : Nat} (hk : k ≤ H.A.length) {τ : List Nat}
    (hτ : τ ∈ digitsU qd.length (H.A.length - k)) {b : Nat} (hb : b < (getQ s k).length) :
    ampSuffix (cur qd t) k τ b =
      ∑ p ∈ range (getQ s k).length, star (U k p b) * ampSuffix (cur qd s) k τ p := by
  have hks : k ≤ (cur qd s).A.length := by rw [hs.len]; exact hk
  have hkt : k ≤ (cur qd t).A.length := by rw [ht.len]; exact hk
  have hτs : τ ∈ digits ((List.replicate (cur qd s).A.length qd.length).drop k) := by
    rw [drop_replicate', hs.len]; exact hτ
  have hτt : τ ∈ digits ((List.replicate (cur qd t).A.length qd.length).drop k) := by
    rw [drop_replicate', ht.len]; exact hτ
  rw [ampSuffix_eq ht.shaped.2 Nat.one_pos hkt hτt (by rw [ht.bond hk, hg.qlen k hk]; exact hb),
    gauge_suffix_inv hs ht hg hk hτ hb]
  refine sum_congr rfl fun p hp => ?_
  rw [ampSuffix_eq hs.shaped.2 Nat.one_pos hks hτs (by rw [hs.bond hk]; exact mem_range.1 hp)]

/-! ## blocks -/

private theorem alg_gbl {ι : Type} (S T : Finset ι) (P Q : Finset Nat) (f g : ι → Nat → 𝕜) (e : ι → ι → 𝕜) (u v : Nat → 𝕜) :
    ∑ σ ∈ S, ∑ τ ∈ T, (∑ p ∈ P, f τ p * u p) * e σ τ * star (∑ q ∈ Q, g σ q * v q) =
    ∑ p ∈ P, ∑ q ∈ Q, u p * (∑ σ ∈ S, ∑ τ ∈ T, f τ p * e σ τ * star (g σ q)) * star (v q) := by
  simp only [star_sum, Finset.sum_mul, Finset.mul_sum, star_mul']
  sum_pull P
  sum_pull Q
  sum_pull S
  sum_pull T
  ring

private theorem alg_gbr {ι : Type} (S T : Finset ι) (P Q : Finset Nat) (f g : ι → Nat → 𝕜) (e : ι → ι → 𝕜) (u v : Nat → 𝕜) :
    ∑ σ ∈ S, ∑ τ ∈ T, (∑ p ∈ P, star (u p) * f τ p) * e σ τ * star (∑ q ∈ Q, star (v q) * g σ q) =
    ∑ p ∈ P, ∑ q ∈ Q, star (u p) * (∑ σ ∈ S, ∑ τ ∈ T, f τ p * e σ τ * star (g σ q)) * v q := by
  simp only [star_sum, Finset.sum_mul, Finset.mul_sum, star_mul', star_star]
  sum_pull P
  sum_pull Q
  sum_pull S
  sum_pull T
  ring

/-! ## the four statements -/

/-- gauge-related sweep states hold the same dense state -/
theorem gaugeRel_amp {s t : Sweep 𝕜} {c c' : Nat} {U : Nat → Nat → Nat → 𝕜} (hs : Canon H qd s c) (ht : Canon H qd t c')
    (hg : GaugeRel H U s t) {σ : List Nat} (hσ : σ ∈ digitsU qd.length H.A.length) :
    (cur qd t).amp σ = (cur qd s).amp σ := by
  have hσs : σ ∈ digits (List.replicate (cur qd s).A.length qd.length) := by rw [hs.len]; exact hσ
  have hσt : σ ∈ digits (List.replicate (cur qd t).A.length qd.length) := by rw [ht.len]; exact hσ
  rw [amp_eq_pmat ht.shaped.2 hσt, amp_eq_pmat hs.shaped.2 hσs]
  have key := gauge_prefix hs ht hg (Nat.le_refl _) hσ (b := 0) (by rw [hs.qL]; exact Nat.one_pos)
  rw [hs.qL, sum_range_one, hg.uL, mul_one, List.take_of_length_le (by rw [ht.len]),
    List.take_of_length_le (by rw [hs.len])] at key
  exact key

/-- the left blocks of gauge-related canonical states are related by the gauge of their bond -/
theorem gaugeRel_bl {s t : Sweep 𝕜} {c : Nat} {U : Nat → Nat → Nat → 𝕜} (hs : Canon H qd s c) (ht : Canon H qd t c)
    (hH : C04.MPO.Shaped H qd.length)
    (hg : GaugeRel H U s t) {j : Nat} (hj : j ≤ c) : GBL (U j) (getBL s j) (getBL t j) := by
  have hjL : j ≤ H.A.length := by have := hs.hc; omega
  obtain ⟨s0, s1, s2, sf⟩ := hs.bl j hj
  obtain ⟨t0, t1, t2, tf⟩ := ht.bl j hj
  have bs := hs.bond hjL
  have bt := (ht.bond hjL).trans (hg.qlen j hjL)
  rw [bs] at s0 s2 sf
  rw [bt] at t0 t2 tf
  refine ⟨t0.trans s0.symm, t1.trans s1.symm, t2.trans s2.symm, ?_⟩
  intro a1 w a2 h1 hw h2
  rw [s0] at h1
  rw [s1] at hw
  rw [s2] at h2
  rw [tf a1 w a2 h1 hw h2, s0, s2]
  have e1 : ∀ σ ∈ digitsU qd.length j, ∀ τ ∈ digitsU qd.length j,
      ampPrefix (cur qd t) j τ a1 * elemPrefix H j σ τ w * star (ampPrefix (cur qd t) j σ a2) =
      (∑ p ∈ range (getQ s j).length, ampPrefix (cur qd s) j τ p * U j p a1) * elemPrefix H j σ τ w *
        star (∑ q ∈ range (getQ s j).length, ampPrefix (cur qd s) j σ q * U j q a2) := by
    intro σ hσ τ hτ
    rw [gauge_ampPrefix hs ht hg hjL hτ h1, gauge_ampPrefix hs ht hg hjL hσ h2]
  rw [sum_congr rfl fun σ hσ => sum_congr rfl fun τ hτ => e1 σ hσ τ hτ, alg_gbl]
  refine sum_congr rfl fun p hp => sum_congr rfl fun q hq => ?_
  rw [sf p w q (mem_range.1 hp) hw (mem_range.1 hq)]

/-- the right blocks of gauge-related canonical states are related by the gauge of their bond -/
theorem gaugeRel_br {s t : Sweep 𝕜} {c : Nat} {U : Nat → Nat → Nat → 𝕜} (hs : Canon H qd s c) (ht : Canon H qd t c)
    (hH : C04.MPO.Shaped H qd.length)
    (hg : GaugeRel H U s t) {j : Nat} (hj : c ≤ j) (hjL : j < H.A.length) :
    GBR (U (j + 1)) (getBR s j) (getBR t j) := by
  have hjL' : j + 1 ≤ H.A.length := hjL
  obtain ⟨s0, s1, s2, sf⟩ := hs.br j hj hjL
  obtain ⟨t0, t1, t2, tf⟩ := ht.br j hj hjL
  have bs := hs.bond hjL'
  have bt := (ht.bond hjL').trans (hg.qlen (j + 1) hjL')
  rw [bs] at s0 s2 sf
  rw [bt] at t0 t2 tf
  rw [hs.len] at sf
  rw [ht.len] at tf
  refine ⟨t0.trans s0.symm, t1.trans s1.symm, t2.trans s2.symm, ?_⟩
  intro b1 w b2 h1 hw h2
  rw [s0] at h1
  rw [s1] at hw
  rw [s2] at h2
  rw [tf b1 w b2 h1 hw h2, s0, s2]
  have e1 : ∀ σ ∈ digitsU qd.length (H.A.length - (j + 1)), ∀ τ ∈ digitsU qd.length (H.A.length - (j + 1)),
      ampSuffix (cur qd t) (j + 1) τ b1 * elemSuffix H (j + 1) σ τ w * star (ampSuffix (cur qd t) (j + 1) σ b2) =
      (∑ p ∈ range (getQ s (j + 1)).length, star (U (j + 1) p b1) * ampSuffix (cur qd s) (j + 1) τ p) *
        elemSuffix H (j + 1) σ τ w *
        star (∑ q ∈ range (getQ s (j + 1)).length, star (U (j + 1) q b2) * ampSuffix (cur qd s) (j + 1) σ q) := by
    intro σ hσ τ hτ
    rw [gauge_ampSuffix hs ht hg hjL' hτ h1, gauge_ampSuffix hs ht hg hjL' hσ h2]
  rw [sum_congr rfl fun σ hσ => sum_congr rfl fun τ hτ => e1 σ hσ τ hτ, alg_gbr]
  refine sum_congr rfl fun p hp => sum_congr rfl fun q hq => ?_
  rw [sf p w q (mem_range.1 hp) hw (mem_range.1 hq)]

omit [DecidableEq 𝕜] in
theorem gt3_id (A : T3 𝕜) : GT3 idU idU A A := by
  refine ⟨rfl, rfl, rfl, ?_⟩
  intro s a' b' _ ha' hb'
  have e1 : ∀ a ∈ range A.d1, ∑ b ∈ range A.d2, star (idU (𝕜 := 𝕜) a a') * A.f s a b * idU b b' =
      if a' = a then A.f s a' b' else 0 := by
    intro a _
    by_cases h : a' = a
    · subst h
      rw [if_pos rfl]
      have e2 : ∀ b ∈ range A.d2, star (idU (𝕜 := 𝕜) a' a') * A.f s a' b * idU b b' =
          if b' = b then A.f s a' b' else 0 := by
        intro b _
        unfold idU
        by_cases h2 : b' = b
        · subst h2
          rw [if_pos rfl, if_pos rfl, if_pos rfl, star_one, one_mul, mul_one]
        · rw [if_neg (fun e : b = b' => h2 e.symm), mul_zero, if_neg h2]
      rw [sum_congr rfl e2, sum_ite_eq (range A.d2) b', if_pos (mem_range.2 hb')]
    · rw [if_neg h]
      refine sum_eq_zero fun b _ => ?_
      unfold idU
      rw [if_neg (fun e => h e.symm), star_zero, zero_mul, zero_mul]
  rw [sum_congr rfl e1, sum_ite_eq (range A.d1) a', if_pos (mem_range.2 ha')]

/-- a canonical state is gauge related to itself (identity gauge) -/
theorem gaugeRel_refl {s : Sweep 𝕜} {c : Nat} (hs : Canon H qd s c) : GaugeRel H (fun _ => idU) s s := by
  refine ⟨fun m _ => isU_id _, ?_, ?_, fun _ _ => rfl, fun m _ => gt3_id _⟩
  · exact if_pos rfl
  · exact if_pos rfl

end Ptn.Evo

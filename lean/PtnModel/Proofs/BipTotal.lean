import PtnModel.Proofs.BipDfsTotal
/-!
# C18 helper lemmas, part 8: `HopcroftKarp.__call__` terminates (fuel suffices)

Every phase whose BFS reaches NIL augments the matching at least once (`augmentAll_spec`), so at most
`num_u` phases succeed and `phaseFuel g = num_u + 2` suffices.
-/
namespace Ptn.Bip

/-- number of matched `U`-vertices -/
def msize (g : BGraph) (s : HK) : Nat := (List.range g.numU).countP (fun u => (s.mu.getD u none).isSome)

theorem msize_le (g : BGraph) (s : HK) : msize g s ≤ g.numU := by
  unfold msize
  have := List.countP_le_length (p := fun u => (s.mu.getD u none).isSome) (l := List.range g.numU)
  simpa using this

theorem msize_congr {g : BGraph} {s s' : HK} (h : s'.mu = s.mu) : msize g s' = msize g s := by
  unfold msize; rw [h]

/-! ## a successful BFS leaves a good free vertex -/

theorem bfs_success_good {g : BGraph} (hg : g.WF) {sp s : HK} {b : Bool} (hinv : MInv g sp.mu sp.mv)
    (h : connectUnmatched g sp = .ok (s, b)) :
    AllLe g s ∧ (b = true → ∃ u0, u0 < g.numU ∧ s.mu.getD u0 none = none ∧ Good g s (some u0)) := by
  obtain ⟨hl, hb⟩ := connectUnmatched_ok h
  have inv := bfsLoop_inv hg _ _ _ _ (BInv.init hinv) hl
  refine ⟨inv.allLe, ?_⟩
  intro hbt
  subst hbt
  have hn : s.dnil ≠ infDist g := by
    intro hc
    rw [hc] at hb
    simp at hb
  have key : ∀ n, ∀ x, x ∈ validX g → s.dist x = n → n < infDist g → Good g s x →
      ∃ u0, u0 < g.numU ∧ s.mu.getD u0 none = none ∧ Good g s (some u0) := by
    intro n
    induction n using Nat.strong_induction_on with
    | _ n ih =>
      intro x hval hd hlt hgood
      rcases inv.layerAdj x hval (by rw [hd]; exact hlt) with ⟨hx, h0⟩ | ⟨u', hu', v, hv, hvx, h1⟩
      · cases x with
        | none => exact absurd rfl hx
        | some w =>
          have hw := mem_validX.1 hval w rfl
          exact ⟨w, hw, inv.zeroFree w hw h0, hgood⟩
      · have hg' : Good g s (some u') := Good.step u' v hv (by rw [hvx]; exact h1.symm) (by rw [hvx]; exact hgood)
        exact ih (s.dist (some u')) (by omega) (some u') (mem_validX.2 (fun w hw => by cases hw; exact hu'))
          rfl (by omega) hg'
  have hle := inv.allLe none
  simp only [dist_none] at hle
  exact key s.dnil none (mem_validX.2 (fun w hw => by cases hw)) rfl (by omega) Good.nil

/-! ## the loop over the free vertices -/

theorem augmentAll_spec {g : BGraph} (hg : g.WF) : ∀ (us : List Nat) (s : HK), (∀ u ∈ us, u < g.numU) →
    MInv g s.mu s.mv → AllLe g s →
    ∃ s', augmentAll g us s = .ok s' ∧ MInv g s'.mu s'.mv ∧ msize g s ≤ msize g s' ∧
      ((∃ u0 ∈ us, s.mu.getD u0 none = none ∧ Good g s (some u0)) → msize g s + 1 ≤ msize g s') := by
  intro us
  induction us with
  | nil =>
    intro s _ hinv _
    exact ⟨s, by rw [augmentAll], hinv, Nat.le_refl _, fun ⟨u0, h, _⟩ => by cases h⟩
  | cons u us ih =>
    intro s hus hinv hle
    have hus' : ∀ u ∈ us, u < g.numU := fun w hw => hus w (List.mem_cons_of_mem _ hw)
    by_cases hfree : (s.mu.getD u none).isNone = true
    · have hfree' : s.mu.getD u none = none := by
        cases hh : s.mu.getD u none with
        | none => rfl
        | some v => rw [hh] at hfree; cases hfree
      obtain ⟨s1, b, hd, hle1⟩ := dfs_ok hg hinv hle u
      have hinv1 := dfs_top_inv hg hinv hfree' hd
      obtain ⟨hdom, hdomu⟩ := dfs_dom hg hinv.lenU hd
      have hm1 : msize g s ≤ msize g s1 := countP_mono_imp _ _ _ hdom
      obtain ⟨s', h', hinv', hm', hprog⟩ := ih s1 hus' hinv1 hle1
      refine ⟨s', ?_, hinv', Nat.le_trans hm1 hm', ?_⟩
      · rw [augmentAll]; simp only [hfree, if_true, hd]; exact h'
      · rintro ⟨u0, hu0, hf0, hg0⟩
        cases b with
        | true =>
          have : msize g s + 1 ≤ msize g s1 := by
            unfold msize
            apply countP_flip _ _ _ List.nodup_range u (List.mem_range.2 (hus u (List.mem_cons_self ..)))
            · show (s.mu.getD u none).isSome = false
              rw [hfree']; rfl
            · exact hdomu rfl
            · exact hdom
          omega
        | false =>
          obtain ⟨hng, hrel⟩ := dfs_fail hg hinv hle hd
          have hne : u0 ≠ u := fun e => hng (e ▸ hg0)
          have hu0' : u0 ∈ us := by
            rcases List.mem_cons.1 hu0 with h | h
            · exact absurd h hne
            · exact h
          have := hprog ⟨u0, hu0', by rw [hrel.mu]; exact hf0, (hrel.good _).1 hg0⟩
          omega
    · obtain ⟨s', h', hinv', hm', hprog⟩ := ih s hus' hinv hle
      refine ⟨s', ?_, hinv', hm', ?_⟩
      · rw [augmentAll]; simp only [hfree]; exact h'
      · rintro ⟨u0, hu0, hf0, hg0⟩
        have hne : u0 ≠ u := by
          intro e; subst e
          rw [hf0] at hfree; exact hfree rfl
        have hu0' : u0 ∈ us := by
          rcases List.mem_cons.1 hu0 with h | h
          · exact absurd h hne
          · exact h
        exact hprog ⟨u0, hu0', hf0, hg0⟩

/-! ## the phase loop -/

theorem phaseLoop_ok {g : BGraph} (hg : g.WF) : ∀ (fuel : Nat) (s : HK), MInv g s.mu s.mv →
    g.numU + 1 ≤ fuel + msize g s → ∃ s', phaseLoop g fuel s = .ok s' := by
  intro fuel
  induction fuel with
  | zero =>
    intro s _ h
    have := msize_le g s
    omega
  | succ fuel ih =>
    intro s hinv h
    obtain ⟨s1, b, hc⟩ := connectUnmatched_ok' hg hinv
    obtain ⟨hle1, hgood⟩ := bfs_success_good hg hinv hc
    obtain ⟨e1, e2⟩ := connectUnmatched_mu hc
    have hinv1 : MInv g s1.mu s1.mv := by rw [e1, e2]; exact hinv
    rw [phaseLoop, hc]
    cases b with
    | false => exact ⟨s1, rfl⟩
    | true =>
      simp only
      obtain ⟨u0, hu0, hf0, hg0⟩ := hgood rfl
      obtain ⟨s2, ha, hinv2, _, hprog⟩ := augmentAll_spec hg (List.range g.numU) s1
        (fun u hu => List.mem_range.1 hu) hinv1 hle1
      have hp := hprog ⟨u0, List.mem_range.2 hu0, hf0, hg0⟩
      rw [msize_congr e1] at hp
      rw [ha]
      exact ih s2 hinv2 (by omega)

/-- `HopcroftKarp.__call__` never runs out of (BFS, DFS or phase) fuel on a well-formed graph -/
theorem hopcroftKarp_ok' {g : BGraph} (hg : g.WF) : ∃ m, hopcroftKarp g = .ok m := by
  obtain ⟨s, hs⟩ := phaseLoop_ok hg (phaseFuel g) (HK.init g) (MInv.init g) (by unfold phaseFuel; omega)
  refine ⟨matchingOf s, ?_⟩
  unfold hopcroftKarp hopcroftKarpState
  rw [hs]
  rfl

end Ptn.Bip

import PtnModel.Proofs.TreeLevels
import Mathlib.Data.List.Perm.Subperm
/-!
# A layered graph without dead ends has the length given by the level of its end terminal
-/
set_option linter.unusedSectionVars false

namespace Ptn.Og
open List Ptn.Dense

variable {κ : Type} [CommRing κ] [DecidableEq κ]

/-- every node other than the end terminal has an outgoing edge -/
def NoDeadEnd (g : Graph κ) : Prop :=
  ∀ x n, (x, n) ∈ g.nodes → x ≠ g.term true → n.eidsOut ≠ []

theorem depthLoop_of_lev {g : Graph κ} (sv : SValid g) {ℓ : Int → Int} (hl : Lev g ℓ) (hnd : NoDeadEnd g) :
    ∀ (fuel : Nat) (x : Int) (node : Node) (depth : Nat) (visited : List Int),
      dGet? g.nodes x = some node → ℓ x = depth → visited.Nodup →
      (∀ v ∈ visited, v ∈ dKeys g.nodes ∧ ℓ v < ℓ x) → g.nodes.length + 1 ≤ visited.length + fuel →
      g.nodeDepthLoop true fuel node depth = .ok (ℓ (g.term true)).toNat := by
  intro fuel
  induction fuel with
  | zero =>
    intro x node depth visited hn _ hvn hv hlen
    exfalso
    have hx : x ∈ dKeys g.nodes := mem_map.2 ⟨(x, node), mem_of_dGet?_eq_some hn, rfl⟩
    have hnd' : (x :: visited).Nodup := nodup_cons.2 ⟨fun hc => by have := (hv x hc).2; omega, hvn⟩
    have hsub : (x :: visited) ⊆ dKeys g.nodes := by
      intro v hv'
      rcases mem_cons.1 hv' with rfl | hv'
      · exact hx
      · exact (hv v hv').1
    have := (hnd'.subperm hsub).length_le
    simp only [length_cons, dKeys, length_map] at this
    omega
  | succ fuel ih =>
    intro x node depth visited hn hdep hvn hv hlen
    have hmem := mem_of_dGet?_eq_some hn
    unfold Graph.nodeDepthLoop
    cases heids : node.eids true with
    | nil =>
      simp only
      have hxt : x = g.term true := by
        by_contra hc
        exact hnd x node hmem hc (by simpa [Node.eids] using heids)
      rw [← hxt, hdep]
      simp
    | cons eid rest =>
      simp only
      obtain ⟨e, he, hsrc⟩ := sv.nodeEdge x node hmem true eid (by rw [heids]; simp)
      obtain ⟨n1, hn1, _⟩ := sv.edgeNode eid e he true
      have hE : g.getEdge eid = .ok e := dGet_eq_ok_iff.2 (dGet?_eq_some_of_mem sv.edgesKeys he)
      have hN : g.getNode (e.nid true) = .ok n1 := dGet_eq_ok_iff.2 (dGet?_eq_some_of_mem sv.nodesKeys hn1)
      rw [hE]
      simp only [bind, Except.bind]
      rw [hN]
      simp only
      have hlev : ℓ (e.nid true) = ℓ x + 1 := by
        have := hl e (mem_map.2 ⟨(eid, e), he, rfl⟩)
        simp only [Edge.nid, Bool.not_true, Bool.false_eq_true, if_false, if_true] at hsrc ⊢
        rw [this, hsrc]
      have hx : x ∈ dKeys g.nodes := mem_map.2 ⟨(x, node), hmem, rfl⟩
      exact ih (e.nid true) n1 (depth + 1) (x :: visited) (dGet?_eq_some_of_mem sv.nodesKeys hn1)
        (by rw [hlev, hdep]; push_cast; ring)
        (nodup_cons.2 ⟨fun hc => by have := (hv x hc).2; omega, hvn⟩)
        (by
          intro v hv'
          rcases mem_cons.1 hv' with rfl | hv'
          · exact ⟨hx, by omega⟩
          · exact ⟨(hv v hv').1, by have := (hv v hv').2; omega⟩)
        (by simp only [length_cons]; omega)

/-- **length of a layered graph without dead ends** -/
theorem length_of_lev {g : Graph κ} (sv : SValid g) {ℓ : Int → Int} (hl : Lev g ℓ) (hnd : NoDeadEnd g)
    (h0 : ℓ (g.term false) = 0) : g.length = .ok (ℓ (g.term true)).toNat := by
  obtain ⟨n0, hn0, _⟩ := sv.termNode false
  have hn0' := dGet?_eq_some_of_mem sv.nodesKeys hn0
  unfold Graph.length Graph.nodeDepth
  have hN : g.getNode (g.term false) = .ok n0 := dGet_eq_ok_iff.2 hn0'
  rw [hN]
  simp only [bind, Except.bind]
  exact depthLoop_of_lev sv hl hnd _ (g.term false) n0 0 [] hn0' (by simpa using h0) (by simp) (by simp) (by simp)

theorem noDeadEnd_of_allOut {g : Graph κ} (sv : SValid g) (h : AllOut g) : NoDeadEnd g := by
  intro x n hn hxt
  obtain ⟨e, he, hx⟩ := h x (mem_map.2 ⟨(x, n), hn, rfl⟩) hxt
  obtain ⟨⟨k, e'⟩, hm, rfl⟩ := mem_map.1 he
  obtain ⟨n', hn', hk⟩ := sv.edgeNode k e' hm false
  have : e'.nid false = x := by simpa [Edge.nid] using hx
  rw [this] at hn'
  have := sv.node_unique hn hn'
  subst this
  intro hc
  simp only [Bool.not_false, Node.eids, if_true] at hk
  rw [hc] at hk
  simp at hk

/-- **`from_optrees` before `simplify` has the requested length** (at least one tree, non-negative start sites) -/
theorem fromOptreesPre_length {trees : List (OpTree κ)} {L id : Int} {g : Graph κ}
    (h : fromOptreesPre trees L id = .ok g) (hne : trees ≠ []) (hstart : ∀ t ∈ trees, 0 ≤ t.istart) :
    g.length = .ok L.toNat := by
  obtain ⟨sv, ht, ⟨ℓ, hl, h0, h1⟩, _, hall⟩ := fromOptreesPre_layered h hstart
  have t0 : g.term false = 0 := by simp [Graph.term, ht]
  have t1 : g.term true = 1 := by simp [Graph.term, ht]
  have := length_of_lev sv hl (noDeadEnd_of_allOut sv (hall hne)) (by rw [t0]; exact h0)
  rw [t1, h1] at this
  exact this

end Ptn.Og

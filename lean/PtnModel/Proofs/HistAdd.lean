import PtnModel.Proofs.HistSimple
import PtnModel.Proofs.DenseAddOk
/-!
# C02: the result of `add_mps` is well-formed

The code asserts block sparsity of the tensors `1 … L-1` of the sum (and of the single tensor for `L = 1`); the first
tensor `[X | α·Y]` of a sum with `L ≥ 2`, all shapes and all charge-list lengths are not asserted and are derived here
from the well-formedness of the operands and the equal-boundary assertions.
-/
set_option linter.unusedSectionVars false
namespace Ptn.HistWf
open Ptn.Hist Ptn.Ortho Ptn.Dense Ptn.MPS
variable {𝕜 : Type} [CommRing 𝕜] [DecidableEq 𝕜]

/-- a successful `for i in l: body(i)` loop without state: every iteration returned normally -/
theorem forIn_unit_spec (P : Nat → Prop) (f : Nat → PUnit.{1} → Except Err (ForInStep PUnit.{1}))
    (hf : ∀ i r, f i ⟨⟩ = .ok r → r = .yield ⟨⟩ ∧ P i) :
    ∀ (l : List Nat) (u : PUnit.{1}), forIn l PUnit.unit f = .ok u → ∀ i ∈ l, P i
  | [], _, _, i, hi => by simp at hi
  | a :: l, u, h, i, hi => by
    simp only [List.forIn_cons, bind_ok] at h
    obtain ⟨y, hy, h⟩ := h
    obtain ⟨rfl, hP⟩ := hf a y hy
    rcases List.mem_cons.1 hi with rfl | hi
    · exact hP
    · exact forIn_unit_spec P f hf l u h i hi

/-- the first tensor `[X | α·Y]` of a sum is block sparse w.r.t. `(q_a, q_b ++ q_b')` -/
theorem t3wf_catLast {X Y : T3 𝕜} {qd qa qb qb' : List Int} (α : 𝕜) (hX : T3Wf X qd qa qb) (hY : T3Wf Y qd qa qb') :
    T3Wf (catLast X (scaleT3 α Y)) qd qa (qb ++ qb') := by
  refine ⟨hX.d0, hX.d1, ?_, ?_⟩
  · show X.d2 + Y.d2 = _
    rw [List.length_append, hX.d2, hY.d2]
  · intro s a b hs ha hb hne
    have hs' : s < X.d0 := hs
    have ha' : a < X.d1 := ha
    have hb' : b < X.d2 + Y.d2 := hb
    simp only [catLast, scaleT3] at hne
    by_cases hb2 : b < X.d2
    · rw [if_pos hb2] at hne
      rw [List.getD_append _ _ _ _ (by rw [← hX.d2]; exact hb2)]
      exact hX.sp s a b hs' ha' hb2 hne
    · rw [if_neg hb2] at hne
      have hY0 : Y.f s a (b - X.d2) ≠ 0 := fun h0 => hne (by rw [h0, mul_zero])
      rw [List.getD_append_right _ _ _ _ (by rw [← hX.d2]; omega), ← hX.d2]
      exact hY.sp s a (b - X.d2) (by rw [hY.d0, ← hX.d0]; exact hs') (by rw [hY.d1, ← hX.d1]; exact ha')
        (by omega) hY0

theorem add_wf (ψ0 ψ1 r : MPS 𝕜) (α : 𝕜) (w0 : ψ0.wellFormed = true) (w1 : ψ1.wellFormed = true)
    (h : MPS.add ψ0 ψ1 α = .ok r) : r.wellFormed = true := by
  rw [wellFormed_iff_idx] at w0 w1
  obtain ⟨l0, s0⟩ := w0
  obtain ⟨l1, s1⟩ := w1
  unfold MPS.add at h
  simp only [pyAssert_bind] at h
  obtain ⟨h1, h2, h⟩ := h
  have hqd : ψ0.qd = ψ1.qd := by simpa using h2
  have hlen : ψ0.A.length = ψ1.A.length := by simpa using h1
  split at h
  · rw [pure_ok] at h
    subst h
    rfl
  · rename_i X Y hX hY
    simp only [pyAssert_bind] at h
    obtain ⟨_, _, h⟩ := h
    split at h
    · simp [throw_bind_ne] at h
    · rename_i hne
      simp only [pyAssert_bind, pure_ok] at h
      obtain ⟨hsp, rfl⟩ := h
      rw [wellFormed_iff_idx]
      refine ⟨rfl, fun i hi => ?_⟩
      have hi0 : i = 0 := by simpa using hi
      subst hi0
      have hw := s0 0 (by rw [hX]; simp)
      simp only [hX, List.getElem_cons_zero] at hw
      refine T3Wf.tab ⟨hw.d0, hw.d1, hw.d2, (Ortho.isSparseT3_iff _ _ _ _).1 hsp⟩
  · rename_i X Xs Y Ys hnil hX hY
    simp only [pyAssert_bind] at h
    obtain ⟨hb0, hbL, h⟩ := h
    split at h
    · simp [throw_bind_ne] at h
    · rename_i hne
      simp only [not_or, not_not] at hne
      simp only [bind_ok, pure_ok] at h
      obtain ⟨rest, hrest, u, hloop, rfl⟩ := h
      obtain ⟨rl, rget⟩ := addInterior_get _ _ _ hrest
      have hL : ψ0.A.length = Xs.length + 1 := by rw [hX]; rfl
      have hYs : Ys.length = Xs.length := by rw [hX, hY] at hlen; simpa using hlen.symm
      have hXs : 0 < Xs.length := by
        rcases Nat.eq_zero_or_pos Xs.length with h0 | h0
        · exact absurd (List.length_eq_zero_iff.1 (hYs.trans h0)) (hnil (List.length_eq_zero_iff.1 h0))
        · exact h0
      have hb0' : ψ0.qD.getD 0 [] = ψ1.qD.getD 0 [] := by simpa using hb0
      have hbL' : ψ0.qD.getD ψ0.A.length [] = ψ1.qD.getD ψ0.A.length [] := by simpa using hbL
      -- the asserted sparsity of the tensors `1 … L-1`
      have hP := forIn_unit_spec (fun i => i ≥ 1 → ∃ A, ((catLast X (scaleT3 α Y)).tab :: rest)[i]? = some A ∧
          QN.isSparseT3 A ψ0.qd
            (((List.range (ψ0.A.length + 1)).map fun i =>
              if i = 0 ∨ i = ψ0.A.length then ψ0.qD.getD i [] else ψ0.qD.getD i [] ++ ψ1.qD.getD i []).getD i [])
            (((List.range (ψ0.A.length + 1)).map fun i =>
              if i = 0 ∨ i = ψ0.A.length then ψ0.qD.getD i [] else ψ0.qD.getD i [] ++ ψ1.qD.getD i []).getD (i + 1) [])
            = true) _ (by
        intro i r hr
        by_cases hi1 : i ≥ 1
        · simp only [hi1, if_true] at hr
          split at hr
          · rename_i A hA
            simp only [pyAssert_bind, pure_ok] at hr
            exact ⟨hr.2.symm, fun _ => ⟨A, hA, hr.1⟩⟩
          · simp [throw_map_ne] at hr
        · simp only [hi1, if_false, pure_ok] at hr
          exact ⟨hr.symm, fun h => absurd h hi1⟩) _ u hloop
      rw [wellFormed_iff_idx]
      refine ⟨by simp [hL, rl], fun i hi => ?_⟩
      have hi' : i < Xs.length + 1 := by simpa [rl] using hi
      show T3Wf _ ψ0.qd
        (((List.range (ψ0.A.length + 1)).map fun i =>
          if i = 0 ∨ i = ψ0.A.length then ψ0.qD.getD i [] else ψ0.qD.getD i [] ++ ψ1.qD.getD i []).getD i [])
        (((List.range (ψ0.A.length + 1)).map fun i =>
          if i = 0 ∨ i = ψ0.A.length then ψ0.qD.getD i [] else ψ0.qD.getD i [] ++ ψ1.qD.getD i []).getD (i + 1) [])
      rw [getD_map_range _ _ i (by omega), getD_map_range _ _ (i + 1) (by omega)]
      match i with
      | 0 =>
        have c1 : ¬ (0 + 1 = 0 ∨ 0 + 1 = ψ0.A.length) := by omega
        rw [if_pos (Or.inl rfl), if_neg c1]
        have hw0 := s0 0 (by omega)
        have hw1 := s1 0 (by omega)
        simp only [hX, List.getElem_cons_zero] at hw0
        simp only [hY, List.getElem_cons_zero] at hw1
        rw [← hqd, ← hb0'] at hw1
        exact T3Wf.tab (t3wf_catLast α hw0 hw1)
      | j + 1 =>
        have hj : j < Xs.length := by omega
        obtain ⟨A, hA, hsp⟩ := hP (j + 1) (List.mem_range.2 (by omega)) (by omega)
        rw [getD_map_range _ _ (j + 1) (by omega), getD_map_range _ _ (j + 1 + 1) (by omega)] at hsp
        have hA' : ((catLast X (scaleT3 α Y)).tab :: rest)[j + 1] = A := by
          rw [List.getElem?_eq_getElem hi] at hA
          exact Option.some.inj hA
        rw [hA']
        have hg := rget j Xs[j] (Ys[j]'(by omega)) (List.getElem?_eq_getElem hj) (List.getElem?_eq_getElem (by omega))
        have hAr : rest[j]? = some A := by simpa using hA
        rw [hAr] at hg
        have hAeq := Option.some.inj hg
        have hw0 := s0 (j + 1) (by omega)
        have hw1 := s1 (j + 1) (by omega)
        simp only [hX, List.getElem_cons_succ] at hw0
        simp only [hY, List.getElem_cons_succ] at hw1
        have c1 : ¬ (j + 1 = 0 ∨ j + 1 = ψ0.A.length) := by omega
        rw [if_neg c1] at hsp ⊢
        refine ⟨?_, ?_, ?_, (Ortho.isSparseT3_iff _ _ _ _).1 hsp⟩
        · rw [hAeq]; split <;> exact hw0.d0
        · rw [hAeq, List.length_append, ← hw0.d1, ← hw1.d1]; split <;> rfl
        · by_cases hlast : j + 1 = Xs.length
          · rw [hAeq, if_pos hlast, if_pos (Or.inr (by omega))]
            exact hw0.d2
          · rw [hAeq, if_neg hlast, if_neg (by omega), List.length_append, ← hw0.d2, ← hw1.d2]
            rfl
  · simp [throw_ne] at h

end Ptn.HistWf

import PtnModel.Proofs.ExplNodup
import PtnModel.Proofs.ExplTermIntB
import PtnModel.Proofs.ExplDen
/-!
# Explicit molecular graph, part 9: the construction runs through and yields a valid layered graph

`molExplicitGraph c tkin vint` (the graph of `molecular_hamiltonian_mpo(tkin, vint, optimize=False)` before `from_opgraph`) returns, for
every `L = len(tkin) ≥ 4` and all coefficients, the graph `explGraph`: the edge-less node list of `generate_graph` plus the edges
`explEdges` (wiring edges, hopping edges, interaction edges, numbered consecutively).
-/
set_option linter.unusedSectionVars false
set_option linter.unusedSimpArgs false
set_option linter.unusedVariables false

namespace Ptn.Ham
open Ptn.Og List Ptn.Ham2

variable {κ : Type} [CommRing κ] [DecidableEq κ]

/-- label-level edge specification with coefficient -/
abbrev LSpec (κ : Type) := Lab × Lab × Int × κ

def hopSpecs (L : Int) (tkin : List (List κ)) : List (LSpec κ) :=
  (hopPairs L).map fun p => ((hopLab L p.1 p.2).1, (hopLab L p.1 p.2).2.1, (hopLab L p.1 p.2).2.2, t2 tkin p.1 p.2)

def intSpecs (c : Consts κ) (L : Int) (vint : List (List (List (List κ)))) : List (LSpec κ) :=
  (intTuples L).map fun q => ((intLab L q.1 q.2.1 q.2.2.1 q.2.2.2).1, (intLab L q.1 q.2.1 q.2.2.1 q.2.2.2).2.1,
    (intLab L q.1 q.2.1 q.2.2.1 q.2.2.2).2.2, gint c vint q.1 q.2.1 q.2.2.1 q.2.2.2)

def wireSpecs (L : Int) : List (LSpec κ) := wireGen (fun a b o => (a, b, o, (1 : κ))) L

def toSpec (L : Int) (x : LSpec κ) : ESpec κ := ((MolNodes.init L).nidOf x.1, (MolNodes.init L).nidOf x.2.1, x.2.2.1, x.2.2.2)

/-- all edges of the explicit graph in creation order -/
def explEdges (c : Consts κ) (tkin : List (List κ)) (vint : List (List (List (List κ)))) (L : Int) : List (Edge κ) :=
  buildEdges ((wireSpecs L ++ (hopSpecs L tkin ++ intSpecs c L vint)).map (toSpec L)) 0

/-- the graph handed over by `generate_graph`'s constructor call: all nodes, no edges -/
def explG0 (L : Int) : Graph κ :=
  ⟨(MolNodes.init L).nodeList.map fun n => (n.nid, n), [], (0, L + L - 1)⟩

def explGraph (c : Consts κ) (tkin : List (List κ)) (vint : List (List (List (List κ)))) (L : Int) : Graph κ :=
  (explEdges c tkin vint L).foldl Graph.plusEdge (explG0 L)

/-! ## `buildEdges` -/

theorem mem_buildEdges : ∀ (S : List (ESpec κ)) (e0 : Int) (e : Edge κ), e ∈ buildEdges S e0 → ∃ s ∈ S, ∃ eid, e = specEdge eid s := by
  intro S
  induction S with
  | nil => intro e0 e h; cases h
  | cons s r ih =>
    intro e0 e h
    rcases mem_cons.1 h with rfl | h
    · exact ⟨s, mem_cons_self .., e0, rfl⟩
    · obtain ⟨s', hs', eid, rfl⟩ := ih _ _ h
      exact ⟨s', mem_cons_of_mem _ hs', eid, rfl⟩

theorem buildEdges_mem : ∀ (S : List (ESpec κ)) (e0 : Int) (s : ESpec κ), s ∈ S → ∃ eid, specEdge eid s ∈ buildEdges S e0 := by
  intro S
  induction S with
  | nil => intro e0 s h; cases h
  | cons s r ih =>
    intro e0 s' h
    rcases mem_cons.1 h with rfl | h
    · exact ⟨e0, mem_cons_self ..⟩
    · obtain ⟨eid, he⟩ := ih (e0 + 1) s' h
      exact ⟨eid, mem_cons_of_mem _ he⟩

theorem buildEdges_eids : ∀ (S : List (ESpec κ)) (e0 : Int),
    (buildEdges S e0).map (·.eid) = (List.range S.length).map fun (k : Nat) => e0 + (k : Int) := by
  intro S
  induction S with
  | nil => intro e0; rfl
  | cons s r ih =>
    intro e0
    rw [buildEdges, map_cons, ih, length_cons, range_succ_eq_map, map_cons, map_map]
    congr 1
    · simp only [specEdge, Nat.cast_zero, add_zero]
    · apply map_congr_left
      intro k _
      simp only [Function.comp, Nat.succ_eq_add_one]
      push_cast; omega

theorem buildEdges_length (S : List (ESpec κ)) (e0 : Int) : (buildEdges S e0).length = S.length := by
  have := congrArg List.length (buildEdges_eids S e0)
  simpa using this

theorem buildEdges_nodup (S : List (ESpec κ)) (e0 : Int) : ((buildEdges S e0).map (·.eid)).Nodup := by
  rw [buildEdges_eids]
  exact nodup_range.map (fun a b h => by have h' : e0 + (a : Int) = e0 + (b : Int) := h; omega)

/-- sums over the created edges that do not depend on the edge ids -/
theorem sum_buildEdges (Φ : Int → Int → Int → κ → κ) : ∀ (S : List (ESpec κ)) (e0 : Int),
    ((buildEdges S e0).map fun e => Φ e.nids.1 e.nids.2 e.eo e.ec).sum = (S.map fun s => Φ s.1 s.2.1 s.2.2.1 s.2.2.2).sum := by
  intro S
  induction S with
  | nil => intro e0; rfl
  | cons s r ih =>
    intro e0
    rw [buildEdges, map_cons, sum_cons, ih, map_cons, sum_cons]
    rfl

/-- edges with the same target in `P` coincide, if the targets in `P` of the specification are pairwise different -/
theorem uniq_dst (P : Int → Prop) [DecidablePred P] : ∀ (S : List (ESpec κ)) (e0 : Int),
    ((S.filter fun s => P s.2.1).map (·.2.1)).Nodup →
    ∀ e1 ∈ buildEdges S e0, ∀ e2 ∈ buildEdges S e0, P e1.nids.2 → e1.nids.2 = e2.nids.2 → e1 = e2 := by
  intro S
  induction S with
  | nil => intro e0 _ e1 h; cases h
  | cons s r ih =>
    intro e0 hn e1 h1 e2 h2 hP heq
    have key : ∀ e ∈ buildEdges r (e0 + 1), P e.nids.2 → e.nids.2 ∈ (r.filter fun s => P s.2.1).map (·.2.1) := by
      intro e he hp
      obtain ⟨s', hs', eid, rfl⟩ := mem_buildEdges _ _ _ he
      exact mem_map.2 ⟨s', mem_filter.2 ⟨hs', by simpa [specEdge] using hp⟩, rfl⟩
    by_cases hs : P s.2.1
    · rw [filter_cons_of_pos (by simpa using hs), map_cons, nodup_cons] at hn
      rcases mem_cons.1 h1 with rfl | h1 <;> rcases mem_cons.1 h2 with rfl | h2
      · rfl
      · have heq' : s.2.1 = e2.nids.2 := heq
        have hP' : P s.2.1 := hP
        exact absurd (heq' ▸ key e2 h2 (heq' ▸ hP')) hn.1
      · have heq' : e1.nids.2 = s.2.1 := heq
        exact absurd (heq' ▸ key e1 h1 hP) hn.1
      · exact ih _ hn.2 e1 h1 e2 h2 hP heq
    · rw [filter_cons_of_neg (by simpa using hs)] at hn
      rcases mem_cons.1 h1 with rfl | h1 <;> rcases mem_cons.1 h2 with rfl | h2
      · rfl
      · exact absurd hP hs
      · have heq' : e1.nids.2 = s.2.1 := heq
        exact absurd (heq' ▸ hP) hs
      · exact ih _ hn e1 h1 e2 h2 hP heq

theorem uniq_src (P : Int → Prop) [DecidablePred P] : ∀ (S : List (ESpec κ)) (e0 : Int),
    ((S.filter fun s => P s.1).map (·.1)).Nodup →
    ∀ e1 ∈ buildEdges S e0, ∀ e2 ∈ buildEdges S e0, P e1.nids.1 → e1.nids.1 = e2.nids.1 → e1 = e2 := by
  intro S
  induction S with
  | nil => intro e0 _ e1 h; cases h
  | cons s r ih =>
    intro e0 hn e1 h1 e2 h2 hP heq
    have key : ∀ e ∈ buildEdges r (e0 + 1), P e.nids.1 → e.nids.1 ∈ (r.filter fun s => P s.1).map (·.1) := by
      intro e he hp
      obtain ⟨s', hs', eid, rfl⟩ := mem_buildEdges _ _ _ he
      exact mem_map.2 ⟨s', mem_filter.2 ⟨hs', by simpa [specEdge] using hp⟩, rfl⟩
    by_cases hs : P s.1
    · rw [filter_cons_of_pos (by simpa using hs), map_cons, nodup_cons] at hn
      rcases mem_cons.1 h1 with rfl | h1 <;> rcases mem_cons.1 h2 with rfl | h2
      · rfl
      · have heq' : s.1 = e2.nids.1 := heq
        have hP' : P s.1 := hP
        exact absurd (heq' ▸ key e2 h2 (heq' ▸ hP')) hn.1
      · have heq' : e1.nids.1 = s.1 := heq
        exact absurd (heq' ▸ key e1 h1 hP) hn.1
      · exact ih _ hn.2 e1 h1 e2 h2 hP heq
    · rw [filter_cons_of_neg (by simpa using hs)] at hn
      rcases mem_cons.1 h1 with rfl | h1 <;> rcases mem_cons.1 h2 with rfl | h2
      · rfl
      · exact absurd hP hs
      · have heq' : e1.nids.1 = s.1 := heq
        exact absurd (heq' ▸ hP) hs
      · exact ih _ hn e1 h1 e2 h2 hP heq


/-! ## classification of all edge specifications -/

theorem wireGen_map {α β : Type} (mk : Lab → Lab → Int → α) (f : α → β) (L : Int) :
    (wireGen mk L).map f = wireGen (fun a b o => f (mk a b o)) L := by
  rw [wireGen_segs, wireGen_segs]
  simp only [map_append, seg1_map, seg2_map, seg3_map, seg4_map, seg5_map, seg6_map, seg7_map, seg8_map, seg9_map, seg10_map,
    seg11_map, seg12_map]

/-- every wiring edge belongs to the left or to the right forest -/
theorem wire_cls (L : Int) : ∀ y ∈ wireGen tri L, WLspec L y ∨ WRspec L y := by
  intro y hy
  rw [wireGen_segs] at hy
  simp only [mem_append] at hy
  rcases hy with h | h | h | h | h | h | h | h | h | h | h | h
  · exact Or.inl (seg1_wl L y h)
  · exact Or.inr (seg2_wr L y h)
  · exact Or.inl (seg3_wl L y h)
  · exact Or.inl (seg4_wl L y h)
  · exact Or.inl (seg5_wl L y h)
  · exact Or.inl (seg6_wl L y h)
  · exact Or.inl (seg7_wl L y h)
  · exact Or.inr (seg8_wr L y h)
  · exact Or.inr (seg9_wr L y h)
  · exact Or.inr (seg10_wr L y h)
  · exact Or.inr (seg11_wr L y h)
  · exact Or.inr (seg12_wr L y h)

/-- the label triple of a specification -/
def LSpec.tri (x : LSpec κ) : Lab × Lab × Int := (x.1, x.2.1, x.2.2.1)

theorem wireSpecs_eq (L : Int) : (wireSpecs L : List (LSpec κ)) = (wireGen tri L).map fun y => (y.1, y.2.1, y.2.2, (1 : κ)) := by
  rw [wireGen_map]; rfl

theorem wireSpecs_mem (L : Int) (x : LSpec κ) (hx : x ∈ wireSpecs L) : x.tri ∈ wireGen tri L ∧ x.2.2.2 = 1 := by
  rw [wireSpecs_eq] at hx
  obtain ⟨y, hy, rfl⟩ := mem_map.1 hx
  exact ⟨hy, rfl⟩

theorem mem_hopPairs (L : Int) (p : Int × Int) : p ∈ hopPairs L ↔ (0 ≤ p.1 ∧ p.1 < L) ∧ (0 ≤ p.2 ∧ p.2 < L) := by
  simp only [hopPairs, mem_flatMap, mem_map, mem_pyRange]
  constructor
  · rintro ⟨i, hi, j, hj, rfl⟩; exact ⟨hi, hj⟩
  · rintro ⟨hi, hj⟩; exact ⟨p.1, hi, p.2, hj, rfl⟩

/-- classification of an edge specification: left wiring, right wiring, or a term edge spelling the word with letters `F` -/
def SpecCls (L : Int) (x : LSpec κ) : Prop :=
  (WLspec L x.tri ∧ x.2.2.2 = 1) ∨ (WRspec L x.tri ∧ x.2.2.2 = 1) ∨ ∃ F, Tspec L F x.tri

theorem allSpecs_cls (c : Consts κ) (tkin : List (List κ)) (vint : List (List (List (List κ)))) (L : Int) (hL : 4 ≤ L) :
    ∀ x ∈ wireSpecs L ++ (hopSpecs L tkin ++ intSpecs c L vint), SpecCls L x := by
  intro x hx
  simp only [mem_append] at hx
  rcases hx with h | h | h
  · obtain ⟨h1, h2⟩ := wireSpecs_mem L x h
    rcases wire_cls L _ h1 with h3 | h3
    · exact Or.inl ⟨h3, h2⟩
    · exact Or.inr (Or.inl ⟨h3, h2⟩)
  · obtain ⟨p, hp, rfl⟩ := mem_map.1 h
    obtain ⟨⟨a, b⟩, ⟨c', d⟩⟩ := (mem_hopPairs L p).1 hp
    exact Or.inr (Or.inr ⟨_, hop_tspec L hL p.1 p.2 a b c' d⟩)
  · obtain ⟨q, hq, rfl⟩ := mem_map.1 h
    obtain ⟨a, b, c', d, e, f⟩ := (mem_intTuples L q).1 hq
    exact Or.inr (Or.inr ⟨_, int_tspec L hL q.1 q.2.1 q.2.2.1 q.2.2.2 a b c' d e f⟩)

/-- what every specification provides for the structural part -/
structure SpecOk (L : Int) (x : LSpec κ) : Prop where
  ok1 : labOk L x.1
  ok2 : labOk L x.2.1
  lev : x.2.1.2.2 = x.1.2.2 + 1
  notSink : x.1 ≠ (11, [], L)
  notSrc : x.2.1 ≠ (10, [], 0)

theorem SpecCls.ok {L : Int} {x : LSpec κ} (h : SpecCls L x) : SpecOk L x := by
  rcases h with ⟨h, _⟩ | ⟨h, _⟩ | ⟨F, h⟩
  · refine ⟨h.ok1, h.ok2, h.lev, ?_, ?_⟩
    · intro hc; have := h.l1; simp only [LSpec.tri] at this; rw [hc] at this; cases this
    · intro hc
      have e : x.2.1.2.2 = 0 := by rw [hc]
      have hl : x.2.1.2.2 = x.1.2.2 + 1 := h.lev
      have hp : 0 ≤ x.1.2.2 := h.pos
      omega
  · refine ⟨h.ok1, h.ok2, h.lev, ?_, ?_⟩
    · intro hc
      have e : x.1.2.2 = L := by rw [hc]
      have hl : x.2.1.2.2 = x.1.2.2 + 1 := h.lev
      have hp : x.2.1.2.2 ≤ L := h.le
      omega
    · intro hc; have := h.r2; simp only [LSpec.tri] at this; rw [hc] at this; cases this
  · refine ⟨h.ok1, h.ok2, h.lev, ?_, ?_⟩
    · intro hc; have := h.l1; simp only [LSpec.tri] at this; rw [hc] at this; cases this
    · intro hc; have := h.r2; simp only [LSpec.tri] at this; rw [hc] at this; cases this

/-! ## the initial graph -/

theorem mkFam_fold_empty (spec : List (List Int × List Int × Int)) :
    ∀ acc : Fam × Int, (∀ m ∈ acc.1.nodes, m.eidsIn = [] ∧ m.eidsOut = []) →
      ∀ m ∈ (spec.foldl (fun (acc : Fam × Int) (s : List Int × List Int × Int) =>
        let inner := s.2.1.zipIdx.map fun (k, idx) => (k, (⟨acc.2 + (idx : Int), [], [], s.2.2⟩ : Node))
        (acc.1 ++ [(s.1, inner)], acc.2 + (s.2.1.length : Int))) acc).1.nodes, m.eidsIn = [] ∧ m.eidsOut = [] := by
  induction spec with
  | nil => intro acc h; exact h
  | cons s rest ih =>
    intro acc h
    simp only [List.foldl_cons]
    apply ih
    intro m hm
    simp only [Fam.nodes, flatMap_append, mem_append, flatMap_cons, flatMap_nil, append_nil, mem_map] at hm
    rcases hm with hm | ⟨p, ⟨q, _, rfl⟩, rfl⟩
    · exact h m hm
    · exact ⟨rfl, rfl⟩

theorem mkFam_empty (spec : List (List Int × List Int × Int)) (n0 : Int) :
    ∀ m ∈ (mkFam spec n0).1.nodes, m.eidsIn = [] ∧ m.eidsOut = [] :=
  mkFam_fold_empty spec ([], n0) (by intro m hm; simp [Fam.nodes] at hm)

theorem mkFams_empty (specs : List (List (List Int × List Int × Int))) (n0 : Int) (idx : Nat) :
    ∀ m ∈ ((mkFams specs n0).1.getD idx []).nodes, m.eidsIn = [] ∧ m.eidsOut = [] := by
  obtain ⟨n, hn⟩ := mkFams_getD specs n0 idx
  rw [hn]
  exact mkFam_empty _ _

theorem nodeList_empty (L : Int) : ∀ m ∈ (MolNodes.init L).nodeList, m.eidsIn = [] ∧ m.eidsOut = [] := by
  intro m hm
  simp only [MolNodes.nodeList, mem_append] at hm
  rcases hm with ((((((((((hm | hm) | hm) | hm) | hm) | hm) | hm) | hm) | hm) | hm) | hm) | hm
  · obtain ⟨p, hp, rfl⟩ := mem_map.1 hm
    obtain ⟨i, _, rfl⟩ := mem_map.1 hp
    exact ⟨rfl, rfl⟩
  · obtain ⟨p, hp, rfl⟩ := mem_map.1 hm
    obtain ⟨i, _, rfl⟩ := mem_map.1 hp
    exact ⟨rfl, rfl⟩
  · exact mkFams_empty (molSpecs L) _ 0 m hm
  · exact mkFams_empty (molSpecs L) _ 1 m hm
  · exact mkFams_empty (molSpecs L) _ 5 m hm
  · exact mkFams_empty (molSpecs L) _ 6 m hm
  · exact mkFams_empty (molSpecs L) _ 2 m hm
  · exact mkFams_empty (molSpecs L) _ 3 m hm
  · exact mkFams_empty (molSpecs L) _ 4 m hm
  · exact mkFams_empty (molSpecs L) _ 7 m hm
  · exact mkFams_empty (molSpecs L) _ 8 m hm
  · exact mkFams_empty (molSpecs L) _ 9 m hm

theorem nodeAt_idL0 (L : Int) (hL : 1 ≤ L) : (MolNodes.init L).nodeAt (10, [], 0) = ⟨0, [], [], 0⟩ := by
  have h := look_ok L (10, [], 0) (by simp only [labOk]; omega)
  have h' : (MolNodes.init L).look (10, [], 0) = dGet (MolNodes.init L).identityL 0 := rfl
  rw [h', identityL_dGet L 0 (le_refl _) (by omega)] at h
  exact (Except.ok.inj h).symm

theorem nodeAt_idRL (L : Int) (hL : 1 ≤ L) : (MolNodes.init L).nodeAt (11, [], L) = ⟨L + L - 1, [], [], 0⟩ := by
  have h := look_ok L (11, [], L) (by simp only [labOk]; omega)
  have h' : (MolNodes.init L).look (11, [], L) = dGet (MolNodes.init L).identityR L := rfl
  rw [h', identityR_dGet L L hL (by omega)] at h
  exact (Except.ok.inj h).symm

theorem explG0_svalid (L : Int) (hL : 1 ≤ L) : SValid (explG0 (κ := κ) L) := by
  have h := svalid_nodes (κ := κ) (MolNodes.init L).nodeList ⟨0, [], [], 0⟩ ⟨L + L - 1, [], [], 0⟩ (molNodes_ids_nodup L)
    (nodeAt_idL0 L hL ▸ nodeAt_mem L _ (by simp only [labOk]; omega))
    (nodeAt_idRL L hL ▸ nodeAt_mem L _ (by simp only [labOk]; omega))
    (fun m hm => (nodeList_empty L m hm).1) (fun m hm => (nodeList_empty L m hm).2)
  exact h

theorem explG0_keys (L : Int) : dKeys (explG0 (κ := κ) L).nodes = (MolNodes.init L).nodeList.map (·.nid) := by
  simp [explG0, dKeys, map_map, Function.comp_def]

theorem nidOf_mem_keys (L : Int) (a : Lab) (ha : labOk L a) : (MolNodes.init L).nidOf a ∈ dKeys (explG0 (κ := κ) L).nodes := by
  rw [explG0_keys]
  exact mem_map.2 ⟨_, nodeAt_mem L a ha, rfl⟩

theorem specEdge_ok (L : Int) (hL : 1 ≤ L) (x : LSpec κ) (h : SpecOk L x) (eid : Int) :
    EdgeOk (explG0 (κ := κ) L) (specEdge eid (toSpec L x)) := by
  refine ⟨nidOf_mem_keys L _ h.ok1, nidOf_mem_keys L _ h.ok2, ?_, ?_, ?_, rfl⟩
  · intro hc
    have := nidOf_inj L _ _ h.ok1 h.ok2 hc
    have hl := h.lev
    rw [← this] at hl
    omega
  · intro hc
    have e : (explG0 (κ := κ) L).term true = (MolNodes.init L).nidOf (11, [], L) := by
      rw [nidOf_idR L L hL (by omega)]; rfl
    rw [e] at hc
    exact h.notSink (nidOf_inj L _ _ h.ok1 (by simp only [labOk]; omega) hc)
  · intro hc
    have e : (explG0 (κ := κ) L).term false = (MolNodes.init L).nidOf (10, [], 0) := by
      rw [nidOf_idL L 0 (le_refl _) (by omega)]; rfl
    rw [e] at hc
    exact h.notSrc (nidOf_inj L _ _ h.ok2 (by simp only [labOk]; omega) hc)


/-! ## the graph -/

section graph
variable (c : Consts κ) (tkin : List (List κ)) (vint : List (List (List (List κ)))) (L : Int)

theorem explEdges_specs (e : Edge κ) (he : e ∈ explEdges c tkin vint L) :
    ∃ x ∈ wireSpecs L ++ (hopSpecs L tkin ++ intSpecs c L vint), ∃ eid, e = specEdge eid (toSpec L x) := by
  obtain ⟨s, hs, eid, rfl⟩ := mem_buildEdges _ _ _ he
  obtain ⟨x, hx, rfl⟩ := mem_map.1 hs
  exact ⟨x, hx, eid, rfl⟩

theorem specs_explEdges (x : LSpec κ) (hx : x ∈ wireSpecs L ++ (hopSpecs L tkin ++ intSpecs c L vint)) :
    ∃ eid, specEdge eid (toSpec L x) ∈ explEdges c tkin vint L :=
  buildEdges_mem _ _ _ (mem_map.2 ⟨x, hx, rfl⟩)

theorem explGraph_facts (hL : 4 ≤ L) :
    (explEdges c tkin vint L).foldlM (fun g e => g.addConnectEdge e) (explG0 L) = .ok (explGraph c tkin vint L) ∧
    SValid (explGraph c tkin vint L) ∧ (explGraph c tkin vint L).edgeList = explEdges c tkin vint L ∧
    dKeys (explGraph c tkin vint L).nodes = dKeys (explG0 (κ := κ) L).nodes ∧
    (explGraph c tkin vint L).nidTerminal = (0, L + L - 1) ∧
    ∀ k, (dGet? (explGraph c tkin vint L).nodes k).map (·.qnum) = (dGet? (explG0 (κ := κ) L).nodes k).map (·.qnum) := by
  have h := foldl_plusEdge (explEdges c tkin vint L) (explG0 L) (explG0_svalid L (by omega))
    (fun e _ hc => absurd hc (by simp [explG0, dKeys]))
    (buildEdges_nodup _ _)
    (fun e he => by
      obtain ⟨x, hx, eid, rfl⟩ := explEdges_specs c tkin vint L e he
      exact specEdge_ok L (by omega) x (allSpecs_cls c tkin vint L hL x hx).ok eid)
  exact ⟨h.1, h.2.1, by rw [explGraph, h.2.2.1]; simp [explG0, Graph.edgeList], h.2.2.2.1, h.2.2.2.2.1, h.2.2.2.2.2⟩

/-- the level of a node id: the bond index of its label -/
def explLevel (L : Int) (x : Int) : Int := ((MolNodes.init L).labOf x).2.2

theorem explGraph_lev (hL : 4 ≤ L) : Lev (explGraph c tkin vint L) (explLevel L) := by
  intro e he
  rw [(explGraph_facts c tkin vint L hL).2.2.1] at he
  obtain ⟨x, hx, eid, rfl⟩ := explEdges_specs c tkin vint L e he
  have ok := (allSpecs_cls c tkin vint L hL x hx).ok
  show explLevel L ((MolNodes.init L).nidOf x.2.1) = explLevel L ((MolNodes.init L).nidOf x.1) + 1
  unfold explLevel
  rw [labOf_nidOf L _ ok.ok1, labOf_nidOf L _ ok.ok2]
  exact ok.lev

/-- **the explicit graph is valid** (structurally valid and layered, hence it passes `is_consistent`) -/
theorem explGraph_valid (hL : 4 ≤ L) : Valid (explGraph c tkin vint L) :=
  valid_of_lev (explGraph_facts c tkin vint L hL).2.1 (explGraph_lev c tkin vint L hL)

end graph

/-! ## the construction returns this graph -/

theorem foldl_max_le (x : Int) : ∀ (ys : List Int) (y : Int), (∀ z ∈ ys, z ≤ x) → y ≤ x → ys.foldl max y ≤ x := by
  intro ys
  induction ys with
  | nil => intro y _ h; exact h
  | cons z ys ih =>
    intro y hz hy
    rw [foldl_cons]
    exact ih _ (fun w hw => hz w (mem_cons_of_mem _ hw)) (max_le hy (hz z (mem_cons_self ..)))

theorem maxInt_append_single (l : List Int) (x : Int) (h : ∀ y ∈ l, y ≤ x) : maxInt? (l ++ [x]) = some x := by
  cases l with
  | nil => rfl
  | cons y ys =>
    show some ((ys ++ [x]).foldl max y) = some x
    rw [foldl_append, foldl_cons, foldl_nil]
    congr 1
    exact max_eq_right (foldl_max_le x ys y (fun z hz => h z (mem_cons_of_mem _ hz)) (h y (mem_cons_self ..)))

theorem maxInt_range (n : Nat) (hn : 1 ≤ n) : maxInt? ((List.range n).map fun (k : Nat) => (k : Int)) = some ((n : Int) - 1) := by
  obtain ⟨m, rfl⟩ : ∃ m, n = m + 1 := ⟨n - 1, by omega⟩
  rw [range_succ, map_append, map_cons, map_nil, maxInt_append_single]
  · congr 1; push_cast; omega
  · intro y hy
    obtain ⟨k, hk, rfl⟩ := mem_map.1 hy
    have := mem_range.1 hk
    omega

theorem foldl_plusEdge_ekeys (es : List (Edge κ)) : ∀ g : Graph κ,
    dKeys (es.foldl Graph.plusEdge g).edges = dKeys g.edges ++ es.map (·.eid) := by
  induction es with
  | nil => intro g; simp
  | cons e es ih =>
    intro g
    rw [foldl_cons, ih, plusEdge_edges]
    simp [dKeys]

/-- a loop of `_molecular_hamiltonian_graph_add_term` calls is a loop of `add_connect_edge` calls with consecutive edge ids -/
theorem terms_fold {ι : Type} (f : Graph κ → ι → Except Err (Graph κ)) (σ : ι → ESpec κ) : ∀ (items : List ι),
    (∀ (g : Graph κ) (m : Int) (it : ι), it ∈ items → maxInt? (dKeys g.edges) = some m →
      f g it = g.addConnectEdge (specEdge (m + 1) (σ it))) →
    ∀ (g : Graph κ) (n : Nat), 1 ≤ n → dKeys g.edges = (List.range n).map (fun (k : Nat) => (k : Int)) →
      items.foldlM f g = (buildEdges (items.map σ) n).foldlM (fun g e => g.addConnectEdge e) g := by
  intro items
  induction items with
  | nil => intro _ g n _ _; rfl
  | cons it items ih =>
    intro hf g n hn hk
    rw [foldlM_cons, map_cons, buildEdges, foldlM_cons]
    have hm : maxInt? (dKeys g.edges) = some ((n : Int) - 1) := by rw [hk]; exact maxInt_range n hn
    rw [hf g _ it (mem_cons_self ..) hm]
    have e1 : (n : Int) - 1 + 1 = n := by omega
    rw [e1]
    cases hg : g.addConnectEdge (specEdge (n : Int) (σ it)) with
    | error e => rfl
    | ok g' =>
      simp only [ok_bind]
      have hg' := (addConnectEdge_eq_plusEdge hg).1
      have := ih (fun g m it' h => hf g m it' (mem_cons_of_mem _ h)) g' (n + 1) (by omega) (by
        rw [hg', plusEdge_edges, range_succ, map_append]
        simp only [dKeys, map_append, map_cons, map_nil] at hk ⊢
        rw [hk]
        rfl)
      rw [this]
      congr 2


theorem wireSpecs_pos (L : Int) (hL : 4 ≤ L) : 1 ≤ (wireSpecs (κ := κ) L).length := by
  rw [wireSpecs_eq, length_map]
  apply List.length_pos_of_mem (a := tri (10, [], 0) (10, [], 0 + 1) mI)
  rw [wireGen_segs]
  apply mem_append_left
  unfold seg1
  exact mem_flatMap.2 ⟨0, mem_pyRange.2 ⟨le_refl _, by omega⟩, mem_singleton.2 rfl⟩

theorem generateGraph_ok (L : Int) (hL : 4 ≤ L) :
    (MolNodes.init L).generateGraph (κ := κ) =
      .ok ((buildEdges ((wireSpecs (κ := κ) L).map (toSpec L)) 0).foldl Graph.plusEdge (explG0 L)) ∨
    ∃ e, (buildEdges ((wireSpecs (κ := κ) L).map (toSpec L)) 0).foldlM (fun g e => g.addConnectEdge e) (explG0 L) = .error e := by
  cases hw : (buildEdges ((wireSpecs (κ := κ) L).map (toSpec L)) 0).foldlM (fun g e => g.addConnectEdge e) (explG0 L) with
  | error e => exact Or.inr ⟨e, rfl⟩
  | ok gW =>
    left
    have hgW := foldlM_acE_ok _ _ _ hw
    unfold MolNodes.generateGraph
    have hLL : (MolNodes.init L).L = L := rfl
    rw [identityL_dGet L 0 (le_refl _) (by omega), hLL, identityR_dGet L L (by omega) (by omega)]
    simp only [ok_bind]
    have hmk : Graph.mk' (MolNodes.init L).nodeList ([] : List (Edge κ)) [0, L + L - 1] = .ok (explG0 L) := by
      have := graph_mk'_ok (κ := κ) (MolNodes.init L).nodeList ⟨0, [], [], 0⟩ ⟨L + L - 1, [], [], 0⟩ (molNodes_ids_nodup L)
        (nodeAt_idL0 L (by omega) ▸ nodeAt_mem L _ (by simp only [labOk]; omega))
        (nodeAt_idRL L (by omega) ▸ nodeAt_mem L _ (by simp only [labOk]; omega))
      exact this
    rw [hmk]
    simp only [ok_bind]
    have hwire := wire_emits (κ := κ) L (explG0 L) 0
    have hspec : wireGen (fun a b o => ((MolNodes.init L).nidOf a, (MolNodes.init L).nidOf b, o, (1 : κ))) L
        = (wireSpecs (κ := κ) L).map (toSpec L) := by
      unfold wireSpecs
      rw [wireGen_map]
      rfl
    rw [hspec, hw] at hwire
    rw [hwire, hgW]
    rfl


/-- **`molecular_hamiltonian_mpo(tkin, vint, optimize=False)` builds its graph for every `L ≥ 4` and all coefficients**: the
terminal look-ups, the `OpGraph` constructor, every look-up and `add_connect_edge` of `generate_graph`, and every look-up, assertion and
`add_connect_edge` of the `L²` hopping and all interaction calls of `_molecular_hamiltonian_graph_add_term` succeed; the result is
`explGraph`. -/
theorem molExplicitGraph_ok (c : Consts κ) (tkin : List (List κ)) (vint : List (List (List (List κ))))
    (hL : 4 ≤ (tkin.length : Int)) :
    molExplicitGraph c tkin vint = .ok (MolNodes.init tkin.length, explGraph c tkin vint tkin.length) := by
  obtain ⟨hfold, _, _, _, _, _⟩ := explGraph_facts c tkin vint (tkin.length : Int) hL
  generalize hLdef : (tkin.length : Int) = L at *
  -- split the edge list
  have hE : explEdges c tkin vint L =
      buildEdges ((wireSpecs (κ := κ) L).map (toSpec L)) 0 ++
        (buildEdges ((hopSpecs L tkin).map (toSpec L)) (0 + (((wireSpecs (κ := κ) L).map (toSpec L)).length : Int)) ++
         buildEdges ((intSpecs c L vint).map (toSpec L))
          (0 + (((wireSpecs (κ := κ) L).map (toSpec L)).length : Int) + (((hopSpecs L tkin).map (toSpec L)).length : Int))) := by
    unfold explEdges
    rw [map_append, map_append, buildEdges_append, buildEdges_append]
  have hEG : explGraph c tkin vint L = (explEdges c tkin vint L).foldl Graph.plusEdge (explG0 L) := rfl
  rw [hE] at hfold hEG
  obtain ⟨f1, f23⟩ := foldlM_acE_append _ _ _ _ hfold
  obtain ⟨f2, f3⟩ := foldlM_acE_append _ _ _ _ f23
  set gW := (buildEdges ((wireSpecs (κ := κ) L).map (toSpec L)) 0).foldl Graph.plusEdge (explG0 L) with hgW
  set nW := ((wireSpecs (κ := κ) L).map (toSpec L)).length with hnW
  set gH := (buildEdges ((hopSpecs L tkin).map (toSpec L)) (0 + (nW : Int))).foldl Graph.plusEdge gW with hgH
  set nH := ((hopSpecs L tkin).map (toSpec L)).length with hnH
  have hnW1 : 1 ≤ nW := by rw [hnW, length_map]; exact wireSpecs_pos L hL
  have kW : dKeys gW.edges = (List.range nW).map fun (k : Nat) => (k : Int) := by
    rw [hgW, foldl_plusEdge_ekeys, buildEdges_eids, ← hnW]
    simp [explG0, dKeys]
  have kH : dKeys gH.edges = (List.range (nW + nH)).map fun (k : Nat) => (k : Int) := by
    rw [hgH, foldl_plusEdge_ekeys, buildEdges_eids, kW, range_add, map_append, map_map]
    congr 1
    apply map_congr_left
    intro k _
    simp only [Function.comp]
    push_cast; omega
  -- generate_graph
  have hgen : (MolNodes.init L).generateGraph (κ := κ) = .ok gW := by
    rcases generateGraph_ok (κ := κ) L hL with h | ⟨e, he⟩
    · exact h
    · rw [f1] at he; cases he
  -- the hopping loop
  have hhop : (hopPairs L).foldlM
      (fun g (ij : Int × Int) => molAddTerm g (MolNodes.init L) [(ij.1, mC), (ij.2, mA)] (t2 tkin ij.1 ij.2)) gW = .ok gH := by
    rw [terms_fold _ (fun p => toSpec L ((hopLab L p.1 p.2).1, (hopLab L p.1 p.2).2.1, (hopLab L p.1 p.2).2.2, t2 tkin p.1 p.2))
      (hopPairs L) ?_ gW nW hnW1 kW]
    · have : (hopPairs L).map (fun p => toSpec L ((hopLab L p.1 p.2).1, (hopLab L p.1 p.2).2.1, (hopLab L p.1 p.2).2.2, t2 tkin p.1 p.2))
          = (hopSpecs L tkin).map (toSpec L) := by
        unfold hopSpecs; rw [map_map]; rfl
      rw [this]
      have e0 : (nW : Int) = 0 + (nW : Int) := by omega
      rw [e0]
      exact f2
    · intro g m p hp hm
      obtain ⟨⟨a, b⟩, ⟨c', d⟩⟩ := (mem_hopPairs L p).1 hp
      rw [molAddTerm_hop_lab L hL g m hm _ p.1 p.2 a b c' d, Ptn.Ch.edgeMk'_single]
      rfl
  -- the interaction loop
  have hint : (intTuples L).foldlM
      (fun g (q : Int × Int × Int × Int) =>
        molAddTerm g (MolNodes.init L) [(q.1, mC), (q.2.1, mC), (q.2.2.2, mA), (q.2.2.1, mA)] (gint c vint q.1 q.2.1 q.2.2.1 q.2.2.2)) gH
        = .ok (explGraph c tkin vint L) := by
    rw [terms_fold _ (fun q => toSpec L ((intLab L q.1 q.2.1 q.2.2.1 q.2.2.2).1, (intLab L q.1 q.2.1 q.2.2.1 q.2.2.2).2.1,
        (intLab L q.1 q.2.1 q.2.2.1 q.2.2.2).2.2, gint c vint q.1 q.2.1 q.2.2.1 q.2.2.2))
      (intTuples L) ?_ gH (nW + nH) (by omega) kH]
    · have : (intTuples L).map (fun q => toSpec L ((intLab L q.1 q.2.1 q.2.2.1 q.2.2.2).1, (intLab L q.1 q.2.1 q.2.2.1 q.2.2.2).2.1,
          (intLab L q.1 q.2.1 q.2.2.1 q.2.2.2).2.2, gint c vint q.1 q.2.1 q.2.2.1 q.2.2.2))
          = (intSpecs c L vint).map (toSpec L) := by
        unfold intSpecs; rw [map_map]; rfl
      rw [this]
      have e0 : ((nW + nH : Nat) : Int) = 0 + (nW : Int) + (nH : Int) := by push_cast; omega
      rw [e0]
      exact f3
    · intro g m q hq hm
      obtain ⟨a, b, c', d, e, f⟩ := (mem_intTuples L q).1 hq
      rw [molAddTerm_int_lab L hL g m hm _ q.1 q.2.1 q.2.2.1 q.2.2.2 a b c' d e f, Ptn.Ch.edgeMk'_single]
      rfl
  unfold molExplicitGraph
  simp only [hLdef]
  have hdec : decide (L ≥ 4) = true := by simpa using hL
  rw [hdec]
  simp only [pyAssert_true_bind]
  rw [hgen]
  simp only [ok_bind]
  show (hopPairs L).foldlM _ gW >>= _ = _
  rw [hhop]
  simp only [ok_bind]
  show (intTuples L).foldlM _ gH >>= _ = _
  have hint' : (intTuples L).foldlM (fun g (q : Int × Int × Int × Int) =>
      match q with
      | (i, j, k, l) => molAddTerm g (MolNodes.init L) [(i, mC), (j, mC), (l, mA), (k, mA)] (gint c vint i j k l)) gH
      = .ok (explGraph c tkin vint L) := hint
  rw [hint']
  rfl

end Ptn.Ham

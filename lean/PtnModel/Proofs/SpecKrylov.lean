import PtnModel.Proofs.KryExpPoly
/-!
# C14: an exact breakdown of the Lanczos / Arnoldi iteration exhausts the Krylov space

* `not_linearIndependent_mulVec`      : `k + 1` vectors in the column space of an `n × k` matrix are linearly dependent;
* `krylov_dependent_of_residual_zero` : if the last Lanczos residual has norm zero, then `A V = V T` (`lanczos_intertwine`),
  hence `A^j v = ‖v‖ V T^j e₀` lies in the column space of the `k` returned vectors for every `j`, and the `k + 1` Krylov
  vectors `v, A v, …, A^k v` are linearly dependent;
* `arnoldi_intertwine`, `krylov_dependent_of_arnoldi_residual_zero` : the same for the Arnoldi iteration (arbitrary linear
  map, `A V = V H` with the returned Hessenberg matrix).
-/

set_option linter.unusedSectionVars false
namespace Ptn.Krylov
open Ptn Finset Matrix

variable {𝕜 : Type} [RCLike 𝕜]
local notation "conj" => starRingEnd 𝕜

/-- more than `k` vectors in the column space of an `n × k` matrix are linearly dependent -/
theorem not_linearIndependent_mulVec {n k : Nat} (V : Matrix (Fin n) (Fin k) 𝕜) (c : Fin (k + 1) → Fin k → 𝕜) :
    ¬ LinearIndependent 𝕜 (fun j => V *ᵥ c j) := by
  intro h
  have h1 : LinearIndependent 𝕜 c := by
    have : (fun j => V *ᵥ c j) = (Matrix.mulVecLin V) ∘ c := rfl
    rw [this] at h
    exact h.of_comp
  have := h1.fintype_card_le_finrank
  simp at this

variable {Afun : List 𝕜 → List 𝕜} {dnorm : List 𝕜 → ℝ}

/-- **exact breakdown ⟹ the Krylov space is exhausted**: if the last Lanczos residual has norm zero then the `k + 1`
Krylov vectors `v, A v, …, A^k v` (`k` the number of returned columns) are linearly dependent -/
theorem krylov_dependent_of_residual_zero (hN : NormContract dnorm) {v : List 𝕜} {numiter : Nat} {M : Nat → Nat → 𝕜}
    (hM : ActsAs v.length Afun M) (hH : ∀ i j, i < v.length → j < v.length → conj (M i j) = M j i)
    {alpha beta : List ℝ} {V : Mat 𝕜} (hl : lanczos Afun dnorm v numiter = .ok (alpha, beta, V))
    (hz : dnorm (lanczosResidual Afun alpha beta V (V.n - 1)) = 0) :
    ¬ LinearIndependent 𝕜 (fun j : Fin (V.n + 1) => (toMatrix v.length M ^ (j : ℕ)) *ᵥ toVec v.length v) := by
  have hX : C15.Exhausted Afun dnorm v numiter := by
    intro a b V' hl'
    rw [hl] at hl'
    injection hl' with e
    injection e with e1 e2
    injection e2 with e2 e3
    subst e1 e2 e3
    exact hz
  obtain ⟨hAV, hv⟩ := lanczos_intertwine hN hM hH hX hl
  have key : ∀ j : ℕ, (toMatrix v.length M ^ j) *ᵥ toVec v.length v =
      toRect v.length V.n V.f *ᵥ (((dnorm v : ℝ) : 𝕜) • ((tridiagMatrix V.n alpha beta ^ j) *ᵥ e0 V.n)) := by
    intro j
    rw [hv, Matrix.mulVec_smul, Matrix.mulVec_mulVec, pow_intertwine _ _ _ hAV j, Matrix.mulVec_smul,
      Matrix.mulVec_mulVec]
  have : (fun j : Fin (V.n + 1) => (toMatrix v.length M ^ (j : ℕ)) *ᵥ toVec v.length v) =
      fun j : Fin (V.n + 1) => toRect v.length V.n V.f *ᵥ
        (((dnorm v : ℝ) : 𝕜) • ((tridiagMatrix V.n alpha beta ^ (j : ℕ)) *ᵥ e0 V.n)) := funext fun j => key j
  rw [this]
  exact not_linearIndependent_mulVec _ _


/-- **`A V = V H`** once the last Arnoldi (Gram–Schmidt) residual vanishes, and `v = ‖v‖ · V e₀` (Mathlib matrices) -/
theorem arnoldi_intertwine (hN : NormContract dnorm) {v : List 𝕜} {numiter : Nat} {M : Nat → Nat → 𝕜}
    (hM : ActsAs v.length Afun M) {H V : Mat 𝕜} (hl : arnoldi Afun dnorm v numiter = .ok (H, V))
    (hX' : dnorm (C14.arnoldiResidual Afun V (V.n - 1)) = 0) :
    toMatrix v.length M * toRect v.length V.n V.f = toRect v.length V.n V.f * toRect V.n V.n H.f ∧
    toVec v.length v = ((dnorm v : ℝ) : 𝕜) • (toRect v.length V.n V.f *ᵥ e0 V.n) := by
  obtain ⟨st, hc, rfl, rfl⟩ := arnoldi_ok Afun dnorm hl
  obtain ⟨k, _, hf⟩ := arnoldiCore_fin hN hc
  obtain ⟨h0, _, _⟩ := arnoldiCore_ok Afun dnorm hc
  have h0' : 0 < dnorm v := of_decide_eq_true h0
  have hnrm : ((dnorm v : ℝ) : 𝕜) ≠ 0 := by exact_mod_cast h0'.ne'
  have hvl : st.V.length = k := hf.sized.2.2
  have hcl : st.cols.length = k := hf.sized.1
  have hfirst := arnoldiCore_first Afun dnorm hc
  set n := v.length with hn
  have hcol : ∀ c, c < k → matCol (colsMat n st.V) c = st.vec c :=
    fun c hc' => matCol_colsMat st.V c (hf.len c hc')
  have hres : C14.arnoldiResidual Afun (colsMat n st.V) (k - 1) = (arW Afun n (k - 1) st).1 := by
    unfold C14.arnoldiResidual arW
    rw [hcol (k - 1) (by have := hf.kpos; omega)]
    have : (List.range (k - 1 + 1)).map (matCol (colsMat n st.V)) = st.V.take (k - 1 + 1) := by
      have hk1 := hf.kpos
      rw [show k - 1 + 1 = k by omega, List.take_of_length_le (by omega)]
      apply List.ext_getElem
      · simp [hvl]
      · intro i h1 h2
        have hi : i < k := by simpa using h1
        simp only [List.getElem_map, List.getElem_range]
        rw [hcol i hi]
        simp [List.getD_eq_getElem?_getD, h2]
    rw [this]; rfl
  have hv : (colsMat n st.V).n = k := hvl
  have hz : ∀ i, i < n → vget (arW Afun n (k - 1) st).1 i = 0 := by
    intro i _
    rw [hv, hres] at hX'
    exact hN.vget_eq_zero hX' i
  have hVf : ∀ j c, (colsMat n st.V).f j c = vget (st.vec c) j := fun _ _ => rfl
  constructor
  · funext i b
    have hb : (b : Nat) < k := by rw [← hv]; exact b.isLt
    rw [toRect_mul, Matrix.mul_apply]
    have e1 := hM (st.vec b) (hf.len b hb) i i.isLt
    have e2 := hf.strong hz hb i.isLt
    have e3 : ∑ j ∈ range n, M i j * (colsMat n st.V).f j b = vget (Afun (st.vec b)) i := by
      rw [e1]; rfl
    rw [e3, e2, ← hv, Finset.sum_range]
    refine Finset.sum_congr rfl fun a _ => ?_
    show _ = (colsMat n st.V).f i a * (hessMat st.cols st.sub).f a b
    rw [hVf]; ring
  · funext i
    rw [Pi.smul_apply, mulVec_e0 (by rw [hv]; exact hf.kpos)]
    show vget v i = _ * vget (st.V.getD 0 []) i
    rw [hfirst, vget_vdiv i.isLt, ofReal_eq]
    show vget v i = ((dnorm v : ℝ) : 𝕜) * (vget v i / ((dnorm v : ℝ) : 𝕜))
    field_simp

/-- **exact Arnoldi breakdown ⟹ the Krylov space is exhausted** (arbitrary linear map) -/
theorem krylov_dependent_of_arnoldi_residual_zero (hN : NormContract dnorm) {v : List 𝕜} {numiter : Nat}
    {M : Nat → Nat → 𝕜} (hM : ActsAs v.length Afun M) {H V : Mat 𝕜}
    (hl : arnoldi Afun dnorm v numiter = .ok (H, V))
    (hz : dnorm (C14.arnoldiResidual Afun V (V.n - 1)) = 0) :
    ¬ LinearIndependent 𝕜 (fun j : Fin (V.n + 1) => (toMatrix v.length M ^ (j : ℕ)) *ᵥ toVec v.length v) := by
  obtain ⟨hAV, hv⟩ := arnoldi_intertwine hN hM hl hz
  have key : ∀ j : ℕ, (toMatrix v.length M ^ j) *ᵥ toVec v.length v =
      toRect v.length V.n V.f *ᵥ (((dnorm v : ℝ) : 𝕜) • ((toRect V.n V.n H.f ^ j) *ᵥ e0 V.n)) := by
    intro j
    rw [hv, Matrix.mulVec_smul, Matrix.mulVec_mulVec, pow_intertwine _ _ _ hAV j, Matrix.mulVec_smul,
      Matrix.mulVec_mulVec]
  have : (fun j : Fin (V.n + 1) => (toMatrix v.length M ^ (j : ℕ)) *ᵥ toVec v.length v) =
      fun j : Fin (V.n + 1) => toRect v.length V.n V.f *ᵥ
        (((dnorm v : ℝ) : 𝕜) • ((toRect V.n V.n H.f ^ (j : ℕ)) *ᵥ e0 V.n)) := funext fun j => key j
  rw [this]
  exact not_linearIndependent_mulVec _ _

end Ptn.Krylov

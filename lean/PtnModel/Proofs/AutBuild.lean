import PtnModel.Proofs.AutReach
/-!
# `from_automaton`: the structure of the unrolled graph

The edge dictionary of the result, with edge ids stripped, is the concatenation over the sites `j` of the
records `(source, target, operators)` created for the active in-edges of the active states of layer `j+1`.
-/
set_option linter.unusedSectionVars false

namespace Ptn.Og
open List Ptn.Dense

variable {κ : Type} [CommRing κ] [DecidableEq κ]

/-- an edge without its id -/
abbrev ERec (κ : Type) := (Int × Int) × List (Int × κ)

def Graph.recs (g : Graph κ) : List (ERec κ) := g.edges.map fun ke => (ke.2.nids, ke.2.opics)

/-- the operator list stored by `OpGraphEdge.__init__` -/
def normOpics (l : List (Int × κ)) : List (Int × κ) :=
  sortOpics (l.foldl (fun acc p => mergeOpic acc p.1 p.2) [])

theorem opcL_normOpics (l : List (Int × κ)) (o : Int) : opcL (normOpics l) o = opcL l o := by
  have := opc_mk' 0 (0, 0) l o
  rwa [opc_eq_opcL] at this

/-- records created by `autEdgesStep` for the in-edges `es` of one new node `y` at site `i` -/
def recsNode (actPrev mapPrev : List Int) (i : Nat) (y : Int) (es : List (AEdge κ)) : List (ERec κ) :=
  es.filterMap fun e =>
    if e.active i && actPrev.contains e.nids.1 then
      some ((mapPrev.getD (actPrev.idxOf e.nids.1) 0, y), normOpics (e.opics i))
    else none

theorem pyIdx_ok {α : Type} {l : List α} {i : Nat} {x : α} (h : pyIdx l i = .ok x) : l[i]? = some x := by
  unfold pyIdx at h
  cases hl : l[i]? with
  | none => rw [hl] at h; cases h
  | some y => rw [hl] at h; cases h; rfl

theorem autEdgesStep_spec {actPrev mapPrev : List Int} {i : Nat} {y : Int} {s s' : AutState κ} {e : AEdge κ}
    (h : autEdgesStep actPrev mapPrev i y s e = .ok s') (hnd : NoDup s.graph) :
    NoDup s'.graph ∧ s'.graph.recs = s.graph.recs ++ recsNode actPrev mapPrev i y [e] ∧
      dKeys s'.graph.nodes = dKeys s.graph.nodes ∧ s'.graph.nidTerminal = s.graph.nidTerminal ∧
      s'.nidNext = s.nidNext := by
  unfold autEdgesStep at h
  by_cases h1 : e.active i = true
  · by_cases h2 : actPrev.contains e.nids.1 = true
    · simp only [h1, h2, Bool.not_true, Bool.false_eq_true, if_false] at h
      rw [bind_ok] at h
      obtain ⟨nidPrev, hp, h⟩ := h
      rw [bind_ok] at h
      obtain ⟨g, hg, h⟩ := h
      rw [pure_ok] at h
      subst h
      obtain ⟨n1, e1, _, k1, t1⟩ := hnd.addConnectEdge hg
      refine ⟨n1, ?_, k1, t1, rfl⟩
      have hp' := pyIdx_ok hp
      simp only [Graph.recs, e1, map_append, map_cons, map_nil, recsNode, filterMap_cons, filterMap_nil,
        h1, h2, Bool.and_self, if_true]
      rw [List.getD_eq_getElem?_getD, hp']
      rfl
    · simp only [h1, h2, Bool.not_true, Bool.not_false, Bool.false_eq_true, if_false, if_true] at h
      rw [pure_ok] at h
      subst h
      have h2' : e.nids.1 ∉ actPrev := by simpa using h2
      simp [recsNode, h1, h2', hnd]
  · simp only [h1, Bool.not_false, if_true] at h
    rw [pure_ok] at h
    subst h
    simp [recsNode, h1, hnd]

theorem recsNode_append (actPrev mapPrev : List Int) (i : Nat) (y : Int) (es es' : List (AEdge κ)) :
    recsNode actPrev mapPrev i y (es ++ es') = recsNode actPrev mapPrev i y es ++ recsNode actPrev mapPrev i y es' := by
  simp [recsNode, filterMap_append]

theorem autEdges_spec {actPrev mapPrev : List Int} {i : Nat} {y : Int} (es : List (AEdge κ)) {s s' : AutState κ}
    (h : es.foldlM (autEdgesStep actPrev mapPrev i y) s = .ok s') (hnd : NoDup s.graph) :
    NoDup s'.graph ∧ s'.graph.recs = s.graph.recs ++ recsNode actPrev mapPrev i y es ∧
      dKeys s'.graph.nodes = dKeys s.graph.nodes ∧ s'.graph.nidTerminal = s.graph.nidTerminal ∧
      s'.nidNext = s.nidNext := by
  have := foldlM_ok_ind _ (fun pre (t : AutState κ) => NoDup t.graph ∧
      t.graph.recs = s.graph.recs ++ recsNode actPrev mapPrev i y pre ∧
      dKeys t.graph.nodes = dKeys s.graph.nodes ∧ t.graph.nidTerminal = s.graph.nidTerminal ∧
      t.nidNext = s.nidNext) ?_ es [] s s' ?_ h
  · simpa using this
  · intro pre e t t' ⟨a1, a2, a3, a4, a5⟩ hf
    obtain ⟨b1, b2, b3, b4, b5⟩ := autEdgesStep_spec hf a1
    refine ⟨b1, ?_, by rw [b3, a3], by rw [b4, a4], by rw [b5, a5]⟩
    rw [b2, a2, recsNode_append, append_assoc]
  · exact ⟨hnd, by simp [recsNode], rfl, rfl, rfl⟩

/-- the in-edges of an automaton node, in the order of its id list -/
def inE (a : AutOp κ) (n : Node) : List (AEdge κ) := n.eidsIn.filterMap (dGet? a.edges)

theorem mapM_dGet_ok {β : Type} (d : List (Int × β)) :
    ∀ (l : List Int) (r : List β), l.mapM (fun k => dGet d k) = .ok r →
      r = l.filterMap (dGet? d) ∧ ∀ k ∈ l, k ∈ dKeys d := by
  intro l
  induction l with
  | nil => intro r h; rw [mapM_ok_nil] at h; subst h; simp
  | cons x xs ih =>
    intro r h
    rw [mapM_ok_cons] at h
    obtain ⟨y, ys, h1, h2, rfl⟩ := h
    rw [dGet_eq_ok_iff] at h1
    obtain ⟨i1, i2⟩ := ih ys h2
    refine ⟨by rw [filterMap_cons, h1, ← i1], ?_⟩
    intro k hk
    rcases mem_cons.1 hk with rfl | hk
    · by_contra hc
      rw [← dGet?_eq_none_iff] at hc
      rw [hc] at h1; cases h1
    · exact i2 k hk

theorem autLayerStep_spec {a : AutOp κ} {actPrev mapPrev : List Int} {i : Nat} {s s' : AutState κ}
    {m m' : List Int} {nodeAut : Node}
    (h : autLayerStep a actPrev mapPrev i (s, m) nodeAut = .ok (s', m')) (hnd : NoDup s.graph) :
    NoDup s'.graph ∧ s'.graph.recs = s.graph.recs ++ recsNode actPrev mapPrev i s.nidNext (inE a nodeAut) ∧
      dKeys s'.graph.nodes = dKeys s.graph.nodes ++ [s.nidNext] ∧ s.nidNext ∉ dKeys s.graph.nodes ∧
      s'.graph.nidTerminal = s.graph.nidTerminal ∧ s'.nidNext = s.nidNext + 1 ∧ m' = m ++ [s.nidNext] := by
  unfold autLayerStep at h
  simp only [Node.mk'_nil] at h
  rw [bind_ok] at h
  obtain ⟨n, hn, h⟩ := h
  cases hn
  rw [bind_ok] at h
  obtain ⟨g1, hg1, h⟩ := h
  rw [bind_ok] at h
  obtain ⟨es, hes, h⟩ := h
  rw [bind_ok] at h
  obtain ⟨s2, hs2, h⟩ := h
  rw [pure_ok] at h
  cases h
  have n1 := hnd.addNode (n := ⟨s.nidNext, [], [], nodeAut.qnum⟩) (by intro d; cases d <;> simp [Node.eids]) hg1
  obtain ⟨hk, rfl⟩ := addNode_ok.1 hg1
  obtain ⟨b1, b2, b3, b4, b5⟩ := autEdges_spec es hs2 n1
  obtain ⟨rfl, _⟩ := mapM_dGet_ok _ _ _ hes
  refine ⟨b1, ?_, ?_, hk, b4, b5, rfl⟩
  · rw [b2]; rfl
  · rw [b3]; simp [dKeys]

/-- records created for one layer: the new nodes `ys` (parallel to the automaton nodes `ns`) at site `i` -/
def recsLayer (a : AutOp κ) (actPrev mapPrev : List Int) (i : Nat) (ns : List Node) (ys : List Int) : List (ERec κ) :=
  (ns.zip ys).flatMap fun ny => recsNode actPrev mapPrev i ny.2 (inE a ny.1)

/-- consecutive ids -/
def idRange (start : Int) (n : Nat) : List Int := (List.range n).map fun (q : Nat) => start + (q : Int)

theorem idRange_succ (start : Int) (n : Nat) : idRange start (n + 1) = idRange start n ++ [start + (n : Int)] := by
  simp [idRange, List.range_succ]

@[simp] theorem idRange_length (start : Int) (n : Nat) : (idRange start n).length = n := by simp [idRange]

theorem mem_idRange {start : Int} {n : Nat} {y : Int} : y ∈ idRange start n ↔ start ≤ y ∧ y < start + n := by
  simp only [idRange, List.mem_map]
  constructor
  · rintro ⟨q, hq, rfl⟩
    have := List.mem_range.1 hq
    omega
  · rintro ⟨h1, h2⟩
    exact ⟨(y - start).toNat, List.mem_range.2 (by omega), by omega⟩

theorem autLayer_spec {a : AutOp κ} {actPrev mapPrev : List Int} {i : Nat} (ns : List Node) {s s' : AutState κ}
    {m' : List Int} (h : ns.foldlM (autLayerStep a actPrev mapPrev i) (s, []) = .ok (s', m')) (hnd : NoDup s.graph) :
    NoDup s'.graph ∧ s'.graph.recs = s.graph.recs ++ recsLayer a actPrev mapPrev i ns m' ∧
      dKeys s'.graph.nodes = dKeys s.graph.nodes ++ m' ∧ m' = idRange s.nidNext ns.length ∧
      s'.graph.nidTerminal = s.graph.nidTerminal ∧ s'.nidNext = s.nidNext + ns.length := by
  have := foldlM_ok_ind _ (fun pre (tm : AutState κ × List Int) => NoDup tm.1.graph ∧
      tm.1.graph.recs = s.graph.recs ++ recsLayer a actPrev mapPrev i pre tm.2 ∧
      dKeys tm.1.graph.nodes = dKeys s.graph.nodes ++ tm.2 ∧ tm.2 = idRange s.nidNext pre.length ∧
      tm.1.graph.nidTerminal = s.graph.nidTerminal ∧ tm.1.nidNext = s.nidNext + pre.length)
      ?_ ns [] (s, []) (s', m') ?_ h
  · simpa using this
  · rintro pre n ⟨t, m⟩ ⟨t', m''⟩ ⟨a1, a2, a3, a4, a5, a6⟩ hf
    simp only at a1 a2 a3 a4 a5 a6
    obtain ⟨b1, b2, b3, _, b5, b6, b7⟩ := autLayerStep_spec hf a1
    subst b7
    refine ⟨b1, ?_, ?_, ?_, by rw [b5, a5], ?_⟩
    · have hl : pre.length = m.length := by rw [a4]; simp
      simp only [recsLayer] at a2 ⊢
      rw [b2, a2, List.zip_append hl, flatMap_append, append_assoc]
      simp
    · simp only; rw [b3, a3, append_assoc]
    · simp only [length_append, length_cons, length_nil, zero_add]
      rw [idRange_succ, ← a4, a6]
    · simp only [length_append, length_cons, length_nil, zero_add]
      rw [b6, a6]; push_cast; ring
  · exact ⟨hnd, by simp [recsLayer], by simp, by simp [idRange], rfl, by simp⟩

/-! ## one site -/

/-- in-edges of the automaton state `v` -/
def inEv (a : AutOp κ) (v : Int) : List (AEdge κ) :=
  match dGet? a.nodes v with
  | some n => inE a n
  | none => []

/-- records of one layer in terms of the automaton states `vs` and their graph nodes `ys` -/
def recsLayerV (a : AutOp κ) (actPrev mapPrev : List Int) (i : Nat) (vs ys : List Int) : List (ERec κ) :=
  (vs.zip ys).flatMap fun vy => recsNode actPrev mapPrev i vy.2 (inEv a vy.1)

theorem recsLayer_eq_V (a : AutOp κ) (actPrev mapPrev : List Int) (i : Nat) :
    ∀ (vs : List Int) (ns : List Node) (ys : List Int),
      List.Forall₂ (fun v n => dGet a.nodes v = .ok n) vs ns →
      recsLayer a actPrev mapPrev i ns ys = recsLayerV a actPrev mapPrev i vs ys := by
  intro vs ns ys h
  induction h generalizing ys with
  | nil => simp [recsLayer, recsLayerV]
  | cons h1 _ ih =>
    cases ys with
    | nil => simp [recsLayer, recsLayerV]
    | cons y ys =>
      simp only [recsLayer, recsLayerV, zip_cons_cons, flatMap_cons] at ih ⊢
      rw [ih ys]
      rw [dGet_eq_ok_iff] at h1
      simp [inEv, h1]

/-- the body of the sweep `for i in range(length)` of `from_automaton` -/
def autSiteStep (a : AutOp κ) (act : List (List Int)) (acc : AutState κ × List (List Int)) (i : Nat) :
    Except Err (AutState κ × List (List Int)) := do
  let nodesAut ← (act.getD (i + 1) []).mapM (fun nid => dGet a.nodes nid)
  let x ← nodesAut.foldlM (autLayerStep a (act.getD i []) (acc.2.getD i []) i) (acc.1, [])
  pure (x.1, acc.2 ++ [x.2])

theorem autSiteStep_spec {a : AutOp κ} {act : List (List Int)} {s s' : AutState κ} {maps maps' : List (List Int)}
    {i : Nat} (h : autSiteStep a act (s, maps) i = .ok (s', maps')) (hnd : NoDup s.graph) :
    ∃ m', maps' = maps ++ [m'] ∧ m' = idRange s.nidNext (act.getD (i + 1) []).length ∧
      NoDup s'.graph ∧
      s'.graph.recs = s.graph.recs ++ recsLayerV a (act.getD i []) (maps.getD i []) i (act.getD (i + 1) []) m' ∧
      dKeys s'.graph.nodes = dKeys s.graph.nodes ++ m' ∧
      s'.graph.nidTerminal = s.graph.nidTerminal ∧ s'.nidNext = s.nidNext + (act.getD (i + 1) []).length ∧
      (∀ v ∈ act.getD (i + 1) [], v ∈ dKeys a.nodes) := by
  unfold autSiteStep at h
  rw [bind_ok] at h
  obtain ⟨ns, hns, h⟩ := h
  rw [bind_ok] at h
  obtain ⟨⟨t, m'⟩, hx, h⟩ := h
  rw [pure_ok] at h
  cases h
  obtain ⟨b1, b2, b3, b4, b5, b6⟩ := autLayer_spec ns hx hnd
  have hf := (mapM_ok_forall₂ _ _ _).1 hns
  have hlen : ns.length = (act.getD (i + 1) []).length := hf.length_eq.symm
  refine ⟨m', rfl, by rw [b4, hlen], b1, ?_, b3, b5, by rw [b6, hlen], (mapM_dGet_ok _ _ _ hns).2⟩
  rw [b2, recsLayer_eq_V a _ _ i _ ns m' hf]

/-! ## the sweep -/

def actLen (act : List (List Int)) (j : Nat) : Nat := (act.getD j []).length

/-- number of graph nodes before layer `j` = id of the first node of layer `j` -/
def lo (act : List (List Int)) : Nat → Nat
  | 0 => 0
  | j + 1 => lo act j + actLen act j

/-- graph node ids of layer `j` (parallel to `act[j]`) -/
def mapsF (act : List (List Int)) (j : Nat) : List Int := idRange (lo act j) (actLen act j)

/-- the edge records created at site `j` -/
def siteRecs (a : AutOp κ) (act : List (List Int)) (j : Nat) : List (ERec κ) :=
  recsLayerV a (act.getD j []) (mapsF act j) j (act.getD (j + 1) []) (mapsF act (j + 1))

theorem idRange_append (start : Int) (n m : Nat) :
    idRange start n ++ idRange (start + n) m = idRange start (n + m) := by
  induction m with
  | zero => simp [idRange]
  | succ m ih =>
    rw [← Nat.add_assoc, idRange_succ, idRange_succ, ← append_assoc, ih]
    congr 2
    push_cast; ring

theorem lo_mono (act : List (List Int)) {j j' : Nat} (h : j ≤ j') : lo act j ≤ lo act j' := by
  induction h with
  | refl => exact Nat.le_refl _
  | step _ ih => exact Nat.le_trans ih (by simp [lo])

/-- invariant of the sweep after `k` sites -/
structure SweepInv (a : AutOp κ) (act : List (List Int)) (k : Nat) (sm : AutState κ × List (List Int)) : Prop where
  nodup : NoDup sm.1.graph
  mapsLen : sm.2.length = k + 1
  maps : ∀ j, j ≤ k → sm.2.getD j [] = mapsF act j
  nidNext : sm.1.nidNext = lo act (k + 1)
  recs : sm.1.graph.recs = (List.range k).flatMap (siteRecs a act)
  keys : dKeys sm.1.graph.nodes = [0, -1] ++ idRange 1 (lo act (k + 1) - 1)
  term : sm.1.graph.nidTerminal = (0, -1)
  actNodes : ∀ j, j ≤ k → ∀ v ∈ act.getD j [], v ∈ dKeys a.nodes

theorem sweep_step {a : AutOp κ} {act : List (List Int)} (h0 : actLen act 0 = 1) {k : Nat}
    {sm sm' : AutState κ × List (List Int)} (inv : SweepInv a act k sm)
    (h : autSiteStep a act sm k = .ok sm') : SweepInv a act (k + 1) sm' := by
  obtain ⟨s, maps⟩ := sm
  obtain ⟨s', maps'⟩ := sm'
  obtain ⟨m', rfl, hm', b1, b2, b3, b4, b5, b6⟩ := autSiteStep_spec h inv.nodup
  have hnid := inv.nidNext
  simp only at hnid
  have hm'' : m' = mapsF act (k + 1) := by rw [hm', hnid]; rfl
  have hlo1 : 1 ≤ lo act (k + 1) := by
    have := lo_mono act (show 1 ≤ k + 1 by omega)
    simp only [lo, h0] at this ⊢
    omega
  refine ⟨b1, by simp [inv.mapsLen], ?_, ?_, ?_, ?_, by rw [b4]; exact inv.term, ?_⟩
  · intro j hj
    simp only
    by_cases hjk : j ≤ k
    · rw [List.getD_eq_getElem?_getD, List.getElem?_append_left (by have := inv.mapsLen; simp only at this; omega),
        ← List.getD_eq_getElem?_getD]
      exact inv.maps j hjk
    · have : j = k + 1 := by omega
      subst this
      have hl := inv.mapsLen
      simp only at hl
      rw [List.getD_eq_getElem?_getD, List.getElem?_append_right (by omega)]
      simp [hl, hm'']
  · simp only
    rw [b5, hnid]
    simp only [lo, actLen]
    push_cast; ring
  · simp only
    rw [b2, inv.recs, List.range_succ, flatMap_append]
    simp only [flatMap_cons, flatMap_nil, append_nil]
    rw [siteRecs, ← hm'', inv.maps k (Nat.le_refl _)]
  · simp only
    rw [b3, inv.keys, hm'', mapsF, append_assoc]
    congr 1
    have e1 : ((lo act (k + 1) : Nat) : Int) = (1 : Int) + ((lo act (k + 1) - 1 : Nat) : Int) := by omega
    rw [e1, idRange_append]
    congr 1
    show lo act (k + 1) - 1 + actLen act (k + 1) = lo act (k + 1) + actLen act (k + 1) - 1
    omega
  · intro j hj v hv
    by_cases hjk : j ≤ k
    · exact inv.actNodes j hjk v hv
    · have : j = k + 1 := by omega
      subst this
      exact b6 v hv

/-! ## `from_automaton` -/

/-- `nids_active` -/
def actOf (back fwd : List (List Int)) : List (List Int) :=
  List.zipWith (fun s0 s1 => s0.filter (fun x => s1.contains x)) back fwd

theorem dKeys_dErase {β : Type} (d : List (Int × β)) (k : Int) : dKeys (dErase d k) = (dKeys d).erase k := by
  induction d with
  | nil => rfl
  | cons p rest ih =>
    obtain ⟨k1, v1⟩ := p
    unfold dErase
    by_cases h : k1 = k
    · subst h; simp [dKeys]
    · have hb : (k1 == k) = false := by simpa using h
      simp only [hb, Bool.false_eq_true, if_false]
      simp only [dKeys, map_cons] at ih ⊢
      rw [ih, List.erase_cons_tail (by simpa using h)]

theorem foldl_max_idRange (m : Int) (N : Nat) : (idRange 1 N).foldl max m = if N = 0 then m else max m N := by
  induction N with
  | zero => simp [idRange]
  | succ N ih =>
    rw [idRange_succ, foldl_append, ih]
    by_cases hN : N = 0
    · subst hN; simp
    · simp only [hN, if_false, foldl_cons, foldl_nil, Nat.succ_ne_zero]
      push_cast
      omega

theorem getLastD_eq_getD {α : Type} (l : List α) (n : Nat) (h : l.length = n + 1) (d : α) :
    l.getLastD d = l.getD n d := by
  rw [List.getLastD_eq_getLast?, List.getLast?_eq_getElem?, List.getD_eq_getElem?_getD, h]
  simp

theorem headD_eq_getD {α : Type} (l : List α) (d : α) : l.headD d = l.getD 0 d := by cases l <;> rfl

theorem fromAutomaton_unrolled {a : AutOp κ} {L : Int} {g : Graph κ} (h : fromAutomaton a L = .ok g) :
    1 ≤ L ∧ ∃ back fwd, a.backwardLayers L.toNat = .ok back ∧ a.forwardLayers L.toNat = .ok fwd ∧
      (actOf back fwd).getD 0 [] = [a.term false] ∧ (actOf back fwd).getD L.toNat [] = [a.term true] ∧
      g.recs = (List.range L.toNat).flatMap (siteRecs a (actOf back fwd)) ∧ NoDup g ∧ g.isConsistent = true ∧
      g.nidTerminal = (0, (lo (actOf back fwd) L.toNat : Int)) ∧
      dKeys g.nodes = 0 :: idRange 1 (lo (actOf back fwd) (L.toNat + 1) - 1) ∧
      (∀ j, j ≤ L.toNat → ∀ v ∈ (actOf back fwd).getD j [], v ∈ dKeys a.nodes) := by
  unfold fromAutomaton at h
  by_cases hL : L < 1
  · simp only [hL, if_true] at h
    rw [throw_bind_ne] at h
    exact h.elim
  simp only [hL, if_false] at h
  rw [bind_ok] at h
  obtain ⟨back, hback, h⟩ := h
  rw [bind_ok] at h
  obtain ⟨fwd, hfwd, h⟩ := h
  rw [← actOf] at h
  generalize hact : actOf back fwd = act at h
  rw [pyAssert_bind] at h
  obtain ⟨hlen, h⟩ := h
  rw [pyAssert_bind] at h
  obtain ⟨hhead, h⟩ := h
  rw [pyAssert_bind] at h
  obtain ⟨hlast, h⟩ := h
  rw [bind_ok] at h
  obtain ⟨term0, hterm0, h⟩ := h
  simp only [Node.mk'_nil] at h
  rw [bind_ok] at h
  obtain ⟨n0, hn0, h⟩ := h
  cases hn0
  rw [bind_ok] at h
  obtain ⟨nd, hnd, h⟩ := h
  cases hnd
  rw [bind_ok] at h
  obtain ⟨g0, hg0, h⟩ := h
  have hg0' : g0 = ⟨[(0, ⟨0, [], [], term0.qnum⟩), (-1, ⟨-1, [], [], 0⟩)], [], (0, -1)⟩ := by
    have : Graph.mk' [⟨0, [], [], term0.qnum⟩, ⟨-1, [], [], 0⟩] ([] : List (Edge κ)) [0, -1]
        = .ok ⟨[(0, ⟨0, [], [], term0.qnum⟩), (-1, ⟨-1, [], [], 0⟩)], [], (0, -1)⟩ := rfl
    rw [this] at hg0
    cases hg0; rfl
  subst hg0'
  rw [bind_ok] at h
  obtain ⟨⟨s, maps⟩, hsweep, h⟩ := h
  simp only [beq_iff_eq] at hlen hhead hlast
  rw [headD_eq_getD] at hhead
  rw [getLastD_eq_getD _ _ hlen] at hlast
  have h0 : actLen act 0 = 1 := by unfold actLen; rw [hhead]; rfl
  -- the sweep
  have hsweep' : (List.range L.toNat).foldlM (autSiteStep a act)
      ((⟨⟨[(0, ⟨0, [], [], term0.qnum⟩), (-1, ⟨-1, [], [], 0⟩)], [], (0, -1)⟩, 1, 0⟩ : AutState κ), [[0]])
      = .ok (s, maps) := hsweep
  have inv : SweepInv a act L.toNat (s, maps) := by
    refine foldlM_range_ind _ (SweepInv a act) L.toNat _ _ (fun i sm sm' _ hi hf => sweep_step h0 hi hf) ?_ hsweep'
    refine ⟨⟨by simp [dKeys], by simp [dKeys], ?_⟩, rfl, ?_, by simp [lo, h0], by simp [Graph.recs],
      by simp [lo, h0, dKeys, idRange], rfl, ?_⟩
    · intro k n hm d
      simp only [mem_cons, Prod.mk.injEq, not_mem_nil, or_false] at hm
      rcases hm with ⟨_, rfl⟩ | ⟨_, rfl⟩ <;> cases d <;> simp [Node.eids]
    · intro j hj
      have : j = 0 := by omega
      subst this
      simp [mapsF, lo, h0, idRange]
    · intro j hj v hv
      have : j = 0 := by omega
      subst this
      rw [hhead] at hv
      simp only [mem_singleton] at hv
      subst hv
      by_contra hc
      rw [← dGet?_eq_none_iff] at hc
      rw [dGet_eq_ok_iff, hc] at hterm0
      cases hterm0
  -- the final steps
  have hlo1 : 1 ≤ lo act L.toNat := by
    have := lo_mono act (show 1 ≤ L.toNat by omega)
    simp only [lo, h0] at this
    omega
  have hlenL : actLen act L.toNat = 1 := by unfold actLen; rw [hlast]; rfl
  have hkeys := inv.keys
  simp only at hkeys
  have hmax : maxInt? (dKeys s.graph.nodes) = some (lo act L.toNat : Int) := by
    rw [hkeys]
    simp only [cons_append, nil_append, maxInt?, foldl_cons]
    rw [foldl_max_idRange]
    simp only [lo, hlenL]
    have : lo act L.toNat + 1 - 1 ≠ 0 := by omega
    simp only [this, if_false]
    congr 1
  rw [hmax] at h
  simp only at h
  rw [bind_ok] at h
  obtain ⟨last, hl, h⟩ := h
  rw [pure_ok] at hl
  subst hl
  rw [bind_ok] at h
  obtain ⟨⟨nrem, g1⟩, hrem, h⟩ := h
  rw [pyAssert_bind] at h
  obtain ⟨hcons, h⟩ := h
  rw [pure_ok] at h
  simp only at h hcons
  subst h
  have hnd1 : NoDup g1 := (inv.nodup.setTerm true _).removeNode hrem
  obtain ⟨_, rfl⟩ := removeNode_ok.1 hrem
  refine ⟨by omega, back, fwd, hback, hfwd, by rw [hact]; exact hhead, by rw [hact]; exact hlast, ?_, hnd1, hcons, ?_, ?_, ?_⟩
  · rw [hact]; exact inv.recs
  · rw [hact]
    have := inv.term
    simp only at this
    simp [Graph.setTerm, this]
  · rw [hact]
    simp only [Graph.setTerm, if_true]
    rw [dKeys_dErase, hkeys]
    simp
  · rw [hact]; exact inv.actNodes

end Ptn.Og

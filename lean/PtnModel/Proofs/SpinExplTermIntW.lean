import PtnModel.Proofs.SpinExplTermInt
import PtnModel.Proofs.SpinExplTermIntW0000
import PtnModel.Proofs.SpinExplTermIntW1111
import PtnModel.Proofs.SpinExplTermIntW0101
import PtnModel.Proofs.SpinExplTermIntW1010
import PtnModel.Proofs.SpinExplTermIntW0110
import PtnModel.Proofs.SpinExplTermIntW1001
/-!
# Explicit spin-orbital molecular graph: the edge of every interaction term spells the term's word

The crossing word of the edge of `a†_{iσ} a†_{jτ} a_{lυ} a_{kμ}` (left word of the source, operator, right word of the target) is the
pair word of the Jordan-Wigner word `intF` on the `2 L` modes `md i σ = 2 i + σ` (`STw`).
The six admissible spin patterns are treated in `SpinExplTermIntW<σ τ μ υ>.lean` (parts `…p<n>`: one lemma per relative order of the
sites and per branch of the `L / 2` conditions).
-/
set_option linter.unusedSectionVars false
set_option linter.unusedSimpArgs false
set_option linter.unusedVariables false
set_option linter.unusedTactic false
set_option linter.unreachableTactic false

namespace Ptn.Ham
open Ptn.Og List Ptn.Ham2

/-- **every interaction term**: its edge spells the pair word of the Jordan-Wigner letters `intF` of `a†_{iσ} a†_{jτ} a_{lυ} a_{kμ}` -/
theorem sint_word (L : Int) (hL : 2 ≤ L) (i s j t k m l u : Int) (hi : 0 ≤ i) (hjL : j < L) (hk : 0 ≤ k) (hlL : l < L)
    (hs : s = 0 ∨ s = 1) (ht : t = 0 ∨ t = 1) (hm : m = 0 ∨ m = 1) (hu : u = 0 ∨ u = 1)
    (hij : i < j ∨ (i = j ∧ s < t)) (hkl : k < l ∨ (k = l ∧ m < u)) (hv : (s = m ∧ t = u) ∨ (s = u ∧ t = m)) :
    ∃ x, stermE L (sortTrips [(i, s, mC), (j, t, mC), (l, u, mA), (k, m, mA)]) = .ok x ∧
      STw L (intF (md i s).toNat (md j t).toNat (md k m).toNat (md l u).toNat) x := by
  rcases hs with rfl | rfl <;> rcases ht with rfl | rfl <;> rcases hm with rfl | rfl <;> rcases hu with rfl | rfl <;>
  first
  | (exfalso; omega)
  | exact sint_word_0000 L hL i j k l hi hjL hk hlL (by omega) (by omega)
  | exact sint_word_1111 L hL i j k l hi hjL hk hlL (by omega) (by omega)
  | exact sint_word_0101 L hL i j k l hi hjL hk hlL (by omega) (by omega)
  | exact sint_word_1010 L hL i j k l hi hjL hk hlL (by omega) (by omega)
  | exact sint_word_0110 L hL i j k l hi hjL hk hlL (by omega) (by omega)
  | exact sint_word_1001 L hL i j k l hi hjL hk hlL (by omega) (by omega)

theorem sintLab_word (L : Int) (hL : 2 ≤ L) (i s j t k m l u : Int) (hi : 0 ≤ i) (hjL : j < L) (hk : 0 ≤ k) (hlL : l < L)
    (hs : s = 0 ∨ s = 1) (ht : t = 0 ∨ t = 1) (hm : m = 0 ∨ m = 1) (hu : u = 0 ∨ u = 1)
    (hij : i < j ∨ (i = j ∧ s < t)) (hkl : k < l ∨ (k = l ∧ m < u)) (hv : (s = m ∧ t = u) ∨ (s = u ∧ t = m)) :
    STw L (intF (md i s).toNat (md j t).toNat (md k m).toNat (md l u).toNat) (sintLab L i s j t k m l u) := by
  obtain ⟨x, hx, h⟩ := sint_word L hL i s j t k m l u hi hjL hk hlL hs ht hm hu hij hkl hv
  have : sintLab L i s j t k m l u = x := by unfold sintLab; rw [hx]; rfl
  rw [this]
  exact h

end Ptn.Ham

import PtnModel.Proofs.EvoExactExampleAux1
/-!
# Scalar dense operator, one Lanczos iteration: `MidExact`, `LeftExact`, `RightExact` at every canonical state

The only remaining condition is that the block QR keeps the bond dimension (`hqr`).  For a single charge sector the block QR
makes one kernel call and returns `min m n` columns: `qr_zero22` (`2 × 2`), `qr_zero41` (`4 × 1`).
-/
set_option linter.unusedSectionVars false

namespace Ptn.Evo
open Ptn Ptn.BondOps Ptn.Ortho Ptn.Env Ptn.Krylov Ptn.Dense Finset

variable {𝕜 : Type} [RCLike 𝕜] [DecidableEq 𝕜]
variable {k : EvoKernels 𝕜 ℝ} {H : MPO 𝕜} {qd : List Int}

theorem midExact_scalar (ctx : SweepCtx k H qd 1) {μ : ℝ} (hS : DenseScalar H qd.length μ) {s : Sweep 𝕜} {c : Nat}
    (h : Canon H qd s c) : MidExact k H 1 s c := by
  obtain ⟨hF, hH⟩ := canon_local h ctx.hH ctx.herm
  exact exhausted_local ctx.norm hF hH (scalar_canon h ctx.hH hS)

theorem leftExact_scalar (ctx : SweepCtx k H qd 1) {μ : ℝ} (hS : DenseScalar H qd.length μ) {dt : 𝕜} {s : Sweep 𝕜}
    {i : Nat} (h : Canon H qd s i) (hi1 : i + 1 < H.A.length)
    (hqr : ∀ A1 Q C qb,
      localHamiltonianStep k (getBL s i) (getBR s i) (H.A.getD i zeroT4) (getA s i) (k.half * dt) 1 = .ok A1 →
      BondOps.qr k.dqr A1.flattenLeft.tab (QN.flatten2 qd (getQ s i)) (getQ s (i + 1)) = .ok (Q, C, qb) →
      qb.length = (getQ s (i + 1)).length) :
    LeftExact false k H qd dt 1 s i := by
  intro A1 Q C qb BLn h1 h2 h3
  obtain ⟨hF, hH⟩ := canon_local h ctx.hH ctx.herm
  have hSc := scalar_canon h ctx.hH hS
  obtain ⟨a0, a1, a2⟩ := localStep_dims h1
  obtain ⟨s0, s1, s2⟩ := h.wf.shape i (by omega)
  have hm : 0 < A1.flattenLeft.tab.m := by
    show 0 < A1.d0 * A1.d1
    rw [a0, a1, s0, s1]; exact Nat.mul_pos ctx.dpos (h.wf.qpos i (by omega))
  have hn : 0 < A1.flattenLeft.tab.n := by
    show 0 < A1.d2
    rw [a2, s2]; exact h.wf.qpos (i + 1) (by omega)
  have hf := qr_facts ctx.qr.contract hm hn h2
  set Ai : T3 𝕜 := (T3.ofFlattenLeft Q A1.d0 A1.d1).tab with hAi
  have hAiIso : LeftIso Ai := leftQR_iso hf
  have hAi2 : Ai.d2 = qb.length := hf.Qn
  have hCm : C.m = Ai.d2 := hf.Rm.trans hAi2.symm
  have hCn : C.n = A1.d2 := hf.Rn
  have hF' : LocalFits (getBL s i) (getBR s i) (H.A.getD i zeroT4) Ai.d0 Ai.d1 A1.d2 := by
    show LocalFits _ _ _ A1.d0 A1.d1 A1.d2
    rw [a0, a1, a2]; exact hF
  have hH' : LocalHermitian (getBL s i) (getBR s i) (H.A.getD i zeroT4) Ai.d0 Ai.d1 A1.d2 := by
    show LocalHermitian _ _ _ A1.d0 A1.d1 A1.d2
    rw [a0, a1, a2]; exact hH
  have hS' : ScalarLocal (getBL s i) (getBR s i) (H.A.getD i zeroT4) Ai.d0 Ai.d1 A1.d2 μ := by
    show ScalarLocal _ _ _ A1.d0 A1.d1 A1.d2 μ
    rw [a0, a1, a2]; exact hSc
  obtain ⟨hFB, hHB⟩ := bondHermitian_left hF' hH' h3
  have hSB := scalarBond_left hF' hS' hAiIso h3
  refine ⟨exhausted_local ctx.norm hF hH hSc, ?_, hqr A1 Q C qb h1 h2, fun e => Bool.noConfusion e⟩
  have hFB' : BondFits BLn (getBR s i) C.m C.n := by rw [hCm, hCn]; exact hFB
  have hHB' : BondHermitian BLn (getBR s i) C.m C.n := by rw [hCm, hCn]; exact hHB
  have hSB' : ScalarBond BLn (getBR s i) C.m C.n μ := by rw [hCm, hCn]; exact hSB
  exact exhausted_bond ctx.norm hFB' hHB' hSB'

theorem rightExact_scalar (ctx : SweepCtx k H qd 1) {μ : ℝ} (hS : DenseScalar H qd.length μ) {dt : 𝕜} {s : Sweep 𝕜}
    {j : Nat} (h : Canon H qd s (j + 1))
    (hqr : ∀ Q C qb,
      BondOps.qr k.dqr (getA s (j + 1)).swap12.flattenLeft.tab (QN.flatten2 qd (QN.neg (getQ s (j + 1 + 1))))
        (QN.neg (getQ s (j + 1))) = .ok (Q, C, qb) → qb.length = (getQ s (j + 1)).length) :
    RightExact false k H qd dt 1 s (j + 1) := by
  intro Q C qb BRn C1 h1 h2 h3
  have hi : j + 1 < H.A.length := h.hc
  have hjcs : j < s.A.size := by rw [h.wf.sizeA]; omega
  obtain ⟨s0, s1, s2⟩ := h.wf.shape (j + 1) hi
  have hrm := right_move_canon ctx h h1 h2
  dsimp only at hrm
  obtain ⟨hAiIso, ai0, ai1, ai2, _, hCtm, hCtn, _, hFB, hHB, hcanC⟩ := hrm
  obtain ⟨c0, c1⟩ := bondStep_dims h3
  have hcan := hcanC C1 c0 c1
  set Ai : T3 𝕜 := (T3.ofFlattenLeft Q (getA s (j + 1)).d0 (getA s (j + 1)).d2).swap12.tab with hAi
  obtain ⟨hF, hH⟩ := canon_local h ctx.hH ctx.herm
  have hSc := scalar_canon h ctx.hH hS
  have hF' : LocalFits (getBL s (j + 1)) (getBR s (j + 1)) (H.A.getD (j + 1) zeroT4) Ai.d0 (getA s (j + 1)).d1 Ai.d2 := hF
  have hS' : ScalarLocal (getBL s (j + 1)) (getBR s (j + 1)) (H.A.getD (j + 1) zeroT4) Ai.d0 (getA s (j + 1)).d1 Ai.d2 μ :=
    hSc
  have hSB := scalarBond_right hF' hS' hAiIso h2
  have hSB' : ScalarBond (getBL s (j + 1)) BRn C.transpose.tab.m C.transpose.tab.n μ := by
    rw [hCtm, hCtn, ← s1, ← ai1]; exact hSB
  refine ⟨exhausted_bond ctx.norm hFB hHB hSB', ?_, hqr Q C qb h1, fun e => Bool.noConfusion e⟩
  set sc : Sweep 𝕜 := ⟨(s.A.setIfInBounds (j + 1) Ai).setIfInBounds j (pushRight (getA s j) C1),
    s.qD.setIfInBounds (j + 1) (QN.neg qb), s.BL, s.BR.setIfInBounds j BRn⟩ with hscdef
  have gscA : getA sc j = pushRight (getA s j) C1 := by
    show ((s.A.setIfInBounds (j + 1) Ai).setIfInBounds j _).getD j emptyT3 = _
    exact getD_setIfInBounds_eq _ _ _ (by simpa using hjcs)
  have gscR : getBR sc j = BRn := by
    show (s.BR.setIfInBounds j BRn).getD j emptyT3 = _
    exact getD_setIfInBounds_eq _ _ _ (by rw [h.sizeBR]; omega)
  have hmid := midExact_scalar ctx hS hcan
  unfold MidExact at hmid
  rw [gscA, gscR] at hmid
  simp only [Nat.add_sub_cancel]
  exact hmid

/-! ## the block QR with a single charge sector -/

theorem qr_zero22 {dqr : Mat 𝕜 → Mat 𝕜 × Mat 𝕜} (hshape : ∀ B, ShapeAt dqr B) {A Q R : Mat 𝕜} {qb : List Int}
    (h : qr dqr A [0, 0] [0, 0] = .ok (Q, R, qb)) : qb = [0, 0] := by
  obtain ⟨hq0, hq1, hsp⟩ := HistWf.qr_asserts h
  rw [qr_eq dqr A _ _ hq0 hq1 hsp (by decide)] at h
  split at h
  · injection h with h
    injection h with _ h
    injection h with _ h
    rw [← h]
    have e1 : intersect1d [0, 0] [0, 0] = [0] := by decide
    have e2 : stableArgsort [0, 0] = [0, 1] := by decide
    have e3 : isIdPerm [0, 1] = true := by decide
    have e4 : srt A [0, 0] [0, 0] = ([0, 0], [0, 0], A) := by
      unfold srt
      simp [e2, e3]
    unfold loopState
    rw [e1, e4]
    simp only [List.foldl_cons, List.foldl_nil]
    rw [qrStep_eq]
    simp only [List.nil_append]
    have f1 : firstIdx [0, 0] 0 = 0 := by decide
    have f2 : lastIdxSucc [0, 0] 0 = 2 := by decide
    have hb : (dqr (blk A [0, 0] [0, 0] 0)).1.n = 2 := by
      have := hshape (blk A [0, 0] [0, 0] 0)
      unfold ShapeAt at this
      have hm : (blk A [0, 0] [0, 0] 0).m = 2 := by unfold blk; rw [f1, f2]; rfl
      have hn : (blk A [0, 0] [0, 0] 0).n = 2 := by unfold blk; rw [f1, f2]; rfl
      rw [hm, hn] at this
      exact (this (by omega) (by omega)).2.1
    rw [hb]
    rfl
  · cases h

theorem qr_zero41 {dqr : Mat 𝕜 → Mat 𝕜 × Mat 𝕜} (hshape : ∀ B, ShapeAt dqr B) {A Q R : Mat 𝕜} {qb : List Int}
    (h : qr dqr A [0, 0, 0, 0] [0] = .ok (Q, R, qb)) : qb = [0] := by
  obtain ⟨hq0, hq1, hsp⟩ := HistWf.qr_asserts h
  rw [qr_eq dqr A _ _ hq0 hq1 hsp (by decide)] at h
  split at h
  · injection h with h
    injection h with _ h
    injection h with _ h
    rw [← h]
    have e1 : intersect1d [0, 0, 0, 0] [0] = [0] := by decide
    have e2 : stableArgsort [0, 0, 0, 0] = [0, 1, 2, 3] := by decide
    have e2' : stableArgsort [0] = [0] := by decide
    have e3 : isIdPerm [0, 1, 2, 3] = true := by decide
    have e3' : isIdPerm [0] = true := by decide
    have e4 : srt A [0, 0, 0, 0] [0] = ([0, 0, 0, 0], [0], A) := by
      unfold srt
      simp [e2, e3, e2', e3']
    unfold loopState
    rw [e1, e4]
    simp only [List.foldl_cons, List.foldl_nil]
    rw [qrStep_eq]
    simp only [List.nil_append]
    have f1 : firstIdx [0, 0, 0, 0] 0 = 0 := by decide
    have f2 : lastIdxSucc [0, 0, 0, 0] 0 = 4 := by decide
    have g1 : firstIdx [0] 0 = 0 := by decide
    have g2 : lastIdxSucc [0] 0 = 1 := by decide
    have hb : (dqr (blk A [0, 0, 0, 0] [0] 0)).1.n = 1 := by
      have := hshape (blk A [0, 0, 0, 0] [0] 0)
      unfold ShapeAt at this
      have hm : (blk A [0, 0, 0, 0] [0] 0).m = 4 := by unfold blk; rw [f1, f2]; rfl
      have hn : (blk A [0, 0, 0, 0] [0] 0).n = 1 := by unfold blk; rw [g1, g2]; rfl
      rw [hm, hn] at this
      exact (this (by omega) (by omega)).2.1
    rw [hb]
    rfl
  · cases h

end Ptn.Evo

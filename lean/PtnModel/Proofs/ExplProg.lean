import PtnModel.Proofs.Ham2Fermi
import PtnModel.Proofs.HamMolTerms
/-!
# Explicit molecular graph, part 1: `generate_graph`'s edge loops as a list of edge specifications
-/
set_option linter.unusedSectionVars false
set_option linter.unusedSimpArgs false

namespace Ptn.Ham
open Ptn.Og List

variable {κ : Type} [CommRing κ] [DecidableEq κ]

/-- edge specification: source node id, target node id, operator id, coefficient -/
abbrev ESpec (κ : Type) := Int × Int × Int × κ

def specEdge (eid : Int) (s : ESpec κ) : Edge κ := ⟨eid, (s.1, s.2.1), [(s.2.2.1, s.2.2.2)]⟩

/-- the edges created from a list of specifications with a running edge id -/
def buildEdges : List (ESpec κ) → Int → List (Edge κ)
  | [], _ => []
  | s :: r, eid => specEdge eid s :: buildEdges r (eid + 1)

theorem buildEdges_append : ∀ (a b : List (ESpec κ)) (eid : Int),
    buildEdges (a ++ b) eid = buildEdges a eid ++ buildEdges b (eid + (a.length : Int)) := by
  intro a
  induction a with
  | nil => intro b eid; simp [buildEdges]
  | cons s r ih =>
    intro b eid
    simp only [cons_append, buildEdges, ih, length_cons]
    congr 3
    push_cast; omega

/-- the program `p` returns `a` and performs `add_connect_edge` for the specified edges, with consecutive edge ids -/
def Emits {α : Type} (specs : List (ESpec κ)) (a : α) (p : GB κ α) : Prop :=
  ∀ (g : Graph κ) (eid : Int), p.run (g, eid) =
    ((buildEdges specs eid).foldlM (fun g e => g.addConnectEdge e) g >>= fun g' => pure (a, (g', eid + (specs.length : Int))))

theorem Emits.pure {α : Type} (a : α) : Emits (κ := κ) [] a (pure a) := by
  intro g eid
  simp [buildEdges, StateT.run_pure]

theorem Emits.bind {α β : Type} {s1 s2 : List (ESpec κ)} {a : α} {b : β} {p : GB κ α} {f : α → GB κ β}
    (h1 : Emits s1 a p) (h2 : Emits s2 b (f a)) : Emits (s1 ++ s2) b (p >>= f) := by
  intro g eid
  rw [StateT.run_bind, h1 g eid, buildEdges_append, foldlM_append]
  cases hA : (buildEdges s1 eid).foldlM (fun g e => g.addConnectEdge e) g with
  | error e => rfl
  | ok g1 =>
    simp only [ok_bind, Pure.pure, Except.pure]
    rw [h2 g1 (eid + (s1.length : Int))]
    cases (buildEdges s2 (eid + (s1.length : Int))).foldlM (fun g e => g.addConnectEdge e) g1 with
    | error e => rfl
    | ok g2 =>
      simp only [ok_bind, Pure.pure, Except.pure, length_append]
      congr 3
      push_cast; omega

theorem Emits.lift {α β : Type} {s : List (ESpec κ)} {b : β} {x : Except Err α} {a : α} {f : α → GB κ β}
    (hx : x = .ok a) (h : Emits s b (f a)) : Emits s b (liftE x >>= f) := by
  subst hx
  intro g eid
  rw [← h g eid]
  rfl

theorem Emits.addE (n0 n1 : Node) (oid : Int) (c : κ) :
    Emits [(n0.nid, n1.nid, oid, c)] () (addE n0 n1 oid c) := by
  intro g eid
  simp only [buildEdges, foldlM_cons, foldlM_nil, specEdge]
  unfold Ptn.Ham.addE
  simp only [StateT.run_bind, Ptn.Ch.edgeMk'_single]
  have key : ∀ r : Except Err (Graph κ), r = g.addConnectEdge ⟨eid, (n0.nid, n1.nid), [(oid, c)]⟩ →
      ((liftM r : GB κ (Graph κ)).run (g, eid) >>= fun p_1 =>
        StateT.run (MonadStateOf.set (p_1.1, eid + 1)) p_1.2) =
      (r >>= fun init => Pure.pure init) >>= fun g' => Pure.pure ((), g', eid + ((1 : Nat) : Int)) := by
    intro r _
    cases r with
    | error e => rfl
    | ok g1 => rfl
  exact key _ rfl

theorem Emits.forIn (l : List Int) (s : Int → List (ESpec κ)) (body : Int → PUnit → GB κ (ForInStep PUnit))
    (h : ∀ i ∈ l, Emits (s i) (ForInStep.yield PUnit.unit) (body i PUnit.unit)) :
    Emits (l.flatMap s) PUnit.unit (forIn l PUnit.unit body) := by
  induction l with
  | nil => exact Emits.pure _
  | cons i l ih =>
    rw [List.forIn_cons, flatMap_cons]
    exact Emits.bind (h i (mem_cons_self ..)) (ih fun j hj => h j (mem_cons_of_mem _ hj))


theorem Emits.forIn_last {β : Type} (l : List Int) (s : Int → List (ESpec κ)) (body : Int → PUnit → GB κ (ForInStep PUnit)) (b : β)
    (h : ∀ i ∈ l, Emits (s i) (ForInStep.yield PUnit.unit) (body i PUnit.unit)) :
    Emits (l.flatMap s) b (ForIn.forIn l PUnit.unit body >>= fun _ => Pure.pure b) := by
  have := Emits.bind (f := fun _ => Pure.pure b) (Emits.forIn l s body h) (Emits.pure (κ := κ) b)
  simpa using this

theorem Emits.forIn_then {β : Type} (l : List Int) (s : Int → List (ESpec κ)) (body : Int → PUnit → GB κ (ForInStep PUnit)) (b : β)
    (s2 : List (ESpec κ)) (rest : GB κ β)
    (h : ∀ i ∈ l, Emits (s i) (ForInStep.yield PUnit.unit) (body i PUnit.unit)) (h2 : Emits s2 b rest) :
    Emits (l.flatMap s ++ s2) b (ForIn.forIn l PUnit.unit body >>= fun _ => rest) :=
  Emits.bind (Emits.forIn l s body h) h2

/-! ## node labels -/

/-- node label: (family tag, outer key, inner key = bond index); tags 0..9 = the ten families of `molSpecs` in creation
order, 10 = `identity_l`, 11 = `identity_r` -/
abbrev Lab := Nat × List Int × Int

def MolNodes.fam (n : MolNodes) : Nat → Fam
  | 0 => n.aDagL | 1 => n.aAnnL | 2 => n.aDagADagL | 3 => n.aAnnAAnnL | 4 => n.aDagAAnnL
  | 5 => n.aDagR | 6 => n.aAnnR | 7 => n.aDagADagR | 8 => n.aAnnAAnnR | 9 => n.aDagAAnnR
  | _ => []

/-- the inner dictionary a label refers to -/
def MolNodes.inner (n : MolNodes) (lab : Lab) : List (Int × Node) :=
  match lab.1 with
  | 10 => n.identityL
  | 11 => n.identityR
  | t => innerOf (n.fam t) lab.2.1

def MolNodes.nodeAt (n : MolNodes) (lab : Lab) : Node := nodeOf (n.inner lab) lab.2.2
def MolNodes.nidOf (n : MolNodes) (lab : Lab) : Int := (n.nodeAt lab).nid

/-- the table look-up `fam[key][k]` resp. `identity_l[k]`, `identity_r[k]` -/
def MolNodes.look (n : MolNodes) (lab : Lab) : Except Err Node :=
  match lab.1 with
  | 10 => dGet n.identityL lab.2.2
  | 11 => dGet n.identityR lab.2.2
  | t => (n.fam t).get2 lab.2.1 lab.2.2

/-- the index ranges of `MolecularOpGraphNodes.__init__` -/
def labOk (L : Int) : Lab → Prop
  | (0, [i], k) => 0 ≤ i ∧ i < L - 2 ∧ i + 1 ≤ k ∧ k < L - 1
  | (1, [i], k) => 0 ≤ i ∧ i < L - 2 ∧ i + 1 ≤ k ∧ k < L - 1
  | (2, [i, j], k) => 0 ≤ i ∧ i < L / 2 - 1 ∧ i + 1 ≤ j ∧ j < L / 2 ∧ j + 1 ≤ k ∧ k < L / 2 + 1
  | (3, [i, j], k) => 0 ≤ i ∧ i < L / 2 ∧ 0 ≤ j ∧ j < i ∧ i + 1 ≤ k ∧ k < L / 2 + 1
  | (4, [i, j], k) => 0 ≤ i ∧ i < L / 2 ∧ 0 ≤ j ∧ j < L / 2 ∧ max i j + 1 ≤ k ∧ k < L / 2 + 1
  | (5, [i], k) => 2 ≤ i ∧ i < L ∧ 2 ≤ k ∧ k < i + 1
  | (6, [i], k) => 2 ≤ i ∧ i < L ∧ 2 ≤ k ∧ k < i + 1
  | (7, [i, j], k) => L / 2 + 1 ≤ i ∧ i < L - 1 ∧ i + 1 ≤ j ∧ j < L ∧ L / 2 + 1 ≤ k ∧ k < i + 1
  | (8, [i, j], k) => L / 2 + 1 ≤ i ∧ i < L ∧ L / 2 + 1 ≤ j ∧ j < i ∧ L / 2 + 1 ≤ k ∧ k < j + 1
  | (9, [i, j], k) => L / 2 + 1 ≤ i ∧ i < L ∧ L / 2 + 1 ≤ j ∧ j < L ∧ L / 2 + 1 ≤ k ∧ k < min i j + 1
  | (10, [], k) => 0 ≤ k ∧ k < L
  | (11, [], k) => 1 ≤ k ∧ k < L + 1
  | _ => False

theorem get2_ok {f : Fam} {key : List Int} {k : Int} (h1 : f.get key = .ok (innerOf f key))
    (h2 : dGet (innerOf f key) k = .ok (nodeOf (innerOf f key) k)) : f.get2 key k = .ok (nodeOf (innerOf f key) k) := by
  unfold Fam.get2
  rw [h1]
  exact h2

/-- every look-up with a label inside the index ranges is defined -/
theorem look_ok (L : Int) (lab : Lab) (h : labOk L lab) : (MolNodes.init L).look lab = .ok ((MolNodes.init L).nodeAt lab) := by
  unfold labOk at h
  split at h
  · obtain ⟨a, b, c, d⟩ := h; exact get2_ok (aDagL_get L _ a b) (aDagL_dGet L _ _ a b c d)
  · obtain ⟨a, b, c, d⟩ := h; exact get2_ok (aAnnL_get L _ a b) (aAnnL_dGet L _ _ a b c d)
  · obtain ⟨a, b, c, d, e, f⟩ := h; exact get2_ok (aDagADagL_get L _ _ a b c d) (aDagADagL_dGet L _ _ _ a b c d e f)
  · obtain ⟨a, b, c, d, e, f⟩ := h; exact get2_ok (aAnnAAnnL_get L _ _ a b c d) (aAnnAAnnL_dGet L _ _ _ a b c d e f)
  · obtain ⟨a, b, c, d, e, f⟩ := h; exact get2_ok (aDagAAnnL_get L _ _ a b c d) (aDagAAnnL_dGet L _ _ _ a b c d e f)
  · obtain ⟨a, b, c, d⟩ := h; exact get2_ok (aDagR_get L _ a b) (aDagR_dGet L _ _ a b c d)
  · obtain ⟨a, b, c, d⟩ := h; exact get2_ok (aAnnR_get L _ a b) (aAnnR_dGet L _ _ a b c d)
  · obtain ⟨a, b, c, d, e, f⟩ := h; exact get2_ok (aDagADagR_get L _ _ a b c d) (aDagADagR_dGet L _ _ _ a b c d e f)
  · obtain ⟨a, b, c, d, e, f⟩ := h; exact get2_ok (aAnnAAnnR_get L _ _ a b c d) (aAnnAAnnR_dGet L _ _ _ a b c d e f)
  · obtain ⟨a, b, c, d, e, f⟩ := h; exact get2_ok (aDagAAnnR_get L _ _ a b c d) (aDagAAnnR_dGet L _ _ _ a b c d e f)
  · obtain ⟨a, b⟩ := h
    show dGet (MolNodes.init L).identityL _ = _
    rw [identityL_dGet L _ a b]
    show _ = Except.ok (nodeOf (MolNodes.init L).identityL _)
    unfold nodeOf
    have := identityL_dGet L _ a b
    unfold dGet at this
    split at this
    · next v hv => rw [hv]; simp only [Option.getD_some]; cases this; rfl
    · cases this
  · obtain ⟨a, b⟩ := h
    show dGet (MolNodes.init L).identityR _ = _
    rw [identityR_dGet L _ a b]
    show _ = Except.ok (nodeOf (MolNodes.init L).identityR _)
    unfold nodeOf
    have := identityR_dGet L _ a b
    unfold dGet at this
    split at this
    · next v hv => rw [hv]; simp only [Option.getD_some]; cases this; rfl
    · cases this
  · exact h.elim


/-! ## the edge loops of `generate_graph` -/

/-- the edges of `generate_graph` in creation order, as (source label, target label, operator id), with an arbitrary edge maker -/
def wireGen {α : Type} (mk : Lab → Lab → Int → α) (L : Int) : List α :=
  (pyRange 0 (L - 1)).flatMap (fun i => [mk (10, [], i) (10, [], i + 1) mI]) ++
  ((pyRange 1 L).flatMap (fun i => [mk (11, [], i) (11, [], i + 1) mI]) ++
  ((pyRange 0 (L - 2)).flatMap (fun i => mk (10, [], i) (0, [i], i + 1) mC ::
      (pyRange (i + 1) (L - 2)).flatMap fun j => [mk (0, [i], j) (0, [i], j + 1) mZ]) ++
  ((pyRange 0 (L - 2)).flatMap (fun i => mk (10, [], i) (1, [i], i + 1) mA ::
      (pyRange (i + 1) (L - 2)).flatMap fun j => [mk (1, [i], j) (1, [i], j + 1) mZ]) ++
  ((pyRange 0 (L / 2 - 1)).flatMap (fun i => (pyRange (i + 1) (L / 2)).flatMap fun j => mk (0, [i], j) (2, [i, j], j + 1) mC ::
      (pyRange (j + 1) (L / 2)).flatMap fun k => [mk (2, [i, j], k) (2, [i, j], k + 1) mI]) ++
  ((pyRange 0 (L / 2)).flatMap (fun i => (pyRange 0 i).flatMap fun j => mk (1, [j], i) (3, [i, j], i + 1) mA ::
      (pyRange (i + 1) (L / 2)).flatMap fun k => [mk (3, [i, j], k) (3, [i, j], k + 1) mI]) ++
  ((pyRange 0 (L / 2)).flatMap (fun i => (pyRange 0 (L / 2)).flatMap fun j =>
      (if i < j then mk (0, [i], j) (4, [i, j], j + 1) mA
        else if i = j then mk (10, [], i) (4, [i, j], i + 1) mN else mk (1, [j], i) (4, [i, j], i + 1) mC) ::
      (pyRange (max i j + 1) (L / 2)).flatMap fun k => [mk (4, [i, j], k) (4, [i, j], k + 1) mI]) ++
  ((pyRange 2 L).flatMap (fun i => (pyRange 2 i).flatMap (fun j => [mk (5, [i], j) (5, [i], j + 1) mZ]) ++
      [mk (5, [i], i) (11, [], i + 1) mC]) ++
  ((pyRange 2 L).flatMap (fun i => (pyRange 2 i).flatMap (fun j => [mk (6, [i], j) (6, [i], j + 1) mZ]) ++
      [mk (6, [i], i) (11, [], i + 1) mA]) ++
  ((pyRange (L / 2 + 1) (L - 1)).flatMap (fun i => (pyRange (i + 1) L).flatMap fun j =>
      (pyRange (L / 2 + 1) i).flatMap (fun k => [mk (7, [i, j], k) (7, [i, j], k + 1) mI]) ++
      [mk (7, [i, j], i) (5, [j], i + 1) mC]) ++
  ((pyRange (L / 2 + 1) L).flatMap (fun i => (pyRange (L / 2 + 1) i).flatMap fun j =>
      (pyRange (L / 2 + 1) j).flatMap (fun k => [mk (8, [i, j], k) (8, [i, j], k + 1) mI]) ++
      [mk (8, [i, j], j) (6, [i], j + 1) mA]) ++
  (pyRange (L / 2 + 1) L).flatMap (fun i => (pyRange (L / 2 + 1) L).flatMap fun j =>
      (pyRange (L / 2 + 1) (min i j)).flatMap (fun k => [mk (9, [i, j], k) (9, [i, j], k + 1) mI]) ++
      [if i < j then mk (9, [i, j], i) (6, [j], i + 1) mC
        else if i = j then mk (9, [i, j], i) (11, [], i + 1) mN else mk (9, [i, j], j) (5, [i], j + 1) mA])))))))))))

theorem Emits.edge {β : Type} (L : Int) (l1 l2 : Lab) (o : Int) (c : κ) (s : List (ESpec κ)) (r : β) (rest : GB κ β)
    (h1 : labOk L l1) (h2 : labOk L l2) (hr : Emits s r rest) :
    Emits (((MolNodes.init L).nidOf l1, (MolNodes.init L).nidOf l2, o, c) :: s) r
      (liftE ((MolNodes.init L).look l1) >>= fun a => liftE ((MolNodes.init L).look l2) >>= fun b =>
        Ham.addE a b o c >>= fun _ => rest) :=
  Emits.lift (look_ok L l1 h1) (Emits.lift (look_ok L l2 h2)
    (Emits.bind (s1 := [_]) (Emits.addE _ _ o c) hr))

theorem Emits.edge_last {β : Type} (L : Int) (l1 l2 : Lab) (o : Int) (c : κ) (r : β)
    (h1 : labOk L l1) (h2 : labOk L l2) :
    Emits [((MolNodes.init L).nidOf l1, (MolNodes.init L).nidOf l2, o, c)] r
      (liftE ((MolNodes.init L).look l1) >>= fun a => liftE ((MolNodes.init L).look l2) >>= fun b =>
        Ham.addE a b o c >>= fun _ => Pure.pure r) :=
  Emits.edge L l1 l2 o c [] r _ h1 h2 (Emits.pure r)

/-- discharge the range conditions of a label from the loop hypotheses -/
macro "lab_ok" : tactic =>
  `(tactic| (simp only [mem_pyRange, show ∀ L : Int, (MolNodes.init L).L = L from fun _ => rfl] at *; simp only [labOk]; omega))

macro "e_last" : tactic => `(tactic| (apply Emits.edge_last _ <;> lab_ok))
macro "e_then" : tactic => `(tactic| (apply Emits.edge _ <;> first | lab_ok | skip))

set_option maxRecDepth 4000 in
theorem wire_emits (L : Int) :
    Emits (wireGen (fun a b o => ((MolNodes.init L).nidOf a, (MolNodes.init L).nidOf b, o, (1 : κ))) L) ()
      ((MolNodes.init L).wire (κ := κ)) := by
  unfold MolNodes.wire wireGen
  refine Emits.forIn_then _ _ _ _ _ _ ?_ ?_
  · intro i hi
    e_last
  refine Emits.forIn_then _ _ _ _ _ _ ?_ ?_
  · intro i hi
    e_last
  refine Emits.forIn_then _ _ _ _ _ _ ?_ ?_
  · intro i hi
    e_then
    refine Emits.forIn_last _ _ _ _ ?_
    intro j hj
    e_last
  refine Emits.forIn_then _ _ _ _ _ _ ?_ ?_
  · intro i hi
    e_then
    refine Emits.forIn_last _ _ _ _ ?_
    intro j hj
    e_last
  refine Emits.forIn_then _ _ _ _ _ _ ?_ ?_
  · intro i hi
    refine Emits.forIn_last _ _ _ _ ?_
    intro j hj
    e_then
    refine Emits.forIn_last _ _ _ _ ?_
    intro k hk
    e_last
  refine Emits.forIn_then _ _ _ _ _ _ ?_ ?_
  · intro i hi
    refine Emits.forIn_last _ _ _ _ ?_
    intro j hj
    e_then
    refine Emits.forIn_last _ _ _ _ ?_
    intro k hk
    e_last
  refine Emits.forIn_then _ _ _ _ _ _ ?_ ?_
  · intro i hi
    refine Emits.forIn_last _ _ _ _ ?_
    intro j hj
    by_cases h1 : i < j
    · simp only [h1, if_true]
      e_then
      refine Emits.forIn_last _ _ _ _ ?_
      intro k hk
      e_last
    · by_cases h2 : i = j
      · subst h2
        simp only [lt_irrefl, beq_self_eq_true, if_true, if_false]
        e_then
        refine Emits.forIn_last _ _ _ _ ?_
        intro k hk
        e_last
      · have h2' : ¬ ((i == j) = true) := by simpa using h2
        simp only [h1, h2, h2', if_false]
        e_then
        refine Emits.forIn_last _ _ _ _ ?_
        intro k hk
        e_last
  refine Emits.forIn_then _ _ _ _ _ _ ?_ ?_
  · intro i hi
    refine Emits.forIn_then _ _ _ _ _ _ ?_ ?_
    · intro j hj
      e_last
    e_last
  refine Emits.forIn_then _ _ _ _ _ _ ?_ ?_
  · intro i hi
    refine Emits.forIn_then _ _ _ _ _ _ ?_ ?_
    · intro j hj
      e_last
    e_last
  refine Emits.forIn_then _ _ _ _ _ _ ?_ ?_
  · intro i hi
    refine Emits.forIn_last _ _ _ _ ?_
    intro j hj
    refine Emits.forIn_then _ _ _ _ _ _ ?_ ?_
    · intro k hk
      e_last
    e_last
  refine Emits.forIn_then _ _ _ _ _ _ ?_ ?_
  · intro i hi
    refine Emits.forIn_last _ _ _ _ ?_
    intro j hj
    refine Emits.forIn_then _ _ _ _ _ _ ?_ ?_
    · intro k hk
      e_last
    e_last
  refine Emits.forIn_last _ _ _ _ ?_
  intro i hi
  refine Emits.forIn_last _ _ _ _ ?_
  intro j hj
  refine Emits.forIn_then _ _ _ _ _ _ ?_ ?_
  · intro k hk
    e_last
  by_cases h1 : i < j
  · simp only [h1, if_true]
    e_last
  · by_cases h2 : i = j
    · subst h2
      simp only [lt_irrefl, beq_self_eq_true, if_true, if_false]
      e_last
    · have h2' : ¬ ((i == j) = true) := by simpa using h2
      simp only [h1, h2, h2', if_false]
      e_last

end Ptn.Ham

import PtnModel.Proofs.OgDir
import PtnModel.Proofs.AutBasic
/-!
# `merge_edges`, case of two edges between the same pair of nodes (operators are added)
-/
set_option linter.unusedSectionVars false
namespace Ptn.Og
open List Rw
variable {κ : Type} [CommRing κ] [DecidableEq κ]

theorem denL_perm {es es' : List (Edge κ)} (hp : es.Perm es') (d : Bool) (t : Int) (w : Word) (x : Int) :
    denL es d t w x = denL es' d t w x := by
  unfold denL
  apply denE_congr_perm
  rw [map_map, map_map]
  exact hp.map _

/-- replacing two parallel edges by one edge carrying the sum of their operators keeps the path sums -/
theorem denL_merge_par (d : Bool) (t : Int) (R : List (Edge κ)) (e1 e2 e1' : Edge κ)
    (hn1 : e1'.nids = e1.nids) (hn2 : e2.nids = e1.nids) (hopc : ∀ o, opc e1' o = opc e1 o + opc e2 o) :
    ∀ (w : Word) (x : Int), denL (e1' :: R) d t w x = denL (e2 :: e1 :: R) d t w x := by
  have a1 : ∀ d', e1'.nid d' = e1.nid d' := by intro d'; cases d' <;> simp [Edge.nid, hn1]
  have a2 : ∀ d', e2.nid d' = e1.nid d' := by intro d'; cases d' <;> simp [Edge.nid, hn2]
  intro w
  induction w with
  | nil => intro x; simp [denL_nil]
  | cons o w ih =>
    intro x
    rw [denL_cons, denL_cons]
    by_cases hx : x = t
    · simp [hx]
    · simp only [hx, if_false, map_cons, sum_cons, a1, a2, hopc, ih]
      by_cases hh : e1.nid (!d) = x
      · simp only [hh, if_true]; ring
      · simp [hh]

theorem dErase_dReplace_same {β : Type} (dd : List (Int × β)) (k : Int) (v : β) :
    dErase (dReplace dd k v) k = dErase dd k := by
  induction dd with
  | nil => rfl
  | cons p dd ih =>
    obtain ⟨k0, v0⟩ := p
    rw [dReplace_cons]
    by_cases h : k0 = k
    · subst h; simp [dErase_cons]
    · simp [h, dErase_cons, ih]

/-- remove an edge id from both lists of a node -/
def remNode (eid : Int) (n : Node) : Node := ⟨n.nid, n.eidsIn.erase eid, n.eidsOut.erase eid, n.qnum⟩

theorem remNode_eids (eid : Int) (n : Node) (d : Bool) : (remNode eid n).eids d = (n.eids d).erase eid := by
  cases d <;> rfl

theorem remNode_eq_self {eid : Int} {n : Node} (h : ∀ d, eid ∉ n.eids d) : remNode eid n = n := by
  have h0 := h false
  have h1 := h true
  simp only [Node.eids] at h0 h1
  simp at h0 h1
  simp [remNode, erase_of_not_mem h0, erase_of_not_mem h1]

/-- the merged edge -/
def addedEdge (edge1 edge2 : Edge κ) : Edge κ :=
  { edge1 with opics := sortOpics (edge2.opics.foldl (fun acc p => mergeOpic acc p.1 p.2) edge1.opics) }

theorem Edge.nid_cases (e : Edge κ) (d d' : Bool) : e.nid (!d') = e.nid d ∨ e.nid (!d') = e.nid (!d) := by
  cases d <;> cases d' <;> simp

/-- the parallel case of `merge_edges`: result -/
theorem mergeEdges_par_spec {g g' : Graph κ} (h : SValid g) {eid1 eid2 : Int} {d : Bool}
    (hr : g.mergeEdges eid1 eid2 d = .ok g') {edge1 edge2 : Edge κ}
    (h1 : dGet? g.edges eid1 = some edge1) (h2 : dGet? g.edges eid2 = some edge2)
    (hpar : edge1.nid (!d) = edge2.nid (!d)) (hne : eid1 ≠ eid2) :
    edge1.nids = edge2.nids ∧
    g'.edges = dReplace (dErase g.edges eid2) eid1 (addedEdge edge1 edge2) ∧
    g'.nidTerminal = g.nidTerminal ∧ dKeys g'.nodes = dKeys g.nodes ∧
    ∀ k, dGet? g'.nodes k = (dGet? g.nodes k).map (remNode eid2) := by
  unfold Graph.mergeEdges at hr
  simp only [bind_ok, pyAssert_ok, Prod.exists, beq_iff_eq, Graph.getEdge, Graph.getNode, dGet_eq_ok_iff] at hr
  obtain ⟨e1, he1, e2, g1, hrem, _, hbase, g3, hmod, hr⟩ := hr
  rw [h1] at he1; cases he1
  rw [removeEdge_ok, h2] at hrem
  obtain ⟨he2, rfl⟩ := hrem
  cases he2
  have hm2 := mem_of_dGet?_eq_some h2
  have hm1 := mem_of_dGet?_eq_some h1
  have heid2 : edge2.eid = eid2 := h.edgeKey _ _ hm2
  subst heid2
  rw [Rw.modifyNode_ok] at hmod
  obtain ⟨nb, nb', hnb, hfb, rfl⟩ := hmod
  rw [Node.removeEdgeId_ok] at hfb
  obtain ⟨hcb, rfl⟩ := hfb
  simp only [hpar, if_true, bind_ok] at hr
  obtain ⟨e1', hadd, hr⟩ := hr
  unfold Edge.add at hadd
  simp only [bind_ok, pyAssert_ok, pure_ok, beq_iff_eq] at hadd
  obtain ⟨_, hnids, rfl⟩ := hadd
  rw [Rw.modifyNode_ok] at hr
  obtain ⟨nu, nu', hnu, hfu, rfl⟩ := hr
  rw [Node.removeEdgeId_ok] at hfu
  obtain ⟨hcu, rfl⟩ := hfu
  simp only at hnu ⊢
  refine ⟨hnids, rfl, trivial, by simp only [Rw.dKeys_dReplace], ?_⟩
  have hmemb := mem_of_dGet?_eq_some hnb
  have hkb : edge2.nid d ∈ dKeys g.nodes := dGet?_some_mem_keys hnb
  rw [Rw.dGet?_dReplace] at hnu
  intro k
  rw [Rw.dGet?_dReplace, Rw.dGet?_dReplace, Rw.dKeys_dReplace]
  by_cases hub : edge2.nid (!d) = edge2.nid d
  · -- self loop
    simp only [hub, hkb, and_self, if_true, Option.some.injEq] at hnu
    subst hnu
    by_cases hk : k = edge2.nid d
    · subst hk
      simp only [hub, hkb, and_self, if_true, hnb, Option.map_some, Option.some.injEq]
      cases d <;> simp [remNode, Node.setEids, Node.eids]
    · simp only [hub, hk, false_and, if_false]
      cases hl : dGet? g.nodes k with
      | none => rfl
      | some n =>
        simp only [Option.map_some, Option.some.injEq]
        symm
        apply remNode_eq_self
        intro d' hc
        have := (h.mem_eids_iff hm2 (mem_of_dGet?_eq_some hl) d').1 hc
        rcases Edge.nid_cases edge2 d d' with q | q
        · rw [q] at this; exact hk this.symm
        · rw [q, hub] at this; exact hk this.symm
  · simp only [hub, false_and, if_false] at hnu
    have hmemu := mem_of_dGet?_eq_some hnu
    have hku : edge2.nid (!d) ∈ dKeys g.nodes := dGet?_some_mem_keys hnu
    by_cases hk1 : k = edge2.nid (!d)
    · subst hk1
      simp only [hku, and_self, if_true, hnu, Option.map_some, Option.some.injEq]
      have hnot : edge2.eid ∉ nu.eids (!d) := by
        intro hc
        have := (h.mem_eids_iff hm2 hmemu (!d)).1 hc
        simp only [Bool.not_not] at this
        exact hub this.symm
      cases d
      · simp only [Bool.not_false, Node.eids, if_true, Bool.false_eq_true, if_false] at hnot ⊢
        simp [remNode, Node.setEids, erase_of_not_mem hnot]
      · simp only [Bool.not_true, Node.eids, if_true, Bool.false_eq_true, if_false] at hnot ⊢
        simp [remNode, Node.setEids, erase_of_not_mem hnot]
    · simp only [hk1, false_and, if_false]
      by_cases hk2 : k = edge2.nid d
      · subst hk2
        simp only [hkb, and_self, if_true, hnb, Option.map_some, Option.some.injEq]
        have hnot : edge2.eid ∉ nb.eids d := by
          intro hc
          have := (h.mem_eids_iff hm2 hmemb d).1 hc
          exact hub this
        cases d
        · simp only [Bool.not_false, Node.eids, if_true, Bool.false_eq_true, if_false] at hnot ⊢
          simp [remNode, Node.setEids, erase_of_not_mem hnot]
        · simp only [Bool.not_true, Node.eids, if_true, Bool.false_eq_true, if_false] at hnot ⊢
          simp [remNode, Node.setEids, erase_of_not_mem hnot]
      · simp only [hk2, false_and, if_false]
        cases hl : dGet? g.nodes k with
        | none => rfl
        | some n =>
          simp only [Option.map_some, Option.some.injEq]
          symm
          apply remNode_eq_self
          intro d' hc
          have := (h.mem_eids_iff hm2 (mem_of_dGet?_eq_some hl) d').1 hc
          rcases Edge.nid_cases edge2 d d' with q | q
          · rw [q] at this; exact hk2 this.symm
          · rw [q] at this; exact hk1 this.symm


theorem opc_addedEdge (edge1 edge2 : Edge κ) (o : Int) : opc (addedEdge edge1 edge2) o = opc edge1 o + opc edge2 o := by
  rw [opc_eq_opcL, opc_eq_opcL, opc_eq_opcL]
  simp only [addedEdge]
  rw [opcL_sortOpics, opcL_foldl_mergeOpic]

/-- lookups in the edge dictionary after a parallel merge -/
theorem par_edges_lookup {g : Graph κ} (h : SValid g) {eid1 eid2 : Int} {edge1 : Edge κ} (e1' : Edge κ)
    (h1 : dGet? g.edges eid1 = some edge1) (hne : eid1 ≠ eid2) (k : Int) :
    dGet? (dReplace (dErase g.edges eid2) eid1 e1') k =
      if k = eid1 then some e1' else if k = eid2 then none else dGet? g.edges k := by
  rw [Rw.dGet?_dReplace, dGet?_dErase _ h.edgesKeys, dKeys_dErase]
  have : eid1 ∈ (dKeys g.edges).erase eid2 := (mem_erase_of_ne hne).2 (dGet?_some_mem_keys h1)
  by_cases hk : k = eid1
  · simp [hk, this]
  · simp [hk]

/-- `merge_edges` (parallel case) keeps structural validity -/
theorem SValid.mergeEdges_par {g g' : Graph κ} (h : SValid g) {eid1 eid2 : Int} {d : Bool}
    (hr : g.mergeEdges eid1 eid2 d = .ok g') {edge1 edge2 : Edge κ}
    (h1 : dGet? g.edges eid1 = some edge1) (h2 : dGet? g.edges eid2 = some edge2)
    (hpar : edge1.nid (!d) = edge2.nid (!d)) (hne : eid1 ≠ eid2) : SValid g' := by
  obtain ⟨hnids, hedges, hterm, hkeys, hL⟩ := mergeEdges_par_spec h hr h1 h2 hpar hne
  have hm1 := mem_of_dGet?_eq_some h1
  have hm2 := mem_of_dGet?_eq_some h2
  have hnk' : (dKeys g'.nodes).Nodup := by rw [hkeys]; exact h.nodesKeys
  have hek' : (dKeys g'.edges).Nodup := by
    rw [hedges, Rw.dKeys_dReplace, dKeys_dErase]; exact h.edgesKeys.erase _
  have hEL : ∀ k, dGet? g'.edges k = if k = eid1 then some (addedEdge edge1 edge2)
      else if k = eid2 then none else dGet? g.edges k := by
    intro k; rw [hedges]; exact par_edges_lookup h _ h1 hne k
  have nodes' : ∀ {k n'}, (k, n') ∈ g'.nodes → ∃ n, (k, n) ∈ g.nodes ∧ n' = remNode eid2 n := by
    intro k n' hn'
    have := dGet?_eq_some_of_mem hnk' hn'
    rw [hL] at this
    cases hl : dGet? g.nodes k with
    | none => rw [hl] at this; cases this
    | some n =>
      rw [hl] at this
      simp only [Option.map_some, Option.some.injEq] at this
      exact ⟨n, mem_of_dGet?_eq_some hl, this.symm⟩
  have nodes_fwd : ∀ {k n}, (k, n) ∈ g.nodes → (k, remNode eid2 n) ∈ g'.nodes := by
    intro k n hn
    apply mem_of_dGet?_eq_some
    rw [hL, dGet?_eq_some_of_mem h.nodesKeys hn]; rfl
  -- every edge of g' has the end points of the edge of g with the same key, and that key is not eid2
  have edges' : ∀ {k e}, (k, e) ∈ g'.edges → k ≠ eid2 ∧
      ((k = eid1 ∧ e = addedEdge edge1 edge2) ∨ (k ≠ eid1 ∧ (k, e) ∈ g.edges)) := by
    intro k e he
    have := dGet?_eq_some_of_mem hek' he
    rw [hEL] at this
    by_cases hk1 : k = eid1
    · simp only [hk1, if_true, Option.some.injEq] at this
      exact ⟨hk1 ▸ hne, Or.inl ⟨hk1, this.symm⟩⟩
    · simp only [hk1, if_false] at this
      by_cases hk2 : k = eid2
      · simp [hk2] at this
      · simp only [hk2, if_false] at this
        exact ⟨hk2, Or.inr ⟨hk1, mem_of_dGet?_eq_some this⟩⟩
  have edges_fwd : ∀ {k e}, (k, e) ∈ g.edges → k ≠ eid2 → ∃ e', (k, e') ∈ g'.edges ∧ e'.nids = e.nids := by
    intro k e he hk2
    by_cases hk1 : k = eid1
    · subst hk1
      have := h.edge_unique he hm1
      subst this
      exact ⟨addedEdge e edge2, mem_of_dGet?_eq_some (by rw [hEL]; simp), rfl⟩
    · exact ⟨e, mem_of_dGet?_eq_some (by rw [hEL]; simp [hk1, hk2, dGet?_eq_some_of_mem h.edgesKeys he]), rfl⟩
  have nid_of_nids : ∀ {e e' : Edge κ}, e'.nids = e.nids → ∀ d', e'.nid d' = e.nid d' := by
    intro e e' hh d'; cases d' <;> simp [Edge.nid, hh]
  refine ⟨hnk', hek', ?_, ?_, ?_, ?_, ?_, ?_, ?_⟩
  · intro k n' hn'
    obtain ⟨n, hn, rfl⟩ := nodes' hn'
    exact h.nodeKey k n hn
  · intro k e he
    rcases (edges' he).2 with ⟨rfl, rfl⟩ | ⟨_, he⟩
    · exact h.edgeKey _ edge1 hm1
    · exact h.edgeKey k e he
  · intro k n' hn' d'
    obtain ⟨n, hn, rfl⟩ := nodes' hn'
    rw [remNode_eids]
    exact (h.eidsNodup k n hn d').erase _
  · intro k n' hn' d' eid heid
    obtain ⟨n, hn, rfl⟩ := nodes' hn'
    rw [remNode_eids] at heid
    have hnd := h.eidsNodup k n hn d'
    have hmem : eid ∈ n.eids d' := mem_of_mem_erase heid
    have hne2 : eid ≠ eid2 := fun hh => by subst hh; exact hnd.not_mem_erase heid
    obtain ⟨e, he, hk⟩ := h.nodeEdge k n hn d' eid hmem
    obtain ⟨e', he', hn'⟩ := edges_fwd he hne2
    exact ⟨e', he', by rw [nid_of_nids hn']; exact hk⟩
  · intro k e he d'
    obtain ⟨hk2, hcase⟩ := edges' he
    have : ∃ e0, (k, e0) ∈ g.edges ∧ e.nids = e0.nids := by
      rcases hcase with ⟨rfl, rfl⟩ | ⟨_, he0⟩
      · exact ⟨edge1, hm1, rfl⟩
      · exact ⟨e, he0, rfl⟩
    obtain ⟨e0, he0, hnn⟩ := this
    obtain ⟨n, hn, hx⟩ := h.edgeNode k e0 he0 d'
    refine ⟨remNode eid2 n, ?_, ?_⟩
    · rw [nid_of_nids hnn]; exact nodes_fwd hn
    · rw [remNode_eids]; exact (mem_erase_of_ne hk2).2 hx
  · intro d'
    obtain ⟨n, hn, hx⟩ := h.termNode d'
    have ht : g'.term d' = g.term d' := by cases d' <;> simp [Graph.term, hterm]
    exact ⟨remNode eid2 n, by rw [ht]; exact nodes_fwd hn, by rw [remNode_eids, hx]; rfl⟩
  · intro k e he
    rcases (edges' he).2 with ⟨rfl, rfl⟩ | ⟨_, he⟩
    · simp only [addedEdge]; rw [sortOpics_idem]
    · exact h.opicsSorted k e he

/-- `merge_edges` (parallel case) keeps all path sums in every direction -/
theorem denD_mergeEdges_par {g g' : Graph κ} (h : SValid g) {eid1 eid2 : Int} {d : Bool}
    (hr : g.mergeEdges eid1 eid2 d = .ok g') {edge1 edge2 : Edge κ}
    (h1 : dGet? g.edges eid1 = some edge1) (h2 : dGet? g.edges eid2 = some edge2)
    (hpar : edge1.nid (!d) = edge2.nid (!d)) (hne : eid1 ≠ eid2) (d' : Bool) (w : Word) (x : Int) :
    g'.denD d' w x = g.denD d' w x := by
  obtain ⟨hnids, hedges, hterm, hkeys, hL⟩ := mergeEdges_par_spec h hr h1 h2 hpar hne
  have ht : g'.term d' = g.term d' := by cases d' <;> simp [Graph.term, hterm]
  rw [Graph.denD_eq, Graph.denD_eq, ht]
  -- decompose both edge lists
  have p1 := perm_cons_dErase h2
  have h1' : dGet? (dErase g.edges eid2) eid1 = some edge1 := by
    rw [dGet?_dErase _ h.edgesKeys]; simp [hne, h1]
  have p2 := perm_cons_dErase h1'
  have h3 : dGet? (dReplace (dErase g.edges eid2) eid1 (addedEdge edge1 edge2)) eid1 = some (addedEdge edge1 edge2) := by
    rw [Rw.dGet?_dReplace]; simp [dGet?_some_mem_keys h1']
  have p3 := perm_cons_dErase h3
  rw [dErase_dReplace_same] at p3
  have pe : g.edgeList.Perm (edge2 :: edge1 :: (dErase (dErase g.edges eid2) eid1).map (·.2)) := by
    unfold Graph.edgeList
    have := (p1.trans (p2.cons _)).map (·.2)
    simpa using this
  have pe' : g'.edgeList.Perm (addedEdge edge1 edge2 :: (dErase (dErase g.edges eid2) eid1).map (·.2)) := by
    unfold Graph.edgeList
    rw [hedges]
    have := p3.map (·.2)
    simpa using this
  rw [denL_perm pe, denL_perm pe']
  exact denL_merge_par d' _ _ edge1 edge2 (addedEdge edge1 edge2) rfl hnids.symm (opc_addedEdge edge1 edge2) w x

end Ptn.Og

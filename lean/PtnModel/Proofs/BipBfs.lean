import PtnModel.Proofs.BipMatching
import PtnModel.Proofs.BipExplore
/-!
# C18 helper lemmas, part 5: the BFS `__connect_unmatched_vertices`

`BInv`: invariant of the queue loop.  Main consequence (`bfs_final_closed`): if the BFS ends without
reaching NIL, the set `R = {u | dist[u] ≠ inf}` contains all free `U`-vertices and every neighbour `v`
of a vertex of `R` is matched to a vertex of `R`.

The only subtle point: a label `dist[u] + 1` written by the BFS is never the "infinite" value
`num_u + 1`; this needs the pigeonhole argument `layer_bound` (labels `0..k` are all attained).
-/
namespace Ptn.Bip

/-! ## closed form of the initialisation loop -/

theorem bfsInit_foldl (p : Nat → Bool) (inf : Nat) : ∀ (l : List Nat) (acc : List Nat × List (Option Nat)),
    l.foldl (fun (acc : List Nat × List (Option Nat)) u =>
      if p u then (acc.1 ++ [0], acc.2 ++ [some u]) else (acc.1 ++ [inf], acc.2)) acc
    = (acc.1 ++ l.map (fun u => if p u then 0 else inf),
       acc.2 ++ (l.filter p).map some) := by
  intro l
  induction l with
  | nil => intro acc; simp
  | cons u l ih =>
    intro acc
    rw [List.foldl_cons, ih]
    by_cases h : p u = true
    · simp [h]
    · simp [h]

theorem bfsInit_eq (g : BGraph) (s : HK) : bfsInit g s =
    ({ s with du := (List.range g.numU).map (fun u => if (s.mu.getD u none).isNone then 0 else infDist g),
              dnil := infDist g },
     ((List.range g.numU).filter (fun u => (s.mu.getD u none).isNone)).map some) := by
  unfold bfsInit
  have := bfsInit_foldl (fun u => (s.mu.getD u none).isNone) (infDist g) (List.range g.numU) ([], [])
  simp only [List.nil_append] at this
  simp only [this]

/-! ## distances -/

theorem infDist_pos (g : BGraph) : infDist g ≠ 0 := by unfold infDist; omega

theorem dist_setDist_ne (s : HK) {x y : Option Nat} (d : Nat) (h : y ≠ x) : (s.setDist x d).dist y = s.dist y := by
  cases x with
  | none =>
    cases y with
    | none => exact absurd rfl h
    | some w => rfl
  | some u =>
    cases y with
    | none => rfl
    | some w =>
      have : u ≠ w := fun e => h (by rw [e])
      simp only [dist_some, setDist_some_du]
      exact getD_set_ne _ _ _ this

theorem dist_setDist_self (s : HK) {x : Option Nat} (d : Nat) (h : s.dist x ≠ 0) : (s.setDist x d).dist x = d := by
  cases x with
  | none => rfl
  | some u =>
    simp only [dist_some, setDist_some_du] at h ⊢
    have : u < s.du.length := by
      by_contra hc
      exact h (getD_of_length_le _ _ (by omega))
    exact getD_set_self _ _ _ this

theorem setDist_du_length (s : HK) (x : Option Nat) (d : Nat) : (s.setDist x d).du.length = s.du.length := by
  cases x <;> simp

/-! ## the pigeonhole bound on BFS labels -/

theorem layer_bound {n inf : Nat} (d : Nat → Nat)
    (hl : ∀ u, u < n → d u < inf → d u = 0 ∨ ∃ u', u' < n ∧ d u' + 1 = d u) :
    ∀ u, u < n → d u < inf → d u < n := by
  have key : ∀ k, ∀ u, u < n → d u = k → k < inf → ∀ j, j ≤ k → ∃ u', u' < n ∧ d u' = j := by
    intro k
    induction k with
    | zero => intro u hu hd _ j hj; exact ⟨u, hu, by omega⟩
    | succ k ih =>
      intro u hu hd hk j hj
      rcases hl u hu (by omega) with h0 | ⟨u', hu', h1⟩
      · omega
      · by_cases hjk : j = k + 1
        · exact ⟨u, hu, by omega⟩
        · exact ih u' hu' (by omega) (by omega) j (by omega)
  intro u hu hd
  have h1 := key (d u) u hu rfl hd
  have h2 : ∀ j, ∃ u', j ≤ d u → u' < n ∧ d u' = j := by
    intro j
    by_cases h : j ≤ d u
    · obtain ⟨u', h'⟩ := h1 j h
      exact ⟨u', fun _ => h'⟩
    · exact ⟨0, fun h' => absurd h' h⟩
  choose f hf using h2
  have hnd : ((List.range (d u + 1)).map f).Nodup := by
    apply List.Nodup.map_on _ List.nodup_range
    intro x hx y hy hxy
    have hx' := (hf x (by have := List.mem_range.1 hx; omega)).2
    have hy' := (hf y (by have := List.mem_range.1 hy; omega)).2
    rw [hxy] at hx'
    omega
  have hlt : ∀ x ∈ (List.range (d u + 1)).map f, x < n := by
    intro x hx
    obtain ⟨j, hj, rfl⟩ := List.mem_map.1 hx
    exact (hf j (by have := List.mem_range.1 hj; omega)).1
  have := length_le_of_nodup_lt hnd hlt
  simp at this
  omega

/-! ## counting infinite labels (for the fuel bound) -/

/-- the keys of the `dist` dictionary: NIL and the vertices of `U` -/
def validX (g : BGraph) : List (Option Nat) := none :: (List.range g.numU).map some

theorem validX_nodup (g : BGraph) : (validX g).Nodup := by
  unfold validX
  rw [List.nodup_cons]
  refine ⟨by simp, ?_⟩
  exact List.Nodup.map (fun a b h => by cases h; rfl) List.nodup_range

theorem length_validX (g : BGraph) : (validX g).length = g.numU + 1 := by simp [validX]

theorem mem_validX {g : BGraph} {x : Option Nat} : x ∈ validX g ↔ ∀ u, x = some u → u < g.numU := by
  unfold validX
  cases x with
  | none => simp
  | some w => simp

/-- number of keys with label `inf` -/
def cntInf (g : BGraph) (s : HK) : Nat := (validX g).countP (fun x => s.dist x == infDist g)

theorem cntInf_le (g : BGraph) (s : HK) : cntInf g s ≤ g.numU + 1 := by
  unfold cntInf
  have := List.countP_le_length (p := fun x => s.dist x == infDist g) (l := validX g)
  rw [length_validX] at this
  exact this

theorem countP_flip {α} (p p' : α → Bool) : ∀ (V : List α), V.Nodup → ∀ x ∈ V, p x = false → p' x = true →
    (∀ y, p y = true → p' y = true) → V.countP p + 1 ≤ V.countP p' := by
  intro V
  induction V with
  | nil => intro _ x hx; cases hx
  | cons a V ih =>
    intro hnd x hx hp hp' himp
    rw [List.nodup_cons] at hnd
    have hmono : V.countP p ≤ V.countP p' := List.countP_mono_left (fun y _ hy => himp y hy)
    rcases List.mem_cons.1 hx with rfl | hx
    · rw [List.countP_cons_of_neg (by simp [hp]), List.countP_cons_of_pos hp']
      omega
    · have := ih hnd.2 x hx hp hp' himp
      by_cases hpa : p a = true
      · rw [List.countP_cons_of_pos hpa, List.countP_cons_of_pos (himp a hpa)]
        omega
      · rw [List.countP_cons_of_neg hpa]
        by_cases hpa' : p' a = true
        · rw [List.countP_cons_of_pos hpa']; omega
        · rw [List.countP_cons_of_neg hpa']; omega

theorem countP_mono_imp {α} (p p' : α → Bool) (V : List α) (himp : ∀ y, p y = true → p' y = true) :
    V.countP p ≤ V.countP p' := List.countP_mono_left (fun y _ hy => himp y hy)

/-! ## the neighbour loop -/

/-- effect of the loop `for v in adj_u[u]` of the BFS (`d0 = dist[u]`) -/
structure NbPost (g : BGraph) (d0 : Nat) (vs : List Nat) (s : HK) (q : List (Option Nat)) (s' : HK)
    (q' : List (Option Nat)) : Prop where
  mu : s'.mu = s.mu
  mv : s'.mv = s.mv
  len : s'.du.length = s.du.length
  keep : ∀ x, s.dist x ≠ infDist g → s'.dist x = s.dist x
  new : ∀ x, s.dist x = infDist g → s'.dist x = infDist g ∨ (s'.dist x = d0 + 1 ∧ x ∈ q')
  newAdj : ∀ x, s.dist x = infDist g → s'.dist x ≠ infDist g → ∃ v ∈ vs, s.mateV v = x
  sub : ∀ x ∈ q, x ∈ q'
  qlen : q'.length + cntInf g s' ≤ q.length + cntInf g s

theorem mateV_valid {g : BGraph} {s : HK} (hinv : MInv g s.mu s.mv) (v : Nat) : s.mateV v ∈ validX g := by
  rw [mem_validX]
  intro u' hu'
  have := (hinv.iff u' v).2 (by simpa using hu')
  have hlt := lt_length_of_getD_some this
  rw [hinv.lenU] at hlt
  exact hlt

theorem bfsNeighbours_post (g : BGraph) (u d0 : Nat) (hd : d0 + 1 < infDist g) :
    ∀ (vs : List Nat) (s : HK) (q : List (Option Nat)), MInv g s.mu s.mv → s.dist (some u) = d0 →
      NbPost g d0 vs s q (bfsNeighbours g u vs s q).1 (bfsNeighbours g u vs s q).2 ∧
      ∀ v ∈ vs, (bfsNeighbours g u vs s q).1.dist (s.mateV v) ≠ infDist g := by
  intro vs
  induction vs with
  | nil =>
    intro s q _ _
    rw [bfsNeighbours]
    exact ⟨⟨rfl, rfl, rfl, fun _ _ => rfl, fun _ h => Or.inl h, fun _ h h' => absurd h h', fun _ h => h,
      Nat.le_refl _⟩, fun v hv => by cases hv⟩
  | cons v vs ih =>
    intro s q hinv hu
    rw [bfsNeighbours]
    by_cases hx : s.dist (s.mateV v) = infDist g
    · simp only [hx, if_true]
      have hxu : some u ≠ s.mateV v := by
        intro e; rw [← e, hu] at hx; omega
      have hs1u : (s.setDist (s.mateV v) (s.dist (some u) + 1)).dist (some u) = d0 := by
        rw [dist_setDist_ne _ _ hxu, hu]
      have hs1x : (s.setDist (s.mateV v) (s.dist (some u) + 1)).dist (s.mateV v) = d0 + 1 := by
        rw [dist_setDist_self _ _ (by rw [hx]; exact infDist_pos g), hu]
      have hinv1 : MInv g (s.setDist (s.mateV v) (s.dist (some u) + 1)).mu
          (s.setDist (s.mateV v) (s.dist (some u) + 1)).mv := by simpa using hinv
      obtain ⟨post, hcl⟩ := ih (s.setDist (s.mateV v) (s.dist (some u) + 1)) (q ++ [s.mateV v]) hinv1 hs1u
      have hmate1 : ∀ v', (s.setDist (s.mateV v) (s.dist (some u) + 1)).mateV v' = s.mateV v' := by
        intro v'; simp
      have hcnt : cntInf g (s.setDist (s.mateV v) (s.dist (some u) + 1)) + 1 ≤ cntInf g s := by
        unfold cntInf
        apply countP_flip _ _ _ (validX_nodup g) (s.mateV v) (mateV_valid hinv v)
        · rw [hs1x]; simp; omega
        · rw [hx]; simp
        · intro y hy
          by_cases hyx : y = s.mateV v
          · subst hyx; rw [hs1x] at hy; simp at hy; omega
          · rw [dist_setDist_ne s _ hyx] at hy; exact hy
      refine ⟨⟨?_, ?_, ?_, ?_, ?_, ?_, ?_, ?_⟩, ?_⟩
      · rw [post.mu]; simp
      · rw [post.mv]; simp
      · rw [post.len, setDist_du_length]
      · intro y hy
        have hyx : y ≠ s.mateV v := fun e => hy (e ▸ hx)
        have h1 := dist_setDist_ne s (s.dist (some u) + 1) hyx
        rw [post.keep y (by rw [h1]; exact hy), h1]
      · intro y hy
        by_cases hyx : y = s.mateV v
        · subst hyx
          right
          refine ⟨?_, post.sub _ (by simp)⟩
          rw [post.keep _ (by rw [hs1x]; omega), hs1x]
        · have h1 := dist_setDist_ne s (s.dist (some u) + 1) hyx
          exact post.new y (by rw [h1]; exact hy)
      · intro y hy hy'
        by_cases hyx : y = s.mateV v
        · exact ⟨v, List.mem_cons_self .., hyx.symm⟩
        · have h1 := dist_setDist_ne s (s.dist (some u) + 1) hyx
          obtain ⟨v', hv', h2⟩ := post.newAdj y (by rw [h1]; exact hy) hy'
          exact ⟨v', List.mem_cons_of_mem _ hv', by rw [← h2, hmate1]⟩
      · intro y hy; exact post.sub y (by simp [hy])
      · have := post.qlen
        simp only [List.length_append, List.length_singleton] at this
        omega
      · intro v' hv'
        rcases List.mem_cons.1 hv' with rfl | hv'
        · rw [post.keep _ (by rw [hs1x]; omega), hs1x]; omega
        · have := hcl v' hv'
          rw [hmate1] at this
          exact this
    · simp only [hx, if_false]
      obtain ⟨post, hcl⟩ := ih s q hinv hu
      refine ⟨⟨post.mu, post.mv, post.len, post.keep, post.new, ?_, post.sub, post.qlen⟩, ?_⟩
      · intro y hy hy'
        obtain ⟨v', hv', h2⟩ := post.newAdj y hy hy'
        exact ⟨v', List.mem_cons_of_mem _ hv', h2⟩
      · intro v' hv'
        rcases List.mem_cons.1 hv' with rfl | hv'
        · rw [post.keep _ hx]; exact hx
        · exact hcl v' hv'

/-! ## the queue loop -/

/-- all neighbours of `u` have a partner with a finite label -/
def Closed (g : BGraph) (s : HK) (u : Nat) : Prop :=
  ∀ v ∈ g.adjU.getD u [], s.dist (s.mateV v) ≠ infDist g

/-- invariant of the `while not queue.empty()` loop -/
structure BInv (g : BGraph) (s : HK) (q : List (Option Nat)) : Prop where
  minv : MInv g s.mu s.mv
  len : s.du.length = g.numU
  allLe : ∀ x, s.dist x ≤ infDist g
  free0 : ∀ u, u < g.numU → s.mu.getD u none = none → s.dist (some u) = 0
  zeroFree : ∀ u, u < g.numU → s.dist (some u) = 0 → s.mu.getD u none = none
  /-- every finite label of a key is `0` (a vertex) or one more than the label of a predecessor in the
  alternating BFS forest -/
  layerAdj : ∀ x, x ∈ validX g → s.dist x < infDist g →
    (x ≠ none ∧ s.dist x = 0) ∨
    ∃ u', u' < g.numU ∧ ∃ v ∈ g.adjU.getD u' [], s.mateV v = x ∧ s.dist (some u') + 1 = s.dist x
  pend : s.dnil ≠ infDist g ∨
    ∀ u, u < g.numU → s.dist (some u) ≠ infDist g → some u ∈ q ∨ Closed g s u

theorem BInv.layer {g : BGraph} {s : HK} {q : List (Option Nat)} (inv : BInv g s q) :
    ∀ u, u < g.numU → s.dist (some u) < infDist g →
      s.dist (some u) = 0 ∨ ∃ u', u' < g.numU ∧ s.dist (some u') + 1 = s.dist (some u) := by
  intro u hu hlt
  rcases inv.layerAdj (some u) (mem_validX.2 (fun w hw => by cases hw; exact hu)) hlt with h | ⟨u', hu', _, _, _, h⟩
  · exact Or.inl h.2
  · exact Or.inr ⟨u', hu', h⟩

/-- a label written by the BFS is never the "infinite" one -/
theorem BInv.label_bound {g : BGraph} {s : HK} {q : List (Option Nat)} (inv : BInv g s q) {u : Nat}
    (hu : u < g.numU) (h : s.dist (some u) < s.dnil) : s.dist (some u) + 1 < infDist g := by
  have hdn := inv.allLe none
  have hlt : s.dist (some u) < infDist g := by simp only [dist_none] at hdn; omega
  have hb := layer_bound (fun w => s.dist (some w)) inv.layer u hu hlt
  unfold infDist; omega

theorem BInv.skip {g : BGraph} {s : HK} {x : Option Nat} {q : List (Option Nat)} (inv : BInv g s (x :: q))
    (h : x = none ∨ ¬ s.dist x < s.dnil) : BInv g s q := by
  refine ⟨inv.minv, inv.len, inv.allLe, inv.free0, inv.zeroFree, inv.layerAdj, ?_⟩
  rcases inv.pend with hp | hp
  · exact Or.inl hp
  · by_cases hn : s.dnil = infDist g
    · right
      intro u hu hd
      rcases hp u hu hd with h1 | h1
      · rcases List.mem_cons.1 h1 with h2 | h2
        · exfalso
          rcases h with h | h
          · rw [h] at h2; cases h2
          · rw [← h2, hn] at h
            have := inv.allLe (some u)
            omega
        · exact Or.inl h2
      · exact Or.inr h1
    · exact Or.inl hn

theorem BInv.step {g : BGraph} (hg : g.WF) {s : HK} {u : Nat} {q : List (Option Nat)}
    (inv : BInv g s (some u :: q)) (h : s.dist (some u) < s.dnil) :
    BInv g (bfsNeighbours g u (g.adjU.getD u []) s q).1 (bfsNeighbours g u (g.adjU.getD u []) s q).2 := by
  by_cases hu : u < g.numU
  · have hd := inv.label_bound hu h
    obtain ⟨post, hcl⟩ := bfsNeighbours_post g u _ hd (g.adjU.getD u []) s q inv.minv rfl
    generalize (bfsNeighbours g u (g.adjU.getD u []) s q).1 = s' at post hcl ⊢
    generalize (bfsNeighbours g u (g.adjU.getD u []) s q).2 = q' at post ⊢
    have hmate : ∀ v, s'.mateV v = s.mateV v := by intro v; simp [post.mv]
    have hstable : ∀ w, Closed g s w → Closed g s' w := by
      intro w hw v hv
      have h1 := hw v hv
      rw [hmate, post.keep _ h1]; exact h1
    refine ⟨?_, ?_, ?_, ?_, ?_, ?_, ?_⟩
    · rw [post.mu, post.mv]; exact inv.minv
    · rw [post.len]; exact inv.len
    · intro x
      by_cases hx : s.dist x = infDist g
      · rcases post.new x hx with h1 | ⟨h1, _⟩
        · omega
        · omega
      · rw [post.keep x hx]; exact inv.allLe x
    · intro w hw hfree
      rw [post.mu] at hfree
      have h0 := inv.free0 w hw hfree
      rw [post.keep _ (by rw [h0]; exact (infDist_pos g).symm), h0]
    · intro w hw h0
      rw [post.mu]
      by_cases hx : s.dist (some w) = infDist g
      · rcases post.new _ hx with h1 | ⟨h1, _⟩
        · rw [h1] at h0; exact absurd h0 (infDist_pos g)
        · omega
      · rw [post.keep _ hx] at h0
        exact inv.zeroFree w hw h0
    · intro x hval hlt'
      by_cases hx : s.dist x = infDist g
      · rcases post.new _ hx with h1 | ⟨h1, _⟩
        · omega
        · right
          obtain ⟨v, hv, hvx⟩ := post.newAdj x hx (by omega)
          refine ⟨u, hu, v, hv, by rw [hmate]; exact hvx, ?_⟩
          rw [post.keep _ (by omega), h1]
      · have hwk := post.keep _ hx
        rw [hwk] at hlt' ⊢
        rcases inv.layerAdj x hval hlt' with h0 | ⟨w', hw', v, hv, hvx, h1⟩
        · exact Or.inl h0
        · right
          refine ⟨w', hw', v, hv, by rw [hmate]; exact hvx, ?_⟩
          rw [post.keep _ (by omega)]; exact h1
    · rcases inv.pend with hp | hp
      · left
        have := post.keep none (by simpa using hp)
        simp only [dist_none] at this
        rw [this]; exact hp
      · by_cases hn : s'.dnil = infDist g
        · right
          intro w hw hdw
          by_cases hx : s.dist (some w) = infDist g
          · rcases post.new _ hx with h1 | ⟨_, h1⟩
            · exact absurd h1 hdw
            · exact Or.inl h1
          · rcases hp w hw hx with h1 | h1
            · rcases List.mem_cons.1 h1 with h2 | h2
              · cases h2
                right
                intro v hv
                rw [hmate]
                exact hcl v hv
              · exact Or.inl (post.sub _ h2)
            · exact Or.inr (hstable w h1)
        · exact Or.inl hn
  · -- out-of-range queue entry: no neighbours
    have hadj : g.adjU.getD u [] = [] := getD_of_length_le _ _ (by rw [hg.lenU]; omega)
    rw [hadj, bfsNeighbours]
    refine ⟨inv.minv, inv.len, inv.allLe, inv.free0, inv.zeroFree, inv.layerAdj, ?_⟩
    rcases inv.pend with hp | hp
    · exact Or.inl hp
    · right
      intro w hw hdw
      rcases hp w hw hdw with h1 | h1
      · rcases List.mem_cons.1 h1 with h2 | h2
        · cases h2; exact absurd hw hu
        · exact Or.inl h2
      · exact Or.inr h1

/-- one iteration does not increase `|queue| + #inf` (and removes the head) -/
theorem bfs_step_count {g : BGraph} (hg : g.WF) {s : HK} {u : Nat} {q : List (Option Nat)}
    (inv : BInv g s (some u :: q)) (h : s.dist (some u) < s.dnil) :
    (bfsNeighbours g u (g.adjU.getD u []) s q).2.length + cntInf g (bfsNeighbours g u (g.adjU.getD u []) s q).1
      ≤ q.length + cntInf g s := by
  by_cases hu : u < g.numU
  · have hd := inv.label_bound hu h
    exact (bfsNeighbours_post g u _ hd (g.adjU.getD u []) s q inv.minv rfl).1.qlen
  · have hadj : g.adjU.getD u [] = [] := getD_of_length_le _ _ (by rw [hg.lenU]; omega)
    rw [hadj, bfsNeighbours]

theorem bfsLoop_inv {g : BGraph} (hg : g.WF) : ∀ (fuel : Nat) (s : HK) (q : List (Option Nat)) (s' : HK),
    BInv g s q → bfsLoop g fuel s q = .ok s' → BInv g s' [] := by
  intro fuel
  induction fuel with
  | zero =>
    intro s q s' inv h
    cases q with
    | nil => rw [bfsLoop_nil] at h; cases h; exact inv
    | cons x q => rw [bfsLoop_zero_cons] at h; cases h
  | succ fuel ih =>
    intro s q s' inv h
    cases q with
    | nil => rw [bfsLoop_nil] at h; cases h; exact inv
    | cons x q =>
      cases x with
      | none => rw [bfsLoop_succ_none] at h; exact ih _ _ _ (inv.skip (Or.inl rfl)) h
      | some u =>
        rw [bfsLoop_succ_some] at h
        split at h
        · rename_i hlt
          exact ih _ _ _ (inv.step hg hlt) h
        · rename_i hlt
          exact ih _ _ _ (inv.skip (Or.inr hlt)) h

/-- the BFS fuel suffices -/
theorem bfsLoop_ok {g : BGraph} (hg : g.WF) : ∀ (fuel : Nat) (s : HK) (q : List (Option Nat)),
    BInv g s q → q.length + cntInf g s ≤ fuel → ∃ s', bfsLoop g fuel s q = .ok s' := by
  intro fuel
  induction fuel with
  | zero =>
    intro s q inv h
    cases q with
    | nil => exact ⟨s, bfsLoop_nil ..⟩
    | cons x q => simp at h
  | succ fuel ih =>
    intro s q inv h
    cases q with
    | nil => exact ⟨s, bfsLoop_nil ..⟩
    | cons x q =>
      simp only [List.length_cons] at h
      cases x with
      | none => rw [bfsLoop_succ_none]; exact ih _ _ (inv.skip (Or.inl rfl)) (by omega)
      | some u =>
        rw [bfsLoop_succ_some]
        split
        · rename_i hlt
          have := bfs_step_count hg inv hlt
          exact ih _ _ (inv.step hg hlt) (by omega)
        · rename_i hlt
          exact ih _ _ (inv.skip (Or.inr hlt)) (by omega)

theorem BInv.init {g : BGraph} {s : HK} (hinv : MInv g s.mu s.mv) : BInv g (bfsInit g s).1 (bfsInit g s).2 := by
  rw [bfsInit_eq]
  have hdist : ∀ w, w < g.numU → (List.map (fun u => if (s.mu.getD u none).isNone = true then 0 else infDist g)
      (List.range g.numU)).getD w 0 = if (s.mu.getD w none).isNone = true then 0 else infDist g := by
    intro w hw
    rw [List.getD_eq_getElem?_getD, List.getElem?_map, List.getElem?_range hw]
    rfl
  refine ⟨hinv, by simp, ?_, ?_, ?_, ?_, ?_⟩
  · intro x
    cases x with
    | none => exact Nat.le_refl _
    | some w =>
      simp only [dist_some]
      by_cases hw : w < g.numU
      · rw [hdist w hw]; split <;> omega
      · rw [getD_of_length_le _ _ (by simp; omega)]; omega
  · intro w hw hfree
    simp only [dist_some]
    rw [hdist w hw, hfree]; rfl
  · intro w hw h0
    simp only [dist_some] at h0
    rw [hdist w hw] at h0
    split at h0
    · rename_i h
      cases hh : s.mu.getD w none with
      | none => rfl
      | some v => rw [hh] at h; cases h
    · exact absurd h0 (infDist_pos g)
  · intro x hval hlt
    cases x with
    | none => simp only [dist_none] at hlt; omega
    | some w =>
      have hw := mem_validX.1 hval w rfl
      simp only [dist_some] at hlt ⊢
      rw [hdist w hw] at hlt ⊢
      split at hlt
      · rename_i h; left; exact ⟨by simp, by rw [if_pos h]⟩
      · omega
  · right
    intro w hw hd
    left
    simp only [dist_some] at hd
    rw [hdist w hw] at hd
    refine List.mem_map.2 ⟨w, List.mem_filter.2 ⟨List.mem_range.2 hw, ?_⟩, rfl⟩
    by_contra hc
    simp only [hc] at hd
    exact hd rfl

/-- `__connect_unmatched_vertices` never runs out of fuel -/
theorem connectUnmatched_ok' {g : BGraph} (hg : g.WF) {s : HK} (hinv : MInv g s.mu s.mv) :
    ∃ s1 b, connectUnmatched g s = .ok (s1, b) := by
  have hq : (bfsInit g s).2.length ≤ g.numU := by
    rw [bfsInit_eq]
    simp only [List.length_map]
    have := List.length_filter_le (fun u => (s.mu.getD u none).isNone) (List.range g.numU)
    simpa using this
  have hc := cntInf_le g (bfsInit g s).1
  have hf : (bfsInit g s).2.length + cntInf g (bfsInit g s).1 ≤ bfsFuel g := by
    unfold bfsFuel
    have : (g.numU + 2) * 2 ≤ (g.numU + 2) * (g.numU + 2) := Nat.mul_le_mul_left _ (by omega)
    omega
  obtain ⟨s1, h1⟩ := bfsLoop_ok hg _ _ _ (BInv.init hinv) hf
  refine ⟨s1, s1.dnil != infDist g, ?_⟩
  unfold connectUnmatched
  simp only [bind, Except.bind, pure, Except.pure]
  have : bfsInit g s = ((bfsInit g s).1, (bfsInit g s).2) := rfl
  rw [this]
  simp only [h1]

/-- The final (unsuccessful) BFS: the vertices with a finite label form a closed set. -/
theorem bfs_final_closed {g : BGraph} (hg : g.WF) {sp s : HK} (hinv : MInv g sp.mu sp.mv)
    (h : connectUnmatched g sp = .ok (s, false)) :
    (∀ u, u < g.numU → s.mu.getD u none = none → s.dist (some u) ≠ infDist g) ∧
    (∀ u, u < g.numU → s.dist (some u) ≠ infDist g → ∀ v ∈ g.adjU.getD u [],
        ∃ u', s.mv.getD v none = some u' ∧ u' < g.numU ∧ s.dist (some u') ≠ infDist g) := by
  obtain ⟨hl, hb⟩ := connectUnmatched_ok h
  have inv := bfsLoop_inv hg _ _ _ _ (BInv.init hinv) hl
  have hn : s.dnil = infDist g := by
    by_contra hc
    have : (s.dnil != infDist g) = true := by simpa using hc
    rw [this] at hb; cases hb
  refine ⟨?_, ?_⟩
  · intro u hu hfree
    rw [inv.free0 u hu hfree]; exact (infDist_pos g).symm
  · intro u hu hd v hv
    rcases inv.pend with hp | hp
    · exact absurd hn hp
    · rcases hp u hu hd with h1 | h1
      · cases h1
      · have h2 := h1 v hv
        simp only [mateV_eq] at h2
        cases hm : s.mv.getD v none with
        | none => rw [hm] at h2; exact absurd hn h2
        | some u' =>
          rw [hm] at h2
          have := (inv.minv.iff u' v).2 hm
          have hlt := lt_length_of_getD_some this
          rw [inv.minv.lenU] at hlt
          exact ⟨u', rfl, hlt, h2⟩

end Ptn.Bip

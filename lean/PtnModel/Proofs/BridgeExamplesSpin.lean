import PtnModel.Proofs.ChainExamples
import PtnModel.Model.HamiltonianMol
/-!
# Evaluated run of the bond-optimized spin-orbital construction (non-vacuity example of `Props/C07Dense.lean`)

`ex_from3`, `spinMol_L1_ok` : `spin_molecular_hamiltonian_mpo([[3]], [[[[0]]]], optimize=True)` returns (one spatial orbital: the chains
`3 · (n ⊗ I)`, `3 · (I ⊗ n)` and a zero-coefficient interaction chain; the minimum vertex cover of the 2 × 1 bipartite graph is its
`V` node).  The two kernel evaluations (`ex_site3`, `ex_from3`) take about 13 s each.
-/
namespace Ptn.Ch
open Ptn Ptn.Og Ptn.Bip List

/-! ### two half-chains sharing their tail: the bipartite graph with two `U` nodes and one `V` node -/

def ex21 : BGraph := ⟨2, 1, [[0], [0]], [[0, 1]]⟩

set_option maxRecDepth 8000 in
theorem ex21_hk : hopcroftKarp ex21 = .ok [(0, 0)] := by
  simp [ex21, hopcroftKarp, hopcroftKarpState, phaseFuel, phaseLoop, connectUnmatched, bfsInit, bfsFuel, bfsLoop,
    bfsNeighbours, augmentAll, dfs, dfsNeighbours, dfsFuel, HK.init, HK.dist, HK.setDist, HK.mateV, infDist,
    matchingOf, List.range, List.range.loop, bind, Except.bind, pure, Except.pure, List.getD]

set_option maxRecDepth 8000 in
theorem ex21_mvc : minimumVertexCover ex21 = .ok ([], [0]) := by
  unfold minimumVertexCover
  rw [ex21_hk]
  simp [ex21, explore, exploreV, exploreU, exploreFuel, List.getD, sortNat, pyAssert,
    List.range, List.range.loop, bind, Except.bind, pure, Except.pure]

def exChains3 : List (OpChain Int) := [⟨[14], [0, 0], 3, 0⟩, ⟨[3], [0, 0], 3, 0⟩, ⟨[17], [0, 0], 0, 0⟩]

def exGraph3 : Graph Int :=
  ⟨[(0, ⟨0, [], [0, 1], 0⟩), (1, ⟨1, [0, 1], [], 0⟩)],
   [(0, ⟨0, (0, 1), [(14, 3)]⟩), (1, ⟨1, (0, 1), [(3, 3)]⟩)], (0, 1)⟩

def exState0'' : ChState Int := ⟨graph0, 1, 0, [⟨[14, 0], [0, 0, 0], 0⟩, ⟨[3, 0], [0, 0, 0], 0⟩], [3, 3], []⟩

def exState1'' : ChState Int :=
  ⟨⟨[(0, ⟨0, [], [0, 1], 0⟩), (-1, ⟨-1, [], [], 0⟩), (1, ⟨1, [0, 1], [], 0⟩)],
    [(0, ⟨0, (0, 1), [(14, 3)]⟩), (1, ⟨1, (0, 1), [(3, 3)]⟩)], (0, -1)⟩,
    2, 2, [⟨[0], [0, 0], 1⟩], [1], []⟩

theorem ex_partition3 : sitePartition [(⟨[14, 0], [0, 0, 0], 0⟩ : HalfChain), ⟨[3, 0], [0, 0, 0], 0⟩] [(3 : Int), 3]
    = .ok ⟨[⟨14, 0, 0, 0⟩, ⟨3, 0, 0, 0⟩], [⟨[0], [0, 0], -1⟩], [(0, 0), (1, 0)], [((0, 0), 3), ((1, 0), 3)]⟩ := rfl

theorem ex_site3 : siteStep exState0'' = .ok exState1'' := by
  have hb : BGraph.mk' ((2 : Nat) : Int) ((1 : Nat) : Int)
      ([((0 : Nat), (0 : Nat)), ((1 : Nat), (0 : Nat))].map fun e => ((e.1 : Int), (e.2 : Int))) = .ok ex21 := by decide
  simp only [siteStep, exState0'', ex_partition3, bind, Except.bind, List.length_cons, List.length_nil, Nat.zero_add,
    hb, ex21_mvc]
  rfl

set_option maxRecDepth 4000 in
theorem ex_from3 : fromOpchains exChains3 1 0 = .ok exGraph3 := by
  have hs := ex_site3
  unfold fromOpchains
  simp [exChains3, Node.mk', hasDup, pyAssert, graph0_mk, OpChain.padded, OpChain.mk', OpChain.length, pyRepeat,
    HalfChain.mk', bind, Except.bind, pure, Except.pure, List.range, List.range.loop]
  simp only [exState0''] at hs
  rw [hs]
  rfl

end Ptn.Ch

namespace Ptn.Ham
open Ptn Ptn.Og Ptn.Ch List

/-- `spin_molecular_hamiltonian_mpo([[3]], [[[[0]]]], optimize=True)` returns -/
theorem spinMol_L1_ok : ∃ b, spinMolBuildOpt (⟨0, fun _ => 0⟩ : Consts Int) [[3]] [[[[0]]]] = .ok b := by
  have h : spinMolChains (⟨0, fun _ => 0⟩ : Consts Int) [[3]] [[[[0]]]] = .ok exChains3 := by decide
  have hc : exGraph3.isConsistent = true := by decide
  unfold spinMolBuildOpt
  simp only [h, bind, Except.bind]
  simp only [List.length_cons, List.length_nil, Nat.zero_add, Nat.cast_one, ex_from3, hc, pyAssert]
  exact ⟨_, rfl⟩

end Ptn.Ham

import PtnModel.Proofs.DenseDefs
/-!
# Concrete operands over `ℤ` for the non-vacuity examples of C03

Physical charges `qd = [0, 1]`, `L = 3`; the two MPS (and the two MPOs) have the same boundary charges but independent
interior bond profiles; every tensor is block sparse with respect to its charges and has non-zero entries
in all allowed positions.
-/
namespace Ptn.Dense.Ex

/-- block-sparse MPS tensor with entries `g s a b` at the allowed positions -/
def t3 (qd qa qb : List Int) (g : Nat → Nat → Nat → Int) : T3 Int :=
  ⟨qd.length, qa.length, qb.length, fun s a b => if qd.getD s 0 + qa.getD a 0 - qb.getD b 0 = 0 then g s a b else 0⟩

/-- block-sparse MPO tensor -/
def t4 (qd qa qb : List Int) (g : Nat → Nat → Nat → Nat → Int) : T4 Int :=
  ⟨qd.length, qd.length, qa.length, qb.length, fun s t a b =>
    if qd.getD s 0 - qd.getD t 0 + qa.getD a 0 - qb.getD b 0 = 0 then g s t a b else 0⟩

def qd : List Int := [0, 1]

def ψ0 : MPS Int :=
  ⟨qd, [[0], [0, 1], [1, 2], [2]],
   [t3 qd [0] [0, 1] (fun s a b => 1 + s + 2 * a + 3 * b),
    t3 qd [0, 1] [1, 2] (fun s a b => 2 + s + a + b),
    t3 qd [1, 2] [2] (fun s a b => 1 + 2 * s + a + b)]⟩

def ψ1 : MPS Int :=
  ⟨qd, [[0], [1, 0, 1], [1], [2]],
   [t3 qd [0] [1, 0, 1] (fun s a b => 3 + s + a + b),
    t3 qd [1, 0, 1] [1] (fun s a b => 1 + s + 2 * a + b),
    t3 qd [1] [2] (fun s a b => 5 + s + a + b)]⟩

/-- single-site states -/
def φ0 : MPS Int := ⟨qd, [[0], [1]], [t3 qd [0] [1] (fun _ _ _ => 3)]⟩
def φ1 : MPS Int := ⟨qd, [[0], [1]], [t3 qd [0] [1] (fun _ _ _ => 5)]⟩

def o0 : MPO Int :=
  ⟨qd, [[0], [0, 1, -1], [0, 1], [0]],
   [t4 qd [0] [0, 1, -1] (fun s t a b => 1 + s + 2 * t + a + b),
    t4 qd [0, 1, -1] [0, 1] (fun s t a b => 2 + s + t + 2 * a + b),
    t4 qd [0, 1] [0] (fun s t a b => 1 + 3 * s + t + a + b)]⟩

def o1 : MPO Int :=
  ⟨qd, [[0], [0], [-1, 0], [0]],
   [t4 qd [0] [0] (fun s t a b => 2 + s + t + a + b),
    t4 qd [0] [-1, 0] (fun s t a b => 1 + 2 * s + t + a + 3 * b),
    t4 qd [-1, 0] [0] (fun s t a b => 4 + s + t + a + b)]⟩

/-- single-site operators -/
def w0 : MPO Int := ⟨qd, [[0], [0]], [t4 qd [0] [0] (fun s _ _ _ => 2 + s)]⟩
def w1 : MPO Int := ⟨qd, [[0], [0]], [t4 qd [0] [0] (fun s _ _ _ => 7 + 2 * s)]⟩

theorem shaped_ψ0 : MPS.Shaped ψ0 2 :=
  ⟨rfl, by simp [ψ0], by simp [MPS.Chain, ψ0, t3, qd], by simp [MPS.DimsMatch, ψ0, t3, qd]⟩
theorem shaped_ψ1 : MPS.Shaped ψ1 2 :=
  ⟨rfl, by simp [ψ1], by simp [MPS.Chain, ψ1, t3, qd], by simp [MPS.DimsMatch, ψ1, t3, qd]⟩
theorem shaped_φ0 : MPS.Shaped φ0 2 :=
  ⟨rfl, by simp [φ0], by simp [MPS.Chain, φ0, t3, qd], by simp [MPS.DimsMatch, φ0, t3, qd]⟩
theorem shaped_φ1 : MPS.Shaped φ1 2 :=
  ⟨rfl, by simp [φ1], by simp [MPS.Chain, φ1, t3, qd], by simp [MPS.DimsMatch, φ1, t3, qd]⟩
theorem shaped_o0 : MPO.Shaped o0 2 :=
  ⟨rfl, by simp [o0], by simp [MPO.Chain, o0, t4, qd], by simp [MPO.DimsMatch, o0, t4, qd]⟩
theorem shaped_o1 : MPO.Shaped o1 2 :=
  ⟨rfl, by simp [o1], by simp [MPO.Chain, o1, t4, qd], by simp [MPO.DimsMatch, o1, t4, qd]⟩
theorem shaped_w0 : MPO.Shaped w0 2 :=
  ⟨rfl, by simp [w0], by simp [MPO.Chain, w0, t4, qd], by simp [MPO.DimsMatch, w0, t4, qd]⟩
theorem shaped_w1 : MPO.Shaped w1 2 :=
  ⟨rfl, by simp [w1], by simp [MPO.Chain, w1, t4, qd], by simp [MPO.DimsMatch, w1, t4, qd]⟩

end Ptn.Dense.Ex

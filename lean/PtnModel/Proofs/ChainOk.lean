import PtnModel.Proofs.ChainTotal
import PtnModel.Proofs.ChainCons
import PtnModel.Proofs.ChainMain
/-!
# `from_opchains` succeeds on well-formed chain lists; the result has the requested length
-/
set_option linter.unusedSectionVars false

namespace Ptn.Ch
open Ptn Ptn.Og List

variable {κ : Type} [CommRing κ] [DecidableEq κ]

/-- the guard of `from_opchains_ok`: `L ≥ 1`, some coefficient is non-zero, and every chain with a non-zero
coefficient starts at a site `≥ 0`, fits on the lattice, has one more quantum number than operators, and
has leading and trailing quantum number 0 -/
def ChainsWF (chains : List (OpChain κ)) (L : Int) : Prop :=
  1 ≤ L ∧ (∃ c ∈ chains, c.coeff ≠ 0) ∧
  ∀ c ∈ chains, c.coeff ≠ 0 →
    0 ≤ c.istart ∧ c.istart + (c.oids.length : Int) ≤ L ∧ c.qnums.length = c.oids.length + 1 ∧
    c.qnums.head? = some 0 ∧ c.qnums.getLast? = some 0

instance (chains : List (OpChain κ)) (L : Int) : Decidable (ChainsWF chains L) := by
  unfold ChainsWF; infer_instance

theorem mapM_eq_ok_map {α β : Type} (f : α → Except Err β) (F : α → β) : ∀ (l : List α),
    (∀ a ∈ l, f a = .ok (F a)) → l.mapM f = .ok (l.map F) := by
  intro l
  induction l with
  | nil => intro _; rfl
  | cons a l ih =>
    intro h
    rw [mapM_cons, h a (by simp), ih (fun a' ha' => h a' (by simp [ha']))]
    rfl

theorem padded_eq_ok (L id : Int) (c : OpChain κ) (_h1 : 0 ≤ c.istart) (h2 : c.istart + (c.oids.length : Int) ≤ L)
    (h3 : c.qnums.length = c.oids.length + 1) : c.padded L id = .ok (padF L id c) := by
  unfold OpChain.padded OpChain.mk'
  have hn : decide (L - (c.length : Int) - c.istart ≥ 0) = true := by
    simp only [OpChain.length, ge_iff_le, decide_eq_true_eq]; omega
  simp only [hn, pyAssert, if_true, bind, Except.bind]
  have hl : ¬ ((pyRepeat c.istart id ++ c.oids ++ pyRepeat (L - (c.length : Int) - c.istart) id).length + 1
      != (pyRepeat c.istart (0 : Int) ++ c.qnums ++ pyRepeat (L - (c.length : Int) - c.istart) (0 : Int)).length) = true := by
    simp only [pyRepeat, length_append, length_replicate, bne_iff_ne, ne_eq, not_not]
    omega
  rw [if_neg hl, if_neg (by omega)]
  rfl

theorem head?_pad (a : Nat) (qs rest : List Int) (h : qs.head? = some 0) :
    (replicate a (0 : Int) ++ qs ++ rest)[0]? = some 0 := by
  cases a with
  | zero =>
    cases qs with
    | nil => simp at h
    | cons q qs => simp at h; simp [h]
  | succ a => simp [replicate_succ]

theorem tail_pad (a b : Nat) (qs : List Int) (h : qs.getLast? = some 0) :
    ∃ front, replicate a (0 : Int) ++ qs ++ replicate b (0 : Int) = front ++ [0] := by
  cases b with
  | succ b => exact ⟨replicate a 0 ++ qs ++ replicate b 0, by rw [replicate_succ', append_assoc]; simp⟩
  | zero =>
    have hne : qs ≠ [] := by intro h0; rw [h0] at h; simp at h
    have hl : qs.getLast hne = 0 := by
      rw [getLast?_eq_some_getLast hne] at h; exact Option.some.inj h
    refine ⟨replicate a 0 ++ qs.dropLast, ?_⟩
    rw [replicate_zero, append_nil, append_assoc]
    congr 1
    rw [← hl]
    exact (dropLast_append_getLast hne).symm

/-- the state before the sweep satisfies the invariant -/
theorem winv_init (chains : List (OpChain κ)) (L id : Int) (hwf : ChainsWF chains L) :
    WInv L.toNat id 0 (fun _ => 0)
      (⟨graph0, 1, 0,
        ((chains.filter (fun c => c.coeff != 0)).map (padF L id)).map
          (fun c => (⟨c.oids ++ [id], c.qnums ++ [0], 0⟩ : HalfChain)),
        ((chains.filter (fun c => c.coeff != 0)).map (padF L id)).map (·.coeff), []⟩ : ChState κ) := by
  obtain ⟨hL, ⟨c0, hc0, hc0n⟩, hall⟩ := hwf
  have hstar : GStar (graph0 : Graph κ) 1 0 := by
    refine ⟨le_refl _, le_refl _, by simp [graph0, dKeys], ?_, ?_, by simp [graph0, dKeys], by simp [graph0, dHas],
      by simp [graph0], by simp [graph0, edgeList], rfl, by simp [graph0]⟩
    · intro k
      by_cases h0 : k = 0
      · subst h0; simp [graph0, dHas]
      · by_cases h1 : k = -1
        · subst h1; simp [graph0, dHas]
        · have hb0 : (k == 0) = false := by simpa using h0
          have hb1 : (k == -1) = false := by simpa using h1
          simp only [graph0, dHas, lookup_cons, hb0, hb1, lookup_nil, Option.isSome_none, Bool.false_eq_true, h1, false_or, false_iff]
          omega
    · intro k n hk
      by_cases h0 : k = 0
      · subst h0
        simp only [graph0, dGet?, lookup_cons, beq_self_eq_true, Option.some.injEq] at hk
        subst hk
        simp [outIds, inIds, edgeList, graph0]
      · by_cases h1 : k = -1
        · subst h1
          have : ((-1 : Int) == 0) = false := by decide
          simp only [graph0, dGet?, lookup_cons, this, beq_self_eq_true, Option.some.injEq] at hk
          subst hk
          simp [outIds, inIds, edgeList, graph0]
        · have hb0 : (k == 0) = false := by simpa using h0
          have hb1 : (k == -1) = false := by simpa using h1
          simp [graph0, dGet?, lookup_cons, hb0, hb1] at hk
  have hmem0 : c0 ∈ chains.filter (fun c => c.coeff != 0) := by simp [mem_filter, hc0, hc0n]
  refine ⟨hstar, rfl, by simp [edgeList, graph0], fun x h1 (h2 : x < (1 : Int)) => by omega, by simp, ?_, by simp, ?_,
    fun x _ _ (h : (0 : Nat) < 0) => by omega, ?_⟩
  · intro h0
    rw [map_eq_nil_iff, map_eq_nil_iff] at h0
    rw [h0] at hmem0
    simp at hmem0
  · intro h hh
    obtain ⟨c', hc', rfl⟩ := mem_map.1 hh
    obtain ⟨c, hc, rfl⟩ := mem_map.1 hc'
    obtain ⟨hcm, hcn⟩ := mem_filter.1 hc
    obtain ⟨h1, h2, h3, h4, h5⟩ := hall c hcm (by simpa using hcn)
    have hlen := padF_length L id c (by simp only [OpChain.length]; omega) h1
    have hqlen : (padF L id c).qnums.length = L.toNat + 1 := by
      simp only [padF, pyRepeat, length_append, length_replicate, OpChain.length]
      omega
    refine ⟨le_refl _, by simp, rfl, ⟨0, ?_, by simp [nodeQ, graph0, dGet?]⟩, by simp [hlen], by simp [hlen, hqlen],
      by simp, ?_⟩
    · simp only [padF, pyRepeat]
      rw [append_assoc]
      exact head?_pad _ _ _ h4
    · obtain ⟨front, hf⟩ := tail_pad c.istart.toNat (L - (c.length : Int) - c.istart).toNat c.qnums h5
      refine ⟨front, ?_⟩
      simp only [padF, pyRepeat]
      rw [hf, append_assoc]
      rfl
  · intro x hx0 (hx1 : x < (1 : Int)) _
    have : x = 0 := by omega
    subst this
    exact ⟨_, mem_map_of_mem (mem_map_of_mem hmem0), rfl⟩

/-- the whole sweep -/
theorem iter_total {L : Nat} {id : Int} : ∀ (n k : Nat) (lay : Int → Nat) (s : ChState κ),
    WInv L id k lay s → k + n ≤ L →
    ∃ s', (List.range n).foldlM (fun s _ => siteStep s) s = .ok s' ∧
      (∃ lay', WInv L id (k + n) lay' s') ∧ (1 ≤ n → k + n = L → s'.vlistNext.length = 1) := by
  intro n
  induction n with
  | zero =>
    intro k lay s w _
    exact ⟨s, rfl, ⟨lay, w⟩, by omega⟩
  | succ n ih =>
    intro k lay s w hk
    obtain ⟨s1, h1, ⟨lay1, w1⟩, _⟩ := ih k lay s w (by omega)
    obtain ⟨s2, h2, hw2, hlast⟩ := siteStep_total s1 w1 (by omega)
    refine ⟨s2, ?_, by rw [← Nat.add_assoc]; exact hw2, fun _ hkn => hlast (by omega)⟩
    rw [range_succ, foldlM_append, h1]
    simp only [bind, Except.bind, foldlM_cons, foldlM_nil, h2]
    rfl

/-! ## the final part -/

theorem removeNode_ok (g : Graph κ) (k : Int) (v : Node) (h : dGet? g.nodes k = some v) :
    g.removeNode k = .ok (v, { g with nodes := dErase g.nodes k }) := by
  unfold Graph.removeNode dPop
  unfold dGet? at h
  simp only [h, bind, Except.bind]
  rfl

theorem scaleFold_ok (c : κ) : ∀ (eids : List Int) (g : Graph κ), (∀ eid ∈ eids, dHas g.edges eid = true) →
    ∃ g', eids.foldlM (fun (g : Graph κ) eid =>
      g.modifyEdge eid (fun e => pure { e with opics := e.opics.map (fun p => (p.1, p.2 * c)) })) g = .ok g' := by
  intro eids
  induction eids with
  | nil => intro g _; exact ⟨g, rfl⟩
  | cons a rest ih =>
    intro g h
    have ha := h a (by simp)
    rw [dHas_eq_isSome] at ha
    obtain ⟨e, he⟩ := Option.isSome_iff_exists.1 ha
    have hstep : g.modifyEdge a (fun e => pure { e with opics := e.opics.map (fun p => (p.1, p.2 * c)) })
        = .ok { g with edges := dReplace g.edges a { e with opics := e.opics.map (fun p => (p.1, p.2 * c)) } } :=
      (modifyEdge_ok_iff _ _ _ _).2 ⟨e, he, _, rfl, rfl⟩
    obtain ⟨g', hg'⟩ := ih { g with edges := dReplace g.edges a { e with opics := e.opics.map (fun p => (p.1, p.2 * c)) } }
      (fun eid heid => by simp only [dHas_dReplace]; exact h eid (by simp [heid]))
    exact ⟨g', by rw [foldlM_cons, hstep]; exact hg'⟩

theorem filter_map_scale (es : List (Int × Edge κ)) (F : Int × Edge κ → Int × Edge κ)
    (hF : ∀ p, (F p).2.nids = p.2.nids ∧ (F p).2.eid = p.2.eid) (P : Int × Int → Bool) :
    ((((es.map F).map (·.2)).filter (fun e => P e.nids)).map (·.eid))
      = (((es.map (·.2)).filter (fun e => P e.nids)).map (·.eid)) := by
  induction es with
  | nil => rfl
  | cons p rest ih =>
    simp only [map_cons, filter_cons, (hF p).1]
    cases P p.2.nids with
    | true => simp only [if_true, map_cons, (hF p).2, ih]
    | false => simpa using ih

/-- multiplying the operators of some edges by a constant keeps the structure -/
theorem GStar.scale {g : Graph κ} {nn en : Int} (h : GStar g nn en) (K : List Int) (c : κ) :
    GStar { g with edges := g.edges.map (fun p => if p.1 ∈ K then (p.1, scaleEdge c p.2) else p) } nn en ∧
    (∀ k, outIds { g with edges := g.edges.map (fun p => if p.1 ∈ K then (p.1, scaleEdge c p.2) else p) } k = outIds g k) ∧
    (∀ e ∈ edgeList { g with edges := g.edges.map (fun p => if p.1 ∈ K then (p.1, scaleEdge c p.2) else p) },
      ∃ e0 ∈ edgeList g, e.nids = e0.nids) := by
  have hkeys : dKeys (g.edges.map (fun p => if p.1 ∈ K then (p.1, scaleEdge c p.2) else p)) = dKeys g.edges := by
    simp only [dKeys, map_map]
    apply map_congr_left
    intro p _
    by_cases hp : p.1 ∈ K <;> simp [hp]
  have hF : ∀ p : Int × Edge κ, ((fun p : Int × Edge κ => if p.1 ∈ K then (p.1, scaleEdge c p.2) else p) p).2.nids = p.2.nids ∧
      ((fun p : Int × Edge κ => if p.1 ∈ K then (p.1, scaleEdge c p.2) else p) p).2.eid = p.2.eid := by
    intro p
    by_cases hp : p.1 ∈ K <;> simp [hp, scaleEdge]
  have hout : ∀ k, outIds { g with edges := g.edges.map (fun p => if p.1 ∈ K then (p.1, scaleEdge c p.2) else p) } k = outIds g k := by
    intro k
    unfold outIds edgeList
    exact filter_map_scale g.edges _ hF (fun n => decide (n.1 = k))
  have hin : ∀ k, inIds { g with edges := g.edges.map (fun p => if p.1 ∈ K then (p.1, scaleEdge c p.2) else p) } k = inIds g k := by
    intro k
    unfold inIds edgeList
    exact filter_map_scale g.edges _ hF (fun n => decide (n.2 = k))
  have hmem : ∀ e ∈ edgeList { g with edges := g.edges.map (fun p => if p.1 ∈ K then (p.1, scaleEdge c p.2) else p) },
      ∃ e0 ∈ edgeList g, e.nids = e0.nids ∧ (e = e0 ∨ e = scaleEdge c e0) := by
    intro e he
    unfold edgeList at he
    simp only [map_map] at he
    obtain ⟨p, hp, rfl⟩ := mem_map.1 he
    refine ⟨p.2, mem_map_of_mem hp, ?_, ?_⟩
    · by_cases hpk : p.1 ∈ K <;> simp [hpk, scaleEdge]
    · by_cases hpk : p.1 ∈ K <;> simp [hpk]
  refine ⟨⟨h.nnPos, h.enPos, h.nodesKeys, h.nodesMem, ?_, by rw [hkeys]; exact h.edgesKeys, ?_, ?_, ?_, h.term,
    h.nodesLen⟩, hout, ?_⟩
  · intro k n hk
    obtain ⟨e1, e2, e3⟩ := h.nodeOK k n hk
    exact ⟨e1, by rw [hout]; exact e2, by rw [hin]; exact e3⟩
  · intro k hk
    apply h.edgesRange k
    rw [dHas_iff_mem_keys] at hk ⊢
    rw [← hkeys]; exact hk
  · intro p hp
    obtain ⟨p0, hp0, rfl⟩ := mem_map.1 hp
    by_cases hpk : p0.1 ∈ K
    · simp only [hpk, if_true, scaleEdge]; exact h.keyEid p0 hp0
    · simp only [hpk, if_false]; exact h.keyEid p0 hp0
  · intro e he
    obtain ⟨e0, he0, hn, hor⟩ := hmem e he
    obtain ⟨h1, h2, h3, o, x, hop⟩ := h.edgeOK e0 he0
    rw [hn]
    refine ⟨h1, h2, h3, ?_⟩
    rcases hor with rfl | rfl
    · exact ⟨o, x, hop⟩
    · exact ⟨o, x * c, by simp [scaleEdge, hop]⟩
  · intro e he
    obtain ⟨e0, he0, hn, _⟩ := hmem e he
    exact ⟨e0, he0, hn⟩
where
  dHas_iff_mem_keys {β : Type} {d : List (Int × β)} {k : Int} : dHas d k = true ↔ k ∈ dKeys d := by
    constructor
    · intro h
      by_contra hn
      rw [(dHas_false_iff d k).2 hn] at h
      cases h
    · intro h
      cases hh : dHas d k with
      | true => rfl
      | false => exact absurd h ((dHas_false_iff d k).1 hh)

/-- evaluation of `from_opchains` once the results of its parts are known -/
theorem fromOpchains_eval (chains : List (OpChain κ)) (L id : Int) (pch : List (OpChain κ)) (vl0 : List HalfChain)
    (s : ChState κ) (last : HalfChain) (c0 : κ) (gA : Graph κ) (nd : Node) (gfin : Graph κ)
    (hemp : chains.isEmpty = false)
    (hpch : (chains.filter (fun c => c.coeff != 0)).mapM (fun c => c.padded L id) = .ok pch)
    (hvl0 : pch.mapM (fun c => HalfChain.mk' (c.oids ++ [id]) (c.qnums ++ [0]) 0) = .ok vl0)
    (hfold : (List.range L.toNat).foldlM (fun s _ => siteStep s) ⟨graph0, 1, 0, vl0, pch.map (·.coeff), []⟩ = .ok s)
    (hlen : s.vlistNext.length = 1) (hlast : s.vlistNext[0]? = some last) (hc0 : s.coeffsNext[0]? = some c0)
    (hA : (c0 = 1 ∧ gA = s.graph) ∨ (c0 ≠ 1 ∧ ∃ nodeEnd, dGet? s.graph.nodes last.nidl = some nodeEnd ∧
      nodeEnd.eidsIn.foldlM (fun (g : Graph κ) eid =>
        g.modifyEdge eid (fun e => pure { e with opics := e.opics.map (fun p => (p.1, p.2 * c0)) })) s.graph = .ok gA))
    (hrem : (gA.setTerm true last.nidl).removeNode (-1) = .ok (nd, gfin))
    (hcons : gfin.isConsistent = true) : fromOpchains chains L id = .ok gfin := by
  unfold fromOpchains
  have h1 : Node.mk' 0 [] [] 0 = .ok ⟨0, [], [], 0⟩ := rfl
  have h2 : Node.mk' (-1) [] [] 0 = .ok ⟨-1, [], [], 0⟩ := rfl
  have h3 : pyAssert (s.vlistNext.length == 1) = .ok () := by simp [pyAssert, hlen]
  have h4 : pyAssert gfin.isConsistent = .ok () := by simp [pyAssert, hcons]
  rcases hA with ⟨hc, rfl⟩ | ⟨hc, nodeEnd, hne, hfoldA⟩
  · have hb : (c0 != 1) = false := by simp [hc]
    simp only [hemp, Bool.false_eq_true, if_false, h1, h2, graph0_mk, hpch, hvl0, hfold, h3, pyIdx_eq_ok hlast,
      pyIdx_eq_ok hc0, hb, hrem, h4, bind, Except.bind, pure, Except.pure]
  · have hb : (c0 != 1) = true := by simpa using hc
    have h5 : s.graph.getNode last.nidl = .ok nodeEnd := (dGet_ok_iff _ _ _).2 hne
    simp only [hemp, Bool.false_eq_true, if_false, h1, h2, graph0_mk, hpch, hvl0, hfold, h3, pyIdx_eq_ok hlast,
      pyIdx_eq_ok hc0, hb, if_true, h5, bind, Except.bind, pure, Except.pure] at hfoldA ⊢
    simp only [hfoldA, hrem, h4]

/-- **Totality of `from_opchains`** with a description of the result: a layered graph with `L` layers whose
non-final nodes all have outgoing edges, without the dummy node, ending at a node of the last layer. -/
theorem fromOpchains_result (chains : List (OpChain κ)) (L id : Int) (hwf : ChainsWF chains L) :
    ∃ (g1 : Graph κ) (nn en : Int) (lay : Int → Nat) (t : Int),
      fromOpchains chains L id = .ok (finalGraph g1 t) ∧ Layered g1 nn en lay L.toNat ∧
      0 ≤ t ∧ t < nn ∧ lay t = L.toNat ∧
      (∀ x, 0 ≤ x → x < nn → lay x < L.toNat → outIds g1 x ≠ []) := by
  have hL := hwf.1
  obtain ⟨c0w, hc0w, hc0n⟩ := hwf.2.1
  have hall := hwf.2.2
  have hemp : chains.isEmpty = false := by
    cases chains with
    | nil => simp at hc0w
    | cons _ _ => rfl
  have hpch : (chains.filter (fun c => c.coeff != 0)).mapM (fun c => c.padded L id)
      = .ok ((chains.filter (fun c => c.coeff != 0)).map (padF L id)) := by
    apply mapM_eq_ok_map
    intro c hc
    obtain ⟨hcm, hcn⟩ := mem_filter.1 hc
    obtain ⟨h1, h2, h3, _, _⟩ := hall c hcm (by simpa using hcn)
    exact padded_eq_ok L id c h1 h2 h3
  have hvl0 : ((chains.filter (fun c => c.coeff != 0)).map (padF L id)).mapM
      (fun c => HalfChain.mk' (c.oids ++ [id]) (c.qnums ++ [0]) 0)
      = .ok (((chains.filter (fun c => c.coeff != 0)).map (padF L id)).map
          (fun c => (⟨c.oids ++ [id], c.qnums ++ [0], 0⟩ : HalfChain))) := by
    apply mapM_eq_ok_map
    intro c' hc'
    obtain ⟨c, hc, rfl⟩ := mem_map.1 hc'
    obtain ⟨hcm, hcn⟩ := mem_filter.1 hc
    obtain ⟨h1, h2, h3, _, _⟩ := hall c hcm (by simpa using hcn)
    have hlen := padF_length L id c (by simp only [OpChain.length]; omega) h1
    have hqlen : (padF L id c).qnums.length = L.toNat + 1 := by
      simp only [padF, pyRepeat, length_append, length_replicate, OpChain.length]
      omega
    exact (halfChain_mk'_ok_iff _ _ _ _).2 ⟨by simp [hlen, hqlen], rfl⟩
  have hw0 := winv_init chains L id hwf
  obtain ⟨s, hfold, ⟨lay, w⟩, hone⟩ := iter_total L.toNat 0 _ _ hw0 (by omega)
  simp only [Nat.zero_add] at w hone
  have hlen1 : s.vlistNext.length = 1 := hone (by omega) trivial
  obtain ⟨last, hvl⟩ := length_eq_one_iff.1 hlen1
  obtain ⟨c0, hcs⟩ := length_eq_one_iff.1 (by rw [← w.len]; exact hlen1 : s.coeffsNext.length = 1)
  have hlast : s.vlistNext[0]? = some last := by rw [hvl]; rfl
  have hc0 : s.coeffsNext[0]? = some c0 := by rw [hcs]; rfl
  have H := w.hc last (by rw [hvl]; simp)
  have hbase : Layered s.graph s.nidNext s.eidNext lay L.toNat := ⟨w.star, w.lay0, w.layE, w.layN, w.created⟩
  by_cases hc1 : c0 = 1
  · -- nothing to absorb
    obtain ⟨nd, hnd⟩ := Option.isSome_iff_exists.1 ((w.star.nodesMem (-1)).2 (Or.inl rfl))
    have hrem := removeNode_ok (s.graph.setTerm true last.nidl) (-1) nd (by
      simp only [Graph.setTerm, if_true]; exact hnd)
    have hfin : ({ s.graph.setTerm true last.nidl with nodes := dErase (s.graph.setTerm true last.nidl).nodes (-1) } : Graph κ)
        = finalGraph s.graph last.nidl := by
      simp [finalGraph, Graph.setTerm, w.star.term]
    rw [hfin] at hrem
    have hcons := final_consistent hbase last.nidl H.lo H.hi H.lay
    exact ⟨s.graph, s.nidNext, s.eidNext, lay, last.nidl,
      fromOpchains_eval chains L id _ _ s last c0 s.graph nd _ hemp hpch hvl0 hfold hlen1 hlast hc0
        (Or.inl ⟨hc1, rfl⟩) hrem hcons, hbase, H.lo, H.hi, H.lay, w.out⟩
  · -- the trailing coefficient is multiplied into the edges entering the end node
    obtain ⟨nodeEnd, hne⟩ := w.star.node_exists (k := last.nidl) ⟨H.lo, H.hi⟩
    have hK : nodeEnd.eidsIn = inIds s.graph last.nidl := (w.star.nodeOK _ _ hne).2.2
    obtain ⟨gA, hgA⟩ := scaleFold_ok c0 nodeEnd.eidsIn s.graph (by
      intro eid heid
      rw [hK] at heid
      obtain ⟨e, he, _⟩ := w.star.in_edge heid
      rw [dHas_eq_isSome, he]; rfl)
    obtain ⟨hA1, hA2, hA3⟩ := scaleFold_spec c0 _ _ _ hgA w.star.edgesKeys (by
      rw [hK]
      unfold inIds edgeList
      have := w.star.edgesKeys
      have hsub : (((s.graph.edges.map (·.2)).filter (fun e => e.nids.2 = last.nidl)).map (·.eid)).Sublist (dKeys s.graph.edges) := by
        have h1 : ((s.graph.edges.map (·.2)).filter (fun e => decide (e.nids.2 = last.nidl))).map (·.eid)
            = ((s.graph.edges.filter (fun p => decide (p.2.nids.2 = last.nidl))).map (·.1)) := by
          rw [filter_map, map_map]
          apply map_congr_left
          intro p hp
          exact w.star.keyEid p (mem_filter.1 hp).1
        rw [h1]
        exact (filter_sublist).map _
      exact this.sublist hsub)
    obtain ⟨hs1, hout1, hnids1⟩ := w.star.scale nodeEnd.eidsIn c0
    have hgAeq : gA = { s.graph with edges := s.graph.edges.map (fun p => if p.1 ∈ nodeEnd.eidsIn then (p.1, scaleEdge c0 p.2) else p) } := by
      cases gA
      simp only at hA1 hA2 hA3
      simp [hA1, hA2, hA3]
    have hlayered : Layered gA s.nidNext s.eidNext lay L.toNat := by
      rw [hgAeq]
      refine ⟨hs1, w.lay0, ?_, w.layN, w.created⟩
      intro e he
      obtain ⟨e0, he0, hn⟩ := hnids1 e he
      rw [hn]
      exact w.layE e0 he0
    obtain ⟨nd, hnd⟩ := Option.isSome_iff_exists.1 ((w.star.nodesMem (-1)).2 (Or.inl rfl))
    have hrem := removeNode_ok (gA.setTerm true last.nidl) (-1) nd (by
      simp only [Graph.setTerm, if_true, hA1]; exact hnd)
    have hfin : ({ gA.setTerm true last.nidl with nodes := dErase (gA.setTerm true last.nidl).nodes (-1) } : Graph κ)
        = finalGraph gA last.nidl := by
      simp [finalGraph, Graph.setTerm, hA2, w.star.term]
    rw [hfin] at hrem
    have hcons := final_consistent hlayered last.nidl H.lo H.hi H.lay
    refine ⟨gA, s.nidNext, s.eidNext, lay, last.nidl,
      fromOpchains_eval chains L id _ _ s last c0 gA nd _ hemp hpch hvl0 hfold hlen1 hlast hc0
        (Or.inr ⟨hc1, nodeEnd, hne, hgA⟩) hrem hcons, hlayered, H.lo, H.hi, H.lay, ?_⟩
    intro x h0 h1 h2
    rw [hgAeq, hout1]
    exact w.out x h0 h1 h2

end Ptn.Ch

import PtnModel.Proofs.ChainMpoLoop
/-!
# `from_opgraph`: the dense meaning of the tensors

`tn fin Ts ss ts i`: contraction of the tensor chain `Ts` with physical digits `ss` (rows) / `ts` (columns), left bond
index `i` and weights `fin` on the last bond.  `denseFrom g opmap ss ts nid`: the path sum of the graph from node
`nid`, evaluated in the matrix algebra (every edge contributes `Σ_p c_p · opmap[i_p][s][t]`).
`run_dense`: they agree along the layer walk of `from_opgraph`.
-/
set_option linter.unusedSectionVars false

namespace Ptn.Ch
open Ptn Ptn.Og List

variable {κ : Type} [CommRing κ] [DecidableEq κ]

abbrev Tensor (κ : Type) := List (List (List (List κ)))

/-- `A[s, t, i, j]` -/
def tEntry (A : Tensor κ) (s t i j : Nat) : κ := (((A.getD s []).getD t []).getD i []).getD j 0

/-- right bond dimension (as `mpoAsMatrix` reads it off) -/
def D1of (A : Tensor κ) : Nat := (((A.getD 0 []).getD 0 []).getD 0 []).length

theorem getD_map_range {α : Type} (n : Nat) (f : Nat → α) (i : Nat) (x : α) (h : i < n) :
    ((List.range n).map f).getD i x = f i := by
  simp [List.getD_eq_getElem?_getD, h]

theorem assemble_entry (d D0 D1 : Nat) (contribs : List (Nat × Nat × Mat κ)) (a b i j : Nat)
    (ha : a < d) (hb : b < d) (hi : i < D0) (hj : j < D1) :
    tEntry (assembleTensor d D0 D1 contribs) a b i j = contribSum i j a b contribs := by
  unfold tEntry assembleTensor
  rw [getD_map_range d _ a _ ha, getD_map_range d _ b _ hb, getD_map_range D0 _ i _ hi, getD_map_range D1 _ j _ hj,
    sumList_eq_sum]
  unfold contribSum
  rw [sum_map_ite_zero]
  congr 2
  apply filter_congr
  intro c _
  by_cases h1 : c.1 = i <;> by_cases h2 : c.2.1 = j <;> simp [h1, h2]

theorem assemble_D1 (d D0 D1 : Nat) (contribs : List (Nat × Nat × Mat κ)) (hd : 0 < d) (h0 : 0 < D0) :
    D1of (assembleTensor d D0 D1 contribs) = D1 := by
  unfold D1of assembleTensor
  rw [getD_map_range d _ 0 _ hd, getD_map_range d _ 0 _ hd, getD_map_range D0 _ 0 _ h0]
  simp

/-- contraction of a tensor chain -/
def tn (fin : Nat → κ) : List (Tensor κ) → List Nat → List Nat → Nat → κ
  | [], _, _, i => fin i
  | A :: As, s :: ss, t :: ts, i => ((List.range (D1of A)).map fun j => tEntry A s t i j * tn fin As ss ts j).sum
  | _ :: _, _, _, _ => 0

/-- the path sum of the graph in the matrix algebra -/
def denseFrom (g : Graph κ) (opmap : OpMap κ) : List Nat → List Nat → Int → κ
  | [], [], nid => if nid = g.term true then 1 else 0
  | s :: ss, t :: ts, nid =>
    match dGet? g.nodes nid with
    | none => 0
    | some node =>
      (node.eidsOut.map fun eid =>
        match dGet? g.edges eid with
        | none => 0
        | some e => edgeDense opmap e s t * denseFrom g opmap ss ts e.nids.2).sum
  | _, _, _ => 0

theorem sum_zipIdx_pick {α : Type} (f : α → κ) (x0 : α) : ∀ (l : List α) (k i : Nat), k ≤ i → i < k + l.length →
    ((l.zipIdx k).map fun ni => if ni.2 = i then f ni.1 else 0).sum = f (l.getD (i - k) x0) := by
  intro l
  induction l with
  | nil => intro k i h1 h2; simp at h2; omega
  | cons a l ih =>
    intro k i h1 h2
    simp only [zipIdx_cons, map_cons, sum_cons]
    by_cases hik : k = i
    · subst hik
      rw [if_pos rfl, sum_map_eq_zero, add_zero]
      · simp
      · intro ni hni
        have := le_snd_of_mem_zipIdx hni
        have : ¬ ni.2 = k := by omega
        simp [this]
    · rw [if_neg hik, zero_add, ih (k + 1) i (by omega) (by simp only [length_cons] at h2; omega)]
      have : i - k = (i - (k + 1)) + 1 := by omega
      rw [this]
      simp

theorem sum_range_pick (n k : Nat) (g : Nat → κ) (h : k < n) :
    ((List.range n).map fun j => if k = j then g j else 0).sum = g k := by
  induction n with
  | zero => omega
  | succ n ih =>
    rw [range_succ, map_append, sum_append]
    simp only [map_cons, map_nil, sum_cons, sum_nil, add_zero]
    by_cases hk : k = n
    · subst hk
      rw [if_pos rfl, sum_map_eq_zero, zero_add]
      intro j hj
      have := mem_range.1 hj
      have : ¬ k = j := by omega
      simp [this]
    · rw [if_neg hk, add_zero, ih (by omega)]

/-- one layer: the tensor row of a node contracted with any function of the next layer's nodes -/
theorem layer_step (g : Graph κ) (opmap : OpMap κ) (d : Nat) (hw : OpMapWF opmap d) (nids0 S : List Int)
    (contribs : List (Nat × Nat × Mat κ)) (hc : g.bondContribs opmap d nids0 S = .ok contribs)
    (F : Int → κ) (a b i : Nat) (ha : a < d) (hb : b < d) (hi : i < nids0.length) :
    ((List.range S.length).map fun j =>
        tEntry (assembleTensor d nids0.length S.length contribs) a b i j * F (S.getD j 0)).sum
      = match dGet? g.nodes (nids0.getD i 0) with
        | none => 0
        | some node =>
          (node.eidsOut.map fun eid =>
            match dGet? g.edges eid with
            | none => 0
            | some e => edgeDense opmap e a b * F e.nids.2).sum := by
  have hnid : nids0.getD i 0 ∈ nids0 := by
    rw [List.getD_eq_getElem?_getD, getElem?_eq_getElem hi]; exact getElem_mem hi
  obtain ⟨node, hnode, htgt⟩ := bondContribs_targets g opmap d nids0 S contribs hc _ hnid
  have hentry : ∀ j, j < S.length → tEntry (assembleTensor d nids0.length S.length contribs) a b i j
      = rowSum g opmap S a b j (nids0.getD i 0) := by
    intro j hj
    rw [assemble_entry d _ _ contribs a b i j ha hb hi hj, bondContribs_sum g opmap d hw nids0 S contribs hc,
      sum_zipIdx_pick (fun nid => rowSum g opmap S a b j nid) 0 nids0 0 i (Nat.zero_le _) (by omega)]
    simp
  rw [sum_map_congr _ _ (fun j => rowSum g opmap S a b j (nids0.getD i 0) * F (S.getD j 0))
    (fun j hj => by rw [hentry j (mem_range.1 hj)])]
  simp only [rowSum, hnode]
  -- exchange the two sums
  have h1 : ∀ j, ((node.eidsOut.map fun eid =>
        match dGet? g.edges eid with
        | none => 0
        | some e => if S.idxOf e.nids.2 = j then edgeDense opmap e a b else 0).sum) * F (S.getD j 0)
      = (node.eidsOut.map fun eid =>
        match dGet? g.edges eid with
        | none => 0
        | some e => if S.idxOf e.nids.2 = j then edgeDense opmap e a b * F (S.getD j 0) else 0).sum := by
    intro j
    rw [← sum_map_mul_const]
    apply sum_map_congr
    intro eid _
    cases dGet? g.edges eid with
    | none => simp
    | some e => by_cases h : S.idxOf e.nids.2 = j <;> simp [h]
  refine Eq.trans (sum_map_congr _ _ _ (fun j _ => h1 j)) ?_
  rw [sum_sum_comm]
  apply sum_map_congr
  intro eid heid
  obtain ⟨e, he, hmem⟩ := htgt eid heid
  simp only [he]
  have hlt : S.idxOf e.nids.2 < S.length := idxOf_lt_length_iff.2 hmem
  rw [sum_range_pick S.length (S.idxOf e.nids.2) (fun j => edgeDense opmap e a b * F (S.getD j 0)) hlt]
  congr 2
  rw [List.getD_eq_getElem?_getD, getElem?_idxOf hmem]
  rfl

/-! ## the layer walk as a relation -/

/-- `Run g opmap d nids0 Ls Ts`: starting from the layer `nids0`, the `while True` loop of `from_opgraph` visits the
layers `Ls` and produces the tensors `Ts` (one per layer), then finds no further nodes -/
def Run (g : Graph κ) (opmap : OpMap κ) (d : Nat) : List Int → List (List Int) → List (Tensor κ) → Prop
  | nids0, [], [] => g.nextBond nids0 = .ok []
  | nids0, S :: Ls, A :: Ts =>
    ∃ nids1 contribs, g.nextBond nids0 = .ok nids1 ∧ nids1 ≠ [] ∧ S = sortInts nids1 ∧
      (∀ nid ∈ S, ∃ n, dGet? g.nodes nid = some n) ∧
      g.bondContribs opmap d nids0 S = .ok contribs ∧
      A = assembleTensor d nids0.length S.length contribs ∧ Run g opmap d S Ls Ts
  | _, _, _ => False

/-- quantum numbers of a layer -/
def layerQ (g : Graph κ) (S : List Int) : List Int := S.map fun nid => ((dGet? g.nodes nid).map (·.qnum)).getD 0

/-- the node map after visiting the layers `Ls`, the first of which is bond number `l` -/
def nidMapAfter (on : Bool) : List (Int × (Nat × Nat)) → Nat → List (List Int) → List (Int × (Nat × Nat))
  | m, _, [] => m
  | m, l, S :: Ls =>
    nidMapAfter on (if on then (S.zipIdx).foldl (fun m (ni : Int × Nat) => dSet m ni.1 (l, ni.2)) m else m) (l + 1) Ls

theorem mapM_qnum (g : Graph κ) : ∀ (S : List Int) (q : List Int),
    S.mapM (fun nid => do let n ← g.getNode nid; pure n.qnum) = .ok q →
    q = layerQ g S ∧ ∀ nid ∈ S, ∃ n, dGet? g.nodes nid = some n := by
  intro S
  induction S with
  | nil =>
    intro q h
    simp only [mapM_nil, pure_ok_iff] at h
    subst h
    exact ⟨rfl, by simp⟩
  | cons a S ih =>
    intro q h
    simp only [mapM_cons, bind_ok_iff, pure_ok_iff, Graph.getNode, dGet_ok_iff] at h
    obtain ⟨qa, ⟨n, hn, rfl⟩, qs, hqs, rfl⟩ := h
    obtain ⟨h1, h2⟩ := ih qs hqs
    refine ⟨by simp [layerQ, hn, h1], ?_⟩
    intro nid hnid
    rcases mem_cons.1 hnid with rfl | hnid
    · exact ⟨n, hn⟩
    · exact h2 nid hnid

/-- **Specification of the `while True` loop of `from_opgraph`.** -/
theorem loop_spec (g : Graph κ) (opmap : OpMap κ) (d : Nat) (on : Bool) :
    ∀ (fuel : Nat) (nids0 : List Int) (l : Nat) (out out' : MpoOut κ),
      fromOpgraphLoop g opmap d on fuel nids0 l out = .ok out' →
      ∃ Ls Ts, Run g opmap d nids0 Ls Ts ∧ out'.tensors = out.tensors ++ Ts ∧
        out'.qD = out.qD ++ Ls.map (layerQ g) ∧ out'.nidMap = nidMapAfter on out.nidMap l Ls := by
  intro fuel
  induction fuel with
  | zero => intro nids0 l out out' h; simp [fromOpgraphLoop] at h
  | succ fuel ih =>
    intro nids0 l out out' h
    rw [fromOpgraphLoop] at h
    simp only [bind_ok_iff] at h
    obtain ⟨nids1, hn1, h⟩ := h
    by_cases hemp : nids1.isEmpty = true
    · simp only [hemp, if_true, pure_ok_iff] at h
      subst h
      have : nids1 = [] := by simpa using hemp
      subst this
      exact ⟨[], [], hn1, by simp, by simp, rfl⟩
    · simp only [hemp, Bool.false_eq_true, if_false, bind_ok_iff] at h
      obtain ⟨qDl, hq, contribs, hc, hrec⟩ := h
      obtain ⟨hq1, hq2⟩ := mapM_qnum g _ _ hq
      obtain ⟨Ls, Ts, hrun, ht, hqd, hnm⟩ := ih _ _ _ _ hrec
      have hne : nids1 ≠ [] := by simpa using hemp
      refine ⟨sortInts nids1 :: Ls, _ :: Ts, ⟨nids1, contribs, hn1, hne, rfl, hq2, hc, rfl, hrun⟩, ?_, ?_, ?_⟩
      · rw [ht]; simp
      · rw [hqd, hq1]; simp
      · rw [hnm]; rfl

/-- the last layer visited -/
def lastLayer : List Int → List (List Int) → List Int
  | nids0, [] => nids0
  | _, S :: Ls => lastLayer S Ls

/-- weight 1 on the position of the end node in the last layer -/
def finOf (g : Graph κ) (last : List Int) (i : Nat) : κ := if last[i]? = some (g.term true) then 1 else 0

/-- **The tensors contract to the path sum of the graph.** -/
theorem run_dense (g : Graph κ) (opmap : OpMap κ) (d : Nat) (hd : 0 < d) (hw : OpMapWF opmap d) :
    ∀ (Ls : List (List Int)) (Ts : List (Tensor κ)) (nids0 : List Int), Run g opmap d nids0 Ls Ts → nids0 ≠ [] →
    ∀ (ss ts : List Nat), ss.length = Ts.length → ts.length = Ts.length → (∀ s ∈ ss, s < d) → (∀ t ∈ ts, t < d) →
    ∀ i, i < nids0.length →
      tn (finOf g (lastLayer nids0 Ls)) Ts ss ts i = denseFrom g opmap ss ts (nids0.getD i 0) := by
  intro Ls
  induction Ls with
  | nil =>
    intro Ts nids0 hrun _ ss ts hs ht _ _ i hi
    cases Ts with
    | cons _ _ => simp [Run] at hrun
    | nil =>
      have : ss = [] := by simpa using hs
      subst this
      have : ts = [] := by simpa using ht
      subst this
      simp only [tn, finOf, lastLayer, denseFrom, List.getD_eq_getElem?_getD, getElem?_eq_getElem hi, Option.getD_some,
        Option.some.injEq]
  | cons S Ls ih =>
    intro Ts nids0 hrun hne ss ts hs ht hsd htd i hi
    cases Ts with
    | nil => simp [Run] at hrun
    | cons A Ts =>
      obtain ⟨nids1, contribs, hn1, hne1, hS, _, hc, hA, hrun'⟩ := hrun
      cases ss with
      | nil => simp at hs
      | cons s ss =>
        cases ts with
        | nil => simp at ht
        | cons t ts =>
          have hSne : S ≠ [] := by
            intro h0
            have := (sortInts_perm nids1).length_eq
            rw [← hS, h0] at this
            exact hne1 (length_eq_zero_iff.1 this.symm)
          have h0 : 0 < nids0.length := length_pos_iff.2 hne
          simp only [tn, lastLayer, denseFrom]
          rw [hA, assemble_D1 d _ _ contribs hd h0]
          have hih : ∀ j, j < S.length → tn (finOf g (lastLayer S Ls)) Ts ss ts j = denseFrom g opmap ss ts (S.getD j 0) := by
            intro j hj
            exact ih Ts S hrun' hSne ss ts (by simpa using hs) (by simpa using ht)
              (fun x hx => hsd x (by simp [hx])) (fun x hx => htd x (by simp [hx])) j hj
          rw [sum_map_congr _ _ (fun j => tEntry (assembleTensor d nids0.length S.length contribs) s t i j
              * denseFrom g opmap ss ts (S.getD j 0)) (fun j hj => by rw [hih j (mem_range.1 hj)])]
          exact layer_step g opmap d hw nids0 S contribs hc (fun x => denseFrom g opmap ss ts x) s t i
            (hsd s (by simp)) (htd t (by simp)) hi

end Ptn.Ch

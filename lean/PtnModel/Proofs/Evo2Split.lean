import PtnModel.Proofs.Evo2Canon
import PtnModel.Proofs.CompressLocal
import PtnModel.Proofs.DenseSplitFull
/-!
# The gauge step of the two-site sweeps: `split_mps_tensor` at tolerance zero

`split_facts` : under the kernel contracts of C12/C13 (`Compress.SvdKernel`: `np.linalg.svd`, `np.linalg.norm`,
`np.argsort`), a successful `split_mps_tensor(A, qd, qd, [qD0, qD2], svd_distr, tol = 0)` of a non-zero two-site tensor with
`svd_distr ∈ {'left', 'right'}` returns tensors `(A0, A1)` of the right shapes with a non-empty bond, whose merge has the
entries of `A` (`C03.split_merge_tol0`), and the factor that does not carry the singular values is an isometry
(`A0` a left isometry for `'right'`, `A1` a right isometry for `'left'`).
-/
set_option linter.unusedSectionVars false

namespace Ptn.Evo
open Ptn Ptn.BondOps Ptn.Ortho Ptn.Env Ptn.Krylov Finset

variable {𝕜 : Type} [RCLike 𝕜] [DecidableEq 𝕜]
local notation "conj" => starRingEnd 𝕜

/-- reading the `do` block of `split_mps_tensor` -/
theorem splitMps_unfold {k : MPS.SvdKernels 𝕜 ℝ} {dsqrt : ℝ → ℝ} {A A0 A1 : T3 𝕜} {qd0 qd1 qD0 qD2 : List Int}
    {distr : Nat} {tol : ℝ} {qb : List Int}
    (h : MPS.splitMpsTensor k dsqrt A qd0 qd1 qD0 qD2 distr tol = .ok (A0, A1, qb)) :
    qd0.length * qd1.length = A.d0 ∧ ∃ U σ V,
      splitMatrixSvd k.dsvd k.dnorm k.dargsort (MPS.splitMat A qd0.length qd1.length).tab (QN.flatten2 qd0 qD0)
        (QN.flatten2 (QN.neg qd1) qD2) tol = .ok (U, σ, V, qb) ∧
      (A0.d0 = qd0.length ∧ A0.d1 = A.d1 ∧ A0.d2 = σ.length) ∧
      (A1.d0 = qd1.length ∧ A1.d1 = σ.length ∧ A1.d2 = A.d2) ∧
      (distr = 1 → ∀ s a p, s < qd0.length → a < A.d1 → p < σ.length → A0.f s a p = U.f (s * A.d1 + a) p) ∧
      (distr = 0 → ∀ s p c, s < qd1.length → p < σ.length → c < A.d2 → A1.f s p c = V.f p (s * A.d2 + c)) := by
  unfold MPS.splitMpsTensor at h
  simp only [Dense.pyAssert_bind] at h
  obtain ⟨hd, h⟩ := h
  have hd : qd0.length * qd1.length = A.d0 := by simpa using hd
  simp only [Dense.bind_ok] at h
  obtain ⟨⟨U, σ, V, q⟩, hsvd, h⟩ := h
  simp only at h
  split at h
  · rw [Dense.throw_bind_ne] at h
    exact h.elim
  · simp only [Dense.pure_ok, Prod.mk.injEq] at h
    obtain ⟨rfl, rfl, rfl⟩ := h
    refine ⟨hd, U, σ, V, hsvd, ⟨rfl, rfl, rfl⟩, ⟨rfl, rfl, rfl⟩, ?_, ?_⟩
    · intro h1 s a p hs ha hp
      rw [Env.t3_tab_f (A := ⟨qd0.length, A.d1, σ.length, _⟩) hs ha hp]
      show (if distr = 1 then _ else _) = _
      rw [if_pos h1]
    · intro h0 s p c hs hp hc
      rw [Env.t3_tab_f (A := ⟨qd1.length, σ.length, A.d2, _⟩) hs hp hc]
      show (if distr = 0 then _ else _) = _
      rw [if_pos h0]

omit [DecidableEq 𝕜] in
/-- the reshaped matrix has the Frobenius norm of the two-site tensor -/
theorem frobM_splitMat (A : T3 𝕜) {d0 d1 : Nat} (h : d0 * d1 = A.d0) :
    Compress.frobM (MPS.splitMat A d0 d1).tab = frob3 A := by
  rw [Compress.frobM_congr (M := (MPS.splitMat A d0 d1).tab) (N := MPS.splitMat A d0 d1) rfl rfl
    (fun i j hi hj => Env.mat_tab_f (MPS.splitMat A d0 d1) hi hj)]
  unfold Compress.frobM frob3
  show ∑ i ∈ range (d0 * A.d1), ∑ j ∈ range (d1 * A.d2), ‖A.f ((i / A.d1) * d1 + j / A.d2) (i % A.d1) (j % A.d2)‖ ^ 2 = _
  rw [← h, Ortho.sum_fused d0 A.d1, Ortho.sum_fused d0 d1]
  refine sum_congr rfl fun s0 _ => ?_
  have e : ∀ a ∈ range A.d1,
      (∑ j ∈ range (d1 * A.d2), ‖A.f (((s0 * A.d1 + a) / A.d1) * d1 + j / A.d2) ((s0 * A.d1 + a) % A.d1) (j % A.d2)‖ ^ 2) =
      ∑ s1 ∈ range d1, ∑ b ∈ range A.d2, ‖A.f (s0 * d1 + s1) a b‖ ^ 2 := by
    intro a ha
    rw [Ortho.sum_fused d1 A.d2]
    refine sum_congr rfl fun s1 _ => sum_congr rfl fun b hb => ?_
    rw [Ortho.fused_div (mem_range.1 ha), Ortho.fused_mod (mem_range.1 ha), Ortho.fused_div (mem_range.1 hb),
      Ortho.fused_mod (mem_range.1 hb)]
  rw [sum_congr rfl e, Finset.sum_comm]

/-- what a successful zero-tolerance `split_mps_tensor` of a non-zero two-site tensor `A` returns -/
structure SplitFacts (A A0 A1 : T3 𝕜) (qb : List Int) (d : Nat) (distr : Nat) : Prop where
  a0 : A0.d0 = d ∧ A0.d1 = A.d1 ∧ A0.d2 = qb.length
  a1 : A1.d0 = d ∧ A1.d1 = qb.length ∧ A1.d2 = A.d2
  pos : 0 < qb.length
  merge : T3Eqv (MPS.mergePair A0 A1) A
  liso : distr = 1 → LeftIso A0
  riso : distr = 0 → RightIso A1

/-- **The gauge step of the two-site sweeps.** -/
theorem split_facts {k : MPS.SvdKernels 𝕜 ℝ} (hk : Compress.SvdKernel k) {dsqrt : ℝ → ℝ} {A A0 A1 : T3 𝕜}
    {qd qD0 qD2 : List Int} {distr : Nat} (hdistr : distr ≤ 1) {qb : List Int} (hd : 0 < qd.length) (h1 : 0 < A.d1)
    (h2 : 0 < A.d2) (hpos : 0 < frob3 A)
    (h : MPS.splitMpsTensor k dsqrt A qd qd qD0 qD2 distr (0 : ℝ) = .ok (A0, A1, qb)) :
    SplitFacts A A0 A1 qb qd.length distr := by
  obtain ⟨hdd, U, σ, V, hsvd, a0, a1, fL, fR⟩ := splitMps_unfold h
  obtain ⟨hq0, hq1, hsp⟩ := MPS.splitMatrixSvd_pre _ _ _ _ _ _ _ _ hsvd
  have H : QRInput (MPS.splitMat A qd.length qd.length).tab (QN.flatten2 qd qD0) (QN.flatten2 (QN.neg qd) qD2) :=
    ⟨hq0, hq1, Nat.mul_pos hd h1, Nat.mul_pos hd h2, hsp⟩
  have hfm : 0 < Compress.frobM (MPS.splitMat A qd.length qd.length).tab := by
    rw [frobM_splitMat A hdd]; exact hpos
  have S := Compress.splitSem_of_run hk (le_refl 0) zero_lt_one H hfm hsvd
  have hm := MPS.split_merge_tol0' (Compress.ιR 𝕜) (fun x => rfl) k dsqrt A qd qd qD0 qD2 distr (hk.svd.on _ _ _)
    (hk.norm _) (hk.sort _) (fun h2 => by omega) A0 A1 qb h
  refine ⟨⟨a0.1, a0.2.1, a0.2.2.trans S.ql.symm⟩, ⟨a1.1, a1.2.1.trans S.ql.symm, a1.2.2⟩, by rw [S.ql]; exact S.pos,
    ⟨hm.1, hm.2.1, hm.2.2.1, fun s a c hs ha hc => hm.2.2.2 s (by rw [← hm.1]; exact hs) a (by rw [← hm.2.1]; exact ha)
      c (by rw [← hm.2.2.1]; exact hc)⟩, ?_, ?_⟩
  · intro hdis p p' hp hp'
    rw [a0.2.2] at hp hp'
    rw [a0.1, a0.2.1, ← S.isoU p p' hp hp']
    show _ = ∑ i ∈ range (qd.length * A.d1), _
    rw [Ortho.sum_fused]
    refine sum_congr rfl fun s hs => sum_congr rfl fun a ha => ?_
    rw [fL hdis s a p (mem_range.1 hs) (mem_range.1 ha) hp, fL hdis s a p' (mem_range.1 hs) (mem_range.1 ha) hp']
  · intro hdis p p' hp hp'
    rw [a1.2.1] at hp hp'
    have := S.isoV p' p hp' hp
    rw [a1.1, a1.2.2]
    have e : (if p = p' then (1 : 𝕜) else 0) = if p' = p then 1 else 0 := by
      by_cases hpp : p = p'
      · subst hpp; rfl
      · rw [if_neg hpp, if_neg (fun e => hpp e.symm)]
    rw [e, ← this]
    show _ = ∑ j ∈ range (qd.length * A.d2), _
    rw [Ortho.sum_fused]
    refine sum_congr rfl fun s hs => sum_congr rfl fun c hc => ?_
    rw [fR hdis s p c (mem_range.1 hs) hp (mem_range.1 hc), fR hdis s p' c (mem_range.1 hs) hp' (mem_range.1 hc), mul_comm]

variable {H : MPO 𝕜} {qd : List Int} {s : Sweep 𝕜} {i : Nat}

omit [DecidableEq 𝕜] in
theorem getA_pair {L : Nat} (hsz : s.A.size = L) (hi : i + 1 < L) (X Y : T3 𝕜) (qD' : Array (List Int))
    (BL BR : Array (T3 𝕜)) :
    getA (⟨(s.A.setIfInBounds i X).setIfInBounds (i + 1) Y, qD', BL, BR⟩ : Sweep 𝕜) i = X ∧
    getA (⟨(s.A.setIfInBounds i X).setIfInBounds (i + 1) Y, qD', BL, BR⟩ : Sweep 𝕜) (i + 1) = Y := by
  constructor
  · show ((s.A.setIfInBounds i X).setIfInBounds (i + 1) Y).getD i emptyT3 = X
    rw [getD_setIfInBounds_ne _ _ _ (by omega)]
    exact getD_setIfInBounds_eq _ _ _ (by omega)
  · show ((s.A.setIfInBounds i X).setIfInBounds (i + 1) Y).getD (i + 1) emptyT3 = Y
    exact getD_setIfInBounds_eq _ _ _ (by simp; omega)

/-- **Gauge step of the two-site sweeps** (`split_step_canon`).  In a two-site window `(i, i+1)` of a mixed-canonical
state (`Canon2`), let `X` be a non-zero two-site tensor of the shape of the window and let
`split_mps_tensor(X, qd, qd, [qD[i], qD[i+2]], svd_distr, tol = 0)` return `(A0, A1, qb)` with
`svd_distr ∈ {'left' (0), 'right' (1)}`.  Under the SVD / norm / argsort kernel contracts, storing `(A0, A1, qb)` at the
sites `i, i+1` and the bond between them
* keeps the window invariant;
* for `'right'` the first tensor is a left isometry, for `'left'` the second tensor is a right isometry (the singular
  values go into the other factor);
* every amplitude of the new state is the amplitude of the old state with `X` inserted into the window (the merged pair
  is `X`), hence the squared norm of the new state is `‖X‖²` and its energy is `⟨X, H_eff X⟩` with the two-site effective
  operator of the window. -/
theorem split_step_canon {k : MPS.SvdKernels 𝕜 ℝ} (hk : Compress.SvdKernel k) {dsqrt : ℝ → ℝ} (h : Canon2 H qd s i)
    (hH : C04.MPO.Shaped H qd.length) (hd : 0 < qd.length) {X A0 A1 : T3 𝕜} {qb : List Int} {distr : Nat}
    (hdistr : distr ≤ 1)
    (hX : X.d0 = qd.length * qd.length ∧ X.d1 = (getQ s i).length ∧ X.d2 = (getQ s (i + 2)).length)
    (hpos : 0 < frob3 X)
    (hrun : MPS.splitMpsTensor k dsqrt X qd qd (getQ s i) (getQ s (i + 2)) distr (0 : ℝ) = .ok (A0, A1, qb)) :
    Canon2 H qd (⟨(s.A.setIfInBounds i A0).setIfInBounds (i + 1) A1, s.qD.setIfInBounds (i + 1) qb, s.BL, s.BR⟩ :
      Sweep 𝕜) i ∧
    (distr = 1 → LeftIso A0) ∧ (distr = 0 → RightIso A1) ∧
    (∀ σ, σ ∈ digitsU qd.length H.A.length →
      (cur qd (⟨(s.A.setIfInBounds i A0).setIfInBounds (i + 1) A1, s.qD.setIfInBounds (i + 1) qb, s.BL, s.BR⟩ :
        Sweep 𝕜)).amp σ = ampTwo (cur qd s) qd.length i X σ) ∧
    normSq (cur qd (⟨(s.A.setIfInBounds i A0).setIfInBounds (i + 1) A1, s.qD.setIfInBounds (i + 1) qb, s.BL, s.BR⟩ :
        Sweep 𝕜)) qd.length = ((frob3 X : ℝ) : 𝕜) ∧
    ∀ T, Op.applyLocalHamiltonian (getBL s i) (getBR s (i + 1)) (mergedW H i) X = .ok T →
      energy (cur qd (⟨(s.A.setIfInBounds i A0).setIfInBounds (i + 1) A1, s.qD.setIfInBounds (i + 1) qb, s.BL,
        s.BR⟩ : Sweep 𝕜)) H qd.length = inner3 X T := by
  have hi := h.hi
  have F := split_facts hk hdistr hd (by rw [hX.2.1]; exact h.wf.qpos i (by omega))
    (by rw [hX.2.2]; exact h.wf.qpos (i + 2) (by omega)) hpos hrun
  obtain ⟨hcan, hamp⟩ := canon2_update h (X' := A0) (Y' := A1) (qb := qb)
    ⟨F.a0.1, F.a0.2.1.trans hX.2.1, F.a0.2.2⟩ ⟨F.a1.1, F.a1.2.1, F.a1.2.2.trans hX.2.2⟩ F.pos
  set s' : Sweep 𝕜 := ⟨(s.A.setIfInBounds i A0).setIfInBounds (i + 1) A1, s.qD.setIfInBounds (i + 1) qb, s.BL, s.BR⟩
    with hs'
  have hamp' : ∀ σ, σ ∈ digitsU qd.length H.A.length → (cur qd s').amp σ = ampTwo (cur qd s) qd.length i X σ := by
    intro σ hσ
    rw [hamp σ hσ]
    refine ampTwo_congr F.merge ?_ (digitsU_window hi hσ).1 (digitsU_window hi hσ).2
    rw [F.merge.d0]; exact hX.1
  obtain ⟨hn, he⟩ := canon2_centre h hH hX
  refine ⟨hcan, F.liso, F.riso, hamp', ?_, ?_⟩
  · rw [← hn]
    unfold normSq normSq2
    rw [hcan.len, h.len]
    exact sum_congr rfl fun σ hσ => by rw [hamp' σ hσ]
  · intro T hT
    rw [← he T hT]
    unfold energy energy2
    rw [hcan.len, h.len]
    exact sum_congr rfl fun σ hσ => sum_congr rfl fun τ hτ => by rw [hamp' σ hσ, hamp' τ hτ]

/-- **The pure gauge step keeps the dense state**: if the split tensor is the merged pair of the window itself, no
amplitude changes. -/
theorem split_step_dense {k : MPS.SvdKernels 𝕜 ℝ} (hk : Compress.SvdKernel k) {dsqrt : ℝ → ℝ} (h : Canon2 H qd s i)
    (hH : C04.MPO.Shaped H qd.length) (hd : 0 < qd.length) {A0 A1 : T3 𝕜} {qb : List Int} {distr : Nat}
    (hdistr : distr ≤ 1) (hpos : 0 < frob3 (mergedA s i))
    (hrun : MPS.splitMpsTensor k dsqrt (mergedA s i) qd qd (getQ s i) (getQ s (i + 2)) distr (0 : ℝ) =
      .ok (A0, A1, qb)) {σ : List Nat} (hσ : σ ∈ digitsU qd.length H.A.length) :
    (cur qd (⟨(s.A.setIfInBounds i A0).setIfInBounds (i + 1) A1, s.qD.setIfInBounds (i + 1) qb, s.BL, s.BR⟩ :
      Sweep 𝕜)).amp σ = (cur qd s).amp σ := by
  obtain ⟨_, _, _, hamp, _⟩ := split_step_canon hk h hH hd hdistr (mergedA_dims h) hpos hrun
  rw [hamp σ hσ, canon2_amp h hσ]

end Ptn.Evo

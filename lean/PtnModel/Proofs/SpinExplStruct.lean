import PtnModel.Proofs.SpinExplGraph
import PtnModel.Proofs.SpinExplOut
import PtnModel.Proofs.SpinExplRight
import PtnModel.Proofs.ExplDense
/-!
# Explicit spin-orbital molecular graph: charges, no dead ends, single sink, length
-/
set_option linter.unusedSectionVars false
set_option linter.unusedSimpArgs false
set_option linter.unusedVariables false

namespace Ptn.Ham
open Ptn.Og List Ptn.Ham2
open Ptn.Ch

variable {κ : Type} [CommRing κ] [DecidableEq κ]

/-! # Explicit spin-orbital graph: charges, no dead ends, length, the MPO -/

theorem unpair_facts (o : Int) (h : isSpinOid o) :
    isMolOid (unpairOid o).1 ∧ isMolOid (unpairOid o).2 ∧ pairMapGet (unpairOid o) = .ok o := by
  obtain ⟨h0, h1⟩ := h
  have : o = 0 ∨ o = 1 ∨ o = 2 ∨ o = 3 ∨ o = 4 ∨ o = 5 ∨ o = 6 ∨ o = 7 ∨ o = 8 ∨ o = 9 ∨ o = 10 ∨ o = 11 ∨ o = 12 ∨ o = 13 ∨
      o = 14 ∨ o = 15 ∨ o = 16 ∨ o = 17 ∨ o = 18 ∨ o = 19 ∨ o = 20 ∨ o = 21 ∨ o = 22 := by omega
  rcases this with rfl | rfl | rfl | rfl | rfl | rfl | rfl | rfl | rfl | rfl | rfl | rfl | rfl | rfl | rfl | rfl | rfl | rfl | rfl |
    rfl | rfl | rfl | rfl <;> exact ⟨by unfold isMolOid; decide, by unfold isMolOid; decide, rfl⟩

/-- every table of `spinMolOpmap` shifts the encoded `(N, S_z)` charge by `sopQ` -/
theorem sop_table_charged (o : Int) (h : isSpinOid o) (q : Int) :
    TableCharged spinQd (q - (q + sopQ o)) ((spinMolOpmap : OpMap κ).lookup o) := by
  obtain ⟨h1, h2, h3⟩ := unpair_facts o h
  have := pair_table_charged (κ := κ) (unpairOid o).1 (unpairOid o).2 o h1 h2 h3
  have e : q - (q + sopQ o) = -(encPair (ch (unpairOid o).1 + ch (unpairOid o).2) (ch (unpairOid o).1 - ch (unpairOid o).2)) := by
    unfold sopQ; omega
  rw [e]
  exact this

/-- the charge of a labelled node in the initial graph -/
theorem qOf_sexplG0 (L : Int) (a : Lab) (ha : sLabOk L a) : qOf (sexplG0 (κ := κ) L) ((SpinNodes.init L).nidOf a) = stagQ a := by
  unfold qOf
  have hm : ((SpinNodes.init L).nidOf a, (SpinNodes.init L).nodeAt a) ∈ (sexplG0 (κ := κ) L).nodes :=
    mem_map.2 ⟨_, snodeAt_mem L a ha, rfl⟩
  have hk : (dKeys (sexplG0 (κ := κ) L).nodes).Nodup := by rw [sexplG0_keys]; exact spinNodes_ids_nodup L
  rw [dGet?_eq_some_of_mem hk hm]
  simp only [Option.map_some, Option.getD_some]
  exact snodeAt_qnum L a ha

section
variable (c : Consts κ) (tkin : List (List κ)) (vint : List (List (List (List κ)))) (L : Int)

theorem qOf_sexplGraph (hL : 2 ≤ L) (a : Lab) (ha : sLabOk L a) :
    qOf (sexplGraph c tkin vint L) ((SpinNodes.init L).nidOf a) = stagQ a := by
  rw [← qOf_sexplG0 (κ := κ) L a ha]
  unfold qOf
  rw [(sexplGraph_facts c tkin vint L hL).2.2.2.2.2]

/-- **the operators of the explicit spin-orbital graph are charge consistent** under the spin physical charges and the node charges -/
theorem sexplGraph_charged (hL : 2 ≤ L) : OpsCharged spinQd (sexplGraph c tkin vint L) (spinMolOpmap : OpMap κ) := by
  intro p hp oc hoc
  have he : p.2 ∈ (sexplGraph c tkin vint L).edgeList := mem_map.2 ⟨p, hp, rfl⟩
  rw [(sexplGraph_facts c tkin vint L hL).2.2.1] at he
  obtain ⟨x, hx, eid, hpe⟩ := sexplEdges_specs c tkin vint L p.2 he
  have ok := (sallSpecs_ok c tkin vint L hL x hx).1
  have ok1 : sLabOk L x.1 := ok.ok1
  have ok2 : sLabOk L x.2.1 := ok.ok2
  have hoid : isSpinOid x.2.2.1 := ok.oid
  have hchg : stagQ x.2.1 = stagQ x.1 + sopQ x.2.2.1 := ok.chg
  rw [hpe] at hoc ⊢
  have hoc' : oc = (x.2.2.1, x.2.2.2) := by
    have : oc ∈ [((x.2.2.1, x.2.2.2) : Int × κ)] := hoc
    simpa using this
  subst hoc'
  show TableCharged spinQd (qOf (sexplGraph c tkin vint L) ((SpinNodes.init L).nidOf x.1) -
    qOf (sexplGraph c tkin vint L) ((SpinNodes.init L).nidOf x.2.1)) ((spinMolOpmap : OpMap κ).lookup x.2.2.1)
  rw [qOf_sexplGraph c tkin vint L hL _ ok1, qOf_sexplGraph c tkin vint L hL _ ok2, hchg]
  exact sop_table_charged x.2.2.1 hoid _

theorem shop_spec_edge (hL : 2 ≤ L) (q : Int × Int × Int) (hq : q ∈ shopItems L) :
    ∃ e ∈ sexplEdges c tkin vint L, e.nids.1 = (SpinNodes.init L).nidOf (shopLab L q.1 q.2.1 q.2.2).1 := by
  have hmem : (((shopLab L q.1 q.2.1 q.2.2).1, (shopLab L q.1 q.2.1 q.2.2).2.1, (shopLab L q.1 q.2.1 q.2.2).2.2, t2 tkin q.1 q.2.1) : LSpec κ) ∈
      sallSpecs c tkin vint L :=
    mem_append_right _ (mem_append_left _ (mem_map.2 ⟨q, hq, rfl⟩))
  obtain ⟨eid, he⟩ := sspecs_explEdges c tkin vint L _ hmem
  exact ⟨_, he, rfl⟩

theorem sint_spec_edge (hL : 2 ≤ L) (q : SQ) (hq : q ∈ sintItems c vint L) :
    ∃ e ∈ sexplEdges c tkin vint L, e.nids.1 = (SpinNodes.init L).nidOf (sqLab L q).1 := by
  have hmem : (((sqLab L q).1, (sqLab L q).2.1, (sqLab L q).2.2, sqCoeff c vint q) : LSpec κ) ∈ sallSpecs c tkin vint L :=
    mem_append_right _ (mem_append_right _ (mem_map.2 ⟨q, hq, rfl⟩))
  obtain ⟨eid, he⟩ := sspecs_explEdges c tkin vint L _ hmem
  exact ⟨_, he, rfl⟩

/-- **every node other than the sink has an outgoing edge** -/
theorem sexplGraph_hasOut (hL : 2 ≤ L) (a : Lab) (ha : sLabOk L a) (hne : a ≠ (11, [], L)) :
    ∃ e ∈ sexplEdges c tkin vint L, e.nids.1 = (SpinNodes.init L).nidOf a := by
  by_cases hl : isLeft a = true
  · rcases sleft_hasTerm L hL a ha hl with ⟨i, j, s, a1, a2, a3, a4, a5, x, hx, hxa⟩ |
      ⟨i, s, j, t, k, m, l, u, a1, a2, a3, a4, a5, a6, a7, a8, a9, a10, a11, x, hx, hxa⟩
    · have hq := shopItems_mem L i j s a1 a2 a3 a4 a5
      obtain ⟨e, he, hsrc⟩ := shop_spec_edge c tkin vint L hL _ hq
      refine ⟨e, he, ?_⟩
      rw [hsrc]
      have : shopLab L i j s = x := by unfold shopLab; rw [hx]; rfl
      show (SpinNodes.init L).nidOf (shopLab L i j s).1 = _
      rw [this, hxa]
    · have hq : (((i, s), (j, t), (k, m), (l, u)) : SQ) ∈ sintItems c vint L :=
        mem_filter.2 ⟨sintCands_mem L i s j t k m l u a1 a2 a3 a4 a5 a6 a7 a8 a9 a10, sqValid_of_spins c vint _ a11⟩
      obtain ⟨e, he, hsrc⟩ := sint_spec_edge c tkin vint L hL _ hq
      refine ⟨e, he, ?_⟩
      rw [hsrc]
      have : sintLab L i s j t k m l u = x := by unfold sintLab; rw [hx]; rfl
      show (SpinNodes.init L).nidOf (sintLab L i s j t k m l u).1 = _
      rw [this, hxa]
  · have hr : isLeft a = false := by simpa using hl
    obtain ⟨z, hz, hz1, _⟩ := sxr_right_complete L a ha hr hne
    obtain ⟨eid', he'⟩ := sspecs_explEdges c tkin vint L _ (swire_spec_mem c tkin vint L z hz)
    refine ⟨_, he', ?_⟩
    show (SpinNodes.init L).nidOf z.1 = (SpinNodes.init L).nidOf a
    rw [hz1]

theorem sexplGraph_allOut (hL : 2 ≤ L) : AllOut (sexplGraph c tkin vint L) := by
  obtain ⟨_, _, hE, hK, hT, _⟩ := sexplGraph_facts c tkin vint L hL
  intro x hx hxt
  rw [hK, sexplG0_keys] at hx
  obtain ⟨m, hm, rfl⟩ := mem_map.1 hx
  obtain ⟨a, ha, rfl⟩ := snode_labelled L m hm
  have hne : a ≠ (11, [], L) := by
    intro hc
    apply hxt
    simp only [Graph.term, hT, if_true]
    rw [hc]
    exact ssink_nid L hL
  obtain ⟨e, he, hsrc⟩ := sexplGraph_hasOut c tkin vint L hL a ha hne
  exact ⟨e, hE ▸ he, hsrc⟩

theorem sexplGraph_singleSink (hL : 2 ≤ L) : SingleSink (sexplGraph c tkin vint L) := by
  have nd := noDeadEnd_of_allOut (sexplGraph_facts c tkin vint L hL).2.1 (sexplGraph_allOut c tkin vint L hL)
  intro p hp hout
  by_contra hc
  exact nd p.1 p.2 hp hc hout

theorem slabOf_source (hL : 2 ≤ L) : (SpinNodes.init L).labOf 0 = (10, [], 0) := by
  have := slabOf_nidOf L (10, [], 0) (by simp only [sLabOk]; omega)
  rwa [ssource_nid L hL] at this

theorem slabOf_sink (hL : 2 ≤ L) : (SpinNodes.init L).labOf (L + L - 1) = (11, [], L) := by
  have := slabOf_nidOf L (11, [], L) (by simp only [sLabOk]; omega)
  rwa [ssink_nid L hL] at this

theorem sexplGraph_length (hL : 2 ≤ L) : (sexplGraph c tkin vint L).length = .ok L.toNat := by
  obtain ⟨_, sv, _, _, hT, _⟩ := sexplGraph_facts c tkin vint L hL
  have ht1 : (sexplGraph c tkin vint L).term true = L + L - 1 := by simp [Graph.term, hT]
  have ht0 : (sexplGraph c tkin vint L).term false = 0 := by simp [Graph.term, hT]
  have h0 : sexplLevel L ((sexplGraph c tkin vint L).term false) = 0 := by
    rw [ht0]
    unfold sexplLevel
    rw [slabOf_source L hL]
  have h1 : sexplLevel L ((sexplGraph c tkin vint L).term true) = L := by
    rw [ht1]
    unfold sexplLevel
    rw [slabOf_sink L hL]
  have h := length_of_lev sv (sexplGraph_lev c tkin vint L hL)
    (noDeadEnd_of_allOut sv (sexplGraph_allOut c tkin vint L hL)) h0
  rw [h, h1]

end

end Ptn.Ham

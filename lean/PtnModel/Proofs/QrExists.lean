import Mathlib.Analysis.InnerProductSpace.GramSchmidtOrtho
import Mathlib.Analysis.InnerProductSpace.PiL2
import PtnModel.Proofs.MatBasic
/-!
# Existence of the reduced QR decomposition over `ℝ`/`ℂ` (any `RCLike` field)

Only used for non-vacuity: the kernel contract `QRContract` of property C11 (for ALL matrices, including
rank-deficient ones and both `m ≤ n` and `m > n`) is satisfied by some function `fullQR`.

* `m ≤ n`: `Q = I`, `R = B`;
* `m > n`: Gram–Schmidt on the columns, extended to an orthonormal basis `b` of `𝕜^m`
  (`exists_onb_cover`); `Q` = the first `n` basis vectors, `R = Qᴴ B`.
-/
open Module Submodule Set InnerProductSpace Finset
open scoped InnerProductSpace

namespace Ptn.QrExists

variable {𝕜 : Type} [RCLike 𝕜]

/-- an orthonormal basis of an `m`-dimensional space whose first `n ≤ m` vectors span all `f j` -/
theorem exists_onb_cover {E : Type} [NormedAddCommGroup E] [InnerProductSpace 𝕜 E] [FiniteDimensional 𝕜 E]
    {m n : ℕ} (hm : finrank 𝕜 E = m) (hnm : n ≤ m) (f : Fin n → E) :
    ∃ b : OrthonormalBasis (Fin m) 𝕜 E, ∀ (j : Fin n) (i : Fin m), n ≤ i.val → ⟪b i, f j⟫_𝕜 = 0 := by
  classical
  let g := gramSchmidtNormed 𝕜 f
  have hg : Orthonormal 𝕜 fun i : { i | g i ≠ 0 } => g i := gramSchmidtNormed_orthonormal' f
  let v : Fin m → E := fun i => if h : i.val < n then g ⟨i.val, h⟩ else 0
  let s : Set (Fin m) := {i | ∃ h : i.val < n, g ⟨i.val, h⟩ ≠ 0}
  let φ : s → { i | g i ≠ 0 } := fun x => ⟨⟨x.val.val, x.prop.choose⟩, x.prop.choose_spec⟩
  have hφ : Function.Injective φ := by
    intro x y hxy
    have : (φ x).val.val = (φ y).val.val := by rw [hxy]
    exact Subtype.ext (Fin.ext this)
  have hv : Orthonormal 𝕜 (s.domRestrict v) := by
    have := hg.comp φ hφ
    convert this using 1
    funext x
    have hx := x.prop.choose
    simp [Set.domRestrict, v, φ, hx]
  obtain ⟨b, hb⟩ := hv.exists_orthonormalBasis_extension_of_card_eq (by simpa using hm)
  refine ⟨b, ?_⟩
  intro j i hi
  have hfj : f j ∈ span 𝕜 (range g) := by
    rw [span_gramSchmidtNormed_range, span_gramSchmidt]
    exact subset_span (mem_range_self j)
  have horth : ∀ x ∈ range g, ⟪b i, x⟫_𝕜 = 0 := by
    rintro x ⟨i', rfl⟩
    by_cases h0 : g i' = 0
    · rw [h0, inner_zero_right]
    · have hs : (⟨i'.val, by omega⟩ : Fin m) ∈ s := ⟨i'.isLt, h0⟩
      have e : b ⟨i'.val, by omega⟩ = g i' := by
        rw [hb _ hs]; simp [v]
      rw [← e]
      apply b.orthonormal.2
      intro h
      have := congrArg Fin.val h
      simp at this
      omega
  refine Submodule.span_induction (p := fun x _ => ⟪b i, x⟫_𝕜 = 0) ?_ ?_ ?_ ?_ hfj
  · intro x hx; exact horth x hx
  · exact inner_zero_right _
  · intro x y _ _ hx hy; rw [inner_add_right, hx, hy, add_zero]
  · intro a x _ hx; rw [inner_smul_right, hx, mul_zero]

/-- coordinates of a vector of `𝕜^m`, `0` outside the range -/
noncomputable def coord {m : ℕ} (x : EuclideanSpace 𝕜 (Fin m)) (i : ℕ) : 𝕜 := if h : i < m then x ⟨i, h⟩ else 0

theorem inner_eq_sum_coord {m : ℕ} (x y : EuclideanSpace 𝕜 (Fin m)) :
    ⟪x, y⟫_𝕜 = ∑ i ∈ Finset.range m, star (coord x i) * coord y i := by
  rw [Finset.sum_range, EuclideanSpace.inner_eq_star_dotProduct, dotProduct]
  apply Finset.sum_congr rfl
  intro i _
  simp [coord, mul_comm]

/-- the `j`-th column of `B` as a vector of `𝕜^m` -/
noncomputable def colVec (B : Mat 𝕜) (j : ℕ) : EuclideanSpace 𝕜 (Fin B.m) := WithLp.toLp 2 fun i : Fin B.m => B.f i.val j

theorem coord_colVec (B : Mat 𝕜) (j : ℕ) {i : ℕ} (hi : i < B.m) : coord (colVec B j) i = B.f i j := by
  simp [coord, colVec, hi]

/-- `Q` built from the first `n` vectors of an orthonormal basis of `𝕜^m` -/
noncomputable def qOf {m : ℕ} (b : OrthonormalBasis (Fin m) 𝕜 (EuclideanSpace 𝕜 (Fin m))) (n : ℕ) : Mat 𝕜 :=
  ⟨m, n, fun i p => if h : p < m then coord (b ⟨p, h⟩) i else 0⟩

/-- `R = Qᴴ B` -/
noncomputable def rOf (Q B : Mat 𝕜) : Mat 𝕜 :=
  ⟨Q.n, B.n, fun p j => ∑ i ∈ Finset.range B.m, star (Q.f i p) * B.f i j⟩

theorem qOf_iso {m : ℕ} (b : OrthonormalBasis (Fin m) 𝕜 (EuclideanSpace 𝕜 (Fin m))) (n : ℕ) {p p' : ℕ}
    (hp : p < m) (hp' : p' < m) :
    ∑ i ∈ Finset.range m, star ((qOf b n).f i p) * (qOf b n).f i p' = if p = p' then 1 else 0 := by
  simp only [qOf, dif_pos hp, dif_pos hp']
  rw [← inner_eq_sum_coord, orthonormal_iff_ite.1 b.orthonormal]
  simp [Fin.ext_iff]

theorem rOf_eq_inner (B : Mat 𝕜) (b : OrthonormalBasis (Fin B.m) 𝕜 (EuclideanSpace 𝕜 (Fin B.m)))
    (n : ℕ) {p : ℕ} (hp : p < B.m) (j : ℕ) :
    (rOf (qOf b n) B).f p j = ⟪b ⟨p, hp⟩, colVec B j⟫_𝕜 := by
  rw [inner_eq_sum_coord]
  simp only [rOf, qOf, dif_pos hp]
  apply Finset.sum_congr rfl
  intro i hi
  rw [coord_colVec B j (Finset.mem_range.1 hi)]

theorem qOf_rOf_product (B : Mat 𝕜) (hnm : B.n ≤ B.m)
    (b : OrthonormalBasis (Fin B.m) 𝕜 (EuclideanSpace 𝕜 (Fin B.m)))
    (hb : ∀ (j : Fin B.n) (i : Fin B.m), B.n ≤ i.val → ⟪b i, colVec B j.val⟫_𝕜 = 0)
    {i j : ℕ} (hi : i < B.m) (hj : j < B.n) :
    ∑ p ∈ Finset.range B.n, (qOf b B.n).f i p * (rOf (qOf b B.n) B).f p j = B.f i j := by
  have hexp := b.sum_repr' (colVec B j)
  have hc := congrArg (fun x : EuclideanSpace 𝕜 (Fin B.m) => coord x i) hexp
  simp only [coord_colVec B j hi] at hc
  rw [← hc]
  have hsum : coord (∑ q : Fin B.m, ⟪b q, colVec B j⟫_𝕜 • b q) i =
      ∑ q : Fin B.m, ⟪b q, colVec B j⟫_𝕜 * coord (b q) i := by
    simp [coord, hi, WithLp.ofLp_sum]
  rw [hsum]
  have hG : ∑ q : Fin B.m, ⟪b q, colVec B j⟫_𝕜 * coord (b q) i =
      ∑ q ∈ Finset.range B.m, (if h : q < B.m then ⟪b ⟨q, h⟩, colVec B j⟫_𝕜 * coord (b ⟨q, h⟩) i else 0) := by
    rw [Finset.sum_range]
    apply Finset.sum_congr rfl
    intro q _
    rw [dif_pos q.isLt]
  rw [hG, ← Finset.sum_subset (Finset.range_subset_range.2 hnm)]
  · apply Finset.sum_congr rfl
    intro p hp
    have hp' : p < B.m := lt_of_lt_of_le (Finset.mem_range.1 hp) hnm
    rw [dif_pos hp', rOf_eq_inner B b B.n hp' j, mul_comm]
    simp only [qOf, dif_pos hp']
  · intro q hq hqn
    have hq' : q < B.m := Finset.mem_range.1 hq
    rw [dif_pos hq', hb ⟨j, hj⟩ ⟨q, hq'⟩ (by simpa using hqn), zero_mul]

/-- a reduced QR decomposition of every matrix -/
noncomputable def fullQR (B : Mat 𝕜) : Mat 𝕜 × Mat 𝕜 :=
  if h : B.m ≤ B.n then
    (⟨B.m, min B.m B.n, fun i j => if i = j then 1 else 0⟩, ⟨min B.m B.n, B.n, B.f⟩)
  else
    let b := (exists_onb_cover (𝕜 := 𝕜) (E := EuclideanSpace 𝕜 (Fin B.m)) (by simp) (Nat.le_of_not_le h)
      (fun j : Fin B.n => colVec B j.val)).choose
    (qOf b (min B.m B.n), rOf (qOf b (min B.m B.n)) B)

theorem fullQR_shape (B : Mat 𝕜) :
    (fullQR B).1.m = B.m ∧ (fullQR B).1.n = min B.m B.n ∧ (fullQR B).2.m = min B.m B.n ∧ (fullQR B).2.n = B.n := by
  unfold fullQR
  split
  · exact ⟨rfl, rfl, rfl, rfl⟩
  · exact ⟨rfl, rfl, rfl, rfl⟩

theorem fullQR_product (B : Mat 𝕜) {i j : ℕ} (hi : i < B.m) (hj : j < B.n) :
    ((fullQR B).1.mul (fullQR B).2).f i j = B.f i j := by
  rw [Mat.mul_f]
  unfold fullQR
  split
  · rename_i h
    simp only
    rw [Finset.sum_eq_single i]
    · simp
    · intro k _ hk; simp [Ne.symm hk]
    · intro hn; exact absurd (Finset.mem_range.2 (by omega)) hn
  · rename_i h
    have hnm : B.n ≤ B.m := Nat.le_of_not_le h
    simp only [Nat.min_eq_right hnm]
    exact qOf_rOf_product B hnm _ (exists_onb_cover (𝕜 := 𝕜) (E := EuclideanSpace 𝕜 (Fin B.m)) (by simp) hnm
      (fun j : Fin B.n => colVec B j.val)).choose_spec hi hj

theorem fullQR_iso (B : Mat 𝕜) {p p' : ℕ} (hp : p < min B.m B.n) (hp' : p' < min B.m B.n) :
    ∑ i ∈ Finset.range B.m, star ((fullQR B).1.f i p) * (fullQR B).1.f i p' = if p = p' then 1 else 0 := by
  unfold fullQR
  split
  · simp only
    rw [Finset.sum_eq_single p]
    · by_cases e : p = p' <;> simp [e]
    · intro k _ hk; simp [hk]
    · intro hn; exact absurd (Finset.mem_range.2 (by omega)) hn
  · exact qOf_iso _ _ (by omega) (by omega)

end Ptn.QrExists

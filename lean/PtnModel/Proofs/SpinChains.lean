import PtnModel.Proofs.SpinKron
import PtnModel.Proofs.SpinConv
import PtnModel.Proofs.SpinSum
/-!
# Spin-orbital enumeration: one chain at a time

* `spin_chain_weight` : a chain on `2 L` modes ready for `to_spin_opchain` with identity-padded word `W` is converted into a chain with
                        the same coefficient whose dense entries on `L` sites of dimension 4 are those of `W` on `2 L` modes;
* `spin_hop_chain`    : a chain of the hopping loop is `t · a†_m a_m'` (its hopping word, `Proofs/Ham2JW.lean`);
* `spin_int_chain`    : a chain of the interaction loop with a valid spin pattern is `coeff · a†_i a†_j a_l a_k` on `2 L` modes.
-/
set_option linter.unusedSectionVars false

namespace Ptn.Spin
open Ptn Ptn.Og Ptn.Ham Ptn.Ch Ptn.Ham2 List

variable {κ : Type} [CommRing κ] [DecidableEq κ]

/-- a chain on `2 L` modes ready for conversion, with known identity-padded word `W`: the converted chain has the same coefficient
and, as a dense operator on `L` sites of dimension 4, the entries of `W` on `2 L` modes -/
theorem spin_chain_weight (L : Nat) (ch : OpChain κ) (tail : List Int) (h : SpinReady (L : Int) ch tail) (W : Word)
    (hW : ch.paddedWord (((2 * L : Nat)) : Int) 0 = W) (hlen : W.length = 2 * L) (s t : List Nat)
    (hs : s.length = L) (ht : t.length = L) :
    ∃ sc, toSpinOpchain ch = .ok sc ∧ sc.coeff = ch.coeff ∧
      wordWeight (spinMolOpmap : OpMap κ) (sc.paddedWord (L : Int) 0) s t = wordWeight molOpmap W (unpair s) (unpair t) := by
  obtain ⟨sc, h1, _, h3, h4, h5⟩ := toSpinOpchain_word (L : Int) ch tail h
  have e : (2 * (L : Int)) = ((2 * L : Nat) : Int) := by push_cast; rfl
  rw [e, hW] at h4 h5
  have hl' : (sc.paddedWord (L : Int) 0).length = L := by
    rw [mapM_len _ _ _ h4]; exact evenOddPairs_length L W hlen
  exact ⟨sc, h1, h3, pairWord_weight _ W s t h5 (by rw [hl', hlen]) h4 (by rw [hl', hs]) (by rw [hl', ht])⟩

theorem hopWord_length (n i j : Nat) (hi : i < n) (hj : j < n) : (hopWord n i j).length = n := by
  unfold hopWord
  split_ifs <;> simp <;> omega

/-- one chain of the hopping loop of the spin-orbital enumeration -/
theorem spin_hop_chain (L i j : Nat) (hi : i < 2 * L) (hj : j < 2 * L) (hpar : i % 2 = j % 2) (tk1 tk2 : κ) (htk : i = j → tk1 = tk2)
    (s t : List Nat) (hs : s.length = L) (ht : t.length = L) (y : OpChain κ)
    (hy : (if ((i : Int) == (j : Int)) = true then (do
          let single ← OpChain.mk' [mN] [0, 0] tk1 (i : Int)
          toSpinOpchain single)
        else (do
          let single ← molHopChain (i : Int) (j : Int) tk2
          toSpinOpchain single)) = .ok y) :
    y.coeff * wordWeight (spinMolOpmap : OpMap κ) (y.paddedWord (L : Int) 0) s t
      = tk2 * wordWeight molOpmap (hopWord (2 * L) i j) (unpair s) (unpair t) := by
  obtain ⟨ch, hch, hc, hw⟩ := molHop_spec (2 * L) i j hi hj tk2
  have hrd : ∃ tail, SpinReady (L : Int) ch tail := by
    by_cases hij : i = j
    · subst hij
      simp only [beq_self_eq_true, if_true] at hch
      obtain ⟨ch', tail, h1, hr⟩ := diag_ready (L : Int) (i : Int) tk2 (by omega) (by omega)
      rw [hch] at h1; cases h1
      exact ⟨tail, hr⟩
    · have hne : ((i : Int) == (j : Int)) = false := by simpa using hij
      simp only [hne, Bool.false_eq_true, if_false] at hch
      obtain ⟨ch', tail, h1, hr⟩ := molHopChain_ready (L : Int) (i : Int) (j : Int) tk2 (by omega) (by omega) (by omega) (by omega)
        (by omega) (by omega)
      rw [hch] at h1; cases h1
      exact ⟨tail, hr⟩
  obtain ⟨tail, hr⟩ := hrd
  obtain ⟨sc, hsc, hco, hww⟩ := spin_chain_weight L ch tail hr _ hw (hopWord_length _ i j hi hj) s t hs ht
  have : y = sc := by
    by_cases hij : i = j
    · subst hij
      simp only [beq_self_eq_true, if_true, bind_ok_iff] at hy hch
      rw [htk rfl] at hy
      obtain ⟨a, ha, hy⟩ := hy
      rw [hch] at ha; cases ha
      rw [hsc] at hy; cases hy; rfl
    · have hne : ((i : Int) == (j : Int)) = false := by simpa using hij
      simp only [hne, Bool.false_eq_true, if_false, bind_ok_iff] at hy hch
      obtain ⟨a, ha, hy⟩ := hy
      rw [hch] at ha; cases ha
      rw [hsc] at hy; cases hy; rfl
  subst this
  rw [hco, hc, hww]

/-- one chain of the interaction loop of the spin-orbital enumeration -/
theorem spin_int_chain (L i j k l : Nat) (hij : i < j) (hj : j < 2 * L) (hkl : k < l) (hl : l < 2 * L)
    (hvalid : (i % 2 = k % 2 ∧ j % 2 = l % 2) ∨ (i % 2 = l % 2 ∧ j % 2 = k % 2)) (coeff : κ)
    (s t : List Nat) (hs : s.length = L) (ht : t.length = L) :
    ∃ ch sc : OpChain κ, molIntChain (i : Int) (j : Int) (k : Int) (l : Int) coeff = .ok ch ∧ toSpinOpchain ch = .ok sc ∧
      sc.coeff * wordWeight (spinMolOpmap : OpMap κ) (sc.paddedWord (L : Int) 0) s t
        = coeff * jw4 (2 * L) i j k l (unpair s) (unpair t) := by
  obtain ⟨ch, hch, hc, hw⟩ := molInt_spec (2 * L) i j k l hij hj hkl hl coeff
  obtain ⟨ch', tail, h1, hr⟩ := molIntChain_ready (L : Int) (i : Int) (j : Int) (k : Int) (l : Int) coeff (by omega) (by omega)
    (by omega) (by omega) (by omega) (by omega) (by omega)
  rw [hch] at h1; cases h1
  obtain ⟨sc, hsc, hco, hww⟩ := spin_chain_weight L ch tail hr _ hw (fw_length _ _) s t hs ht
  refine ⟨ch, sc, hch, hsc, ?_⟩
  rw [hco, hc, hww, jw4, jw_int_dense (2 * L) i j k l hij hj hkl hl _ _ (by rw [unpair_length, hs]) (by rw [unpair_length, ht])]

end Ptn.Spin

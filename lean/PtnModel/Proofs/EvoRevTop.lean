import PtnModel.Proofs.EvoRevSweep
import PtnModel.Props.C08Total
/-!
# Time reversibility of single-site TDVP: from the sweeps to the calls of `integrate_local_singlesite`

* `integrate1_canon`    : a successful call = prologue state and final sweep state in canonical form (any complex `dt`);
* `admissible_of_canon` : the state written back from a canonical sweep state is admissible;
* `tdvp1_calls_gauge`   : a call with `dt` followed by a call with `-dt` on its result returns the normalised initial state,
                          conditional on the prologue of the second call being a pure gauge change (`hpro`);
* `tdvp1_reverse_ok`    : totality of the reversed call (corollary of `C08.tdvp1_total`).
-/
set_option linter.unusedSectionVars false

namespace Ptn.Evo
open Ptn Ptn.BondOps Ptn.Ortho Ptn.Env Ptn.Krylov Ptn.Dense Finset

variable {𝕜 : Type} [RCLike 𝕜] [DecidableEq 𝕜]
variable {k : EvoKernels 𝕜 ℝ} {H : MPO 𝕜} {numiter : Nat}

/-- reading a successful call: prologue state and final sweep state, both in canonical form with centre `0` -/
theorem integrate1_canon {ψ ψ' : MPS 𝕜} (ctx : SweepCtx k H ψ.qd numiter) (hadm : Admissible ψ) {dt : 𝕜}
    {numsteps : Nat} {nrm : ℝ} (h : integrateLocalSinglesite k H ψ dt numsteps numiter = .ok (ψ', nrm)) :
    ∃ s0 s ψ1, prologue k H ψ = .ok (s0, nrm) ∧ MPS.orthonormalize (ρ := ℝ) k.dqr ψ false = .ok (ψ1, nrm) ∧
      cur ψ.qd s0 = ψ1 ∧ Canon H ψ.qd s0 0 ∧ iterate (tdvp1Step k H ψ.qd dt numiter) numsteps s0 = .ok s ∧
      Canon H ψ.qd s 0 ∧ ψ' = toMPS ψ s := by
  obtain ⟨s0, s, hp, _, hit, rfl⟩ := integrate1_unfold h
  obtain ⟨ψ1, E0, ho, hcur, hinv0⟩ := prologue_inv ctx rfl hadm hp
  have hfin := iterate_inv (tdvp1Step k H ψ.qd dt numiter) (fun t => Canon H ψ.qd t 0)
    (fun t t' ht ht' => tdvp1Step_canon ctx ht ht') numsteps s0 s hinv0.can hit
  exact ⟨s0, s, ψ1, hp, ho, hcur, hinv0.can, hit, hfin, rfl⟩

omit [DecidableEq 𝕜] in
/-- the state written back from a canonical sweep state is admissible -/
theorem admissible_of_canon [DecidableEq 𝕜] {ψ : MPS 𝕜} {s : Sweep 𝕜} {c : Nat} (hs : Canon H ψ.qd s c) (hd : 0 < ψ.qd.length)
    (hwf : (toMPS ψ s).wellFormed = true) : Admissible (toMPS ψ s) := by
  have hL : 0 < H.A.length := by have := hs.hc; omega
  refine ⟨hwf, hd, ?_, ?_, ?_, ?_⟩
  · show s.A.toList ≠ []
    intro e
    have : s.A.toList.length = 0 := by rw [e]; rfl
    rw [Array.length_toList, hs.wf.sizeA] at this
    omega
  · intro q hq
    have hq' : q ∈ s.qD.toList := hq
    obtain ⟨i, hi, rfl⟩ := List.mem_iff_getElem.1 hq'
    have hi' : i < H.A.length + 1 := by rw [Array.length_toList, hs.wf.sizeQ] at hi; exact hi
    have := hs.wf.qpos i (by omega)
    have e : getQ s i = s.qD.toList[i] := by
      show s.qD.getD i [] = _
      rw [← toList_getD, List.getD_eq_getElem?_getD, List.getElem?_eq_getElem hi]; rfl
    rwa [e] at this
  · show (s.qD.toList.head?.getD []).length = 1
    rw [List.head?_eq_getElem?, ← List.getD_eq_getElem?_getD, toList_getD]
    exact hs.q0
  · show (s.qD.toList.getLast?.getD []).length = 1
    have e : s.qD.toList.length = H.A.length + 1 := by rw [Array.length_toList]; exact hs.wf.sizeQ
    rw [getLast_getD, e, toList_getD]
    exact hs.qL

/-- the dense state written back from a sweep state is the dense state of the sweep state -/
theorem toMPS_eq_cur (ψ : MPS 𝕜) (s : Sweep 𝕜) : toMPS ψ s = cur ψ.qd s := rfl

/-- **Two calls, conditional on the prologue of the second call being a gauge change.** -/
theorem tdvp1_calls_gauge {ψ ψ1 ψ2 : MPS 𝕜} (ctx : SweepCtx k H ψ.qd numiter) (hadm : Admissible ψ) {dt : 𝕜}
    {n : Nat} {nrm1 nrm2 : ℝ}
    (h1 : integrateLocalSinglesite k H ψ dt n numiter = .ok (ψ1, nrm1))
    (h2 : integrateLocalSinglesite k H ψ1 (-dt) n numiter = .ok (ψ2, nrm2))
    (hex1 : ∀ s0, prologue k H ψ = .ok (s0, nrm1) → RunExact false k H ψ.qd dt numiter n s0)
    (hex2 : ∀ t0, prologue k H ψ1 = .ok (t0, nrm2) → RunExact true k H ψ.qd (-dt) numiter n t0)
    (hpro : ∀ s0 b t0, prologue k H ψ = .ok (s0, nrm1) → iterate (tdvp1Step k H ψ.qd dt numiter) n s0 = .ok b →
      prologue k H ψ1 = .ok (t0, nrm2) → GaugeEq H ψ.qd b t0 0)
    (hexp : ∀ (a : 𝕜) (x : ℝ), k.dexp (a * (x : 𝕜)) * k.dexp (-a * (x : 𝕜)) = 1) :
    ∃ ψ0, MPS.orthonormalize (ρ := ℝ) k.dqr ψ false = .ok (ψ0, nrm1) ∧
      ∀ σ, σ ∈ digitsU ψ.qd.length H.A.length → ψ2.amp σ = ψ0.amp σ := by
  obtain ⟨s0, b, ψ0, hp, ho, hcur, hcan0, hit, _, rfl⟩ := integrate1_canon ctx hadm h1
  obtain ⟨t0, e, hp2, _, hit2, rfl⟩ := integrate1_unfold h2
  have hg := hpro s0 b t0 hp hit hp2
  have hfin := tdvp1Steps_gauge ctx hexp n s0 b t0 e hcan0 hit hg hit2 (hex1 s0 hp) (hex2 t0 hp2)
  refine ⟨ψ0, ho, fun σ hσ => ?_⟩
  rw [← hcur]
  exact hfin.amp hσ

/-- **Totality of the reversed call.**  Under the hypotheses of `C08.tdvp1_total`, the state returned by a call can be fed
into a second call (with any purely imaginary time step, e.g. the negated one, and any number of steps): it returns. -/
theorem tdvp1_reverse_ok {ψ ψ1 : MPS 𝕜} (ctx : SweepCtx k H ψ.qd numiter)
    (hexp : ∀ x : ℝ, ‖k.dexp (RCLike.I * (x : 𝕜))‖ = 1)
    {hh τ' : ℝ} (hhalf : k.half = ((hh : ℝ) : 𝕜)) {dt dt' : 𝕜} (hdt' : dt' = RCLike.I * ((τ' : ℝ) : 𝕜))
    (hm : 1 ≤ numiter) (hHwf : H.wellFormed = true) (hc : C02.EvoCompat H ψ)
    (hlast : (H.qD.getD H.A.length []).getD 0 0 = 0) (hadm : Admissible ψ) {n : Nat} {nrm1 : ℝ}
    (h1 : integrateLocalSinglesite k H ψ dt n numiter = .ok (ψ1, nrm1)) (n' : Nat) :
    Admissible ψ1 ∧ C02.EvoCompat H ψ1 ∧ H.A.length = ψ1.A.length ∧
      ∃ ψ2 nrm2, integrateLocalSinglesite k H ψ1 dt' n' numiter = .ok (ψ2, nrm2) := by
  have hwf1 := C02.tdvp1_wf ctx.qr.contract.shape hHwf hadm.wf hc h1
  obtain ⟨s0, b, ψ0, hp, ho, hcur, hcan0, hit, hcanb, rfl⟩ := integrate1_canon ctx hadm h1
  have hadm1 : Admissible (toMPS ψ b) := admissible_of_canon hcanb hadm.d_pos hwf1
  have hc1 : C02.EvoCompat H (toMPS ψ b) := hc
  have hlen1 : H.A.length = (toMPS ψ b).A.length := by
    show H.A.length = b.A.toList.length
    rw [Array.length_toList, hcanb.wf.sizeA]
  exact ⟨hadm1, hc1, hlen1,
    C08.tdvp1_total (ψ := toMPS ψ b) ctx hexp hhalf hdt' hm hHwf hc1 hlast hadm1 hlen1 n'⟩

end Ptn.Evo

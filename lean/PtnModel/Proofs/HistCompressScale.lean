import PtnModel.Proofs.HistNoCollapse
/-!
# C02: `MPS.compress` keeps well-formedness — right mode unconditionally, left mode when the returned scale is non-zero

* right mode: the row charges of every `split_matrix_svd` of the right sweep are the bond charges of the
  QR-orthonormalized state, which are non-empty (`ortho_left_pos`); then even an empty retained spectrum or the dummy
  branch return consistent shapes (`split_facts_of_rows`).
* left mode: a collapsed bond forces a zero trailing factor (`sweepLeftSvd_noCollapse`), so `scale = |T| ≠ 0`
  excludes it.
-/
set_option linter.unusedSectionVars false
namespace Ptn.HistWf
open Ptn.Hist Ptn.Ortho Ptn.BondOps Ptn.Dense Finset
variable {𝕜 : Type} [CommRing 𝕜] [DecidableEq 𝕜]
variable {dqr : Mat 𝕜 → Mat 𝕜 × Mat 𝕜}

/-! ## bonds of a QR-orthonormalized state are non-empty -/

theorem sweepLeft_pos {qd : List Int} {A : T3 𝕜} {qL : List Int} {rest : List (T3 𝕜)} {qRs : List (List Int)}
    {As : List (T3 𝕜)} {qs : List (List Int)} {T : T3 𝕜}
    (h : SweepLeft dqr qd A qL rest qRs As qs T) (hshape : ∀ B, ShapeAt dqr B) :
    qL ≠ [] ∧ ∀ q ∈ qs, q ≠ [] := by
  induction h with
  | @last A X qL qR A' T qb hX hloc =>
    obtain ⟨Q, R, hrun, -, -, -⟩ := hloc
    have hf := qr_facts hshape hrun
    refine ⟨fun h0 => ?_, fun q hq h0 => ?_⟩
    · have := hf.hq0
      rw [h0, flatten2_nil_right] at this
      have := hf.hm
      simp_all
    · simp only [List.mem_singleton] at hq
      subst hq
      have := hf.pos
      rw [h0] at this
      simp at this
  | @cons A Anext qL qR rest qRest A' Anext' qb As qs T hloc hsw ih =>
    obtain ⟨Q, R, hrun, -, -, -⟩ := hloc
    have hf := qr_facts hshape hrun
    refine ⟨fun h0 => ?_, fun q hq => ?_⟩
    · have := hf.hq0
      rw [h0, flatten2_nil_right] at this
      have := hf.hm
      simp_all
    · rcases List.mem_cons.1 hq with rfl | hq
      · exact ih.1
      · exact ih.2 q hq

variable {ρ : Type} [Field ρ] [LinearOrder ρ] [IsStrictOrderedRing ρ] [RealLike ρ 𝕜]

/-- after a successful left-mode QR orthonormalization of a non-empty chain every bond charge list is non-empty (the
leading one because the first block QR would raise on a matrix without rows, the others because `qr` returns at
least one intermediate charge) -/
theorem ortho_left_pos (hshape : ∀ B, ShapeAt dqr B) {ψ ψ' : MPS 𝕜} {nrm : ρ} (hA : ψ.A ≠ [])
    (h : MPS.orthonormalize dqr ψ true = .ok (ψ', nrm)) : ∀ q ∈ ψ'.qD, q ≠ [] := by
  obtain ⟨qd, qD, A⟩ := ψ
  cases A with
  | nil => exact absurd rfl hA
  | cons A0 rest =>
    cases qD with
    | nil => simp [MPS.orthonormalize] at h
    | cons q0 qrest =>
      rw [ortho_left_eq] at h
      cases hs : MPS.sweepLeftQr dqr qd A0 q0 rest qrest with
      | error e => rw [hs] at h; cases h
      | ok r =>
        obtain ⟨As, qs, T⟩ := r
        rw [hs] at h
        dsimp only at h
        obtain ⟨p0, ps⟩ := sweepLeft_pos (sweepLeft_of_run hs) hshape
        have fin : ∀ q ∈ q0 :: qs, q ≠ [] := by
          intro q hq
          rcases List.mem_cons.1 hq with rfl | hq
          · exact p0
          · exact ps q hq
        split at h
        · split at h
          · injection h with h; injection h with h _
            rw [← h]; exact fin
          · injection h with h; injection h with h _
            rw [← h]; exact fin
        · cases h

/-! ## right mode: unconditional -/

variable {k : MPS.SvdKernels 𝕜 ρ} {tol : ρ} {qd : List Int}

theorem sweepRightSvd_wfC' (hshape : ∀ B, SvdShapeAt k.dsvd B) : ∀ {rest : List (T3 𝕜)} {A : T3 𝕜} {qR : List Int}
    {qLs : List (List Int)} {As : List (T3 𝕜)} {qs : List (List Int)} {T : T3 𝕜},
    MPS.sweepRightSvd k qd tol A qR rest qLs = .ok (As, qs, T) → (∀ q ∈ qLs, q ≠ []) →
    A.d0 = qd.length → A.d2 = qR.length → (∀ X ∈ rest, X.d0 = qd.length) →
    WfC qd (QN.neg qR) (As.map T3.swap12) (qs.map QN.neg)
  | [], A, qR, [], _, _, _, h, _, _, _, _ => by simp [MPS.sweepRightSvd] at h
  | [], A, qR, [qL], As, qs, T, h, hne, h0, h2, _ => by
    rw [MPS.sweepRightSvd] at h
    simp only [bind_ok, pure_ok, Prod.mk.injEq] at h
    obtain ⟨⟨A', T', qb⟩, hl, _, hsp, rfl, rfl, rfl⟩ := h
    rw [pyAssert_ok] at hsp
    dsimp only at hsp
    have hd := localRightSvd_dims' hshape hl (hne qL (by simp))
    simp only [List.map_cons, List.map_nil, wfC_cons, wfC_nil, and_true]
    exact t3wf_swap ⟨hd.a0.trans h0, hd.a1, hd.a2.trans h2, (isSparseT3_iff _ _ _ _).1 hsp⟩
  | [], A, qR, _ :: _ :: _, _, _, _, h, _, _, _, _ => by simp [MPS.sweepRightSvd] at h
  | Aprev :: rest, A, qR, [], _, _, _, h, _, _, _, _ => by simp [MPS.sweepRightSvd] at h
  | Aprev :: rest, A, qR, qL :: qRest, As, qs, T, h, hne, h0, h2, hr => by
    rw [MPS.sweepRightSvd] at h
    simp only [bind_ok, pure_ok, Prod.mk.injEq] at h
    obtain ⟨⟨A', Aprev', qb⟩, hl, _, hsp, ⟨As', qs', T'⟩, hs, rfl, rfl, rfl⟩ := h
    rw [pyAssert_ok] at hsp
    dsimp only at hsp hs
    have hd := localRightSvd_dims' hshape hl (hne qL (by simp))
    rw [List.map_cons, List.map_cons, wfC_cons]
    refine ⟨t3wf_swap ⟨hd.a0.trans h0, hd.a1, hd.a2.trans h2, (isSparseT3_iff _ _ _ _).1 hsp⟩, ?_⟩
    exact sweepRightSvd_wfC' hshape hs (fun q hq => hne q (List.mem_cons_of_mem _ hq))
      (hd.p0.trans (hr Aprev List.mem_cons_self)) hd.p2 (fun X hX => hr X (List.mem_cons_of_mem _ hX))

variable {dabs : 𝕜 → ρ} {divR : 𝕜 → ρ → 𝕜}

/-- right-mode `compress` keeps well-formedness, for every kernel family with the shape clauses -/
theorem compress_right_wf' (hqr : ∀ B, ShapeAt dqr B) (hsvd : ∀ B, SvdShapeAt k.dsvd B) {ψ ψ' : MPS 𝕜} {nrm sc : ρ}
    (w : ψ.wellFormed = true) (h : MPS.compress dqr k dabs divR ψ tol false = .ok (ψ', nrm, sc)) :
    ψ'.wellFormed = true := by
  unfold MPS.compress at h
  simp only [Bool.false_eq_true, if_false, bind_ok] at h
  obtain ⟨⟨ψ1, nrm1⟩, hortho, h⟩ := h
  have w1 := wellFormed_mirror (ortho_mps_wf hqr w hortho)
  have hA : ψ.A ≠ [] := by
    intro h0
    obtain ⟨qd, qD, A⟩ := ψ
    simp only at h0
    subst h0
    simp only [MPS.orthonormalize, Except.ok.injEq, Prod.mk.injEq] at hortho
    rw [← hortho.1] at h
    simp [throw_ne] at h
  have hpos := ortho_left_pos hqr hA hortho
  obtain ⟨qd, qD, A⟩ := ψ1
  dsimp only at h
  split at h
  · rename_i Al rrest ql qrrest hAr hqr'
    simp only [bind_ok, pure_ok, Prod.mk.injEq] at h
    obtain ⟨⟨As, qs, T⟩, hs, _, _, rfl, _, _⟩ := h
    dsimp only at hpos ⊢
    have wm' : WfC qd (QN.neg ql) (Al.swap12 :: rrest.map T3.swap12) (qrrest.map QN.neg) := by
      rw [← wellFormed_iff_wfC]
      simpa [mirror, hAr, hqr'] using w1
    have hposL : ∀ q ∈ qrrest, q ≠ [] := by
      intro q hq
      refine hpos q ?_
      have : q ∈ qD.reverse := by
        have e : qD.reverse = ql :: qrrest := hqr'
        rw [e]; exact List.mem_cons_of_mem _ hq
      exact List.mem_reverse.1 this
    have hw : WfC qd (QN.neg ql) (As.map T3.swap12) (qs.map QN.neg) := by
      cases qrrest with
      | nil => simp at wm'
      | cons qL qrrest' =>
        rw [List.map_cons, wfC_cons] at wm'
        refine sweepRightSvd_wfC' hsvd hs hposL wm'.1.d0 ?_ (fun X hX => ?_)
        · have := wm'.1.d1
          rw [neg_length] at this
          exact this
        · have := wfC_d0 wm'.2 X.swap12 (List.mem_map_of_mem hX)
          exact this
    rw [take_drop_mapLast]
    apply wellFormed_of_mirror
    simp only [mirror, List.reverse_reverse, List.map_cons]
    rw [wellFormed_iff_wfC]
    exact wfC_mapLast_map T3.swap12 (fun X => (MPS.scaleT3 (divR (T.f 0 0 0) (dabs (T.f 0 0 0))) X).tab)
      (fun A qa qb hA => t3wf_swap_scale_tab _ hA) hw
  · simp [throw_ne] at h

/-! ## left mode: non-zero scale -/

theorem compress_left_wf_of_scale (hqr : ∀ B, ShapeAt dqr B) (hsvd : ∀ B, SvdShapeAt k.dsvd B) (habs : dabs 0 = 0)
    {ψ ψ' : MPS 𝕜} {nrm sc : ρ} (w : ψ.wellFormed = true)
    (h : MPS.compress dqr k dabs divR ψ tol true = .ok (ψ', nrm, sc)) (hsc : sc ≠ 0) : ψ'.wellFormed = true := by
  refine compress_left_wf hqr hsvd w h ?_
  unfold MPS.compress at h
  simp only [if_true, bind_ok] at h
  obtain ⟨⟨ψ1, nrm1⟩, hortho, h⟩ := h
  obtain ⟨qd, qD, A⟩ := ψ1
  dsimp only at h
  split at h
  · rename_i A0 rest q0 qrest
    simp only [bind_ok, pure_ok, Prod.mk.injEq] at h
    obtain ⟨⟨As, qs, T⟩, hs, _, hdims, rfl, rfl, rfl⟩ := h
    rw [pyAssert_ok] at hdims
    obtain ⟨hT0, hT1, hT2⟩ := dims_one3 hdims
    have hT : T.f 0 0 0 ≠ 0 := fun h0 => hsc (by show dabs (T.f 0 0 0) = 0; rw [h0, habs])
    exact sweepLeftSvd_noCollapse hsvd hs hT0 hT1 hT2 hT
  · simp [throw_ne] at h

/-- `compress` keeps well-formedness: right mode always, left mode when the returned scale is non-zero -/
theorem compress_wf_of_scale (hqr : ∀ B, ShapeAt dqr B) (hsvd : ∀ B, SvdShapeAt k.dsvd B) (habs : dabs 0 = 0)
    {ψ ψ' : MPS 𝕜} {nrm sc : ρ} {left : Bool} (w : ψ.wellFormed = true)
    (h : MPS.compress dqr k dabs divR ψ tol left = .ok (ψ', nrm, sc)) (hsc : left = true → sc ≠ 0) :
    ψ'.wellFormed = true := by
  cases left with
  | true => exact compress_left_wf_of_scale hqr hsvd habs w h (hsc rfl)
  | false => exact compress_right_wf' hqr hsvd w h

end Ptn.HistWf

import PtnModel.Proofs.DenseMul
import PtnModel.Proofs.DenseAddMpoOk
/-!
# `multiply_mpo` returns (no exception) on block-sparse operands
-/
namespace Ptn.Dense

theorem flatten2_length (a b : List Int) : (QN.flatten2 a b).length = a.length * b.length := by
  induction a with
  | nil => simp [QN.flatten2]
  | cons x a ih =>
    simp only [QN.flatten2, List.flatMap_cons, List.length_append, List.length_map, List.length_cons] at ih ⊢
    rw [ih]; ring

theorem flatten2_getD_fused (a b : List Int) : ∀ (i j : Nat), i < a.length → j < b.length →
    (QN.flatten2 a b).getD (i * b.length + j) 0 = a.getD i 0 + b.getD j 0 := by
  induction a with
  | nil => intro i j hi; simp at hi
  | cons x a ih =>
    intro i j hi hj
    have e : QN.flatten2 (x :: a) b = b.map (fun y => x + y) ++ QN.flatten2 a b := by
      simp [QN.flatten2]
    rw [e]
    match i with
    | 0 =>
      rw [Nat.zero_mul, Nat.zero_add, List.getD_append _ _ _ _ (by simpa using hj)]
      simp [List.getD_eq_getElem?_getD, hj]
    | i + 1 =>
      rw [List.getD_append_right _ _ _ _ (by simp [Nat.succ_mul]; omega)]
      have : (i + 1) * b.length + j - (b.map (fun y => x + y)).length = i * b.length + j := by
        simp [Nat.succ_mul]; omega
      rw [this, ih i j (by simpa using hi) hj]
      simp

theorem flatten2_getD (a b : List Int) (x : Nat) (hx : x < a.length * b.length) :
    (QN.flatten2 a b).getD x 0 = a.getD (x / b.length) 0 + b.getD (x % b.length) 0 := by
  have h := flatten2_getD_fused a b (x / b.length) (x % b.length) (div_lt_of_lt_mul' hx) (mod_lt_of_lt_mul' hx)
  rwa [Nat.div_add_mod'] at h

theorem forIn_append_ok {β : Type} (f : Nat → List β → Except Err (ForInStep (List β))) :
    ∀ (l : List Nat) (acc : List β), (∀ i ∈ l, ∀ acc, ∃ a, f i acc = .ok (.yield (acc ++ [a]))) →
      ∃ res, forIn l acc f = .ok res
  | [], acc, _ => ⟨acc, rfl⟩
  | i :: l, acc, h => by
      obtain ⟨a, ha⟩ := h i (by simp) acc
      obtain ⟨res, hres⟩ := forIn_append_ok f l (acc ++ [a]) (fun j hj => h j (by simp [hj]))
      exact ⟨res, by rw [List.forIn_cons, ha]; exact hres⟩

end Ptn.Dense

namespace Ptn.MPO
open Finset Dense
variable {R : Type} [CommRing R] [DecidableEq R]

theorem sparse_mulT (X Y : T4 R) (qd qa0 qb0 qa1 qb1 : List Int) (h1 : X.d1 = Y.d0)
    (x2 : X.d2 = qa0.length) (x3 : X.d3 = qb0.length) (y2 : Y.d2 = qa1.length) (y3 : Y.d3 = qb1.length)
    (hX : QN.isSparseT4 X qd qa0 qb0 = true) (hY : QN.isSparseT4 Y qd qa1 qb1 = true) :
    QN.isSparseT4 (mulT X Y).tab qd (QN.flatten2 qa0 qa1) (QN.flatten2 qb0 qb1) = true := by
  rw [isSparseT4_iff] at hX hY ⊢
  intro i hi j hj k hk l hl
  rw [T4.tab_f (mulT X Y) hi hj hk hl]
  simp only [T4.tab_d0, T4.tab_d1, T4.tab_d2, T4.tab_d3, mulT] at hi hj hk hl ⊢
  rw [flatten2_getD _ _ k (by rw [← x2, ← y2]; exact hk), flatten2_getD _ _ l (by rw [← x3, ← y3]; exact hl),
    ← y2, ← y3]
  by_cases hq : qd.getD i 0 - qd.getD j 0 + (qa0.getD (k / Y.d2) 0 + qa1.getD (k % Y.d2) 0) -
      (qb0.getD (l / Y.d3) 0 + qb1.getD (l % Y.d3) 0) = 0
  · exact Or.inl hq
  · right
    rw [sumRange_eq]
    apply sum_eq_zero
    intro u hu
    have hu := mem_range.1 hu
    rcases hX i hi u hu (k / Y.d2) (div_lt_of_lt_mul' hk) (l / Y.d3) (div_lt_of_lt_mul' hl) with hx | hx
    · rcases hY u (by omega) j hj (k % Y.d2) (mod_lt_of_lt_mul' hk) (l % Y.d3) (mod_lt_of_lt_mul' hl) with hy | hy
      · exact absurd (by omega) hq
      · rw [hy, mul_zero]
    · rw [hx, zero_mul]

/-- `multiply_mpo` returns on well-formed operands with the same physical charges and the same number of sites. -/
theorem multiply_ok (o0 o1 : MPO R) (w0 : o0.wellFormed = true) (w1 : o1.wellFormed = true)
    (hqd : o0.qd = o1.qd) (hlen : o0.A.length = o1.A.length) : ∃ r, MPO.multiply o0 o1 = .ok r := by
  obtain ⟨l0, s0⟩ := (wellFormed_iff o0).1 w0
  obtain ⟨l1, s1⟩ := (wellFormed_iff o1).1 w1
  have hlenb : (o0.A.length == o1.A.length) = true := beq_iff_eq.2 hlen
  have hqdb : (o0.qd == o1.qd) = true := beq_iff_eq.2 hqd
  unfold MPO.multiply
  simp only [pyAssert_bind, hlenb, hqdb, true_and]
  simp only [bind_ok, pure_ok]
  rw [exists_comm]
  simp only [exists_and_left, exists_eq', and_true]
  apply forIn_append_ok
  · intro i hi acc
    have hi := List.mem_range.1 hi
    obtain ⟨X, hX⟩ : ∃ X, o0.A[i]? = some X := ⟨_, List.getElem?_eq_getElem hi⟩
    obtain ⟨Y, hY⟩ : ∃ Y, o1.A[i]? = some Y := ⟨_, List.getElem?_eq_getElem (hlen ▸ hi)⟩
    obtain ⟨x0, x1, x2, x3, xs⟩ := s0 i X hX
    obtain ⟨y0, y1, y2, y3, ys⟩ := s1 i Y hY
    have e : X.d1 = Y.d0 := by rw [x1, y0, hqd]
    rw [← hqd] at ys
    have sp := sparse_mulT X Y o0.qd _ _ _ _ e x2 x3 y2 y3 xs ys
    simp only [hX, hY]
    rw [MPS.getD_map_range _ _ i (by omega), MPS.getD_map_range _ _ (i + 1) (by omega)]
    rw [if_neg (not_not.2 e)]
    refine ⟨(mulT X Y).tab, ?_⟩
    have sp' : QN.isSparseT4 (⟨X.d0, Y.d1, X.d2 * Y.d2, X.d3 * Y.d3, fun s t a b =>
        sumRange X.d1 fun u => X.f s u (a / Y.d2) (b / Y.d3) * Y.f u t (a % Y.d2) (b % Y.d3)⟩ : T4 R).tab o0.qd
        (QN.flatten2 (o0.qD.getD i []) (o1.qD.getD i []))
        (QN.flatten2 (o0.qD.getD (i + 1) []) (o1.qD.getD (i + 1) [])) = true := sp
    rw [sp']
    rfl

end Ptn.MPO

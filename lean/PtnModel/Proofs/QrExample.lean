import Mathlib.Algebra.Star.Rat
import PtnModel.Proofs.QrMain
/-!
# Concrete data for the non-vacuity examples of property C11

A `2 × 3` rational matrix with unsorted charges in both arguments, and an identity-like dense kernel
`exDqr B = (I, B)`, which is an exact reduced QR decomposition of every matrix with `B.m ≤ B.n`
(in particular of the two blocks `[[3, 4]]` and `[[2]]` of the example).
-/
namespace Ptn.BondOps
open Finset

/-- identity-like "QR": an exact reduced QR decomposition whenever `B.m ≤ B.n` -/
def exDqr (B : Mat ℚ) : Mat ℚ × Mat ℚ :=
  (⟨B.m, min B.m B.n, fun i j => if i = j then 1 else 0⟩, ⟨min B.m B.n, B.n, B.f⟩)

/-- `[[0, 2, 0], [3, 0, 4]]` -/
def exA : Mat ℚ := ⟨2, 3, fun i j =>
  if i = 0 ∧ j = 1 then 2 else if i = 1 ∧ j = 0 then 3 else if i = 1 ∧ j = 2 then 4 else 0⟩
def exq0 : List Int := [1, 0]
def exq1 : List Int := [0, 1, 0]

/-- a zero matrix whose row and column charges are disjoint -/
def exZ : Mat ℚ := Mat.zero 2 3
def exz0 : List Int := [1, 1]
def exz1 : List Int := [0, 2, 0]

theorem exDqr_shape (B : Mat ℚ) : ShapeAt exDqr B := fun _ _ => ⟨rfl, rfl, rfl, rfl⟩

theorem exDqr_prod {B : Mat ℚ} (h : B.m ≤ B.n) : ProdAt exDqr B := by
  intro i j hi hj
  rw [Mat.mul_f]
  simp only [exDqr]
  rw [sum_eq_single i]
  · simp
  · intro b _ hb; simp [Ne.symm hb]
  · intro hn; exact absurd (mem_range.2 (by omega)) hn

theorem exDqr_iso {B : Mat ℚ} (h : B.m ≤ B.n) : IsoAt exDqr B := by
  intro p p' hp hp'
  simp only [exDqr]
  rw [sum_eq_single p]
  · by_cases e : p = p' <;> simp [e]
  · intro b _ hb; simp [hb]
  · intro hn; exact absurd (mem_range.2 (by omega)) hn

theorem ex_blocks_wide : ∀ B ∈ blocks exA exq0 exq1, B.m ≤ B.n := by decide

theorem ex_shape : QRShape exDqr exA exq0 exq1 := fun B _ => exDqr_shape B
theorem ex_prod : QRProduct exDqr exA exq0 exq1 := fun B hB => exDqr_prod (ex_blocks_wide B hB)
theorem ex_iso : QRIso exDqr exA exq0 exq1 := fun B hB => exDqr_iso (ex_blocks_wide B hB)

theorem ex_input : QRInput exA exq0 exq1 :=
  ⟨rfl, rfl, by decide, by decide, (isSparseMat_iff _ _ _).1 (by decide)⟩

theorem ex_shared : intersect1d exq0 exq1 = [0, 1] := by decide

theorem exz_input : QRInput exZ exz0 exz1 :=
  ⟨rfl, rfl, by decide, by decide, (isSparseMat_iff _ _ _).1 (by decide)⟩

theorem exz_disjoint : intersect1d exz0 exz1 = [] := by decide

end Ptn.BondOps

import Mathlib.Order.Defs.LinearOrder
import PtnModel.Proofs.HamChains
import PtnModel.Proofs.HamSparse
/-!
# The chain enumeration of `molecular_hamiltonian_mpo(..., optimize=True)` is well formed for every `L`

For all orbital indices `0 ≤ i < j < L`, `0 ≤ k < l < L` the case analysis on the sorted `(site, OID)` pairs never hits its
`assert b < c`, every `OpChain` constructor call passes its length check, and the resulting chain satisfies the guards
of `from_opchains` on `L` sites; likewise for the hopping terms.  Hence `molChains` returns for every `L ≥ 0`
(in particular `L = 1`: the single chain `N`), with `L² + (L(L-1)/2)²` chains.
-/
set_option linter.unusedSectionVars false
set_option linter.unusedSimpArgs false

namespace Ptn.Ham
open Ptn.Og

variable {κ : Type} [Add κ] [Mul κ] [Neg κ] [OfNat κ 0] [OfNat κ 1] [DecidableEq κ]

theorem mk'_ok (oids qnums : List Int) (coeff : κ) (a : Int)
    (h1 : oids.length + 1 = qnums.length) (h2 : 0 ≤ a) :
    OpChain.mk' oids qnums coeff a = .ok ⟨oids, qnums, coeff, a⟩ := by
  unfold OpChain.mk'
  have : ¬ a < 0 := by omega
  simp [h1, this]

/-- `OpChain.mk'` on lists that satisfy the guards -/
theorem mk'_wf (L : Int) (oids qnums : List Int) (coeff : κ) (a : Int)
    (h1 : oids.length + 1 = qnums.length) (hne : 0 < oids.length) (h2 : 0 ≤ a) (h3 : a + (oids.length : Int) ≤ L)
    (h4 : qnums.head? = some 0) (h5 : qnums.getLast? = some 0) :
    ∃ ch, OpChain.mk' oids qnums coeff a = .ok ch ∧ ChainWF L ch :=
  ⟨_, mk'_ok oids qnums coeff a h1 h2, ⟨h1.symm, hne, h2, h3, h4, h5⟩⟩

theorem mapM_ok {α β : Type} (f : α → Except Err β) (P : β → Prop) :
    ∀ l : List α, (∀ x ∈ l, ∃ y, f x = .ok y ∧ P y) →
      ∃ ys, l.mapM f = .ok ys ∧ ys.length = l.length ∧ ∀ y ∈ ys, P y := by
  intro l
  induction l with
  | nil => intro _; exact ⟨[], by simp [pure, Except.pure], rfl, by simp⟩
  | cons x xs ih =>
    intro h
    obtain ⟨y, hy, py⟩ := h x List.mem_cons_self
    obtain ⟨ys, hys, hl, pys⟩ := ih (fun z hz => h z (List.mem_cons_of_mem _ hz))
    refine ⟨y :: ys, ?_, by simp [hl], ?_⟩
    · simp [List.mapM_cons, hy, hys, bind, Except.bind, pure, Except.pure]
    · intro z hz
      rcases List.mem_cons.1 hz with rfl | hz
      · exact py
      · exact pys z hz

theorem replicate_head? {α : Type} (n : Nat) (x : α) (hn : 0 < n) (l : List α) :
    (List.replicate n x ++ l).head? = some x := by
  obtain ⟨m, rfl⟩ : ∃ m, n = m + 1 := ⟨n - 1, by omega⟩
  simp [List.replicate_succ]

theorem replicate_getLast? {α : Type} (n : Nat) (x : α) (hn : 0 < n) :
    (List.replicate n x).getLast? = some x := by
  obtain ⟨m, rfl⟩ : ∃ m, n = m + 1 := ⟨n - 1, by omega⟩
  simp [List.replicate_succ']

theorem getLast?_cons_snoc {α : Type} (x y : α) (l : List α) : (x :: (l ++ [y])).getLast? = some y := by
  rw [← List.cons_append, List.getLast?_concat]

theorem getLast?_append_cons {α : Type} (l1 l2 : List α) (x : α) : (l1 ++ x :: l2).getLast? = (x :: l2).getLast? := by
  rw [List.getLast?_append]
  cases h : (x :: l2).getLast? with
  | none => simp at h
  | some v => simp

theorem getLast?_cons_append_cons {α : Type} (l1 l2 : List α) (x y : α) :
    (y :: (l1 ++ x :: l2)).getLast? = (x :: l2).getLast? := by
  rw [← List.cons_append, getLast?_append_cons]

/-! ## hopping terms -/

theorem molHopChain_wf (L i j : Int) (coeff : κ) (hi : 0 ≤ i) (hj : 0 ≤ j) (hiL : i < L) (hjL : j < L) (hij : i ≠ j) :
    ∃ ch, molHopChain i j coeff = .ok ch ∧ ChainWF L ch := by
  unfold molHopChain
  rcases Int.lt_or_gt_of_ne hij with h | h
  · have e : sortPairs [(i, mC), (j, mA)] = [(i, mC), (j, mA)] := by
      simp [sortPairs, insertPair, pairLe, h]
    rw [e]
    apply mk'_wf
    · simp [pyRepeat]; omega
    · simp
    · exact hi
    · simp [pyRepeat]; omega
    · simp
    · simp [getLast?_cons_snoc]
  · have e : sortPairs [(i, mC), (j, mA)] = [(j, mA), (i, mC)] := by
      have h1 : ¬ i < j := by omega
      have h2 : ¬ i = j := by omega
      simp [sortPairs, insertPair, pairLe, h1, h2]
    rw [e]
    apply mk'_wf
    · simp [pyRepeat]; omega
    · simp
    · exact hj
    · simp [pyRepeat]; omega
    · simp
    · simp [getLast?_cons_snoc]

/-! ## interaction terms -/

theorem insertPair_nil (x : Int × Int) : insertPair x [] = [x] := rfl

theorem insertPair_le (x y : Int × Int) (ys : List (Int × Int)) (h : x.1 < y.1 ∨ (x.1 = y.1 ∧ x.2 ≤ y.2)) :
    insertPair x (y :: ys) = x :: y :: ys := by
  have : pairLe x y = true := by
    unfold pairLe
    rcases h with h | ⟨h1, h2⟩
    · simp [h]
    · simp [h1, h2]
  simp [insertPair, this]

theorem insertPair_gt (x y : Int × Int) (ys : List (Int × Int)) (h : y.1 < x.1 ∨ (y.1 = x.1 ∧ y.2 < x.2)) :
    insertPair x (y :: ys) = y :: insertPair x ys := by
  have : pairLe x y = false := by
    unfold pairLe
    rcases h with h | ⟨h1, h2⟩
    · have a : ¬ x.1 < y.1 := by omega
      have b : ¬ x.1 = y.1 := by omega
      simp [a, b]
    · have a : ¬ x.1 < y.1 := by omega
      have b : ¬ x.2 ≤ y.2 := by omega
      simp [a, b]
  simp [insertPair, this]

theorem pyAssert_true_bind {β : Type} (f : Unit → Except Err β) : (pyAssert true >>= f) = f () := rfl

/-- closes the side goals of `mk'_wf` for the explicit lists of the case analysis -/
macro "chain_side" : tactic =>
  `(tactic| first
    | omega
    | (simp [pyRepeat]; done)
    | (simp [pyRepeat]; omega)
    | (simp [pyRepeat, getLast?_cons_snoc, getLast?_append_cons, getLast?_cons_append_cons]; done)
    | (rw [pyRepeat, replicate_head? _ _ (by omega)])
    | (simp only [pyRepeat, List.append_nil]; rw [replicate_getLast? _ _ (by omega)])
    | (simp only [pyRepeat]; rw [List.append_assoc, replicate_head? _ _ (by omega)])
    | (simp only [pyRepeat]; rw [← List.append_nil (List.replicate _ _), replicate_head? _ _ (by omega)])
    | (simp only [pyRepeat]; rw [List.getLast?_concat])
    | (simp only [pyRepeat]; rw [List.getLast?_append, replicate_getLast? _ _ (by omega)]; rfl))

/-- every interaction term `g a†_i a†_j a_l a_k` with `0 ≤ i < j < L`, `0 ≤ k < l < L` yields a chain: the internal
`assert b < c` holds, the `OpChain` constructor accepts the lists, and the chain satisfies the guards on `L` sites -/
theorem molIntChain_wf (L i j k l : Int) (coeff : κ) (hi : 0 ≤ i) (hij : i < j) (hjL : j < L)
    (hk : 0 ≤ k) (hkl : k < l) (hlL : l < L) :
    ∃ ch, molIntChain i j k l coeff = .ok ch ∧ ChainWF L ch := by
  unfold molIntChain
  have t1 := Int.lt_trichotomy i k
  have t2 := Int.lt_trichotomy i l
  have t3 := Int.lt_trichotomy j k
  have t4 := Int.lt_trichotomy j l
  rcases t1 with h1 | h1 | h1 <;> rcases t2 with h2 | h2 | h2 <;>
    rcases t3 with h3 | h3 | h3 <;> rcases t4 with h4 | h4 | h4 <;>
    first
    | (exfalso; omega)
    | (subst_vars
       simp (disch := omega) only [sortPairs, List.foldr, insertPair_nil, insertPair_le, insertPair_gt, mC, mA, mN, mI, mZ,
         beq_iff_eq, if_pos, if_neg, decide_eq_true, pyAssert_true_bind, bind_pure_comp, pure_bind]
       apply mk'_wf <;> chain_side)

/-! ## the whole enumeration -/

/-- **`molecular_hamiltonian_mpo(tkin, vint, optimize=True)`: the chain enumeration is well formed for every number of
orbitals** `L = len(tkin) ≥ 0` and all coefficient tensors (no assumption on their shape or values): no internal assertion
fires, no `OpChain` constructor raises, there are `L² + (L(L-1)/2)²`-many chains (`L²` hopping terms, one interaction term for
every pair of pairs `i < j`, `k < l`) and each satisfies the guards of `from_opchains` on `L` sites. -/
theorem molChains_wf (c : Consts κ) (tkin : List (List κ)) (vint : List (List (List (List κ)))) :
    ∃ chains, molChains c tkin vint = .ok chains ∧ ∀ ch ∈ chains, ChainWF (tkin.length : Int) ch := by
  unfold molChains
  obtain ⟨hop, hhop, _, phop⟩ := mapM_ok
    (fun (x : Int × Int) => match x with
      | (i, j) => if i == j then OpChain.mk' [mN] [0, 0] (t2 tkin i i) i else molHopChain i j (t2 tkin i j))
    (ChainWF (tkin.length : Int))
    ((pyRange 0 (tkin.length : Int)).flatMap fun i => (pyRange 0 (tkin.length : Int)).map fun j => (i, j))
    (by
      rintro ⟨i, j⟩ hx
      simp only [List.mem_flatMap, List.mem_map, mem_pyRange, Prod.mk.injEq] at hx
      obtain ⟨i', ⟨hi0, hiL⟩, j', ⟨hj0, hjL⟩, rfl, rfl⟩ := hx
      by_cases hij : i' = j'
      · subst hij
        simp only [beq_self_eq_true, if_true]
        apply mk'_wf
        · rfl
        · simp
        · exact hi0
        · simp; omega
        · rfl
        · rfl
      · have : (i' == j') = false := by simpa using hij
        simp only [this, Bool.false_eq_true, if_false]
        exact molHopChain_wf _ i' j' _ hi0 hj0 hiL hjL hij)
  obtain ⟨int, hint, _, pint⟩ := mapM_ok
    (fun (x : Int × Int × Int × Int) => match x with
      | (i, j, k, l) => molIntChain i j k l (gint c vint i j k l))
    (ChainWF (tkin.length : Int))
    ((pyRange 0 (tkin.length : Int)).flatMap fun i => (pyRange (i + 1) (tkin.length : Int)).flatMap fun j =>
      (pyRange 0 (tkin.length : Int)).flatMap fun k => (pyRange (k + 1) (tkin.length : Int)).map fun l => (i, j, k, l))
    (by
      rintro ⟨i, j, k, l⟩ hx
      simp only [List.mem_flatMap, List.mem_map, mem_pyRange, Prod.mk.injEq] at hx
      obtain ⟨i', ⟨hi0, hiL⟩, j', ⟨hj0, hjL⟩, k', ⟨hk0, hkL⟩, l', ⟨hl0, hlL⟩, rfl, rfl, rfl, rfl⟩ := hx
      exact molIntChain_wf _ i' j' k' l' _ hi0 (by omega) hjL hk0 (by omega) hlL)
  refine ⟨hop ++ int, ?_, ?_⟩
  · simp only [hhop, hint, bind, Except.bind, pure, Except.pure]
  · intro ch hch
    rcases List.mem_append.1 hch with h | h
    · exact phop ch h
    · exact pint ch h

end Ptn.Ham

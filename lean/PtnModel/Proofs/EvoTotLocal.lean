import PtnModel.Proofs.EvoTdvp
/-!
# Totality of the site-local steps

The Krylov routines return whenever the start vector has positive norm (under the norm contract: then the vector is not
empty, so the capped iteration count of F11 is at least one), at least one iteration is requested and the
eigen-solver oracle satisfies its shape clauses at the Lanczos run (`C15.EighAt`); hence `_local_hamiltonian_step`,
`_local_bond_step`, `_minimize_local_energy` return on non-zero tensors.
-/
set_option linter.unusedSectionVars false

namespace Ptn.Evo
open Ptn Ptn.Krylov Ptn.Env Ptn.Ortho Ptn.Dense Finset

variable {𝕜 : Type} [RCLike 𝕜]

/-- the Hermitian Krylov exponential returns: positive norm, `numiter ≥ 1`, eigen-solver contract at the run -/
theorem expm_herm_isOk {Afun : List 𝕜 → List 𝕜} {dnorm : List 𝕜 → ℝ} {deigh : List ℝ → List ℝ → List ℝ × Mat ℝ}
    {dexp : 𝕜 → 𝕜} {dexpm : Mat 𝕜 → Mat 𝕜} {v : List 𝕜} {numiter : Nat}
    (hN : NormContract dnorm) (hpos : 0 < dnorm v) (hm : 1 ≤ numiter) (hE : C15.EighAt Afun dnorm deigh v numiter) (dt : 𝕜) :
    ∃ r, expmKrylov Afun dnorm deigh dexp dexpm v dt numiter true = .ok r := by
  obtain ⟨⟨alpha, beta, V⟩, hl⟩ := lanczos_isOk Afun dnorm (vstart := v) (numiter := numiter) hpos hm (hN.pos_dim hpos)
  have hE' := hE alpha beta V hl
  obtain ⟨h1, _, _, _, hVn⟩ := lanczos_sizes _ _ hl
  unfold expmKrylov
  simp only [if_true]
  rw [hl]
  simp only [bind, Except.bind]
  rw [if_neg (by rw [hE'.Um]; omega), if_neg (by rw [hE'.wlen, hE'.Un]; simp), if_neg (by rw [hVn, hE'.Um]; simp)]
  exact ⟨_, rfl⟩

/-- `eigh_krylov` returns at least one Ritz pair -/
theorem eigh_isOk {Afun : List 𝕜 → List 𝕜} {dnorm : List 𝕜 → ℝ} {deigh : List ℝ → List ℝ → List ℝ × Mat ℝ}
    {v : List 𝕜} {numiter : Nat} (hN : NormContract dnorm) (hpos : 0 < dnorm v) (hm : 1 ≤ numiter)
    (hE : C15.EighAt Afun dnorm deigh v numiter) :
    ∃ ws u, eighKrylov Afun dnorm deigh v numiter 1 = .ok (ws, u) ∧ ws ≠ [] ∧ u.n ≠ 0 := by
  obtain ⟨⟨alpha, beta, V⟩, hl⟩ := lanczos_isOk Afun dnorm (vstart := v) (numiter := numiter) hpos hm (hN.pos_dim hpos)
  have hE' := hE alpha beta V hl
  obtain ⟨h1, _, _, _, hVn⟩ := lanczos_sizes _ _ hl
  unfold eighKrylov
  rw [hl]
  simp only [bind, Except.bind]
  rw [if_neg (by rw [hVn, hE'.Um]; simp)]
  refine ⟨_, _, rfl, ?_, ?_⟩
  · intro h0
    have hw := hE'.wlen
    have : ((deigh alpha beta).1.take 1).length = 0 := by rw [h0]; rfl
    rw [List.length_take, hw] at this
    omega
  · show min 1 (deigh alpha beta).2.n ≠ 0
    rw [hE'.Un]; omega

variable [DecidableEq 𝕜]

theorem localStep_isOk {k : EvoKernels 𝕜 ℝ} {L R : T3 𝕜} {W : T4 𝕜} {A : T3 𝕜} {numiter : Nat}
    (hN : NormContract k.cnorm) (hpos : 0 < k.cnorm (flat3 A)) (hm : 1 ≤ numiter)
    (hE : C15.EighAt (localHFun L R W A.d0 A.d1 A.d2) k.cnorm k.deigh (flat3 A) numiter) (dt : 𝕜) :
    ∃ A1, localHamiltonianStep k L R W A dt numiter = .ok A1 := by
  obtain ⟨r, hr⟩ := expm_herm_isOk (dexp := k.dexp) (dexpm := k.dexpm) hN hpos hm hE (-dt)
  unfold localHamiltonianStep
  rw [hr]
  exact ⟨_, rfl⟩

theorem bondStep_isOk {k : EvoKernels 𝕜 ℝ} {L R : T3 𝕜} {C : Mat 𝕜} {numiter : Nat}
    (hN : NormContract k.cnorm) (hpos : 0 < k.cnorm (flat2 C)) (hm : 1 ≤ numiter)
    (hE : C15.EighAt (localBondFun L R C.m C.n) k.cnorm k.deigh (flat2 C) numiter) (dt : 𝕜) :
    ∃ C1, localBondStep k L R C dt numiter = .ok C1 := by
  obtain ⟨r, hr⟩ := expm_herm_isOk (dexp := k.dexp) (dexpm := k.dexpm) hN hpos hm hE (-dt)
  unfold localBondStep
  rw [hr]
  exact ⟨_, rfl⟩

theorem minimize_isOk {k : EvoKernels 𝕜 ℝ} {L R : T3 𝕜} {W : T4 𝕜} {A : T3 𝕜} {numiter : Nat}
    (hN : NormContract k.cnorm) (hpos : 0 < k.cnorm (flat3 A)) (hm : 1 ≤ numiter)
    (hE : C15.EighAt (localHFun L R W A.d0 A.d1 A.d2) k.cnorm k.deigh (flat3 A) numiter) :
    ∃ r, minimizeLocalEnergy k L R W A numiter = .ok r := by
  obtain ⟨ws, u, hr, hws, hun⟩ := eigh_isOk hN hpos hm hE
  unfold minimizeLocalEnergy
  rw [hr]
  cases ws with
  | nil => exact absurd rfl hws
  | cons w0 rest =>
    simp only [bind, Except.bind]
    rw [if_neg hun]
    exact ⟨_, rfl⟩

omit [DecidableEq 𝕜] in
/-- a vector with positive squared norm has positive norm under the norm contract -/
theorem cnorm_pos_of_sq {dnorm : List 𝕜 → ℝ} (hN : NormContract dnorm) {x : List 𝕜} (h : 0 < sqNorm x) : 0 < dnorm x := by
  have hs := hN.sq x
  have h0 := hN.nonneg x
  rcases h0.lt_or_eq with hlt | heq
  · exact hlt
  · rw [← heq] at hs
    have : sqNorm x = 0 := by rw [← hs]; ring
    rw [this] at h
    exact absurd h (lt_irrefl 0)

omit [DecidableEq 𝕜] in
theorem cnorm_pos_flat3 {dnorm : List 𝕜 → ℝ} (hN : NormContract dnorm) {A : T3 𝕜} (h : 0 < frob3 A) :
    0 < dnorm (flat3 A) := cnorm_pos_of_sq hN (by rw [sqNorm_flat3]; exact h)

omit [DecidableEq 𝕜] in
theorem cnorm_pos_flat2 {dnorm : List 𝕜 → ℝ} (hN : NormContract dnorm) {C : Mat 𝕜} (h : 0 < frob2 C) :
    0 < dnorm (flat2 C) := cnorm_pos_of_sq hN (by rw [sqNorm_flat2]; exact h)

end Ptn.Evo

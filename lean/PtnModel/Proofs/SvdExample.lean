import Mathlib.Algebra.Star.Rat
import Mathlib.Algebra.Order.Field.Rat
import PtnModel.Proofs.SvdMain
import PtnModel.Proofs.QrExample
/-!
# Concrete data for the non-vacuity examples of the block-SVD split (property C12)

`sxA = [[0, 12, 0], [3, 0, 4]]` with the unsorted charges `[1, 0]`, `[0, 1, 0]`; the blocks handed to the kernel are
`[[3, 4]]` (charge 0) and `[[12]]` (charge 1); `sxDsvd` is an exact SVD of both; the concatenated spectrum is
`[5, 12]` with norm `13`.  `exZ` (the `2 × 3` zero matrix of `QrExample`) with the same, shared, charges is the
input of the zero-matrix branch.
-/
namespace Ptn.BondOps
open Finset

/-- `[[0, 12, 0], [3, 0, 4]]` with charges `[1, 0]`, `[0, 1, 0]`: blocks `[[3, 4]]` and `[[12]]` -/
def sxA : Mat ℚ := ⟨2, 3, fun i j =>
  if i = 0 ∧ j = 1 then 12 else if i = 1 ∧ j = 0 then 3 else if i = 1 ∧ j = 2 then 4 else 0⟩

/-- a kernel that is an exact SVD of `[[3, 4]] = 1·5·[3/5, 4/5]` and of `[[12]] = 1·12·1` -/
def sxDsvd (B : Mat ℚ) : Mat ℚ × List ℚ × Mat ℚ :=
  (⟨B.m, min B.m B.n, fun i j => if i = j then 1 else 0⟩,
   if B.n = 2 then [5] else [12],
   ⟨min B.m B.n, B.n, fun _ j => if B.n = 2 then (if j = 0 then 3 / 5 else 4 / 5) else 1⟩)

theorem sx_spectrum : spectrum sxDsvd sxA [1, 0] [0, 1, 0] = [5, 12] := by decide +kernel

theorem sx_kept : keptIdx (fun _ => (13 : ℚ)) (fun _ => [0, 1]) sxDsvd sxA [1, 0] [0, 1, 0] (25 / 169) = [1] := by
  decide +kernel

theorem sx_shape : SvdShape sxDsvd sxA [1, 0] [0, 1, 0] := by
  intro B hB
  unfold SvdShapeAt
  intro _ _
  refine ⟨rfl, rfl, ?_, rfl, rfl⟩
  revert B
  decide +kernel

theorem sx_prod : SvdProduct (RingHom.id ℚ) sxDsvd sxA [1, 0] [0, 1, 0] := by
  have h : ∀ B ∈ blocks sxA [1, 0] [0, 1, 0], ∀ i, i < B.m → ∀ j, j < B.n →
      ∑ p ∈ range (min B.m B.n), (sxDsvd B).1.f i p * (RingHom.id ℚ) ((sxDsvd B).2.1.getD p 0) * (sxDsvd B).2.2.f p j =
        B.f i j := by decide +kernel
  exact fun B hB i j hi hj => h B hB i hi j hj

theorem sx_isoU : SvdIsoU sxDsvd sxA [1, 0] [0, 1, 0] := by
  have h : ∀ B ∈ blocks sxA [1, 0] [0, 1, 0], ∀ p, p < min B.m B.n → ∀ p', p' < min B.m B.n →
      ∑ i ∈ range B.m, star ((toQr sxDsvd B).1.f i p) * (toQr sxDsvd B).1.f i p' = if p = p' then 1 else 0 := by
    decide +kernel
  exact fun B hB p p' hp hp' => h B hB p hp p' hp'

theorem sx_isoV : SvdIsoV sxDsvd sxA [1, 0] [0, 1, 0] := by
  have h : ∀ B ∈ blocks sxA [1, 0] [0, 1, 0], ∀ p, p < min B.m B.n → ∀ p', p' < min B.m B.n →
      ∑ j ∈ range B.n, (toQr sxDsvd B).2.f p j * star ((toQr sxDsvd B).2.f p' j) = if p = p' then 1 else 0 := by
    decide +kernel
  exact fun B hB p p' hp hp' => h B hB p hp p' hp'

theorem sx_nonneg : SvdNonneg sxDsvd sxA [1, 0] [0, 1, 0] := by
  unfold SvdNonneg SvdNonnegAt
  decide +kernel

theorem sx_input : QRInput sxA [1, 0] [0, 1, 0] :=
  ⟨rfl, rfl, by decide, by decide, (isSparseMat_iff _ _ _).1 (by decide)⟩

theorem sx_shared : intersect1d [1, 0] [0, 1, 0] = [0, 1] := by decide

theorem sx_kept0 : keptIdx (fun _ => (13 : ℚ)) (fun _ => [0, 1]) sxDsvd sxA [1, 0] [0, 1, 0] 0 = [0, 1] := by
  decide +kernel

theorem sx_anyNZ : AnyNZ sxA := ⟨0, 1, by decide, by decide, by decide +kernel⟩

/-- the `2 × 3` zero matrix with the SHARED charges `[1, 0]`, `[0, 1, 0]` is admissible input -/
theorem sz_input : QRInput exZ [1, 0] [0, 1, 0] :=
  ⟨rfl, rfl, by decide, by decide, fun _ _ _ _ h => absurd rfl h⟩

theorem sz_zero : ¬ AnyNZ exZ := (not_anyNZ_iff exZ).2 fun _ _ _ _ => rfl

end Ptn.BondOps

import PtnModel.Proofs.EvoExactDefs
/-!
# Transport of spectral relations through a square LEFT isometry

`Q` is a left isometry `(d0, d1, d2)` that is SQUARE as a matrix `(s,a) × p`: `d0 · d1 = d2`; hence it is unitary
(`sq_left_unitary`).  With `BLn = opStepLeft Q Q W BL` the zero-site operator between `BLn` and `BR` is the one-site
operator between `BL`, `BR` conjugated by `Q` (`bond_proj_left`), and because `Q Qᴴ = 1` the two are intertwined in both
directions.
-/
set_option linter.unusedSectionVars false

namespace Ptn.Evo
open Ptn Ptn.BondOps Ptn.Ortho Ptn.Env Ptn.Krylov Ptn.Dense Finset

section helpers
variable {𝕜 : Type} [RCLike 𝕜]

/-! ## index arithmetic and Kronecker deltas -/

theorem tL_fused_inj {s a s' a' d : Nat} (ha : a < d) (ha' : a' < d) :
    s * d + a = s' * d + a' ↔ s = s' ∧ a = a' := by
  constructor
  · intro h
    have h1 : (s * d + a) / d = (s' * d + a') / d := by rw [h]
    have h2 : (s * d + a) % d = (s' * d + a') % d := by rw [h]
    rw [Ortho.fused_div ha, Ortho.fused_div ha'] at h1
    rw [Ortho.fused_mod ha, Ortho.fused_mod ha'] at h2
    exact ⟨h1, h2⟩
  · rintro ⟨rfl, rfl⟩
    rfl

/-- a double sum against a product Kronecker delta -/
theorem tL_sum_delta2 (d0 d1 : Nat) {s a : Nat} (hs : s < d0) (ha : a < d1) (F : Nat → Nat → 𝕜) :
    ∑ s' ∈ range d0, ∑ a' ∈ range d1, (if s = s' ∧ a = a' then (1 : 𝕜) else 0) * F s' a' = F s a := by
  have e : ∀ s' ∈ range d0, ∑ a' ∈ range d1, (if s = s' ∧ a = a' then (1 : 𝕜) else 0) * F s' a' =
      if s = s' then F s' a else 0 := by
    intro s' _
    by_cases h : s = s'
    · rw [if_pos h]
      have e2 : ∀ a' ∈ range d1, (if s = s' ∧ a = a' then (1 : 𝕜) else 0) * F s' a' =
          if a = a' then F s' a' else 0 := by
        intro a' _
        by_cases h2 : a = a'
        · rw [if_pos ⟨h, h2⟩, if_pos h2, one_mul]
        · rw [if_neg (fun c => h2 c.2), if_neg h2, zero_mul]
      rw [sum_congr rfl e2, sum_ite_eq (range d1) a, if_pos (mem_range.2 ha)]
    · rw [if_neg h]
      exact sum_eq_zero fun a' _ => by rw [if_neg (fun c => h c.1), zero_mul]
  rw [sum_congr rfl e, sum_ite_eq (range d0) s, if_pos (mem_range.2 hs)]

/-! ## a square left isometry is unitary -/

theorem tL_sq_left_unitary_aux {Q : T3 𝕜} (hQ : LeftIso Q) (hsq : Q.d0 * Q.d1 = Q.d2) {s a s' a' : Nat}
    (hs : s < Q.d0) (ha : a < Q.d1) (hs' : s' < Q.d0) (ha' : a' < Q.d1) :
    ∑ p ∈ range Q.d2, Q.f s a p * star (Q.f s' a' p) = if s = s' ∧ a = a' then 1 else 0 := by
  have key := sq_iso_unitary (𝕜 := 𝕜) Q.d2 (fun q p => Q.f (q / Q.d1) (q % Q.d1) p) (fun p p' hp hp' => by
    rw [← hQ p p' hp hp']
    show ∑ q ∈ range Q.d2, star (Q.f (q / Q.d1) (q % Q.d1) p) * Q.f (q / Q.d1) (q % Q.d1) p' = _
    rw [← hsq, Ortho.sum_fused Q.d0 Q.d1]
    refine sum_congr rfl fun s _ => sum_congr rfl fun a ha => ?_
    rw [Ortho.fused_div (mem_range.1 ha), Ortho.fused_mod (mem_range.1 ha)])
  have := key (s * Q.d1 + a) (s' * Q.d1 + a') (by rw [← hsq]; exact Ortho.fused_lt hs ha)
    (by rw [← hsq]; exact Ortho.fused_lt hs' ha')
  simp only [Ortho.fused_div ha, Ortho.fused_mod ha, Ortho.fused_div ha', Ortho.fused_mod ha'] at this
  rw [this]
  by_cases h : s = s' ∧ a = a'
  · rw [if_pos h, if_pos ((tL_fused_inj ha ha').2 h)]
  · rw [if_neg h, if_neg (fun c => h ((tL_fused_inj ha ha').1 c))]

theorem tL_alg_resolve (Sp Ss Sa : Finset Nat) (q : Nat → 𝕜) (qc : Nat → Nat → Nat → 𝕜) (F : Nat → Nat → 𝕜) :
    ∑ p ∈ Sp, q p * ∑ s' ∈ Ss, ∑ a' ∈ Sa, qc s' a' p * F s' a' =
    ∑ s' ∈ Ss, ∑ a' ∈ Sa, (∑ p ∈ Sp, q p * qc s' a' p) * F s' a' := by
  simp only [Finset.sum_mul, Finset.mul_sum]
  sum_pull Ss
  sum_pull Sa
  sum_pull Sp
  ring

theorem tL_alg_resolve' (Sp Ss Sa : Finset Nat) (qc : Nat → Nat → 𝕜) (q : Nat → Nat → Nat → 𝕜) (C : Nat → 𝕜) :
    ∑ s ∈ Ss, ∑ a ∈ Sa, qc s a * ∑ p' ∈ Sp, q s a p' * C p' =
    ∑ p' ∈ Sp, (∑ s ∈ Ss, ∑ a ∈ Sa, qc s a * q s a p') * C p' := by
  simp only [Finset.sum_mul, Finset.mul_sum]
  sum_pull Sp
  sum_pull Ss
  sum_pull Sa
  ring

/-- `Q Qᴴ = 1` applied to a vector -/
theorem tL_left_resolve {Q : T3 𝕜} (hQ : LeftIso Q) (hsq : Q.d0 * Q.d1 = Q.d2) {s a : Nat} (hs : s < Q.d0) (ha : a < Q.d1)
    (F : Nat → Nat → 𝕜) :
    ∑ p ∈ range Q.d2, Q.f s a p * ∑ s' ∈ range Q.d0, ∑ a' ∈ range Q.d1, star (Q.f s' a' p) * F s' a' = F s a := by
  refine (tL_alg_resolve (range Q.d2) (range Q.d0) (range Q.d1) (fun p => Q.f s a p)
    (fun s' a' p => star (Q.f s' a' p)) F).trans ?_
  have e : ∀ s' ∈ range Q.d0, ∀ a' ∈ range Q.d1,
      (∑ p ∈ range Q.d2, Q.f s a p * star (Q.f s' a' p)) * F s' a' =
        (if s = s' ∧ a = a' then (1 : 𝕜) else 0) * F s' a' := by
    intro s' hs' a' ha'
    rw [tL_sq_left_unitary_aux hQ hsq hs ha (mem_range.1 hs') (mem_range.1 ha')]
  rw [sum_congr rfl fun s' hs' => sum_congr rfl fun a' ha' => e s' hs' a' ha']
  exact tL_sum_delta2 Q.d0 Q.d1 hs ha F

/-- `Qᴴ Q = 1` applied to a vector -/
theorem tL_left_resolve' {Q : T3 𝕜} (hQ : LeftIso Q) {p : Nat} (hp : p < Q.d2) (C : Nat → 𝕜) :
    ∑ s ∈ range Q.d0, ∑ a ∈ range Q.d1, star (Q.f s a p) * ∑ p' ∈ range Q.d2, Q.f s a p' * C p' = C p := by
  refine (tL_alg_resolve' (range Q.d2) (range Q.d0) (range Q.d1) (fun s a => star (Q.f s a p)) Q.f C).trans ?_
  have e : ∀ p' ∈ range Q.d2, (∑ s ∈ range Q.d0, ∑ a ∈ range Q.d1, star (Q.f s a p) * Q.f s a p') * C p' =
      if p = p' then C p' else 0 := by
    intro p' hp'
    rw [hQ p p' hp (mem_range.1 hp')]
    by_cases h : p = p'
    · rw [if_pos h, if_pos h, one_mul]
    · rw [if_neg h, if_neg h, zero_mul]
  rw [sum_congr rfl e, sum_ite_eq (range Q.d2) p, if_pos (mem_range.2 hp)]

/-! ## the flat intertwiners -/

/-- the matrix of `C ↦ P · C` from flat `d2 × n` matrices to flat `d0 × d1 × n` tensors -/
def tL_pushFlat (P : T3 𝕜) (n : Nat) (i j : Nat) : 𝕜 :=
  if i % n = j % n then P.f (i / (P.d1 * n)) (i / n % P.d1) (j / n) else 0

/-- the matrix of `Z ↦ Qᴴ · Z` from flat `d0 × d1 × n` tensors to flat `d2 × n` matrices -/
def tL_pullFlat (Q : T3 𝕜) (n : Nat) (i j : Nat) : 𝕜 :=
  if i % n = j % n then star (Q.f (j / (Q.d1 * n)) (j / n % Q.d1) (i / n)) else 0

theorem tL_pushFlat_apply (P : T3 𝕜) {n : Nat} (x : List 𝕜) {i : Nat} (hb : i % n < n) :
    ∑ j ∈ range (P.d2 * n), tL_pushFlat P n i j * vget x j =
      ∑ p ∈ range P.d2, P.f (i / (P.d1 * n)) (i / n % P.d1) p * vget x (p * n + i % n) := by
  rw [Ortho.sum_fused P.d2 n]
  refine sum_congr rfl fun p _ => ?_
  have e : ∀ b ∈ range n, tL_pushFlat P n i (p * n + b) * vget x (p * n + b) =
      if i % n = b then P.f (i / (P.d1 * n)) (i / n % P.d1) p * vget x (p * n + b) else 0 := by
    intro b hb'
    unfold tL_pushFlat
    rw [Ortho.fused_mod (mem_range.1 hb'), Ortho.fused_div (mem_range.1 hb')]
    by_cases h : i % n = b
    · rw [if_pos h, if_pos h]
    · rw [if_neg h, if_neg h, zero_mul]
  rw [sum_congr rfl e, sum_ite_eq (range n) (i % n), if_pos (mem_range.2 hb)]

theorem tL_pullFlat_apply (Q : T3 𝕜) {n : Nat} (x : List 𝕜) {i : Nat} (hb : i % n < n) :
    ∑ j ∈ range (Q.d0 * Q.d1 * n), tL_pullFlat Q n i j * vget x j =
      ∑ s ∈ range Q.d0, ∑ a ∈ range Q.d1, star (Q.f s a (i / n)) * vget x ((s * Q.d1 + a) * n + i % n) := by
  rw [sum_flat3]
  refine sum_congr rfl fun s _ => sum_congr rfl fun a ha => ?_
  have e : ∀ b ∈ range n, tL_pullFlat Q n i ((s * Q.d1 + a) * n + b) * vget x ((s * Q.d1 + a) * n + b) =
      if i % n = b then star (Q.f s a (i / n)) * vget x ((s * Q.d1 + a) * n + b) else 0 := by
    intro b hb'
    unfold tL_pullFlat
    rw [idx3_mod (mem_range.1 hb'), idx3_div0 (mem_range.1 ha) (mem_range.1 hb'),
      idx3_div1 (mem_range.1 ha) (mem_range.1 hb')]
    by_cases h : i % n = b
    · rw [if_pos h, if_pos h]
    · rw [if_neg h, if_neg h, zero_mul]
  rw [sum_congr rfl e, sum_ite_eq (range n) (i % n), if_pos (mem_range.2 hb)]

/-- `flat3 (P · C) = tL_pushFlat · flat2 C` -/
theorem tL_flat3_push {P : T3 𝕜} {n : Nat} {X : T3 𝕜} (x0 : X.d0 = P.d0) (x1 : X.d1 = P.d1) (x2 : X.d2 = n)
    {C : Mat 𝕜} (c0 : C.m = P.d2) (c1 : C.n = n)
    (hX : ∀ s a b, s < P.d0 → a < P.d1 → b < n → X.f s a b = ∑ p ∈ range P.d2, P.f s a p * C.f p b)
    {i : Nat} (hi : i < P.d0 * P.d1 * n) :
    vget (flat3 X) i = ∑ j ∈ range (P.d2 * n), tL_pushFlat P n i j * vget (flat2 C) j := by
  have hi2 : i < P.d0 * (P.d1 * n) := by rw [← Nat.mul_assoc]; exact hi
  have hs : i / (P.d1 * n) < P.d0 := Ortho.div_lt_of_lt_mul hi2
  have ha : i / n % P.d1 < P.d1 := Ortho.mod_lt_of_lt_mul (Ortho.div_lt_of_lt_mul hi)
  have hb : i % n < n := Ortho.mod_lt_of_lt_mul hi
  rw [tL_pushFlat_apply P (flat2 C) hb]
  have e : vget (flat3 X) i = X.f (i / (P.d1 * n)) (i / n % P.d1) (i % n) := by
    unfold flat3
    rw [vget_map_range, x0, x1, x2, if_pos hi]
  rw [e, hX _ _ _ hs ha hb]
  refine sum_congr rfl fun p hp => ?_
  have := vget_flat2 C (i := p) (j := i % n) (by rw [c0]; exact mem_range.1 hp) (by rw [c1]; exact hb)
  rw [c1] at this
  rw [this]

/-- `flat2 (Qᴴ · Z) = tL_pullFlat · flat3 Z` -/
theorem tL_flat2_pull {Q : T3 𝕜} {n : Nat} {Z : T3 𝕜} (z0 : Z.d0 = Q.d0) (z1 : Z.d1 = Q.d1) (z2 : Z.d2 = n)
    {C : Mat 𝕜} (c0 : C.m = Q.d2) (c1 : C.n = n)
    (hC : ∀ p b, p < Q.d2 → b < n → C.f p b = ∑ s ∈ range Q.d0, ∑ a ∈ range Q.d1, star (Q.f s a p) * Z.f s a b)
    {i : Nat} (hi : i < Q.d2 * n) :
    vget (flat2 C) i = ∑ j ∈ range (Q.d0 * Q.d1 * n), tL_pullFlat Q n i j * vget (flat3 Z) j := by
  have hp : i / n < Q.d2 := Ortho.div_lt_of_lt_mul hi
  have hb : i % n < n := Ortho.mod_lt_of_lt_mul hi
  rw [tL_pullFlat_apply Q (flat3 Z) hb]
  have e : vget (flat2 C) i = C.f (i / n) (i % n) := by
    unfold flat2
    rw [vget_map_range, c0, c1, if_pos hi]
  rw [e, hC _ _ hp hb]
  refine sum_congr rfl fun s hs => sum_congr rfl fun a ha => ?_
  have := vget_flat3 Z (i := s) (j := a) (k := i % n) (by rw [z0]; exact mem_range.1 hs)
    (by rw [z1]; exact mem_range.1 ha) (by rw [z2]; exact hb)
  rw [z1, z2] at this
  rw [this]

/-! ## the two intertwining relations -/

/-- `H_eff (P · C) = P · K_eff C` -/
theorem tL_push_intertwine {BL BR : T3 𝕜} {W : T4 𝕜} {P BLn : T3 𝕜} {n : Nat}
    (hP : LeftIso P) (hsq : P.d0 * P.d1 = P.d2)
    (hF : LocalFits BL BR W P.d0 P.d1 n) (hBLn : Op.opStepLeft P P W BL = .ok BLn) (u : List 𝕜) {i : Nat}
    (hi : i < P.d0 * P.d1 * n) :
    vget (localHFun BL BR W P.d0 P.d1 n (mvecR (P.d0 * P.d1 * n) (P.d2 * n) (tL_pushFlat P n) u)) i =
      ∑ j ∈ range (P.d2 * n), tL_pushFlat P n i j * vget (localBondFun BLn BR P.d2 n u) j := by
  obtain ⟨hFB, hproj⟩ := bond_proj_left hF hBLn
  have hi2 : i < P.d0 * (P.d1 * n) := by rw [← Nat.mul_assoc]; exact hi
  have hs : i / (P.d1 * n) < P.d0 := Ortho.div_lt_of_lt_mul hi2
  have ha : i / n % P.d1 < P.d1 := Ortho.mod_lt_of_lt_mul (Ortho.div_lt_of_lt_mul hi)
  have hb : i % n < n := Ortho.mod_lt_of_lt_mul hi
  obtain ⟨KX, hKX, eK, k0, k1⟩ := localBondFun_eq hFB u
  obtain ⟨TG, hTG, eG, g0, g1, g2⟩ := localHFun_eq hF (mvecR (P.d0 * P.d1 * n) (P.d2 * n) (tL_pushFlat P n) u)
  obtain ⟨T, hT, t0, t1, t2, _⟩ := applyLocal_ker hF (A := mulRight P (unflat2 u P.d2 n)) rfl rfl rfl
  have hcong := applyLocal_congr hF (B := mulRight P (unflat2 u P.d2 n))
    (A := unflat3 (mvecR (P.d0 * P.d1 * n) (P.d2 * n) (tL_pushFlat P n) u) P.d0 P.d1 n) rfl rfl rfl rfl rfl rfl
    (fun s a b hs ha hb => by
      rw [unflat3_f, vget_mvecR _ _ (idx3_lt hs ha hb),
        tL_pushFlat_apply P u (Ortho.mod_lt_of_lt_mul (idx3_lt hs ha hb)), idx3_div0 ha hb, idx3_div1 ha hb, idx3_mod hb]
      show _ = ∑ p ∈ range P.d2, P.f s a p * (unflat2 u P.d2 n).f p b
      exact sum_congr rfl fun p _ => by rw [unflat2_f]) hTG hT
  rw [eG, eK, tL_pushFlat_apply P (flat2 KX) hb]
  have e1 : vget (flat3 TG) i = TG.f (i / (P.d1 * n)) (i / n % P.d1) (i % n) := by
    unfold flat3
    rw [vget_map_range, g0, g1, g2, if_pos hi]
  rw [e1, hcong _ _ _ hs ha hb]
  have e2 : ∀ p ∈ range P.d2, P.f (i / (P.d1 * n)) (i / n % P.d1) p * vget (flat2 KX) (p * n + i % n) =
      P.f (i / (P.d1 * n)) (i / n % P.d1) p *
        ∑ s' ∈ range P.d0, ∑ a' ∈ range P.d1, star (P.f s' a' p) * T.f s' a' (i % n) := by
    intro p hp
    have := vget_flat2 KX (i := p) (j := i % n) (by rw [k0]; exact mem_range.1 hp) (by rw [k1]; exact hb)
    rw [k1] at this
    rw [this, hproj (unflat2 u P.d2 n) KX T rfl rfl hKX hT p (i % n) (mem_range.1 hp) hb]
  rw [sum_congr rfl e2, tL_left_resolve hP hsq hs ha (fun s' a' => T.f s' a' (i % n))]

/-- `K_eff (Qᴴ · Z) = Qᴴ · H_eff Z` -/
theorem tL_pull_intertwine {BL BR : T3 𝕜} {W : T4 𝕜} {Q BLn : T3 𝕜} {n : Nat}
    (hQ : LeftIso Q) (hsq : Q.d0 * Q.d1 = Q.d2)
    (hF : LocalFits BL BR W Q.d0 Q.d1 n) (hBLn : Op.opStepLeft Q Q W BL = .ok BLn) (u : List 𝕜) {i : Nat}
    (hi : i < Q.d2 * n) :
    vget (localBondFun BLn BR Q.d2 n (mvecR (Q.d2 * n) (Q.d0 * Q.d1 * n) (tL_pullFlat Q n) u)) i =
      ∑ j ∈ range (Q.d0 * Q.d1 * n), tL_pullFlat Q n i j * vget (localHFun BL BR W Q.d0 Q.d1 n u) j := by
  obtain ⟨hFB, hproj⟩ := bond_proj_left hF hBLn
  have hp : i / n < Q.d2 := Ortho.div_lt_of_lt_mul hi
  have hb : i % n < n := Ortho.mod_lt_of_lt_mul hi
  obtain ⟨TZ, hTZ, eZ, z0, z1, z2⟩ := localHFun_eq hF u
  obtain ⟨KX, hKX, eK, k0, k1⟩ := localBondFun_eq hFB (mvecR (Q.d2 * n) (Q.d0 * Q.d1 * n) (tL_pullFlat Q n) u)
  obtain ⟨T, hT, t0, t1, t2, _⟩ := applyLocal_ker hF
    (A := mulRight Q (unflat2 (mvecR (Q.d2 * n) (Q.d0 * Q.d1 * n) (tL_pullFlat Q n) u) Q.d2 n)) rfl rfl rfl
  have hcong := applyLocal_congr hF (B := unflat3 u Q.d0 Q.d1 n)
    (A := mulRight Q (unflat2 (mvecR (Q.d2 * n) (Q.d0 * Q.d1 * n) (tL_pullFlat Q n) u) Q.d2 n)) rfl rfl rfl rfl rfl rfl
    (fun s a b hs ha hb' => by
      show ∑ p ∈ range Q.d2,
        Q.f s a p * (unflat2 (mvecR (Q.d2 * n) (Q.d0 * Q.d1 * n) (tL_pullFlat Q n) u) Q.d2 n).f p b = _
      have e : ∀ p ∈ range Q.d2,
          Q.f s a p * (unflat2 (mvecR (Q.d2 * n) (Q.d0 * Q.d1 * n) (tL_pullFlat Q n) u) Q.d2 n).f p b =
          Q.f s a p * ∑ s' ∈ range Q.d0, ∑ a' ∈ range Q.d1,
            star (Q.f s' a' p) * vget u ((s' * Q.d1 + a') * n + b) := by
        intro p hp'
        rw [unflat2_f, vget_mvecR _ _ (Ortho.fused_lt (mem_range.1 hp') hb'),
          tL_pullFlat_apply Q u (Ortho.mod_lt_of_lt_mul (Ortho.fused_lt (mem_range.1 hp') hb')),
          Ortho.fused_div hb', Ortho.fused_mod hb']
      rw [sum_congr rfl e, tL_left_resolve hQ hsq hs ha (fun s' a' => vget u ((s' * Q.d1 + a') * n + b)), unflat3_f])
    hT hTZ
  rw [eK, eZ, tL_pullFlat_apply Q (flat3 TZ) hb]
  have e1 : vget (flat2 KX) i = KX.f (i / n) (i % n) := by
    unfold flat2
    rw [vget_map_range, k0, k1, if_pos hi]
  rw [e1, hproj (unflat2 (mvecR (Q.d2 * n) (Q.d0 * Q.d1 * n) (tL_pullFlat Q n) u) Q.d2 n) KX T rfl rfl hKX hT _ _ hp hb]
  refine sum_congr rfl fun s hs => sum_congr rfl fun a ha => ?_
  have := vget_flat3 TZ (i := s) (j := a) (k := i % n) (by rw [z0]; exact mem_range.1 hs)
    (by rw [z1]; exact mem_range.1 ha) (by rw [z2]; exact hb)
  rw [z1, z2] at this
  rw [this, hcong s a (i % n) (mem_range.1 hs) (mem_range.1 ha) hb]

end helpers

variable {𝕜 : Type} [RCLike 𝕜] [DecidableEq 𝕜]

/-- a square left isometry is unitary: its rows are orthonormal as well -/
theorem sq_left_unitary {Q : T3 𝕜} (hQ : LeftIso Q) (hsq : Q.d0 * Q.d1 = Q.d2) {s a s' a' : Nat}
    (hs : s < Q.d0) (ha : a < Q.d1) (hs' : s' < Q.d0) (ha' : a' < Q.d1) :
    ∑ p ∈ range Q.d2, Q.f s a p * star (Q.f s' a' p) = if s = s' ∧ a = a' then 1 else 0 :=
  tL_sq_left_unitary_aux hQ hsq hs ha hs' ha'

/-- **T1 (QR of the evolved centre tensor, forward sweep).**  `Y = Q · Cy`; a spectral relation `Y = E(γ H_eff) X` of the
one-site operator is a spectral relation `Cy = E(γ K_eff) Cx` of the zero-site operator, with `X = Q · Cx`. -/
theorem spec_leftQR {BL BR : T3 𝕜} {W : T4 𝕜} {Q BLn : T3 𝕜} {n : Nat} {E : 𝕜 → 𝕜} {γ : 𝕜}
    (hQ : LeftIso Q) (hsq : Q.d0 * Q.d1 = Q.d2)
    (hF : LocalFits BL BR W Q.d0 Q.d1 n) (hBLn : Op.opStepLeft Q Q W BL = .ok BLn)
    {X Y : T3 𝕜} (x0 : X.d0 = Q.d0) (x1 : X.d1 = Q.d1) (x2 : X.d2 = n)
    (y0 : Y.d0 = Q.d0) (y1 : Y.d1 = Q.d1) (y2 : Y.d2 = n)
    {Cy : Mat 𝕜} (c0 : Cy.m = Q.d2) (c1 : Cy.n = n)
    (hY : ∀ s a b, s < Q.d0 → a < Q.d1 → b < n → Y.f s a b = ∑ p ∈ range Q.d2, Q.f s a p * Cy.f p b)
    (h : Spec (Q.d0 * Q.d1 * n) (localHFun BL BR W Q.d0 Q.d1 n) E γ (flat3 X) (flat3 Y)) :
    ∃ Cx : Mat 𝕜, Cx.m = Q.d2 ∧ Cx.n = n ∧
      (∀ s a b, s < Q.d0 → a < Q.d1 → b < n → X.f s a b = ∑ p ∈ range Q.d2, Q.f s a p * Cx.f p b) ∧
      Spec (Q.d2 * n) (localBondFun BLn BR Q.d2 n) E γ (flat2 Cx) (flat2 Cy) := by
  refine ⟨⟨Q.d2, n, fun p b => ∑ s ∈ range Q.d0, ∑ a ∈ range Q.d1, star (Q.f s a p) * X.f s a b⟩, rfl, rfl, ?_, ?_⟩
  · intro s a b hs ha _
    exact (tL_left_resolve hQ hsq hs ha (fun s' a' => X.f s' a' b)).symm
  · refine spec_transport (G := tL_pullFlat Q n) h (fun u _ _ hi => tL_pull_intertwine hQ hsq hF hBLn u hi)
      (fun _ hi => tL_flat2_pull x0 x1 x2 rfl rfl (fun _ _ _ _ => rfl) hi)
      (fun _ hi => tL_flat2_pull y0 y1 y2 c0 c1 (fun p b hp hb => ?_) hi)
    have e : ∀ s ∈ range Q.d0, ∀ a ∈ range Q.d1, star (Q.f s a p) * Y.f s a b =
        star (Q.f s a p) * ∑ p' ∈ range Q.d2, Q.f s a p' * Cy.f p' b := by
      intro s hs a ha
      rw [hY s a b (mem_range.1 hs) (mem_range.1 ha) hb]
    rw [sum_congr rfl fun s hs => sum_congr rfl fun a ha => e s hs a ha]
    exact (tL_left_resolve' hQ hp (fun p' => Cy.f p' b)).symm

/-- **T4 (bond matrix pushed into a square left isometry, backward sweep).**  `X = P · Cx`, `Y = P · Cy`; a spectral relation
`Cy = E(γ K_eff) Cx` of the zero-site operator between `BLn = opStepLeft P P W BL` and `BR` is a spectral relation
`Y = E(γ H_eff) X` of the one-site operator between `BL` and `BR`. -/
theorem spec_leftPush {BL BR : T3 𝕜} {W : T4 𝕜} {P BLn : T3 𝕜} {n : Nat} {E : 𝕜 → 𝕜} {γ : 𝕜}
    (hP : LeftIso P) (hsq : P.d0 * P.d1 = P.d2)
    (hF : LocalFits BL BR W P.d0 P.d1 n) (hBLn : Op.opStepLeft P P W BL = .ok BLn)
    {Cx Cy : Mat 𝕜} (cx0 : Cx.m = P.d2) (cx1 : Cx.n = n) (cy0 : Cy.m = P.d2) (cy1 : Cy.n = n)
    {X Y : T3 𝕜} (x0 : X.d0 = P.d0) (x1 : X.d1 = P.d1) (x2 : X.d2 = n)
    (y0 : Y.d0 = P.d0) (y1 : Y.d1 = P.d1) (y2 : Y.d2 = n)
    (hX : ∀ s a b, s < P.d0 → a < P.d1 → b < n → X.f s a b = ∑ p ∈ range P.d2, P.f s a p * Cx.f p b)
    (hY : ∀ s a b, s < P.d0 → a < P.d1 → b < n → Y.f s a b = ∑ p ∈ range P.d2, P.f s a p * Cy.f p b)
    (h : Spec (P.d2 * n) (localBondFun BLn BR P.d2 n) E γ (flat2 Cx) (flat2 Cy)) :
    Spec (P.d0 * P.d1 * n) (localHFun BL BR W P.d0 P.d1 n) E γ (flat3 X) (flat3 Y) :=
  spec_transport (G := tL_pushFlat P n) h (fun u _ _ hi => tL_push_intertwine hP hsq hF hBLn u hi)
    (fun _ hi => tL_flat3_push x0 x1 x2 cx0 cx1 hX hi) (fun _ hi => tL_flat3_push y0 y1 y2 cy0 cy1 hY hi)

end Ptn.Evo

import PtnModel.Proofs.EvoKrylov
import PtnModel.Proofs.EnvStep
import PtnModel.Proofs.OrthoBasic
import PtnModel.Model.Evolution
/-!
# `reshape(-1)` / `reshape(shape)` of the local problems, and the local maps as matrices

* `flat3`, `unflat3`, `flat2`, `unflat2` entry by entry; sums over the flat index are triple / double sums;
* `frob3`, `inner3`, `frob2`, `inner2`: squared Frobenius norm and inner product of site tensors / bond matrices, and
  their flat forms `sqNorm (flat3 A)`, `vdot n (flat3 B) (flat3 A)`;
* `LocalFits`, `BondFits`: the dimension checks of `apply_local_hamiltonian` / `apply_local_bond_contraction` pass and
  the output has the input shape;
* `actsAs_localHFun`, `actsAs_localBondFun`: the local maps are linear (`ActsAs`) with explicit kernels.
-/
set_option linter.unusedSectionVars false

namespace Ptn.Evo
open Ptn Ptn.Krylov Finset

/-! ## index arithmetic -/

theorem idx3_lt {i j k d0 d1 d2 : Nat} (hi : i < d0) (hj : j < d1) (hk : k < d2) : (i * d1 + j) * d2 + k < d0 * d1 * d2 :=
  Ortho.fused_lt (Ortho.fused_lt hi hj) hk

theorem idx3_div0 {i j k d1 d2 : Nat} (hj : j < d1) (hk : k < d2) : ((i * d1 + j) * d2 + k) / (d1 * d2) = i := by
  rw [Nat.mul_comm d1 d2, ← Nat.div_div_eq_div_mul, Ortho.fused_div hk, Ortho.fused_div hj]

theorem idx3_div1 {i j k d1 d2 : Nat} (hj : j < d1) (hk : k < d2) : ((i * d1 + j) * d2 + k) / d2 % d1 = j := by
  rw [Ortho.fused_div hk, Ortho.fused_mod hj]

theorem idx3_mod {i j k d1 d2 : Nat} (hk : k < d2) : ((i * d1 + j) * d2 + k) % d2 = k := Ortho.fused_mod hk

/-- a sum over the flat index of a `d0 × d1 × d2` array is a triple sum -/
theorem sum_flat3 {β : Type} [AddCommMonoid β] (d0 d1 d2 : Nat) (g : Nat → β) :
    ∑ x ∈ range (d0 * d1 * d2), g x =
      ∑ i ∈ range d0, ∑ j ∈ range d1, ∑ k ∈ range d2, g ((i * d1 + j) * d2 + k) := by
  rw [Ortho.sum_fused (d0 * d1) d2, Ortho.sum_fused d0 d1]

section generic
variable {α : Type} [OfNat α 0]

@[simp] theorem length_flat3 (A : T3 α) : (flat3 A).length = A.d0 * A.d1 * A.d2 := by simp [flat3]
@[simp] theorem length_flat2 (C : Mat α) : (flat2 C).length = C.m * C.n := by simp [flat2]

theorem vget_flat3 (A : T3 α) {i j k : Nat} (hi : i < A.d0) (hj : j < A.d1) (hk : k < A.d2) :
    vget (flat3 A) ((i * A.d1 + j) * A.d2 + k) = A.f i j k := by
  unfold flat3
  rw [vget_map_range, if_pos (idx3_lt hi hj hk), idx3_div0 hj hk, idx3_div1 hj hk, idx3_mod hk]

theorem vget_flat2 (C : Mat α) {i j : Nat} (hi : i < C.m) (hj : j < C.n) :
    vget (flat2 C) (i * C.n + j) = C.f i j := by
  unfold flat2
  rw [vget_map_range, if_pos (Ortho.fused_lt hi hj), Ortho.fused_div hj, Ortho.fused_mod hj]

theorem unflat3_f (x : List α) (d0 d1 d2 i j k : Nat) :
    (unflat3 x d0 d1 d2).f i j k = vget x ((i * d1 + j) * d2 + k) := by
  unfold unflat3 vget; simp

theorem unflat2_f (x : List α) (m n i j : Nat) : (unflat2 x m n).f i j = vget x (i * n + j) := by
  unfold unflat2 vget; simp

@[simp] theorem unflat3_d0 (x : List α) (d0 d1 d2 : Nat) : (unflat3 x d0 d1 d2).d0 = d0 := rfl
@[simp] theorem unflat3_d1 (x : List α) (d0 d1 d2 : Nat) : (unflat3 x d0 d1 d2).d1 = d1 := rfl
@[simp] theorem unflat3_d2 (x : List α) (d0 d1 d2 : Nat) : (unflat3 x d0 d1 d2).d2 = d2 := rfl
@[simp] theorem unflat2_m (x : List α) (m n : Nat) : (unflat2 x m n).m = m := rfl
@[simp] theorem unflat2_n (x : List α) (m n : Nat) : (unflat2 x m n).n = n := rfl

/-- `x.reshape(shape).reshape(-1) = x` for a vector of the right length -/
theorem flat3_unflat3 {x : List α} {d0 d1 d2 : Nat} (hx : x.length = d0 * d1 * d2) :
    flat3 (unflat3 x d0 d1 d2) = x := by
  apply List.ext_getElem
  · simp [hx]
  · intro n h1 h2
    have hn : n < d0 * d1 * d2 := by simpa using h1
    simp only [flat3, unflat3_d0, unflat3_d1, unflat3_d2, List.getElem_map, List.getElem_range, unflat3_f]
    have hd2 : 0 < d2 := by
      rcases Nat.eq_zero_or_pos d2 with h | h
      · rw [h] at hn; simp at hn
      · exact h
    have hd1 : 0 < d1 := by
      rcases Nat.eq_zero_or_pos d1 with h | h
      · rw [h] at hn; simp at hn
      · exact h
    have e : (n / (d1 * d2) * d1 + n / d2 % d1) * d2 + n % d2 = n := by
      have h1 : n / (d1 * d2) = n / d2 / d1 := by rw [Nat.mul_comm, Nat.div_div_eq_div_mul]
      rw [h1]
      have := Nat.div_add_mod (n / d2) d1
      have := Nat.div_add_mod n d2
      calc (n / d2 / d1 * d1 + n / d2 % d1) * d2 + n % d2 = (n / d2) * d2 + n % d2 := by
            rw [Nat.mul_comm (n / d2 / d1) d1, Nat.div_add_mod]
        _ = n := by rw [Nat.mul_comm, Nat.div_add_mod]
    rw [e]
    unfold vget
    simp [List.getD_eq_getElem?_getD, h2]

theorem flat2_unflat2 {x : List α} {m n : Nat} (hx : x.length = m * n) : flat2 (unflat2 x m n) = x := by
  apply List.ext_getElem
  · simp [hx]
  · intro p h1 h2
    simp only [flat2, unflat2_m, unflat2_n, List.getElem_map, List.getElem_range, unflat2_f]
    have e : p / n * n + p % n = p := by rw [Nat.mul_comm, Nat.div_add_mod]
    rw [e]
    unfold vget
    simp [List.getD_eq_getElem?_getD, h2]

end generic

variable {𝕜 : Type} [RCLike 𝕜]
local notation "conj" => starRingEnd 𝕜

/-! ## Frobenius norm and inner product of tensors -/

/-- squared Frobenius norm of a site tensor -/
noncomputable def frob3 (A : T3 𝕜) : ℝ := ∑ s ∈ range A.d0, ∑ a ∈ range A.d1, ∑ b ∈ range A.d2, ‖A.f s a b‖ ^ 2

/-- `⟨B, A⟩ = Σ conj(B[s,a,b]) A[s,a,b]` (first argument conjugated), over the shape of `A` -/
noncomputable def inner3 (B A : T3 𝕜) : 𝕜 :=
  ∑ s ∈ range A.d0, ∑ a ∈ range A.d1, ∑ b ∈ range A.d2, conj (B.f s a b) * A.f s a b

/-- squared Frobenius norm of a bond matrix -/
noncomputable def frob2 (C : Mat 𝕜) : ℝ := ∑ a ∈ range C.m, ∑ b ∈ range C.n, ‖C.f a b‖ ^ 2

noncomputable def inner2 (B C : Mat 𝕜) : 𝕜 := ∑ a ∈ range C.m, ∑ b ∈ range C.n, conj (B.f a b) * C.f a b

theorem sqNorm_flat3 (A : T3 𝕜) : sqNorm (flat3 A) = frob3 A := by
  rw [sqNorm_eq_sum, length_flat3, sum_flat3, frob3]
  refine sum_congr rfl fun i hi => sum_congr rfl fun j hj => sum_congr rfl fun k hk => ?_
  rw [vget_flat3 A (mem_range.1 hi) (mem_range.1 hj) (mem_range.1 hk)]

theorem sqNorm_flat2 (C : Mat 𝕜) : sqNorm (flat2 C) = frob2 C := by
  rw [sqNorm_eq_sum, length_flat2, Ortho.sum_fused, frob2]
  refine sum_congr rfl fun i hi => sum_congr rfl fun j hj => ?_
  rw [vget_flat2 C (mem_range.1 hi) (mem_range.1 hj)]

theorem vdot_flat3 {B A : T3 𝕜} (h0 : B.d0 = A.d0) (h1 : B.d1 = A.d1) (h2 : B.d2 = A.d2) :
    vdot (A.d0 * A.d1 * A.d2) (flat3 B) (flat3 A) = inner3 B A := by
  rw [vdot_eq_sum, sum_flat3, inner3]
  refine sum_congr rfl fun i hi => sum_congr rfl fun j hj => sum_congr rfl fun k hk => ?_
  rw [vget_flat3 A (mem_range.1 hi) (mem_range.1 hj) (mem_range.1 hk)]
  have := vget_flat3 B (i := i) (j := j) (k := k) (by rw [h0]; exact mem_range.1 hi) (by rw [h1]; exact mem_range.1 hj)
    (by rw [h2]; exact mem_range.1 hk)
  rw [h1, h2] at this
  rw [this]

theorem vdot_flat2 {B C : Mat 𝕜} (h0 : B.m = C.m) (h1 : B.n = C.n) :
    vdot (C.m * C.n) (flat2 B) (flat2 C) = inner2 B C := by
  rw [vdot_eq_sum, Ortho.sum_fused, inner2]
  refine sum_congr rfl fun i hi => sum_congr rfl fun j hj => ?_
  rw [vget_flat2 C (mem_range.1 hi) (mem_range.1 hj)]
  have := vget_flat2 B (i := i) (j := j) (by rw [h0]; exact mem_range.1 hi) (by rw [h1]; exact mem_range.1 hj)
  rw [h1] at this
  rw [this]

theorem inner3_self (A : T3 𝕜) : inner3 A A = ((frob3 A : ℝ) : 𝕜) := by
  unfold inner3 frob3
  push_cast
  refine sum_congr rfl fun i _ => sum_congr rfl fun j _ => sum_congr rfl fun k _ => ?_
  rw [mul_comm, RCLike.mul_conj]

theorem inner2_self (C : Mat 𝕜) : inner2 C C = ((frob2 C : ℝ) : 𝕜) := by
  unfold inner2 frob2
  push_cast
  refine sum_congr rfl fun i _ => sum_congr rfl fun j _ => ?_
  rw [mul_comm, RCLike.mul_conj]

/-- tensors that agree on in-range indices have the same flat vector -/
theorem flat3_congr {X Y : T3 𝕜} (h0 : X.d0 = Y.d0) (h1 : X.d1 = Y.d1) (h2 : X.d2 = Y.d2)
    (hf : ∀ s a b, s < X.d0 → a < X.d1 → b < X.d2 → X.f s a b = Y.f s a b) : flat3 X = flat3 Y := by
  unfold flat3
  rw [h0, h1, h2]
  apply List.map_congr_left
  intro k hk
  have hk' : k < Y.d0 * Y.d1 * Y.d2 := List.mem_range.1 hk
  have hk2 : k < Y.d0 * (Y.d1 * Y.d2) := by rw [← Nat.mul_assoc]; exact hk'
  apply hf
  · rw [h0]; exact Ortho.div_lt_of_lt_mul hk2
  · rw [h1]
    have : k / Y.d2 < Y.d0 * Y.d1 := Ortho.div_lt_of_lt_mul hk'
    exact Ortho.mod_lt_of_lt_mul this
  · rw [h2]; exact Ortho.mod_lt_of_lt_mul hk'

theorem flat2_congr {X Y : Mat 𝕜} (h0 : X.m = Y.m) (h1 : X.n = Y.n)
    (hf : ∀ a b, a < X.m → b < X.n → X.f a b = Y.f a b) : flat2 X = flat2 Y := by
  unfold flat2
  rw [h0, h1]
  apply List.map_congr_left
  intro k hk
  have hk' : k < Y.m * Y.n := List.mem_range.1 hk
  apply hf
  · rw [h0]; exact Ortho.div_lt_of_lt_mul hk'
  · rw [h1]; exact Ortho.mod_lt_of_lt_mul hk'

theorem flat3_tab (X : T3 𝕜) : flat3 X.tab = flat3 X :=
  flat3_congr rfl rfl rfl fun _ _ _ hs ha hb => Env.t3_tab_f X hs ha hb

theorem flat2_tab (X : Mat 𝕜) : flat2 X.tab = flat2 X :=
  flat2_congr rfl rfl fun _ _ ha hb => Env.mat_tab_f X ha hb

/-! ## the local maps -/

/-- the dimension checks of `apply_local_hamiltonian(L, R, W, ·)` pass on tensors of shape `(d0, d1, d2)` and the
output has the same shape -/
structure LocalFits (L R : T3 𝕜) (W : T4 𝕜) (d0 d1 d2 : Nat) : Prop where
  r0 : R.d0 = d2
  r2 : R.d2 = d2
  w0 : W.d0 = d0
  w1 : W.d1 = d0
  w3 : W.d3 = R.d1
  l0 : L.d0 = d1
  l2 : L.d2 = d1
  w2 : W.d2 = L.d1

/-- kernel of the one-site map: `K[(s',a',b'), (s,a,b)] = Σ_{w,w'} W[s',s,w,w'] R[b,w',b'] L[a,w,a']` -/
noncomputable def localKer (L R : T3 𝕜) (W : T4 𝕜) (s' a' b' s a b : Nat) : 𝕜 :=
  ∑ w ∈ range W.d2, ∑ w' ∈ range W.d3, W.f s' s w w' * R.f b w' b' * L.f a w a'

/-- the one-site map as a matrix on flat indices -/
noncomputable def localMat (L R : T3 𝕜) (W : T4 𝕜) (d1 d2 : Nat) (i j : Nat) : 𝕜 :=
  localKer L R W (i / (d1 * d2)) (i / d2 % d1) (i % d2) (j / (d1 * d2)) (j / d2 % d1) (j % d2)

theorem alg_localKer (Sa Sw Ss Sw' Sb : Finset Nat) (W : Nat → Nat → Nat → 𝕜) (A : Nat → Nat → Nat → 𝕜)
    (E : Nat → Nat → 𝕜) (Lf : Nat → Nat → 𝕜) :
    ∑ a ∈ Sa, ∑ w ∈ Sw, (∑ s ∈ Ss, ∑ w' ∈ Sw', W s w w' * ∑ b ∈ Sb, A s a b * E b w') * Lf a w =
    ∑ s ∈ Ss, ∑ a ∈ Sa, ∑ b ∈ Sb, (∑ w ∈ Sw, ∑ w' ∈ Sw', W s w w' * E b w' * Lf a w) * A s a b := by
  simp only [Finset.sum_mul, Finset.mul_sum]
  sum_pull Ss
  sum_pull Sa
  sum_pull Sb
  sum_pull Sw
  sum_pull Sw'
  ring

/-- `apply_local_hamiltonian` entry by entry with the kernel -/
theorem applyLocal_ker {L R : T3 𝕜} {W : T4 𝕜} {d0 d1 d2 : Nat} (hF : LocalFits L R W d0 d1 d2) {A : T3 𝕜}
    (h0 : A.d0 = d0) (h1 : A.d1 = d1) (h2 : A.d2 = d2) :
    ∃ T, Op.applyLocalHamiltonian L R W A = .ok T ∧ T.d0 = d0 ∧ T.d1 = d1 ∧ T.d2 = d2 ∧
      ∀ s' a' b', s' < d0 → a' < d1 → b' < d2 → T.f s' a' b' =
        ∑ s ∈ range d0, ∑ a ∈ range d1, ∑ b ∈ range d2, localKer L R W s' a' b' s a b * A.f s a b := by
  obtain ⟨T, hT, t0, t1, t2, hf⟩ := Env.applyLocalHamiltonian_ok L R W A (by rw [h2, hF.r0]) (by rw [h0, hF.w1])
    hF.w3 (by rw [h1, hF.l0]) hF.w2
  refine ⟨T, hT, t0.trans hF.w0, t1.trans hF.l2, t2.trans hF.r2, ?_⟩
  intro s' a' b' hs' ha' hb'
  rw [hf s' a' b' (by rw [hF.w0]; exact hs') (by rw [hF.l2]; exact ha') (by rw [hF.r2]; exact hb')]
  rw [h1, h2, hF.w1]
  exact alg_localKer (range d1) (range W.d2) (range d0) (range W.d3) (range d2) (fun s w w' => W.f s' s w w')
    A.f (fun b w' => R.f b w' b') (fun a w => L.f a w a')

/-- `localHFun` on a vector of the right length: the flat vector of the result of `apply_local_hamiltonian` -/
theorem localHFun_eq {L R : T3 𝕜} {W : T4 𝕜} {d0 d1 d2 : Nat} (hF : LocalFits L R W d0 d1 d2) (x : List 𝕜) :
    ∃ T, Op.applyLocalHamiltonian L R W (unflat3 x d0 d1 d2) = .ok T ∧ localHFun L R W d0 d1 d2 x = flat3 T ∧
      T.d0 = d0 ∧ T.d1 = d1 ∧ T.d2 = d2 := by
  obtain ⟨T, hT, t0, t1, t2, _⟩ := applyLocal_ker hF (A := unflat3 x d0 d1 d2) rfl rfl rfl
  refine ⟨T, hT, ?_, t0, t1, t2⟩
  unfold localHFun
  rw [hT]

theorem length_localHFun {L R : T3 𝕜} {W : T4 𝕜} {d0 d1 d2 : Nat} (hF : LocalFits L R W d0 d1 d2) (x : List 𝕜) :
    (localHFun L R W d0 d1 d2 x).length = d0 * d1 * d2 := by
  obtain ⟨T, _, e, t0, t1, t2⟩ := localHFun_eq hF x
  rw [e, length_flat3, t0, t1, t2]

/-- the one-site map is linear: it acts as the matrix `localMat` -/
theorem actsAs_localHFun {L R : T3 𝕜} {W : T4 𝕜} {d0 d1 d2 : Nat} (hF : LocalFits L R W d0 d1 d2) :
    ActsAs (d0 * d1 * d2) (localHFun L R W d0 d1 d2) (localMat L R W d1 d2) := by
  intro x _ i hi
  obtain ⟨T, hT, t0, t1, t2, hf⟩ := applyLocal_ker hF (A := unflat3 x d0 d1 d2) rfl rfl rfl
  have e : localHFun L R W d0 d1 d2 x = flat3 T := by unfold localHFun; rw [hT]
  rw [e]
  have hi2 : i < d0 * (d1 * d2) := by rw [← Nat.mul_assoc]; exact hi
  have hs : i / (d1 * d2) < d0 := Ortho.div_lt_of_lt_mul hi2
  have ha : i / d2 % d1 < d1 := Ortho.mod_lt_of_lt_mul (Ortho.div_lt_of_lt_mul hi)
  have hb : i % d2 < d2 := Ortho.mod_lt_of_lt_mul hi
  have hv : vget (flat3 T) i = T.f (i / (d1 * d2)) (i / d2 % d1) (i % d2) := by
    unfold flat3
    rw [vget_map_range, t0, t1, t2, if_pos hi]
  rw [hv, hf _ _ _ hs ha hb, sum_flat3]
  refine sum_congr rfl fun s hs' => sum_congr rfl fun a ha' => sum_congr rfl fun b hb' => ?_
  rw [unflat3_f]
  unfold localMat
  rw [idx3_div0 (mem_range.1 ha') (mem_range.1 hb'), idx3_div1 (mem_range.1 ha') (mem_range.1 hb'),
    idx3_mod (mem_range.1 hb')]

/-! ### the zero-site (bond) map -/

/-- the dimension checks of `apply_local_bond_contraction(L, R, ·)` pass on `m × n` matrices and the output is `m × n` -/
structure BondFits (L R : T3 𝕜) (m n : Nat) : Prop where
  r0 : R.d0 = n
  r2 : R.d2 = n
  l0 : L.d0 = m
  l2 : L.d2 = m
  w : L.d1 = R.d1

noncomputable def bondKer (L R : T3 𝕜) (a' b' a b : Nat) : 𝕜 := ∑ w ∈ range L.d1, L.f a w a' * R.f b w b'

noncomputable def bondMat (L R : T3 𝕜) (n : Nat) (i j : Nat) : 𝕜 := bondKer L R (i / n) (i % n) (j / n) (j % n)

theorem alg_bondKer (Sa Sw Sb : Finset Nat) (C : Nat → Nat → 𝕜) (E : Nat → Nat → 𝕜) (Lf : Nat → Nat → 𝕜) :
    ∑ a ∈ Sa, ∑ w ∈ Sw, Lf a w * ∑ b ∈ Sb, C a b * E b w =
    ∑ a ∈ Sa, ∑ b ∈ Sb, (∑ w ∈ Sw, Lf a w * E b w) * C a b := by
  simp only [Finset.sum_mul, Finset.mul_sum]
  sum_pull Sa
  sum_pull Sb
  sum_pull Sw
  ring

theorem applyBond_ker {L R : T3 𝕜} {m n : Nat} (hF : BondFits L R m n) {C : Mat 𝕜} (h0 : C.m = m) (h1 : C.n = n) :
    ∃ T, Op.applyLocalBondContraction L R C = .ok T ∧ T.m = m ∧ T.n = n ∧
      ∀ a' b', a' < m → b' < n → T.f a' b' = ∑ a ∈ range m, ∑ b ∈ range n, bondKer L R a' b' a b * C.f a b := by
  obtain ⟨T, hT, t0, t1, hf⟩ := Env.applyLocalBondContraction_ok L R C (by rw [h1, hF.r0]) (by rw [h0, hF.l0]) hF.w
  refine ⟨T, hT, t0.trans hF.l2, t1.trans hF.r2, ?_⟩
  intro a' b' ha' hb'
  rw [hf a' b' (by rw [hF.l2]; exact ha') (by rw [hF.r2]; exact hb'), hF.l0, h1]
  exact alg_bondKer (range m) (range L.d1) (range n) C.f (fun b w => R.f b w b') (fun a w => L.f a w a')

theorem localBondFun_eq {L R : T3 𝕜} {m n : Nat} (hF : BondFits L R m n) (x : List 𝕜) :
    ∃ T, Op.applyLocalBondContraction L R (unflat2 x m n) = .ok T ∧ localBondFun L R m n x = flat2 T ∧
      T.m = m ∧ T.n = n := by
  obtain ⟨T, hT, t0, t1, _⟩ := applyBond_ker hF (C := unflat2 x m n) rfl rfl
  refine ⟨T, hT, ?_, t0, t1⟩
  unfold localBondFun
  rw [hT]

theorem length_localBondFun {L R : T3 𝕜} {m n : Nat} (hF : BondFits L R m n) (x : List 𝕜) :
    (localBondFun L R m n x).length = m * n := by
  obtain ⟨T, _, e, t0, t1⟩ := localBondFun_eq hF x
  rw [e, length_flat2, t0, t1]

theorem actsAs_localBondFun {L R : T3 𝕜} {m n : Nat} (hF : BondFits L R m n) :
    ActsAs (m * n) (localBondFun L R m n) (bondMat L R n) := by
  intro x _ i hi
  obtain ⟨T, hT, t0, t1, hf⟩ := applyBond_ker hF (C := unflat2 x m n) rfl rfl
  have e : localBondFun L R m n x = flat2 T := by unfold localBondFun; rw [hT]
  rw [e]
  have ha : i / n < m := Ortho.div_lt_of_lt_mul hi
  have hb : i % n < n := Ortho.mod_lt_of_lt_mul hi
  have hv : vget (flat2 T) i = T.f (i / n) (i % n) := by
    unfold flat2
    rw [vget_map_range, t0, t1, if_pos hi]
  rw [hv, hf _ _ ha hb, Ortho.sum_fused]
  refine sum_congr rfl fun a _ => sum_congr rfl fun b hb' => ?_
  rw [unflat2_f]
  unfold bondMat
  rw [Ortho.fused_div (mem_range.1 hb'), Ortho.fused_mod (mem_range.1 hb')]

end Ptn.Evo

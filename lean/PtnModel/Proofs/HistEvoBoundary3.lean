import PtnModel.Proofs.HistEvoBoundary2
import PtnModel.Proofs.HistEvoTwo
/-!
# C02: DMRG never rewrites the trailing bond charges

The sweeps of both DMRG drivers rewrite `qD[i+1]` (`i+1 ≤ L-1`, left-moving steps and two-site updates), `qD[i]`
(`1 ≤ i ≤ L-1`, right-moving steps) and finally `qD[0]` (`dmrgNormalizeFirst`): `qD[L]` is only touched by the
right-orthonormalization of the prologue, which keeps it when its norm factor is non-zero.
-/
set_option linter.unusedSectionVars false
namespace Ptn.HistWf
open Ptn Ptn.Evo Ptn.Krylov Ptn.Ortho Ptn.BondOps Ptn.Dense
variable {𝕜 : Type} [RCLike 𝕜] [DecidableEq 𝕜]
variable {k : EvoKernels 𝕜 ℝ} {H : MPO 𝕜} {qd : List Int} {numiter : Nat} {tol : ℝ}

/-- the size of the charge array and the trailing charges of a sweep state -/
def LastKept (L : Nat) (s0 s : Sweep 𝕜) : Prop := s.qD.size = s0.qD.size ∧ getQ s L = getQ s0 L

theorem lastKept_set {L : Nat} {s0 s : Sweep 𝕜} (h : LastKept L s0 s) {j : Nat} (hjL : j ≠ L) (q : List Int)
    (A : Array (T3 𝕜)) (BL BR : Array (T3 𝕜)) : LastKept L s0 (⟨A, s.qD.setIfInBounds j q, BL, BR⟩ : Sweep 𝕜) := by
  obtain ⟨h1, h3⟩ := h
  refine ⟨by simpa using h1, ?_⟩
  show (s.qD.setIfInBounds j q).getD L [] = _
  rw [getD_setIfInBounds_ne _ _ _ (fun e => hjL e.symm)]; exact h3

theorem dmrgNormalizeFirst_lk {L : Nat} (hL : 0 < L) {s0 s s' : Sweep 𝕜} (hb : LastKept L s0 s)
    (h : dmrgNormalizeFirst k qd s = .ok s') : LastKept L s0 s' := by
  obtain ⟨A0, X, qb, -, rfl⟩ := dmrgNormalizeFirst_unfold h
  exact lastKept_set (j := 0) hb (by omega) qb _ _ _

theorem dmrg1Sweep_lk {L : Nat} (hL : L = H.A.length) (hL0 : 0 < L) {s0 : Sweep 𝕜} {se se' : Sweep 𝕜 × List ℝ}
    (hb : LastKept L s0 se.1) (h : dmrg1Sweep k H qd numiter se = .ok se') : LastKept L s0 se'.1 := by
  obtain ⟨s1, e1, s2, e2, s3, h1, h2, h3, rfl⟩ := dmrg1Sweep_unfold h
  have hl : LastKept L s0 (s1, e1).1 :=
    foldIdx_inv (dmrg1Left k H qd numiter) (fun (t : Sweep 𝕜 × ℝ) => LastKept L s0 t.1) (fun i => i + 1 < L)
      (fun x t t' hx ht ht' => by
        obtain ⟨en, Aopt, Ai, An, qb, BLn, -, -, -, rfl⟩ := dmrg1Left_unfold ht'
        exact lastKept_set (j := x + 1) ht (by omega) qb _ _ _)
      _ (fun x hx => by have := List.mem_range.1 hx; omega) _ _ hb h1
  have hr : LastKept L s0 (s2, e2).1 :=
    foldIdx_inv (dmrg1Right k H qd numiter) (fun (t : Sweep 𝕜 × ℝ) => LastKept L s0 t.1) (fun i => i < L)
      (fun x t t' hx ht ht' => by
        obtain ⟨en, Aopt, Ai, Ap, qb, BRn, -, -, -, rfl⟩ := dmrg1Right_unfold ht'
        exact lastKept_set (j := x) ht (by omega) qb _ _ _)
      _ (fun x hx => by
        obtain ⟨y, hy, rfl⟩ := List.mem_map.1 hx
        have := List.mem_range.1 (List.mem_reverse.1 hy)
        omega) _ _ hl h2
  exact dmrgNormalizeFirst_lk hL0 hr h3

theorem dmrg2Update_lk {L : Nat} {distr : Nat} {s0 s : Sweep 𝕜} {se' : Sweep 𝕜 × ℝ} {i : Nat} (hb : LastKept L s0 s)
    (hi : i + 1 < L) (h : dmrg2Update k H qd numiter tol distr s i = .ok se') : LastKept L s0 se'.1 := by
  obtain ⟨en, Aopt, A0, A1, qb, -, -, rfl⟩ := dmrg2Update_unfold h
  exact lastKept_set (j := i + 1) hb (by omega) qb _ _ _

theorem dmrg2Sweep_lk {L : Nat} (hL : L = H.A.length) (hL0 : 0 < L) {s0 : Sweep 𝕜} {se se' : Sweep 𝕜 × List ℝ}
    (hb : LastKept L s0 se.1) (h : dmrg2Sweep k H qd numiter tol se = .ok se') : LastKept L s0 se'.1 := by
  unfold dmrg2Sweep at h
  rw [bind_ok] at h
  obtain ⟨⟨s1, e1⟩, h1, h⟩ := h
  dsimp only at h
  rw [bind_ok] at h
  obtain ⟨⟨s2, e2⟩, h2, h⟩ := h
  dsimp only at h
  rw [bind_ok] at h
  obtain ⟨s3, h3, h⟩ := h
  rw [pure_ok] at h
  subst h
  have hl : LastKept L s0 (s1, e1).1 :=
    foldIdx_inv (dmrg2Left k H qd numiter tol) (fun (t : Sweep 𝕜 × ℝ) => LastKept L s0 t.1) (fun i => i + 2 < L)
      (fun x t t' hx ht ht' => by
        unfold dmrg2Left at ht'
        rw [bind_ok] at ht'
        obtain ⟨⟨t1, en⟩, g1, ht'⟩ := ht'
        dsimp only at ht'
        rw [bind_ok] at ht'
        obtain ⟨BLn, -, ht'⟩ := ht'
        rw [pure_ok] at ht'
        subst ht'
        have hb1 : LastKept L s0 t1 := dmrg2Update_lk ht (by omega) g1
        exact hb1)
      _ (fun x hx => by have := List.mem_range.1 hx; omega) _ _ hb h1
  have hr : LastKept L s0 (s2, e2).1 :=
    foldIdx_inv (dmrg2Right k H qd numiter tol) (fun (t : Sweep 𝕜 × ℝ) => LastKept L s0 t.1) (fun i => i + 1 < L)
      (fun x t t' hx ht ht' => by
        unfold dmrg2Right at ht'
        rw [bind_ok] at ht'
        obtain ⟨⟨t1, en⟩, g1, ht'⟩ := ht'
        dsimp only at ht'
        rw [bind_ok] at ht'
        obtain ⟨BRn, -, ht'⟩ := ht'
        rw [pure_ok] at ht'
        subst ht'
        have hb1 : LastKept L s0 t1 := dmrg2Update_lk ht (by omega) g1
        exact hb1)
      _ (fun x hx => by have := List.mem_range.1 (List.mem_reverse.1 hx); omega) _ _ hl h2
  exact dmrgNormalizeFirst_lk hL0 hr h3

/-- reading the trailing charge off the final sweep state -/
theorem last_of_lastKept {ψ ψ1 : MPS 𝕜} {nrm : ℝ} {dqr : Mat 𝕜 → Mat 𝕜 × Mat 𝕜} (hshape : ∀ B, ShapeAt dqr B)
    (hadm : Admissible ψ) (ho : MPS.orthonormalize (ρ := ℝ) dqr ψ false = .ok (ψ1, nrm)) (hn : nrm ≠ 0)
    (hHL : H.A.length = ψ.A.length) {BL BR : Array (T3 𝕜)} {s : Sweep 𝕜}
    (hk : LastKept H.A.length (⟨ψ1.A.toArray, ψ1.qD.toArray, BL, BR⟩ : Sweep 𝕜) s) :
    (toMPS ψ s).qD.getLast? = ψ.qD.getLast? := by
  obtain ⟨hadm1, hqd, hlen⟩ := C01.ortho_wf (dqr := dqr) hshape hadm ho
  obtain ⟨b1, b2⟩ := ortho_mps_boundary hshape (by show RCLike.re (0 : 𝕜) = 0; simp) ho hn
  obtain ⟨hs, hLq⟩ := hk
  obtain ⟨hl1, _⟩ := wf_index hadm1.wf
  have hsz : s.qD.toList.length = H.A.length + 1 := by
    rw [Array.length_toList, hs]
    show ψ1.qD.toArray.size = _
    rw [List.size_toArray, hl1, hlen, hHL]
  have hl1' : ψ1.qD.length = H.A.length + 1 := by rw [hl1, hlen, hHL]
  rw [← b2]
  show s.qD.toList.getLast? = _
  rw [getLast?_eq_getD hsz, getLast?_eq_getD hl1']
  have eL : s.qD.toList.getD H.A.length [] = ψ1.qD.getD H.A.length [] := by
    rw [toList_getD]
    have : getQ s H.A.length = ψ1.qD.toArray.getD H.A.length [] := hLq
    rw [Evo.toArray_getD] at this
    exact this
  rw [eL]

/-- **DMRG1, trailing charge**: `calculate_ground_state_local_singlesite` keeps `qD[L]` when the norm factor of the initial
right-orthonormalization is non-zero -/
theorem dmrg1_last (hshape : ∀ B, ShapeAt k.dqr B) {ψ ψ' : MPS 𝕜} {numsweeps : Nat} {en : List ℝ} (hadm : Admissible ψ)
    (h : dmrgSinglesite k H ψ numsweeps numiter = .ok (ψ', en))
    (hn : ∀ ψ1 nrm, MPS.orthonormalize (ρ := ℝ) k.dqr ψ false = .ok (ψ1, nrm) → nrm ≠ 0) :
    ψ'.qD.getLast? = ψ.qD.getLast? := by
  obtain ⟨s0, nrm, s, hp, hit, rfl⟩ := dmrgSinglesite_unfold h
  have hL0 := prologue_pos hp
  obtain ⟨hHL, ψ1, BR, ho, _, _, rfl⟩ := prologue_unfold hp
  have ho' : MPS.orthonormalize (ρ := ℝ) k.dqr ψ false = .ok (ψ1, nrm) := ho
  have hinv := iterate_inv (dmrg1Sweep k H ψ.qd numiter)
    (fun (t : Sweep 𝕜 × List ℝ) => LastKept H.A.length (⟨ψ1.A.toArray, ψ1.qD.toArray,
      (Array.replicate H.A.length emptyT3).setIfInBounds 0 ones111, BR.toArray⟩ : Sweep 𝕜) t.1)
    (fun t t' ht ht' => dmrg1Sweep_lk rfl hL0 ht ht') numsweeps (_, []) (s, en) ⟨rfl, rfl⟩ hit
  exact last_of_lastKept hshape hadm ho' (hn ψ1 nrm ho') hHL hinv

/-- **DMRG2, trailing charge** -/
theorem dmrg2_last (hshape : ∀ B, ShapeAt k.dqr B) {ψ ψ' : MPS 𝕜} {numsweeps : Nat} {en : List ℝ} (hadm : Admissible ψ)
    (h : dmrgTwosite k H ψ numsweeps numiter tol = .ok (ψ', en))
    (hn : ∀ ψ1 nrm, MPS.orthonormalize (ρ := ℝ) k.dqr ψ false = .ok (ψ1, nrm) → nrm ≠ 0) :
    ψ'.qD.getLast? = ψ.qD.getLast? := by
  unfold dmrgTwosite at h
  rw [bind_ok] at h
  obtain ⟨⟨s0, nrm⟩, hp, h⟩ := h
  dsimp only at h
  rw [bind_ok] at h
  obtain ⟨⟨s, en'⟩, hit, h⟩ := h
  dsimp only at h
  rw [pure_ok] at h
  injection h with ha hb
  subst ha
  have hL0 := prologue_pos hp
  obtain ⟨hHL, ψ1, BR, ho, _, _, rfl⟩ := prologue_unfold hp
  have ho' : MPS.orthonormalize (ρ := ℝ) k.dqr ψ false = .ok (ψ1, nrm) := ho
  have hinv := iterate_inv (dmrg2Sweep k H ψ.qd numiter tol)
    (fun (t : Sweep 𝕜 × List ℝ) => LastKept H.A.length (⟨ψ1.A.toArray, ψ1.qD.toArray,
      (Array.replicate H.A.length emptyT3).setIfInBounds 0 ones111, BR.toArray⟩ : Sweep 𝕜) t.1)
    (fun t t' ht ht' => dmrg2Sweep_lk rfl hL0 ht ht') numsweeps (_, []) (s, en') ⟨rfl, rfl⟩ hit
  exact last_of_lastKept hshape hadm ho' (hn ψ1 nrm ho') hHL hinv

/-- for a non-zero state and a kernel with the full QR contract of C01 the norm factor is non-zero -/
theorem ortho_norm_ne_zero {dqr : Mat 𝕜 → Mat 𝕜 × Mat 𝕜} (hc : C01.QRKernel dqr) {ψ : MPS 𝕜} (hadm : Admissible ψ)
    {σ : List Nat} (hσ : σ ∈ Env.digitsU ψ.qd.length ψ.A.length) (hne : ψ.amp σ ≠ 0) :
    ∀ ψ1 nrm, MPS.orthonormalize (ρ := ℝ) dqr ψ false = .ok (ψ1, nrm) → nrm ≠ 0 := by
  intro ψ1 nrm ho h0
  have hd := C01.ortho_dense hc hadm ho hσ
  rw [h0] at hd
  apply hne
  rw [← hd]
  simp

end Ptn.HistWf

import PtnModel.Proofs.DenseRow
import PtnModel.Proofs.DenseLoop
/-!
# Dense meaning of `MPO.multiply` (`multiply_mpo`)

Invariant (Kronecker fusion): the row vector of the product at the fused bond index `a * D1 + b` is the sum over the
intermediate digits of the products of the operands' row vectors at `a` and `b`.
-/
namespace Ptn.MPO
open Finset Dense
variable {R : Type} [CommRing R]

/-- the site tensor built by `multiply_mpo` (before memoisation) -/
def mulT (X Y : T4 R) : T4 R :=
  ⟨X.d0, Y.d1, X.d2 * Y.d2, X.d3 * Y.d3, fun s t a b =>
    sumRange X.d1 fun u => X.f s u (a / Y.d2) (b / Y.d3) * Y.f u t (a % Y.d2) (b % Y.d3)⟩

/-- what a successful `multiply` returns (tensor list only) -/
theorem multiply_A [DecidableEq R] (o0 o1 r : MPO R) (h : MPO.multiply o0 o1 = .ok r) :
    ZipRel (fun X Y : T4 R => X.d1 = Y.d0) (fun X Y => (mulT X Y).tab) o0.A o1.A r.A := by
  unfold MPO.multiply at h
  simp only [pyAssert_bind] at h
  obtain ⟨hlen, _, h⟩ := h
  simp only [bind_ok, pure_ok] at h
  obtain ⟨res, hfor, rfl⟩ := h
  have hlen : o0.A.length = o1.A.length := by simpa using hlen
  apply zipRel_of_forall₂ _ _ _ _ _ hlen
  have key : ∃ as, res = [] ++ as ∧ List.Forall₂
      (fun i Z => ∃ X Y, o0.A[i]? = some X ∧ o1.A[i]? = some Y ∧ X.d1 = Y.d0 ∧ Z = (mulT X Y).tab)
      (List.range o0.A.length) as := by
    refine forIn_append_spec _ _ ?_ _ _ _ hfor
    intro i acc r' hr'
    split at hr'
    · rename_i X Y hX hY
      split at hr'
      · simp [throw_bind_ne] at hr'
      · rename_i hne
        simp only [not_not] at hne
        simp only [pyAssert_bind, pure_ok] at hr'
        exact ⟨_, hr'.2.symm, X, Y, hX, hY, hne, rfl⟩
    · rw [throw_bind_ne] at hr'
      exact hr'.elim
  obtain ⟨as, has, hfa⟩ := key
  have has : res = as := by simpa using has
  subst has
  exact hfa

/-- one step through a product tensor: Kronecker fusion of the two operand steps, summed over the shared digit -/
theorem step_mul (X Y : T4 R) (s t : Nat) (hs : s < X.d0) (ht : t < Y.d1) (v v0 v1 : Nat → R)
    (hv : ∀ a < X.d2 * Y.d2, v a = v0 (a / Y.d2) * v1 (a % Y.d2)) :
    ∀ x < X.d3 * Y.d3, step (mulT X Y).tab s t v x
      = ∑ u ∈ range X.d1, step X s u v0 (x / Y.d3) * step Y u t v1 (x % Y.d3) := by
  intro x hx
  have e : step (mulT X Y).tab s t v x
      = ∑ a ∈ range (X.d2 * Y.d2), (fun a0 a1 => v0 a0 * v1 a1 *
          ∑ u ∈ range X.d1, X.f s u a0 (x / Y.d3) * Y.f u t a1 (x % Y.d3)) (a / Y.d2) (a % Y.d2) := by
    apply sum_congr rfl
    intro a ha
    have ha := mem_range.1 ha
    simp only [T4.tab_d2, mulT] at ha
    rw [T4.tab_f (mulT X Y) hs ht ha hx, hv a ha]
    simp only [mulT, sumRange_eq]
  refine (e.trans (sum_range_mul_divmod X.d2 Y.d2 (fun a0 a1 => v0 a0 * v1 a1 *
          ∑ u ∈ range X.d1, X.f s u a0 (x / Y.d3) * Y.f u t a1 (x % Y.d3)))).trans ?_
  simp only [step, sum_mul_sum]
  simp only [mul_sum]
  rw [sum_congr rfl (fun a0 _ => sum_comm), sum_comm]
  apply sum_congr rfl; intro u _
  apply sum_congr rfl; intro a0 _
  apply sum_congr rfl; intro a1 _
  ring

/-- the product tensors form a chain with fused bond dimensions -/
theorem zipRel_chain (d : Nat) : ∀ (Xs Ys Zs : List (T4 R)) (D0 D1 Dr0 Dr1 : Nat),
    ZipRel (fun X Y : T4 R => X.d1 = Y.d0) (fun X Y => (mulT X Y).tab) Xs Ys Zs →
    Chain d D0 Xs Dr0 → Chain d D1 Ys Dr1 → Chain d (D0 * D1) Zs (Dr0 * Dr1)
  | [], [], [], _, _, _, _, _, h0, h1 => by
      have h0 : _ = _ := h0
      have h1 : _ = _ := h1
      subst h0 h1; rfl
  | X :: Xs, Y :: Ys, Z :: Zs, D0, D1, Dr0, Dr1, h, h0, h1 => by
      obtain ⟨_, rfl, h⟩ := h
      obtain ⟨hx0, hx1, hx2, hx3⟩ := h0
      obtain ⟨hy0, hy1, hy2, hy3⟩ := h1
      subst hx2 hy2
      exact ⟨hx0, hy1, rfl, zipRel_chain d Xs Ys Zs _ _ _ _ h hx3 hy3⟩
  | [], [], _ :: _, _, _, _, _, h, _, _ => by simp [ZipRel] at h
  | [], _ :: _, _, _, _, _, _, h, _, _ => by simp [ZipRel] at h
  | _ :: _, [], _, _, _, _, _, h, _, _ => by simp [ZipRel] at h
  | _ :: _, _ :: _, [], _, _, _, _, h, _, _ => by simp [ZipRel] at h

theorem sumDigits_succ {M : Type} [AddCommMonoid M] (d n : Nat) (f : List Nat → M) :
    sumDigits d (n + 1) f = ∑ u ∈ range d, sumDigits d n (fun us => f (u :: us)) := rfl

theorem sumDigits_zero {M : Type} [AddCommMonoid M] (d : Nat) (f : List Nat → M) : sumDigits d 0 f = f [] := rfl

/-- row-vector invariant of `multiply_mpo` -/
theorem mul_row (d : Nat) : ∀ (Xs Ys Zs : List (T4 R)) (D0 D1 Dr0 Dr1 : Nat) (ss ts : List Nat) (v v0 v1 : Nat → R),
    ZipRel (fun X Y : T4 R => X.d1 = Y.d0) (fun X Y => (mulT X Y).tab) Xs Ys Zs →
    Chain d D0 Xs Dr0 → Chain d D1 Ys Dr1 → Digits d Xs.length ss → Digits d Xs.length ts →
    (∀ x < D0 * D1, v x = v0 (x / D1) * v1 (x % D1)) →
    ∀ y < Dr0 * Dr1, elemRow Zs ss ts v y
      = sumDigits d Xs.length (fun us => elemRow Xs ss us v0 (y / Dr1) * elemRow Ys us ts v1 (y % Dr1))
  | [], [], [], D0, D1, Dr0, Dr1, ss, ts, v, v0, v1, _, h0, h1, _, _, hv, y, hy => by
      have h0 : _ = _ := h0
      have h1 : _ = _ := h1
      subst h0 h1
      simp only [List.length_nil, sumDigits_zero, elemRow_nil]
      exact hv y hy
  | X :: Xs, Y :: Ys, Z :: Zs, D0, D1, Dr0, Dr1, ss, ts, v, v0, v1, h, h0, h1, hss, hts, hv, y, hy => by
      obtain ⟨hxy, rfl, h⟩ := h
      obtain ⟨hx0, hx1, hx2, hx3⟩ := h0
      obtain ⟨hy0, hy1, hy2, hy3⟩ := h1
      subst hx2 hy2
      obtain ⟨hl, hlt⟩ := hss
      obtain ⟨hl', hlt'⟩ := hts
      match ss, ts, hl, hl' with
      | s :: ss', t :: ts', hl, hl' =>
        have hs : s < X.d0 := by rw [hx0]; exact hlt s (by simp)
        have ht : t < Y.d1 := by rw [hy1]; exact hlt' t (by simp)
        have hss' : Digits d Xs.length ss' := ⟨by simpa using hl, fun x hx => hlt x (by simp [hx])⟩
        have hts' : Digits d Xs.length ts' := ⟨by simpa using hl', fun x hx => hlt' x (by simp [hx])⟩
        have hcz := zipRel_chain d Xs Ys Zs _ _ _ _ h hx3 hy3
        rw [elemRow_cons, List.length_cons, sumDigits_succ]
        rw [elemRow_congr d Zs ss' ts' _ _ _
          (fun x => ∑ u ∈ range d, 1 * (step X s u v0 (x / Y.d3) * step Y u t v1 (x % Y.d3))) hcz
          (by rw [hss'.1, (zipRel_length _ _ _ _ _ h).2]) (by rw [hts'.1, (zipRel_length _ _ _ _ _ h).2]) ?_ y hy]
        · rw [elemRow_sum]
          apply sum_congr rfl; intro u _
          rw [one_mul, mul_row d Xs Ys Zs _ _ _ _ ss' ts' _ (step X s u v0) (step Y u t v1) h hx3 hy3 hss' hts'
            (fun _ _ => rfl) y hy]
          simp only [elemRow_cons]
        · intro x hx
          rw [step_mul X Y s t hs ht v v0 v1 hv x hx, hx1]
          simp only [one_mul]
  | [], [], _ :: _, _, _, _, _, _, _, _, _, _, h, _, _, _, _, _, _, _ => by simp [ZipRel] at h
  | [], _ :: _, _, _, _, _, _, _, _, _, _, _, h, _, _, _, _, _, _, _ => by simp [ZipRel] at h
  | _ :: _, [], _, _, _, _, _, _, _, _, _, _, h, _, _, _, _, _, _, _ => by simp [ZipRel] at h
  | _ :: _, _ :: _, [], _, _, _, _, _, _, _, _, _, h, _, _, _, _, _, _, _ => by simp [ZipRel] at h

/-- dense meaning of `multiply_mpo` -/
theorem mul_dense [DecidableEq R] (o0 o1 r : MPO R) (d : Nat) (h0 : Shaped o0 d) (h1 : Shaped o1 d)
    (h : MPO.multiply o0 o1 = .ok r) (s t : List Nat) (hs : Digits d o0.A.length s) (ht : Digits d o0.A.length t) :
    r.elem s t = sumDigits d o0.A.length (fun u => o0.elem s u * o1.elem u t) := by
  have hz := multiply_A o0 o1 r h
  have := mul_row d o0.A o1.A r.A 1 1 1 1 s t e0 e0 e0 hz h0.chain h1.chain hs ht
    (by intro x hx; have : x = 0 := by omega
        subst this; simp [e0]) 0 (by omega)
  simpa [elem_eq] using this

end Ptn.MPO

import PtnModel.Proofs.BipBfs
/-!
# C18 helper lemmas, part 7: the DFS `__add_augmenting_path` — fuel, and progress

* `dfs_ok`: with all labels `≤ inf` the fuel `dfsFuel g` suffices (labels strictly increase along the
  recursion stack);
* `dfs_dom`: matched vertices stay matched; a successful call at `u` leaves `u` matched;
* `Good g s x`: there is a label-increasing alternating path from `x` to NIL; a failing call at `x`
  shows `¬ Good g s x` and does not change `Good` (`dfs_fail`).
-/
namespace Ptn.Bip

def AllLe (g : BGraph) (s : HK) : Prop := ∀ y, s.dist y ≤ infDist g

theorem AllLe.setInf {g : BGraph} {s : HK} (h : AllLe g s) (u : Nat) : AllLe g (s.setDist (some u) (infDist g)) := by
  intro y
  by_cases hy : y = some u
  · subst hy
    simp only [dist_some, setDist_some_du, getD_set_eq]
    split
    · exact Nat.le_refl _
    · exact h (some u)
  · rw [dist_setDist_ne _ _ hy]; exact h y

/-! ## fuel -/

theorem dfs_total_aux (g : BGraph) (hg : g.WF) :
    (∀ (fuel : Nat) (x : Option Nat) (s : HK), MInv g s.mu s.mv → AllLe g s →
        (∀ u, x = some u → g.numU + 3 ≤ fuel + s.dist (some u)) →
        ∃ s' b, dfs g fuel x s = .ok (s', b) ∧ AllLe g s') ∧
    (∀ (fuel u : Nat) (vs : List Nat) (s : HK), MInv g s.mu s.mv → AllLe g s →
        g.numU + 3 ≤ fuel + s.dist (some u) + 1 →
        ∃ s' b, dfsNeighbours g fuel u vs s = .ok (s', b) ∧ AllLe g s') := by
  apply dfs.mutual_induct g
  · intro fuel s _ hle _
    exact ⟨s, true, by rw [dfs], hle⟩
  · intro u s _ hle hf
    have h1 := hf u rfl
    have h2 := hle (some u)
    unfold infDist at h2
    omega
  · intro fuel u s ih hinv hle hf
    have h1 := hf u rfl
    obtain ⟨s', b, h, hle'⟩ := ih hinv hle (by omega)
    exact ⟨s', b, by rw [dfs]; exact h, hle'⟩
  · intro fuel u s _ hle _
    exact ⟨_, false, by rw [dfsNeighbours], hle.setInf u⟩
  · intro fuel u v vs s hc e he ih1 hinv hle hf
    obtain ⟨s', b, h, _⟩ := ih1 hinv hle (by
      intro u1 hu1
      rw [hu1] at hc
      omega)
    rw [h] at he; cases he
  · intro fuel u v vs s hc s1 he ih1 hinv hle hf
    obtain ⟨s', b, h, hle'⟩ := ih1 hinv hle (by
      intro u1 hu1
      rw [hu1] at hc
      omega)
    rw [h] at he; cases he
    refine ⟨{ s1 with mv := s1.mv.set v (some u), mu := s1.mu.set u (some v) }, true,
      by rw [dfsNeighbours]; simp only [hc, if_true, h], ?_⟩
    intro y
    exact hle' y
  · intro fuel u v vs s hc s1 he ih1 ih2 hinv hle hf
    obtain ⟨s', b, h, hle'⟩ := ih1 hinv hle (by
      intro u1 hu1
      rw [hu1] at hc
      omega)
    rw [h] at he; cases he
    have post := dfs_spec hg hinv h
    obtain ⟨e1, e2⟩ := post.fail rfl
    have hinv1 : MInv g s1.mu s1.mv := by rw [e1, e2]; exact hinv
    have hneu : some u ≠ s.mateV v := by
      intro e
      rw [← e] at hc
      omega
    obtain ⟨fu1, _⟩ := post.frame u hneu (by rw [hc]; exact Nat.le_succ _)
    obtain ⟨s2, b2, h2, hle2⟩ := ih2 hinv1 hle' (by rw [fu1]; exact hf)
    exact ⟨s2, b2, by rw [dfsNeighbours]; simp only [hc, if_true, h]; exact h2, hle2⟩
  · intro fuel u v vs s hc ih2 hinv hle hf
    obtain ⟨s2, b2, h2, hle2⟩ := ih2 hinv hle hf
    exact ⟨s2, b2, by rw [dfsNeighbours]; simp only [hc, if_false]; exact h2, hle2⟩

/-- a top-level DFS call with fuel `dfsFuel g` never runs out of fuel -/
theorem dfs_ok {g : BGraph} (hg : g.WF) {s : HK} (hinv : MInv g s.mu s.mv) (hle : AllLe g s) (u : Nat) :
    ∃ s' b, dfs g (dfsFuel g) (some u) s = .ok (s', b) ∧ AllLe g s' :=
  (dfs_total_aux g hg).1 (dfsFuel g) (some u) s hinv hle (fun _ _ => by unfold dfsFuel; omega)

/-! ## matched vertices stay matched -/

theorem dfs_dom_aux (g : BGraph) (hg : g.WF) :
    (∀ (fuel : Nat) (x : Option Nat) (s : HK), ∀ s' b, s.mu.length = g.numU → dfs g fuel x s = .ok (s', b) →
        s'.mu.length = g.numU ∧ (∀ w, (s.mu.getD w none).isSome → (s'.mu.getD w none).isSome) ∧
        (b = true → ∀ u, x = some u → (s'.mu.getD u none).isSome)) ∧
    (∀ (fuel u : Nat) (vs : List Nat) (s : HK), ∀ s' b, s.mu.length = g.numU → (∀ v ∈ vs, g.Edge u v) →
        dfsNeighbours g fuel u vs s = .ok (s', b) →
        s'.mu.length = g.numU ∧ (∀ w, (s.mu.getD w none).isSome → (s'.mu.getD w none).isSome) ∧
        (b = true → (s'.mu.getD u none).isSome)) := by
  apply dfs.mutual_induct g
  · intro fuel s s' b hl h
    rw [dfs] at h; cases h
    exact ⟨hl, fun _ h => h, fun _ u hu => by cases hu⟩
  · intro u s s' b _ h
    rw [dfs] at h; cases h
  · intro fuel u s ih s' b hl h
    rw [dfs] at h
    obtain ⟨h1, h2, h3⟩ := ih s' b hl (fun v hv => hv) h
    exact ⟨h1, h2, fun hb u' hu' => by cases hu'; exact h3 hb⟩
  · intro fuel u s s' b hl _ h
    rw [dfsNeighbours] at h; cases h
    exact ⟨by simpa using hl, fun _ h => by simpa using h, fun hb => by cases hb⟩
  · intro fuel u v vs s hc e he _ s' b _ _ h
    rw [dfsNeighbours] at h
    simp only [hc, if_true, he] at h
    cases h
  · intro fuel u v vs s hc s1 he ih1 s' b hl hedge h
    rw [dfsNeighbours] at h
    simp only [hc, if_true, he] at h
    cases h
    obtain ⟨h1, h2, _⟩ := ih1 s1 true hl he
    have hu : u < g.numU := (hg.edge_lt (hedge v (List.mem_cons_self ..))).1
    refine ⟨by simpa using h1, ?_, ?_⟩
    · intro w hw
      show ((s1.mu.set u (some v)).getD w none).isSome
      rw [getD_set_eq]
      split
      · rfl
      · exact h2 w hw
    · intro _
      show ((s1.mu.set u (some v)).getD u none).isSome
      rw [getD_set_self _ _ _ (by rw [h1]; exact hu)]
      rfl
  · intro fuel u v vs s hc s1 he ih1 ih2 s' b hl hedge h
    rw [dfsNeighbours] at h
    simp only [hc, if_true, he] at h
    obtain ⟨h1, h2, _⟩ := ih1 s1 false hl he
    obtain ⟨k1, k2, k3⟩ := ih2 s' b h1 (fun v' hv' => hedge v' (List.mem_cons_of_mem _ hv')) h
    exact ⟨k1, fun w hw => k2 w (h2 w hw), k3⟩
  · intro fuel u v vs s hc ih2 s' b hl hedge h
    rw [dfsNeighbours] at h
    simp only [hc, if_false] at h
    exact ih2 s' b hl (fun v' hv' => hedge v' (List.mem_cons_of_mem _ hv')) h

theorem dfs_dom {g : BGraph} (hg : g.WF) {fuel u : Nat} {s s' : HK} {b : Bool}
    (hl : s.mu.length = g.numU) (h : dfs g fuel (some u) s = .ok (s', b)) :
    (∀ w, (s.mu.getD w none).isSome → (s'.mu.getD w none).isSome) ∧
    (b = true → (s'.mu.getD u none).isSome) := by
  obtain ⟨_, h2, h3⟩ := (dfs_dom_aux g hg).1 fuel (some u) s s' b hl h
  exact ⟨h2, fun hb => h3 hb u rfl⟩

/-! ## good vertices -/

/-- there is a label-increasing alternating path from `x` to NIL -/
inductive Good (g : BGraph) (s : HK) : Option Nat → Prop
  | nil : Good g s none
  | step (u v : Nat) : v ∈ g.adjU.getD u [] → s.dist (s.mateV v) = s.dist (some u) + 1 →
      Good g s (s.mateV v) → Good g s (some u)

theorem Good.congr {g : BGraph} {s s' : HK} (hmv : s'.mv = s.mv)
    (hd : ∀ y, Good g s y → s'.dist y = s.dist y) {x : Option Nat} (h : Good g s x) : Good g s' x := by
  induction h with
  | nil => exact Good.nil
  | step u v hv hl hgood ih =>
    have hm : s'.mateV v = s.mateV v := by simp [hmv]
    refine Good.step u v hv ?_ (by rw [hm]; exact ih)
    rw [hm, hd _ hgood, hd _ (Good.step u v hv hl hgood), hl]

theorem not_good_of_inf {g : BGraph} {s : HK} (hle : AllLe g s) {u : Nat} (h : s.dist (some u) = infDist g) :
    ¬ Good g s (some u) := by
  intro hgood
  cases hgood with
  | step _ v hv hl _ =>
    have := hle (s.mateV v)
    omega

/-- effect of a failing DFS call on the labels -/
structure FailRel (g : BGraph) (s s' : HK) : Prop where
  mu : s'.mu = s.mu
  mv : s'.mv = s.mv
  good : ∀ y, Good g s y ↔ Good g s' y
  keep : ∀ y, Good g s y → s'.dist y = s.dist y
  allLe : AllLe g s'

theorem FailRel.refl {g : BGraph} {s : HK} (hle : AllLe g s) : FailRel g s s :=
  ⟨rfl, rfl, fun _ => Iff.rfl, fun _ _ => rfl, hle⟩

theorem FailRel.trans {g : BGraph} {s s' s'' : HK} (h1 : FailRel g s s') (h2 : FailRel g s' s'') :
    FailRel g s s'' :=
  ⟨h2.mu.trans h1.mu, h2.mv.trans h1.mv, fun y => (h1.good y).trans (h2.good y),
   fun y hy => (h2.keep y ((h1.good y).1 hy)).trans (h1.keep y hy), h2.allLe⟩

theorem FailRel.setInf {g : BGraph} {s : HK} (hle : AllLe g s) {u : Nat} (hn : ¬ Good g s (some u)) :
    FailRel g s (s.setDist (some u) (infDist g)) := by
  have hle' := hle.setInf u
  have hkeep : ∀ y, Good g s y → (s.setDist (some u) (infDist g)).dist y = s.dist y := by
    intro y hy
    have : y ≠ some u := fun e => hn (e ▸ hy)
    exact dist_setDist_ne _ _ this
  refine ⟨by simp, by simp, ?_, hkeep, hle'⟩
  intro y
  constructor
  · exact Good.congr (by simp) hkeep
  · apply Good.congr (by simp)
    intro y hy
    by_cases hyu : y = some u
    · subst hyu
      by_cases hd : (s.setDist (some u) (infDist g)).dist (some u) = infDist g
      · exact absurd hy (not_good_of_inf hle' hd)
      · -- the write was out of range: nothing changed
        simp only [dist_some, setDist_some_du, getD_set_eq] at hd ⊢
        split at hd
        · exact absurd rfl hd
        · rename_i h; rw [if_neg h]
    · exact (dist_setDist_ne _ _ hyu).symm

theorem dfs_fail_aux (g : BGraph) (hg : g.WF) :
    (∀ (fuel : Nat) (x : Option Nat) (s : HK), ∀ s', MInv g s.mu s.mv → AllLe g s →
        dfs g fuel x s = .ok (s', false) → ¬ Good g s x ∧ FailRel g s s') ∧
    (∀ (fuel u : Nat) (vs : List Nat) (s : HK), ∀ s', MInv g s.mu s.mv → AllLe g s →
        dfsNeighbours g fuel u vs s = .ok (s', false) →
        ∃ s'', FailRel g s s'' ∧ s' = s''.setDist (some u) (infDist g) ∧
          s''.dist (some u) = s.dist (some u) ∧
          ∀ v ∈ vs, ¬ (s.dist (s.mateV v) = s.dist (some u) + 1 ∧ Good g s (s.mateV v))) := by
  apply dfs.mutual_induct g
  · intro fuel s s' _ _ h
    rw [dfs] at h; cases h
  · intro u s s' _ _ h
    rw [dfs] at h; cases h
  · intro fuel u s ih s' hinv hle h
    rw [dfs] at h
    obtain ⟨s'', hrel, rfl, _, hno⟩ := ih s' hinv hle h
    have hng : ¬ Good g s (some u) := by
      intro hgood
      cases hgood with
      | step _ v hv hl hgv => exact hno v hv ⟨hl, hgv⟩
    refine ⟨hng, hrel.trans (FailRel.setInf hrel.allLe ?_)⟩
    intro hgood
    exact hng ((hrel.good _).2 hgood)
  · intro fuel u s s' _ hle h
    rw [dfsNeighbours] at h; cases h
    exact ⟨s, FailRel.refl hle, rfl, rfl, fun v hv => by cases hv⟩
  · intro fuel u v vs s hc e he _ s' _ _ h
    rw [dfsNeighbours] at h
    simp only [hc, if_true, he] at h
    cases h
  · intro fuel u v vs s hc s1 he _ s' _ _ h
    rw [dfsNeighbours] at h
    simp only [hc, if_true, he] at h
    cases h
  · intro fuel u v vs s hc s1 he ih1 ih2 s' hinv hle h
    rw [dfsNeighbours] at h
    simp only [hc, if_true, he] at h
    obtain ⟨hng, hrel1⟩ := ih1 s1 hinv hle he
    have hinv1 : MInv g s1.mu s1.mv := by rw [hrel1.mu, hrel1.mv]; exact hinv
    obtain ⟨s'', hrel2, hs', hdu, hno⟩ := ih2 s' hinv1 hrel1.allLe h
    have post := dfs_spec hg hinv he
    have hneu : some u ≠ s.mateV v := by
      intro e
      rw [← e] at hc
      omega
    obtain ⟨fu1, _⟩ := post.frame u hneu (by rw [hc]; exact Nat.le_succ _)
    refine ⟨s'', hrel1.trans hrel2, hs', hdu.trans fu1, ?_⟩
    intro v' hv'
    rcases List.mem_cons.1 hv' with rfl | hv'
    · exact fun hh => hng hh.2
    · intro ⟨hl, hgv⟩
      apply hno v' hv'
      have hm : s1.mateV v' = s.mateV v' := by simp [hrel1.mv]
      rw [hm]
      refine ⟨?_, (hrel1.good _).1 hgv⟩
      rw [hrel1.keep _ hgv, fu1, hl]
  · intro fuel u v vs s hc ih2 s' hinv hle h
    rw [dfsNeighbours] at h
    simp only [hc, if_false] at h
    obtain ⟨s'', hrel2, hs', hdu, hno⟩ := ih2 s' hinv hle h
    refine ⟨s'', hrel2, hs', hdu, ?_⟩
    intro v' hv'
    rcases List.mem_cons.1 hv' with rfl | hv'
    · exact fun hh => hc hh.1
    · exact hno v' hv'

/-- a failing DFS call at `x` proves that `x` is not good, and keeps goodness of all vertices -/
theorem dfs_fail {g : BGraph} (hg : g.WF) {fuel : Nat} {x : Option Nat} {s s' : HK}
    (hinv : MInv g s.mu s.mv) (hle : AllLe g s) (h : dfs g fuel x s = .ok (s', false)) :
    ¬ Good g s x ∧ FailRel g s s' :=
  (dfs_fail_aux g hg).1 fuel x s s' hinv hle h

end Ptn.Bip

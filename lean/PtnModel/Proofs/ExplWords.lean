import PtnModel.Proofs.ExplGraph
import PtnModel.Proofs.HamGraphWords
/-!
# Explicit molecular graph, part 10: the denotation

The explicit graph is a left forest, a right forest and one crossing edge per term (`Forests`), hence denotes
`Σ_ij t_ij · hopping word(i, j) + Σ_{i<j, k<l} gint_ijkl · word(a†_i a†_j a_l a_k)`: the same formal sum as the chain list of the
bond-optimized construction.
-/
set_option linter.unusedSectionVars false
set_option linter.unusedSimpArgs false
set_option linter.unusedVariables false

namespace Ptn.Ham
open Ptn.Og List Ptn.Ham2

variable {κ : Type} [CommRing κ] [DecidableEq κ]

/-- left nodes, right nodes, left and right words, on node ids -/
def explLf (L : Int) (x : Int) : Prop := isLeft ((MolNodes.init L).labOf x) = true
instance (L : Int) : DecidablePred (explLf L) := fun x => by unfold explLf; infer_instance
def explRG (L : Int) (y : Int) : Prop := ∃ a, labOk L a ∧ isLeft a = false ∧ y = (MolNodes.init L).nidOf a
def explLw (L : Int) (x : Int) : Word := lwLab ((MolNodes.init L).labOf x)
def explRw (L : Int) (x : Int) : Word := rwLab L ((MolNodes.init L).labOf x)

theorem explLf_nidOf (L : Int) (a : Lab) (ha : labOk L a) : explLf L ((MolNodes.init L).nidOf a) ↔ isLeft a = true := by
  unfold explLf; rw [labOf_nidOf L a ha]


section
variable (c : Consts κ) (tkin : List (List κ)) (vint : List (List (List (List κ)))) (L : Int)

theorem decide_explLf (y : Int) (a : Lab) (hy : y = (MolNodes.init L).nidOf a) (ok : labOk L a) :
    decide (explLf L y) = isLeft a := by
  subst hy
  have := explLf_nidOf L a ok
  cases h : isLeft a <;> simp [this, h]

theorem decide_explLf_src (y : Int) (a : Lab) (hy : y = (MolNodes.init L).nidOf a) (ok : labOk L a) :
    decide (¬ explLf L y) = !isLeft a := by
  subst hy
  have := explLf_nidOf L a ok
  cases h : isLeft a <;> simp [this, h]

attribute [local irreducible] MolNodes.nidOf MolNodes.labOf explLf

/-- the targets of the edges that end at a left node -/
theorem expl_leftDsts (hL : 4 ≤ L) :
    (((wireSpecs (κ := κ) L ++ (hopSpecs L tkin ++ intSpecs c L vint)).map (toSpec L)).filter fun s => explLf L s.2.1).map (·.2.1)
      = (leftDsts L).map (MolNodes.init L).nidOf := by
  rw [List.filter_map, map_map]
  have hcong : (wireSpecs (κ := κ) L ++ (hopSpecs L tkin ++ intSpecs c L vint)).filter ((fun s => decide (explLf L s.2.1)) ∘ toSpec L)
      = (wireSpecs (κ := κ) L ++ (hopSpecs L tkin ++ intSpecs c L vint)).filter (fun x => isLeft x.2.1) := by
    apply filter_congr
    intro x hx
    exact decide_explLf L _ x.2.1 rfl (allSpecs_cls c tkin vint L hL x hx).ok.ok2
  rw [hcong, filter_append, filter_append]
  have h1 : (hopSpecs L tkin).filter (fun x => isLeft x.2.1) = [] := by
    apply filter_none
    intro x hx
    rcases allSpecs_cls c tkin vint L hL x (mem_append_right _ (mem_append_left _ hx)) with ⟨h, _⟩ | ⟨h, _⟩ | ⟨F, h⟩
    · obtain ⟨p, hp, rfl⟩ := mem_map.1 hx
      obtain ⟨⟨a, b⟩, ⟨c', d⟩⟩ := (mem_hopPairs L p).1 hp
      exact (hop_tspec L hL p.1 p.2 a b c' d).r2
    · exact h.r2
    · exact h.r2
  have h2 : (intSpecs c L vint).filter (fun x => isLeft x.2.1) = [] := by
    apply filter_none
    intro x hx
    obtain ⟨q, hq, rfl⟩ := mem_map.1 hx
    obtain ⟨a, b, c', d, e, f⟩ := (mem_intTuples L q).1 hq
    exact (int_tspec L hL q.1 q.2.1 q.2.2.1 q.2.2.2 a b c' d e f).r2
  rw [h1, h2, append_nil, append_nil, wireSpecs_eq, List.filter_map, map_map, ← wire_leftDsts, map_map]
  rfl

/-- the sources of the edges that start at a right node -/
theorem expl_rightSrcs (hL : 4 ≤ L) :
    (((wireSpecs (κ := κ) L ++ (hopSpecs L tkin ++ intSpecs c L vint)).map (toSpec L)).filter fun s => ¬ explLf L s.1).map (·.1)
      = (rightSrcs L).map (MolNodes.init L).nidOf := by
  rw [List.filter_map, map_map]
  have hcong : (wireSpecs (κ := κ) L ++ (hopSpecs L tkin ++ intSpecs c L vint)).filter ((fun s => decide (¬ explLf L s.1)) ∘ toSpec L)
      = (wireSpecs (κ := κ) L ++ (hopSpecs L tkin ++ intSpecs c L vint)).filter (fun x => !isLeft x.1) := by
    apply filter_congr
    intro x hx
    exact decide_explLf_src L _ x.1 rfl (allSpecs_cls c tkin vint L hL x hx).ok.ok1
  rw [hcong, filter_append, filter_append]
  have h1 : (hopSpecs L tkin).filter (fun x => !isLeft x.1) = [] := by
    apply filter_none
    intro x hx
    obtain ⟨p, hp, rfl⟩ := mem_map.1 hx
    obtain ⟨⟨a, b⟩, ⟨c', d⟩⟩ := (mem_hopPairs L p).1 hp
    have := (hop_tspec L hL p.1 p.2 a b c' d).l1
    simp only at this ⊢
    rw [this]; rfl
  have h2 : (intSpecs c L vint).filter (fun x => !isLeft x.1) = [] := by
    apply filter_none
    intro x hx
    obtain ⟨q, hq, rfl⟩ := mem_map.1 hx
    obtain ⟨a, b, c', d, e, f⟩ := (mem_intTuples L q).1 hq
    have := (int_tspec L hL q.1 q.2.1 q.2.2.1 q.2.2.2 a b c' d e f).l1
    simp only at this ⊢
    rw [this]; rfl
  rw [h1, h2, append_nil, append_nil, wireSpecs_eq, List.filter_map, map_map, ← wire_rightSrcs, map_map]
  rfl


theorem nidOf_ok_inj (hL : 4 ≤ L) (l : List Lab) (hl : ∀ a ∈ l, labOk L a) (hn : l.Nodup) : (l.map (MolNodes.init L).nidOf).Nodup := by
  apply Nodup.map_on _ hn
  intro a ha b hb h
  exact nidOf_inj L a b (hl a ha) (hl b hb) h

theorem leftDsts_ok (a : Lab) (ha : a ∈ leftDsts L) : labOk L a := by
  rw [← wire_leftDsts] at ha
  obtain ⟨y, hy, rfl⟩ := mem_map.1 ha
  rcases wire_cls L y (mem_filter.1 hy).1 with h | h
  · exact h.ok2
  · exact h.ok2

theorem rightSrcs_ok (a : Lab) (ha : a ∈ rightSrcs L) : labOk L a := by
  rw [← wire_rightSrcs] at ha
  obtain ⟨y, hy, rfl⟩ := mem_map.1 ha
  rcases wire_cls L y (mem_filter.1 hy).1 with h | h
  · exact h.ok1
  · exact h.ok1

theorem source_nid (hL : 4 ≤ L) : (MolNodes.init L).nidOf (10, [], 0) = 0 := nidOf_idL L 0 (le_refl _) (by omega)
theorem sink_nid (hL : 4 ≤ L) : (MolNodes.init L).nidOf (11, [], L) = L + L - 1 := nidOf_idR L L (by omega) (by omega)

/-- **the explicit graph is a left forest, a right forest and one crossing edge per term** -/
theorem explForests (hL : 4 ≤ L) :
    Forests (explEdges c tkin vint L) 0 (L + L - 1) (explLf L) (explRG L) (explLw L) (explRw L) := by
  have hsrc := source_nid L hL
  have hsnk := sink_nid L hL
  have okS : labOk L (10, [], 0) := by simp only [labOk]; omega
  have okT : labOk L (11, [], L) := by simp only [labOk]; omega
  refine ⟨?_, ?_, ?_, ?_, ?_, ?_, ?_, ?_, ?_, ?_⟩
  · exact Nodup.of_map _ (buildEdges_nodup _ _)
  · intro e he
    obtain ⟨x, _, eid, rfl⟩ := explEdges_specs c tkin vint L e he
    rfl
  · intro e he
    obtain ⟨x, hx, eid, rfl⟩ := explEdges_specs c tkin vint L e he
    have hcl := allSpecs_cls c tkin vint L hL x hx
    have ok := hcl.ok
    show (explLf L ((MolNodes.init L).nidOf x.1) ∧ explLf L ((MolNodes.init L).nidOf x.2.1) ∧ x.2.2.2 = 1 ∧
        explLw L ((MolNodes.init L).nidOf x.2.1) = explLw L ((MolNodes.init L).nidOf x.1) ++ [x.2.2.1]) ∨
      (¬ explLf L ((MolNodes.init L).nidOf x.1) ∧ ¬ explLf L ((MolNodes.init L).nidOf x.2.1) ∧ x.2.2.2 = 1 ∧
        explRw L ((MolNodes.init L).nidOf x.1) = x.2.2.1 :: explRw L ((MolNodes.init L).nidOf x.2.1)) ∨
      (explLf L ((MolNodes.init L).nidOf x.1) ∧ ¬ explLf L ((MolNodes.init L).nidOf x.2.1) ∧ explRG L ((MolNodes.init L).nidOf x.2.1))
    rw [explLf_nidOf L _ ok.ok1, explLf_nidOf L _ ok.ok2]
    unfold explLw explRw
    rw [labOf_nidOf L _ ok.ok1, labOf_nidOf L _ ok.ok2]
    rcases hcl with ⟨h, hc⟩ | ⟨h, hc⟩ | ⟨F, h⟩
    · exact Or.inl ⟨h.l1, h.l2, hc, h.word⟩
    · refine Or.inr (Or.inl ⟨?_, ?_, hc, h.word⟩)
      · have := h.r1; simp only [LSpec.tri] at this; rw [this]; simp
      · have := h.r2; simp only [LSpec.tri] at this; rw [this]; simp
    · refine Or.inr (Or.inr ⟨h.l1, ?_, ⟨x.2.1, ok.ok2, h.r2, rfl⟩⟩)
      have := h.r2; simp only [LSpec.tri] at this; rw [this]; simp
  · rw [← hsrc]
    refine ⟨(explLf_nidOf L _ okS).2 rfl, ?_⟩
    unfold explLw
    rw [labOf_nidOf L _ okS]
    rfl
  · rw [← hsnk]
    refine ⟨fun h => ?_, ?_⟩
    · have := (explLf_nidOf L _ okT).1 h
      cases this
    · unfold explRw
      rw [labOf_nidOf L _ okT]
      unfold rwLab
      have : (L - ((11, [], L) : Lab).2.2).toNat = 0 := by show (L - L).toNat = 0; omega
      rw [this]; rfl
  · apply uniq_dst (explLf L)
    rw [expl_leftDsts c tkin vint L hL]
    exact nidOf_ok_inj L hL _ (leftDsts_ok L) (leftDsts_nodup L)
  · intro e1 h1 e2 h2 hP heq
    exact uniq_src (fun x => ¬ explLf L x) _ 0
      (by rw [expl_rightSrcs c tkin vint L hL]; exact nidOf_ok_inj L hL _ (rightSrcs_ok L) (rightSrcs_nodup L))
      e1 h1 e2 h2 hP heq
  · intro e he hlf
    obtain ⟨x, hx, eid, rfl⟩ := explEdges_specs c tkin vint L e he
    have ok := (allSpecs_cls c tkin vint L hL x hx).ok
    have hlf' : isLeft x.1 = true := (explLf_nidOf L _ ok.ok1).1 hlf
    by_cases hs : x.1 = (10, [], 0)
    · left
      show (MolNodes.init L).nidOf x.1 = 0
      rw [hs, hsrc]
    · right
      have hm := left_complete L x.1 ok.ok1 hlf' hs
      rw [← wire_leftDsts] at hm
      obtain ⟨y, hy, hy2⟩ := mem_map.1 hm
      have hy' := (mem_filter.1 hy).1
      have hmem : ((y.1, y.2.1, y.2.2, (1 : κ)) : LSpec κ) ∈ wireSpecs (κ := κ) L ++ (hopSpecs L tkin ++ intSpecs c L vint) := by
        apply mem_append_left
        rw [wireSpecs_eq]
        exact mem_map.2 ⟨y, hy', rfl⟩
      obtain ⟨eid', he'⟩ := specs_explEdges c tkin vint L _ hmem
      refine ⟨_, he', ?_⟩
      show (MolNodes.init L).nidOf y.2.1 = (MolNodes.init L).nidOf x.1
      rw [hy2]
  · rintro y ⟨a, ha, hr, rfl⟩
    by_cases ht : a = (11, [], L)
    · left; rw [ht, hsnk]
    · right
      have hm := right_complete L a ha hr ht
      rw [← wire_rightSrcs] at hm
      obtain ⟨z, hz, hz1⟩ := mem_map.1 hm
      have hz' := (mem_filter.1 hz).1
      have hwr : WRspec L z := by
        rcases wire_cls L z hz' with h | h
        · have := h.l1; rw [hz1, hr] at this; cases this
        · exact h
      have hmem : ((z.1, z.2.1, z.2.2, (1 : κ)) : LSpec κ) ∈ wireSpecs (κ := κ) L ++ (hopSpecs L tkin ++ intSpecs c L vint) := by
        apply mem_append_left
        rw [wireSpecs_eq]
        exact mem_map.2 ⟨z, hz', rfl⟩
      obtain ⟨eid', he'⟩ := specs_explEdges c tkin vint L _ hmem
      refine ⟨_, he', ?_, ⟨z.2.1, hwr.ok2, hwr.r2, rfl⟩⟩
      show (MolNodes.init L).nidOf z.1 = (MolNodes.init L).nidOf a
      rw [hz1]
  · rintro y ⟨a, ha, hr, rfl⟩ h
    have := (explLf_nidOf L a ha).1 h
    rw [hr] at this
    cases this


/-- the formal sum the explicit graph denotes: one word per hopping pair and per interaction tuple -/
def explTerms (c : Consts κ) (tkin : List (List κ)) (vint : List (List (List (List κ)))) (L : Int) : Sym κ :=
  (hopPairs L).map (fun p => (fw L.toNat (hopF p.1.toNat p.2.toNat), t2 tkin p.1 p.2)) ++
  (intTuples L).map (fun q => (fw L.toNat (intF q.1.toNat q.2.1.toNat q.2.2.1.toNat q.2.2.2.toNat),
    gint c vint q.1 q.2.1 q.2.2.1 q.2.2.2))

/-- the contribution of one edge specification to the coefficient of `w` -/
def specTerm (L : Int) (w : Word) (x : LSpec κ) : κ :=
  if (isLeft x.1 = true ∧ ¬ isLeft x.2.1 = true) ∧ lwLab x.1 ++ x.2.2.1 :: rwLab L x.2.1 = w then x.2.2.2 else 0

theorem specTerm_wire (hL : 4 ≤ L) (w : Word) (x : LSpec κ) (hx : x ∈ wireSpecs (κ := κ) L) : specTerm L w x = 0 := by
  obtain ⟨h1, _⟩ := wireSpecs_mem L x hx
  unfold specTerm
  rw [if_neg]
  rintro ⟨⟨a, b⟩, _⟩
  rcases wire_cls L _ h1 with h | h
  · exact b h.l2
  · have := h.r1; simp only [LSpec.tri] at this; rw [this] at a; cases a

theorem specTerm_T (w : Word) (x : LSpec κ) (F : Nat → Int) (h : Tspec L F x.tri) :
    specTerm L w x = if fw L.toNat F = w then x.2.2.2 else 0 := by
  unfold specTerm
  have h1 : isLeft x.1 = true := h.l1
  have h2 : isLeft x.2.1 = false := h.r2
  have hw : lwLab x.1 ++ x.2.2.1 :: rwLab L x.2.1 = fw L.toNat F := h.word
  rw [hw]
  simp [h1, h2]

/-- **The denotation of the explicit graph**: for every word `w`, the coefficient of `w` is
`Σ_ij t_ij · [w = hopping word(i, j)] + Σ_{i<j, k<l} gint_ijkl · [w = word(a†_i a†_j a_l a_k)]`. -/
theorem explGraph_den (hL : 4 ≤ L) (w : Word) :
    (explGraph c tkin vint L).denF w = coeffIn (explTerms c tkin vint L) w := by
  obtain ⟨_, sv, hE, _, hT, _⟩ := explGraph_facts c tkin vint L hL
  rw [denF_eq_denE sv, hE]
  have ht1 : (explGraph c tkin vint L).term true = L + L - 1 := by simp [Graph.term, hT]
  have ht0 : (explGraph c tkin vint L).term false = 0 := by simp [Graph.term, hT]
  rw [ht1, ht0, (explForests c tkin vint L hL).den w]
  have hsum := sum_buildEdges (κ := κ)
    (fun a b o cf => if (explLf L a ∧ ¬ explLf L b) ∧ explLw L a ++ o :: explRw L b = w then cf else 0)
    ((wireSpecs (κ := κ) L ++ (hopSpecs L tkin ++ intSpecs c L vint)).map (toSpec L)) 0
  have hE' : explEdges c tkin vint L =
      buildEdges ((wireSpecs (κ := κ) L ++ (hopSpecs L tkin ++ intSpecs c L vint)).map (toSpec L)) 0 := rfl
  rw [hE']
  refine Eq.trans hsum ?_
  rw [map_map]
  have hpt : ∀ x ∈ wireSpecs (κ := κ) L ++ (hopSpecs L tkin ++ intSpecs c L vint),
      ((fun s : ESpec κ => if (explLf L s.1 ∧ ¬ explLf L s.2.1) ∧ explLw L s.1 ++ s.2.2.1 :: explRw L s.2.1 = w then s.2.2.2 else 0) ∘
        toSpec L) x = specTerm L w x := by
    intro x hx
    have ok := (allSpecs_cls c tkin vint L hL x hx).ok
    show (if (explLf L ((MolNodes.init L).nidOf x.1) ∧ ¬ explLf L ((MolNodes.init L).nidOf x.2.1)) ∧
      explLw L ((MolNodes.init L).nidOf x.1) ++ x.2.2.1 :: explRw L ((MolNodes.init L).nidOf x.2.1) = w then x.2.2.2 else 0) = _
    simp only [explLf_nidOf L _ ok.ok1, explLf_nidOf L _ ok.ok2, explLw, explRw, labOf_nidOf L _ ok.ok1, labOf_nidOf L _ ok.ok2]
    rfl
  rw [sum_map_congr _ _ _ hpt, map_append, map_append, sum_append, sum_append,
    sum_map_eq_zero _ _ (fun x hx => specTerm_wire L hL w x hx), zero_add]
  unfold coeffIn explTerms
  rw [map_append, sum_append]
  congr 1
  · unfold hopSpecs
    rw [map_map, map_map]
    apply sum_map_congr
    intro p hp
    obtain ⟨⟨a, b⟩, ⟨c', d⟩⟩ := (mem_hopPairs L p).1 hp
    simp only [Function.comp]
    rw [specTerm_T L w _ _ (hop_tspec L hL p.1 p.2 a b c' d)]
  · unfold intSpecs
    rw [map_map, map_map]
    apply sum_map_congr
    intro q hq
    obtain ⟨a, b, c', d, e, f⟩ := (mem_intTuples L q).1 hq
    simp only [Function.comp]
    rw [specTerm_T L w _ _ (int_tspec L hL q.1 q.2.1 q.2.2.1 q.2.2.2 a b c' d e f)]


end

/-- **The chain list of the bond-optimized construction is the same formal sum**: hopping chain `(i, j)` has coefficient `t_ij` and the
hopping word, interaction chain `(i, j, k, l)` has coefficient `gint_ijkl` and the word of `a†_i a†_j a_l a_k`. -/
theorem optimized_terms (c : Consts κ) (tkin : List (List κ)) (vint : List (List (List (List κ)))) (chains : List (OpChain κ))
    (h : molChains c tkin vint = .ok chains) (w : Word) :
    coeffIn (denChainsRaw chains (tkin.length : Int) 0) w = coeffIn (explTerms c tkin vint (tkin.length : Int)) w := by
  obtain ⟨hop, int, rfl, hhop, hint⟩ := molChains_split c tkin vint chains h
  unfold coeffIn explTerms denChainsRaw
  rw [map_append, map_append, sum_append, map_append, sum_append, map_map, map_map, map_map, map_map]
  congr 1
  · refine (mapM_sum _ (fun ch : OpChain κ => if ch.paddedWord (tkin.length : Int) 0 = w then ch.coeff else 0)
      (fun p : Int × Int => if fw (tkin.length : Int).toNat (hopF p.1.toNat p.2.toNat) = w then t2 tkin p.1 p.2 else 0)
      _ hop hhop ?_).1
    intro p hp y hy
    obtain ⟨⟨hi0, hi1⟩, ⟨hj0, hj1⟩⟩ := (mem_hopPairs _ p).1 hp
    obtain ⟨i, j⟩ := p
    simp only at hi0 hi1 hj0 hj1 hy ⊢
    obtain ⟨ch, hch, hc, hw⟩ := molHop_spec tkin.length i.toNat j.toNat (by omega) (by omega) (t2 tkin i j)
    have ei : ((i.toNat : Nat) : Int) = i := by omega
    have ej : ((j.toNat : Nat) : Int) = j := by omega
    rw [ei, ej] at hch
    have hii : t2 tkin i i = t2 tkin i j ∨ (i == j) = false := by
      by_cases hij : i = j
      · subst hij; exact Or.inl rfl
      · exact Or.inr (by simpa using hij)
    have : y = ch := by
      rcases hii with hii | hii
      · rw [hii] at hy
        rw [hch] at hy
        cases hy; rfl
      · rw [hii] at hy hch
        simp only [Bool.false_eq_true, if_false] at hy hch
        rw [hch] at hy
        cases hy; rfl
    subst this
    rw [hc, hw, hopWord_fw _ _ _ (by omega) (by omega)]
    simp
  · refine (mapM_sum _ (fun ch : OpChain κ => if ch.paddedWord (tkin.length : Int) 0 = w then ch.coeff else 0)
      (fun q : Int × Int × Int × Int => if fw (tkin.length : Int).toNat (intF q.1.toNat q.2.1.toNat q.2.2.1.toNat q.2.2.2.toNat) = w
        then gint c vint q.1 q.2.1 q.2.2.1 q.2.2.2 else 0)
      _ int hint ?_).1
    intro q hq y hy
    obtain ⟨a, b, c', d, e, f⟩ := (mem_intTuples _ q).1 hq
    obtain ⟨i, j, k, l⟩ := q
    simp only at a b c' d e f hy ⊢
    obtain ⟨ch, hch, hc, hw⟩ := molInt_spec tkin.length i.toNat j.toNat k.toNat l.toNat (by omega) (by omega) (by omega) (by omega)
      (gint c vint i j k l)
    have ei : ((i.toNat : Nat) : Int) = i := by omega
    have ej : ((j.toNat : Nat) : Int) = j := by omega
    have ek : ((k.toNat : Nat) : Int) = k := by omega
    have el : ((l.toNat : Nat) : Int) = l := by omega
    rw [ei, ej, ek, el] at hch
    rw [hch] at hy
    cases hy
    rw [hc, hw]
    simp

end Ptn.Ham

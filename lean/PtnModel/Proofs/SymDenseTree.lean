import PtnModel.Proofs.SymDenseGraph
/-!
# Dense meaning of a tree: `_subtree_as_matrix` with its `kron` padding = dense meaning of the padded path sum
-/
set_option linter.unusedSectionVars false

namespace Ptn.Og
open List Ptn.Dense

variable {κ : Type} [CommRing κ] [DecidableEq κ]

/-! ## digits -/

theorem digIdx_append (d : Nat) (s1 s2 : List Nat) :
    digIdx d (s1 ++ s2) = digIdx d s1 * d ^ s2.length + digIdx d s2 := by
  induction s1 with
  | nil => simp [digIdx]
  | cons a s1 ih =>
    simp only [cons_append, digIdx, ih, length_append, pow_add]
    ring

theorem isDigits_split {d H k : Nat} {s : List Nat} (h : IsDigits d (H + k) s) :
    IsDigits d H (s.take H) ∧ IsDigits d k (s.drop H) := by
  obtain ⟨hl, hd⟩ := h
  refine ⟨⟨by simp [hl], fun a ha => hd a (List.mem_of_mem_take ha)⟩,
    ⟨by simp [hl], fun a ha => hd a (List.mem_of_mem_drop ha)⟩⟩

theorem isDigits_append {d H k : Nat} {s1 s2 : List Nat} (h1 : IsDigits d H s1) (h2 : IsDigits d k s2) :
    IsDigits d (H + k) (s1 ++ s2) :=
  ⟨by simp [h1.1, h2.1], fun a ha => by
    rcases mem_append.1 ha with ha | ha
    · exact h1.2 a ha
    · exact h2.2 a ha⟩

theorem digIdx_inj {d : Nat} : ∀ {n : Nat} {s t : List Nat}, IsDigits d n s → IsDigits d n t →
    digIdx d s = digIdx d t → s = t := by
  intro n
  induction n with
  | zero =>
    intro s t hs ht _
    rw [List.length_eq_zero_iff.1 hs.1, List.length_eq_zero_iff.1 ht.1]
  | succ n ih =>
    intro s t hs ht h
    obtain ⟨a, s', rfl, ha, hs'⟩ := isDigits_cons hs
    obtain ⟨b, t', rfl, hb, ht'⟩ := isDigits_cons ht
    simp only [digIdx, hs'.1, ht'.1] at h
    have l1 := digIdx_lt hs'
    have l2 := digIdx_lt ht'
    have hq : 0 < d ^ n := by omega
    have hab : a = b := by
      have e1 : (a * d ^ n + digIdx d s') / d ^ n = a := by
        rw [Nat.add_comm, Nat.add_mul_div_right _ _ hq, Nat.div_eq_of_lt l1, Nat.zero_add]
      have e2 : (b * d ^ n + digIdx d t') / d ^ n = b := by
        rw [Nat.add_comm, Nat.add_mul_div_right _ _ hq, Nat.div_eq_of_lt l2, Nat.zero_add]
      rw [← e1, ← e2, h]
    subst hab
    have : digIdx d s' = digIdx d t' := by omega
    rw [ih hs' ht' this]

/-! ## the identity -/

theorem identity_entry (n i j : Nat) (hi : i < n) (hj : j < n) :
    (Mat.identity n : Mat κ).entry i j = if i = j then 1 else 0 := by
  simp [Mat.identity, Mat.entry, List.getD_eq_getElem?_getD, hi, hj]

/-- the operator id `id` is mapped to the `d × d` identity -/
def IdOk (opmap : OpMap κ) (d : Nat) (id : Int) : Prop :=
  ∃ I, opmap.get id = .ok I ∧ IsMat I d d ∧ ∀ a b, a < d → b < d → I.entry a b = if a = b then 1 else 0

theorem wordEntry_id {opmap : OpMap κ} {d : Nat} {id : Int} (hid : IdOk opmap d id) :
    ∀ (k : Nat) (s t : List Nat), IsDigits d k s → IsDigits d k t →
      wordEntry opmap (List.replicate k id) s t = if s = t then 1 else 0 := by
  obtain ⟨I, hI, _, hent⟩ := hid
  intro k
  induction k with
  | zero =>
    intro s t hs ht
    rw [List.length_eq_zero_iff.1 hs.1, List.length_eq_zero_iff.1 ht.1]
    simp [wordEntry]
  | succ k ih =>
    intro s t hs ht
    obtain ⟨a, s', rfl, ha, hs'⟩ := isDigits_cons hs
    obtain ⟨b, t', rfl, hb, ht'⟩ := isDigits_cons ht
    rw [replicate_succ, wordEntry, opMap_get_entry hI, hent a b ha hb, ih s' t' hs' ht']
    by_cases hab : a = b
    · subst hab
      by_cases hst : s' = t' <;> simp [hst]
    · simp [hab]

theorem wordEntry_append (opmap : OpMap κ) :
    ∀ (w v : Word) (s1 t1 s2 t2 : List Nat), s1.length = w.length → t1.length = w.length →
      wordEntry opmap (w ++ v) (s1 ++ s2) (t1 ++ t2) = wordEntry opmap w s1 t1 * wordEntry opmap v s2 t2 := by
  intro w
  induction w with
  | nil =>
    intro v s1 t1 s2 t2 h1 h2
    rw [List.length_eq_zero_iff.1 h1, List.length_eq_zero_iff.1 h2]
    simp [wordEntry]
  | cons o w ih =>
    intro v s1 t1 s2 t2 h1 h2
    cases s1 with
    | nil => simp at h1
    | cons a s1 =>
      cases t1 with
      | nil => simp at h2
      | cons b t1 =>
        simp only [length_cons, Nat.add_right_cancel_iff] at h1 h2
        simp only [cons_append, wordEntry]
        rw [ih v s1 t1 s2 t2 h1 h2]
        ring

/-! ## padding on the right -/

/-- `kron(A, identity(d^k))`: the entries of the padded words -/
theorem padRight_spec {opmap : OpMap κ} {d : Nat} {id : Int} (hid : IdOk opmap d id) {A : Mat κ} {H : Nat}
    (hA : IsMat A (d ^ H) (d ^ H)) (S : Sym κ) (hS : ∀ p ∈ S, p.1.length = H)
    (hent : ∀ s t, IsDigits d H s → IsDigits d H t →
      A.entry (digIdx d s) (digIdx d t) = symSum (fun w => wordEntry opmap w s t) S) (k : Nat) :
    IsMat (padRight A (d ^ k)) (d ^ (H + k)) (d ^ (H + k)) ∧
      ∀ s t, IsDigits d (H + k) s → IsDigits d (H + k) t →
        (padRight A (d ^ k)).entry (digIdx d s) (digIdx d t) =
          symSum (fun w => wordEntry opmap w s t) (S.map (padPath id (H + k))) := by
  unfold padRight
  have hI : IsMat (Mat.identity (d ^ k) : Mat κ) (d ^ k) (d ^ k) := identity_isMat _
  refine ⟨by rw [pow_add]; exact kron_isMat hA hI, ?_⟩
  intro s t hs ht
  obtain ⟨hs1, hs2⟩ := isDigits_split hs
  obtain ⟨ht1, ht2⟩ := isDigits_split ht
  have es : s = s.take H ++ s.drop H := (List.take_append_drop H s).symm
  have et : t = t.take H ++ t.drop H := (List.take_append_drop H t).symm
  have is : digIdx d s = digIdx d (s.take H) * d ^ k + digIdx d (s.drop H) := by
    conv_lhs => rw [es]
    rw [digIdx_append, hs2.1]
  have it : digIdx d t = digIdx d (t.take H) * d ^ k + digIdx d (t.drop H) := by
    conv_lhs => rw [et]
    rw [digIdx_append, ht2.1]
  rw [is, it, kron_entry A hI _ _ _ _ (digIdx_lt hs2) (digIdx_lt ht2), hent _ _ hs1 ht1,
    identity_entry _ _ _ (digIdx_lt hs2) (digIdx_lt ht2)]
  unfold symSum
  rw [map_map, ← sum_map_mul_const]
  apply sum_map_congr
  intro p hp
  have hl := hS p hp
  simp only [Function.comp, padPath, hl, Nat.add_sub_cancel_left]
  conv_rhs => rw [es, et]
  rw [wordEntry_append opmap p.1 _ _ _ _ _ (by rw [hs1.1, hl]) (by rw [ht1.1, hl]), wordEntry_id hid k _ _ hs2 ht2]
  by_cases h : s.drop H = t.drop H
  · simp [h]
  · have : digIdx d (s.drop H) ≠ digIdx d (t.drop H) := fun hc => h (digIdx_inj hs2 ht2 hc)
    simp [h, this]

/-! ## paths and heights -/

theorem padPath_self (id : Int) (n : Nat) (p : Word × κ) (h : p.1.length = n) : padPath id n p = p := by
  simp [padPath, h]

theorem padPath_padPath (id : Int) (n m : Nat) (p : Word × κ) (h1 : p.1.length ≤ n) (h2 : n ≤ m) :
    padPath id m (padPath id n p) = padPath id m p := by
  simp only [padPath, length_append, length_replicate, append_assoc, Prod.mk.injEq, and_true,
    append_cancel_left_eq]
  rw [← replicate_add]
  congr 1
  omega

theorem padPath_length (id : Int) (n : Nat) (p : Word × κ) (h : p.1.length ≤ n) : (padPath id n p).1.length = n := by
  simp only [padPath, length_append, length_replicate]; omega

theorem map_padPath_of_length (id : Int) (n : Nat) (S : Sym κ) (hS : ∀ p ∈ S, p.1.length = n) :
    S.map (padPath id n) = S := by
  conv_rhs => rw [← List.map_id S]
  apply map_congr_left
  intro p hp
  exact padPath_self id n p (hS p hp)

theorem symSum_append (F : Word → κ) (S S' : Sym κ) : symSum F (S ++ S') = symSum F S + symSum F S' := by
  simp [symSum]

/-- height reached by the accumulator of the loop over the children -/
def loopH : Nat → List (Int × κ × TNode κ) → Nat
  | H, [] => H
  | H, (_, _, t) :: cs => loopH (max H (1 + t.height)) cs

theorem loopH_ge (H : Nat) (cs : List (Int × κ × TNode κ)) : H ≤ loopH H cs := by
  induction cs generalizing H with
  | nil => exact Nat.le_refl _
  | cons c cs ih =>
    obtain ⟨o, c', t⟩ := c
    exact Nat.le_trans (Nat.le_max_left _ _) (ih _)

theorem loopH_eq (H : Nat) (cs : List (Int × κ × TNode κ)) :
    loopH H cs = max H (match cs with | [] => 0 | c :: cs' => 1 + childrenMaxHeight (c :: cs')) := by
  induction cs generalizing H with
  | nil => simp [loopH]
  | cons c cs ih =>
    obtain ⟨o, c', t⟩ := c
    rw [loopH, ih]
    cases cs with
    | nil => simp [childrenMaxHeight]
    | cons c2 cs2 =>
      simp only [childrenMaxHeight]
      omega

theorem paths_length_le :
    (∀ T : TNode κ, ∀ p ∈ T.paths, p.1.length ≤ T.height) ∧
    (∀ cs : List (Int × κ × TNode κ), ∀ p ∈ childrenPaths cs, p.1.length ≤ 1 + childrenMaxHeight cs) := by
  apply TNode.induct2
  · intro q cs ih p hp
    cases cs with
    | nil => simp only [TNode.paths, mem_singleton] at hp; subst hp; simp
    | cons c cs => simp only [TNode.paths, TNode.height] at hp ⊢; exact ih p hp
  · intro p hp; simp [childrenPaths] at hp
  · intro oid c t cs ih1 ih2 p hp
    simp only [childrenPaths, mem_append, mem_map] at hp
    simp only [childrenMaxHeight]
    rcases hp with ⟨q, hq, rfl⟩ | hp
    · have := ih1 q hq
      simp only [length_cons]; omega
    · have := ih2 p hp
      omega

/-! ## the main induction -/

section
variable (opmap : OpMap κ) (d : Nat) (id : Int)

def SubtreeDense (T : TNode κ) : Prop :=
  (∀ p ∈ T.paths, OpMapOk opmap d p.1) →
    ∃ M, T.asMatrix opmap = .ok M ∧ IsMat M (d ^ T.height) (d ^ T.height) ∧
      ∀ s t, IsDigits d T.height s → IsDigits d T.height t →
        M.entry (digIdx d s) (digIdx d t) =
          symSum (fun w => wordEntry opmap w s t) (T.paths.map (padPath id T.height))

def ChildrenDense (cs : List (Int × κ × TNode κ)) : Prop :=
  ∀ (opSum : Mat κ) (H : Nat) (S0 : Sym κ), IsMat opSum (d ^ H) (d ^ H) → (∀ p ∈ S0, p.1.length = H) →
    (∀ s t, IsDigits d H s → IsDigits d H t →
      opSum.entry (digIdx d s) (digIdx d t) = symSum (fun w => wordEntry opmap w s t) S0) →
    (∀ p ∈ childrenPaths cs, OpMapOk opmap d p.1) →
    ∃ M, childrenAsMatrix opmap cs opSum = .ok M ∧ IsMat M (d ^ loopH H cs) (d ^ loopH H cs) ∧
      ∀ s t, IsDigits d (loopH H cs) s → IsDigits d (loopH H cs) t →
        M.entry (digIdx d s) (digIdx d t) =
          symSum (fun w => wordEntry opmap w s t) ((S0 ++ childrenPaths cs).map (padPath id (loopH H cs)))

theorem childrenDense_nil : ChildrenDense opmap d id ([] : List (Int × κ × TNode κ)) := by
  intro opSum H S0 hM hS hent _
  refine ⟨opSum, rfl, hM, ?_⟩
  intro s t hs ht
  simp only [loopH, childrenPaths, append_nil] at hs ht ⊢
  rw [hent s t hs ht, map_padPath_of_length id H S0 hS]

theorem paths_ne_nil : (∀ T : TNode κ, T.paths ≠ []) ∧
    (∀ cs : List (Int × κ × TNode κ), cs ≠ [] → childrenPaths cs ≠ []) := by
  apply TNode.induct2
  · intro q cs ih
    cases cs with
    | nil => simp [TNode.paths]
    | cons c cs => simp only [TNode.paths]; exact ih (by simp)
  · intro h; exact absurd rfl h
  · intro oid c t cs ih1 _ _
    simp only [childrenPaths]
    intro hc
    have := (append_eq_nil_iff.1 hc).1
    exact ih1 (by simpa using this)

/-- one round of the accumulation with its `kron` padding, for an arbitrary continuation -/
theorem acc_step (hd : 2 ≤ d) (hid : IdOk opmap d id) {opSum op : Mat κ} {H h1 : Nat} {S0 S1 : Sym κ}
    (hM : IsMat opSum (d ^ H) (d ^ H)) (hS0 : ∀ p ∈ S0, p.1.length = H)
    (hE0 : ∀ s t, IsDigits d H s → IsDigits d H t →
      opSum.entry (digIdx d s) (digIdx d t) = symSum (fun w => wordEntry opmap w s t) S0)
    (hO : IsMat op (d ^ h1) (d ^ h1)) (hS1 : ∀ p ∈ S1, p.1.length = h1)
    (hE1 : ∀ s t, IsDigits d h1 s → IsDigits d h1 t →
      op.entry (digIdx d s) (digIdx d t) = symSum (fun w => wordEntry opmap w s t) S1) :
    ∃ M1, (∀ k : Mat κ → Except Err (Mat κ),
        (if opSum.length < op.length then do
            pyAssert (op.length % opSum.length == 0)
            k (Mat.add (padRight opSum (op.length / opSum.length)) op)
          else if op.length < opSum.length then do
            pyAssert (opSum.length % op.length == 0)
            k (Mat.add opSum (padRight op (opSum.length / op.length)))
          else k (Mat.add opSum op)) = k M1) ∧
      IsMat M1 (d ^ max H h1) (d ^ max H h1) ∧
      ∀ s t, IsDigits d (max H h1) s → IsDigits d (max H h1) t →
        M1.entry (digIdx d s) (digIdx d t) =
          symSum (fun w => wordEntry opmap w s t) ((S0 ++ S1).map (padPath id (max H h1))) := by
  have hdpos : 0 < d := by omega
  have hlt : ∀ a b : Nat, d ^ a < d ^ b ↔ a < b := fun a b => Nat.pow_lt_pow_iff_right (by omega)
  rw [hM.1, hO.1]
  rcases Nat.lt_trichotomy H h1 with hlt' | heq | hgt
  · -- the accumulator is padded
    have hmax : max H h1 = h1 := by omega
    have hk : H + (h1 - H) = h1 := by omega
    obtain ⟨p1, p2⟩ := padRight_spec hid hM S0 hS0 hE0 (h1 - H)
    rw [hk] at p1 p2
    refine ⟨Mat.add (padRight opSum (d ^ (h1 - H))) op, ?_, ?_, ?_⟩
    · intro k
      rw [if_pos ((hlt H h1).2 hlt'), Nat.pow_div (by omega) hdpos]
      have : (d ^ h1 % d ^ H == 0) = true := by
        rw [beq_iff_eq]; exact Nat.mod_eq_zero_of_dvd (Nat.pow_dvd_pow d (by omega))
      rw [this]
      rfl
    · rw [hmax]; exact add_isMat p1 hO
    · intro s t hs ht
      rw [hmax] at hs ht ⊢
      rw [add_entry p1 hO, p2 s t hs ht, hE1 s t hs ht, map_append, symSum_append,
        map_padPath_of_length id h1 S1 hS1]
  · -- equal heights
    subst heq
    have hmax : max H H = H := by omega
    refine ⟨Mat.add opSum op, ?_, ?_, ?_⟩
    · intro k
      rw [if_neg (by omega), if_neg (by omega)]
    · rw [hmax]; exact add_isMat hM hO
    · intro s t hs ht
      rw [hmax] at hs ht ⊢
      rw [add_entry hM hO, hE0 s t hs ht, hE1 s t hs ht, map_append, symSum_append,
        map_padPath_of_length id H S0 hS0, map_padPath_of_length id H S1 hS1]
  · -- the new operator is padded
    have hmax : max H h1 = H := by omega
    have hk : h1 + (H - h1) = H := by omega
    obtain ⟨p1, p2⟩ := padRight_spec hid hO S1 hS1 hE1 (H - h1)
    rw [hk] at p1 p2
    refine ⟨Mat.add opSum (padRight op (d ^ (H - h1))), ?_, ?_, ?_⟩
    · intro k
      have h1' : ¬ d ^ H < d ^ h1 := by rw [hlt]; omega
      rw [if_neg h1', if_pos ((hlt h1 H).2 hgt), Nat.pow_div (by omega) hdpos]
      have : (d ^ H % d ^ h1 == 0) = true := by
        rw [beq_iff_eq]; exact Nat.mod_eq_zero_of_dvd (Nat.pow_dvd_pow d (by omega))
      rw [this]
      rfl
    · rw [hmax]; exact add_isMat hM p1
    · intro s t hs ht
      rw [hmax] at hs ht ⊢
      rw [add_entry hM p1, p2 s t hs ht, hE0 s t hs ht, map_append, symSum_append,
        map_padPath_of_length id H S0 hS0]

theorem childrenAsMatrix_cons (oid : Int) (c : κ) (t : TNode κ) (cs : List (Int × κ × TNode κ)) (opSum : Mat κ) :
    childrenAsMatrix opmap ((oid, c, t) :: cs) opSum =
      TNode.asMatrix opmap t >>= fun opSub => opmap.get oid >>= fun m =>
        (if opSum.length < (Mat.kron (Mat.scale c m) opSub).length then do
            pyAssert ((Mat.kron (Mat.scale c m) opSub).length % opSum.length == 0)
            childrenAsMatrix opmap cs (Mat.add (padRight opSum ((Mat.kron (Mat.scale c m) opSub).length / opSum.length))
              (Mat.kron (Mat.scale c m) opSub))
          else if (Mat.kron (Mat.scale c m) opSub).length < opSum.length then do
            pyAssert (opSum.length % (Mat.kron (Mat.scale c m) opSub).length == 0)
            childrenAsMatrix opmap cs (Mat.add opSum (padRight (Mat.kron (Mat.scale c m) opSub)
              (opSum.length / (Mat.kron (Mat.scale c m) opSub).length)))
          else childrenAsMatrix opmap cs (Mat.add opSum (Mat.kron (Mat.scale c m) opSub))) := by
  rw [childrenAsMatrix]

theorem childrenDense_cons (hd : 2 ≤ d) (hid : IdOk opmap d id) (oid : Int) (c : κ) (t : TNode κ)
    (rest : List (Int × κ × TNode κ)) (ihT : SubtreeDense opmap d id t) (ihR : ChildrenDense opmap d id rest) :
    ChildrenDense opmap d id ((oid, c, t) :: rest) := by
  intro opSum H S0 hM hS0 hE0 hops
  -- the operator ids of the first child are mapped
  have hopsT : ∀ q ∈ t.paths, OpMapOk opmap d q.1 := by
    intro q hq o ho
    exact hops (oid :: q.1, c * q.2) (by simp only [childrenPaths, mem_append, mem_map]; exact Or.inl ⟨q, hq, rfl⟩)
      o (by simp [ho])
  obtain ⟨q0, hq0⟩ := List.exists_mem_of_ne_nil _ (paths_ne_nil.1 t)
  obtain ⟨m, hm, hmm⟩ := hops (oid :: q0.1, c * q0.2)
    (by simp only [childrenPaths, mem_append, mem_map]; exact Or.inl ⟨q0, hq0, rfl⟩) oid (by simp)
  obtain ⟨opSub, hsub, hsubM, hsubE⟩ := ihT hopsT
  -- the operator of the first child
  have hO : IsMat (Mat.kron (Mat.scale c m) opSub) (d ^ (1 + t.height)) (d ^ (1 + t.height)) := by
    rw [Nat.add_comm, pow_succ, Nat.mul_comm]; exact kron_isMat (scale_isMat c hmm) hsubM
  obtain ⟨S1, hS1def⟩ : ∃ S1 : Sym κ, S1 = (t.paths.map (padPath id t.height)).map fun q => (oid :: q.1, c * q.2) :=
    ⟨_, rfl⟩
  have hS1 : ∀ p ∈ S1, p.1.length = 1 + t.height := by
    intro p hp
    rw [hS1def] at hp
    simp only [mem_map] at hp
    obtain ⟨q', ⟨q, hq, rfl⟩, rfl⟩ := hp
    simp only [length_cons]
    rw [padPath_length id _ q (paths_length_le.1 t q hq)]; omega
  have hE1 : ∀ s u, IsDigits d (1 + t.height) s → IsDigits d (1 + t.height) u →
      (Mat.kron (Mat.scale c m) opSub).entry (digIdx d s) (digIdx d u) = symSum (fun w => wordEntry opmap w s u) S1 := by
    intro s u hs hu
    rw [Nat.add_comm] at hs hu
    obtain ⟨a, s', rfl, ha, hs'⟩ := isDigits_cons hs
    obtain ⟨b, u', rfl, hb, hu'⟩ := isDigits_cons hu
    simp only [digIdx, hs'.1, hu'.1]
    rw [kron_entry _ hsubM a b _ _ (digIdx_lt hs') (digIdx_lt hu'), scale_entry, hsubE s' u' hs' hu', hS1def]
    unfold symSum
    rw [← sum_map_const_mul]
    conv_rhs => rw [map_map]
    apply sum_map_congr
    intro q _
    simp only [Function.comp, wordEntry, opMap_get_entry hm]
    ring
  obtain ⟨M1, hk, hM1, hEM1⟩ := acc_step opmap d id hd hid hM hS0 hE0 hO hS1 hE1
  -- the remaining children
  have hS0' : ∀ p ∈ (S0 ++ S1).map (padPath id (max H (1 + t.height))), p.1.length = max H (1 + t.height) := by
    intro p hp
    simp only [mem_map, mem_append] at hp
    obtain ⟨q, hq, rfl⟩ := hp
    apply padPath_length
    rcases hq with hq | hq
    · rw [hS0 q hq]; exact Nat.le_max_left _ _
    · rw [hS1 q hq]; exact Nat.le_max_right _ _
  obtain ⟨M, hMres, hMshape, hMent⟩ := ihR M1 (max H (1 + t.height)) _ hM1 hS0' hEM1
    (fun p hp => hops p (by simp only [childrenPaths, mem_append]; exact Or.inr hp))
  refine ⟨M, ?_, hMshape, ?_⟩
  · rw [childrenAsMatrix_cons, hsub, hm]
    exact (hk (childrenAsMatrix opmap rest)).trans hMres
  · intro s u hs hu
    rw [hMent s u hs hu]
    congr 1
    -- padding twice is padding once
    have hge : max H (1 + t.height) ≤ loopH (max H (1 + t.height)) rest := loopH_ge _ _
    simp only [loopH, childrenPaths, map_append, map_map, append_assoc]
    congr 1
    · apply map_congr_left
      intro p hp
      exact padPath_padPath id _ _ p (by rw [hS0 p hp]; exact Nat.le_max_left _ _) hge
    · congr 1
      rw [hS1def, map_map, map_map]
      apply map_congr_left
      intro q hq
      have hql := paths_length_le.1 t q hq
      simp only [Function.comp]
      rw [padPath_padPath id _ _ _ (by
        simp only [length_cons, padPath_length id _ q hql]; omega) hge]
      have e : ((oid :: (padPath id t.height q).1, c * (padPath id t.height q).2) : Word × κ) =
          padPath id (1 + t.height) (oid :: q.1, c * q.2) := by
        simp only [padPath, length_cons, cons_append, Prod.mk.injEq, cons.injEq, true_and, and_true]
        congr 2
        omega
      rw [e, padPath_padPath id _ _ _ (by simp only [length_cons]; omega)
        (Nat.le_trans (Nat.le_max_right _ _) hge)]

theorem subtreeDense_node (q : Int) (cs : List (Int × κ × TNode κ)) (ih : ChildrenDense opmap d id cs) :
    SubtreeDense opmap d id (.mk q cs) := by
  intro hops
  cases cs with
  | nil =>
    refine ⟨Mat.identity 1, rfl, by simpa [TNode.height] using (identity_isMat 1 : IsMat (Mat.identity 1 : Mat κ) 1 1), ?_⟩
    intro s t hs ht
    simp only [TNode.height] at hs ht
    rw [List.length_eq_zero_iff.1 hs.1, List.length_eq_zero_iff.1 ht.1]
    simp [digIdx, identity_one_entry, TNode.paths, TNode.height, symSum, padPath, wordEntry]
  | cons c cs =>
    obtain ⟨M, hM, hshape, hent⟩ := ih (Mat.zero 1 1) 0 [] (by simpa using (zero_isMat 1 1 : IsMat (Mat.zero 1 1 : Mat κ) 1 1))
      (by simp) (fun s t _ _ => by rw [zero_entry]; simp [symSum])
      (by simpa [TNode.paths] using hops)
    have hH : loopH 0 (c :: cs) = (TNode.mk q (c :: cs)).height := by
      rw [loopH_eq]; simp [TNode.height]
    rw [hH] at hshape hent
    exact ⟨M, by simpa [TNode.asMatrix] using hM, hshape, by simpa [TNode.paths] using hent⟩

/-- **Dense meaning of a tree**: both statements for all trees -/
theorem subtree_children_dense (hd : 2 ≤ d) (hid : IdOk opmap d id) :
    (∀ T : TNode κ, SubtreeDense opmap d id T) ∧ (∀ cs : List (Int × κ × TNode κ), ChildrenDense opmap d id cs) :=
  TNode.induct2 (fun q cs ih => subtreeDense_node opmap d id q cs ih) (childrenDense_nil opmap d id)
    (fun oid c t cs ih1 ih2 => childrenDense_cons opmap d id hd hid oid c t cs ih1 ih2)

end

end Ptn.Og

import PtnModel.Proofs.EvoTotMain
import PtnModel.Proofs.HistEvoDmrg1
/-!
# Totality of single-site DMRG

Same scheme as `EvoTotTdvp.lean`: the invariant `TInv` (mixed-canonical, norm one, block sparse) makes every sub-call of
the loop bodies of `calculate_ground_state_local_singlesite` return; the energy parameter of the invariant changes along
the sweep, so the loop invariant is `∃ E, TInv H qd s c E`.  Valid for every chain length `L ≥ 1` (for `L = 1` both half
sweeps are empty).
-/
set_option linter.unusedSectionVars false

namespace Ptn.Evo
open Ptn Ptn.BondOps Ptn.Ortho Ptn.Env Ptn.Krylov Ptn.Dense Finset

variable {𝕜 : Type} [RCLike 𝕜] [DecidableEq 𝕜]
variable {k : EvoKernels 𝕜 ℝ} {H : MPO 𝕜} {qd : List Int} {numiter : Nat}

/-- **the local Ritz step at the centre returns** -/
theorem centre_minimize_ok (ctx : SweepCtx k H qd numiter) (hm : 1 ≤ numiter) {s : Sweep 𝕜} {c : Nat} {E : ℝ}
    (h : DInv H qd s c E) :
    ∃ en Aopt, minimizeLocalEnergy k (getBL s c) (getBR s c) (H.A.getD c zeroT4) (getA s c) numiter = .ok (en, Aopt) := by
  obtain ⟨⟨en, Aopt⟩, hr⟩ := minimize_isOk (k := k) (L := getBL s c) (R := getBR s c) (W := H.A.getD c zeroT4)
    ctx.norm (cnorm_pos_flat3 ctx.norm (by rw [centre_frob ctx h]; exact one_pos)) hm (ctx.eigh _ _)
  exact ⟨en, Aopt, hr⟩

/-- **the left-to-right loop body of a DMRG sweep returns** and keeps the invariants -/
theorem dmrg1Left_ok (ctx : SweepCtx k H qd numiter) (hm : 1 ≤ numiter) (hH : HistWf.HOk H qd) {s : Sweep 𝕜} {e : ℝ}
    {c : Nat} {E : ℝ} (h : TInv H qd s c E) (hc1 : c + 1 < H.A.length) :
    ∃ se', dmrg1Left k H qd numiter (s, e) c = .ok se' ∧ ∃ E', TInv H qd se'.1 (c + 1) E' := by
  obtain ⟨en, Aopt, h1⟩ := centre_minimize_ok ctx hm h.d
  obtain ⟨hinv, _, _, a0, a1, a2⟩ := minimize_inv ctx h.d h1
  obtain ⟨s0, s1, s2⟩ := h.d.can.wf.shape c (by omega)
  obtain ⟨n0, n1, n2⟩ := h.d.can.wf.shape (c + 1) hc1
  obtain ⟨hbr, sqr⟩ := h.sp.br c (Nat.le_refl _) (by omega)
  have hwf : T3Wf Aopt qd (getQ s c) (getQ s (c + 1)) :=
    HistWf.minimize_wf hH h.sp (by omega) (Nat.le_refl _) hbr sqr (h.sp.site c (by omega)) h1
  obtain ⟨Ai, An, qb, h2⟩ := localLeft_ok (dqr := k.dqr) ctx.qr.contract.shape hwf ctx.dpos
    (h.d.can.wf.qpos c (by omega)) (h.d.can.wf.qpos (c + 1) (by omega)) (Anext := getA s (c + 1)) n1
  obtain ⟨Q, R, _, _, hAi, _⟩ := localLeft_run h2
  obtain ⟨hF, _⟩ := canon_local h.d.can ctx.hH ctx.herm
  have d0 : Ai.d0 = (getA s c).d0 := by rw [hAi]; exact a0
  have d1 : Ai.d1 = (getA s c).d1 := by rw [hAi]; exact a1
  obtain ⟨BLn, h3, _⟩ := opStepLeft_ok Ai Ai (H.A.getD c zeroT4) (getBL s c) (hF.l2.trans d1.symm) (hF.w0.trans d0.symm)
    hF.w2 (d0.trans hF.w1.symm) (d1.trans hF.l0.symm)
  have hrun : dmrg1Left k H qd numiter (s, e) c =
      .ok (⟨(s.A.setIfInBounds c Ai).setIfInBounds (c + 1) An, s.qD.setIfInBounds (c + 1) qb,
        s.BL.setIfInBounds (c + 1) BLn, s.BR⟩, en) := by
    unfold dmrg1Left
    rw [bind_ok]
    refine ⟨(en, Aopt), h1, ?_⟩
    dsimp only
    rw [bind_ok]
    refine ⟨(Ai, An, qb), h2, ?_⟩
    dsimp only
    rw [bind_ok]
    exact ⟨BLn, h3, rfl⟩
  exact ⟨_, hrun, en, (dmrg1Left_inv ctx h.d hc1 hrun).1,
    HistWf.dmrg1Left_sparse (se := (s, e)) ctx.qr.contract.shape hH h.sp hc1 hrun⟩

/-- **the right-to-left loop body of a DMRG sweep returns** and keeps the invariants -/
theorem dmrg1Right_ok (ctx : SweepCtx k H qd numiter) (hm : 1 ≤ numiter) (hH : HistWf.HOk H qd) {s : Sweep 𝕜} {e : ℝ}
    {j : Nat} {E : ℝ} (h : TInv H qd s (j + 1) E) :
    ∃ se', dmrg1Right k H qd numiter (s, e) (j + 1) = .ok se' ∧ ∃ E', TInv H qd se'.1 j E' := by
  have hc1 : j + 1 < H.A.length := h.d.can.hc
  obtain ⟨en, Aopt, h1⟩ := centre_minimize_ok ctx hm h.d
  obtain ⟨hinv, _, _, a0, a1, a2⟩ := minimize_inv ctx h.d h1
  obtain ⟨s0, s1, s2⟩ := h.d.can.wf.shape (j + 1) hc1
  obtain ⟨p0, p1, p2⟩ := h.d.can.wf.shape j (by omega)
  obtain ⟨hbr, sqr⟩ := h.sp.br (j + 1) (Nat.le_refl _) hc1
  have hwf : T3Wf Aopt qd (getQ s (j + 1)) (getQ s (j + 2)) :=
    HistWf.minimize_wf hH h.sp hc1 (Nat.le_refl _) hbr sqr (h.sp.site (j + 1) hc1) h1
  obtain ⟨Ai, Ap, qb, h2⟩ := localRight_ok (dqr := k.dqr) ctx.qr.contract.shape (t3wf_swap hwf) ctx.dpos
    (h.d.can.wf.qpos (j + 1) (by omega)) (h.d.can.wf.qpos (j + 2) (by omega)) (Aprev := getA s j) p2
  obtain ⟨Q, R, qb', _, _, hAi, _, _⟩ := localRight_run h2
  obtain ⟨hF, _⟩ := canon_local h.d.can ctx.hH ctx.herm
  have d0 : Ai.d0 = (getA s (j + 1)).d0 := by rw [hAi]; exact a0
  have d2 : Ai.d2 = (getA s (j + 1)).d2 := by rw [hAi]; exact a2
  obtain ⟨BRn, h3, _⟩ := opStepRight_ok Ai Ai (H.A.getD (j + 1) zeroT4) (getBR s (j + 1)) (d2.trans hF.r0.symm)
    (hF.w1.trans d0.symm) hF.w3 (hF.w0.trans d0.symm) (hF.r2.trans d2.symm)
  have hrun : dmrg1Right k H qd numiter (s, e) (j + 1) =
      .ok (⟨(s.A.setIfInBounds (j + 1) Ai).setIfInBounds j Ap, s.qD.setIfInBounds (j + 1) qb, s.BL,
        s.BR.setIfInBounds j BRn⟩, en) := by
    unfold dmrg1Right
    simp only [Nat.add_sub_cancel]
    rw [bind_ok]
    refine ⟨(en, Aopt), h1, ?_⟩
    dsimp only
    rw [bind_ok]
    refine ⟨(Ai, Ap, qb), h2, ?_⟩
    dsimp only
    rw [bind_ok]
    exact ⟨BRn, h3, rfl⟩
  exact ⟨_, hrun, en, (dmrg1Right_inv ctx h.d hrun).1,
    HistWf.dmrg1Right_sparse (se := (s, e)) ctx.qr.contract.shape hH h.sp hc1 hrun⟩

/-- **the final normalisation of the first tensor returns** and keeps the invariants -/
theorem normalize_ok (ctx : SweepCtx k H qd numiter) {s : Sweep 𝕜} {E : ℝ} (h : TInv H qd s 0 E) :
    ∃ s', dmrgNormalizeFirst k qd s = .ok s' ∧ TInv H qd s' 0 E := by
  have hL : 0 < H.A.length := h.d.can.hc
  have hwf := h.sp.site 0 hL
  obtain ⟨A0, X, qb, h1⟩ := localRight_ok (dqr := k.dqr) ctx.qr.contract.shape (t3wf_swap hwf) ctx.dpos
    (h.d.can.wf.qpos 0 (by omega)) (h.d.can.wf.qpos 1 (by omega)) (Aprev := MPS.ones111)
    (by rw [h.d.can.q0]; rfl)
  have hrun : dmrgNormalizeFirst k qd s = .ok ⟨s.A.setIfInBounds 0 A0, s.qD.setIfInBounds 0 qb, s.BL, s.BR⟩ := by
    unfold dmrgNormalizeFirst
    rw [bind_ok]
    exact ⟨(A0, X, qb), h1, rfl⟩
  exact ⟨_, hrun, normalize_inv ctx h.d hrun, HistWf.dmrgNormalizeFirst_sparse ctx.qr.contract.shape hL h.sp hrun⟩

/-- **one complete DMRG sweep returns** and keeps the invariants (every `L ≥ 1`) -/
theorem dmrg1Sweep_ok (ctx : SweepCtx k H qd numiter) (hm : 1 ≤ numiter) (hH : HistWf.HOk H qd) {s : Sweep 𝕜}
    {es : List ℝ} {E : ℝ} (h : TInv H qd s 0 E) :
    ∃ se', dmrg1Sweep k H qd numiter (s, es) = .ok se' ∧ ∃ E', TInv H qd se'.1 0 E' := by
  obtain ⟨⟨s1, e1⟩, h1, E1, hs1⟩ := foldIdx_range_ok (dmrg1Left k H qd numiter)
    (fun i (t : Sweep 𝕜 × ℝ) => ∃ E', TInv H qd t.1 i E') (H.A.length - 1)
    (fun i hi t ht => by
      obtain ⟨E', hE'⟩ := ht
      obtain ⟨t1, t2⟩ := t
      exact dmrg1Left_ok ctx hm hH hE' (by omega))
    (s, (0 : ℝ)) ⟨E, h⟩
  obtain ⟨⟨s2, e2⟩, h2, E2, hs2⟩ := foldIdx_down_ok (dmrg1Right k H qd numiter)
    (fun i (t : Sweep 𝕜 × ℝ) => ∃ E', TInv H qd t.1 i E') (H.A.length - 1)
    (fun i hi t ht => by
      obtain ⟨E', hE'⟩ := ht
      obtain ⟨t1, t2⟩ := t
      exact dmrg1Right_ok ctx hm hH hE')
    (s1, e1) ⟨E1, hs1⟩
  obtain ⟨s3, h3, hs3⟩ := normalize_ok ctx hs2
  refine ⟨(s3, es ++ [e2]), ?_, E2, hs3⟩
  unfold dmrg1Sweep
  rw [bind_ok]
  refine ⟨(s1, e1), h1, ?_⟩
  dsimp only
  rw [bind_ok]
  refine ⟨(s2, e2), h2, ?_⟩
  dsimp only
  rw [bind_ok]
  exact ⟨s3, h3, rfl⟩

/-- **`calculate_ground_state_local_singlesite` returns** -/
theorem dmrg1_ok {ψ : MPS 𝕜} (ctx : SweepCtx k H ψ.qd numiter) (hm : 1 ≤ numiter) (hH : HistWf.HOk H ψ.qd)
    (hlast : (H.qD.getD H.A.length []).getD 0 0 = 0) (hadm : Admissible ψ) (hlen : H.A.length = ψ.A.length)
    (numsweeps : Nat) : ∃ ψ' en, dmrgSinglesite k H ψ numsweeps numiter = .ok (ψ', en) := by
  obtain ⟨s0, nrm, E0, hp, hinv0⟩ := prologue_ok ctx hH hlast hadm hlen
  obtain ⟨⟨s, en⟩, hit, _⟩ := iterate_ok (dmrg1Sweep k H ψ.qd numiter)
    (fun (t : Sweep 𝕜 × List ℝ) => ∃ E', TInv H ψ.qd t.1 0 E')
    (fun t ht => by
      obtain ⟨E', hE'⟩ := ht
      obtain ⟨t1, t2⟩ := t
      exact dmrg1Sweep_ok ctx hm hH hE') numsweeps (s0, []) ⟨E0, hinv0⟩
  refine ⟨toMPS ψ s, en, ?_⟩
  unfold dmrgSinglesite
  rw [bind_ok]
  refine ⟨(s0, nrm), hp, ?_⟩
  dsimp only
  rw [bind_ok]
  exact ⟨(s, en), hit, rfl⟩

end Ptn.Evo

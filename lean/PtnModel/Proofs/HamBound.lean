import Mathlib.Data.List.Perm.Subperm
import PtnModel.Proofs.ChainSem
import PtnModel.Props.C18
import PtnModel.Model.Hamiltonian
/-!
# The sweep of `from_opchains` never creates more nodes per site than there are chains

Every half-chain carried by the sweep after `k` rounds is the `k`-th suffix (operators and interleaved charges) of one of
the half-chains it started with.  In round `k` the new nodes are the vertices of the cover returned by
`minimum_vertex_cover`; their number equals the size of a matching (C18), which is at most the number of `V` vertices; the
`V` vertices are pairwise different `(k+1)`-st suffixes of the original half-chains.  Hence every round creates at most as
many nodes as there are original half-chains, i.e. chains with non-zero coefficient.
-/
set_option linter.unusedSectionVars false

namespace Ptn.Ham
open Ptn Ptn.Og Ptn.Ch List

variable {κ : Type} [CommRing κ] [DecidableEq κ]

theorem mapM_ok_length {α β : Type} (f : α → Except Err β) : ∀ (l : List α) (l' : List β),
    l.mapM f = .ok l' → l'.length = l.length := by
  intro l
  induction l with
  | nil =>
    intro l' h
    simp only [mapM_nil, pure_ok_iff] at h
    simp [← h]
  | cons a l ih =>
    intro l' h
    simp only [mapM_cons, bind_ok_iff, pure_ok_iff] at h
    obtain ⟨b, _, bs, hbs, rfl⟩ := h
    simp [ih bs hbs]

/-- `h` carries the `k`-th suffix (operators and charges) of one of the half-chains `orig` -/
def IsSuffix (k : Nat) (orig : List HalfChain) (h : HalfChain) : Prop :=
  ∃ c ∈ orig, h.oids = c.oids.drop k ∧ h.qnums = c.qnums.drop k

/-- the `for i in u_cover` loop: one new node per cover vertex; new half-chains carry operators and charges of `vlist` entries -/
theorem uFold_spec (ulist : List UNode) (vlist : List HalfChain) (gamma : List ((Nat × Nat) × κ)) (adjU : List (List Nat)) :
    ∀ (uc : List Nat) (s s' : ChState κ), uc.foldlM (uCoverStep ulist vlist gamma adjU) s = .ok s' →
      s'.nidNext = s.nidNext + uc.length ∧
      ∀ h ∈ s'.vlistNext, h ∈ s.vlistNext ∨ ∃ v ∈ vlist, h.oids = v.oids ∧ h.qnums = v.qnums := by
  intro uc
  induction uc with
  | nil =>
    intro s s' h
    simp only [foldlM_nil, pure_ok_iff] at h
    subst h
    exact ⟨by simp, fun h hh => Or.inl hh⟩
  | cons i uc ih =>
    intro s s' h
    simp only [foldlM_cons, bind_ok_iff] at h
    obtain ⟨s1, h1, h2⟩ := h
    obtain ⟨hn, hv⟩ := ih s1 s' h2
    obtain ⟨u, nodePrev, items, _, _, _, _, _, _, hit, _, _, hn1, _, hvl1, _, _⟩ :=
      uCoverStep_spec ulist vlist gamma adjU s s1 i h1
    refine ⟨by rw [hn, hn1]; simp; ring, ?_⟩
    intro h hh
    rcases hv h hh with hh | hh
    · rw [hvl1, mem_append] at hh
      rcases hh with hh | hh
      · exact Or.inl hh
      · obtain ⟨t, ht, rfl⟩ := mem_map.1 hh
        exact Or.inr ⟨t.2.1, mem_of_getElem? (hit t ht).1, rfl, rfl⟩
    · exact Or.inr hh

/-- the `for j in v_cover` loop -/
theorem vFold_spec (ulist : List UNode) (vlist : List HalfChain) (gamma : List ((Nat × Nat) × κ)) (adjV : List (List Nat)) :
    ∀ (vc : List Nat) (s s' : ChState κ), vc.foldlM (vCoverStep ulist vlist gamma adjV) s = .ok s' →
      s'.nidNext = s.nidNext + vc.length ∧
      ∀ h ∈ s'.vlistNext, h ∈ s.vlistNext ∨ ∃ v ∈ vlist, h.oids = v.oids ∧ h.qnums = v.qnums := by
  intro vc
  induction vc with
  | nil =>
    intro s s' h
    simp only [foldlM_nil, pure_ok_iff] at h
    subst h
    exact ⟨by simp, fun h hh => Or.inl hh⟩
  | cons j vc ih =>
    intro s s' h
    simp only [foldlM_cons, bind_ok_iff] at h
    obtain ⟨s1, h1, h2⟩ := h
    obtain ⟨hn, hv⟩ := ih s1 s' h2
    obtain ⟨v, q, adj, hvj, _, _, _, hfold⟩ := vCoverStep_spec ulist vlist gamma adjV s s1 j h1
    obtain ⟨items, _, _, hn1, _, hvl1, _, _⟩ := vInner_spec ulist gamma j s.nidNext adj _ s1 hfold
    simp only at hn1 hvl1
    refine ⟨by rw [hn, hn1]; simp; ring, ?_⟩
    intro h hh
    rcases hv h hh with hh | hh
    · rw [hvl1, mem_append] at hh
      rcases hh with hh | hh
      · exact Or.inl hh
      · simp only [mem_singleton] at hh
        subst hh
        exact Or.inr ⟨v, mem_of_getElem? hvj, rfl, rfl⟩
    · exact Or.inr hh

/-- a duplicate-free list of numbers below `n` has at most `n` elements -/
theorem nodup_lt_length (l : List Nat) (n : Nat) (hn : l.Nodup) (hl : ∀ x ∈ l, x < n) : l.length ≤ n := by
  have : l ⊆ List.range n := fun x hx => List.mem_range.2 (hl x hx)
  simpa using (List.subperm_of_subset hn this).length_le

/-- **One round of the sweep.**  If all half-chains before the round are `k`-th suffixes of `orig`, then the round creates at
most `orig.length` nodes and all half-chains after it are `(k+1)`-st suffixes of `orig`. -/
theorem siteStep_bound (orig : List HalfChain) (k : Nat) (s s' : ChState κ)
    (hinv : ∀ h ∈ s.vlistNext, IsSuffix k orig h) (h : siteStep s = .ok s') :
    s.nidNext ≤ s'.nidNext ∧ (s'.nidNext - s.nidNext).toNat ≤ orig.length ∧
    ∀ h ∈ s'.vlistNext, IsSuffix (k + 1) orig h := by
  rw [siteStep_eq_with] at h
  unfold siteStepWith at h
  simp only [bind_ok_iff, pyAssert_ok_iff, pure_ok_iff] at h
  obtain ⟨p, hp, bg, hbg, ⟨uc, vc⟩, hcov, s2, hu, s3, hv, _, _, hs3⟩ := h
  subst hs3
  simp only at hu hv
  have hI := sitePartition_inv _ _ _ hp
  obtain ⟨hnu, hvu⟩ := uFold_spec _ _ _ _ uc _ s2 hu
  obtain ⟨hnv, hvv⟩ := vFold_spec _ _ _ _ vc _ s3 hv
  simp only at hnu hvu
  -- every element of `p.vlist` is a (k+1)-st suffix
  have hsuf : ∀ v ∈ p.vlist, IsSuffix (k + 1) orig v := by
    intro v hv'
    obtain ⟨_, _, hc, hc1, o, q, hc2, hc3⟩ := hI.vsrc v hv'
    obtain ⟨c, hc0, ho, hq⟩ := hinv hc.1 (of_mem_zip (a := hc.1) (b := hc.2) hc1).1
    refine ⟨c, hc0, ?_, ?_⟩
    · have : v.oids = (c.oids.drop k).tail := by rw [← ho, hc2]; rfl
      rw [this, List.tail_drop]
    · have : v.qnums = (c.qnums.drop k).tail := by rw [← hq, hc3]; rfl
      rw [this, List.tail_drop]
  -- the number of `V` vertices is at most the number of original half-chains
  have hV : p.vlist.length ≤ orig.length := by
    have hinj : (p.vlist.map fun v => (v.oids, v.qnums)).Nodup := by
      refine (List.nodup_map_iff_inj_on hI.vnodup).2 ?_
      intro x hx y hy hxy
      have hx1 := (hI.vsrc x hx).1
      have hy1 := (hI.vsrc y hy).1
      cases x; cases y
      simp only [Prod.mk.injEq] at hxy
      simp only at hx1 hy1
      obtain ⟨h1, h2⟩ := hxy
      subst h1 h2 hx1 hy1
      rfl
    have hsub : (p.vlist.map fun v => (v.oids, v.qnums)) ⊆ orig.map fun c => (c.oids.drop (k + 1), c.qnums.drop (k + 1)) := by
      intro x hx
      obtain ⟨v, hv', rfl⟩ := mem_map.1 hx
      obtain ⟨c, hc0, ho, hq⟩ := hsuf v hv'
      exact mem_map.2 ⟨c, hc0, by rw [ho, hq]⟩
    simpa using (List.subperm_of_subset hinj hsub).length_le
  -- the cover has as many vertices as a matching, and a matching has at most `numV` pairs
  obtain ⟨hwf, _, hnV, _, _⟩ := Ptn.C18.mk'_wf hbg
  obtain ⟨m, hm, _, _, _, _, _, hlen⟩ := Ptn.C18.cover_valid_and_size hwf hcov
  obtain ⟨hedge, _, hnd⟩ := Ptn.C18.matching_valid hwf hm
  have hm_le : m.length ≤ bg.numV := by
    have := nodup_lt_length (m.map Prod.snd) bg.numV hnd (by
      intro x hx
      obtain ⟨pr, hpr, rfl⟩ := mem_map.1 hx
      exact hwf.rangeU pr.1 pr.2 (hedge pr hpr))
    simpa using this
  have hnV' : bg.numV = p.vlist.length := by exact_mod_cast hnV
  have hcnt : s3.nidNext = s.nidNext + ((uc.length + vc.length : Nat) : Int) := by
    rw [hnv, hnu]; push_cast; ring
  refine ⟨by rw [hcnt]; omega, ?_, ?_⟩
  · rw [hcnt]
    have : (uc.length + vc.length : Nat) ≤ orig.length := by omega
    omega
  · intro h hh
    rcases hvv h hh with hh | ⟨v, hv', ho, hq⟩
    · rcases hvu h hh with hh | ⟨v, hv', ho, hq⟩
      · simp at hh
      · obtain ⟨c, hc0, ho', hq'⟩ := hsuf v hv'
        exact ⟨c, hc0, by rw [ho, ho'], by rw [hq, hq']⟩
    · obtain ⟨c, hc0, ho', hq'⟩ := hsuf v hv'
      exact ⟨c, hc0, by rw [ho, ho'], by rw [hq, hq']⟩

/-- **The sweep.**  Starting from any state, each of the first `n` rounds creates at most as many nodes as the state has
half-chains. -/
theorem sweepCounts_bound (s0 : ChState κ) :
    ∀ (n : Nat) (s : ChState κ) (cs : List Nat), sweepCounts s0 n = .ok (s, cs) →
      cs.length = n ∧ (∀ c ∈ cs, c ≤ s0.vlistNext.length) ∧ ∀ h ∈ s.vlistNext, IsSuffix n s0.vlistNext h := by
  intro n
  induction n with
  | zero =>
    intro s cs h
    simp only [sweepCounts, Except.ok.injEq, Prod.mk.injEq] at h
    obtain ⟨rfl, rfl⟩ := h
    exact ⟨rfl, by simp, fun h hh => ⟨h, hh, by simp, by simp⟩⟩
  | succ n ih =>
    intro s cs h
    simp only [sweepCounts, bind_ok_iff, pure_ok_iff] at h
    obtain ⟨⟨s1, cs1⟩, h1, s2, h2, h3⟩ := h
    simp only [Prod.mk.injEq] at h3
    obtain ⟨rfl, rfl⟩ := h3
    obtain ⟨hl, hb, hs⟩ := ih s1 cs1 h1
    obtain ⟨_, hc, hs'⟩ := siteStep_bound s0.vlistNext n s1 s2 hs h2
    refine ⟨by simp [hl], ?_, hs'⟩
    intro c hc'
    rcases mem_append.1 hc' with hc' | hc'
    · exact hb c hc'
    · simp only [mem_singleton] at hc'
      subst hc'
      exact hc

/-- the state before the sweep has one half-chain per chain with non-zero coefficient -/
theorem chainsInitState_length (chains : List (OpChain κ)) (L id : Int) (s0 : ChState κ)
    (h : chainsInitState chains L id = .ok s0) :
    s0.vlistNext.length = (chains.filter fun c => c.coeff != 0).length := by
  unfold chainsInitState at h
  split at h
  · simp [throw, throwThe, MonadExceptOf.throw, bind, Except.bind] at h
  · simp only [bind_ok_iff, pure_ok_iff] at h
    obtain ⟨_, _, _, _, g, _, pch, hpch, vl, hvl, hs⟩ := h
    subst hs
    simp only
    rw [mapM_ok_length _ _ _ hvl, mapM_ok_length _ _ _ hpch]

end Ptn.Ham

namespace Ptn.Ham
open Ptn Ptn.Og Ptn.Ch List

variable {κ : Type} [CommRing κ] [DecidableEq κ]

/-- the `for _ in range(n)` loop of `from_opchains` is `sweepCounts` without the bookkeeping -/
theorem sweep_of_fold (s0 : ChState κ) : ∀ (n : Nat) (s : ChState κ),
    (List.range n).foldlM (fun s (_ : Nat) => siteStep s) s0 = .ok s → ∃ cs, sweepCounts s0 n = .ok (s, cs) := by
  intro n
  induction n with
  | zero =>
    intro s h
    simp only [range_zero, foldlM_nil, pure_ok_iff] at h
    exact ⟨[], by simp [sweepCounts, h]⟩
  | succ n ih =>
    intro s h
    rw [range_succ, foldlM_append] at h
    simp only [bind_ok_iff, foldlM_cons, foldlM_nil, pure_ok_iff] at h
    obtain ⟨s1, h1, s2, h2, rfl⟩ := h
    obtain ⟨cs, hcs⟩ := ih s1 h1
    exact ⟨cs ++ [(s2.nidNext - s1.nidNext).toNat], by simp [sweepCounts, hcs, h2, bind, Except.bind, pure, Except.pure]⟩

/-- every successful `from_opchains` run is a run of the counted sweep -/
theorem fromOpchains_counts (chains : List (OpChain κ)) (L id : Int) (g : Graph κ)
    (h : fromOpchains chains L id = .ok g) : ∃ counts, siteNodeCounts chains L id = .ok counts := by
  unfold fromOpchains at h
  split at h
  · simp [throw, throwThe, MonadExceptOf.throw, bind, Except.bind] at h
  · rename_i hne
    simp only [bind_ok_iff, pure_ok_iff] at h
    obtain ⟨n0, hn0, n1, hn1, g0, hg0, pch, hpch, vl, hvl, s, hs, _⟩ := h
    obtain ⟨cs, hcs⟩ := sweep_of_fold _ _ s hs
    refine ⟨cs, ?_⟩
    unfold siteNodeCounts chainsInitState
    simp [hne, hn0, hn1, hg0, hpch, hvl, hcs, bind, Except.bind, pure, Except.pure]

end Ptn.Ham

import PtnModel.Proofs.OgDen
/-!
# Forward and backward path sums coincide; `flip`

`denE_exchange`: on an edge list in which no edge leaves `t1` and no edge enters `t0`, the path sum from `t0` to
`t1` reading `w` forwards equals the path sum over the reversed edges from `t1` to `t0` reading `w` backwards.
With it: `flip` reverses every word of the denotation, keeps structural validity, and `is_consistent` is
invariant under `flip` (all its clauses are symmetric in the direction).
-/
set_option linter.unusedSectionVars false

namespace Ptn.Og
open List

variable {κ : Type} [CommRing κ]

theorem sum_sum_comm {α β : Type} (l1 : List α) (l2 : List β) (f : α → β → κ) :
    (l1.map fun a => (l2.map fun b => f a b).sum).sum = (l2.map fun b => (l1.map fun a => f a b).sum).sum := by
  induction l1 with
  | nil => simp
  | cons a l1 ih => simp only [map_cons, sum_cons, ih, sum_map_add]

@[simp] theorem opc_flip (e : Edge κ) (o : Int) : opc e.flip o = opc e o := rfl

section Exchange
variable (es : List (Edge κ)) (t0 t1 : Int)

/-- forward step without the terminal test (no edge leaves `t1`) -/
theorem denE_cons_fwd (h1 : ∀ e ∈ es, e.nids.1 ≠ t1) (o : Int) (w : Word) (y : Int) :
    denE es t1 (o :: w) y = (es.map fun e => if e.nids.1 = y then opc e o * denE es t1 w e.nids.2 else 0).sum := by
  rw [denE_cons]
  by_cases hy : y = t1
  · subst hy
    simp only [if_true]
    symm
    apply sum_map_eq_zero
    intro e he
    simp [h1 e he]
  · simp [hy]

/-- backward step without the terminal test (no edge enters `t0`) -/
theorem denE_cons_bwd (h0 : ∀ e ∈ es, e.nids.2 ≠ t0) (o : Int) (u : Word) (y : Int) :
    denE (es.map Edge.flip) t0 (o :: u) y
      = (es.map fun e => if e.nids.2 = y then opc e o * denE (es.map Edge.flip) t0 u e.nids.1 else 0).sum := by
  have h1' : ∀ e ∈ es.map Edge.flip, e.nids.1 ≠ t0 := by
    intro e he
    obtain ⟨e', he', rfl⟩ := mem_map.1 he
    simpa [Edge.flip] using h0 e' he'
  rw [denE_cons_fwd _ _ h1', map_map]
  apply sum_map_congr
  intro e _
  rfl

/-- the path sum split at one edge: backward part, the edge, forward part -/
def midSum (u : Word) (o : Int) (v : Word) : κ :=
  (es.map fun e => denE (es.map Edge.flip) t0 u e.nids.1 * opc e o * denE es t1 v e.nids.2).sum

theorem midSum_shift (h1 : ∀ e ∈ es, e.nids.1 ≠ t1) (h0 : ∀ e ∈ es, e.nids.2 ≠ t0)
    (u : Word) (o o' : Int) (v : Word) :
    midSum es t0 t1 u o (o' :: v) = midSum es t0 t1 (o :: u) o' v := by
  unfold midSum
  have L : ∀ e ∈ es, denE (es.map Edge.flip) t0 u e.nids.1 * opc e o * denE es t1 (o' :: v) e.nids.2
      = (es.map fun e' => if e.nids.2 = e'.nids.1
          then denE (es.map Edge.flip) t0 u e.nids.1 * opc e o * (opc e' o' * denE es t1 v e'.nids.2) else 0).sum := by
    intro e _
    rw [denE_cons_fwd es t1 h1, ← sum_map_const_mul]
    apply sum_map_congr
    intro e' _
    by_cases hh : e'.nids.1 = e.nids.2
    · simp [hh]
    · have : ¬ e.nids.2 = e'.nids.1 := fun h => hh h.symm
      simp [hh, this]
  have R : ∀ e' ∈ es, denE (es.map Edge.flip) t0 (o :: u) e'.nids.1 * opc e' o' * denE es t1 v e'.nids.2
      = (es.map fun e => if e.nids.2 = e'.nids.1
          then denE (es.map Edge.flip) t0 u e.nids.1 * opc e o * (opc e' o' * denE es t1 v e'.nids.2) else 0).sum := by
    intro e' _
    rw [denE_cons_bwd es t0 h0, mul_assoc, ← sum_map_mul_const]
    apply sum_map_congr
    intro e _
    by_cases hh : e.nids.2 = e'.nids.1
    · simp only [hh, if_true]; ring
    · simp [hh]
  rw [sum_map_congr _ _ _ L, sum_map_congr _ _ _ R, sum_sum_comm]

theorem midSum_eq_bwd (h1 : ∀ e ∈ es, e.nids.1 ≠ t1) (h0 : ∀ e ∈ es, e.nids.2 ≠ t0) :
    ∀ (v u : Word) (o : Int), midSum es t0 t1 u o v = denE (es.map Edge.flip) t0 (v.reverse ++ o :: u) t1 := by
  intro v
  induction v with
  | nil =>
    intro u o
    simp only [reverse_nil, nil_append]
    rw [denE_cons_bwd es t0 h0]
    unfold midSum
    apply sum_map_congr
    intro e _
    by_cases hh : e.nids.2 = t1
    · simp only [denE_nil, hh, if_true]; ring
    · simp [denE_nil, hh]
  | cons o' v ih =>
    intro u o
    rw [midSum_shift es t0 t1 h1 h0, ih]
    simp

/-- **Exchange**: forward path sum = backward path sum of the reversed word. -/
theorem denE_exchange (h1 : ∀ e ∈ es, e.nids.1 ≠ t1) (h0 : ∀ e ∈ es, e.nids.2 ≠ t0) (w : Word) :
    denE es t1 w t0 = denE (es.map Edge.flip) t0 w.reverse t1 := by
  cases w with
  | nil =>
    simp only [denE_nil, reverse_nil]
    by_cases h : t0 = t1
    · simp [h]
    · have : ¬ t1 = t0 := fun h' => h h'.symm
      simp [h, this]
  | cons o v =>
    rw [denE_cons_fwd es t1 h1]
    have := midSum_eq_bwd es t0 t1 h1 h0 v [] o
    simp only [reverse_cons]
    rw [← this]
    unfold midSum
    apply sum_map_congr
    intro e _
    by_cases hh : e.nids.1 = t0
    · simp [denE_nil, hh]
    · simp [denE_nil, hh]

end Exchange

/-! ## `flip` -/

@[simp] theorem Node.flip_eids (n : Node) (d : Bool) : n.flip.eids d = n.eids (!d) := by
  cases d <;> rfl

@[simp] theorem Node.flip_nid (n : Node) : n.flip.nid = n.nid := rfl

@[simp] theorem Edge.flip_nid (e : Edge κ) (d : Bool) : e.flip.nid d = e.nid (!d) := by
  cases d <;> rfl

@[simp] theorem Edge.flip_eid (e : Edge κ) : e.flip.eid = e.eid := rfl

@[simp] theorem Graph.flip_term (g : Graph κ) (d : Bool) : g.flip.term d = g.term (!d) := by
  cases d <;> rfl

theorem Graph.flip_edgeList (g : Graph κ) : g.flip.edgeList = g.edgeList.map Edge.flip := by
  simp [Graph.edgeList, Graph.flip, map_map, Function.comp]

theorem Graph.flip_mem_nodes {g : Graph κ} {k : Int} {n : Node} :
    (k, n) ∈ g.flip.nodes ↔ ∃ n', (k, n') ∈ g.nodes ∧ n = n'.flip := by
  simp only [Graph.flip, mem_map, Prod.mk.injEq, Prod.exists]
  constructor
  · rintro ⟨a, b, hab, rfl, rfl⟩; exact ⟨b, hab, rfl⟩
  · rintro ⟨n', hn', rfl⟩; exact ⟨k, n', hn', rfl, rfl⟩

theorem Graph.flip_mem_edges {g : Graph κ} {k : Int} {e : Edge κ} :
    (k, e) ∈ g.flip.edges ↔ ∃ e', (k, e') ∈ g.edges ∧ e = e'.flip := by
  simp only [Graph.flip, mem_map, Prod.mk.injEq, Prod.exists]
  constructor
  · rintro ⟨a, b, hab, rfl, rfl⟩; exact ⟨b, hab, rfl⟩
  · rintro ⟨e', he', rfl⟩; exact ⟨k, e', he', rfl, rfl⟩

theorem Graph.flip_keys_nodes (g : Graph κ) : dKeys g.flip.nodes = dKeys g.nodes := by
  simp [dKeys, Graph.flip, map_map, Function.comp]

theorem Graph.flip_keys_edges (g : Graph κ) : dKeys g.flip.edges = dKeys g.edges := by
  simp [dKeys, Graph.flip, map_map, Function.comp]

/-- `flip` keeps structural validity -/
theorem SValid.flip {g : Graph κ} (h : SValid g) : SValid g.flip where
  nodesKeys := by rw [Graph.flip_keys_nodes]; exact h.nodesKeys
  edgesKeys := by rw [Graph.flip_keys_edges]; exact h.edgesKeys
  nodeKey := by
    intro k n hn
    obtain ⟨n', hn', rfl⟩ := Graph.flip_mem_nodes.1 hn
    exact h.nodeKey k n' hn'
  edgeKey := by
    intro k e he
    obtain ⟨e', he', rfl⟩ := Graph.flip_mem_edges.1 he
    exact h.edgeKey k e' he'
  eidsNodup := by
    intro k n hn d
    obtain ⟨n', hn', rfl⟩ := Graph.flip_mem_nodes.1 hn
    simpa using h.eidsNodup k n' hn' (!d)
  nodeEdge := by
    intro k n hn d eid heid
    obtain ⟨n', hn', rfl⟩ := Graph.flip_mem_nodes.1 hn
    obtain ⟨e, he, hk⟩ := h.nodeEdge k n' hn' (!d) eid (by simpa using heid)
    exact ⟨e.flip, Graph.flip_mem_edges.2 ⟨e, he, rfl⟩, by simpa using hk⟩
  edgeNode := by
    intro k e he d
    obtain ⟨e', he', rfl⟩ := Graph.flip_mem_edges.1 he
    obtain ⟨n, hn, hk⟩ := h.edgeNode k e' he' (!d)
    exact ⟨n.flip, Graph.flip_mem_nodes.2 ⟨n, by simpa using hn, rfl⟩, by simpa using hk⟩
  termNode := by
    intro d
    obtain ⟨n, hn, hk⟩ := h.termNode (!d)
    exact ⟨n.flip, Graph.flip_mem_nodes.2 ⟨n, by simpa using hn, rfl⟩, by simpa using hk⟩
  opicsSorted := by
    intro k e he
    obtain ⟨e', he', rfl⟩ := Graph.flip_mem_edges.1 he
    exact h.opicsSorted k e' he'

/-- **`flip` reverses the site order of every term** (`denE` form). -/
theorem denE_flip {g : Graph κ} (h : SValid g) (w : Word) :
    denE g.flip.edgeList (g.flip.term true) w (g.flip.term false)
      = denE g.edgeList (g.term true) w.reverse (g.term false) := by
  have h1 : ∀ e ∈ g.edgeList, e.nids.1 ≠ g.term true := by
    intro e he
    obtain ⟨⟨k, e'⟩, hp, rfl⟩ := mem_map.1 he
    exact h.no_out_term hp
  have h0 : ∀ e ∈ g.edgeList, e.nids.2 ≠ g.term false := by
    intro e he
    obtain ⟨⟨k, e'⟩, hp, rfl⟩ := mem_map.1 he
    exact h.no_in_term hp
  have := denE_exchange g.edgeList (g.term false) (g.term true) h1 h0 w.reverse
  rw [reverse_reverse] at this
  rw [this, Graph.flip_edgeList]
  simp

/-- **`flip` reverses the site order of every term** of the model's denotation function. -/
theorem denF_flip {g : Graph κ} (h : SValid g) (w : Word) : g.flip.denF w = g.denF w.reverse := by
  rw [denF_eq_denE h.flip, denF_eq_denE h, denE_flip h]

end Ptn.Og

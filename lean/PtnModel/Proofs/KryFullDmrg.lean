import PtnModel.Proofs.KryFullEvo
import PtnModel.Proofs.EvoExactCentre
/-!
# The local eigenproblem at the centre of a complete mixed-canonical state is the dense eigenproblem

`s` in mixed-canonical form with centre `c`, square left isometries left of `c` and square right isometries right of `c`: the
frame `V` (`emb`, `locOf = Vᴴ`) is unitary.
* `locOf_adjoint`, `centre_overlap` : `⟪Vᴴ w, X⟫ = ⟪w, V X⟫` — the overlap of a dense vector `w` with the dense state equals the
  overlap of `Vᴴ w` with the centre tensor;
* `dmrg_centre_reach` : with a full-length Lanczos run, the energy returned by `_minimize_local_energy` at the centre is at
  most every eigenvalue of the dense operator possessing an eigenvector that overlaps the current dense state;
* `dmrg_centre_eigen` : the dense state after the local optimisation is an eigenvector of the dense operator with the
  returned energy as eigenvalue.
-/
set_option linter.unusedSectionVars false

namespace Ptn.Evo
open Ptn Ptn.BondOps Ptn.Ortho Ptn.Env Ptn.Krylov Ptn.Dense Finset

variable {𝕜 : Type} [RCLike 𝕜]

/-- `⟪Vᴴ w, X⟫ = ⟪w, V X⟫` (pure algebra, no completeness needed) -/
theorem locOf_adjoint (Ls Rs : List (T3 𝕜)) (c n d Dl Dr : Nat) (w : List Nat → 𝕜) (X : T3 𝕜) :
    ∑ t ∈ range d, ∑ x ∈ range Dl, ∑ y ∈ range Dr, star ((locOf Ls Rs c n d Dl Dr w).f t x y) * X.f t x y =
    ∑ σl ∈ digits (List.replicate c d), ∑ t ∈ range d, ∑ σr ∈ digits (List.replicate n d),
      star (w (σl ++ t :: σr)) * emb Ls Rs Dl Dr X σl t σr := by
  unfold locOf emb
  simp only [star_sum, star_mul', star_star, Finset.sum_mul, Finset.mul_sum]
  sum_pull (digits (List.replicate c d))
  sum_pull (range d)
  sum_pull (digits (List.replicate n d))
  sum_pull (range Dl)
  sum_pull (range Dr)
  ring

variable [DecidableEq 𝕜]
variable {k : EvoKernels 𝕜 ℝ} {H : MPO 𝕜} {qd : List Int} {numiter : Nat}

/-- the overlap of `Vᴴ w` with the centre tensor is the overlap of `w` with the dense state -/
theorem centre_overlap {s : Sweep 𝕜} {c : Nat} (h : Canon H qd s c) (w : List Nat → 𝕜) :
    vdot (qd.length * mpsBond (cur qd s) c * mpsBond (cur qd s) (c + 1)) (flat3 (cLoc qd s c w)) (flat3 (getA s c)) =
      ∑ σ ∈ digitsU qd.length H.A.length, star (w σ) * (cur qd s).amp σ := by
  have hcs : c < s.A.size := by rw [h.wf.sizeA]; exact h.hc
  have hc' : c < (cur qd s).A.length := by rw [h.len]; exact h.hc
  obtain ⟨s0, s1', s2'⟩ := h.wf.shape c h.hc
  have s1 := s1'.trans (h.bond (j := c) (Nat.le_of_lt h.hc)).symm
  have s2 := s2'.trans (h.bond (j := c + 1) h.hc).symm
  have hv := vdot_flat3 (B := cLoc qd s c w) (A := getA s c) s0.symm s1.symm s2.symm
  rw [s0, s1, s2] at hv
  rw [hv]
  unfold inner3
  rw [s0, s1, s2]
  simp only [starRingEnd_apply]
  rw [locOf_adjoint, ← h.len, sum_digitsU_split hc']
  refine sum_congr rfl fun σl hl => sum_congr rfl fun t ht => sum_congr rfl fun σr hr => ?_
  rw [← amp_setSite_split h.shaped hc' s0 s1 s2 hl (mem_range.1 ht) hr, cur_setSite_self qd s hcs]

/-- **The local minimum at the centre of a complete state is at most every reachable dense eigenvalue.**  `s` in
mixed-canonical form with centre `c`, square left isometries left of `c`, square right isometries right of `c`;
`_minimize_local_energy` at `c` returns `(en, Aopt)` and its Lanczos run returned as many vectors as the local dimension.
Then for every eigenvector `x` of the dense operator (eigenvalue `lam`) with `⟪x, ψ⟫ ≠ 0` (`ψ` the dense state of `s`):
`en ≤ lam`. -/
theorem dmrg_centre_reach (ctx : SweepCtx k H qd numiter) {s : Sweep 𝕜} {c : Nat} (h : Canon H qd s c)
    (hsqL : ∀ j, j < c → SqL qd s j) (hsqR : ∀ j, c < j → j < H.A.length → SqR qd s j) {en : ℝ} {Aopt : T3 𝕜}
    (hm : minimizeLocalEnergy k (getBL s c) (getBR s c) (H.A.getD c zeroT4) (getA s c) numiter = .ok (en, Aopt))
    (hfull : MidFull k H numiter s c) {lam : ℝ} {x : List Nat → 𝕜} (hx : DenseEig H qd.length lam x)
    (hov : ∑ σ ∈ digitsU qd.length H.A.length, star (x σ) * (cur qd s).amp σ ≠ 0) : en ≤ lam := by
  obtain ⟨ws, u, hk, rfl, hun, rfl⟩ := minimize_unfold hm
  obtain ⟨s0, s1', s2'⟩ := h.wf.shape c h.hc
  have s1 := s1'.trans (h.bond (j := c) (Nat.le_of_lt h.hc)).symm
  have s2 := s2'.trans (h.bond (j := c + 1) h.hc).symm
  obtain ⟨hF, hHerm⟩ := canon_local h ctx.hH ctx.herm
  unfold MidFull at hfull
  have hvl : (flat3 (getA s c)).length = (getA s c).d0 * (getA s c).d1 * (getA s c).d2 := length_flat3 _
  rw [s0, s1, s2] at hF hHerm hk hfull hvl
  have hA := isHermitian_localHFun hF hHerm
  have hM := actsAs_localHFun hF
  have hHM := herm_matrix_of_actsAs hA hM
  have hU := centre_eigen ctx h hsqL hsqR hF hx
  have hovl := centre_overlap h x
  rw [← hvl] at hM hHM hU hovl
  obtain ⟨_, hreach, _, _⟩ := C15.ritz_exact_full ctx.norm hM hHM (ctx.eigh _ _) hfull (Nat.le_refl 1) hk
  obtain ⟨r, hr, hle⟩ := hreach (flat3 (cLoc qd s c x)) ((lam : ℝ) : 𝕜) hU.1 hU.2 (by rw [hovl]; exact hov)
  have : lam = r := by exact_mod_cast hr
  rw [this]; exact hle

/-- **The optimised dense state is an eigenvector of the dense operator.**  Same hypotheses: the dense state of `s[c := Aopt]`
satisfies `H_dense ψ' = en ψ'`. -/
theorem dmrg_centre_eigen (ctx : SweepCtx k H qd numiter) {s : Sweep 𝕜} {c : Nat} (h : Canon H qd s c)
    (hsqL : ∀ j, j < c → SqL qd s j) (hsqR : ∀ j, c < j → j < H.A.length → SqR qd s j) {en : ℝ} {Aopt : T3 𝕜}
    (hm : minimizeLocalEnergy k (getBL s c) (getBR s c) (H.A.getD c zeroT4) (getA s c) numiter = .ok (en, Aopt))
    (hfull : MidFull k H numiter s c) : DenseEig H qd.length en (cur qd (setA s c Aopt)).amp := by
  obtain ⟨ws, u, hk, rfl, hun, rfl⟩ := minimize_unfold hm
  have hc' : c < (cur qd s).A.length := by rw [h.len]; exact h.hc
  have hsh := h.shaped
  obtain ⟨s0, s1', s2'⟩ := h.wf.shape c h.hc
  have s1 := s1'.trans (h.bond (j := c) (Nat.le_of_lt h.hc)).symm
  have s2 := s2'.trans (h.bond (j := c + 1) h.hc).symm
  have F := h.frame hsqL hsqR
  have hW : H.A[c]? = some (H.A.getD c zeroT4) := by
    rw [List.getD_eq_getElem?_getD, List.getElem?_eq_getElem h.hc]; rfl
  obtain ⟨hF, hHerm⟩ := canon_local h ctx.hH ctx.herm
  unfold MidFull at hfull
  have hvl : (flat3 (getA s c)).length = (getA s c).d0 * (getA s c).d1 * (getA s c).d2 := length_flat3 _
  rw [s0, s1, s2] at hF hHerm hk hfull hvl ⊢
  have hA := isHermitian_localHFun hF hHerm
  have hM := actsAs_localHFun hF
  have hHM := herm_matrix_of_actsAs hA hM
  rw [← hvl] at hM hHM
  obtain ⟨heig, _, hun', _⟩ := C15.ritz_exact_full ctx.norm hM hHM (ctx.eigh _ _) hfull (Nat.le_refl 1) hk
  obtain ⟨hum, _, _⟩ := C15.ritz_vectors ctx.norm hM hHM (ctx.eigh _ _) hk
  rw [hvl] at hum heig
  have hcl : (matCol u 0).length = qd.length * mpsBond (cur qd s) c * mpsBond (cur qd s) (c + 1) := by
    simp [matCol, hum]
  set Aopt : T3 𝕜 := (unflat3 (matCol u 0) qd.length (mpsBond (cur qd s) c) (mpsBond (cur qd s) (c + 1))).tab with hAopt
  have hfl : flat3 Aopt = matCol u 0 := flat3_unflat3_tab hcl
  have hF1 : LocalFits (getBL s c) (getBR s c) (H.A.getD c zeroT4) Aopt.d0 Aopt.d1 Aopt.d2 := hF
  obtain ⟨T, hT, t0, t1, t2, _⟩ := applyLocal_ker hF (A := Aopt) rfl rfl rfl
  have e1 : localHFun (getBL s c) (getBR s c) (H.A.getD c zeroT4) qd.length (mpsBond (cur qd s) c)
      (mpsBond (cur qd s) (c + 1)) (matCol u 0) = flat3 T := by
    have := localHFun_flat3 hF1 hT
    rw [hfl] at this
    exact this
  -- the local eigenvector relation, entrywise
  have hent : ∀ t x y, t < qd.length → x < mpsBond (cur qd s) c → y < mpsBond (cur qd s) (c + 1) →
      T.f t x y = ((ws.getD 0 0 : ℝ) : 𝕜) * Aopt.f t x y := by
    intro t x y ht hx hy
    have hi := idx3_lt ht hx hy
    have e2 := heig 0 hun' _ hi
    rw [e1] at e2
    have e3 := vget_flat3 T (i := t) (j := x) (k := y) (by rw [t0]; exact ht) (by rw [t1]; exact hx) (by rw [t2]; exact hy)
    rw [t1, t2] at e3
    have e4 : vget (flat3 Aopt) ((t * mpsBond (cur qd s) c + x) * mpsBond (cur qd s) (c + 1) + y) = Aopt.f t x y :=
      vget_flat3 Aopt (i := t) (j := x) (k := y) ht hx hy
    rw [hfl] at e4
    rw [← e3, e2, e4]
  have e0 : cur qd (setA s c Aopt) = (cur qd s).setSite c Aopt := cur_setSite qd s c Aopt
  rw [e0]
  intro σ hσ
  have hσ' : σ ∈ digitsU qd.length (cur qd s).A.length := by rw [h.len]; exact hσ
  obtain ⟨σl, t, σr, hl, ht, hr, rfl⟩ := mem_digitsU_split hc' hσ'
  set g : List Nat → 𝕜 := fun σ => ∑ τ ∈ digitsU qd.length (cur qd s).A.length, H.elem σ τ * ((cur qd s).setSite c Aopt).amp τ
    with hg
  have hloc : ∀ x y, x < mpsBond (cur qd s) c → y < mpsBond (cur qd s) (c + 1) →
      (cLoc qd s c g).f t x y = ∑ f ∈ range 1, ((ws.getD 0 0 : ℝ) : 𝕜) * Aopt.f t x y := by
    intro x y hx hy
    rw [Finset.sum_range_one, ← hent t x y ht hx hy]
    exact (heff_entry hsh ctx.hH h.len hc' hW rfl rfl rfl (h.bl c (Nat.le_refl c)) (h.br c (Nat.le_refl c) h.hc) hT
      ht hx hy).symm
  have hVU := F.VU g t hl hr
  rw [emb_lin (K := 1) (a := fun _ => ((ws.getD 0 0 : ℝ) : 𝕜)) (Y := fun _ => Aopt) hloc, Finset.sum_range_one,
    ← amp_setSite_split hsh hc' rfl rfl rfl hl ht hr] at hVU
  rw [← h.len]
  exact hVU.symm

end Ptn.Evo

import PtnModel.Proofs.DenseFromVector
import PtnModel.Proofs.CompressScale
/-!
# Error bound of `MPS.from_vector(d, nsites, v, tol)` (TT-SVD), for C13

One loop iteration splits `M = v.reshape(Dleft·d, d^rem)` as `M ≈ u_k · v'` with `u_k` the kept left singular vectors
(isometry) and `v' = u_kᴴ M`; for every approximation `X` of `v'`: `‖u_k X - M‖² = ‖X - v'‖² + ‖M‖² - ‖v'‖²`
(`proj_identity`), and `‖M‖² - ‖v'‖²` is the discarded weight `≤ tol ‖M‖²`.  Induction over the loop gives
`‖ψ - v‖² ≤ nsites · tol · ‖v‖²`.
-/
set_option linter.unusedSectionVars false
set_option linter.unusedVariables false
namespace Ptn.Compress
open Ptn.BondOps Ptn.Ortho Ptn.Env Finset

variable {𝕜 : Type} [RCLike 𝕜] [DecidableEq 𝕜]
attribute [local instance] rcRealLike

/-- a sum over digit lists of a function of the row-major position is a sum over the positions -/
theorem sum_flat {M : Type} [AddCommMonoid M] (d : Nat) : ∀ (n : Nat) (g : Nat → M),
    ∑ σ ∈ digitsU d n, g (flat d σ) = ∑ c ∈ range (d ^ n), g c
  | 0, g => by simp [digitsU, flat, flatFrom]
  | n + 1, g => by
    rw [sum_digitsU_succ, pow_succ, Nat.mul_comm, sum_fused]
    refine Finset.sum_congr rfl fun s _ => ?_
    have := sum_flat d n (fun c => g (s * d ^ n + c))
    rw [← this]
    refine Finset.sum_congr rfl fun σ hσ => ?_
    have hl : σ.length = n := by
      have := length_of_mem_digits hσ
      simpa using this
    rw [Ptn.flat_cons, MPS.flatFrom_eq, hl]

/-- Pythagoras for a projection: if `u` has orthonormal columns and `w = uᴴ M` then
`‖u X - M‖² = ‖X - w‖² + (‖M‖² - ‖w‖²)` (column index set `J` arbitrary) -/
theorem proj_identity {ι : Type} (J : Finset ι) (m K : Nat) (u : Nat → Nat → 𝕜) (M : Nat → ι → 𝕜)
    (w X : Nat → ι → 𝕜)
    (hiso : ∀ p p', p < K → p' < K → ∑ i ∈ range m, star (u i p) * u i p' = if p = p' then 1 else 0)
    (hproj : ∀ p j, p < K → j ∈ J → ∑ i ∈ range m, star (u i p) * M i j = w p j) :
    ∑ i ∈ range m, ∑ j ∈ J, ‖∑ p ∈ range K, u i p * X p j - M i j‖ ^ 2 =
      ∑ p ∈ range K, ∑ j ∈ J, ‖X p j - w p j‖ ^ 2 +
        (∑ i ∈ range m, ∑ j ∈ J, ‖M i j‖ ^ 2 - ∑ p ∈ range K, ∑ j ∈ J, ‖w p j‖ ^ 2) := by
  apply RCLike.ofReal_injective (K := 𝕜)
  rw [Finset.sum_comm, Finset.sum_comm (s := range K), Finset.sum_comm (s := range m) (t := J),
    Finset.sum_comm (s := range K) (t := J), ← Finset.sum_sub_distrib, ← Finset.sum_add_distrib,
    RCLike.ofReal_sum, RCLike.ofReal_sum]
  refine Finset.sum_congr rfl fun j hj => ?_
  push_cast
  simp only [← RCLike.ofReal_pow, normsq_cast]
  have h1 := gram_sum m K u (fun p => X p j) hiso
  have h2 : ∑ i ∈ range m, star (∑ p ∈ range K, u i p * X p j) * M i j = ∑ p ∈ range K, star (X p j) * w p j := by
    simp only [star_sum, Finset.sum_mul]
    rw [Finset.sum_comm]
    refine Finset.sum_congr rfl fun p hp => ?_
    rw [← hproj p j (Finset.mem_range.1 hp) hj, Finset.mul_sum]
    refine Finset.sum_congr rfl fun i _ => ?_
    rw [star_mul']; ring
  have h3 : ∑ i ∈ range m, star (M i j) * (∑ p ∈ range K, u i p * X p j) = ∑ p ∈ range K, star (w p j) * X p j := by
    simp only [Finset.mul_sum]
    rw [Finset.sum_comm]
    refine Finset.sum_congr rfl fun p hp => ?_
    rw [← hproj p j (Finset.mem_range.1 hp) hj, star_sum, Finset.sum_mul]
    refine Finset.sum_congr rfl fun i _ => ?_
    rw [star_mul', star_star]; ring
  have e1 : ∀ i ∈ range m, star (∑ p ∈ range K, u i p * X p j - M i j) * (∑ p ∈ range K, u i p * X p j - M i j) =
      star (∑ p ∈ range K, u i p * X p j) * (∑ p ∈ range K, u i p * X p j) -
        star (∑ p ∈ range K, u i p * X p j) * M i j - star (M i j) * (∑ p ∈ range K, u i p * X p j) +
        star (M i j) * M i j := by
    intro i _
    rw [star_sub]; ring
  have e2 : ∀ p ∈ range K, star (X p j - w p j) * (X p j - w p j) =
      star (X p j) * X p j - star (X p j) * w p j - star (w p j) * X p j + star (w p j) * w p j := by
    intro p _
    rw [star_sub]; ring
  rw [Finset.sum_congr rfl e1, Finset.sum_congr rfl e2]
  simp only [Finset.sum_add_distrib, Finset.sum_sub_distrib]
  rw [h1, h2, h3]
  ring

/-! ## one raw (un-blocked) SVD step -/

section raw
variable {k : MPS.SvdKernels 𝕜 ℝ}

/-- `‖M‖_F² = Σ s_p²` for the raw SVD of `M` -/
theorem raw_frob (hk : SvdKernel k) (M : Mat 𝕜) (hm : 0 < M.m) (hn : 0 < M.n) :
    frobM M = sqSum (k.dsvd M).2.1 := by
  obtain ⟨-, -, sl, -, -⟩ := hk.svd.shape M hm hn
  have h := frob_orth M.m M.n (min M.m M.n) (k.dsvd M).1.f (k.dsvd M).2.2.f
    (fun p => (ιR 𝕜) ((k.dsvd M).2.1.getD p 0)) (fun p => ιR_star _) (hk.svd.isoU M)
    (fun p hp => by have := hk.svd.isoV M p p hp hp; rwa [if_pos rfl] at this)
  apply RCLike.ofReal_injective (K := 𝕜)
  have e : ∑ p ∈ range (min M.m M.n), (ιR 𝕜) ((k.dsvd M).2.1.getD p 0) * (ιR 𝕜) ((k.dsvd M).2.1.getD p 0) =
      ∑ p ∈ range (min M.m M.n), (((k.dsvd M).2.1.getD p 0 * (k.dsvd M).2.1.getD p 0 : ℝ) : 𝕜) :=
    Finset.sum_congr rfl fun p _ => by rw [RCLike.ofReal_mul]
  rw [frobM_cast, sqSum, ← sum_range_getD, RCLike.ofReal_sum, sl, ← e, ← h]
  refine Finset.sum_congr rfl fun i hi => Finset.sum_congr rfl fun j hj => ?_
  rw [hk.svd.product M i j (Finset.mem_range.1 hi) (Finset.mem_range.1 hj)]

/-- `Uᴴ M = diag(s) V` for the raw SVD -/
theorem raw_proj (hk : SvdKernel k) (M : Mat 𝕜) {q j : Nat} (hq : q < min M.m M.n) (hj : j < M.n) :
    ∑ i ∈ range M.m, star ((k.dsvd M).1.f i q) * M.f i j =
      ((k.dsvd M).2.1.getD q 0 : 𝕜) * (k.dsvd M).2.2.f q j := by
  have e : ∀ i ∈ range M.m, star ((k.dsvd M).1.f i q) * M.f i j =
      ∑ p ∈ range (min M.m M.n), (star ((k.dsvd M).1.f i q) * (k.dsvd M).1.f i p) *
        ((ιR 𝕜) ((k.dsvd M).2.1.getD p 0) * (k.dsvd M).2.2.f p j) := by
    intro i hi
    rw [← hk.svd.product M i j (Finset.mem_range.1 hi) hj, Finset.mul_sum]
    refine Finset.sum_congr rfl fun p _ => ?_
    ring
  rw [Finset.sum_congr rfl e, Finset.sum_comm]
  have e2 : ∀ p ∈ range (min M.m M.n), ∑ i ∈ range M.m, (star ((k.dsvd M).1.f i q) * (k.dsvd M).1.f i p) *
        ((ιR 𝕜) ((k.dsvd M).2.1.getD p 0) * (k.dsvd M).2.2.f p j) =
      if q = p then (ιR 𝕜) ((k.dsvd M).2.1.getD p 0) * (k.dsvd M).2.2.f p j else 0 := by
    intro p hp
    rw [← Finset.sum_mul, hk.svd.isoU M q p hq (Finset.mem_range.1 hp)]
    split <;> simp
  rw [Finset.sum_congr rfl e2, Finset.sum_ite_eq (range (min M.m M.n)) q, if_pos (Finset.mem_range.2 hq)]

/-- the kept squares carry at most the whole and at least `(1 - tol)` of the total weight -/
theorem kept_weight (hk : SvdKernel k) {tol : ℝ} (htol : 0 ≤ tol) (s : List ℝ) :
    sqSum ((retainedBondIndices k.dnorm k.dargsort s tol).map fun i => s.getD i 0) ≤ sqSum s ∧
    sqSum s - sqSum ((retainedBondIndices k.dnorm k.dargsort s tol).map fun i => s.getD i 0) ≤ tol * sqSum s := by
  have hn := hk.norm s
  have hw2 : k.dnorm s * k.dnorm s = sqSum s := hn.2
  by_cases hw : k.dnorm s = 0
  · rw [C12.rule_zero k.dnorm k.dargsort s tol hw]
    have h0 : sqSum s = 0 := by rw [← hw2, hw, mul_zero]
    simp [sqSum] at h0 ⊢
    rw [h0]; simp
  · have hv := C12.rule_indices_valid k.dnorm k.dargsort s tol
    have h1 := weightOf_le_total s (k.dnorm s) hv.1 hv.2
    rw [C12.rule_total k.dnorm _ hn hw] at h1
    have h2 := C12.rule_kept_weight k.dnorm k.dargsort s tol hn hw (hk.sort _) htol
    rw [sqSum_map_eq s hw, hw2]
    have hnn := sqSum_nonneg s
    constructor <;> nlinarith

/-- the dummy index kept by `from_vector` for an all-discarded spectrum is a valid strictly increasing index list -/
theorem fvKeep_valid {ρ : Type} [OfNat ρ 0] [DecidableEq ρ] {R : List Nat} {s : List ρ}
    (h : R.Pairwise (· < ·) ∧ ∀ i ∈ R, i < s.length) :
    (MPS.fvKeep R s).Pairwise (· < ·) ∧ ∀ i ∈ MPS.fvKeep R s, i < s.length := by
  unfold MPS.fvKeep
  split
  · rename_i hc
    rw [Bool.and_eq_true, Bool.and_eq_true] at hc
    refine ⟨List.pairwise_singleton _ _, ?_⟩
    intro i hi
    rw [List.mem_singleton] at hi
    subst hi
    have : s ≠ [] := by
      intro h0
      have := hc.1.2
      rw [h0] at this
      simp at this
    exact List.length_pos_iff.2 this
  · exact h

theorem sq_getD_le_sqSum (s : List ℝ) (i : Nat) : s.getD i 0 * s.getD i 0 ≤ sqSum s := by
  induction s generalizing i with
  | nil => simp [sqSum]
  | cons x s ih =>
    have hx : 0 ≤ x * x := mul_self_nonneg x
    have hs := sqSum_nonneg s
    cases i with
    | zero =>
      simp only [List.getD_cons_zero, sqSum, List.map_cons, List.sum_cons]
      have : 0 ≤ (s.map fun x => x * x).sum := hs
      linarith
    | succ i =>
      simp only [List.getD_cons_succ, sqSum, List.map_cons, List.sum_cons]
      have := ih i
      unfold sqSum at this
      linarith

/-- `kept_weight` for the index list actually used by `from_vector` (the dummy index only adds weight) -/
theorem kept_weight_keep (hk : SvdKernel k) {tol : ℝ} (htol : 0 ≤ tol) (s : List ℝ) :
    sqSum ((MPS.fvKeep (retainedBondIndices k.dnorm k.dargsort s tol) s).map fun i => s.getD i 0) ≤ sqSum s ∧
    sqSum s - sqSum ((MPS.fvKeep (retainedBondIndices k.dnorm k.dargsort s tol) s).map fun i => s.getD i 0)
      ≤ tol * sqSum s := by
  have hkw := kept_weight hk htol s
  unfold MPS.fvKeep
  split
  · rename_i hc
    rw [Bool.and_eq_true, Bool.and_eq_true, List.isEmpty_iff] at hc
    rw [hc.1.1] at hkw
    have h0 := sq_getD_le_sqSum s 0
    simp only [List.map_cons, List.map_nil, sqSum, List.sum_cons, List.sum_nil, add_zero] at hkw ⊢
    have hnn : 0 ≤ s.getD 0 0 * s.getD 0 0 := mul_self_nonneg _
    unfold sqSum at h0
    constructor <;> linarith [hkw.2]
  · exact hkw

end raw

/-! ## the loop -/

section loop
variable {k : MPS.SvdKernels 𝕜 ℝ} {tol : ℝ} {d : Nat}

/-- reconstruction of the remainder matrix from the produced tensors and the final remainder -/
def fvRec (As : List (T3 𝕜)) (vend : Mat 𝕜) (a : Nat) (σ : List Nat) : 𝕜 :=
  ∑ b ∈ range vend.m, pmat As σ a b * vend.f b 0

/-- squared error of the reconstruction -/
noncomputable def fvErr (d rem : Nat) (v : Mat 𝕜) (As : List (T3 𝕜)) (vend : Mat 𝕜) : ℝ :=
  ∑ a ∈ range v.m, ∑ σ ∈ digitsU d rem, ‖fvRec As vend a σ - v.f a (flat d σ)‖ ^ 2

theorem fvRec_cons (A : T3 𝕜) (As : List (T3 𝕜)) (vend : Mat 𝕜) (a s : Nat) (σ : List Nat) :
    fvRec (A :: As) vend a (s :: σ) = ∑ x ∈ range A.d2, A.f s a x * fvRec As vend x σ := by
  unfold fvRec
  simp only [pmat_cons, Finset.sum_mul, Finset.mul_sum]
  rw [Finset.sum_comm]
  refine Finset.sum_congr rfl fun x _ => Finset.sum_congr rfl fun b _ => ?_
  ring

theorem fvLoop_inv : ∀ (rem : Nat) (v : Mat 𝕜) (As : List (T3 𝕜)) (vend : Mat 𝕜),
    MPS.fromVectorLoop k d rem v tol = .ok (As, vend) →
    Chain3 (List.replicate rem d) As v.m vend.m
  | 0, v, As, vend, h => by
    simp only [MPS.fromVectorLoop, Except.ok.injEq, Prod.mk.injEq] at h
    obtain ⟨rfl, rfl⟩ := h
    simp
  | rem + 1, v, As, vend, h => by
    rw [MPS.fromVectorLoop_succ] at h
    simp only [Dense.pyAssert_bind] at h
    obtain ⟨_, h⟩ := h
    simp only [Dense.bind_ok, Dense.pure_ok] at h
    obtain ⟨⟨As', vend'⟩, hrec, h⟩ := h
    simp only [Prod.mk.injEq] at h
    obtain ⟨rfl, rfl⟩ := h
    have ih := fvLoop_inv rem _ As' vend' hrec
    rw [List.replicate_succ, chain3_cons]
    exact ⟨rfl, rfl, ih⟩

theorem digits_of_mem {n : Nat} {σ : List Nat} (h : σ ∈ digitsU d n) : Digits d n σ := by
  rw [digitsU, mem_digits_replicate] at h
  exact h

theorem frobM_fvM (rem : Nat) (v : Mat 𝕜) (hvn : v.n = d ^ (rem + 1)) : frobM (MPS.fvM d rem v).tab = frobM v := by
  rw [frobM_congr (M := (MPS.fvM d rem v).tab) (N := MPS.fvM d rem v) rfl rfl (fun i j hi hj => Mat.tab_f _ hi hj)]
  unfold frobM
  show ∑ i ∈ range (v.m * d), ∑ c ∈ range (MPS.ipow d rem), ‖v.f (i / d) ((i % d) * MPS.ipow d rem + c)‖ ^ 2 = _
  rw [sum_fused, hvn, MPS.ipow_eq, pow_succ, Nat.mul_comm (d ^ rem) d]
  refine Finset.sum_congr rfl fun a _ => ?_
  rw [sum_fused]
  refine Finset.sum_congr rfl fun s hs => Finset.sum_congr rfl fun c _ => ?_
  rw [Ortho.fused_div (Finset.mem_range.1 hs), Ortho.fused_mod (Finset.mem_range.1 hs)]

/-- the error bound of the loop: `Σ |rec - v|² ≤ rem · tol · ‖v‖_F²` -/
theorem fvLoop_bound (hk : SvdKernel k) (htol : 0 ≤ tol) : ∀ (rem : Nat) (v : Mat 𝕜) (As : List (T3 𝕜))
    (vend : Mat 𝕜), MPS.fromVectorLoop k d rem v tol = .ok (As, vend) → v.n = d ^ rem →
    fvErr d rem v As vend ≤ rem * tol * frobM v
  | 0, v, As, vend, h, _ => by
    simp only [MPS.fromVectorLoop, Except.ok.injEq, Prod.mk.injEq] at h
    obtain ⟨rfl, rfl⟩ := h
    have : fvErr d 0 v [] v = 0 := by
      unfold fvErr fvRec
      refine Finset.sum_eq_zero fun a ha => ?_
      simp only [digitsU, List.replicate_zero, digits_nil, Finset.sum_singleton, pmat_nil]
      rw [sum_ite_eq_of_lt' (Finset.mem_range.1 ha)]
      simp [flat, flatFrom]
    rw [this]; simp
  | rem + 1, v, As, vend, h, hvn => by
    rw [MPS.fromVectorLoop_succ] at h
    simp only [Dense.pyAssert_bind] at h
    obtain ⟨_, h⟩ := h
    simp only [Dense.bind_ok, Dense.pure_ok] at h
    obtain ⟨⟨As', vend'⟩, hrec, h⟩ := h
    simp only [Prod.mk.injEq] at h
    obtain ⟨rfl, rfl⟩ := h
    have hnnF := frobM_nonneg v
    by_cases hpos : 0 < v.m ∧ 0 < d
    · obtain ⟨hvm, hd⟩ := hpos
      -- abbreviations
      have hMm : (MPS.fvM d rem v).tab.m = v.m * d := rfl
      have hMn : (MPS.fvM d rem v).tab.n = d ^ rem := by show MPS.ipow d rem = _; exact MPS.ipow_eq d rem
      have hm0 : 0 < (MPS.fvM d rem v).tab.m := Nat.mul_pos hvm hd
      have hn0 : 0 < (MPS.fvM d rem v).tab.n := by rw [hMn]; exact Nat.pow_pos hd
      obtain ⟨sUm, sUn, sl, sVm, sVn⟩ := hk.svd.shape _ hm0 hn0
      have hidx := fvKeep_valid (C12.rule_indices_valid k.dnorm k.dargsort (k.dsvd (MPS.fvM d rem v).tab).2.1 tol)
      have hidxlt : ∀ p, p < (MPS.fvIdx k d rem v tol).length →
          (MPS.fvIdx k d rem v tol).getD p 0 < min (MPS.fvM d rem v).tab.m (MPS.fvM d rem v).tab.n := by
        intro p hp
        rw [← sl]
        exact hidx.2 _ (getD_mem_of_lt hp)
      have hV'n : (MPS.fvV k d rem v tol).n = d ^ rem := by rw [MPS.fvV_n, sVn, hMn]
      have ih := fvLoop_bound hk htol rem _ As' vend' hrec hV'n
      -- the identity
      have key := proj_identity (digitsU d rem) (v.m * d) (MPS.fvIdx k d rem v tol).length
        (fun i p => (k.dsvd (MPS.fvM d rem v).tab).1.f i ((MPS.fvIdx k d rem v tol).getD p 0))
        (fun i σ => (MPS.fvM d rem v).tab.f i (flat d σ))
        (fun p σ => (MPS.fvV k d rem v tol).f p (flat d σ))
        (fun p σ => fvRec As' vend' p σ)
        (by
          intro p p' hp hp'
          have := hk.svd.isoU (MPS.fvM d rem v).tab _ _ (hidxlt p hp) (hidxlt p' hp')
          rw [hMm] at this
          rw [this]
          have hidx' : (MPS.fvIdx k d rem v tol).Pairwise (· < ·) := hidx.1
          simp only [getD_inj_of_pairwise hidx' hp hp'])
        (by
          intro p σ hp hσ
          have hj : flat d σ < (MPS.fvM d rem v).tab.n := by rw [hMn]; exact MPS.flat_lt (digits_of_mem hσ)
          have := raw_proj hk (MPS.fvM d rem v).tab (hidxlt p hp) hj
          rw [hMm] at this
          rw [this, MPS.fvV_f k d rem v tol hp (by rw [sVn]; exact hj), mul_comm]
          rfl)
      -- left-hand side is the error of this level
      have eL : fvErr d (rem + 1) v (MPS.fvA k d rem v tol :: As') vend' =
          ∑ i ∈ range (v.m * d), ∑ σ ∈ digitsU d rem,
            ‖∑ p ∈ range (MPS.fvIdx k d rem v tol).length,
                (k.dsvd (MPS.fvM d rem v).tab).1.f i ((MPS.fvIdx k d rem v tol).getD p 0) * fvRec As' vend' p σ -
              (MPS.fvM d rem v).tab.f i (flat d σ)‖ ^ 2 := by
        unfold fvErr
        rw [sum_fused]
        refine Finset.sum_congr rfl fun a ha => ?_
        rw [sum_digitsU_succ]
        refine Finset.sum_congr rfl fun s0 hs0 => Finset.sum_congr rfl fun σ hσ => ?_
        have ha' := Finset.mem_range.1 ha
        have hs0' := Finset.mem_range.1 hs0
        have hr : a * d + s0 < v.m * d := Ortho.fused_lt ha' hs0'
        have hc : flat d σ < d ^ rem := MPS.flat_lt (digits_of_mem hσ)
        rw [fvRec_cons, MPS.fvA_d2]
        have e1 : ∀ x ∈ range (MPS.fvIdx k d rem v tol).length,
            (MPS.fvA k d rem v tol).f s0 a x * fvRec As' vend' x σ =
            (k.dsvd (MPS.fvM d rem v).tab).1.f (a * d + s0) ((MPS.fvIdx k d rem v tol).getD x 0) *
              fvRec As' vend' x σ := by
          intro x hx
          rw [MPS.fvA_f k d rem v tol hs0' ha' (Finset.mem_range.1 hx) (sUm.trans hMm)]
        rw [Finset.sum_congr rfl e1]
        have e2 : v.f a (flat d (s0 :: σ)) = (MPS.fvM d rem v).tab.f (a * d + s0) (flat d σ) := by
          rw [Mat.tab_f (MPS.fvM d rem v) (show a * d + s0 < v.m * d from hr)
            (show flat d σ < MPS.ipow d rem by rw [MPS.ipow_eq]; exact hc)]
          show _ = v.f ((a * d + s0) / d) (((a * d + s0) % d) * MPS.ipow d rem + flat d σ)
          rw [Ortho.fused_div hs0', Ortho.fused_mod hs0', MPS.ipow_eq, Ptn.flat_cons, MPS.flatFrom_eq,
            (digits_of_mem hσ).1]
        rw [e2]
      -- the two Frobenius norms
      have eM : ∑ i ∈ range (v.m * d), ∑ σ ∈ digitsU d rem, ‖(MPS.fvM d rem v).tab.f i (flat d σ)‖ ^ 2 =
          frobM (MPS.fvM d rem v).tab := by
        unfold frobM
        rw [hMm, hMn]
        exact Finset.sum_congr rfl fun i _ => sum_flat d rem (fun c => ‖(MPS.fvM d rem v).tab.f i c‖ ^ 2)
      have eV : ∑ p ∈ range (MPS.fvIdx k d rem v tol).length, ∑ σ ∈ digitsU d rem,
          ‖(MPS.fvV k d rem v tol).f p (flat d σ)‖ ^ 2 = frobM (MPS.fvV k d rem v tol) := by
        unfold frobM
        rw [MPS.fvV_m, hV'n]
        exact Finset.sum_congr rfl fun i _ => sum_flat d rem (fun c => ‖(MPS.fvV k d rem v tol).f i c‖ ^ 2)
      have eE : ∑ p ∈ range (MPS.fvIdx k d rem v tol).length, ∑ σ ∈ digitsU d rem,
          ‖fvRec As' vend' p σ - (MPS.fvV k d rem v tol).f p (flat d σ)‖ ^ 2 =
          fvErr d rem (MPS.fvV k d rem v tol) As' vend' := by
        unfold fvErr; rw [MPS.fvV_m]
      rw [eL, key, eM, eV, eE]
      -- weights
      have hFM := raw_frob hk (MPS.fvM d rem v).tab hm0 hn0
      have hFV : frobM (MPS.fvV k d rem v tol) =
          sqSum ((MPS.fvIdx k d rem v tol).map fun i => (k.dsvd (MPS.fvM d rem v).tab).2.1.getD i 0) := by
        refine frobM_scaled_rows _ (fun p j => (k.dsvd (MPS.fvM d rem v).tab).2.2.f ((MPS.fvIdx k d rem v tol).getD p 0) j)
          _ (by rw [MPS.fvV_m, List.length_map]) ?_ ?_
        · intro p hp
          rw [List.length_map] at hp
          have := hk.svd.isoV (MPS.fvM d rem v).tab _ _ (hidxlt p hp) (hidxlt p hp)
          rw [if_pos rfl] at this
          rw [hV'n, ← hMn]
          exact this
        · intro p j hp hj
          rw [MPS.fvV_m] at hp
          rw [MPS.fvV_f k d rem v tol hp (by rw [← MPS.fvV_n]; exact hj), getD_map_idx _ _ _ hp, mul_comm]
          rfl
      have hkw := kept_weight_keep hk htol (k.dsvd (MPS.fvM d rem v).tab).2.1
      have hMv := frobM_fvM rem v hvn
      rw [← hMv]
      rw [hFV] at ih ⊢
      rw [hFM]
      have hnn := sqSum_nonneg (k.dsvd (MPS.fvM d rem v).tab).2.1
      have h1 := hkw.1
      have h2 := hkw.2
      have hrem : (0 : ℝ) ≤ rem := Nat.cast_nonneg rem
      push_cast
      have h3 : (rem : ℝ) * tol * sqSum ((MPS.fvIdx k d rem v tol).map fun i =>
          (k.dsvd (MPS.fvM d rem v).tab).2.1.getD i 0) ≤
          rem * tol * sqSum (k.dsvd (MPS.fvM d rem v).tab).2.1 :=
        mul_le_mul_of_nonneg_left h1 (mul_nonneg hrem htol)
      have h4 : MPS.fvIdx k d rem v tol = MPS.fvKeep (retainedBondIndices k.dnorm k.dargsort
          (k.dsvd (MPS.fvM d rem v).tab).2.1 tol) (k.dsvd (MPS.fvM d rem v).tab).2.1 := rfl
      rw [← h4] at h1 h2
      nlinarith
    · -- empty index set: the error vanishes
      have : fvErr d (rem + 1) v (MPS.fvA k d rem v tol :: As') vend' = 0 := by
        unfold fvErr
        rcases Nat.eq_zero_or_pos v.m with h0 | h0
        · rw [h0]; simp
        · have hd0 : d = 0 := by
            rcases Nat.eq_zero_or_pos d with h | h
            · exact h
            · exact absurd ⟨h0, h⟩ hpos
          refine Finset.sum_eq_zero fun a _ => ?_
          rw [sum_digitsU_succ, hd0]
          simp
      rw [this]
      exact mul_nonneg (mul_nonneg (Nat.cast_nonneg _) htol) hnnF

end loop

/-! ## the loop raises no exception on a non-zero remainder (non-vacuity) -/

section ok
variable {k : MPS.SvdKernels 𝕜 ℝ} {tol : ℝ} {d : Nat}

theorem fvLoop_ok (hk : SvdKernel k) (htol : 0 ≤ tol) (htol1 : tol < 1) (hd : 0 < d) : ∀ (rem : Nat) (v : Mat 𝕜),
    v.n = d ^ rem → 0 < v.m → 0 < frobM v →
    ∃ As vend, MPS.fromVectorLoop k d rem v tol = .ok (As, vend) ∧ vend.n = 1 ∧ (0 < rem → vend.m = 1)
  | 0, v, hvn, _, _ => ⟨[], v, rfl, by simpa using hvn, fun h => absurd h (Nat.lt_irrefl 0)⟩
  | rem + 1, v, hvn, hvm, hpos => by
    have hMm : (MPS.fvM d rem v).tab.m = v.m * d := rfl
    have hMn : (MPS.fvM d rem v).tab.n = d ^ rem := by show MPS.ipow d rem = _; exact MPS.ipow_eq d rem
    have hm0 : 0 < (MPS.fvM d rem v).tab.m := Nat.mul_pos hvm hd
    have hn0 : 0 < (MPS.fvM d rem v).tab.n := by rw [hMn]; exact Nat.pow_pos hd
    obtain ⟨sUm, sUn, sl, sVm, sVn⟩ := hk.svd.shape _ hm0 hn0
    have hidx := fvKeep_valid (C12.rule_indices_valid k.dnorm k.dargsort (k.dsvd (MPS.fvM d rem v).tab).2.1 tol)
    have hidxlt : ∀ p, p < (MPS.fvIdx k d rem v tol).length →
        (MPS.fvIdx k d rem v tol).getD p 0 < min (MPS.fvM d rem v).tab.m (MPS.fvM d rem v).tab.n := by
      intro p hp
      rw [← sl]
      exact hidx.2 _ (getD_mem_of_lt hp)
    have hV'n : (MPS.fvV k d rem v tol).n = d ^ rem := by rw [MPS.fvV_n, sVn, hMn]
    have hFM := raw_frob hk (MPS.fvM d rem v).tab hm0 hn0
    rw [frobM_fvM rem v hvn] at hFM
    have hFV : frobM (MPS.fvV k d rem v tol) =
        sqSum ((MPS.fvIdx k d rem v tol).map fun i => (k.dsvd (MPS.fvM d rem v).tab).2.1.getD i 0) := by
      refine frobM_scaled_rows _ (fun p j => (k.dsvd (MPS.fvM d rem v).tab).2.2.f ((MPS.fvIdx k d rem v tol).getD p 0) j)
        _ (by rw [MPS.fvV_m, List.length_map]) ?_ ?_
      · intro p hp
        rw [List.length_map] at hp
        have := hk.svd.isoV (MPS.fvM d rem v).tab _ _ (hidxlt p hp) (hidxlt p hp)
        rw [if_pos rfl] at this
        rw [hV'n, ← hMn]
        exact this
      · intro p j hp hj
        rw [MPS.fvV_m] at hp
        rw [MPS.fvV_f k d rem v tol hp (by rw [← MPS.fvV_n]; exact hj), getD_map_idx _ _ _ hp, mul_comm]
        rfl
    have hkw := kept_weight_keep hk htol (k.dsvd (MPS.fvM d rem v).tab).2.1
    have h4 : MPS.fvIdx k d rem v tol = MPS.fvKeep (retainedBondIndices k.dnorm k.dargsort
        (k.dsvd (MPS.fvM d rem v).tab).2.1 tol) (k.dsvd (MPS.fvM d rem v).tab).2.1 := rfl
    rw [← h4] at hkw
    have hpos' : 0 < frobM (MPS.fvV k d rem v tol) := by
      rw [hFV]
      have : 0 < (1 - tol) * sqSum (k.dsvd (MPS.fvM d rem v).tab).2.1 := by
        rw [← hFM]; exact mul_pos (by linarith) hpos
      nlinarith [hkw.2]
    have hK : 0 < (MPS.fvIdx k d rem v tol).length := by
      rcases Nat.eq_zero_or_pos (MPS.fvIdx k d rem v tol).length with h0 | h
      · have : MPS.fvIdx k d rem v tol = [] := List.length_eq_zero_iff.1 h0
        rw [hFV, this] at hpos'
        simp [sqSum] at hpos'
      · exact h
    obtain ⟨As', vend', hrec, hn1, hm1⟩ := fvLoop_ok hk htol htol1 hd rem (MPS.fvV k d rem v tol) hV'n
      (by rw [MPS.fvV_m]; exact hK) hpos'
    refine ⟨MPS.fvA k d rem v tol :: As', vend', ?_, hn1, fun _ => ?_⟩
    · rw [MPS.fromVectorLoop_succ]
      have hc : (v.n == MPS.ipow d (rem + 1)) = true := by rw [hvn, MPS.ipow_eq]; simp
      simp only [hc, pyAssert, if_true, bind, Except.bind, hrec, pure, Except.pure]
    · rcases Nat.eq_zero_or_pos rem with h0 | h
      · subst h0
        simp only [MPS.fromVectorLoop, Except.ok.injEq, Prod.mk.injEq] at hrec
        rw [← hrec.2, MPS.fvV_m]
        have hle := length_le_of_pairwise_lt (D := (k.dsvd (MPS.fvM d 0 v).tab).2.1.length) hidx.1 hidx.2
        rw [sl, hMn] at hle
        have : (MPS.fvIdx k d 0 v tol).length ≤ 1 := le_trans hle (by simp)
        omega
      · exact hm1 h

theorem fromVector_ok (hk : SvdKernel k) (htol : 0 ≤ tol) (htol1 : tol < 1) (hd : 0 < d) {n : Nat} (hn : 0 < n)
    {v : List 𝕜} (hvl : v.length = d ^ n) (hne : ∃ c, c < v.length ∧ v.getD c 0 ≠ 0) :
    ∃ ψ, MPS.fromVector k d n v tol = .ok ψ := by
  have hpos : 0 < frobM (⟨1, v.length, fun _ c => v.toArray.getD c 0⟩ : Mat 𝕜) := by
    obtain ⟨c, hc, hv⟩ := hne
    unfold frobM
    rw [Finset.sum_range_one]
    refine lt_of_lt_of_le ?_ (Finset.single_le_sum (f := fun c => ‖v.toArray.getD c 0‖ ^ 2)
      (fun i _ => by positivity) (Finset.mem_range.2 hc))
    show 0 < ‖v.toArray.getD c 0‖ ^ 2
    rw [toArray_getD]
    exact pow_pos (norm_pos_iff.2 hv) 2
  obtain ⟨As, vend, hloop, hn1, hm1⟩ := fvLoop_ok hk htol htol1 hd n
    (⟨1, v.length, fun _ c => v.toArray.getD c 0⟩ : Mat 𝕜) hvl Nat.one_pos hpos
  have hc := fvLoop_inv n _ As vend hloop
  have hlen : As.length = n := by
    have := chain3_length hc
    simpa using this
  unfold MPS.fromVector
  have h1 : (v.length == MPS.ipow d n) = true := by rw [hvl, MPS.ipow_eq]; simp
  have h2 : (vend.m == 1 && vend.n == 1) = true := by rw [hm1 hn, hn1]; rfl
  have h3 : ¬ As.length = 0 := by rw [hlen]; omega
  simp only [h1, pyAssert, if_true, bind, Except.bind, hloop, h2, h3, if_false, pure, Except.pure]
  exact ⟨_, rfl⟩

/-! ## after the repair of F12 the loop returns on EVERY remainder, the zero vector included (`0 ≤ tol < 1`) -/

/-- with the norm / argsort contracts and `0 ≤ tol < 1` the index list used by `from_vector` is never empty: either the rule keeps
something, or the norm of the spectrum vanishes, every singular value is zero and the dummy index is kept -/
theorem fvKeep_ne_nil (hk : SvdKernel k) (htol : 0 ≤ tol) (htol1 : tol < 1) {s : List ℝ} (hs : s ≠ []) :
    MPS.fvKeep (retainedBondIndices k.dnorm k.dargsort s tol) s ≠ [] := by
  have hn := hk.norm s
  by_cases hw : k.dnorm s = 0
  · -- zero norm: every value is zero, the dummy index is kept
    have hw2 : k.dnorm s * k.dnorm s = sqSum s := hn.2
    have h0 : sqSum s = 0 := by rw [← hw2, hw, mul_zero]
    have hz : ∀ x ∈ s, x = 0 := C12.sum_mul_self_eq_zero s h0
    unfold MPS.fvKeep
    rw [if_pos]
    · simp
    · rw [Bool.and_eq_true, Bool.and_eq_true, List.isEmpty_iff, List.all_eq_true]
      refine ⟨⟨C12.rule_zero k.dnorm k.dargsort s tol hw, ?_⟩, fun x hx => by simpa using hz x hx⟩
      cases s with
      | nil => exact absurd rfl hs
      | cons x s => rfl
  · -- positive norm: the kept relative weight is at least `1 - tol > 0`
    have hkw := C12.rule_kept_weight k.dnorm k.dargsort s tol hn hw (hk.sort _) htol
    have hne : retainedBondIndices k.dnorm k.dargsort s tol ≠ [] := by
      intro h0
      rw [h0] at hkw
      simp [C12.weightOf] at hkw
      linarith
    unfold MPS.fvKeep
    split
    · simp
    · exact hne

theorem fvLoop_total (hk : SvdKernel k) (htol : 0 ≤ tol) (htol1 : tol < 1) (hd : 0 < d) : ∀ (rem : Nat) (v : Mat 𝕜),
    v.n = d ^ rem → 0 < v.m →
    ∃ As vend, MPS.fromVectorLoop k d rem v tol = .ok (As, vend) ∧ vend.n = 1 ∧ (0 < rem → vend.m = 1)
  | 0, v, hvn, _ => ⟨[], v, rfl, by simpa using hvn, fun h => absurd h (Nat.lt_irrefl 0)⟩
  | rem + 1, v, hvn, hvm => by
    have hMm : (MPS.fvM d rem v).tab.m = v.m * d := rfl
    have hMn : (MPS.fvM d rem v).tab.n = d ^ rem := by show MPS.ipow d rem = _; exact MPS.ipow_eq d rem
    have hm0 : 0 < (MPS.fvM d rem v).tab.m := Nat.mul_pos hvm hd
    have hn0 : 0 < (MPS.fvM d rem v).tab.n := by rw [hMn]; exact Nat.pow_pos hd
    obtain ⟨sUm, sUn, sl, sVm, sVn⟩ := hk.svd.shape _ hm0 hn0
    have hidx := fvKeep_valid (C12.rule_indices_valid k.dnorm k.dargsort (k.dsvd (MPS.fvM d rem v).tab).2.1 tol)
    have hV'n : (MPS.fvV k d rem v tol).n = d ^ rem := by rw [MPS.fvV_n, sVn, hMn]
    have hsne : (k.dsvd (MPS.fvM d rem v).tab).2.1 ≠ [] := by
      intro h0
      have : (k.dsvd (MPS.fvM d rem v).tab).2.1.length = 0 := by rw [h0]; rfl
      rw [sl] at this
      omega
    have hK : 0 < (MPS.fvIdx k d rem v tol).length :=
      List.length_pos_iff.2 (fvKeep_ne_nil hk htol htol1 hsne)
    obtain ⟨As', vend', hrec, hn1, hm1⟩ := fvLoop_total hk htol htol1 hd rem (MPS.fvV k d rem v tol) hV'n
      (by rw [MPS.fvV_m]; exact hK)
    refine ⟨MPS.fvA k d rem v tol :: As', vend', ?_, hn1, fun _ => ?_⟩
    · rw [MPS.fromVectorLoop_succ]
      have hc : (v.n == MPS.ipow d (rem + 1)) = true := by rw [hvn, MPS.ipow_eq]; simp
      simp only [hc, pyAssert, if_true, bind, Except.bind, hrec, pure, Except.pure]
    · rcases Nat.eq_zero_or_pos rem with h0 | h
      · subst h0
        simp only [MPS.fromVectorLoop, Except.ok.injEq, Prod.mk.injEq] at hrec
        rw [← hrec.2, MPS.fvV_m]
        have hle := length_le_of_pairwise_lt (D := (k.dsvd (MPS.fvM d 0 v).tab).2.1.length) hidx.1 hidx.2
        rw [sl, hMn] at hle
        have : (MPS.fvIdx k d 0 v tol).length ≤ 1 := le_trans hle (by simp)
        omega
      · exact hm1 h

/-- **`MPS.from_vector` returns for every vector of length `d^n` (`d, n ≥ 1`), the zero vector included (F12), and every
tolerance `0 ≤ tol < 1`.** -/
theorem fromVector_total (hk : SvdKernel k) (htol : 0 ≤ tol) (htol1 : tol < 1) (hd : 0 < d) {n : Nat} (hn : 0 < n)
    {v : List 𝕜} (hvl : v.length = d ^ n) :
    ∃ ψ, MPS.fromVector k d n v tol = .ok ψ := by
  obtain ⟨As, vend, hloop, hn1, hm1⟩ := fvLoop_total (tol := tol) hk htol htol1 hd n
    (⟨1, v.length, fun _ c => v.toArray.getD c 0⟩ : Mat 𝕜) hvl Nat.one_pos
  have hc := fvLoop_inv n _ As vend hloop
  have hlen : As.length = n := by
    have := chain3_length hc
    simpa using this
  unfold MPS.fromVector
  have h1 : (v.length == MPS.ipow d n) = true := by rw [hvl, MPS.ipow_eq]; simp
  have h2 : (vend.m == 1 && vend.n == 1) = true := by rw [hm1 hn, hn1]; rfl
  have h3 : ¬ As.length = 0 := by rw [hlen]; omega
  simp only [h1, pyAssert, if_true, bind, Except.bind, hloop, h2, h3, if_false, pure, Except.pure]
  exact ⟨_, rfl⟩

end ok

/-! ## `from_vector` -/

theorem scaleLast_chain3 (c : 𝕜) : ∀ {ds : List Nat} {As : List (T3 𝕜)} {Dl Dr : Nat}, Chain3 ds As Dl Dr →
    Chain3 ds (scaleLast c As) Dl Dr
  | [], [], _, _, h => h
  | [], _ :: _, _, _, h => by simp at h
  | _ :: _, [], _, _, h => by simp at h
  | d :: ds, [A], Dl, Dr, h => by
    simp only [chain3_cons, scaleLast] at h ⊢
    exact h
  | d :: ds, A :: B :: As, Dl, Dr, h => by
    simp only [scaleLast]
    rw [chain3_cons] at h ⊢
    exact ⟨h.1, h.2.1, scaleLast_chain3 c h.2.2⟩

/-- `‖from_vector(d, n, v, tol) - v‖² ≤ n · tol · ‖v‖²` -/
theorem fromVector_bound {k : MPS.SvdKernels 𝕜 ℝ} (hk : SvdKernel k) {tol : ℝ} (htol : 0 ≤ tol) {d n : Nat}
    {v : List 𝕜} {ψ : MPS 𝕜} (h : MPS.fromVector k d n v tol = .ok ψ) :
    ∑ σ ∈ digitsU d n, ‖ψ.amp σ - v.getD (flat d σ) 0‖ ^ 2 ≤
      n * tol * ∑ c ∈ range v.length, ‖v.getD c 0‖ ^ 2 := by
  unfold MPS.fromVector at h
  simp only [Dense.pyAssert_bind] at h
  obtain ⟨hvl, h⟩ := h
  simp only [Dense.bind_ok] at h
  obtain ⟨⟨As, vend⟩, hloop, h⟩ := h
  obtain ⟨u, hv, h⟩ := h
  rw [Dense.pyAssert_ok] at hv
  simp only [Bool.and_eq_true, beq_iff_eq] at hv hvl h
  split at h
  · rw [Dense.throw_bind_ne] at h; exact h.elim
  · rename_i hn
    rw [Dense.pure_ok] at h
    subst h
    have hvl' : v.length = d ^ n := by rw [hvl, MPS.ipow_eq]
    have hc := fvLoop_inv n _ As vend hloop
    have hb := fvLoop_bound hk htol n _ As vend hloop hvl'
    rw [hv.1] at hc
    have hc1 : Chain3 (List.replicate n d) As 1 1 := hc
    have hne : As ≠ [] := by intro h0; exact hn (by simp [h0])
    rw [take_drop_scaleLast]
    have hcs := scaleLast_chain3 (vend.f 0 0) hc1
    have e : ∀ σ ∈ digitsU d n,
        ‖(⟨List.replicate d 0,
            (List.range (n + 1)).map (fun i => List.replicate
              (if i = 0 then 1 else ((scaleLast (vend.f 0 0) As).getD (i - 1) MPS.ones111).d2) (0 : Int)),
            scaleLast (vend.f 0 0) As⟩ : MPS 𝕜).amp σ - v.getD (flat d σ) 0‖ ^ 2 =
        ‖fvRec As vend 0 σ - (⟨1, v.length, fun _ c => v.toArray.getD c 0⟩ : Mat 𝕜).f 0 (flat d σ)‖ ^ 2 := by
      intro σ hσ
      rw [amp_eq_pmat (ψ := ⟨_, _, scaleLast (vend.f 0 0) As⟩) hcs hσ]
      show ‖pmat (scaleLast (vend.f 0 0) As) σ 0 0 - _‖ ^ 2 = _
      rw [scaleLast_pmat _ hc1 hne hσ Nat.one_pos]
      unfold fvRec
      rw [hv.1, Finset.sum_range_one, mul_comm]
      show _ = ‖_ - v.toArray.getD (flat d σ) 0‖ ^ 2
      rw [toArray_getD]
    rw [Finset.sum_congr rfl e]
    have hE : fvErr d n (⟨1, v.length, fun _ c => v.toArray.getD c 0⟩ : Mat 𝕜) As vend =
        ∑ σ ∈ digitsU d n, ‖fvRec As vend 0 σ -
          (⟨1, v.length, fun _ c => v.toArray.getD c 0⟩ : Mat 𝕜).f 0 (flat d σ)‖ ^ 2 := by
      unfold fvErr
      rw [Finset.sum_range_one]
    have hF : frobM (⟨1, v.length, fun _ c => v.toArray.getD c 0⟩ : Mat 𝕜) =
        ∑ c ∈ range v.length, ‖v.getD c 0‖ ^ 2 := by
      unfold frobM
      rw [Finset.sum_range_one]
      refine Finset.sum_congr rfl fun c _ => ?_
      show ‖v.toArray.getD c 0‖ ^ 2 = _
      rw [toArray_getD]
    rw [← hE, ← hF]
    exact hb

end Ptn.Compress

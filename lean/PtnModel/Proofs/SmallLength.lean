import PtnModel.Proofs.OgTotal
import PtnModel.Proofs.OgSimplifyLev
/-!
# `Graph.length` versus the terminal-to-terminal BFS distances (`ReachFrom`) on graphs without dead ends
-/
set_option linter.unusedSectionVars false
namespace Ptn.Og
open List Rw
variable {κ : Type} [CommRing κ] [DecidableEq κ]

/-- a walk of the level BFS of direction `d`, read backwards, is a walk of direction `!d` -/
theorem ReachFrom.reverse {g : Graph κ} (h : SValid g) {d : Bool} {x y : Int} {k : Nat} (r : ReachFrom g d x k y) :
    ReachFrom g (!d) y k x := by
  induction r with
  | refl x => exact ReachFrom.refl _
  | @cons x n eid e k y hn he hl _ ih =>
    have hmn := mem_of_dGet?_eq_some hn
    have hme := mem_of_dGet?_eq_some hl
    obtain ⟨n', hn', hk'⟩ := h.edgeNode eid e hme (!d)
    obtain ⟨e', he', hx⟩ := h.nodeEdge x n hmn (!d) eid he
    have := h.edge_unique hme he'
    subst this
    have hs := ReachFrom.snoc ih (dGet?_eq_some_of_mem h.nodesKeys hn') hk' hl
    simp only [Bool.not_not] at hs hx
    rw [hx] at hs
    exact hs

/-- the `while` loop of `node_depth` (direction 1) walks along a BFS walk and, without dead ends, stops at the end terminal -/
theorem depthLoop_reach {g : Graph κ} (sv : SValid g) (hL : LevelFun g false) (hnd : NoDeadEnd g) :
    ∀ (fuel : Nat) (x : Int) (node : Node) (depth : Nat),
      dGet? g.nodes x = some node → ReachFrom g false (g.term false) depth x → g.nodes.length + 1 ≤ depth + fuel →
      ∃ L, g.nodeDepthLoop true fuel node depth = .ok L ∧ ReachFrom g false (g.term false) L (g.term true) := by
  intro fuel
  induction fuel with
  | zero =>
    intro x node depth _ hr hf
    have := reach_lt sv hL hr
    omega
  | succ fuel ih =>
    intro x node depth hn hr hf
    have hmem := mem_of_dGet?_eq_some hn
    unfold Graph.nodeDepthLoop
    cases heids : node.eids true with
    | nil =>
      simp only
      have hxt : x = g.term true := by
        by_contra hc
        exact hnd x node hmem hc (by simpa [Node.eids] using heids)
      exact ⟨depth, rfl, hxt ▸ hr⟩
    | cons eid rest =>
      simp only
      have hin : eid ∈ node.eids true := by rw [heids]; simp
      obtain ⟨e, he, _⟩ := sv.nodeEdge x node hmem true eid hin
      obtain ⟨n1, hn1, _⟩ := sv.edgeNode eid e he true
      have hle := dGet?_eq_some_of_mem sv.edgesKeys he
      have hE : g.getEdge eid = .ok e := dGet_eq_ok_iff.2 hle
      have hN : g.getNode (e.nid true) = .ok n1 := dGet_eq_ok_iff.2 (dGet?_eq_some_of_mem sv.nodesKeys hn1)
      rw [hE, ok_bind, hN, ok_bind]
      have hs := ReachFrom.snoc (d := false) hr hn (by simpa using hin) hle
      simp only [Bool.not_false] at hs
      exact ih (e.nid true) n1 (depth + 1) (dGet?_eq_some_of_mem sv.nodesKeys hn1) hs (by omega)

/-- **`length` returns on valid graphs without dead ends**, and its value is a start-to-end BFS distance -/
theorem length_reach {g : Graph κ} (h : Valid g) (hnd : NoDeadEnd g) :
    ∃ L, g.length = .ok L ∧ ReachFrom g false (g.term false) L (g.term true) := by
  have hv := (valid_iff_levelFun g).1 h
  obtain ⟨n0, hn0, _⟩ := hv.1.termNode false
  have hn0' := dGet?_eq_some_of_mem hv.1.nodesKeys hn0
  unfold Graph.length Graph.nodeDepth
  have hN : g.getNode (g.term false) = .ok n0 := dGet_eq_ok_iff.2 hn0'
  rw [hN, ok_bind]
  exact depthLoop_reach hv.1 hv.2.1 hnd _ (g.term false) n0 0 hn0' (ReachFrom.refl _) (by omega)

/-- on valid graphs without dead ends every terminal-to-terminal BFS distance (either direction) is `length` -/
theorem reach_eq_length {g : Graph κ} (h : Valid g) (hnd : NoDeadEnd g) {L : Nat} (hlen : g.length = .ok L)
    {d : Bool} {j : Nat} (hr : ReachFrom g d (g.term d) j (g.term (!d))) : j = L := by
  have hv := (valid_iff_levelFun g).1 h
  obtain ⟨L', hL', hr'⟩ := length_reach h hnd
  rw [hlen] at hL'
  cases hL'
  cases d with
  | false => exact hv.2.1 _ _ _ hr hr'
  | true =>
    have := hr.reverse hv.1
    simp only [Bool.not_true] at this
    exact hv.2.1 _ _ _ this hr'

/-- two valid graphs without dead ends and of the same `length` have the same terminal-to-terminal BFS distances:
the hypothesis of the `add` theorems -/
theorem sameDist_of_length {g o : Graph κ} (hg : Valid g) (ho : Valid o) (ndg : NoDeadEnd g) (ndo : NoDeadEnd o)
    (hlen : g.length = o.length) :
    ∀ d j j', ReachFrom g d (g.term d) j (g.term (!d)) → ReachFrom o d (o.term d) j' (o.term (!d)) → j = j' := by
  intro d j j' r1 r2
  obtain ⟨L, hL, _⟩ := length_reach hg ndg
  have e1 := reach_eq_length hg ndg hL r1
  have e2 := reach_eq_length ho ndo (hlen ▸ hL) r2
  omega

end Ptn.Og

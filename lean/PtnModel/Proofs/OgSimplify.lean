import PtnModel.Proofs.OgLevelsRw
/-!
# `simplify`

Every successful `_simplify_step` is a successful `merge_edges` of two different edges; the loops of `simplify`
iterate it.  Hence `simplify` keeps validity and the denoted operator, removes exactly one edge per step and never adds
a node; on valid graphs the fuel of the model's loops is never exhausted.
-/
set_option linter.unusedSectionVars false
namespace Ptn.Og
open List Rw
variable {κ : Type} [CommRing κ] [DecidableEq κ]

theorem canMerge_pair {g : Graph κ} {d : Bool} {a b : Int} {p : Int × Int}
    (h : g.canMerge d a b = .ok (some p)) : p = (a, b) ∨ p = (b, a) := by
  unfold Graph.canMerge at h
  simp only [bind_ok, Graph.getEdge, Graph.getNode, dGet_eq_ok_iff] at h
  obtain ⟨e1, _, e2, _, h⟩ := h
  split at h
  · simp only [pure_ok, Option.some.injEq] at h; exact Or.inl h.symm
  · split at h
    · simp [pure_ok] at h
    · simp only [bind_ok, dGet_eq_ok_iff] at h
      obtain ⟨n1, _, n2, _, h⟩ := h
      split at h
      · simp [pure_ok] at h
      · split at h
        · simp [pure_ok] at h
        · split at h
          · simp [pure_ok] at h
          · repeat' split at h
            all_goals
              first
              | (have h' := pure_ok.1 h
                 first
                 | exact Or.inl (Option.some.inj h').symm
                 | exact Or.inr (Option.some.inj h').symm
                 | cases h')

theorem findPair_spec {g : Graph κ} {d : Bool} :
    ∀ {l : List (Int × Int)} {p : Int × Int}, g.findPair d l = .ok (some p) → ∃ q ∈ l, p = q ∨ p = (q.2, q.1)
  | [], p, h => by simp [Graph.findPair] at h
  | (a, b) :: rest, p, h => by
    rw [Graph.findPair, bind_ok] at h
    obtain ⟨r, hc, h⟩ := h
    cases r with
    | some p' =>
      simp only [pure_ok, Option.some.injEq] at h
      subst h
      exact ⟨(a, b), by simp, canMerge_pair hc⟩
    | none =>
      obtain ⟨q, hq, hp⟩ := findPair_spec h
      exact ⟨q, mem_cons_of_mem _ hq, hp⟩

theorem pairs2_ne {l : List Int} (hl : l.Nodup) : ∀ {a b : Int}, (a, b) ∈ pairs2 l → a ≠ b ∧ a ∈ l ∧ b ∈ l := by
  induction l with
  | nil => intro a b h; simp [pairs2] at h
  | cons x xs ih =>
    intro a b h
    rw [nodup_cons] at hl
    simp only [pairs2, mem_append, mem_map] at h
    rcases h with ⟨y, hy, heq⟩ | h
    · simp only [Prod.mk.injEq] at heq
      obtain ⟨rfl, rfl⟩ := heq
      exact ⟨fun q => hl.1 (q ▸ hy), by simp, by simp [hy]⟩
    · obtain ⟨h1, h2, h3⟩ := ih hl.2 h
      exact ⟨h1, mem_cons_of_mem _ h2, mem_cons_of_mem _ h3⟩

theorem findPairLayer_spec {g : Graph κ} {d : Bool} :
    ∀ {nids : List Int} {p : Int × Int}, g.findPairLayer d nids = .ok (some p) →
      ∃ nid n, nid ∈ nids ∧ dGet? g.nodes nid = some n ∧ ∃ q ∈ pairs2 (n.eids (!d)), p = q ∨ p = (q.2, q.1)
  | [], p, h => by simp [Graph.findPairLayer] at h
  | nid :: rest, p, h => by
    rw [Graph.findPairLayer] at h
    simp only [bind_ok, Graph.getNode, dGet_eq_ok_iff] at h
    obtain ⟨n, hn, r, hf, h⟩ := h
    cases r with
    | some p' =>
      simp only [pure_ok, Option.some.injEq] at h
      subst h
      exact ⟨nid, n, by simp, hn, findPair_spec hf⟩
    | none =>
      obtain ⟨nid', n', h1, h2, h3⟩ := findPairLayer_spec h
      exact ⟨nid', n', mem_cons_of_mem _ h1, h2, h3⟩

/-- a successful `_simplify_step` is a successful `merge_edges` of two different edges -/
theorem simplifyWalk_spec {g : Graph κ} (h : SValid g) {d : Bool} :
    ∀ {fuel : Nat} {nids : List Int} {g' : Graph κ}, g.simplifyWalk d fuel nids = .ok (some g') →
      ∃ e1 e2, e1 ≠ e2 ∧ g.mergeEdges e1 e2 d = .ok g'
  | 0, _, _, hr => by simp [Graph.simplifyWalk] at hr
  | fuel + 1, nids, g', hr => by
    rw [Graph.simplifyWalk, bind_ok] at hr
    obtain ⟨r, hf, hr⟩ := hr
    cases r with
    | some p =>
      obtain ⟨e1, e2⟩ := p
      simp only [bind_ok, pure_ok, Option.some.injEq] at hr
      obtain ⟨g1, hm, rfl⟩ := hr
      obtain ⟨nid, n, _, hn, ⟨a, b⟩, hq, hp⟩ := findPairLayer_spec hf
      obtain ⟨hne, _, _⟩ := pairs2_ne (h.eidsNodup nid n (mem_of_dGet?_eq_some hn) (!d)) hq
      refine ⟨e1, e2, ?_, hm⟩
      rcases hp with hp | hp <;> simp only [Prod.mk.injEq] at hp <;> obtain ⟨rfl, rfl⟩ := hp
      · exact hne
      · exact fun q => hne q.symm
    | none =>
      simp only [bind_ok] at hr
      obtain ⟨nids1, _, hr⟩ := hr
      split at hr
      · simp [pure_ok] at hr
      · exact simplifyWalk_spec h hr

theorem length_dErase {β : Type} {dd : List (Int × β)} {k : Int} (hk : k ∈ dKeys dd) :
    (dErase dd k).length + 1 = dd.length := by
  have := congrArg List.length (dKeys_dErase dd k)
  rw [length_erase_of_mem hk] at this
  have hpos : 0 < (dKeys dd).length := length_pos_of_mem hk
  simp only [dKeys, length_map] at this hpos
  omega

/-- a successful `merge_edges` of two different edges removes exactly one edge and no node is added -/
theorem mergeEdges_counts {g g' : Graph κ} (h : SValid g) {eid1 eid2 : Int} {d : Bool} (hne : eid1 ≠ eid2)
    (hr : g.mergeEdges eid1 eid2 d = .ok g') :
    g'.edges.length + 1 = g.edges.length ∧ g'.nodes.length ≤ g.nodes.length := by
  obtain ⟨edge1, edge2, h1, h2⟩ := mergeEdges_lookups hr
  have hk2 := dGet?_some_mem_keys h2
  have hlen := length_dErase hk2
  by_cases hpar : edge1.nid (!d) = edge2.nid (!d)
  · obtain ⟨_, hedges, _, hkeys, _⟩ := mergeEdges_par_spec h hr h1 h2 hpar hne
    constructor
    · rw [hedges, length_dReplace]; exact hlen
    · have := congrArg List.length hkeys
      simp only [dKeys, length_map] at this
      omega
  · obtain ⟨N1, N2, _, hN2, _, _, _, _, _, _, _, _, _, hedges, hkeys, _⟩ := mergeEdges_nodes_spec h hr h1 h2 hpar
    constructor
    · rw [hedges, length_map]; exact hlen
    · have := congrArg List.length hkeys
      rw [length_erase_of_mem (dGet?_some_mem_keys hN2)] at this
      simp only [dKeys, length_map] at this
      omega

/-- what `simplify` and its steps keep / how they move: a preorder on graphs -/
structure SimpRel (g g' : Graph κ) : Prop where
  term : g'.nidTerminal = g.nidTerminal
  den : ∀ w : Word, g'.denF w = g.denF w
  nodes : g'.nodes.length ≤ g.nodes.length
  edges : g'.edges.length ≤ g.edges.length

theorem SimpRel.refl (g : Graph κ) : SimpRel g g := ⟨rfl, fun _ => rfl, le_refl _, le_refl _⟩

theorem SimpRel.trans {a b c : Graph κ} (h1 : SimpRel a b) (h2 : SimpRel b c) : SimpRel a c :=
  ⟨h2.term.trans h1.term, fun w => (h2.den w).trans (h1.den w), le_trans h2.nodes h1.nodes, le_trans h2.edges h1.edges⟩

/-- **one `_simplify_step`** on a structurally valid graph -/
theorem simplifyStep_sem {g g' : Graph κ} (h : SValid g) {d : Bool} (hr : g.simplifyStep d = .ok (some g')) :
    SValid g' ∧ SimpRel g g' ∧ g'.edges.length + 1 = g.edges.length := by
  obtain ⟨e1, e2, hne, hm⟩ := simplifyWalk_spec h hr
  obtain ⟨hv, ht, hd⟩ := mergeEdges_sem h hne hm
  obtain ⟨c1, c2⟩ := mergeEdges_counts h hne hm
  exact ⟨hv, ⟨ht, hd, c2, by omega⟩, c1⟩

theorem simplifyStep_valid {g g' : Graph κ} (h : Valid g) {d : Bool} (hr : g.simplifyStep d = .ok (some g')) :
    Valid g' := by
  obtain ⟨e1, e2, hne, hm⟩ := simplifyWalk_spec h.1 hr
  exact h.mergeEdges hne hm

/-- the inner `while self._simplify_step(direction)` loop -/
theorem simplifyDir_sem {d : Bool} : ∀ {fuel : Nat} {g g' : Graph κ} {c c' : Bool}, SValid g →
    Graph.simplifyDir d fuel g c = .ok (g', c') → SValid g' ∧ SimpRel g g' ∧ (Valid g → Valid g') ∧
      (c' = true → c = true ∨ g'.edges.length < g.edges.length)
  | 0, _, _, _, _, _, hr => by simp [Graph.simplifyDir] at hr
  | fuel + 1, g, g', c, c', h, hr => by
    rw [Graph.simplifyDir, bind_ok] at hr
    obtain ⟨r, hs, hr⟩ := hr
    cases r with
    | some g1 =>
      obtain ⟨hv1, hrel1, hcnt⟩ := simplifyStep_sem h hs
      obtain ⟨hv', hrel', hval', hc'⟩ := simplifyDir_sem hv1 hr
      refine ⟨hv', hrel1.trans hrel', fun hV => hval' (simplifyStep_valid hV hs), fun _ => Or.inr ?_⟩
      have := hrel'.edges
      omega
    | none =>
      simp only [pure_ok, Prod.mk.injEq] at hr
      obtain ⟨rfl, rfl⟩ := hr
      exact ⟨h, SimpRel.refl _, id, fun hc => Or.inl hc⟩

/-- the outer `while changed` loop -/
theorem simplifyLoop_sem : ∀ {fuel : Nat} {g g' : Graph κ}, SValid g → Graph.simplifyLoop fuel g = .ok g' →
    SValid g' ∧ SimpRel g g' ∧ (Valid g → Valid g')
  | 0, _, _, _, hr => by simp [Graph.simplifyLoop] at hr
  | fuel + 1, g, g', h, hr => by
    rw [Graph.simplifyLoop] at hr
    simp only [bind_ok, Prod.exists] at hr
    obtain ⟨g0, c0, h0, g1, c1, h1, hr⟩ := hr
    obtain ⟨hv0, hrel0, hval0, _⟩ := simplifyDir_sem h h0
    obtain ⟨hv1, hrel1, hval1, _⟩ := simplifyDir_sem hv0 h1
    split at hr
    · obtain ⟨hv', hrel', hval'⟩ := simplifyLoop_sem hv1 hr
      exact ⟨hv', (hrel0.trans hrel1).trans hrel', fun hV => hval' (hval1 (hval0 hV))⟩
    · simp only [pure_ok] at hr
      subst hr
      exact ⟨hv1, hrel0.trans hrel1, fun hV => hval1 (hval0 hV)⟩

/-- **`simplify`** keeps structural validity, validity, terminals and the denoted operator, and never increases the
number of nodes or edges -/
theorem simplify_sem {g g' : Graph κ} (h : SValid g) (hr : g.simplify = .ok g') :
    SValid g' ∧ SimpRel g g' ∧ (Valid g → Valid g') :=
  simplifyLoop_sem h hr

end Ptn.Og

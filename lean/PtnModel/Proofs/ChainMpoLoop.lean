import PtnModel.Proofs.ChainMpoMat
import PtnModel.Proofs.ChainStep
/-!
# `from_opgraph`: the layer walk

Specifications of `nextBond`, `sortInts`, `bondContribs`, `assembleTensor`, and of the `while True` loop
(`fromOpgraphLoop`) in terms of the relation `Run`.
-/
set_option linter.unusedSectionVars false

namespace Ptn.Ch
open Ptn Ptn.Og List

variable {κ : Type} [CommRing κ] [DecidableEq κ]

/-! ## `sorted` -/

theorem perm_insert_split (x : Int) (acc : List Int) :
    (acc.takeWhile (· < x) ++ [x] ++ acc.dropWhile (· < x)).Perm (x :: acc) := by
  have h1 : (acc.takeWhile (· < x) ++ [x] ++ acc.dropWhile (· < x)).Perm
      (x :: (acc.takeWhile (· < x) ++ acc.dropWhile (· < x))) := by
    rw [append_assoc]
    exact perm_middle
  rw [takeWhile_append_dropWhile] at h1
  exact h1

theorem sortInts_perm (l : List Int) : (sortInts l).Perm l := by
  unfold sortInts
  induction l with
  | nil => simp
  | cons x l ih =>
    simp only [foldr_cons]
    exact (perm_insert_split x _).trans (Perm.cons _ ih)

/-! ## `nextBond` -/

/-- the inner loop of `nextBond` for one node -/
theorem nextBond_inner (g : Graph κ) (nid : Int) : ∀ (eids : List Int) (acc acc' : List Int),
    eids.foldlM (fun acc eid => do
      let edge ← g.getEdge eid
      pyAssert (edge.nids.1 == nid)
      pure (if acc.contains edge.nids.2 then acc else acc ++ [edge.nids.2])) acc = .ok acc' →
    acc.Nodup →
    acc'.Nodup ∧ (∀ x ∈ acc, x ∈ acc') ∧
    (∀ eid ∈ eids, ∃ e, dGet? g.edges eid = some e ∧ e.nids.1 = nid ∧ e.nids.2 ∈ acc') ∧
    (∀ x ∈ acc', x ∈ acc ∨ ∃ eid ∈ eids, ∃ e, dGet? g.edges eid = some e ∧ e.nids.2 = x) := by
  intro eids
  induction eids with
  | nil =>
    intro acc acc' h hn
    simp only [foldlM_nil, pure_ok_iff] at h
    subst h
    exact ⟨hn, fun _ h => h, by simp, fun x hx => Or.inl hx⟩
  | cons eid eids ih =>
    intro acc acc' h hn
    simp only [foldlM_cons, bind_ok_iff, pyAssert_ok_iff, pure_ok_iff] at h
    obtain ⟨acc1, ⟨e, he, _, hnid, rfl⟩, h2⟩ := h
    have he' : dGet? g.edges eid = some e := (dGet_ok_iff _ _ _).1 he
    have hnid' : e.nids.1 = nid := by simpa using hnid
    have hn1 : (if acc.contains e.nids.2 then acc else acc ++ [e.nids.2]).Nodup := by
      by_cases hc : acc.contains e.nids.2 = true
      · rw [if_pos hc]; exact hn
      · rw [if_neg hc]
        have hm : e.nids.2 ∉ acc := by simpa using hc
        rw [nodup_append]
        refine ⟨hn, by simp, ?_⟩
        intro a ha b hb
        simp only [mem_singleton] at hb
        subst hb
        rintro rfl
        exact hm ha
    have hsub1 : ∀ x ∈ acc, x ∈ (if acc.contains e.nids.2 then acc else acc ++ [e.nids.2]) := by
      intro x hx
      by_cases hc : acc.contains e.nids.2 = true
      · rw [if_pos hc]; exact hx
      · rw [if_neg hc]; exact mem_append_left _ hx
    have hin1 : e.nids.2 ∈ (if acc.contains e.nids.2 then acc else acc ++ [e.nids.2]) := by
      by_cases hc : acc.contains e.nids.2 = true
      · rw [if_pos hc]; simpa using hc
      · rw [if_neg hc]; simp
    obtain ⟨h1, h2', h3, h4⟩ := ih _ acc' h2 hn1
    refine ⟨h1, fun x hx => h2' x (hsub1 x hx), ?_, ?_⟩
    · intro eid' heid'
      rcases mem_cons.1 heid' with rfl | heid'
      · exact ⟨e, he', hnid', h2' _ hin1⟩
      · exact h3 eid' heid'
    · intro x hx
      rcases h4 x hx with hx | ⟨eid', heid', e', he'', hx'⟩
      · by_cases hc : acc.contains e.nids.2 = true
        · rw [if_pos hc] at hx; exact Or.inl hx
        · rw [if_neg hc, mem_append] at hx
          rcases hx with hx | hx
          · exact Or.inl hx
          · simp only [mem_singleton] at hx
            exact Or.inr ⟨eid, by simp, e, he', hx.symm⟩
      · exact Or.inr ⟨eid', by simp [heid'], e', he'', hx'⟩

/-- what `nextBond` computes -/
structure NextOK (g : Graph κ) (nids0 nids1 : List Int) : Prop where
  nodup : nids1.Nodup
  fwd : ∀ nid ∈ nids0, ∃ node, dGet? g.nodes nid = some node ∧
    ∀ eid ∈ node.eidsOut, ∃ e, dGet? g.edges eid = some e ∧ e.nids.1 = nid ∧ e.nids.2 ∈ nids1
  bwd : ∀ x ∈ nids1, ∃ nid ∈ nids0, ∃ node, dGet? g.nodes nid = some node ∧
    ∃ eid ∈ node.eidsOut, ∃ e, dGet? g.edges eid = some e ∧ e.nids.2 = x

theorem nextBond_spec (g : Graph κ) (nids0 nids1 : List Int) (h : g.nextBond nids0 = .ok nids1) :
    NextOK g nids0 nids1 := by
  unfold Graph.nextBond at h
  have key : ∀ (l : List Int) (acc acc' : List Int),
      l.foldlM (fun acc nid => do
        let node ← g.getNode nid
        node.eidsOut.foldlM (fun acc eid => do
          let edge ← g.getEdge eid
          pyAssert (edge.nids.1 == nid)
          pure (if acc.contains edge.nids.2 then acc else acc ++ [edge.nids.2])) acc) acc = .ok acc' →
      acc.Nodup →
      acc'.Nodup ∧ (∀ x ∈ acc, x ∈ acc') ∧
      (∀ nid ∈ l, ∃ node, dGet? g.nodes nid = some node ∧
        ∀ eid ∈ node.eidsOut, ∃ e, dGet? g.edges eid = some e ∧ e.nids.1 = nid ∧ e.nids.2 ∈ acc') ∧
      (∀ x ∈ acc', x ∈ acc ∨ ∃ nid ∈ l, ∃ node, dGet? g.nodes nid = some node ∧
        ∃ eid ∈ node.eidsOut, ∃ e, dGet? g.edges eid = some e ∧ e.nids.2 = x) := by
    intro l
    induction l with
    | nil =>
      intro acc acc' h hn
      simp only [foldlM_nil, pure_ok_iff] at h
      subst h
      exact ⟨hn, fun _ h => h, by simp, fun x hx => Or.inl hx⟩
    | cons nid l ih =>
      intro acc acc' h hn
      simp only [foldlM_cons, bind_ok_iff] at h
      obtain ⟨acc1, ⟨node, hnode, hin⟩, h2⟩ := h
      have hnode' : dGet? g.nodes nid = some node := (dGet_ok_iff _ _ _).1 hnode
      obtain ⟨a1, a2, a3, a4⟩ := nextBond_inner g nid node.eidsOut acc acc1 hin hn
      obtain ⟨b1, b2, b3, b4⟩ := ih acc1 acc' h2 a1
      refine ⟨b1, fun x hx => b2 x (a2 x hx), ?_, ?_⟩
      · intro nid' hnid'
        rcases mem_cons.1 hnid' with rfl | hnid'
        · refine ⟨node, hnode', ?_⟩
          intro eid heid
          obtain ⟨e, he1, he2, he3⟩ := a3 eid heid
          exact ⟨e, he1, he2, b2 _ he3⟩
        · exact b3 nid' hnid'
      · intro x hx
        rcases b4 x hx with hx | ⟨nid', hnid', rest⟩
        · rcases a4 x hx with hx | ⟨eid, heid, e, he, hx'⟩
          · exact Or.inl hx
          · exact Or.inr ⟨nid, by simp, node, hnode', eid, heid, e, he, hx'⟩
        · exact Or.inr ⟨nid', by simp [hnid'], rest⟩
  obtain ⟨k1, _, k3, k4⟩ := key nids0 [] nids1 h (by simp)
  refine ⟨k1, k3, ?_⟩
  intro x hx
  rcases k4 x hx with hx | hx
  · simp at hx
  · exact hx

/-! ## `bondContribs` and `assembleTensor` -/

/-- body of the edge loop of the tensor assembly -/
def contribInner (g : Graph κ) (opmap : OpMap κ) (d : Nat) (nids1 : List Int) (i0 : Nat)
    (acc : List (Nat × Nat × Mat κ)) (eid : Int) : Except Err (List (Nat × Nat × Mat κ)) := do
  let edge ← g.getEdge eid
  if !(nids1.contains edge.nids.2) then throw Err.value
  let j := nids1.idxOf edge.nids.2
  let m ← opicsDense opmap d edge.opics
  pure (acc ++ [(i0, j, m)])

theorem bondContribs_eq (g : Graph κ) (opmap : OpMap κ) (d : Nat) (nids0 nids1 : List Int) :
    g.bondContribs opmap d nids0 nids1 = (nids0.zipIdx).foldlM (fun acc (ni : Int × Nat) => do
      let node ← g.getNode ni.1
      node.eidsOut.foldlM (contribInner g opmap d nids1 ni.2) acc) [] := rfl

theorem contribInner_ok_iff (g : Graph κ) (opmap : OpMap κ) (d : Nat) (nids1 : List Int) (i0 : Nat)
    (acc acc' : List (Nat × Nat × Mat κ)) (eid : Int) :
    contribInner g opmap d nids1 i0 acc eid = .ok acc' ↔
      ∃ e, dGet? g.edges eid = some e ∧ e.nids.2 ∈ nids1 ∧
        ∃ m, opicsDense opmap d e.opics = .ok m ∧ acc' = acc ++ [(i0, nids1.idxOf e.nids.2, m)] := by
  unfold contribInner
  simp only [bind_ok_iff, Graph.getEdge, dGet_ok_iff]
  constructor
  · rintro ⟨e, he, h⟩
    by_cases hc : nids1.contains e.nids.2 = true
    · simp only [hc, Bool.not_true, Bool.false_eq_true, if_false, bind_ok_iff, pure_ok_iff] at h
      obtain ⟨m, hm, h⟩ := h
      exact ⟨e, he, by simpa using hc, m, hm, h.symm⟩
    · have hb : nids1.contains e.nids.2 = false := by simpa using hc
      simp only [hb, Bool.not_false, if_true] at h
      simp [throw, throwThe, MonadExceptOf.throw, bind, Except.bind] at h
  · rintro ⟨e, he, hmem, m, hm, rfl⟩
    have hc : nids1.contains e.nids.2 = true := by simpa using hmem
    refine ⟨e, he, ?_⟩
    simp only [hc, Bool.not_true, Bool.false_eq_true, if_false, bind_ok_iff, pure_ok_iff]
    exact ⟨m, hm, rfl⟩

/-- the sum of the entries `(a, b)` of the contributions to position `(i, j)` -/
def contribSum (i j a b : Nat) (contribs : List (Nat × Nat × Mat κ)) : κ :=
  (contribs.map fun c => if c.1 = i ∧ c.2.1 = j then c.2.2.entry a b else 0).sum

/-- the same sum computed from the graph: edges leaving `nid` towards the `j`-th node of `S` -/
def rowSum (g : Graph κ) (opmap : OpMap κ) (S : List Int) (a b j : Nat) (nid : Int) : κ :=
  match dGet? g.nodes nid with
  | none => 0
  | some node =>
    (node.eidsOut.map fun eid =>
      match dGet? g.edges eid with
      | none => 0
      | some e => if S.idxOf e.nids.2 = j then edgeDense opmap e a b else 0).sum

theorem contribInner_sum (g : Graph κ) (opmap : OpMap κ) (d : Nat) (hw : OpMapWF opmap d) (S : List Int) (i0 : Nat)
    (i j a b : Nat) : ∀ (eids : List Int) (acc acc' : List (Nat × Nat × Mat κ)),
    eids.foldlM (contribInner g opmap d S i0) acc = .ok acc' →
    contribSum i j a b acc' = contribSum i j a b acc +
      (eids.map fun eid =>
        match dGet? g.edges eid with
        | none => 0
        | some e => if i0 = i ∧ S.idxOf e.nids.2 = j then edgeDense opmap e a b else 0).sum := by
  intro eids
  induction eids with
  | nil =>
    intro acc acc' h
    simp only [foldlM_nil, pure_ok_iff] at h
    subst h
    simp
  | cons eid eids ih =>
    intro acc acc' h
    simp only [foldlM_cons, bind_ok_iff, contribInner_ok_iff] at h
    obtain ⟨acc1, ⟨e, he, _, m, hm, rfl⟩, h2⟩ := h
    rw [ih _ acc' h2]
    simp only [contribSum, map_append, sum_append, map_cons, map_nil, sum_cons, sum_nil, add_zero, he,
      opicsDense_spec opmap d hw e m hm]
    ring

theorem bondContribs_sum (g : Graph κ) (opmap : OpMap κ) (d : Nat) (hw : OpMapWF opmap d) (nids0 S : List Int)
    (contribs : List (Nat × Nat × Mat κ)) (h : g.bondContribs opmap d nids0 S = .ok contribs)
    (i j a b : Nat) :
    contribSum i j a b contribs
      = ((nids0.zipIdx).map fun ni => if ni.2 = i then rowSum g opmap S a b j ni.1 else 0).sum := by
  rw [bondContribs_eq] at h
  have key : ∀ (l : List (Int × Nat)) (acc acc' : List (Nat × Nat × Mat κ)),
      l.foldlM (fun acc (ni : Int × Nat) => do
        let node ← g.getNode ni.1
        node.eidsOut.foldlM (contribInner g opmap d S ni.2) acc) acc = .ok acc' →
      contribSum i j a b acc' = contribSum i j a b acc +
        (l.map fun ni => if ni.2 = i then rowSum g opmap S a b j ni.1 else 0).sum := by
    intro l
    induction l with
    | nil =>
      intro acc acc' h
      simp only [foldlM_nil, pure_ok_iff] at h
      subst h
      simp
    | cons ni l ih =>
      intro acc acc' h
      simp only [foldlM_cons, bind_ok_iff, Graph.getNode, dGet_ok_iff] at h
      obtain ⟨acc1, ⟨node, hnode, hin⟩, h2⟩ := h
      rw [ih acc1 acc' h2, contribInner_sum g opmap d hw S ni.2 i j a b _ _ _ hin]
      simp only [map_cons, sum_cons, rowSum, hnode]
      rw [add_assoc]
      congr 1
      congr 1
      by_cases hi : ni.2 = i
      · simp only [hi, true_and, if_true]
      · simp only [hi, false_and, if_false]
        apply sum_map_eq_zero
        intro eid _
        cases dGet? g.edges eid <;> rfl
  have := key _ [] contribs h
  simpa [contribSum] using this

/-- every edge leaving a node of the current layer ends in the next layer (so its index is in range) -/
theorem bondContribs_targets (g : Graph κ) (opmap : OpMap κ) (d : Nat) (nids0 S : List Int)
    (contribs : List (Nat × Nat × Mat κ)) (h : g.bondContribs opmap d nids0 S = .ok contribs) :
    ∀ nid ∈ nids0, ∃ node, dGet? g.nodes nid = some node ∧
      ∀ eid ∈ node.eidsOut, ∃ e, dGet? g.edges eid = some e ∧ e.nids.2 ∈ S := by
  rw [bondContribs_eq] at h
  have key : ∀ (l : List (Int × Nat)) (acc acc' : List (Nat × Nat × Mat κ)),
      l.foldlM (fun acc (ni : Int × Nat) => do
        let node ← g.getNode ni.1
        node.eidsOut.foldlM (contribInner g opmap d S ni.2) acc) acc = .ok acc' →
      ∀ ni ∈ l, ∃ node, dGet? g.nodes ni.1 = some node ∧
        ∀ eid ∈ node.eidsOut, ∃ e, dGet? g.edges eid = some e ∧ e.nids.2 ∈ S := by
    intro l
    induction l with
    | nil => intro _ _ _ ni hni; simp at hni
    | cons ni0 l ih =>
      intro acc acc' h ni hni
      simp only [foldlM_cons, bind_ok_iff, Graph.getNode, dGet_ok_iff] at h
      obtain ⟨acc1, ⟨node, hnode, hin⟩, h2⟩ := h
      rcases mem_cons.1 hni with rfl | hni
      · refine ⟨node, hnode, ?_⟩
        have inner : ∀ (eids : List Int) (acc acc' : List (Nat × Nat × Mat κ)),
            eids.foldlM (contribInner g opmap d S ni.2) acc = .ok acc' →
            ∀ eid ∈ eids, ∃ e, dGet? g.edges eid = some e ∧ e.nids.2 ∈ S := by
          intro eids
          induction eids with
          | nil => intro _ _ _ eid heid; simp at heid
          | cons eid0 eids ih' =>
            intro acc acc' h eid heid
            simp only [foldlM_cons, bind_ok_iff, contribInner_ok_iff] at h
            obtain ⟨acc1, ⟨e, he, hmem, _⟩, h2⟩ := h
            rcases mem_cons.1 heid with rfl | heid
            · exact ⟨e, he, hmem⟩
            · exact ih' _ _ h2 eid heid
        exact inner _ _ _ hin
      · exact ih acc1 acc' h2 ni hni
  intro nid hnid
  obtain ⟨i, hi, hget⟩ := getElem_of_mem hnid
  have hmem : (nid, i) ∈ nids0.zipIdx := by
    rw [mem_zipIdx_iff_getElem?]
    simp [hget, hi]
  exact key _ _ _ h (nid, i) hmem

end Ptn.Ch

import PtnModel.Proofs.DenseBasic
import PtnModel.Proofs.DenseDefs
/-!
# Row-vector recursion `ampRow` / `elemRow`: unfolding, congruence on in-range indices, linearity
-/
namespace Ptn
open Finset

namespace MPS
variable {R : Type} [CommRing R]

/-- one step of `ampRow` -/
def step (A : T3 R) (s : Nat) (v : Nat → R) : Nat → R := fun b => ∑ a ∈ range A.d1, v a * A.f s a b

theorem ampRow_nil (s : List Nat) (v : Nat → R) : ampRow ([] : List (T3 R)) s v = v := by
  cases s <;> rfl

theorem ampRow_nil' (As : List (T3 R)) (v : Nat → R) : ampRow As [] v = v := by
  cases As <;> rfl

theorem ampRow_cons (A : T3 R) (As : List (T3 R)) (s : Nat) (ss : List Nat) (v : Nat → R) :
    ampRow (A :: As) (s :: ss) v = ampRow As ss (step A s v) := by
  simp only [ampRow, Dense.sumRange_eq]; rfl

theorem step_congr (A : T3 R) (s : Nat) {v v' : Nat → R} (h : ∀ a < A.d1, v a = v' a) :
    step A s v = step A s v' := by
  funext b
  apply sum_congr rfl
  intro a ha
  rw [h a (mem_range.1 ha)]

/-- `ampRow` only looks at the in-range entries of the start vector. -/
theorem ampRow_congr (d : Nat) : ∀ (As : List (T3 R)) (s : List Nat) (Dl Dr : Nat) (v v' : Nat → R),
    Chain d Dl As Dr → s.length = As.length → (∀ a < Dl, v a = v' a) →
    ∀ b < Dr, ampRow As s v b = ampRow As s v' b
  | [], s, Dl, Dr, v, v', hc, _, h, b, hb => by
      rw [ampRow_nil, ampRow_nil]
      have : Dl = Dr := hc
      exact h b (by omega)
  | A :: As, [], _, _, _, _, _, hl, _, _, _ => by simp at hl
  | A :: As, s :: ss, Dl, Dr, v, v', hc, hl, h, b, hb => by
      obtain ⟨_, h1, hc'⟩ := hc
      rw [ampRow_cons, ampRow_cons, step_congr A s (v := v) (v' := v') (by rw [h1]; exact h)]

theorem step_sum {ι : Type} (A : T3 R) (s : Nat) (I : Finset ι) (c : ι → R) (w : ι → Nat → R) :
    step A s (fun a => ∑ i ∈ I, c i * w i a) = fun b => ∑ i ∈ I, c i * step A s (w i) b := by
  funext b
  simp only [step]
  simp only [sum_mul, mul_sum]
  rw [sum_comm]
  apply sum_congr rfl; intro i _
  apply sum_congr rfl; intro a _
  ring

/-- linearity of `ampRow` in the start vector -/
theorem ampRow_sum {ι : Type} : ∀ (As : List (T3 R)) (s : List Nat) (I : Finset ι) (c : ι → R) (w : ι → Nat → R)
    (b : Nat), ampRow As s (fun a => ∑ i ∈ I, c i * w i a) b = ∑ i ∈ I, c i * ampRow As s (w i) b
  | [], s, I, c, w, b => by simp only [ampRow_nil]
  | A :: As, [], I, c, w, b => by simp only [ampRow_nil']
  | A :: As, s :: ss, I, c, w, b => by
      simp only [ampRow_cons]
      rw [step_sum, ampRow_sum As ss I c (fun i => step A s (w i)) b]

theorem ampRow_smul (As : List (T3 R)) (s : List Nat) (c : R) (w : Nat → R) (b : Nat) :
    ampRow As s (fun a => c * w a) b = c * ampRow As s w b := by
  have := ampRow_sum As s (Finset.range 1) (fun _ => c) (fun _ => w) b
  simpa using this

theorem ampRow_add (As : List (T3 R)) (s : List Nat) (v w : Nat → R) (b : Nat) :
    ampRow As s (fun a => v a + w a) b = ampRow As s v b + ampRow As s w b := by
  have := ampRow_sum As s (Finset.range 2) (fun _ => 1) (fun i => if i = 0 then v else w) b
  simpa [Finset.sum_range_succ] using this

/-- the start vector `e₀` -/
def e0 : Nat → R := fun a => if a = 0 then 1 else 0

theorem amp_eq (ψ : MPS R) (s : List Nat) : ψ.amp s = ampRow ψ.A s e0 0 := rfl

theorem step_e0 (A : T3 R) (s : Nat) (h : A.d1 = 1) : step A s e0 = fun b => A.f s 0 b := by
  funext b
  simp [step, h, e0]

omit [CommRing R] in
theorem Chain.d0 {d Dl Dr : Nat} {A : T3 R} {As : List (T3 R)} (h : Chain d Dl (A :: As) Dr) : A.d0 = d := h.1
omit [CommRing R] in
theorem Chain.d1 {d Dl Dr : Nat} {A : T3 R} {As : List (T3 R)} (h : Chain d Dl (A :: As) Dr) : A.d1 = Dl := h.2.1
omit [CommRing R] in
theorem Chain.tail {d Dl Dr : Nat} {A : T3 R} {As : List (T3 R)} (h : Chain d Dl (A :: As) Dr) :
    Chain d A.d2 As Dr := h.2.2

end MPS

namespace MPO
variable {R : Type} [CommRing R]

/-- one step of `elemRow` -/
def step (A : T4 R) (s t : Nat) (v : Nat → R) : Nat → R := fun b => ∑ a ∈ range A.d2, v a * A.f s t a b

theorem elemRow_nil (s t : List Nat) (v : Nat → R) : elemRow ([] : List (T4 R)) s t v = v := by
  cases s <;> cases t <;> rfl

theorem elemRow_nil' (As : List (T4 R)) (t : List Nat) (v : Nat → R) : elemRow As [] t v = v := by
  cases As <;> cases t <;> rfl

theorem elemRow_nil'' (As : List (T4 R)) (s : List Nat) (v : Nat → R) : elemRow As s [] v = v := by
  cases As <;> cases s <;> rfl

theorem elemRow_cons (A : T4 R) (As : List (T4 R)) (s t : Nat) (ss ts : List Nat) (v : Nat → R) :
    elemRow (A :: As) (s :: ss) (t :: ts) v = elemRow As ss ts (step A s t v) := by
  simp only [elemRow, Dense.sumRange_eq]; rfl

theorem step_congr (A : T4 R) (s t : Nat) {v v' : Nat → R} (h : ∀ a < A.d2, v a = v' a) :
    step A s t v = step A s t v' := by
  funext b
  apply sum_congr rfl
  intro a ha
  rw [h a (mem_range.1 ha)]

theorem elemRow_congr (d : Nat) : ∀ (As : List (T4 R)) (s t : List Nat) (Dl Dr : Nat) (v v' : Nat → R),
    Chain d Dl As Dr → s.length = As.length → t.length = As.length → (∀ a < Dl, v a = v' a) →
    ∀ b < Dr, elemRow As s t v b = elemRow As s t v' b
  | [], s, t, Dl, Dr, v, v', hc, _, _, h, b, hb => by
      rw [elemRow_nil, elemRow_nil]
      have : Dl = Dr := hc
      exact h b (by omega)
  | A :: As, [], _, _, _, _, _, _, hl, _, _, _, _ => by simp at hl
  | A :: As, _ :: _, [], _, _, _, _, _, _, hl, _, _, _ => by simp at hl
  | A :: As, s :: ss, t :: ts, Dl, Dr, v, v', hc, hl, hl', h, b, hb => by
      obtain ⟨_, _, h1, hc'⟩ := hc
      rw [elemRow_cons, elemRow_cons, step_congr A s t (v := v) (v' := v') (by rw [h1]; exact h)]

theorem step_sum {ι : Type} (A : T4 R) (s t : Nat) (I : Finset ι) (c : ι → R) (w : ι → Nat → R) :
    step A s t (fun a => ∑ i ∈ I, c i * w i a) = fun b => ∑ i ∈ I, c i * step A s t (w i) b := by
  funext b
  simp only [step]
  simp only [sum_mul, mul_sum]
  rw [sum_comm]
  apply sum_congr rfl; intro i _
  apply sum_congr rfl; intro a _
  ring

theorem elemRow_sum {ι : Type} : ∀ (As : List (T4 R)) (s t : List Nat) (I : Finset ι) (c : ι → R)
    (w : ι → Nat → R) (b : Nat),
    elemRow As s t (fun a => ∑ i ∈ I, c i * w i a) b = ∑ i ∈ I, c i * elemRow As s t (w i) b
  | [], s, t, I, c, w, b => by simp only [elemRow_nil]
  | A :: As, [], t, I, c, w, b => by simp only [elemRow_nil']
  | A :: As, s :: ss, [], I, c, w, b => by simp only [elemRow_nil'']
  | A :: As, s :: ss, t :: ts, I, c, w, b => by
      simp only [elemRow_cons]
      rw [step_sum, elemRow_sum As ss ts I c (fun i => step A s t (w i)) b]

theorem elemRow_smul (As : List (T4 R)) (s t : List Nat) (c : R) (w : Nat → R) (b : Nat) :
    elemRow As s t (fun a => c * w a) b = c * elemRow As s t w b := by
  have := elemRow_sum As s t (Finset.range 1) (fun _ => c) (fun _ => w) b
  simpa using this

theorem elemRow_add (As : List (T4 R)) (s t : List Nat) (v w : Nat → R) (b : Nat) :
    elemRow As s t (fun a => v a + w a) b = elemRow As s t v b + elemRow As s t w b := by
  have := elemRow_sum As s t (Finset.range 2) (fun _ => 1) (fun i => if i = 0 then v else w) b
  simpa [Finset.sum_range_succ] using this

def e0 : Nat → R := fun a => if a = 0 then 1 else 0

theorem elem_eq (o : MPO R) (s t : List Nat) : o.elem s t = elemRow o.A s t e0 0 := rfl

theorem step_e0 (A : T4 R) (s t : Nat) (h : A.d2 = 1) : step A s t e0 = fun b => A.f s t 0 b := by
  funext b
  simp [step, h, e0]

omit [CommRing R] in
theorem Chain.d0 {d Dl Dr : Nat} {A : T4 R} {As : List (T4 R)} (h : Chain d Dl (A :: As) Dr) : A.d0 = d := h.1
omit [CommRing R] in
theorem Chain.d1 {d Dl Dr : Nat} {A : T4 R} {As : List (T4 R)} (h : Chain d Dl (A :: As) Dr) : A.d1 = d := h.2.1
omit [CommRing R] in
theorem Chain.d2 {d Dl Dr : Nat} {A : T4 R} {As : List (T4 R)} (h : Chain d Dl (A :: As) Dr) : A.d2 = Dl := h.2.2.1
omit [CommRing R] in
theorem Chain.tail {d Dl Dr : Nat} {A : T4 R} {As : List (T4 R)} (h : Chain d Dl (A :: As) Dr) :
    Chain d A.d3 As Dr := h.2.2.2

end MPO
end Ptn

import PtnModel.Proofs.Evo2Split
/-!
# Two-site TDVP: norm and energy are conserved (imaginary time step, zero split tolerance)

* `twoSiteUpdate_inv` : merge, evolve with the two-site effective operator, split at tolerance zero: the window invariant,
                        norm one and the energy are kept; the factor without the singular values is an isometry;
* `tdvp2Left_inv`, `tdvp2Right_inv` : the two loop bodies (two-site update, new block, backward one-site step);
* `tdvp2Step_inv`, `tdvp2_main`     : a complete time step and the driver.
-/
set_option linter.unusedSectionVars false

namespace Ptn.Evo
open Ptn Ptn.BondOps Ptn.Ortho Ptn.Env Ptn.Krylov Ptn.Dense Finset

variable {𝕜 : Type} [RCLike 𝕜] [DecidableEq 𝕜]
local notation "conj" => starRingEnd 𝕜

/-- descending loop `for i in reversed(range(n))` -/
theorem foldIdx_rev {σ : Type} (f : σ → Nat → Except Err σ) (P : Nat → σ → Prop) :
    ∀ (n : Nat), (∀ i, i < n → ∀ s s', P (i + 1) s → f s i = .ok s' → P i s') →
    ∀ (s r : σ), P n s → foldIdx f (List.range n).reverse s = .ok r → P 0 r
  | 0, _, s, r, h0, hr => by
    unfold foldIdx at hr
    simp only [List.range_zero, List.reverse_nil] at hr
    rw [foldlM_ok_nil] at hr
    subst hr; exact h0
  | n + 1, step, s, r, h0, hr => by
    rw [List.range_succ, List.reverse_append, List.reverse_singleton, List.singleton_append] at hr
    unfold foldIdx at hr
    rw [foldlM_ok_cons] at hr
    obtain ⟨t, h1, h2⟩ := hr
    have ht := step n (by omega) s t h0 h1
    exact foldIdx_rev f P n (fun i hi => step i (by omega)) t r ht h2

variable {k : EvoKernels 𝕜 ℝ} {H : MPO 𝕜} {qd : List Int} {numiter : Nat}

/-- **Merge, evolve, split** (purely imaginary time argument, split tolerance zero). -/
theorem twoSiteUpdate_inv (ctx : SweepCtx k H qd numiter) (hk : Compress.SvdKernel k.svd)
    (hexp : ∀ x : ℝ, ‖k.dexp (RCLike.I * (x : 𝕜))‖ = 1) {s s' : Sweep 𝕜} {i : Nat} {E : ℝ} (h : Canon2 H qd s i)
    (hn : normSq (cur qd s) qd.length = 1) (he : energy (cur qd s) H qd.length = ((E : ℝ) : 𝕜))
    {δ : 𝕜} {t : ℝ} (hδ : -δ = RCLike.I * (t : 𝕜)) {distr : Nat} (hdistr : distr ≤ 1)
    (hrun : twoSiteUpdate k H qd δ numiter (0 : ℝ) distr s i = .ok s') :
    Canon2 H qd s' i ∧ normSq (cur qd s') qd.length = 1 ∧ energy (cur qd s') H qd.length = ((E : ℝ) : 𝕜) ∧
      (distr = 1 → LeftIso (getA s' i)) ∧ (distr = 0 → RightIso (getA s' (i + 1))) ∧ s'.BL = s.BL ∧ s'.BR = s.BR := by
  obtain ⟨Am1, A0, A1, qb, h1, h2, rfl⟩ := twoSiteUpdate_unfold hrun
  have h1' : localHamiltonianStep k (getBL s i) (getBR s (i + 1)) (mergedW H i) (mergedA s i) δ numiter = .ok Am1 := h1
  obtain ⟨hF, hHerm⟩ := canon2_local h ctx.hH ctx.herm
  obtain ⟨m0, m1, m2⟩ := mergedA_dims h
  rw [← m0, ← m1, ← m2] at hF hHerm
  have hE := ctx.eigh (localHFun (getBL s i) (getBR s (i + 1)) (mergedW H i) (mergedA s i).d0 (mergedA s i).d1
    (mergedA s i).d2) (flat3 (mergedA s i))
  obtain ⟨a0, a1, a2, hfrob⟩ := localStep_norm ctx.norm hF hHerm hE hexp hδ h1'
  obtain ⟨T0, hT0, _⟩ := applyLocal_ker hF (A := mergedA s i) rfl rfl rfl
  obtain ⟨T1, hT1, _⟩ := applyLocal_ker hF (A := Am1) a0 a1 a2
  have hen := localStep_energy ctx.norm hF hHerm hE hexp hδ h1' hT0 hT1
  obtain ⟨c1, c2⟩ := canon2_cur h
  obtain ⟨n0, e0⟩ := canon2_centre h ctx.hH (mergedA_dims h)
  have hfr : frob3 (mergedA s i) = 1 := by
    have := (n0.symm.trans c1.symm).trans hn
    exact_mod_cast this
  have hpos : 0 < frob3 Am1 := by rw [hfrob, hfr]; exact one_pos
  obtain ⟨hcan, hl, hr, _, hn', he'⟩ := split_step_canon hk h ctx.hH ctx.dpos hdistr (X := Am1)
    ⟨a0.trans m0, a1.trans m1, a2.trans m2⟩ hpos h2
  obtain ⟨g0, g1⟩ := getA_pair (s := s) (i := i) h.wf.sizeA h.hi A0 A1 (s.qD.setIfInBounds (i + 1) qb) s.BL s.BR
  refine ⟨hcan, ?_, ?_, ?_, ?_, rfl, rfl⟩
  · rw [hn', hfrob, hfr]; simp
  · rw [he' T1 hT1, hen, ← e0 T0 hT0, ← c2]; exact he
  · intro hd; rw [g0]; exact hl hd
  · intro hd; rw [g1]; exact hr hd

/-- **Loop body of the left-to-right half of a two-site TDVP step** at the sites `(i, i+1)` (centre `i → i+1`). -/
theorem tdvp2Left_inv (ctx : SweepCtx k H qd numiter) (hk : Compress.SvdKernel k.svd)
    (hexp : ∀ x : ℝ, ‖k.dexp (RCLike.I * (x : 𝕜))‖ = 1)
    {hh τ : ℝ} (hhalf : k.half = ((hh : ℝ) : 𝕜)) {dt : 𝕜} (hdt : dt = RCLike.I * ((τ : ℝ) : 𝕜))
    {s s' : Sweep 𝕜} {i : Nat} {E : ℝ} (h : DInv H qd s i E) (hi1 : i + 1 < H.A.length)
    (hrun : tdvp2Left k H qd dt numiter (0 : ℝ) s i = .ok s') : DInv H qd s' (i + 1) E := by
  obtain ⟨s1, BLn, An, h1, h2, h3, rfl⟩ := tdvp2Left_unfold hrun
  have hδ1 : -(k.half * dt) = RCLike.I * ((-(hh * τ) : ℝ) : 𝕜) := by rw [hhalf, hdt]; push_cast; ring
  have hδ2 : -(-(k.half * dt)) = RCLike.I * ((hh * τ : ℝ) : 𝕜) := by rw [hhalf, hdt]; push_cast; ring
  obtain ⟨hcan, hn, he, hl, _, _, _⟩ := twoSiteUpdate_inv ctx hk hexp (h.can.toTwoL hi1) h.nrm h.en hδ1
    (Nat.le_refl 1) h1
  have hc2 := hcan.toL ctx.hH (hl rfl) h2
  set s2 : Sweep 𝕜 := ⟨s1.A, s1.qD, s1.BL.setIfInBounds (i + 1) BLn, s1.BR⟩ with hs2
  have hD2 : DInv H qd s2 (i + 1) E := ⟨hc2, hn, he⟩
  have gBL : getBL s2 (i + 1) = BLn := getD_setIfInBounds_eq _ _ _ (by rw [hcan.sizeBL]; exact hi1)
  have h3' : localHamiltonianStep k (getBL s2 (i + 1)) (getBR s2 (i + 1)) (H.A.getD (i + 1) zeroT4) (getA s2 (i + 1))
      (-(k.half * dt)) numiter = .ok An := by rw [gBL]; exact h3
  exact (centre_step_inv ctx hexp hD2 hδ2 h3').1

/-- **Loop body of the right-to-left half of a two-site TDVP step** at the sites `(i, i+1)` (centre `i+1 → i`). -/
theorem tdvp2Right_inv (ctx : SweepCtx k H qd numiter) (hk : Compress.SvdKernel k.svd)
    (hexp : ∀ x : ℝ, ‖k.dexp (RCLike.I * (x : 𝕜))‖ = 1)
    {hh τ : ℝ} (hhalf : k.half = ((hh : ℝ) : 𝕜)) {dt : 𝕜} (hdt : dt = RCLike.I * ((τ : ℝ) : 𝕜))
    {s s' : Sweep 𝕜} {i : Nat} {E : ℝ} (h : DInv H qd s (i + 1) E)
    (hrun : tdvp2Right k H qd dt numiter (0 : ℝ) s i = .ok s') : DInv H qd s' i E := by
  obtain ⟨An, s1, BRn, h1, h2, h3, rfl⟩ := tdvp2Right_unfold hrun
  have hδ1 : -(k.half * dt) = RCLike.I * ((-(hh * τ) : ℝ) : 𝕜) := by rw [hhalf, hdt]; push_cast; ring
  have hδ2 : -(-(k.half * dt)) = RCLike.I * ((hh * τ : ℝ) : 𝕜) := by rw [hhalf, hdt]; push_cast; ring
  obtain ⟨hD0, _⟩ := centre_step_inv ctx hexp h hδ2 h1
  obtain ⟨hcan, hn, he, _, hr, _, _⟩ := twoSiteUpdate_inv ctx hk hexp hD0.can.toTwoR hD0.nrm hD0.en hδ1
    (Nat.zero_le 1) h2
  exact ⟨hcan.toR ctx.hH (hr rfl) h3, hn, he⟩

/-- **One complete two-site TDVP time step** keeps the invariant (centre `0`), norm one and the energy. -/
theorem tdvp2Step_inv (ctx : SweepCtx k H qd numiter) (hk : Compress.SvdKernel k.svd)
    (hexp : ∀ x : ℝ, ‖k.dexp (RCLike.I * (x : 𝕜))‖ = 1)
    {hh τ : ℝ} (hhalf : k.half = ((hh : ℝ) : 𝕜)) {dt : 𝕜} (hdt : dt = RCLike.I * ((τ : ℝ) : 𝕜))
    (hL2 : 2 ≤ H.A.length) {s s' : Sweep 𝕜} {E : ℝ} (h : DInv H qd s 0 E)
    (hrun : tdvp2Step k H qd dt numiter (0 : ℝ) s = .ok s') : DInv H qd s' 0 E := by
  obtain ⟨s1, s2, BRn, h1, h2, h3, h4⟩ := tdvp2Step_unfold hrun
  have hleft := foldIdx_range (tdvp2Left k H qd dt numiter 0) (fun i t => DInv H qd t i E) (H.A.length - 2)
    (fun i hi t t' ht ht' => tdvp2Left_inv ctx hk hexp hhalf hdt ht (by omega) ht') s s1 h h1
  have hδ : -dt = RCLike.I * ((-τ : ℝ) : 𝕜) := by rw [hdt]; push_cast; ring
  obtain ⟨hcan, hn, he, _, hr, _, _⟩ := twoSiteUpdate_inv ctx hk hexp (hleft.can.toTwoL (by omega)) hleft.nrm hleft.en hδ
    (Nat.zero_le 1) h2
  have hmid : DInv H qd (⟨s2.A, s2.qD, s2.BL, s2.BR.setIfInBounds (H.A.length - 2) BRn⟩ : Sweep 𝕜)
      (H.A.length - 2) E := ⟨hcan.toR ctx.hH (hr rfl) h3, hn, he⟩
  exact foldIdx_rev (tdvp2Right k H qd dt numiter 0) (fun i t => DInv H qd t i E) (H.A.length - 2)
    (fun i hi t t' ht ht' => tdvp2Right_inv ctx hk hexp hhalf hdt ht ht') _ s' hmid h4

/-- **Two-site TDVP with a purely imaginary time step and zero split tolerance conserves norm and energy**, for every
number of steps and every number of Krylov iterations. -/
theorem tdvp2_main (ctx : SweepCtx k H qd numiter) (hk : Compress.SvdKernel k.svd)
    (hexp : ∀ x : ℝ, ‖k.dexp (RCLike.I * (x : 𝕜))‖ = 1)
    {hh τ : ℝ} (hhalf : k.half = ((hh : ℝ) : 𝕜)) {dt : 𝕜} (hdt : dt = RCLike.I * ((τ : ℝ) : 𝕜))
    {ψ ψ' : MPS 𝕜} (hqd : ψ.qd = qd) (hadm : Admissible ψ) {numsteps : Nat} {nrm : ℝ}
    (h : integrateLocalTwosite k H ψ dt numsteps numiter (0 : ℝ) = .ok (ψ', nrm)) :
    ∃ ψ1 E0, MPS.orthonormalize (ρ := ℝ) k.dqr ψ false = .ok (ψ1, nrm) ∧
      energy ψ1 H qd.length = ((E0 : ℝ) : 𝕜) ∧ normSq ψ' qd.length = 1 ∧ energy ψ' H qd.length = ((E0 : ℝ) : 𝕜) := by
  obtain ⟨s0, s, hp, hL2, hit, rfl⟩ := integrate2_unfold h
  obtain ⟨ψ1, E0, ho, hcur, hinv0⟩ := prologue_inv ctx hqd hadm hp
  rw [hqd] at hit
  have hfin := iterate_inv (tdvp2Step k H qd dt numiter 0) (fun t => DInv H qd t 0 E0)
    (fun t t' ht ht' => tdvp2Step_inv ctx hk hexp hhalf hdt hL2 ht ht') numsteps s0 s hinv0 hit
  have htm : toMPS ψ s = cur qd s := by rw [← hqd]; rfl
  exact ⟨ψ1, E0, ho, by rw [← hcur]; exact hinv0.en, by rw [htm]; exact hfin.nrm, by rw [htm]; exact hfin.en⟩

end Ptn.Evo

import Mathlib.Algebra.BigOperators.Group.Finset.Basic
import PtnModel.Model.Operation
/-!
# Definitions used in the statements of C03 (no lemmas here)

* `MPS.Chain d Dl As Dr`   : the tensors `As` all have physical dimension `d`, the first has left bond dimension `Dl`,
                             consecutive bond dimensions match, the last has right bond dimension `Dr`;
* `MPS.Shaped ψ d`         : `ψ` has `L ≥ 1` tensors forming a chain from bond dimension 1 to bond dimension 1,
                             `len(qd) = d`, and the charge lists `qD[i]` have the lengths of the bond dimensions;
* `MPO.Chain`, `MPO.Shaped`: the same for MPOs (both physical dimensions equal to `d`);
* `Digits d n s`           : `s` is a digit list of length `n` with entries `< d`;
* `sumDigits d n f`        : `Σ_{u ∈ {0..d-1}^n} f u`;
* `flat d s`               : row-major position of the digit list `s` (first site most significant).
-/
namespace Ptn

/-- digit list of length `n` with entries `< d` -/
def Digits (d n : Nat) (s : List Nat) : Prop := s.length = n ∧ ∀ x ∈ s, x < d

instance (d n : Nat) (s : List Nat) : Decidable (Digits d n s) := by unfold Digits; infer_instance

/-- `Σ_{u ∈ {0..d-1}^n} f u` -/
def sumDigits {R : Type} [AddCommMonoid R] (d : Nat) : Nat → (List Nat → R) → R
  | 0, f => f []
  | n + 1, f => ∑ u ∈ Finset.range d, sumDigits d n (fun us => f (u :: us))

/-- row-major position continuing from `acc` -/
def flatFrom (d : Nat) (acc : Nat) (s : List Nat) : Nat := s.foldl (fun x sk => x * d + sk) acc

/-- row-major position of a digit list (first digit most significant) -/
def flat (d : Nat) (s : List Nat) : Nat := flatFrom d 0 s

namespace MPS
variable {α : Type}

def Chain (d : Nat) : Nat → List (T3 α) → Nat → Prop
  | Dl, [], Dr => Dl = Dr
  | Dl, A :: As, Dr => A.d0 = d ∧ A.d1 = Dl ∧ Chain d A.d2 As Dr

/-- tensor dimensions agree with the lengths of the charge lists -/
def DimsMatch (d : Nat) : List (T3 α) → List (List Int) → Prop
  | [], [_] => True
  | A :: As, q0 :: q1 :: qs => A.d0 = d ∧ A.d1 = q0.length ∧ A.d2 = q1.length ∧ DimsMatch d As (q1 :: qs)
  | _, _ => False

/-- shape invariant of an MPS with `L ≥ 1` sites of physical dimension `d` and dummy boundary bonds -/
structure Shaped (ψ : MPS α) (d : Nat) : Prop where
  qd_len : ψ.qd.length = d
  nonempty : ψ.A ≠ []
  chain : Chain d 1 ψ.A 1
  dims : DimsMatch d ψ.A ψ.qD

end MPS

namespace MPO
variable {α : Type}

def Chain (d : Nat) : Nat → List (T4 α) → Nat → Prop
  | Dl, [], Dr => Dl = Dr
  | Dl, A :: As, Dr => A.d0 = d ∧ A.d1 = d ∧ A.d2 = Dl ∧ Chain d A.d3 As Dr

def DimsMatch (d : Nat) : List (T4 α) → List (List Int) → Prop
  | [], [_] => True
  | A :: As, q0 :: q1 :: qs =>
      A.d0 = d ∧ A.d1 = d ∧ A.d2 = q0.length ∧ A.d3 = q1.length ∧ DimsMatch d As (q1 :: qs)
  | _, _ => False

structure Shaped (o : MPO α) (d : Nat) : Prop where
  qd_len : o.qd.length = d
  nonempty : o.A ≠ []
  chain : Chain d 1 o.A 1
  dims : DimsMatch d o.A o.qD

end MPO
end Ptn

import PtnModel.Proofs.CompressBasic
/-!
# Weights of one block-SVD split (matrix level), for C13

For a successful `splitMatrixSvd dsvd dnorm dargsort M q0 q1 tol = .ok (u, s, v, q)` under the kernel contracts:

* `frobM_eq_spectrum`   : `‖M‖_F² = Σ_p σ_p²` over the concatenated spectrum;
* `shared_of_frob_pos`  : a non-zero matrix has a shared charge; `anyNZ_of_frob_pos`: it has a non-zero entry;
* `split_weight`        : `Σ_t s_t² ≤ ‖M‖_F²` and `(1 - tol) ‖M‖_F² ≤ Σ_t s_t²`; `0 < len s` for `tol < 1`, `M ≠ 0`.
-/
set_option linter.unusedSectionVars false
namespace Ptn.Compress
open Ptn.BondOps Ptn.Ortho Finset

variable {𝕜 : Type} [RCLike 𝕜] [DecidableEq 𝕜]

/-- the embedding `ℝ → 𝕜` as a ring homomorphism -/
noncomputable abbrev ιR (𝕜 : Type) [RCLike 𝕜] : ℝ →+* 𝕜 := algebraMap ℝ 𝕜

theorem ιR_apply (x : ℝ) : ιR 𝕜 x = (x : 𝕜) := rfl

theorem ιR_star (x : ℝ) : star (ιR 𝕜 x) = ιR 𝕜 x := RCLike.conj_ofReal x

variable {dsvd : Mat 𝕜 → Mat 𝕜 × List ℝ × Mat 𝕜} {M : Mat 𝕜} {q0 q1 : List Int}
variable (dnorm : List ℝ → ℝ) (dargsort : List ℝ → List Nat) (tol : ℝ)

/-- a matrix with a non-zero entry shares a charge between rows and columns -/
theorem shared_of_frob_pos (H : QRInput M q0 q1) (hpos : 0 < frobM M) : intersect1d q0 q1 ≠ [] := by
  intro he
  obtain ⟨i, j, hi, hj, hne⟩ := exists_ne_of_frobM_pos hpos
  exact hne (all_zero_of_disjoint H he i j hi hj)

/-- a matrix with positive Frobenius norm has a non-zero entry -/
theorem anyNZ_of_frob_pos (hpos : 0 < frobM M) : AnyNZ M := exists_ne_of_frobM_pos hpos

/-- `‖M‖_F² = Σ_p σ_p²` (sum over the concatenated spectrum of the blocks) -/
theorem frobM_eq_spectrum (hc : C12.SVDContractOn (ιR 𝕜) dsvd M q0 q1) (H : QRInput M q0 q1) :
    frobM M = sqSum (spectrum dsvd M q0 q1) := by
  by_cases hnz : AnyNZ M
  · obtain ⟨u, s, v, q, hrun⟩ := C12.split_ok (fun _ => (0 : ℝ)) (fun _ => []) 0 hc.shape H.hq0 H.hq1 H.hm H.hn H.hsp
    have hd := C12.split_dims (fun _ => (0 : ℝ)) (fun _ => []) 0 hc.shape H.hq0 H.hq1 H.hm H.hn H.hsp hrun
    have hk : retainedBondIndices (fun _ => (0 : ℝ)) (fun _ => []) (spectrum dsvd M q0 q1) 0 = [] :=
      C12.rule_zero _ _ _ _ rfl
    have hs0 : u.n = 0 := by
      rw [hd.2.1, hd.2.2.2.2.2.2.1 hnz, hk]; rfl
    have herr := C12.split_error_identity (fun _ => (0 : ℝ)) (fun _ => []) 0 ιR_star hc H.hq0 H.hq1 H.hm H.hn H.hsp hrun
    have ht : ∀ i j, tripleF (ιR 𝕜) u s v i j = 0 := by
      intro i j; unfold tripleF; rw [hs0]; simp
    simp only [ht, sub_zero, hk, List.not_mem_nil, if_false] at herr
    apply RCLike.ofReal_injective (K := 𝕜)
    rw [frobM_cast, herr, sqSum, ← sum_range_getD, RCLike.ofReal_sum]
    refine sum_congr rfl fun p _ => ?_
    rw [RCLike.ofReal_mul]
  · have hz := (not_anyNZ_iff M).1 hnz
    have hL : frobM M = 0 := by
      unfold frobM
      refine sum_eq_zero fun i hi => sum_eq_zero fun j hj => ?_
      rw [hz i j (mem_range.1 hi) (mem_range.1 hj)]; simp
    rw [hL, sqSum, ← sum_range_getD]
    symm
    refine sum_eq_zero fun p hp => ?_
    have h0 := spectrum_zero_of_zero (ιR 𝕜) hc.shape hc.product hc.isoU hc.isoV H hnz (mem_range.1 hp)
    have : (spectrum dsvd M q0 q1).getD p 0 = 0 := by
      apply RCLike.ofReal_injective (K := 𝕜)
      rw [RCLike.ofReal_zero]; exact h0
    rw [this, mul_zero]

/-- the relative weight of a strictly increasing list of valid indices is at most the total weight -/
theorem weightOf_le_total (spec : List ℝ) (w : ℝ) {l : List Nat} (hp : l.Pairwise (· < ·))
    (hb : ∀ i ∈ l, i < spec.length) :
    C12.weightOf spec w l ≤ C12.weightOf spec w (List.range spec.length) := by
  have hnd : l.Nodup := hp.imp (fun h => Nat.ne_of_lt h)
  unfold C12.weightOf
  rw [← List.sum_toFinset _ hnd, ← List.sum_toFinset _ List.nodup_range, List.toFinset_range]
  refine sum_le_sum_of_subset_of_nonneg ?_ ?_
  · intro i hi
    exact mem_range.2 (hb i (List.mem_toFinset.1 hi))
  · intro i _ _
    unfold C12.relWeight
    positivity

/-- `Σ_{i ∈ l} spec_i² = w² · weightOf spec w l` for `w ≠ 0` -/
theorem sqSum_map_eq (spec : List ℝ) {w : ℝ} (hw : w ≠ 0) (l : List Nat) :
    sqSum (l.map fun i => spec.getD i 0) = w * w * C12.weightOf spec w l := by
  unfold sqSum C12.weightOf
  rw [← List.sum_map_mul_left, List.map_map]
  congr 1
  apply List.map_congr_left
  intro i _
  simp only [Function.comp, C12.relWeight]
  field_simp

/-- weights of one split: the kept singular values carry at most the whole and at least `(1 - tol)` of
`‖M‖_F²` -/
theorem split_weight (hc : C12.SVDContractOn (ιR 𝕜) dsvd M q0 q1) (H : QRInput M q0 q1)
    (hnorm : C12.NormContract (spectrum dsvd M q0 q1) (dnorm (spectrum dsvd M q0 q1)))
    (hsort : C12.SortContract (C12.sortKeys (spectrum dsvd M q0 q1) (dnorm (spectrum dsvd M q0 q1)))
      (dargsort (C12.sortKeys (spectrum dsvd M q0 q1) (dnorm (spectrum dsvd M q0 q1)))))
    (htol : 0 ≤ tol) (hpos : 0 < frobM M)
    {u v : Mat 𝕜} {s : List ℝ} {q : List Int}
    (hrun : splitMatrixSvd dsvd dnorm dargsort M q0 q1 tol = .ok (u, s, v, q)) :
    sqSum s ≤ frobM M ∧ (1 - tol) * frobM M ≤ sqSum s := by
  have hnz := anyNZ_of_frob_pos hpos
  have hF := frobM_eq_spectrum hc H
  obtain ⟨hs, -⟩ := C12.split_values dnorm dargsort tol hc.shape H.hq0 H.hq1 H.hm H.hn H.hsp hrun hnz
  have hw2 : dnorm (spectrum dsvd M q0 q1) * dnorm (spectrum dsvd M q0 q1) = frobM M := by
    rw [hnorm.2, hF]; rfl
  have hw : dnorm (spectrum dsvd M q0 q1) ≠ 0 := by
    intro h0; rw [h0, mul_zero] at hw2; rw [← hw2] at hpos; exact lt_irrefl _ hpos
  have hS : sqSum s = frobM M *
      C12.weightOf (spectrum dsvd M q0 q1) (dnorm (spectrum dsvd M q0 q1))
        (retainedBondIndices dnorm dargsort (spectrum dsvd M q0 q1) tol) := by
    rw [hs, sqSum_map_eq _ hw, hw2]
  have hv := C12.rule_indices_valid dnorm dargsort (spectrum dsvd M q0 q1) tol
  have h1 := weightOf_le_total (spectrum dsvd M q0 q1) (dnorm (spectrum dsvd M q0 q1)) hv.1 hv.2
  rw [C12.rule_total dnorm _ hnorm hw] at h1
  have h2 := C12.rule_kept_weight dnorm dargsort _ tol hnorm hw hsort htol
  rw [hS]
  constructor
  · nlinarith
  · nlinarith

/-! ## projections: `uᴴ M = diag(s) v` and `M vᴴ = u diag(s)` -/

section proj
variable {ι : ℝ →+* 𝕜}

/-- `uᴴ M = diag(s) v` and `M vᴴ = u diag(s)` for the returned (truncated) factors (both branches: for a zero
matrix `s = [0]` and both sides vanish) -/
theorem split_proj (hc : C12.SVDContractOn (ιR 𝕜) dsvd M q0 q1) (H : QRInput M q0 q1)
    {u v : Mat 𝕜} {s : List ℝ} {q : List Int}
    (hrun : splitMatrixSvd dsvd dnorm dargsort M q0 q1 tol = .ok (u, s, v, q)) {t : Nat} (ht : t < s.length) :
    (∀ j, j < M.n → ∑ i ∈ range M.m, star (u.f i t) * M.f i j = (s.getD t 0 : 𝕜) * v.f t j) ∧
    (∀ i, i < M.m → ∑ j ∈ range M.n, M.f i j * star (v.f t j) = u.f i t * (s.getD t 0 : 𝕜)) := by
  rcases split_run_cases dnorm dargsort tol hc.shape H hrun with ⟨hz, rfl, rfl, rfl, rfl⟩ | ⟨-, rfl, rfl, rfl, rfl⟩
  · have hM := (not_anyNZ_iff M).1 hz
    have ht0 : t = 0 := by simpa using ht
    subst ht0
    constructor
    · intro j hj
      rw [sum_eq_zero fun i hi => by rw [hM i j (mem_range.1 hi) hj, mul_zero]]
      simp
    · intro i hi
      rw [sum_eq_zero fun j hj => by rw [hM i j hi (mem_range.1 hj), zero_mul]]
      simp
  · obtain ⟨U1, U2, U3⟩ := outU_spec dnorm dargsort tol (dsvd := dsvd) H.hq0 H.hq1
    obtain ⟨V1, V2, V3⟩ := outV_spec dnorm dargsort tol (dsvd := dsvd) H.hq0 H.hq1
    obtain ⟨kp, kb⟩ := keptIdx_valid dnorm dargsort tol hc.shape H
    have hI := svdLoopState_inv hc.shape H.hq0 H.hq1
    have hD : (spectrum dsvd M q0 q1).length = (svdLoopState dsvd M q0 q1).D := hI.slen
    have ht' : t < (keptIdx dnorm dargsort dsvd M q0 q1 tol).length := by simpa [outS] using ht
    have hkt : (keptIdx dnorm dargsort dsvd M q0 q1 tol).getD t 0 < (spectrum dsvd M q0 q1).length := by
      rw [hD]; exact kb _ (getD_mem_of_lt ht')
    have hs : (outS dnorm dargsort dsvd M q0 q1 tol).getD t 0 =
        (spectrum dsvd M q0 q1).getD ((keptIdx dnorm dargsort dsvd M q0 q1 tol).getD t 0) 0 := by
      rw [outS, getD_map_idx _ _ _ ht']
    have hu : ∀ i, i < M.m → (outU dnorm dargsort dsvd M q0 q1 tol).f i t =
        fullU dsvd M q0 q1 i ((keptIdx dnorm dargsort dsvd M q0 q1 tol).getD t 0) := fun i hi => U3 i t hi ht'
    have hv : ∀ j, j < M.n → (outV dnorm dargsort dsvd M q0 q1 tol).f t j =
        fullV dsvd M q0 q1 ((keptIdx dnorm dargsort dsvd M q0 q1 tol).getD t 0) j := fun j hj => V3 t j ht' hj
    generalize (keptIdx dnorm dargsort dsvd M q0 q1 tol).getD t 0 = kt at hkt hs hu hv
    constructor
    · intro j hj
      have e : ∀ i ∈ range M.m, star ((outU dnorm dargsort dsvd M q0 q1 tol).f i t) * M.f i j =
          ∑ p ∈ range (spectrum dsvd M q0 q1).length,
            (star (fullU dsvd M q0 q1 i kt) * fullU dsvd M q0 q1 i p) *
              ((ιR 𝕜) ((spectrum dsvd M q0 q1).getD p 0) * fullV dsvd M q0 q1 p j) := by
        intro i hi
        rw [hu i (mem_range.1 hi), ← full_expansion (ιR 𝕜) hc.shape hc.product H (mem_range.1 hi) hj, mul_sum]
        refine sum_congr rfl fun p _ => ?_
        ring
      rw [sum_congr rfl e, sum_comm]
      have e2 : ∀ p ∈ range (spectrum dsvd M q0 q1).length,
          ∑ i ∈ range M.m, (star (fullU dsvd M q0 q1 i kt) * fullU dsvd M q0 q1 i p) *
              ((ιR 𝕜) ((spectrum dsvd M q0 q1).getD p 0) * fullV dsvd M q0 q1 p j) =
          if kt = p then (ιR 𝕜) ((spectrum dsvd M q0 q1).getD p 0) * fullV dsvd M q0 q1 p j else 0 := by
        intro p hp
        rw [← sum_mul, fullU_iso hc.shape hc.isoU H hkt (mem_range.1 hp)]
        split <;> simp
      rw [sum_congr rfl e2, sum_ite_eq (range (spectrum dsvd M q0 q1).length) kt, if_pos (mem_range.2 hkt), hs,
        hv j hj]
    · intro i hi
      have e : ∀ j ∈ range M.n, M.f i j * star ((outV dnorm dargsort dsvd M q0 q1 tol).f t j) =
          ∑ p ∈ range (spectrum dsvd M q0 q1).length,
            (fullU dsvd M q0 q1 i p * (ιR 𝕜) ((spectrum dsvd M q0 q1).getD p 0)) *
              (fullV dsvd M q0 q1 p j * star (fullV dsvd M q0 q1 kt j)) := by
        intro j hj
        rw [hv j (mem_range.1 hj), ← full_expansion (ιR 𝕜) hc.shape hc.product H hi (mem_range.1 hj), sum_mul]
        refine sum_congr rfl fun p _ => ?_
        ring
      rw [sum_congr rfl e, sum_comm]
      have e2 : ∀ p ∈ range (spectrum dsvd M q0 q1).length,
          ∑ j ∈ range M.n, (fullU dsvd M q0 q1 i p * (ιR 𝕜) ((spectrum dsvd M q0 q1).getD p 0)) *
              (fullV dsvd M q0 q1 p j * star (fullV dsvd M q0 q1 kt j)) =
          if p = kt then fullU dsvd M q0 q1 i p * (ιR 𝕜) ((spectrum dsvd M q0 q1).getD p 0) else 0 := by
        intro p hp
        rw [← mul_sum, fullV_iso hc.shape hc.isoV H (mem_range.1 hp) hkt]
        split <;> simp
      rw [sum_congr rfl e2, sum_ite_eq' (range (spectrum dsvd M q0 q1).length) kt, if_pos (mem_range.2 hkt), hs,
        hu i hi]

end proj

end Ptn.Compress

import PtnModel.Proofs.ChainGraph
/-!
# The exact structural invariant of the graph under construction in `from_opchains`

`GStar g nn en`: node keys are `-1` and `0 … nn-1`, edge keys lie in `0 … en-1`, all keys are pairwise different,
every node lists exactly the ids of the edges leaving / entering it (in dictionary order), every edge goes
from a node `≥ 0` to a strictly larger node `< nn` and carries a single operator.
Three graph updates preserve it: adding an isolated node, inserting a registered edge between two existing
nodes (V branch), and inserting an edge into a freshly created node (U branch).
-/
set_option linter.unusedSectionVars false

namespace Ptn.Ch
open Ptn Ptn.Og List

variable {κ : Type} [CommRing κ] [DecidableEq κ]

/-- ids of the edges leaving `k`, in dictionary order -/
def outIds (g : Graph κ) (k : Int) : List Int := ((edgeList g).filter (fun e => e.nids.1 = k)).map (·.eid)
/-- ids of the edges entering `k`, in dictionary order -/
def inIds (g : Graph κ) (k : Int) : List Int := ((edgeList g).filter (fun e => e.nids.2 = k)).map (·.eid)

structure GStar (g : Graph κ) (nn en : Int) : Prop where
  nnPos : 1 ≤ nn
  enPos : 0 ≤ en
  nodesKeys : (dKeys g.nodes).Nodup
  nodesMem : ∀ k, dHas g.nodes k = true ↔ (k = -1 ∨ (0 ≤ k ∧ k < nn))
  nodeOK : ∀ k n, dGet? g.nodes k = some n → n.nid = k ∧ n.eidsOut = outIds g k ∧ n.eidsIn = inIds g k
  edgesKeys : (dKeys g.edges).Nodup
  edgesRange : ∀ k, dHas g.edges k = true → 0 ≤ k ∧ k < en
  keyEid : ∀ p ∈ g.edges, p.2.eid = p.1
  edgeOK : ∀ e ∈ edgeList g, 0 ≤ e.nids.1 ∧ e.nids.1 < e.nids.2 ∧ e.nids.2 < nn ∧ ∃ o c, e.opics = [(o, c)]
  term : g.nidTerminal = (0, -1)
  nodesLen : (g.nodes.length : Int) = nn + 1

theorem dHas_append {β : Type} (d : List (Int × β)) (k : Int) (v : β) (k2 : Int) :
    dHas (d ++ [(k, v)]) k2 = (dHas d k2 || k2 == k) := by
  unfold dHas
  rw [lookup_append]
  cases h : lookup k2 d with
  | some x => simp
  | none =>
    by_cases hk : k2 = k
    · subst hk; simp [lookup_cons]
    · have : (k2 == k) = false := by simpa using hk
      simp [lookup_cons, this]

theorem dGet?_append {β : Type} (d : List (Int × β)) (k : Int) (v : β) (k2 : Int) :
    dGet? (d ++ [(k, v)]) k2 = (dGet? d k2).or (if k2 = k then some v else none) := by
  unfold dGet?
  rw [lookup_append]
  congr 1
  by_cases hk : k2 = k
  · subst hk; simp [lookup_cons]
  · have : (k2 == k) = false := by simpa using hk
    simp [lookup_cons, this, hk]

theorem dHas_eq_isSome {β : Type} (d : List (Int × β)) (k : Int) : dHas d k = (dGet? d k).isSome := rfl

theorem dGet?_dReplace {β : Type} (d : List (Int × β)) (k : Int) (v : β) (k2 : Int) :
    dGet? (dReplace d k v) k2 = if k2 = k then (dGet? d k2).map (fun _ => v) else dGet? d k2 :=
  lookup_dReplace d k v k2

theorem outIds_append (g : Graph κ) (eid : Int) (e : Edge κ) (k : Int) (nodes : List (Int × Node)) :
    outIds { g with nodes := nodes, edges := g.edges ++ [(eid, e)] } k
      = outIds g k ++ (if e.nids.1 = k then [e.eid] else []) := by
  unfold outIds edgeList
  simp only [map_append, map_cons, map_nil, filter_append]
  by_cases h : e.nids.1 = k <;> simp [h]

theorem inIds_append (g : Graph κ) (eid : Int) (e : Edge κ) (k : Int) (nodes : List (Int × Node)) :
    inIds { g with nodes := nodes, edges := g.edges ++ [(eid, e)] } k
      = inIds g k ++ (if e.nids.2 = k then [e.eid] else []) := by
  unfold inIds edgeList
  simp only [map_append, map_cons, map_nil, filter_append]
  by_cases h : e.nids.2 = k <;> simp [h]

theorem outIds_nodes (g : Graph κ) (nodes : List (Int × Node)) (k : Int) :
    outIds { g with nodes := nodes } k = outIds g k := rfl

theorem inIds_nodes (g : Graph κ) (nodes : List (Int × Node)) (k : Int) :
    inIds { g with nodes := nodes } k = inIds g k := rfl

theorem GStar.outIds_eq_nil {g : Graph κ} {nn en : Int} (h : GStar g nn en) {k : Int} (hk : nn ≤ k + 1) :
    outIds g k = [] := by
  unfold outIds
  rw [map_eq_nil_iff, filter_eq_nil_iff]
  intro e he
  have := h.edgeOK e he
  simp only [decide_eq_true_eq]
  omega

theorem GStar.inIds_eq_nil {g : Graph κ} {nn en : Int} (h : GStar g nn en) {k : Int} (hk : nn ≤ k ∨ k ≤ 0) :
    inIds g k = [] := by
  unfold inIds
  rw [map_eq_nil_iff, filter_eq_nil_iff]
  intro e he
  have := h.edgeOK e he
  simp only [decide_eq_true_eq]
  omega

/-- all listed edge ids are below `en` -/
theorem GStar.outIds_lt {g : Graph κ} {nn en : Int} (h : GStar g nn en) (k : Int) : ∀ x ∈ outIds g k, x < en := by
  intro x hx
  unfold outIds edgeList at hx
  obtain ⟨e, he, rfl⟩ := mem_map.1 hx
  obtain ⟨p, hp, rfl⟩ := mem_map.1 (mem_filter.1 he).1
  rw [h.keyEid p hp]
  have : dHas g.edges p.1 = true := by
    rw [dHas_eq_isSome, dGet?_of_mem h.edgesKeys (k := p.1) (v := p.2) hp]; rfl
  exact (h.edgesRange _ this).2

theorem GStar.inIds_lt {g : Graph κ} {nn en : Int} (h : GStar g nn en) (k : Int) : ∀ x ∈ inIds g k, x < en := by
  intro x hx
  unfold inIds edgeList at hx
  obtain ⟨e, he, rfl⟩ := mem_map.1 hx
  obtain ⟨p, hp, rfl⟩ := mem_map.1 (mem_filter.1 he).1
  rw [h.keyEid p hp]
  have : dHas g.edges p.1 = true := by
    rw [dHas_eq_isSome, dGet?_of_mem h.edgesKeys (k := p.1) (v := p.2) hp]; rfl
  exact (h.edgesRange _ this).2

theorem GStar.edge_fresh {g : Graph κ} {nn en : Int} (h : GStar g nn en) : dHas g.edges en = false := by
  cases hh : dHas g.edges en with
  | false => rfl
  | true => have := h.edgesRange en hh; omega

theorem GStar.node_fresh {g : Graph κ} {nn en : Int} (h : GStar g nn en) : dHas g.nodes nn = false := by
  cases hh : dHas g.nodes nn with
  | false => rfl
  | true => have := (h.nodesMem nn).1 hh; have := h.nnPos; omega

theorem GStar.node_exists {g : Graph κ} {nn en : Int} (h : GStar g nn en) {k : Int} (hk : 0 ≤ k ∧ k < nn) :
    ∃ n, dGet? g.nodes k = some n := by
  have := (h.nodesMem k).2 (Or.inr hk)
  rw [dHas_eq_isSome] at this
  exact Option.isSome_iff_exists.1 this

/-- the edge part of the three updates -/
theorem GStar.edges_append {g : Graph κ} {nn en : Int} (h : GStar g nn en) (a b o : Int) (c : κ)
    (ha : 0 ≤ a) (hab : a < b) :
    (dKeys (g.edges ++ [(en, (⟨en, (a, b), [(o, c)]⟩ : Edge κ))])).Nodup ∧
    (∀ k, dHas (g.edges ++ [(en, (⟨en, (a, b), [(o, c)]⟩ : Edge κ))]) k = true → 0 ≤ k ∧ k < en + 1) ∧
    (∀ p ∈ g.edges ++ [(en, (⟨en, (a, b), [(o, c)]⟩ : Edge κ))], p.2.eid = p.1) := by
  refine ⟨edgesKeys_append h.edgesKeys _ _ h.edge_fresh, ?_, ?_⟩
  · intro k hk
    rw [dHas_append, Bool.or_eq_true] at hk
    rcases hk with hk | hk
    · have := h.edgesRange k hk; omega
    · have : k = en := by simpa using hk
      have := h.enPos
      omega
  · intro p hp
    rcases mem_append.1 hp with hp | hp
    · exact h.keyEid p hp
    · simp only [mem_singleton] at hp
      rw [hp]

theorem dKeys_append_nodup {β : Type} {d : List (Int × β)} (h : (dKeys d).Nodup) (k : Int) (v : β)
    (hk : dHas d k = false) : (dKeys (d ++ [(k, v)])).Nodup := by
  have : k ∉ dKeys d := (dHas_false_iff _ _).1 hk
  simp only [dKeys, map_append, map_cons, map_nil] at this ⊢
  rw [nodup_append]
  refine ⟨h, by simp, ?_⟩
  intro a ha b hb
  simp only [mem_singleton] at hb
  subst hb
  rintro rfl
  exact this ha

theorem length_dReplace {β : Type} (d : List (Int × β)) (k : Int) (v : β) : (dReplace d k v).length = d.length := by
  have := congrArg List.length (dKeys_dReplace d k v)
  simpa [dKeys] using this

/-- general form of an edge insertion: the new node dictionary is described by its lookups -/
theorem GStar.insert {g g' : Graph κ} {nn nn' en : Int} (h : GStar g nn en) (a b o : Int) (c : κ)
    (ha : 0 ≤ a) (hab : a < b) (hb : b < nn') (hnn : nn ≤ nn')
    (hE : g'.edges = g.edges ++ [(en, (⟨en, (a, b), [(o, c)]⟩ : Edge κ))])
    (hT : g'.nidTerminal = g.nidTerminal)
    (hK : (dKeys g'.nodes).Nodup)
    (hM : ∀ k, dHas g'.nodes k = true ↔ (k = -1 ∨ (0 ≤ k ∧ k < nn')))
    (hL : ∀ k n', dGet? g'.nodes k = some n' → n'.nid = k ∧
      n'.eidsOut = outIds g k ++ (if a = k then [en] else []) ∧
      n'.eidsIn = inIds g k ++ (if b = k then [en] else []))
    (hLen : (g'.nodes.length : Int) = nn' + 1) :
    GStar g' nn' (en + 1) := by
  obtain ⟨h1, h2, h3⟩ := h.edges_append a b o c ha hab
  have hg' : g' = { g with nodes := g'.nodes, edges := g.edges ++ [(en, (⟨en, (a, b), [(o, c)]⟩ : Edge κ))] } := by
    cases g'; cases g; simp_all
  have hout : ∀ k, outIds g' k = outIds g k ++ (if a = k then [en] else []) := by
    intro k; rw [hg', outIds_append]
  have hin : ∀ k, inIds g' k = inIds g k ++ (if b = k then [en] else []) := by
    intro k; rw [hg', inIds_append]
  refine ⟨by have := h.nnPos; omega, by have := h.enPos; omega, hK, hM, ?_, by rw [hE]; exact h1,
    by rw [hE]; exact h2, by rw [hE]; exact h3, ?_, by rw [hT]; exact h.term, hLen⟩
  · intro k n' hk
    obtain ⟨e1, e2, e3⟩ := hL k n' hk
    exact ⟨e1, by rw [e2, hout], by rw [e3, hin]⟩
  · intro e he
    unfold edgeList at he
    rw [hE, map_append, mem_append] at he
    rcases he with he | he
    · have := h.edgeOK e he
      refine ⟨this.1, this.2.1, by omega, this.2.2.2⟩
    · simp only [map_cons, map_nil, mem_singleton] at he
      subst he
      exact ⟨ha, hab, hb, o, c, rfl⟩

/-- adding an isolated node with the next free id -/
theorem GStar.add_node {g : Graph κ} {nn en : Int} (h : GStar g nn en) (q : Int) :
    GStar { g with nodes := g.nodes ++ [(nn, ⟨nn, [], [], q⟩)] } (nn + 1) en := by
  refine ⟨by have := h.nnPos; omega, h.enPos, dKeys_append_nodup h.nodesKeys _ _ h.node_fresh, ?_, ?_, h.edgesKeys,
    h.edgesRange, h.keyEid, ?_, h.term, by have := h.nodesLen; simp only [length_append, length_singleton]; omega⟩
  · intro k
    simp only [dHas_append, Bool.or_eq_true, h.nodesMem k, beq_iff_eq]
    have := h.nnPos
    omega
  · intro k n hk
    simp only [dGet?_append] at hk
    cases hl : dGet? g.nodes k with
    | some n0 =>
      rw [hl] at hk
      simp only [Option.some_or, Option.some.injEq] at hk
      subst hk
      exact h.nodeOK k n0 hl
    | none =>
      rw [hl] at hk
      simp only [Option.none_or] at hk
      by_cases hkn : k = nn
      · subst hkn
        simp only [if_true, Option.some.injEq] at hk
        subst hk
        exact ⟨rfl, (h.outIds_eq_nil (by omega)).symm, (h.inIds_eq_nil (Or.inl (le_refl _))).symm⟩
      · simp [hkn] at hk
  · intro e he
    have := h.edgeOK e he
    exact ⟨this.1, this.2.1, by omega, this.2.2.2⟩

/-- the V branch: an edge between two existing nodes, registered at both ends -/
theorem GStar.insert_v {g : Graph κ} {nn en : Int} (h : GStar g nn en) (a b o : Int) (c : κ) (n1 n2 : Node)
    (ha : 0 ≤ a) (hab : a < b) (hb : b < nn)
    (h1 : dGet? g.nodes a = some n1)
    (h2 : dGet? (dReplace g.nodes a (n1.setEids true (n1.eidsOut ++ [en]))) b = some n2) :
    GStar { g with
      nodes := dReplace (dReplace g.nodes a (n1.setEids true (n1.eidsOut ++ [en]))) b
                  (n2.setEids false (n2.eidsIn ++ [en])),
      edges := g.edges ++ [(en, ⟨en, (a, b), [(o, c)]⟩)] } nn (en + 1) := by
  have hba : b ≠ a := by omega
  have h2' : dGet? g.nodes b = some n2 := by
    rw [dGet?_dReplace, if_neg hba] at h2; exact h2
  refine GStar.insert (g := g) (g' := _) h a b o c ha hab hb (le_refl _) ?_ ?_ ?_ ?_ ?_ ?_
  · rfl
  · rfl
  rotate_left 3
  · have := h.nodesLen
    simp only [length_dReplace]
    exact this
  · simp only [dKeys_dReplace]; exact h.nodesKeys
  · intro k
    simp only [dHas_dReplace]
    exact h.nodesMem k
  · intro k n' hk
    simp only [dGet?_dReplace] at hk
    by_cases hkb : k = b
    · subst hkb
      rw [if_pos rfl, if_neg hba, h2'] at hk
      simp only [Option.map_some, Option.some.injEq] at hk
      subst hk
      obtain ⟨e1, e2, e3⟩ := h.nodeOK k n2 h2'
      have : ¬ a = k := fun h => hba h.symm
      simp [Node.setEids, e1, e2, e3, this]
    · rw [if_neg hkb] at hk
      by_cases hka : k = a
      · subst hka
        rw [if_pos rfl, h1] at hk
        simp only [Option.map_some, Option.some.injEq] at hk
        subst hk
        obtain ⟨e1, e2, e3⟩ := h.nodeOK k n1 h1
        have : ¬ b = k := hba
        simp [Node.setEids, e1, e2, e3, this]
      · rw [if_neg hka] at hk
        obtain ⟨e1, e2, e3⟩ := h.nodeOK k n' hk
        have h3 : ¬ a = k := fun h => hka h.symm
        have h4 : ¬ b = k := fun h => hkb h.symm
        simp [e1, e2, e3, h3, h4]

/-- the U branch: an edge from an existing node into a freshly created node -/
theorem GStar.insert_u {g : Graph κ} {nn en : Int} (h : GStar g nn en) (a o q : Int) (c : κ) (n1 : Node)
    (ha : 0 ≤ a) (han : a < nn) (h1 : dGet? g.nodes a = some n1) :
    GStar { g with
      nodes := dReplace g.nodes a (n1.setEids true (n1.eidsOut ++ [en])) ++ [(nn, ⟨nn, [en], [], q⟩)],
      edges := g.edges ++ [(en, ⟨en, (a, nn), [(o, c)]⟩)] } (nn + 1) (en + 1) := by
  have hna : nn ≠ a := by omega
  refine GStar.insert (g := g) (g' := _) h a nn o c ha han (by omega) (by omega : nn ≤ nn + 1) ?_ ?_ ?_ ?_ ?_ ?_
  · rfl
  · rfl
  rotate_left 3
  · have := h.nodesLen
    simp only [length_append, length_dReplace, length_singleton]
    omega
  · apply dKeys_append_nodup
    · simp only [dKeys_dReplace]; exact h.nodesKeys
    · rw [dHas_dReplace]; exact h.node_fresh
  · intro k
    simp only [dHas_append, dHas_dReplace, Bool.or_eq_true, h.nodesMem k, beq_iff_eq]
    have := h.nnPos
    omega
  · intro k n' hk
    simp only [dGet?_append, dGet?_dReplace] at hk
    by_cases hka : k = a
    · subst hka
      rw [if_pos rfl, h1] at hk
      simp only [Option.map_some, Option.some_or, Option.some.injEq] at hk
      subst hk
      obtain ⟨e1, e2, e3⟩ := h.nodeOK k n1 h1
      simp [Node.setEids, e1, e2, e3, hna]
    · rw [if_neg hka] at hk
      cases hl : dGet? g.nodes k with
      | some n0 =>
        rw [hl] at hk
        simp only [Option.some_or, Option.some.injEq] at hk
        subst hk
        obtain ⟨e1, e2, e3⟩ := h.nodeOK k n0 hl
        have h3 : ¬ a = k := fun h => hka h.symm
        have h4 : ¬ nn = k := by
          intro h4
          have : dHas g.nodes k = true := by rw [dHas_eq_isSome, hl]; rfl
          rw [← h4, h.node_fresh] at this
          cases this
        simp [e1, e2, e3, h3, h4]
      | none =>
        rw [hl] at hk
        simp only [Option.none_or] at hk
        by_cases hkn : k = nn
        · subst hkn
          simp only [if_true, Option.some.injEq] at hk
          subst hk
          have h3 : ¬ a = k := fun h => hka h.symm
          simp [h.outIds_eq_nil (k := k) (by omega), h.inIds_eq_nil (k := k) (Or.inl (le_refl _)), h3]
        · simp [hkn] at hk

end Ptn.Ch

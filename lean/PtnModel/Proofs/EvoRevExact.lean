import PtnModel.Proofs.EvoRevDefs
import PtnModel.Proofs.EvoDmrgMain
/-!
# Exactness / regularity of the sub-steps met by a single-site TDVP run

Reversibility needs, for every sub-step that is actually executed, exact local exponentials (`C15.Exhausted` for the two
Lanczos runs), a QR that keeps the bond dimension and a triangular factor of full rank.  These conditions are about the
intermediate results of the run; they are collected here as predicates on (state, index) — `LeftExact`, `RightExact`,
`MidExact` — and propagated along the run with `FoldAll` / `IterAll` ("every sub-step that is executed satisfies …").
-/
set_option linter.unusedSectionVars false

namespace Ptn.Evo
open Ptn Ptn.BondOps Ptn.Ortho Ptn.Env Ptn.Krylov Ptn.Dense Finset

/-- `P` holds at every (state, index) met by the loop `foldIdx f idx s` -/
def FoldAll {σ : Type} (f : σ → Nat → Except Err σ) (P : σ → Nat → Prop) : List Nat → σ → Prop
  | [], _ => True
  | i :: is, s => P s i ∧ ∀ s', f s i = .ok s' → FoldAll f P is s'

/-- `P` holds at every state met by `iterate f n s` -/
def IterAll {σ : Type} (f : σ → Except Err σ) (P : σ → Prop) : Nat → σ → Prop
  | 0, _ => True
  | n + 1, s => P s ∧ ∀ s', f s = .ok s' → IterAll f P n s'

theorem foldAll_append {σ : Type} (f : σ → Nat → Except Err σ) (P : σ → Nat → Prop) (l1 l2 : List Nat) (s : σ) :
    FoldAll f P (l1 ++ l2) s ↔ FoldAll f P l1 s ∧ ∀ s1, foldIdx f l1 s = .ok s1 → FoldAll f P l2 s1 := by
  induction l1 generalizing s with
  | nil =>
    simp only [List.nil_append, FoldAll, true_and]
    constructor
    · intro h s1 hs1
      unfold foldIdx at hs1
      rw [foldlM_ok_nil] at hs1
      subst hs1; exact h
    · intro h
      exact h s (by unfold foldIdx; rw [foldlM_ok_nil])
  | cons x xs ih =>
    simp only [List.cons_append, FoldAll]
    constructor
    · rintro ⟨hP, hrest⟩
      refine ⟨⟨hP, fun s' hs' => ((ih s').1 (hrest s' hs')).1⟩, ?_⟩
      intro s1 hs1
      unfold foldIdx at hs1
      rw [foldlM_ok_cons] at hs1
      obtain ⟨s', h1, h2⟩ := hs1
      exact ((ih s').1 (hrest s' h1)).2 s1 h2
    · rintro ⟨⟨hP, hxs⟩, hrest⟩
      refine ⟨hP, fun s' hs' => (ih s').2 ⟨hxs s' hs', ?_⟩⟩
      intro s1 hs1
      refine hrest s1 ?_
      unfold foldIdx
      rw [foldlM_ok_cons]
      exact ⟨s', hs', hs1⟩

/-- `iterate` peeled at the end -/
theorem iterate_succ_back {σ : Type} (f : σ → Except Err σ) (n : Nat) (s r : σ) :
    iterate f (n + 1) s = .ok r ↔ ∃ s', iterate f n s = .ok s' ∧ f s' = .ok r := by
  induction n generalizing s with
  | zero =>
    constructor
    · intro h
      unfold iterate at h
      rw [bind_ok] at h
      obtain ⟨s', h1, h2⟩ := h
      unfold iterate at h2
      injection h2 with h2; subst h2
      exact ⟨s, rfl, h1⟩
    · rintro ⟨s', h1, h2⟩
      unfold iterate at h1
      injection h1 with h1; subst h1
      unfold iterate
      rw [bind_ok]
      exact ⟨r, h2, rfl⟩
  | succ n ih =>
    constructor
    · intro h
      unfold iterate at h
      rw [bind_ok] at h
      obtain ⟨s1, h1, h2⟩ := h
      obtain ⟨s', h3, h4⟩ := (ih s1).1 h2
      refine ⟨s', ?_, h4⟩
      unfold iterate
      rw [bind_ok]
      exact ⟨s1, h1, h3⟩
    · rintro ⟨s', h1, h2⟩
      unfold iterate at h1
      rw [bind_ok] at h1
      obtain ⟨s1, h3, h4⟩ := h1
      unfold iterate
      rw [bind_ok]
      exact ⟨s1, h3, (ih s1).2 ⟨s', h4, h2⟩⟩

theorem iterAll_succ_back {σ : Type} (f : σ → Except Err σ) (P : σ → Prop) (n : Nat) (s : σ) :
    IterAll f P (n + 1) s ↔ IterAll f P n s ∧ ∀ s', iterate f n s = .ok s' → P s' := by
  induction n generalizing s with
  | zero =>
    simp only [IterAll, true_and]
    constructor
    · rintro ⟨hP, _⟩ s' hs'
      unfold iterate at hs'
      injection hs' with hs'; subst hs'; exact hP
    · intro h
      exact ⟨h s rfl, fun _ _ => trivial⟩
  | succ n ih =>
    constructor
    · intro h
      obtain ⟨hP, hrest⟩ := h
      refine ⟨⟨hP, fun s1 hs1 => ((ih s1).1 (hrest s1 hs1)).1⟩, ?_⟩
      intro s' hs'
      unfold iterate at hs'
      rw [bind_ok] at hs'
      obtain ⟨s1, h1, h2⟩ := hs'
      exact ((ih s1).1 (hrest s1 h1)).2 s' h2
    · rintro ⟨⟨hP, hrest⟩, hlast⟩
      refine ⟨hP, fun s1 hs1 => (ih s1).2 ⟨hrest s1 hs1, fun s' hs' => hlast s' ?_⟩⟩
      unfold iterate
      rw [bind_ok]
      exact ⟨s1, hs1, hs'⟩

variable {𝕜 : Type} [RCLike 𝕜] [DecidableEq 𝕜]

/-- the triangular factor `C` (with `r` rows) has a right inverse -/
def RightInv (C : Mat 𝕜) (r : Nat) : Prop :=
  ∃ Cinv : Mat 𝕜, ∀ p p', p < r → p' < r → ∑ x ∈ range C.n, C.f p x * Cinv.f x p' = if p = p' then 1 else 0

/-- **exactness / regularity of one call `tdvp1Left … s i`**: both Lanczos runs exhaust their Krylov spaces, the QR keeps
the dimension of bond `i+1`, and — if `inv = true` (needed only for the call with the negated time step) — its triangular
factor has full rank -/
def LeftExact (inv : Bool) (k : EvoKernels 𝕜 ℝ) (H : MPO 𝕜) (qd : List Int) (dt : 𝕜) (numiter : Nat) (s : Sweep 𝕜) (i : Nat) : Prop :=
  ∀ A1 Q C qb BLn,
    localHamiltonianStep k (getBL s i) (getBR s i) (H.A.getD i zeroT4) (getA s i) (k.half * dt) numiter = .ok A1 →
    BondOps.qr k.dqr A1.flattenLeft.tab (QN.flatten2 qd (getQ s i)) (getQ s (i + 1)) = .ok (Q, C, qb) →
    Op.opStepLeft (T3.ofFlattenLeft Q A1.d0 A1.d1).tab (T3.ofFlattenLeft Q A1.d0 A1.d1).tab (H.A.getD i zeroT4)
      (getBL s i) = .ok BLn →
    C15.Exhausted (localHFun (getBL s i) (getBR s i) (H.A.getD i zeroT4) (getA s i).d0 (getA s i).d1 (getA s i).d2)
      k.cnorm (flat3 (getA s i)) numiter ∧
    C15.Exhausted (localBondFun BLn (getBR s i) C.m C.n) k.cnorm (flat2 C) numiter ∧
    qb.length = (getQ s (i + 1)).length ∧ (inv = true → RightInv C qb.length)

/-- **exactness / regularity of one call `tdvp1Right … s (j+1)`** -/
def RightExact (inv : Bool) (k : EvoKernels 𝕜 ℝ) (H : MPO 𝕜) (qd : List Int) (dt : 𝕜) (numiter : Nat) (s : Sweep 𝕜) (i : Nat) : Prop :=
  ∀ Q C qb BRn C1,
    BondOps.qr k.dqr (getA s i).swap12.flattenLeft.tab (QN.flatten2 qd (QN.neg (getQ s (i + 1)))) (QN.neg (getQ s i)) =
      .ok (Q, C, qb) →
    Op.opStepRight (T3.ofFlattenLeft Q (getA s i).d0 (getA s i).d2).swap12.tab
      (T3.ofFlattenLeft Q (getA s i).d0 (getA s i).d2).swap12.tab (H.A.getD i zeroT4) (getBR s i) = .ok BRn →
    localBondStep k (getBL s i) BRn C.transpose.tab (-(k.half * dt)) numiter = .ok C1 →
    C15.Exhausted (localBondFun (getBL s i) BRn C.transpose.tab.m C.transpose.tab.n) k.cnorm (flat2 C.transpose.tab)
      numiter ∧
    C15.Exhausted (localHFun (getBL s (i - 1)) BRn (H.A.getD (i - 1) zeroT4) (pushRight (getA s (i - 1)) C1).d0
      (pushRight (getA s (i - 1)) C1).d1 (pushRight (getA s (i - 1)) C1).d2) k.cnorm
      (flat3 (pushRight (getA s (i - 1)) C1)) numiter ∧
    qb.length = (getQ s i).length ∧ (inv = true → RightInv C qb.length)

/-- exactness of the full step at the last site -/
def MidExact (k : EvoKernels 𝕜 ℝ) (H : MPO 𝕜) (numiter : Nat) (s : Sweep 𝕜) (c : Nat) : Prop :=
  C15.Exhausted (localHFun (getBL s c) (getBR s c) (H.A.getD c zeroT4) (getA s c).d0 (getA s c).d1 (getA s c).d2)
    k.cnorm (flat3 (getA s c)) numiter

/-- every sub-step of the time step `tdvp1Step … dt … s` that is executed is exact / regular -/
def StepExact (inv : Bool) (k : EvoKernels 𝕜 ℝ) (H : MPO 𝕜) (qd : List Int) (dt : 𝕜) (numiter : Nat) (s : Sweep 𝕜) : Prop :=
  FoldAll (tdvp1Left k H qd dt numiter) (LeftExact inv k H qd dt numiter) (List.range (H.A.length - 1)) s ∧
  ∀ s1, foldIdx (tdvp1Left k H qd dt numiter) (List.range (H.A.length - 1)) s = .ok s1 →
    MidExact k H numiter s1 (H.A.length - 1) ∧
    ∀ Al, localHamiltonianStep k (getBL s1 (H.A.length - 1)) (getBR s1 (H.A.length - 1))
        (H.A.getD (H.A.length - 1) zeroT4) (getA s1 (H.A.length - 1)) dt numiter = .ok Al →
      FoldAll (tdvp1Right k H qd dt numiter) (RightExact inv k H qd dt numiter)
        ((List.range (H.A.length - 1)).reverse.map (· + 1))
        (⟨s1.A.setIfInBounds (H.A.length - 1) Al, s1.qD, s1.BL, s1.BR⟩ : Sweep 𝕜)

/-- every sub-step of `numsteps` time steps from `s` is exact / regular -/
def RunExact (inv : Bool) (k : EvoKernels 𝕜 ℝ) (H : MPO 𝕜) (qd : List Int) (dt : 𝕜) (numiter numsteps : Nat) (s : Sweep 𝕜) : Prop :=
  IterAll (tdvp1Step k H qd dt numiter) (StepExact inv k H qd dt numiter) numsteps s

end Ptn.Evo

import PtnModel.Proofs.KryArnoldi
/-!
# Ritz values and vectors, unitarity of the Hermitian Krylov exponential

* `ActsAs n Afun M`: on vectors of length `n` the map `Afun` is the linear map with matrix `M` (this is how linearity
  of the "matrix free" map is expressed); `IsComb`: a vector is a linear combination of given vectors (entrywise);
  `vdot_comb`, `ActsAs.comb`: sesquilinear expansion and linearity;
* `EighSpec alpha beta (w, U)`: contract of `eigh_tridiagonal` for one input;
* `EighSpec.diag`: `Uᵀ T U = diag w`; `EighSpec.first_le`: `w₀ ≤ T₀₀`;
* unfolding lemmas `eighKrylov_ok`, `expmKrylov_herm_ok`.
-/
set_option linter.unusedSectionVars false

namespace Ptn.Krylov
open Finset

variable {𝕜 : Type} [RCLike 𝕜]
local notation "conj" => starRingEnd 𝕜

/-- on vectors of length `n`, `Afun` is the linear map with matrix `M` -/
def ActsAs (n : Nat) (Afun : List 𝕜 → List 𝕜) (M : Nat → Nat → 𝕜) : Prop :=
  ∀ x, x.length = n → ∀ i, i < n → vget (Afun x) i = ∑ j ∈ range n, M i j * vget x j

/-- `x = ∑_{c<k} a c • X c` on the first `n` entries -/
def IsComb (n k : Nat) (a : Nat → 𝕜) (X : Nat → List 𝕜) (x : List 𝕜) : Prop :=
  ∀ i, i < n → vget x i = ∑ c ∈ range k, a c * vget (X c) i

theorem vdot_comb {n k k' : Nat} {a b : Nat → 𝕜} {X Y : Nat → List 𝕜} {x y : List 𝕜}
    (hx : IsComb n k a X x) (hy : IsComb n k' b Y y) :
    vdot n x y = ∑ c ∈ range k, ∑ d ∈ range k', conj (a c) * b d * vdot n (X c) (Y d) := by
  rw [vdot_eq_sum]
  have : ∀ i ∈ range n, conj (vget x i) * vget y i =
      ∑ c ∈ range k, ∑ d ∈ range k', conj (a c) * b d * (conj (vget (X c) i) * vget (Y d) i) := by
    intro i hi
    rw [hx i (mem_range.1 hi), hy i (mem_range.1 hi), map_sum, sum_mul_sum]
    refine sum_congr rfl fun c _ => sum_congr rfl fun d _ => ?_
    rw [map_mul]; ring
  rw [sum_congr rfl this, sum_comm]
  refine sum_congr rfl fun c _ => ?_
  rw [sum_comm]
  refine sum_congr rfl fun d _ => ?_
  rw [vdot_eq_sum, mul_sum]

/-- a vector of length `n` is the trivial combination of itself -/
theorem IsComb.self (n : Nat) (x : List 𝕜) : IsComb n 1 (fun _ => 1) (fun _ => x) x := by
  intro i _; simp

theorem ActsAs.comb {n k : Nat} {Afun : List 𝕜 → List 𝕜} {M : Nat → Nat → 𝕜} (hM : ActsAs n Afun M)
    {b : Nat → 𝕜} {Y : Nat → List 𝕜} {y : List 𝕜} (hyl : y.length = n) (hYl : ∀ d, d < k → (Y d).length = n)
    (hy : IsComb n k b Y y) : IsComb n k b (fun d => Afun (Y d)) (Afun y) := by
  intro i hi
  rw [hM y hyl i hi]
  have : ∀ j ∈ range n, M i j * vget y j = ∑ d ∈ range k, b d * (M i j * vget (Y d) j) := by
    intro j hj
    rw [hy j (mem_range.1 hj), mul_sum]
    exact sum_congr rfl fun d _ => by ring
  rw [sum_congr rfl this, sum_comm]
  refine sum_congr rfl fun d hd => ?_
  rw [hM (Y d) (hYl d (mem_range.1 hd)) i hi, mul_sum]

/-- a map acting as a Hermitian matrix is a Hermitian map -/
theorem ActsAs.isHermitian {n : Nat} {Afun : List 𝕜 → List 𝕜} {M : Nat → Nat → 𝕜} (hM : ActsAs n Afun M)
    (hH : ∀ i j, i < n → j < n → conj (M i j) = M j i) : IsHermitian n Afun := by
  intro x y hx hy
  rw [vdot_eq_sum, vdot_eq_sum]
  have e1 : ∀ i ∈ range n, conj (vget (Afun x) i) * vget y i =
      ∑ k ∈ range n, conj (vget x k) * (M k i * vget y i) := fun i hi => by
    rw [hM x hx i (mem_range.1 hi), map_sum, sum_mul]
    exact sum_congr rfl fun k hk => by
      rw [map_mul, hH i k (mem_range.1 hi) (mem_range.1 hk)]; ring
  have e2 : ∀ k ∈ range n, conj (vget x k) * vget (Afun y) k =
      ∑ i ∈ range n, conj (vget x k) * (M k i * vget y i) := fun k hk => by
    rw [hM y hy k (mem_range.1 hk), mul_sum]
  rw [sum_congr rfl e1, sum_congr rfl e2, sum_comm]

/-- `x ↦ A @ x` acts as the matrix `A` -/
theorem actsAs_matvec {n : Nat} (A : Mat 𝕜) (hm : A.m = n) (hn : A.n = n) : ActsAs n (matvec A) A.f := by
  intro x _ i hi
  rw [vget_matvec A x (by rw [hm]; exact hi), hn]

/-! ### the contract of `eigh_tridiagonal` -/

/-- contract of `eigh_tridiagonal(alpha, beta) = (w, U)` for one input: eigenvalues ascending, `U` real orthogonal,
`T = U diag(w) Uᵀ` -/
structure EighSpec (alpha beta : List ℝ) (res : List ℝ × Mat ℝ) : Prop where
  wlen : res.1.length = alpha.length
  Um : res.2.m = alpha.length
  Un : res.2.n = alpha.length
  asc : ∀ i j, i ≤ j → j < alpha.length → res.1.getD i 0 ≤ res.1.getD j 0
  orthc : ∀ a b, a < alpha.length → b < alpha.length →
    ∑ r ∈ range alpha.length, res.2.f r a * res.2.f r b = if a = b then 1 else 0
  orthr : ∀ a b, a < alpha.length → b < alpha.length →
    ∑ c ∈ range alpha.length, res.2.f a c * res.2.f b c = if a = b then 1 else 0
  decomp : ∀ a b, a < alpha.length → b < alpha.length →
    tridiag alpha beta a b = ∑ c ∈ range alpha.length, res.2.f a c * res.1.getD c 0 * res.2.f b c

/-- `Uᵀ T U = diag w` -/
theorem EighSpec.diag {alpha beta : List ℝ} {res : List ℝ × Mat ℝ} (h : EighSpec alpha beta res)
    {e e' : Nat} (he : e < alpha.length) (he' : e' < alpha.length) :
    ∑ c ∈ range alpha.length, ∑ d ∈ range alpha.length, res.2.f c e * tridiag alpha beta c d * res.2.f d e' =
      if e = e' then res.1.getD e 0 else 0 := by
  set k := alpha.length
  set U := res.2.f
  set w := fun c => res.1.getD c 0
  have e1 : ∀ c ∈ range k, ∀ d ∈ range k, U c e * tridiag alpha beta c d * U d e' =
      ∑ r ∈ range k, w r * (U c e * U c r) * (U d r * U d e') := by
    intro c hc d hd
    rw [h.decomp c d (mem_range.1 hc) (mem_range.1 hd), mul_sum, sum_mul]
    exact sum_congr rfl fun r _ => by ring
  rw [sum_congr rfl fun c hc => sum_congr rfl fun d hd => e1 c hc d hd]
  -- exchange the sums: r outermost
  have e2 : ∑ c ∈ range k, ∑ d ∈ range k, ∑ r ∈ range k, w r * (U c e * U c r) * (U d r * U d e') =
      ∑ r ∈ range k, w r * (∑ c ∈ range k, U c e * U c r) * (∑ d ∈ range k, U d r * U d e') := by
    rw [sum_congr rfl fun c _ => sum_comm]
    rw [sum_comm]
    refine sum_congr rfl fun r _ => ?_
    rw [mul_assoc, sum_mul_sum, mul_sum]
    refine sum_congr rfl fun c _ => ?_
    rw [mul_sum]
    exact sum_congr rfl fun d _ => by ring
  rw [e2]
  have e3 : ∀ r ∈ range k, w r * (∑ c ∈ range k, U c e * U c r) * (∑ d ∈ range k, U d r * U d e') =
      if r = e then (if e = e' then w e else 0) else 0 := by
    intro r hr
    rw [h.orthc e r he (mem_range.1 hr), h.orthc r e' (mem_range.1 hr) he']
    by_cases h1 : r = e
    · subst h1; simp
    · rw [if_neg (Ne.symm h1), if_neg h1]; simp
  rw [sum_congr rfl e3, sum_ite_eq' (range k) e, if_pos (mem_range.2 he)]

/-- the smallest eigenvalue is at most the first diagonal entry: `w₀ ≤ T₀₀ = alpha₀` -/
theorem EighSpec.first_le {alpha beta : List ℝ} {res : List ℝ × Mat ℝ} (h : EighSpec alpha beta res)
    (hk : 0 < alpha.length) : res.1.getD 0 0 ≤ alpha.getD 0 0 := by
  have hd := h.decomp 0 0 hk hk
  have ho := h.orthr 0 0 hk hk
  rw [if_pos rfl] at ho
  have ht : tridiag alpha beta 0 0 = alpha.getD 0 0 := by simp [tridiag]
  rw [ht] at hd
  rw [hd]
  calc res.1.getD 0 0 = ∑ c ∈ range alpha.length, res.1.getD 0 0 * (res.2.f 0 c * res.2.f 0 c) := by
        rw [← mul_sum, ho, mul_one]
    _ ≤ ∑ c ∈ range alpha.length, res.2.f 0 c * res.1.getD c 0 * res.2.f 0 c := by
        apply sum_le_sum
        intro c hc
        have h1 := h.asc 0 c (Nat.zero_le _) (mem_range.1 hc)
        have h2 : 0 ≤ res.2.f 0 c * res.2.f 0 c := mul_self_nonneg _
        nlinarith

/-! ### unfolding `eighKrylov` and the Hermitian branch of `expmKrylov` -/

theorem eighKrylov_ok {Afun : List 𝕜 → List 𝕜} {dnorm : List 𝕜 → ℝ} {deigh : List ℝ → List ℝ → List ℝ × Mat ℝ}
    {vstart : List 𝕜} {numiter numeig : Nat} {ws : List ℝ} {u : Mat 𝕜}
    (h : eighKrylov Afun dnorm deigh vstart numiter numeig = .ok (ws, u)) :
    ∃ alpha beta V, lanczos Afun dnorm vstart numiter = .ok (alpha, beta, V) ∧
      V.n = (deigh alpha beta).2.m ∧ ws = (deigh alpha beta).1.take numeig ∧
      u = ⟨V.m, min numeig (deigh alpha beta).2.n,
            fun i e => sumRange V.n fun c => V.f i c * RealLike.ofReal ((deigh alpha beta).2.f c e)⟩ := by
  unfold eighKrylov at h
  cases hl : lanczos Afun dnorm vstart numiter with
  | error e => rw [hl] at h; simp [bind, Except.bind] at h
  | ok r =>
    obtain ⟨alpha, beta, V⟩ := r
    rw [hl] at h
    simp only [bind, Except.bind] at h
    by_cases hv : V.n = (deigh alpha beta).2.m
    · simp only [hv, ne_eq, not_true_eq_false, if_false, pure, Except.pure, Except.ok.injEq, Prod.mk.injEq] at h
      refine ⟨alpha, beta, V, rfl, hv, h.1.symm, ?_⟩
      rw [← h.2, hv]
    · simp [hv, throw, throwThe, MonadExceptOf.throw] at h

theorem expmKrylov_herm_ok {Afun : List 𝕜 → List 𝕜} {dnorm : List 𝕜 → ℝ} {deigh : List ℝ → List ℝ → List ℝ × Mat ℝ}
    {dexp : 𝕜 → 𝕜} {dexpm : Mat 𝕜 → Mat 𝕜} {v : List 𝕜} {dt : 𝕜} {numiter : Nat} {r : List 𝕜}
    (h : expmKrylov Afun dnorm deigh dexp dexpm v dt numiter true = .ok r) :
    ∃ alpha beta V, lanczos Afun dnorm v numiter = .ok (alpha, beta, V) ∧
      (deigh alpha beta).2.m ≠ 0 ∧ (deigh alpha beta).1.length = (deigh alpha beta).2.n ∧
      V.n = (deigh alpha beta).2.m ∧
      r = (List.range V.m).map fun i => sumRange V.n fun c => V.f i c *
        vget ((List.range (deigh alpha beta).2.m).map fun r => sumRange (deigh alpha beta).2.n fun k =>
          RealLike.ofReal ((deigh alpha beta).2.f r k) *
            vget ((List.range (deigh alpha beta).2.n).map fun k =>
              RealLike.ofReal (dnorm v) * dexp (dt * RealLike.ofReal ((deigh alpha beta).1.getD k 0)) *
                RealLike.ofReal ((deigh alpha beta).2.f 0 k)) k) c := by
  unfold expmKrylov at h
  simp only [if_true] at h
  cases hl : lanczos Afun dnorm v numiter with
  | error e => rw [hl] at h; simp [bind, Except.bind] at h
  | ok res =>
    obtain ⟨alpha, beta, V⟩ := res
    rw [hl] at h
    simp only [bind, Except.bind] at h
    by_cases h1 : (deigh alpha beta).2.m = 0
    · simp [h1, throw, throwThe, MonadExceptOf.throw] at h
    by_cases h2 : (deigh alpha beta).1.length = (deigh alpha beta).2.n
    · by_cases h3 : V.n = (deigh alpha beta).2.m
      · simp only [h1, h2, h3, ne_eq, not_true_eq_false, if_false, pure, Except.pure, Except.ok.injEq] at h
        exact ⟨alpha, beta, V, rfl, h1, h2, h3, by rw [← h, h3]⟩
      · simp [h1, h2, h3, throw, throwThe, MonadExceptOf.throw] at h
    · simp [h1, h2, throw, throwThe, MonadExceptOf.throw] at h

/-! ### Ritz vectors -/

/-- the `e`-th Ritz vector `V @ U[:, e]` -/
noncomputable def ritzVec (n : Nat) (vs : List (List 𝕜)) (U : Mat ℝ) (e : Nat) : List 𝕜 :=
  (List.range n).map fun i => sumRange vs.length fun c => vget (vs.getD c []) i * RealLike.ofReal (U.f c e)

theorem length_ritzVec (n : Nat) (vs : List (List 𝕜)) (U : Mat ℝ) (e : Nat) : (ritzVec n vs U e).length = n := by
  simp [ritzVec]

theorem ritzVec_comb (n : Nat) (vs : List (List 𝕜)) (U : Mat ℝ) (e : Nat) :
    IsComb n vs.length (fun c => ((U.f c e : ℝ) : 𝕜)) (fun c => vs.getD c []) (ritzVec n vs U e) := by
  intro i hi
  unfold ritzVec
  rw [vget_map_range, if_pos hi, sumRange_eq_sum]
  exact sum_congr rfl fun c _ => by rw [ofReal_eq, mul_comm]

section ritz
variable {n : Nat} {Afun : List 𝕜 → List 𝕜}

/-- Ritz vectors are orthonormal -/
theorem LFin.ritz_orth {st : LState 𝕜 ℝ} {k : Nat} (hf : LFin n Afun st k) {res : List ℝ × Mat ℝ}
    (hE : EighSpec st.alpha st.beta res) {e e' : Nat} (he : e < k) (he' : e' < k) :
    vdot n (ritzVec n st.V res.2 e) (ritzVec n st.V res.2 e') = if e = e' then 1 else 0 := by
  have hk : st.alpha.length = k := hf.sized.1
  have hv : st.V.length = k := hf.sized.2.2
  rw [vdot_comb (ritzVec_comb n st.V res.2 e) (ritzVec_comb n st.V res.2 e'), hv]
  have e1 : ∀ c ∈ range k, ∑ d ∈ range k, conj ((res.2.f c e : ℝ) : 𝕜) * ((res.2.f d e' : ℝ) : 𝕜) *
      vdot n (st.V.getD c []) (st.V.getD d []) = ((res.2.f c e * res.2.f c e' : ℝ) : 𝕜) := by
    intro c hc
    have : ∀ d ∈ range k, conj ((res.2.f c e : ℝ) : 𝕜) * ((res.2.f d e' : ℝ) : 𝕜) *
        vdot n (st.V.getD c []) (st.V.getD d []) =
        if c = d then ((res.2.f c e * res.2.f c e' : ℝ) : 𝕜) else 0 := by
      intro d hd
      rw [hf.orth c d (mem_range.1 hc) (mem_range.1 hd), RCLike.conj_ofReal]
      by_cases hcd : c = d
      · subst hcd; rw [if_pos rfl, if_pos rfl, mul_one, RCLike.ofReal_mul]
      · rw [if_neg hcd, if_neg hcd, mul_zero]
    rw [sum_congr rfl this, sum_ite_eq (range k) c, if_pos hc]
  rw [sum_congr rfl e1, ← RCLike.ofReal_sum]
  have := hE.orthc e e' (by rw [hk]; exact he) (by rw [hk]; exact he')
  rw [hk] at this
  rw [this]
  by_cases h : e = e'
  · rw [if_pos h, if_pos h, RCLike.ofReal_one]
  · rw [if_neg h, if_neg h, RCLike.ofReal_zero]

/-- the Rayleigh quotients of the Ritz vectors are the Ritz values, and `A` is diagonal on the Ritz vectors -/
theorem LFin.ritz_rayleigh {M : Nat → Nat → 𝕜} (hA : IsHermitian n Afun) (hM : ActsAs n Afun M)
    {st : LState 𝕜 ℝ} {k : Nat} (hf : LFin n Afun st k) {res : List ℝ × Mat ℝ}
    (hE : EighSpec st.alpha st.beta res) {e e' : Nat} (he : e < k) (he' : e' < k) :
    vdot n (ritzVec n st.V res.2 e) (Afun (ritzVec n st.V res.2 e')) =
      if e = e' then ((res.1.getD e 0 : ℝ) : 𝕜) else 0 := by
  have hk : st.alpha.length = k := hf.sized.1
  have hv : st.V.length = k := hf.sized.2.2
  have hc' := hM.comb (length_ritzVec n st.V res.2 e') (fun d hd => hf.len d (by rw [hv] at hd; exact hd))
    (ritzVec_comb n st.V res.2 e')
  rw [vdot_comb (ritzVec_comb n st.V res.2 e) hc', hv]
  have e1 : ∀ c ∈ range k, ∀ d ∈ range k, conj ((res.2.f c e : ℝ) : 𝕜) * ((res.2.f d e' : ℝ) : 𝕜) *
      vdot n (st.V.getD c []) (Afun (st.V.getD d [])) =
      ((res.2.f c e * tridiag st.alpha st.beta c d * res.2.f d e' : ℝ) : 𝕜) := by
    intro c hc d hd
    rw [hf.proj hA (mem_range.1 hc) (mem_range.1 hd), RCLike.conj_ofReal]
    push_cast; ring
  rw [sum_congr rfl fun c hc => sum_congr rfl fun d hd => e1 c hc d hd]
  simp only [← RCLike.ofReal_sum]
  have := hE.diag (by rw [hk]; exact he) (by rw [hk]; exact he')
  rw [hk] at this
  rw [this]
  by_cases h : e = e'
  · rw [if_pos h, if_pos h]
  · rw [if_neg h, if_neg h, RCLike.ofReal_zero]

/-- `alpha₀ ‖v‖² = ⟪v, A v⟫`: the first diagonal entry is the Rayleigh quotient of the start vector -/
theorem LFin.alpha0 {dnorm : List 𝕜 → ℝ} (hN : NormContract dnorm) {vstart : List 𝕜}
    {Afun : List 𝕜 → List 𝕜} (hA : IsHermitian vstart.length Afun)
    {st : LState 𝕜 ℝ} {k : Nat} (hf : LFin vstart.length Afun st k) (h0 : 0 < dnorm vstart)
    (hfirst : st.V.getD 0 [] = vdiv vstart.length vstart (RealLike.ofReal (dnorm vstart))) :
    st.alpha.getD 0 0 * sqNorm vstart = RCLike.re (vdot vstart.length vstart (Afun vstart)) := by
  have hp := hf.proj hA hf.kpos hf.kpos
  have ht : tridiag st.alpha st.beta 0 0 = st.alpha.getD 0 0 := by simp [tridiag]
  rw [ht] at hp
  have hl0 := hf.len 0 hf.kpos
  have hne : ((dnorm vstart : ℝ) : 𝕜) ≠ 0 := by exact_mod_cast h0.ne'
  -- ⟪v0, A v0⟫ = ⟪v, A v⟫ / nrm²
  have e1 : vdot vstart.length (st.vec 0) (Afun (st.vec 0)) =
      vdot vstart.length vstart (Afun vstart) / ((dnorm vstart : ℝ) : 𝕜) / ((dnorm vstart : ℝ) : 𝕜) := by
    rw [← hA _ _ hl0 hl0]
    show vdot vstart.length (Afun (st.V.getD 0 [])) (st.V.getD 0 []) = _
    conv_lhs => rw [hfirst]
    rw [vdot_vdiv_right, ← hfirst, hA _ _ hl0 rfl]
    show vdot vstart.length (st.V.getD 0 []) (Afun vstart) / _ = _
    rw [hfirst, vdot_vdiv_left, ofReal_eq, RCLike.conj_ofReal]
  rw [e1] at hp
  have hsq : sqNorm vstart = dnorm vstart ^ 2 := (hN.sq vstart).symm
  have e2 : vdot vstart.length vstart (Afun vstart) = ((st.alpha.getD 0 0 * sqNorm vstart : ℝ) : 𝕜) := by
    rw [hsq]; push_cast
    field_simp at hp
    rw [hp]; ring
  rw [e2, RCLike.ofReal_re]

end ritz

/-! ### unitarity of the Hermitian Krylov exponential -/

/-- the squared norm of `∑_c y_c v_c` for orthonormal `v_c` -/
theorem sqNorm_comb {n k : Nat} {X : Nat → List 𝕜} {y : Nat → 𝕜} {x : List 𝕜} (hxl : x.length = n)
    (hX : ∀ a b, a < k → b < k → vdot n (X a) (X b) = if a = b then 1 else 0)
    (hx : IsComb n k y X x) : ((sqNorm x : ℝ) : 𝕜) = ∑ c ∈ range k, conj (y c) * y c := by
  rw [← vdot_self, hxl, vdot_comb hx hx]
  refine sum_congr rfl fun c hc => ?_
  have : ∀ d ∈ range k, conj (y c) * y d * vdot n (X c) (X d) = if c = d then conj (y c) * y c else 0 := by
    intro d hd
    rw [hX c d (mem_range.1 hc) (mem_range.1 hd)]
    by_cases hcd : c = d
    · subst hcd; rw [if_pos rfl, if_pos rfl, mul_one]
    · rw [if_neg hcd, if_neg hcd, mul_zero]
  rw [sum_congr rfl this, sum_ite_eq (range k) c, if_pos hc]

/-- a real orthogonal matrix preserves `∑ |c_k|²` -/
theorem sum_conj_mul_orth {k : Nat} (U : Nat → Nat → ℝ)
    (hU : ∀ a b, a < k → b < k → ∑ r ∈ range k, U r a * U r b = if a = b then 1 else 0) (c : Nat → 𝕜) :
    ∑ r ∈ range k, conj (∑ a ∈ range k, ((U r a : ℝ) : 𝕜) * c a) * (∑ b ∈ range k, ((U r b : ℝ) : 𝕜) * c b) =
      ∑ a ∈ range k, conj (c a) * c a := by
  have e1 : ∀ r ∈ range k, conj (∑ a ∈ range k, ((U r a : ℝ) : 𝕜) * c a) * (∑ b ∈ range k, ((U r b : ℝ) : 𝕜) * c b) =
      ∑ a ∈ range k, ∑ b ∈ range k, ((U r a * U r b : ℝ) : 𝕜) * (conj (c a) * c b) := by
    intro r _
    rw [map_sum, sum_mul_sum]
    refine sum_congr rfl fun a _ => sum_congr rfl fun b _ => ?_
    rw [map_mul, RCLike.conj_ofReal]; push_cast; ring
  rw [sum_congr rfl e1, sum_comm]
  refine sum_congr rfl fun a ha => ?_
  rw [sum_comm]
  have e2 : ∀ b ∈ range k, ∑ r ∈ range k, ((U r a * U r b : ℝ) : 𝕜) * (conj (c a) * c b) =
      if a = b then conj (c a) * c a else 0 := by
    intro b hb
    rw [← sum_mul, ← RCLike.ofReal_sum, hU a b (mem_range.1 ha) (mem_range.1 hb)]
    by_cases hab : a = b
    · subst hab; rw [if_pos rfl, if_pos rfl, RCLike.ofReal_one, one_mul]
    · rw [if_neg hab, if_neg hab, RCLike.ofReal_zero, zero_mul]
  rw [sum_congr rfl e2, sum_ite_eq (range k) a, if_pos ha]

end Ptn.Krylov

import Mathlib.Algebra.Order.Field.Basic
import Mathlib.Tactic.Linarith
import PtnModel.Proofs.RbiCumsum
/-!
# C12 helper lemmas, part 2: the threshold rule on an abstract weight list

`keptOf a σ tol` is the last two lines of `retained_bond_indices`: cumulative sums of the weights `a` along the
permutation `σ`, then the ascending list of indices whose cumulative sum exceeds `tol`.

For a permutation `σ` of `range a.length` along which the non-negative weights `a` are non-decreasing:
* `prefSum_mono`: the cumulative sums are non-decreasing;
* `cut a σ tol`: the number of positions whose cumulative sum is `≤ tol`; `prefSum_le_iff_lt_cut`;
* `not_mem_keptOf_iff`: the discarded indices are exactly `σ.take (cut a σ tol)`;
* `discarded_sum_le`, `kept_ge_discarded`, `lt_discarded_add_kept`, `kept_pos`, `pos_kept`.
-/
namespace Ptn.C12
open Ptn.BondOps

set_option linter.unusedSectionVars false

variable {ρ : Type} [Field ρ] [LinearOrder ρ] [IsStrictOrderedRing ρ]

/-- cumulative sums of `a` along `σ`, then the ascending indices whose cumulative sum exceeds `tol` -/
def keptOf (a : List ρ) (σ : List Nat) (tol : ρ) : List Nat :=
  (List.range (cumsumAlong a σ).length).filter fun i => decide (tol < (cumsumAlong a σ).getD i 0)

theorem keptOf_pairwise (a : List ρ) (σ : List Nat) (tol : ρ) : (keptOf a σ tol).Pairwise (· < ·) :=
  List.Pairwise.filter _ List.pairwise_lt_range

theorem mem_keptOf (a : List ρ) (σ : List Nat) (tol : ρ) (j : Nat) :
    j ∈ keptOf a σ tol ↔ j < a.length ∧ tol < (cumsumAlong a σ).getD j 0 := by
  simp [keptOf, cumsumAlong_length]

/-- sum of the weights over a list of indices -/
def wsum (a : List ρ) (l : List Nat) : ρ := (l.map fun i => a.getD i 0).sum

theorem getD_nonneg (a : List ρ) (hnn : ∀ x ∈ a, 0 ≤ x) (i : Nat) : 0 ≤ a.getD i 0 := by
  rw [List.getD_eq_getElem?_getD]
  rcases h : a[i]? with _ | x
  · simp
  · exact hnn x (List.mem_of_getElem? h)

theorem wsum_nonneg (a : List ρ) (hnn : ∀ x ∈ a, 0 ≤ x) (l : List Nat) : 0 ≤ wsum a l := by
  apply List.sum_nonneg
  intro x hx
  obtain ⟨i, _, rfl⟩ := List.mem_map.1 hx
  exact getD_nonneg a hnn i

theorem prefSum_mono (a : List ρ) (hnn : ∀ x ∈ a, 0 ≤ x) (σ : List Nat) {p q : Nat} (hpq : p ≤ q) :
    prefSum a σ p ≤ prefSum a σ q := by
  unfold prefSum
  have : σ.take (q + 1) = σ.take (p + 1) ++ (σ.take (q + 1)).drop (p + 1) := by
    have h := (List.take_append_drop (p + 1) (σ.take (q + 1))).symm
    rwa [List.take_take, Nat.min_eq_left (Nat.succ_le_succ hpq)] at h
  rw [this, List.map_append, List.sum_append]
  have := wsum_nonneg a hnn ((σ.take (q + 1)).drop (p + 1))
  unfold wsum at this
  linarith

theorem getD_le_prefSum (a : List ρ) (hnn : ∀ x ∈ a, 0 ≤ x) (σ : List Nat) (p : Nat) (hp : p < σ.length) :
    a.getD σ[p] 0 ≤ prefSum a σ p := by
  rw [prefSum_eq_take_add a σ p hp]
  have := wsum_nonneg a hnn (σ.take p)
  unfold wsum at this
  linarith

/-- number of positions of `σ` whose cumulative sum is `≤ tol` -/
def cut (a : List ρ) (σ : List Nat) (tol : ρ) : Nat := countBelow (fun p => prefSum a σ p ≤ tol) σ.length

theorem cut_le (a : List ρ) (σ : List Nat) (tol : ρ) : cut a σ tol ≤ σ.length := countBelow_le _ _

theorem prefSum_le_iff_lt_cut (a : List ρ) (hnn : ∀ x ∈ a, 0 ≤ x) (σ : List Nat) (tol : ρ)
    (p : Nat) (hp : p < σ.length) : prefSum a σ p ≤ tol ↔ p < cut a σ tol :=
  countBelow_spec (fun p => prefSum a σ p ≤ tol)
    (fun _ _ hpq h => (prefSum_mono a hnn σ hpq).trans h) σ.length p hp

section perm
variable {a : List ρ} {σ : List Nat} (hσ : σ.Perm (List.range a.length))
include hσ

theorem perm_nodup : σ.Nodup := hσ.nodup_iff.2 List.nodup_range
theorem perm_length : σ.length = a.length := by simpa using hσ.length_eq
theorem perm_mem_iff (j : Nat) : j ∈ σ ↔ j < a.length := by simpa using hσ.mem_iff (a := j)
theorem perm_getElem_lt (p : Nat) (hp : p < σ.length) : σ[p] < a.length :=
  (perm_mem_iff hσ _).1 (List.getElem_mem hp)

theorem getElem_mem_keptOf_iff (tol : ρ) (p : Nat) (hp : p < σ.length) :
    σ[p] ∈ keptOf a σ tol ↔ tol < prefSum a σ p := by
  rw [mem_keptOf, cumsumAlong_getD_pos a σ (perm_nodup hσ) p hp (perm_getElem_lt hσ p hp)]
  simp [perm_getElem_lt hσ p hp]

/-- structure lemma: the discarded indices are exactly the first `cut a σ tol` entries of `σ` -/
theorem not_mem_keptOf_iff (hnn : ∀ x ∈ a, 0 ≤ x) (tol : ρ) (j : Nat) :
    (j < a.length ∧ j ∉ keptOf a σ tol) ↔ j ∈ σ.take (cut a σ tol) := by
  constructor
  · rintro ⟨hj, hnk⟩
    obtain ⟨p, hp, rfl⟩ := List.getElem_of_mem ((perm_mem_iff hσ j).2 hj)
    rw [getElem_mem_keptOf_iff hσ tol p hp, not_lt, prefSum_le_iff_lt_cut a hnn σ tol p hp] at hnk
    rw [List.mem_take_iff_getElem]
    exact ⟨p, by omega, rfl⟩
  · intro hj
    rw [List.mem_take_iff_getElem] at hj
    obtain ⟨p, hp, rfl⟩ := hj
    have hp' : p < σ.length := by omega
    refine ⟨perm_getElem_lt hσ p hp', ?_⟩
    rw [getElem_mem_keptOf_iff hσ tol p hp', not_lt, prefSum_le_iff_lt_cut a hnn σ tol p hp']
    omega

/-- the kept indices are exactly the remaining entries of `σ` -/
theorem mem_keptOf_iff_drop (hnn : ∀ x ∈ a, 0 ≤ x) (tol : ρ) (j : Nat) :
    j ∈ keptOf a σ tol ↔ j ∈ σ.drop (cut a σ tol) := by
  have hnd := perm_nodup hσ
  rw [← List.take_append_drop (cut a σ tol) σ] at hnd
  have hdisj : ∀ x ∈ σ.take (cut a σ tol), ∀ y ∈ σ.drop (cut a σ tol), x ≠ y :=
    (List.nodup_append.1 hnd).2.2
  constructor
  · intro hj
    have hlt := ((mem_keptOf a σ tol j).1 hj).1
    have hmem : j ∈ σ.take (cut a σ tol) ++ σ.drop (cut a σ tol) := by
      rw [List.take_append_drop]; exact (perm_mem_iff hσ j).2 hlt
    rcases List.mem_append.1 hmem with h | h
    · exact absurd hj ((not_mem_keptOf_iff hσ hnn tol j).2 h).2
    · exact h
  · intro hj
    by_contra hnk
    have hlt : j < a.length := (perm_mem_iff hσ j).1 (List.mem_of_mem_drop hj)
    exact hdisj j ((not_mem_keptOf_iff hσ hnn tol j).1 ⟨hlt, hnk⟩) j hj rfl

/-- the discarded indices, in ascending order -/
def discardedOf (a : List ρ) (σ : List Nat) (tol : ρ) : List Nat :=
  (List.range a.length).filter fun j => decide (j ∉ keptOf a σ tol)

omit hσ in
theorem mem_discardedOf (tol : ρ) (j : Nat) :
    j ∈ discardedOf a σ tol ↔ j < a.length ∧ j ∉ keptOf a σ tol := by
  simp [discardedOf]

theorem discardedOf_perm (hnn : ∀ x ∈ a, 0 ≤ x) (tol : ρ) :
    (discardedOf a σ tol).Perm (σ.take (cut a σ tol)) := by
  rw [List.perm_ext_iff_of_nodup (by unfold discardedOf; exact List.nodup_range.filter _)
    ((perm_nodup hσ).sublist (List.take_sublist _ _))]
  intro j
  rw [mem_discardedOf, not_mem_keptOf_iff hσ hnn]

theorem wsum_discardedOf (hnn : ∀ x ∈ a, 0 ≤ x) (tol : ρ) :
    wsum a (discardedOf a σ tol) = wsum a (σ.take (cut a σ tol)) :=
  ((discardedOf_perm hσ hnn tol).map _).sum_eq

/-- the discarded weight is at most the tolerance -/
theorem discarded_sum_le (hnn : ∀ x ∈ a, 0 ≤ x) (tol : ρ) (htol : 0 ≤ tol) :
    wsum a (discardedOf a σ tol) ≤ tol := by
  rw [wsum_discardedOf hσ hnn]
  rcases Nat.eq_zero_or_pos (cut a σ tol) with h0 | hpos
  · rw [h0]; simpa [wsum] using htol
  · have hle := cut_le a σ tol
    have := (prefSum_le_iff_lt_cut a hnn σ tol (cut a σ tol - 1) (by omega)).2 (by omega)
    unfold prefSum at this
    rwa [Nat.sub_add_cancel hpos] at this

section sorted
variable (hs : (σ.map fun i => a.getD i 0).Pairwise (· ≤ ·))
include hs

omit hσ in
theorem sorted_getElem_le {p q : Nat} (hpq : p ≤ q) (hq : q < σ.length) :
    a.getD (σ[p]'(by omega)) 0 ≤ a.getD σ[q] 0 := by
  rcases Nat.eq_or_lt_of_le hpq with rfl | hlt
  · exact le_refl _
  · have := List.pairwise_iff_getElem.1 hs p q (by simp; omega) (by simpa using hq) hlt
    simpa using this

/-- no kept weight is smaller than a discarded one -/
theorem kept_ge_discarded (hnn : ∀ x ∈ a, 0 ≤ x) (tol : ρ) {i j : Nat}
    (hi : i ∈ keptOf a σ tol) (hj : j < a.length) (hjn : j ∉ keptOf a σ tol) :
    a.getD j 0 ≤ a.getD i 0 := by
  have hil := ((mem_keptOf a σ tol i).1 hi).1
  obtain ⟨p, hp, rfl⟩ := List.getElem_of_mem ((perm_mem_iff hσ i).2 hil)
  obtain ⟨q, hq, rfl⟩ := List.getElem_of_mem ((perm_mem_iff hσ j).2 hj)
  rw [getElem_mem_keptOf_iff hσ tol p hp, ← not_le, prefSum_le_iff_lt_cut a hnn σ tol p hp] at hi
  rw [getElem_mem_keptOf_iff hσ tol q hq, not_lt, prefSum_le_iff_lt_cut a hnn σ tol q hq] at hjn
  exact sorted_getElem_le hs (by omega) hp

/-- discarding any one more kept weight would exceed the tolerance -/
theorem lt_discarded_add_kept (hnn : ∀ x ∈ a, 0 ≤ x) (tol : ρ) {i : Nat}
    (hi : i ∈ keptOf a σ tol) : tol < wsum a (discardedOf a σ tol) + a.getD i 0 := by
  have hil := ((mem_keptOf a σ tol i).1 hi).1
  obtain ⟨p, hp, rfl⟩ := List.getElem_of_mem ((perm_mem_iff hσ i).2 hil)
  rw [getElem_mem_keptOf_iff hσ tol p hp, ← not_le, prefSum_le_iff_lt_cut a hnn σ tol p hp] at hi
  have hk : cut a σ tol < σ.length := by omega
  have h1 : ¬ prefSum a σ (cut a σ tol) ≤ tol := by
    rw [prefSum_le_iff_lt_cut a hnn σ tol _ hk]; omega
  rw [prefSum_eq_take_add a σ _ hk] at h1
  have h2 := sorted_getElem_le hs (Nat.le_of_not_lt hi) hp
  rw [wsum_discardedOf hσ hnn]
  unfold wsum
  linarith [not_le.1 h1]

/-- kept weights are positive -/
theorem kept_pos (hnn : ∀ x ∈ a, 0 ≤ x) (tol : ρ) (htol : 0 ≤ tol) {i : Nat}
    (hi : i ∈ keptOf a σ tol) : 0 < a.getD i 0 := by
  have h1 := lt_discarded_add_kept hσ hs hnn tol hi
  have h2 := discarded_sum_le hσ hnn tol htol
  linarith

end sorted

/-- every weight above the tolerance is kept -/
theorem kept_of_lt (hnn : ∀ x ∈ a, 0 ≤ x) (tol : ρ) {i : Nat} (hi : i < a.length)
    (hlt : tol < a.getD i 0) : i ∈ keptOf a σ tol := by
  obtain ⟨p, hp, rfl⟩ := List.getElem_of_mem ((perm_mem_iff hσ i).2 hi)
  rw [getElem_mem_keptOf_iff hσ tol p hp]
  exact lt_of_lt_of_le hlt (getD_le_prefSum a hnn σ p hp)

end perm

/-! ## total weight -/

theorem wsum_filter_add (a : List ρ) (P : Nat → Bool) (l : List Nat) :
    wsum a (l.filter P) + wsum a (l.filter fun i => !P i) = wsum a l := by
  unfold wsum
  induction l with
  | nil => simp
  | cons x l ih =>
    cases h : P x
    · simp only [List.filter_cons, h, Bool.not_false, List.map_cons, List.sum_cons]
      simp only [Bool.false_eq_true, if_false, if_true, List.map_cons, List.sum_cons]
      linarith
    · simp only [List.filter_cons, h, Bool.not_true, List.map_cons, List.sum_cons]
      simp only [Bool.false_eq_true, if_false, if_true, List.map_cons, List.sum_cons]
      linarith

theorem wsum_range (a : List ρ) : wsum a (List.range a.length) = a.sum := by
  unfold wsum
  congr 1
  apply List.ext_getElem
  · simp
  · intro i h1 h2
    simp only [List.length_map, List.length_range] at h1
    simp [h1]

theorem wsum_kept_add_discarded (a : List ρ) (σ : List Nat) (tol : ρ) :
    wsum a (keptOf a σ tol) + wsum a (discardedOf a σ tol) = a.sum := by
  have hd : discardedOf a σ tol =
      (List.range a.length).filter fun i => !decide (tol < (cumsumAlong a σ).getD i 0) := by
    unfold discardedOf
    apply List.filter_congr
    intro j hj
    have hj' : j < a.length := by simpa using hj
    simp only [mem_keptOf, hj', true_and, decide_not]
  have hk : keptOf a σ tol =
      (List.range a.length).filter fun i => decide (tol < (cumsumAlong a σ).getD i 0) := by
    unfold keptOf; rw [cumsumAlong_length]
  rw [hd, hk, wsum_filter_add, wsum_range]

end Ptn.C12
